import I18n.Driver.Plural
import I18n.Driver.PluralLR
import I18n.Driver.CheckPlurals
import I18n.Driver.Mo
import I18n.Driver.CFmt
import I18n.Driver.Tags
import I18n.Driver.Date
import I18n.Driver.Locale
import I18n.Driver.PyFmt
import I18n.Driver.Charset
import I18n.Driver.Msg
import I18n.Driver.FmtCheck
import I18n.Driver.Hdr
import I18n.Driver.Po
import I18n.Driver.Deb
import I18n.Driver.PyBrace
import I18n.Driver.Pipeline
import I18n.Driver.Cli
import I18n.Driver.Whole
/- Line-protocol driver: `<model> <op> <args…>` per line on stdin, one canonical line per op on stdout. -/
open I18n.Driver

def step (line : String) : String :=
  match (line.trimAscii.toString.splitOn " ").filter (· ≠ "") with
  | "plural" :: op :: args => Plural.handle op args
  | "plurallr" :: op :: args => PluralLR.handle op args
  | "checkplurals" :: op :: args => CheckPlurals.handle op args
  | "mo" :: op :: args => Mo.handle op args
  | "cfmt" :: op :: args => CFmt.handle op args
  | "tags" :: op :: args => Tags.handle op args
  | "date" :: op :: args => Date.handle op args
  | "locale" :: op :: args => Locale.handle op args
  | "pyfmt" :: op :: args => PyFmt.handle op args
  | "charset" :: op :: args => Charset.handle op args
  | "msg" :: op :: args => Msg.handle op args
  | "fmtcheck" :: op :: args => FmtCheck.handle op args
  | "hdr" :: op :: args => Hdr.handle op args
  | "po" :: op :: args => Po.handle op args
  | "deb" :: op :: args => Deb.handle op args
  | "pybrace" :: op :: args => PyBrace.handle op args
  | "perlbrace" :: op :: args => PyBrace.handlePerl op args
  | "whole" :: op :: args => Whole.handle op args
  | "pipeline" :: op :: args => Pipeline.handle op args
  | "cli" :: op :: args => Cli.handle op args
  | _ => "bad-op"

partial def loop (h : IO.FS.Stream) (out : IO.FS.Stream) : IO Unit := do
  let line ← h.getLine
  if line.isEmpty then return ()
  out.putStrLn (step line)
  loop h out

def main : IO Unit := do
  let stdin ← IO.getStdin
  let stdout ← IO.getStdout
  loop stdin stdout
  stdout.flush
