import I18n.Py
/-!
# Python-operation kit: the target language of the `tools/translate/pytr` translators

One Lean function per Python operation, over `Py.Exc`, partial operations explicit (`Except Py.Exc`).  Core Lean only.
(The MO-loader translator keeps its own copy over `Mo.Err` in `Model/MoKit.lean`, `namespace I18n.Mo.Py`.)
-/
namespace I18n.PyKit
open I18n

/-- `xs[i]` for a literal `i ≥ 0` -/
def listGet {α : Type} (xs : List α) (i : Nat) : Except Py.Exc α :=
  match xs[i]? with
  | some x => .ok x
  | none => .error .IndexError

/-- `xs[i]` for an int `i`: negative indices count from the end -/
def listGetInt {α : Type} (xs : List α) (i : Int) : Except Py.Exc α :=
  if i ≥ 0 then listGet xs i.toNat
  else if i + xs.length ≥ 0 then listGet xs (i + xs.length).toNat
  else .error .IndexError

/-- `d[k]` for a dict kept as an association list with distinct keys (in dict order) -/
def dictGet {κ ν : Type} [DecidableEq κ] (d : List (κ × ν)) (k : κ) : Except Py.Exc ν :=
  match d with
  | [] => .error .KeyError
  | (k', v) :: rest => if k' = k then .ok v else dictGet rest k

/-- `d.keys()` -/
def keys {κ ν : Type} (d : List (κ × ν)) : List κ := d.map (·.1)

/-- `a & b` on sets / key views kept as duplicate-free lists (the order is that of `a`; only `sorted`, `len`, membership and
    one-element unpacking ever look at the result) -/
def setInter {α : Type} [BEq α] (a b : List α) : List α := a.filter (fun k => b.contains k)

/-- `a - b` -/
def setDiff {α : Type} [BEq α] (a b : List α) : List α := a.filter (fun k => !b.contains k)

/-- `list(range(a, b))` -/
def rangeInt (a b : Int) : List Int := (List.range (b - a).toNat).map (fun (k : Nat) => a + (k : Int))

/-- `for x in xs: body` over the loop-carried variables `σ` (no `break`/`continue`/`return` inside); any exception type `ε` -/
def forEach {α σ ε : Type} (xs : List α) (body : α → σ → Except ε σ) (s : σ) : Except ε σ :=
  match xs with
  | [] => .ok s
  | x :: rest =>
    match body x s with
    | .error e => .error e
    | .ok s' => forEach rest body s'

/-- `for x in xs: body` where the body may `return r` (`.inl r`: leave the function with `r`; `.inr s`: next iteration) -/
def forEachRet {α σ ρ ε : Type} (xs : List α) (body : α → σ → Except ε (ρ ⊕ σ)) (s : σ) : Except ε (ρ ⊕ σ) :=
  match xs with
  | [] => .ok (.inr s)
  | x :: rest =>
    match body x s with
    | .error e => .error e
    | .ok (.inl r) => .ok (.inl r)
    | .ok (.inr s') => forEachRet rest body s'

/-- `try: body  except <class>: handler` -/
def tryExcept {α ε : Type} (body : Except ε α) (caught : ε → Bool) (handler : Except ε α) : Except ε α :=
  match body with
  | .ok v => .ok v
  | .error e => if caught e then handler else .error e

/-- `[f(x) for x in xs]`, `map(f, xs)`, `{k: f(v) for k, v in d.items()}` (on pairs), left to right -/
def mapM {α β ε : Type} (f : α → Except ε β) : List α → Except ε (List β)
  | [] => .ok []
  | x :: xs =>
    match f x with
    | .error e => .error e
    | .ok y =>
      match mapM f xs with
      | .error e => .error e
      | .ok ys => .ok (y :: ys)

/-! ### additive block (trb): loops with `break` / `continue` -/

/-- how one iteration of a loop body ended: fell off the end or `continue` (`next`), or `break` (`brk`); with the loop-carried variables -/
inductive Step (σ : Type) where
  | next (s : σ)
  | brk (s : σ)

/-- `for x in xs: body` where the body may `break` / `continue` (no `return` inside) -/
def forEachBrk {α σ ε : Type} (xs : List α) (body : α → σ → Except ε (Step σ)) (s : σ) : Except ε σ :=
  match xs with
  | [] => .ok s
  | x :: rest =>
    match body x s with
    | .error e => .error e
    | .ok (.brk s') => .ok s'
    | .ok (.next s') => forEachBrk rest body s'
/-- `try: body  except <class>: handler  else: orelse` — exceptions of `orelse` are not caught; `orelse` receives what `body` bound -/
def tryExceptElse {α β ε : Type} (body : Except ε α) (caught : ε → Bool) (handler : Except ε β) (orelse : α → Except ε β) : Except ε β :=
  match body with
  | .ok v => orelse v
  | .error e => if caught e then handler else .error e
/-- reading a local that is bound on some paths only (`none` = unbound: `UnboundLocalError`) -/
def bound {α : Type} (x : Option α) : Except Py.Exc α :=
  match x with
  | some v => .ok v
  | none => .error .UnboundLocal

/-! ### additions for tools/translate/pytr/objfn.py (builder trc) — additive block -/

/-- a value that is an int or the constant `...` (Ellipsis) -/
inductive EllInt where
  | ellipsis
  | int (n : Int)
  deriving DecidableEq, Repr, Inhabited

/-- the int in an ordering comparison `x > n` where `x` may be None: `TypeError` for None -/
def intOfOpt (x : Option Int) : Except Py.Exc Int :=
  match x with
  | some n => .ok n
  | none => .error .TypeError

/-- `try: body  except C1: h1  except C2: h2  [else: …]` followed by the rest of the block, when every handler ends in `raise` /
    `continue` / `return` (so the handlers are in tail position): the first clause whose class matches handles the exception -/
def tryElse {α β ε : Type} (body : Except ε α) (handlers : List ((ε → Bool) × Except ε β)) (rest : α → Except ε β) : Except ε β :=
  match body with
  | .ok v => rest v
  | .error e =>
    match handlers.find? (fun h => h.1 e) with
    | some h => h.2
    | none => .error e

/-! ### end of the additions for pytr/objfn.py -/

end I18n.PyKit
