import I18n.PyKit
/-!
# Python-operation kit, second part: loops with `break` / `else`, dict updates, `enumerate`

Target language of `tools/translate/pytr/loops.py` and of the translators that use it.  Same namespace as `I18n/PyKit.lean`
(kept in a file of its own so that parallel work on the kit does not collide).  Core Lean only.
-/
namespace I18n.PyKit
open I18n

/-- what one iteration of a `for` body with `break` in it delivers -/
inductive LoopStep (ρ σ : Type) where
  | ret (r : ρ)      -- `return r` inside the loop
  | brk (s : σ)      -- `break`
  | next (s : σ)     -- end of the body, or `continue`

/-- how such a loop ends -/
inductive LoopEnd (ρ σ : Type) where
  | ret (r : ρ)
  | broke (s : σ)        -- left by `break`: the `else:` clause is skipped
  | exhausted (s : σ)    -- ran to the end: the `else:` clause runs

/-- `for x in xs: body [else: …]` where the body may `break`, `continue` or `return` -/
def forEachCtl {α σ ρ ε : Type} (xs : List α) (body : α → σ → Except ε (LoopStep ρ σ)) (s : σ) : Except ε (LoopEnd ρ σ) :=
  match xs with
  | [] => .ok (.exhausted s)
  | x :: rest =>
    match body x s with
    | .error e => .error e
    | .ok (.ret r) => .ok (.ret r)
    | .ok (.brk s') => .ok (.broke s')
    | .ok (.next s') => forEachCtl rest body s'

/-- `list(enumerate(xs))` -/
def enumerateFrom {α : Type} : Nat → List α → List (Nat × α)
  | _, [] => []
  | i, x :: xs => (i, x) :: enumerateFrom (i + 1) xs

def enumerate {α : Type} (xs : List α) : List (Nat × α) := enumerateFrom 0 xs

/-- `d.get(k)` for a dict kept as an association list with distinct keys -/
def dictGet? {κ ν : Type} [DecidableEq κ] (d : List (κ × ν)) (k : κ) : Option ν :=
  match d with
  | [] => none
  | (k', v) :: rest => if k' = k then some v else dictGet? rest k

/-- `d[k] = v`: replace the value of an existing key (its position stays), else append -/
def dictSet {κ ν : Type} [DecidableEq κ] (d : List (κ × ν)) (k : κ) (v : ν) : List (κ × ν) :=
  match d with
  | [] => [(k, v)]
  | (k', v') :: rest => if k' = k then (k', v) :: rest else (k', v') :: dictSet rest k v

/-- `except KeyError:` -/
def isKeyError : Py.Exc → Bool
  | .KeyError => true
  | _ => false

/-! ## third part (round 3, C07): state at the time of an exception, extended numbers, defaultdict(list), slice assignment -/

/-- how the body of a `try` whose handlers read variables the body assigns ends: an exception together with the values of those
    variables at the time it was raised, or normally -/
inductive TryEnd (ε χ α : Type) where
  | raised (e : ε) (snap : χ)
  | done (a : α)

/-- an int or the float `1e999` (= inf); the only float the translated code mentions -/
inductive IntInf where
  | fin (i : Int)
  | inf
  deriving DecidableEq, Repr

/-- the literal `1e999` -/
def infinity : IntInf := .inf

/-- `a + b` -/
def IntInf.add : IntInf → IntInf → IntInf
  | .fin a, .fin b => .fin (a + b)
  | _, _ => .inf

/-- `a < b` -/
def IntInf.lt : IntInf → IntInf → Bool
  | .fin a, .fin b => decide (a < b)
  | .fin _, .inf => true
  | .inf, _ => false

/-- `d[k] += vs` on a `collections.defaultdict(list)`: extend the list of an existing key (its position stays), else append the key -/
def defaultListExtend {κ ν : Type} [DecidableEq κ] (d : List (κ × List ν)) (k : κ) (vs : List ν) : List (κ × List ν) :=
  match d with
  | [] => [(k, vs)]
  | (k', v') :: rest => if k' = k then (k', v' ++ vs) :: rest else (k', v') :: defaultListExtend rest k vs

/-- `k in d` -/
def dictMem {κ ν : Type} [DecidableEq κ] (d : List (κ × ν)) (k : κ) : Bool := d.any (fun p => decide (p.1 = k))

/-- `xs[-k:] = ys` for a literal `k > 0` -/
def setTail {α : Type} (xs : List α) (k : Nat) (ys : List α) : List α := xs.take (xs.length - k) ++ ys

/-- a caught exception class is a constructor of `Py.Exc` -/
def isExc (c e : Py.Exc) : Bool := decide (e = c)

end I18n.PyKit
