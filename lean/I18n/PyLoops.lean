import I18n.PyKit
/-!
# Python-operation kit, second part: loops with `break` / `else`, dict updates, `enumerate`

Target language of `tools/translate/pytr/loops.py` and of the translators that use it.  Same namespace as `I18n/PyKit.lean`
(kept in a file of its own so that parallel work on the kit does not collide).  Core Lean only.
-/
namespace I18n.PyKit
open I18n

/-- what one iteration of a `for` body with `break` in it delivers -/
inductive LoopStep (ρ σ : Type) where
  | ret (r : ρ)      -- `return r` inside the loop
  | brk (s : σ)      -- `break`
  | next (s : σ)     -- end of the body, or `continue`

/-- how such a loop ends -/
inductive LoopEnd (ρ σ : Type) where
  | ret (r : ρ)
  | broke (s : σ)        -- left by `break`: the `else:` clause is skipped
  | exhausted (s : σ)    -- ran to the end: the `else:` clause runs

/-- `for x in xs: body [else: …]` where the body may `break`, `continue` or `return` -/
def forEachCtl {α σ ρ ε : Type} (xs : List α) (body : α → σ → Except ε (LoopStep ρ σ)) (s : σ) : Except ε (LoopEnd ρ σ) :=
  match xs with
  | [] => .ok (.exhausted s)
  | x :: rest =>
    match body x s with
    | .error e => .error e
    | .ok (.ret r) => .ok (.ret r)
    | .ok (.brk s') => .ok (.broke s')
    | .ok (.next s') => forEachCtl rest body s'

/-- `list(enumerate(xs))` -/
def enumerateFrom {α : Type} : Nat → List α → List (Nat × α)
  | _, [] => []
  | i, x :: xs => (i, x) :: enumerateFrom (i + 1) xs

def enumerate {α : Type} (xs : List α) : List (Nat × α) := enumerateFrom 0 xs

/-- `d.get(k)` for a dict kept as an association list with distinct keys -/
def dictGet? {κ ν : Type} [DecidableEq κ] (d : List (κ × ν)) (k : κ) : Option ν :=
  match d with
  | [] => none
  | (k', v) :: rest => if k' = k then some v else dictGet? rest k

/-- `d[k] = v`: replace the value of an existing key (its position stays), else append -/
def dictSet {κ ν : Type} [DecidableEq κ] (d : List (κ × ν)) (k : κ) (v : ν) : List (κ × ν) :=
  match d with
  | [] => [(k, v)]
  | (k', v') :: rest => if k' = k then (k', v) :: rest else (k', v') :: dictSet rest k v

/-- `except KeyError:` -/
def isKeyError : Py.Exc → Bool
  | .KeyError => true
  | _ => false

end I18n.PyKit
