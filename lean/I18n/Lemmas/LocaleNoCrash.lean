import I18n.Lemmas.LocaleTags
/-
`check_language` raises nothing, except the `assert ext == '.po'` for a base name that `os.path.splitext` gives no extension
(dots followed by `po`), which `Checker.check()` only lets through under the hidden `--file-type` option.
-/
namespace I18n.Locale
open I18n I18n.Spec.LocaleTags

theorem splitOn_ne_nil (sep : Char) (s : List Char) : splitOn sep s ≠ [] := by
  induction s with
  | nil => simp [splitOn]
  | cons c r ih =>
    simp only [splitOn]
    split
    · simp
    · split <;> simp

theorem splitOn_single (sep : Char) (r h : List Char) (hs : splitOn sep r = [h]) : h = r := by
  induction r generalizing h with
  | nil => simp [splitOn] at hs; exact hs
  | cons d r' ih =>
    simp only [splitOn] at hs
    split at hs
    · simp at hs
      exact absurd hs.2 (splitOn_ne_nil sep r')
    · cases hs' : splitOn sep r' with
      | nil => exact absurd hs' (splitOn_ne_nil sep r')
      | cons h' t' =>
        rw [hs'] at hs
        simp at hs
        obtain ⟨rfl, rfl⟩ := hs
        rw [ih h' hs']

theorem last_splitOn_suffix (p : List Char) : ((splitOn '/' p).getLast?).getD [] <:+ p := by
  induction p with
  | nil => simp [splitOn]
  | cons c r ih =>
    cases hs : splitOn '/' r with
    | nil => exact absurd hs (splitOn_ne_nil '/' r)
    | cons h t =>
      rw [hs] at ih
      simp only [splitOn, hs]
      split
      · simp only [List.getLast?_cons, Option.getD_some] at ih ⊢
        exact ih.trans (List.suffix_cons c r)
      · cases t with
        | nil =>
          have := splitOn_single '/' r h hs
          subst this
          simp
        | cons t1 t2 =>
          simp only [List.getLast?_cons, Option.getD_some] at ih ⊢
          exact ih.trans (List.suffix_cons c r)

theorem basename_suffix (p : List Char) : basename p <:+ p := last_splitOn_suffix p

theorem splitext_suffix (b : List Char) : (splitext b).2 <:+ b := by
  unfold splitext
  simp only
  split
  · exact List.nil_suffix
  · split
    · exact List.nil_suffix
    · exact List.drop_suffix _ _

/-- the extensions `Checker.check()` accepts when it derives the file type from the name -/
def knownExtension (path : List Char) : Bool :=
  [".po".toList, ".pot".toList, ".mo".toList, ".gmo".toList].contains (splitext (basename path)).2

theorem ext_po_of_gate (path : List Char) (hg : knownExtension path = true) (hsuf : ".po".toList.isSuffixOf path = true) :
    (splitext (basename path)).2 = ".po".toList := by
  have h1 : (splitext (basename path)).2 <:+ path := (splitext_suffix _).trans (basename_suffix path)
  have h2 : ".po".toList <:+ path := List.isSuffixOf_iff_suffix.1 hsuf
  unfold knownExtension at hg
  simp only [List.contains_cons, List.contains_nil, Bool.or_false, Bool.or_eq_true, beq_iff_eq] at hg
  rcases hg with hg | hg | hg | hg
  · exact hg
  · rw [hg] at h1
    exact absurd (List.suffix_of_suffix_length_le h2 h1 (by decide)) (by decide)
  · rw [hg] at h1
    exact absurd (List.suffix_of_suffix_length_le h1 h2 (by decide)) (by decide)
  · rw [hg] at h1
    exact absurd (List.suffix_of_suffix_length_le h2 h1 (by decide)) (by decide)

/-- the base names for which `os.path.splitext` yields no `.po` although they end in `.po`: dots followed by `po` -/
theorem splitext_po_failure (b : List Char) (hs : ".po".toList <:+ b) (he : (splitext b).2 ≠ ".po".toList) :
    ∃ n, b = List.replicate (n + 1) '.' ++ "po".toList := by
  obtain ⟨root, hroot⟩ := hs
  subst hroot
  have hrev : (root ++ ".po".toList).reverse = 'o' :: 'p' :: '.' :: root.reverse := by simp
  have htw : ((root ++ ".po".toList).reverse.takeWhile (· ≠ '.')) = ['o', 'p'] := by
    rw [hrev]; simp [List.takeWhile]
  unfold splitext at he
  simp only [htw] at he
  have hlen : (root ++ ".po".toList).length = root.length + 3 := by simp
  have h2 : ¬ ((['o', 'p'] : List Char).length = (root ++ ".po".toList).length) := by rw [hlen]; simp
  rw [if_neg h2] at he
  have htake : (root ++ ".po".toList).take ((root ++ ".po".toList).length - (['o', 'p'] : List Char).length - 1) = root := by
    rw [hlen]; simp
  have hdrop : (root ++ ".po".toList).drop ((root ++ ".po".toList).length - (['o', 'p'] : List Char).length - 1) = ".po".toList := by
    rw [hlen]; simp
  rw [htake, hdrop] at he
  by_cases hall : (root.all (· = '.')) = true
  · refine ⟨root.length, ?_⟩
    have : root = List.replicate root.length '.' := by
      apply List.eq_replicate_iff.2
      refine ⟨rfl, ?_⟩
      intro c hc
      have := List.all_eq_true.1 hall c hc
      simpa using this
    rw [List.replicate_succ', ← this]
    simp
  · rw [if_neg hall] at he
    exact absurd rfl he


theorem splitOn_nosep (sep : Char) (r : List Char) (h : ∀ x ∈ r, x ≠ sep) : splitOn sep r = [r] := by
  induction r with
  | nil => rfl
  | cons c t ih =>
    have hc : c ≠ sep := h c (by simp)
    have := ih (fun x hx => h x (by simp [hx]))
    simp [splitOn, hc, this]

/-- a string without `/` that ends the path also ends the base name -/
theorem suffix_basename (s p : List Char) (hs : ∀ x ∈ s, x ≠ '/') (h : s <:+ p) : s <:+ basename p := by
  unfold basename
  induction p with
  | nil =>
    have : s = [] := by simpa using h
    subst this; exact List.nil_suffix
  | cons c r ih =>
    rcases List.suffix_cons_iff.1 h with heq | hsr
    · subst heq
      rw [splitOn_nosep '/' (c :: r) hs]
      simp
    · have ihr := ih hsr
      cases hsp : splitOn '/' r with
      | nil => exact absurd hsp (splitOn_ne_nil '/' r)
      | cons hd t =>
        rw [hsp] at ihr
        simp only [splitOn, hsp]
        split
        · simpa [List.getLast?_cons] using ihr
        · cases t with
          | nil =>
            simp only [List.getLast?_cons, List.getLast?_nil, Option.getD_none, Option.getD_some] at ihr ⊢
            exact ihr.trans (List.suffix_cons c hd)
          | cons t1 t2 =>
            simpa [List.getLast?_cons] using ihr

/-- the paths on which `check_language` can fail its assertion: `…/<dots>po` -/
theorem assertion_paths (path : List Char) (hsuf : ".po".toList.isSuffixOf path = true)
    (hext : (splitext (basename path)).2 ≠ ".po".toList) :
    ∃ n, basename path = List.replicate (n + 1) '.' ++ "po".toList :=
  splitext_po_failure (basename path)
    (suffix_basename _ _ (by decide) (List.isSuffixOf_iff_suffix.1 hsuf)) hext

/-- the path stage raises nothing: the base name is consulted only when `os.path.splitext` gives it the extension `.po`, and then
    `assert ext == '.po'` holds (before /repo d16b49e the gate was `path.endswith('.po')` and `.po`, `..po` failed the assertion) -/
theorem stagePath_error (opt : Option Language) (path : List Char) (e : LErr) : stagePath opt path ≠ .error e := by
  intro h
  unfold stagePath at h
  cases opt with
  | some l => cases h
  | none =>
    simp only [lcMessagesLanguage_eq] at h
    cases hlc : (lcMessagesDir path).bind known with
    | some l => simp [hlc] at h
    | none =>
      simp only [hlc, Option.map_none] at h
      by_cases hext : (splitext (basename path)).2 = ".po".toList
      · simp only [hext, if_true] at h
        rw [basenameLanguage_eq _ hext] at h
        cases hb : (known (splitext (basename path)).1).bind (fun l => if l.enc.isSome then none else some (dropEuro l)) with
        | none => simp [hb] at h
        | some l => simp [hb] at h
      · rw [if_neg hext] at h
        cases h

/-- `check_language` raises nothing -/
theorem checkLanguage_error (munch : List Char → List Char) (inp : Input) (e : LErr) : checkLanguage munch inp ≠ .error e := by
  intro h
  unfold checkLanguage at h
  by_cases ht : inp.isTemplate = true
  · simp [ht] at h
  · have ht' : inp.isTemplate = false := by simpa using ht
    simp only [ht', Bool.false_eq_true, if_false] at h
    cases hps : stagePath inp.optLanguage inp.path with
    | error e' => exact stagePath_error _ _ _ hps
    | ok ps =>
      simp only [hps] at h
      cases hfv : (stageMeta inp.metaLanguages).metaLanguage with
      | none =>
        simp only [hfv] at h
        obtain ⟨st', hst, _, _⟩ := stagePoedit_eq munch
          (stageCompare ⟨(stageMeta inp.metaLanguages).tags ++ [] ++ [], ps.language, ps.source⟩ none) inp.poeditLanguages inp.poeditCountries
        rw [hst] at h
        cases h
      | some v =>
        by_cases hve : v = []
        · simp only [hfv, hve, if_true] at h
          obtain ⟨st', hst, _, _⟩ := stagePoedit_eq munch
            (stageCompare ⟨(stageMeta inp.metaLanguages).tags ++ [] ++ [], ps.language, ps.source⟩ none) inp.poeditLanguages inp.poeditCountries
          rw [hst] at h
          cases h
        · simp only [hfv, hve, if_false, stageField_eq] at h
          cases hc : candidate munch v with
          | none =>
            simp only [hc] at h
            generalize hst0 : stageCompare _ _ = st0 at h
            obtain ⟨st', hst, _, _⟩ := stagePoedit_eq munch st0 inp.poeditLanguages inp.poeditCountries
            rw [hst] at h
            cases h
          | some l =>
            simp only [hc, stageNormalise_eq] at h
            generalize hst0 : stageCompare _ _ = st0 at h
            obtain ⟨st', hst, _, _⟩ := stagePoedit_eq munch st0 inp.poeditLanguages inp.poeditCountries
            rw [hst] at h
            cases h

/-- NoCrash: `check_language` returns, for every path, option and header (also under the hidden `--file-type` option) -/
theorem checkLanguage_nocrash (munch : List Char → List Char) (inp : Input) : ∃ out, checkLanguage munch inp = .ok out := by
  cases h : checkLanguage munch inp with
  | ok out => exact ⟨out, rfl⟩
  | error e => exact absurd h (checkLanguage_error munch inp e)

end I18n.Locale
