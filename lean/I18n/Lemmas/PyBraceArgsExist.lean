import I18n.Lemmas.PyBraceFormat
/-
python-brace: every accepted string has arguments of the reported positions, names and types (`Matches` is never
vacuous): the keys of `argument_map` are distinct, every key has at least one entry, the entries of a key carry one
non-empty type set.
-/
namespace I18n.PyBrace
open I18n.Spec.StrFormat

/-- a value of one of the types of a non-empty set -/
def valOf (tp : TySet) : Val := if tp.int then .int 65 else if tp.float then .float else .str

theorem valOf_hasType {tp : TySet} (h : tp.isEmpty = false) : hasType tp (valOf tp) = true := by
  obtain ⟨s, i, f⟩ := tp
  cases s <;> cases i <;> cases f <;> simp_all [valOf, hasType, TySet.isEmpty]

theorem valOf_chr (tp : TySet) : chrOK (valOf tp) := by
  simp only [valOf]
  split
  · simp [chrOK]
  · split <;> trivial

def headTypes (as : List Arg) : TySet :=
  match as with
  | a :: _ => a.types
  | [] => TySet.all

def maxIdx (m : List (Key × List Arg)) : Nat :=
  m.foldl (fun acc p => match p.1 with | .idx n => max acc n | .name _ => acc) 0

/-- canonical arguments for a reported signature -/
def argsOf (m : List (Key × List Arg)) : Args :=
  { pos := (List.range (maxIdx m + 1)).map fun n =>
      match m.find? (fun p => p.1 == Key.idx n) with
      | some p => valOf (headTypes p.2)
      | none => .str,
    kw := m.filterMap fun p =>
      match p.1 with
      | .name nm => some (nm, valOf (headTypes p.2))
      | .idx _ => none }

theorem foldl_max_ge (m : List (Key × List Arg)) : ∀ acc, acc ≤ m.foldl (fun acc p => match p.1 with | .idx n => max acc n | .name _ => acc) acc := by
  induction m with
  | nil => intro acc; simp
  | cons p m ih =>
    intro acc
    simp only [List.foldl_cons]
    cases p.1 with
    | idx n => exact Nat.le_trans (Nat.le_max_left acc n) (ih _)
    | name s => exact ih _

theorem le_maxIdx {m : List (Key × List Arg)} {n : Nat} {as : List Arg} (h : (Key.idx n, as) ∈ m) : n ≤ maxIdx m := by
  have : ∀ (m : List (Key × List Arg)) acc, (Key.idx n, as) ∈ m →
      n ≤ m.foldl (fun acc p => match p.1 with | .idx n => max acc n | .name _ => acc) acc := by
    intro m
    induction m with
    | nil => intro acc h; simp at h
    | cons p m ih =>
      intro acc h
      simp only [List.mem_cons] at h
      simp only [List.foldl_cons]
      rcases h with rfl | h
      · exact Nat.le_trans (Nat.le_max_right acc n) (foldl_max_ge m _)
      · exact ih _ h
  exact this m 0 h

theorem find_key {m : List (Key × List Arg)} (hnd : (m.map (·.1)).Nodup) {k : Key} {as : List Arg} (h : (k, as) ∈ m) :
    m.find? (fun p => p.1 == k) = some (k, as) := by
  induction m with
  | nil => simp at h
  | cons p m ih =>
    simp only [List.map_cons, List.nodup_cons] at hnd
    simp only [List.mem_cons] at h
    rcases h with rfl | h
    · simp
    · have hne : (p.1 == k) = false := by
        have : p.1 ≠ k := by
          rintro rfl
          exact hnd.1 (List.mem_map.mpr ⟨(p.1, as), h, rfl⟩)
        simpa using this
      simp only [List.find?_cons, hne]
      exact ih hnd.2 h

theorem find_kw {m : List (Key × List Arg)} (hnd : (m.map (·.1)).Nodup) {nm : List Char} {as : List Arg}
    (h : (Key.name nm, as) ∈ m) :
    (m.filterMap fun p => match p.1 with | .name nm => some (nm, valOf (headTypes p.2)) | .idx _ => none).find? (fun q => q.1 == nm)
      = some (nm, valOf (headTypes as)) := by
  induction m with
  | nil => simp at h
  | cons p m ih =>
    simp only [List.map_cons, List.nodup_cons] at hnd
    simp only [List.mem_cons] at h
    obtain ⟨k, as'⟩ := p
    rcases h with h | h
    · simp only [Prod.mk.injEq] at h
      obtain ⟨rfl, rfl⟩ := h
      simp
    · cases k with
      | idx n => simp only [List.filterMap_cons]; exact ih hnd.2 h
      | name nm' =>
        have hne : nm' ≠ nm := by
          rintro rfl
          exact hnd.1 (List.mem_map.mpr ⟨(Key.name nm', as), h, rfl⟩)
        simp only [List.filterMap_cons, List.find?_cons]
        have : (nm' == nm) = false := by simpa using hne
        simp only [this]
        exact ih hnd.2 h

/-- the signature is well formed: distinct keys, and under every key a non-empty list of entries with one non-empty type set -/
def SigOK (m : List (Key × List Arg)) : Prop :=
  (m.map (·.1)).Nodup ∧ ∀ k as, (k, as) ∈ m → as ≠ [] ∧ ∃ c : TySet, c.isEmpty = false ∧ ∀ x ∈ as, x.types = c

theorem matches_argsOf (items : List Item) {m : List (Key × List Arg)} (h : SigOK m) :
    Matches { items := items, argMap := m } (argsOf m) := by
  intro k as hk
  have hk : (k, as) ∈ m := hk
  obtain ⟨hne, c, hc, hall⟩ := h.2 k as hk
  have hhead : headTypes as = c := by
    cases as with
    | nil => exact absurd rfl hne
    | cons a as' => exact hall a (by simp)
  refine ⟨valOf c, ?_, fun x hx => by rw [hall x hx]; exact valOf_hasType hc, valOf_chr c⟩
  cases k with
  | idx n =>
    have hn := le_maxIdx hk
    have hr : (List.range (maxIdx m + 1))[n]? = some n := by
      rw [List.getElem?_range]; omega
    simp only [lookupArg, argsOf, List.getElem?_map, hr, Option.map_some, find_key h.1 hk, hhead]
  | name nm =>
    simp only [lookupArg, argsOf, find_kw h.1 hk, hhead, Option.map_some]

/-! ### the invariant of `_argument_map` -/

def MapOK (m : List (Key × List Arg)) : Prop :=
  (m.map (·.1)).Nodup ∧ ∀ k as, (k, as) ∈ m → as ≠ []

theorem mapAdd_keys (m : List (Key × List Arg)) (k : Key) (x : Arg) :
    (mapAdd m k x).map (·.1) = if k ∈ m.map (·.1) then m.map (·.1) else m.map (·.1) ++ [k] := by
  induction m with
  | nil => simp [mapAdd]
  | cons p m ih =>
    obtain ⟨k', as⟩ := p
    simp only [mapAdd]
    by_cases hk : k' = k
    · subst hk; simp
    · have hk' : ¬ k = k' := fun h => hk h.symm
      simp only [hk, if_false, List.map_cons, ih, List.mem_cons, hk', false_or]
      split <;> simp

theorem mapAdd_ok {m : List (Key × List Arg)} (h : MapOK m) (k : Key) (x : Arg) : MapOK (mapAdd m k x) := by
  constructor
  · rw [mapAdd_keys]
    split
    · exact h.1
    · rename_i hk
      exact List.nodup_append.mpr ⟨h.1, by simp, by intro a ha b hb; simp at hb; subst hb; rintro rfl; exact hk ha⟩
  · have : ∀ (m : List (Key × List Arg)), (∀ k as, (k, as) ∈ m → as ≠ []) → ∀ k' as', (k', as') ∈ mapAdd m k x → as' ≠ [] := by
      intro m
      induction m with
      | nil => intro _ k' as' hm; simp [mapAdd] at hm; rw [hm.2]; simp
      | cons p m ih =>
        obtain ⟨k0, as0⟩ := p
        intro hne k' as' hm
        simp only [mapAdd] at hm
        split at hm
        · simp only [List.mem_cons, Prod.mk.injEq] at hm
          rcases hm with ⟨_, rfl⟩ | hm
          · simp
          · exact hne k' as' (by simp [hm])
        · simp only [List.mem_cons, Prod.mk.injEq] at hm
          rcases hm with ⟨rfl, rfl⟩ | hm
          · exact hne k' as' (by simp)
          · exact ih (fun k as h => hne k as (by simp [h])) k' as' hm
    exact this m h.2

theorem addArgument_mapOK {cfg : Cfg} {st st' : State} {name : Option (List Char)} {x : Arg}
    (h : addArgument cfg st name x = .ok st') (hm : MapOK st.map) : MapOK st'.map := by
  rw [(addArgument_ok h).1]; exact mapAdd_ok hm _ _

theorem nestedAdds_mapOK {cfg : Cfg} {text : List Char} : ∀ (ns : List (List Char)) (st st' : State),
    nestedAdds cfg text ns st = .ok st' → MapOK st.map → MapOK st'.map := by
  intro ns
  induction ns with
  | nil => intro st st' h hm; simp [nestedAdds] at h; subst h; exact hm
  | cons nm rest ih =>
    intro st st' h hm
    simp only [nestedAdds] at h
    split at h
    · cases h
    · rename_i st1 hl
      exact ih st1 st' h (addArgument_mapOK (liftAdd_ok hl) hm)

theorem fieldInit_mapOK {cfg : Cfg} {st st' : State} {f : RawField} {tp : TySet} (h : fieldInit cfg st f = .ok (st', tp))
    (hm : MapOK st.map) : MapOK st'.map := by
  simp only [fieldInit] at h
  split at h
  · cases h
  · rename_i st1 hl
    have h1 := addArgument_mapOK (liftAdd_ok hl) hm
    split at h
    · cases h
    · rename_i st2 tp2 h2
      have hst : st' = st2 := by
        split at h
        · cases h; rfl
        · split at h
          · split at h
            · cases h; rfl
            · cases h
          · cases h
      subst hst
      split at h2
      · cases h2; exact h1
      · split at h2
        · split at h2
          · cases h2
          · rename_i st3 hna
            cases h2
            exact nestedAdds_mapOK _ _ _ hna h1
        · split at h2
          · cases h2
          · cases h2
          · cases h2; exact h1

theorem loop_mapOK (cfg : Cfg) : ∀ (fuel : Nat) (cs : List Char) (st : State) (items : List PreItem) (stF : State) (itemsF : List PreItem),
    loop cfg fuel cs st items = .ok (stF, itemsF) → MapOK st.map → MapOK stF.map := by
  intro fuel
  induction fuel with
  | zero =>
    intro cs st items stF itemsF h hm
    cases cs with
    | nil => simp [loop] at h; obtain ⟨rfl, _⟩ := h; exact hm
    | cons c cs => simp [loop] at h
  | succ fuel ih =>
    intro cs st items stF itemsF h hm
    cases cs with
    | nil => simp [loop] at h; obtain ⟨rfl, _⟩ := h; exact hm
    | cons c cs =>
      simp only [loop] at h
      cases hlit : scanLiteral (c :: cs).length (c :: cs) with
      | mk t rest =>
        rw [hlit] at h
        cases t with
        | cons t0 ts => exact ih _ _ _ _ _ h hm
        | nil =>
          simp only at h
          split at h
          · cases h
          · split at h
            · cases h
            · rename_i st' tp hfi
              exact ih _ _ _ _ _ h (fieldInit_mapOK hfi hm)

theorem unify_sigOK (s : List Char) : ∀ (m0 m : List (Key × List Arg)), unify s m0 = .ok m → MapOK m0 → SigOK m := by
  intro m0
  induction m0 with
  | nil => intro m h _; simp [unify] at h; subst h; exact ⟨by simp, by intro k as h; simp at h⟩
  | cons p rest ih =>
    obtain ⟨k0, as0⟩ := p
    intro m h hm
    simp only [unify] at h
    split at h
    · cases h
    · rename_i hne
      split at h
      · cases h
      · rename_i m' hu
        cases h
        have hm' : MapOK rest := ⟨(List.nodup_cons.mp hm.1).2, fun k as hk => hm.2 k as (by simp [hk])⟩
        obtain ⟨hnd, hsig⟩ := ih m' hu hm'
        have hkeys : ∀ (m0 m : List (Key × List Arg)), unify s m0 = .ok m → m.map (·.1) = m0.map (·.1) := by
          intro m0
          induction m0 with
          | nil => intro m h; simp [unify] at h; subst h; rfl
          | cons p rest ih2 =>
            obtain ⟨k1, as1⟩ := p
            intro m h
            simp only [unify] at h
            split at h
            · cases h
            · split at h
              · cases h
              · rename_i m'' hu'
                cases h
                simp [ih2 m'' hu']
        constructor
        · simp only [List.map_cons, List.nodup_cons]
          refine ⟨?_, hnd⟩
          rw [hkeys rest m' hu]
          exact (List.nodup_cons.mp hm.1).1
        · intro k as hk
          simp only [List.mem_cons, Prod.mk.injEq] at hk
          rcases hk with ⟨rfl, rfl⟩ | hk
          · have hne0 := hm.2 k as0 (by simp)
            refine ⟨by simpa using hne0, commonTypes as0, by simpa using hne, ?_⟩
            intro x hx
            simp only [List.mem_map] at hx
            obtain ⟨y, _, rfl⟩ := hx
            rfl
          · exact hsig k as hk

/-- every accepted string has arguments of the reported positions, names and types -/
theorem parseWith_matches_exists {cfg : Cfg} (s : List Char) (r : Result) (h : parseWith cfg s = .ok r) : ∃ a, Matches r a := by
  simp only [parseWith] at h
  split at h
  · cases h
  · rename_i stF items hl
    split at h
    · cases h
    · rename_i m hu
      cases h
      have hm := loop_mapOK cfg _ _ _ _ _ _ hl ⟨by simp, by intro k as h; simp at h⟩
      exact ⟨argsOf m, matches_argsOf _ (unify_sigOK s _ _ hu hm)⟩

end I18n.PyBrace
