import I18n.Model.Date
/- `sortedSet` (model of `sorted(set(dates))`): same elements, strictly increasing in code-point order. -/
set_option linter.unusedSimpArgs false
namespace I18n.Date

theorem strLt_irrefl (a : List Char) : strLt a a = false := by
  induction a with
  | nil => rfl
  | cons x xs ih => simp [strLt, ih]

theorem toNat_inj {a b : Char} (h : a.toNat = b.toNat) : a = b := by
  have := congrArg Char.ofNat h
  rwa [Char.ofNat_toNat, Char.ofNat_toNat] at this

theorem strLt_trans {a b c : List Char} (h1 : strLt a b = true) (h2 : strLt b c = true) : strLt a c = true := by
  induction a generalizing b c with
  | nil =>
    cases b with
    | nil => simp [strLt] at h1
    | cons y ys =>
      cases c with
      | nil => simp [strLt] at h2
      | cons z zs => simp [strLt]
  | cons x xs ih =>
    cases b with
    | nil => simp [strLt] at h1
    | cons y ys =>
      cases c with
      | nil => simp [strLt] at h2
      | cons z zs =>
        simp only [strLt] at h1 h2 ⊢
        by_cases hxy : x.toNat < y.toNat
        · by_cases hyz : y.toNat < z.toNat
          · have : x.toNat < z.toNat := by omega
            simp [this]
          · simp only [hyz, if_false] at h2
            by_cases hzy : z.toNat < y.toNat
            · simp [hzy] at h2
            · have : x.toNat < z.toNat := by omega
              simp [this]
        · simp only [hxy, if_false] at h1
          by_cases hyx : y.toNat < x.toNat
          · simp [hyx] at h1
          · simp only [hyx, if_false] at h1
            have exy : x.toNat = y.toNat := by omega
            by_cases hyz : y.toNat < z.toNat
            · have : x.toNat < z.toNat := by omega
              simp [this]
            · simp only [hyz, if_false] at h2
              by_cases hzy : z.toNat < y.toNat
              · simp [hzy] at h2
              · simp only [hzy, if_false] at h2
                have h3 : ¬ x.toNat < z.toNat := by omega
                have h4 : ¬ z.toNat < x.toNat := by omega
                simp only [h3, h4, if_false]
                exact ih h1 h2

theorem strLt_total {a b : List Char} (h1 : strLt a b = false) (h2 : a ≠ b) : strLt b a = true := by
  induction a generalizing b with
  | nil =>
    cases b with
    | nil => exact absurd rfl h2
    | cons y ys => simp [strLt] at h1
  | cons x xs ih =>
    cases b with
    | nil => simp [strLt]
    | cons y ys =>
      simp only [strLt] at h1 ⊢
      by_cases hxy : x.toNat < y.toNat
      · simp [hxy] at h1
      · simp only [hxy, if_false] at h1
        by_cases hyx : y.toNat < x.toNat
        · simp [hyx]
        · simp only [hyx, if_false] at h1 ⊢
          have : x = y := toNat_inj (by omega)
          subst this
          simp only [Nat.lt_irrefl, if_false] at h1 ⊢
          exact ih h1 (fun e => h2 (by rw [e]))

theorem mem_insertU (x y : List Char) (l : List (List Char)) : y ∈ insertU x l ↔ y = x ∨ y ∈ l := by
  induction l with
  | nil => simp [insertU]
  | cons z zs ih =>
    simp only [insertU]
    split
    · rename_i h; subst h; simp
    · split
      · simp
      · simp only [List.mem_cons, ih]
        constructor
        · rintro (h | h | h)
          · exact Or.inr (Or.inl h)
          · exact Or.inl h
          · exact Or.inr (Or.inr h)
        · rintro (h | h | h)
          · exact Or.inr (Or.inl h)
          · exact Or.inl h
          · exact Or.inr (Or.inr h)

/-- `sorted(set(l))` has the elements of `l` -/
theorem mem_sortedSet (y : List Char) (l : List (List Char)) : y ∈ sortedSet l ↔ y ∈ l := by
  induction l with
  | nil => simp [sortedSet]
  | cons x xs ih =>
    have : sortedSet (x :: xs) = insertU x (sortedSet xs) := rfl
    rw [this, mem_insertU, ih]; simp

theorem insertU_sorted (x : List Char) (l : List (List Char)) (h : l.Pairwise (fun a b => strLt a b = true)) :
    (insertU x l).Pairwise (fun a b => strLt a b = true) := by
  induction l with
  | nil => simp [insertU]
  | cons z zs ih =>
    have hz := List.pairwise_cons.mp h
    simp only [insertU]
    split
    · exact h
    · rename_i hne
      split
      · rename_i hlt
        refine List.pairwise_cons.mpr ⟨?_, h⟩
        intro b hb
        cases hb with
        | head => exact hlt
        | tail _ hb => exact strLt_trans hlt (hz.1 b hb)
      · rename_i hnlt
        have hzx : strLt z x = true := strLt_total (by simpa using hnlt) hne
        refine List.pairwise_cons.mpr ⟨?_, ih hz.2⟩
        intro b hb
        rcases (mem_insertU x b zs).mp hb with rfl | hb
        · exact hzx
        · exact hz.1 b hb

/-- … strictly increasing in code-point order (so without repetitions) -/
theorem sortedSet_sorted (l : List (List Char)) : (sortedSet l).Pairwise (fun a b => strLt a b = true) := by
  induction l with
  | nil => simp [sortedSet]
  | cons x xs ih =>
    have : sortedSet (x :: xs) = insertU x (sortedSet xs) := rfl
    rw [this]; exact insertU_sorted x _ ih

end I18n.Date
