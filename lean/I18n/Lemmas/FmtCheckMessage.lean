import I18n.Lemmas.FmtCheckNamed
/-!
# `check_message` in closed form, generically in the back end
-/
namespace I18n.FmtCheck
open I18n I18n.FmtSig I18n.Spec.FmtCompare

variable {σ F : Type}

/-- a back end whose parser only raises its own `Error` classes on the given string -/
def NoCrashOn (b : Backend σ F) (s : σ) : Prop := ∀ e, b.parse s ≠ .crash e

/-- the tags `check_string` emits for `s` -/
def stringTags (b : Backend σ F) (ctx : Ctx) (msg : Msg σ) (s : σ) : List TagCall :=
  match b.parse s with
  | .ok f => b.okTags ctx.isTemplate msg.msgidPlural.isSome msg.pfx msg.repr f
  | .own => [⟨b.errTag, [msg.pfx]⟩]
  | .crash _ => []

/-- the format object `check_string` returns -/
def stringFmt (b : Backend σ F) (s : σ) : Option F :=
  match b.parse s with
  | .ok f => some f
  | _ => none

theorem checkString_eq (b : Backend σ F) (ctx : Ctx) (msg : Msg σ) (s : σ) (h : NoCrashOn b s) :
    checkString b ctx msg s = .ok (stringTags b ctx msg s, stringFmt b s) := by
  unfold checkString stringTags stringFmt
  cases hp : b.parse s with
  | ok f => rfl
  | own => rfl
  | crash e => exact absurd hp (h e)

/-- the comparison planned for `msgstr[i] = s`, if any: the string must parse and the form index must have a preimage -/
def planOf (b : Backend σ F) (fl : Flags) (f0 f1 : Option F) (pre : CheckPlurals.Preimage) (p : Nat × σ) : Option (Plan F) :=
  match stringFmt b p.2, preimageGet pre p.1 with
  | some d, some pi => some (pluralPlan b f0 f1 p.1 d (pi.filter fl.inRange))
  | _, _ => none

theorem pluralPlans_eq (b : Backend σ F) (ctx : Ctx) (msg : Msg σ) (fl : Flags) (f0 f1 : Option F) (pre : CheckPlurals.Preimage) :
    ∀ L : List (Nat × σ), (∀ p ∈ L, NoCrashOn b p.2) →
      pluralPlans b ctx msg fl f0 f1 pre L =
        .ok (L.flatMap (fun p => stringTags b ctx msg p.2), L.filterMap (planOf b fl f0 f1 pre)) := by
  intro L
  induction L with
  | nil => intro _; rfl
  | cons p rest ih =>
    intro h
    obtain ⟨i, s⟩ := p
    have hs : NoCrashOn b s := h (i, s) (by simp)
    have ih' := ih (fun p hp => h p (by simp [hp]))
    simp only [pluralPlans, checkString_eq b ctx msg s hs, ih', List.flatMap_cons]
    unfold planOf
    cases hd : stringFmt b s with
    | none => simp [hd]
    | some d =>
      cases hpi : preimageGet pre i with
      | none => simp [hd, hpi]
      | some pi => simp [hd, hpi]

/-- what one planned comparison emits -/
def planTags (b : Backend σ F) (pfx : Extra) (d : Plan F) : List TagCall :=
  match d.dst, d.src with
  | some dst, some src =>
    match b.checkArgs pfx d.srcLoc src d.dstLoc dst d.omittedOk with
    | .ok t => t
    | .error _ => []
  | _, _ => []

/-- the comparison of a plan does not raise -/
def PlanOk (b : Backend σ F) (pfx : Extra) (d : Plan F) : Prop :=
  ∀ src dst, d.src = some src → d.dst = some dst → ∃ t, b.checkArgs pfx d.srcLoc src d.dstLoc dst d.omittedOk = .ok t

theorem runPlans_eq (b : Backend σ F) (pfx : Extra) : ∀ plans : List (Plan F), (∀ d ∈ plans, PlanOk b pfx d) →
    runPlans b pfx plans = .ok (plans.flatMap (planTags b pfx)) := by
  intro plans
  induction plans with
  | nil => intro _; rfl
  | cons d rest ih =>
    intro h
    have ih' := ih (fun d hd => h d (by simp [hd]))
    have hd := h d (by simp)
    simp only [runPlans, List.flatMap_cons, planTags]
    cases hdst : d.dst with
    | none => simp [ih']
    | some dst =>
      cases hsrc : d.src with
      | none => simp [ih']
      | some src =>
        obtain ⟨t, ht⟩ := hd src dst hsrc hdst
        simp [ht, ih']

/-! ## the cascade: which source, and when an omission may be tolerated -/

theorem pluralPlan_dst (b : Backend σ F) (f0 f1 : Option F) (i : Nat) (d : F) (p : List Nat) :
    (pluralPlan b f0 f1 i d p).dst = some d ∧ (pluralPlan b f0 f1 i d p).dstLoc = msgstrLoc i := by
  unfold pluralPlan
  split
  · exact ⟨rfl, rfl⟩
  · split
    · exact ⟨rfl, rfl⟩
    · split <;> exact ⟨rfl, rfl⟩

/-- **the source of the comparison**: `msgid` for the form selected exactly for `n = 1`, else `msgid_plural` -/
theorem pluralPlan_src (b : Backend σ F) (f0 f1 : Option F) (i : Nat) (d : F) (p : List Nat) :
    (p = [1] → (pluralPlan b f0 f1 i d p).src = f0 ∧ (pluralPlan b f0 f1 i d p).srcLoc = "msgid".toList) ∧
    (p ≠ [1] → (pluralPlan b f0 f1 i d p).src = f1 ∧ (pluralPlan b f0 f1 i d p).srcLoc = "msgid_plural".toList) := by
  unfold pluralPlan
  constructor
  · intro h; simp [h]
  · intro h
    simp only [h, ↓reduceIte]
    split
    · exact ⟨rfl, rfl⟩
    · split <;> exact ⟨rfl, rfl⟩

/-- **`omission_only_if`**: an omitted integer argument is tolerated only in a form selected for a single `n` (or none),
    or for `0` and one other `n` -/
theorem pluralPlan_omitted (b : Backend σ F) (f0 f1 : Option F) (i : Nat) (d : F) (p : List Nat)
    (h : (pluralPlan b f0 f1 i d p).omittedOk = true) : OmissionPermitted p := by
  unfold pluralPlan at h
  unfold OmissionPermitted
  split at h
  · rename_i hp; left; simp [hp]
  · split at h
    · rename_i hl; left; exact hl
    · split at h
      · rename_i hc
        simp only [Bool.and_eq_true, beq_iff_eq] at hc
        right
        match p, hc with
        | [a, k], ⟨_, ha⟩ =>
          simp only [List.head?_cons, Option.some.injEq] at ha
          exact ⟨k, by rw [ha]⟩
      · cases h

/-- in the form selected exactly for `n = 1` the omission is tolerated only if `msgid` and `msgid_plural` have the same
    number of items -/
theorem pluralPlan_omitted_one (b : Backend σ F) (f0 f1 : Option F) (i : Nat) (d : F)
    (h : (pluralPlan b f0 f1 i d [1]).omittedOk = true) : ∃ a c, f0 = some a ∧ f1 = some c ∧ b.len a = b.len c := by
  unfold pluralPlan at h
  simp only [↓reduceIte] at h
  cases f0 with
  | none => cases h
  | some a =>
    cases f1 with
    | none => cases h
    | some c => exact ⟨a, c, rfl, rfl, by simpa using h⟩

/-- a form selected for two or more `n`, other than `{0, k}`, never tolerates an omission -/
theorem pluralPlan_strict (b : Backend σ F) (f0 f1 : Option F) (i : Nat) (d : F) (p : List Nat)
    (h : ¬ OmissionPermitted p) : (pluralPlan b f0 f1 i d p).omittedOk = false := by
  cases hc : (pluralPlan b f0 f1 i d p).omittedOk with
  | false => rfl
  | true => exact absurd (pluralPlan_omitted b f0 f1 i d p hc) h

/-! ## `check_message` for a translated message outside templates -/

/-- the domain of the property: a PO file (not a template) with a usable charset, message not fuzzy -/
structure InDomain (ctx : Ctx) (fl : Flags) : Prop where
  notTemplate : ctx.isTemplate = false
  encoding : ctx.hasEncoding = true
  notFuzzy : fl.fuzzy = false

theorem msgidFmt_eq (b : Backend σ F) (ctx : Ctx) (msg : Msg σ) (s : σ) (hn : ctx.isTemplate = false) :
    msgidFmt b ctx msg s = match b.parse s with
      | .ok f => .ok (some ([], some f))
      | .own => .ok none
      | .crash e => .error e := by
  unfold msgidFmt
  simp only [hn, Bool.false_eq_true, ↓reduceIte]
  cases b.parse s <;> rfl

/-- **non-plural message**: `msgid` valid ⇒ exactly `check_msgids`, the diagnostics of `msgstr` as a string, and the
    comparison of `msgstr` with `msgid`, never tolerant. -/
theorem checkMessage_plain (b : Backend σ F) (ctx : Ctx) (msg : Msg σ) (fl : Flags) (hdom : InDomain ctx fl)
    (hpl : msg.msgidPlural = none) (hforms : msg.msgstrPlural = []) (f0 : F) (h0 : b.parse msg.msgid = .ok f0)
    (hs : NoCrashOn b msg.msgstr)
    (hargs : ∀ f, b.parse msg.msgstr = .ok f → ∃ t, b.checkArgs msg.pfx "msgid".toList f0 "msgstr".toList f false = .ok t) :
    checkMessage b ctx msg fl = .ok (b.checkMsgids msg.repr (some f0) ++
      (if b.truthy msg.msgstr then
        stringTags b ctx msg msg.msgstr ++
          planTags b msg.pfx ⟨"msgid".toList, some f0, "msgstr".toList, stringFmt b msg.msgstr, false⟩
       else [])) := by
  unfold checkMessage
  rw [msgidFmt_eq b ctx msg _ hdom.notTemplate, h0]
  simp only [hpl, hdom.notTemplate]
  unfold checkTranslations
  simp only [hdom.notFuzzy, hdom.encoding, hforms, List.any_nil, Bool.false_eq_true, ↓reduceIte, Bool.not_true]
  generalize "msgid".toList = sl at hargs ⊢
  generalize "msgstr".toList = dl at hargs ⊢
  have hp : ∀ d ∈ [(⟨sl, some f0, dl, stringFmt b msg.msgstr, false⟩ : Plan F)], PlanOk b msg.pfx d := by
    intro d hd src dst hsrc hdst
    simp only [List.mem_singleton] at hd
    subst hd
    simp only [Option.some.injEq] at hsrc
    subst hsrc
    unfold stringFmt at hdst
    cases hp : b.parse msg.msgstr with
    | ok f => rw [hp] at hdst; simp only [Option.some.injEq] at hdst; subst hdst; exact hargs f hp
    | own => rw [hp] at hdst; cases hdst
    | crash e => rw [hp] at hdst; cases hdst
  have hrun := runPlans_eq b msg.pfx _ hp
  by_cases ht : b.truthy msg.msgstr = true
  · simp only [ht, ↓reduceIte, checkString_eq b ctx msg _ hs]
    cases ctx.preimage with
    | none => simp [hrun]
    | some l => cases l <;> simp [hrun]
  · simp only [Bool.not_eq_true] at ht
    simp only [ht, Bool.false_eq_true, ↓reduceIte]
    cases ctx.preimage with
    | none => simp [runPlans]
    | some l => cases l <;> simp [runPlans]

/-- **an invalid `msgid`**: nothing is reported (reporting errors against `msgstr` is not worth the trouble) -/
theorem checkMessage_invalid_msgid (b : Backend σ F) (ctx : Ctx) (msg : Msg σ) (fl : Flags) (hn : ctx.isTemplate = false)
    (h0 : b.parse msg.msgid = .own) : checkMessage b ctx msg fl = .ok [] := by
  unfold checkMessage
  rw [msgidFmt_eq b ctx msg _ hn, h0]

/-- **plural message**: `msgid`, `msgid_plural` valid, `msgstr` empty, some `msgstr[i]` non-empty, `check_plurals` left a
    preimage ⇒ exactly `check_msgids`, the string diagnostics of every `msgstr[i]` in index order, then the planned
    comparisons in index order. -/
theorem checkMessage_plural (b : Backend σ F) (ctx : Ctx) (msg : Msg σ) (fl : Flags) (hdom : InDomain ctx fl)
    (sp : σ) (hpl : msg.msgidPlural = some sp) (f0 f1 : F) (h0 : b.parse msg.msgid = .ok f0) (h1 : b.parse sp = .ok f1)
    (hmsgstr : b.truthy msg.msgstr = false) (hany : msg.msgstrPlural.any (fun p => b.truthy p.2) = true)
    (q : Int × List Nat) (pre : CheckPlurals.Preimage) (hpre : ctx.preimage = some (q :: pre))
    (hs : ∀ p ∈ msg.msgstrPlural, NoCrashOn b p.2)
    (hargs : ∀ d ∈ (sortBy keyLt msg.msgstrPlural).filterMap (planOf b fl (some f0) (some f1) (q :: pre)), PlanOk b msg.pfx d) :
    checkMessage b ctx msg fl = .ok (b.checkMsgids msg.repr (some f0) ++
      ((sortBy keyLt msg.msgstrPlural).flatMap (fun p => stringTags b ctx msg p.2) ++
       ((sortBy keyLt msg.msgstrPlural).filterMap (planOf b fl (some f0) (some f1) (q :: pre))).flatMap (planTags b msg.pfx))) := by
  unfold checkMessage
  rw [msgidFmt_eq b ctx msg _ hdom.notTemplate, h0]
  simp only [hpl]
  rw [msgidFmt_eq b ctx msg _ hdom.notTemplate, h1]
  simp only [hdom.notTemplate]
  unfold checkTranslations
  simp only [hdom.notFuzzy, hdom.encoding, hmsgstr, hany, hpre, Bool.false_eq_true, ↓reduceIte, Bool.not_true]
  have hs' : ∀ p ∈ sortBy keyLt msg.msgstrPlural, NoCrashOn b p.2 := fun p hp => hs p ((mem_sortBy _ _ p).1 hp)
  rw [pluralPlans_eq b ctx msg fl (some f0) (some f1) (q :: pre) _ hs']
  simp only [List.nil_append]
  rw [runPlans_eq b msg.pfx _ hargs]

end I18n.FmtCheck
