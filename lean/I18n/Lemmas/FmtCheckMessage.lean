import I18n.Lemmas.FmtCheckNamed
/-!
# `check_message` in closed form, generically in the back end
-/
namespace I18n.FmtCheck
open I18n I18n.FmtSig I18n.Spec.FmtCompare

variable {σ F : Type}

/-- a back end whose parser only raises its own `Error` classes on the given string -/
def NoCrashOn (b : Backend σ F) (s : σ) : Prop := ∀ e, b.parse s ≠ .crash e

/-- the tags `check_string` emits for `s` -/
def stringTags (b : Backend σ F) (ctx : Ctx) (msg : Msg σ) (s : σ) : List TagCall :=
  match b.parse s with
  | .ok f => b.okTags ctx.isTemplate msg.msgidPlural.isSome msg.pfx msg.repr f
  | .own => [⟨b.errTag, [msg.pfx]⟩]
  | .crash _ => []

/-- the format object `check_string` returns -/
def stringFmt (b : Backend σ F) (s : σ) : Option F :=
  match b.parse s with
  | .ok f => some f
  | _ => none

theorem checkString_eq (b : Backend σ F) (ctx : Ctx) (msg : Msg σ) (s : σ) (h : NoCrashOn b s) :
    checkString b ctx msg s = .ok (stringTags b ctx msg s, stringFmt b s) := by
  unfold checkString stringTags stringFmt
  cases hp : b.parse s with
  | ok f => rfl
  | own => rfl
  | crash e => exact absurd hp (h e)

/-- the comparison planned for `msgstr[i] = s`, if any: the string must parse and the form index must have a preimage -/
def planOf (b : Backend σ F) (fl : Flags) (f0 f1 : Option F) (pre : CheckPlurals.Preimage) (p : Nat × σ) : Option (Plan F) :=
  match stringFmt b p.2, preimageGet pre p.1 with
  | some d, some pi => some (pluralPlan b f0 f1 p.1 d (pi.filter fl.inRange))
  | _, _ => none

theorem pluralPlans_eq (b : Backend σ F) (ctx : Ctx) (msg : Msg σ) (fl : Flags) (f0 f1 : Option F) (pre : CheckPlurals.Preimage) :
    ∀ L : List (Nat × σ), (∀ p ∈ L, NoCrashOn b p.2) →
      pluralPlans b ctx msg fl f0 f1 pre L =
        .ok (L.flatMap (fun p => stringTags b ctx msg p.2), L.filterMap (planOf b fl f0 f1 pre)) := by
  intro L
  induction L with
  | nil => intro _; rfl
  | cons p rest ih =>
    intro h
    obtain ⟨i, s⟩ := p
    have hs : NoCrashOn b s := h (i, s) (by simp)
    have ih' := ih (fun p hp => h p (by simp [hp]))
    simp only [pluralPlans, checkString_eq b ctx msg s hs, ih', List.flatMap_cons]
    unfold planOf
    cases hd : stringFmt b s with
    | none => simp [hd]
    | some d =>
      cases hpi : preimageGet pre i with
      | none => simp [hd, hpi]
      | some pi => simp [hd, hpi]

/-- what one planned comparison emits -/
def planTags (b : Backend σ F) (pfx : Extra) (d : Plan F) : List TagCall :=
  match d.dst, d.src with
  | some dst, some src =>
    match b.checkArgs pfx d.srcLoc src d.dstLoc dst d.omittedOk with
    | .ok t => t
    | .error _ => []
  | _, _ => []

/-- the comparison of a plan does not raise -/
def PlanOk (b : Backend σ F) (pfx : Extra) (d : Plan F) : Prop :=
  ∀ src dst, d.src = some src → d.dst = some dst → ∃ t, b.checkArgs pfx d.srcLoc src d.dstLoc dst d.omittedOk = .ok t

theorem runPlans_eq (b : Backend σ F) (pfx : Extra) : ∀ plans : List (Plan F), (∀ d ∈ plans, PlanOk b pfx d) →
    runPlans b pfx plans = .ok (plans.flatMap (planTags b pfx)) := by
  intro plans
  induction plans with
  | nil => intro _; rfl
  | cons d rest ih =>
    intro h
    have ih' := ih (fun d hd => h d (by simp [hd]))
    have hd := h d (by simp)
    simp only [runPlans, List.flatMap_cons, planTags]
    cases hdst : d.dst with
    | none => simp [ih']
    | some dst =>
      cases hsrc : d.src with
      | none => simp [ih']
      | some src =>
        obtain ⟨t, ht⟩ := hd src dst hsrc hdst
        simp [ht, ih']

/-! ## the cascade: which source, and when an omission may be tolerated -/

theorem pluralPlan_dst (b : Backend σ F) (f0 f1 : Option F) (i : Nat) (d : F) (p : List Nat) :
    (pluralPlan b f0 f1 i d p).dst = some d ∧ (pluralPlan b f0 f1 i d p).dstLoc = msgstrLoc i := by
  unfold pluralPlan
  split
  · exact ⟨rfl, rfl⟩
  · split
    · exact ⟨rfl, rfl⟩
    · split <;> exact ⟨rfl, rfl⟩

/-- **the source of the comparison**: `msgid` for the form selected exactly for `n = 1`, else `msgid_plural` -/
theorem pluralPlan_src (b : Backend σ F) (f0 f1 : Option F) (i : Nat) (d : F) (p : List Nat) :
    (p = [1] → (pluralPlan b f0 f1 i d p).src = f0 ∧ (pluralPlan b f0 f1 i d p).srcLoc = "msgid".toList) ∧
    (p ≠ [1] → (pluralPlan b f0 f1 i d p).src = f1 ∧ (pluralPlan b f0 f1 i d p).srcLoc = "msgid_plural".toList) := by
  unfold pluralPlan
  constructor
  · intro h; simp [h]
  · intro h
    simp only [h, ↓reduceIte]
    split
    · exact ⟨rfl, rfl⟩
    · split <;> exact ⟨rfl, rfl⟩

/-- **`omission_only_if`**: an omitted integer argument is tolerated only in a form selected for a single `n` (or none),
    or for `0` and one other `n` -/
theorem pluralPlan_omitted (b : Backend σ F) (f0 f1 : Option F) (i : Nat) (d : F) (p : List Nat)
    (h : (pluralPlan b f0 f1 i d p).omittedOk = true) : OmissionPermitted p := by
  unfold pluralPlan at h
  unfold OmissionPermitted
  split at h
  · rename_i hp; left; simp [hp]
  · split at h
    · rename_i hl; left; exact hl
    · split at h
      · rename_i hc
        simp only [Bool.and_eq_true, beq_iff_eq] at hc
        right
        match p, hc with
        | [a, k], ⟨_, ha⟩ =>
          simp only [List.head?_cons, Option.some.injEq] at ha
          exact ⟨k, by rw [ha]⟩
      · cases h

/-- in the form selected exactly for `n = 1` the omission is tolerated only if `msgid` and `msgid_plural` have the same
    number of items -/
theorem pluralPlan_omitted_one (b : Backend σ F) (f0 f1 : Option F) (i : Nat) (d : F)
    (h : (pluralPlan b f0 f1 i d [1]).omittedOk = true) : ∃ a c, f0 = some a ∧ f1 = some c ∧ b.len a = b.len c := by
  unfold pluralPlan at h
  simp only [↓reduceIte] at h
  cases f0 with
  | none => cases h
  | some a =>
    cases f1 with
    | none => cases h
    | some c => exact ⟨a, c, rfl, rfl, by simpa using h⟩

/-- a form selected for two or more `n`, other than `{0, k}`, never tolerates an omission -/
theorem pluralPlan_strict (b : Backend σ F) (f0 f1 : Option F) (i : Nat) (d : F) (p : List Nat)
    (h : ¬ OmissionPermitted p) : (pluralPlan b f0 f1 i d p).omittedOk = false := by
  cases hc : (pluralPlan b f0 f1 i d p).omittedOk with
  | false => rfl
  | true => exact absurd (pluralPlan_omitted b f0 f1 i d p hc) h

/-! ## the steps of `check_message` in closed form -/

/-- the record planned for `msgstr` -/
def msgstrPlanOf (b : Backend σ F) (msg : Msg σ) (f0 : Option F) : Plan F :=
  { srcLoc := "msgid".toList, src := f0, dstLoc := "msgstr".toList, dst := stringFmt b msg.msgstr, omittedOk := false }

theorem msgstrPlan_eq (b : Backend σ F) (ctx : Ctx) (msg : Msg σ) (f0 : Option F) (hs : NoCrashOn b msg.msgstr) :
    msgstrPlan b ctx msg f0 =
      .ok (if b.truthy msg.msgstr then (stringTags b ctx msg msg.msgstr, [msgstrPlanOf b msg f0]) else ([], [])) := by
  unfold msgstrPlan
  by_cases ht : b.truthy msg.msgstr = true
  · simp only [ht, ↓reduceIte, checkString_eq b ctx msg _ hs]; rfl
  · simp only [ht, Bool.false_eq_true, ↓reduceIte]

/-- string diagnostics and plans for the `msgstr[i]` -/
def pluralPart (b : Backend σ F) (ctx : Ctx) (msg : Msg σ) (fl : Flags) (f0 f1 : Option F) : List TagCall × List (Plan F) :=
  match ctx.preimage with
  | some (q :: pre) =>
    if msg.msgstrPlural.any (fun p => b.truthy p.2) then
      ((sortBy keyLt msg.msgstrPlural).flatMap (fun p => stringTags b ctx msg p.2),
       (sortBy keyLt msg.msgstrPlural).filterMap (planOf b fl f0 f1 (q :: pre)))
    else ([], [])
  | _ => ([], [])

theorem msgstrPluralPlans_eq (b : Backend σ F) (ctx : Ctx) (msg : Msg σ) (fl : Flags) (f0 f1 : Option F)
    (hs : ∀ p ∈ msg.msgstrPlural, NoCrashOn b p.2) :
    msgstrPluralPlans b ctx msg fl f0 f1 = .ok (pluralPart b ctx msg fl f0 f1) := by
  have hs' : ∀ p ∈ sortBy keyLt msg.msgstrPlural, NoCrashOn b p.2 := fun p hp => hs p ((mem_sortBy _ _ p).1 hp)
  unfold msgstrPluralPlans pluralPart
  cases ctx.preimage with
  | none => rfl
  | some l =>
    cases l with
    | nil => rfl
    | cons q pre =>
      simp only
      by_cases hany : msg.msgstrPlural.any (fun p => b.truthy p.2) = true
      · simp only [hany, ↓reduceIte, pluralPlans_eq b ctx msg fl f0 f1 (q :: pre) _ hs']
      · simp only [hany, Bool.false_eq_true, ↓reduceIte]

/-- all comparisons `check_message` plans for the translations -/
def allPlans (b : Backend σ F) (ctx : Ctx) (msg : Msg σ) (fl : Flags) (f0 f1 : Option F) : List (Plan F) :=
  (if b.truthy msg.msgstr then [msgstrPlanOf b msg f0] else []) ++ (pluralPart b ctx msg fl f0 f1).2

/-- **the translation part of `check_message`**: the string diagnostics of `msgstr`, then of every `msgstr[i]` in index
    order, then the planned comparisons in that order. -/
theorem checkTranslations_eq (b : Backend σ F) (ctx : Ctx) (msg : Msg σ) (fl : Flags) (f0 f1 : Option F)
    (hf : fl.fuzzy = false) (he : ctx.hasEncoding = true)
    (hs : NoCrashOn b msg.msgstr) (hforms : ∀ p ∈ msg.msgstrPlural, NoCrashOn b p.2)
    (hargs : ∀ d ∈ allPlans b ctx msg fl f0 f1, PlanOk b msg.pfx d) :
    checkTranslations b ctx msg fl f0 f1 = .ok (
      (if b.truthy msg.msgstr then stringTags b ctx msg msg.msgstr else []) ++ (pluralPart b ctx msg fl f0 f1).1 ++
      (allPlans b ctx msg fl f0 f1).flatMap (planTags b msg.pfx)) := by
  unfold checkTranslations
  simp only [hf, he, Bool.false_eq_true, ↓reduceIte, Bool.not_true, msgstrPlan_eq b ctx msg f0 hs,
    msgstrPluralPlans_eq b ctx msg fl f0 f1 hforms]
  unfold allPlans at hargs ⊢
  by_cases ht : b.truthy msg.msgstr = true
  · simp only [ht, ↓reduceIte] at hargs ⊢
    rw [runPlans_eq b msg.pfx _ hargs]
  · simp only [ht, Bool.false_eq_true, ↓reduceIte] at hargs ⊢
    rw [runPlans_eq b msg.pfx _ hargs]

/-! ## `check_message` for a translated message outside templates -/

/-- the domain of the property: a PO file (not a template) with a usable charset, message not fuzzy -/
structure InDomain (ctx : Ctx) (fl : Flags) : Prop where
  notTemplate : ctx.isTemplate = false
  encoding : ctx.hasEncoding = true
  notFuzzy : fl.fuzzy = false

theorem msgidFmt_eq (b : Backend σ F) (ctx : Ctx) (msg : Msg σ) (s : σ) (hn : ctx.isTemplate = false) :
    msgidFmt b ctx msg s = match b.parse s with
      | .ok f => .ok (some ([], some f))
      | .own => .ok none
      | .crash e => .error e := by
  unfold msgidFmt
  simp only [hn, Bool.false_eq_true, ↓reduceIte]
  cases b.parse s <;> rfl

/-- **a message in the domain whose `msgid` (and `msgid_plural`) are valid**: `check_message` emits exactly `check_msgids`, the string
    diagnostics of the translations, and the planned comparisons. `f1 = none` for a message without `msgid_plural`. -/
theorem checkMessage_eq (b : Backend σ F) (ctx : Ctx) (msg : Msg σ) (fl : Flags) (hdom : InDomain ctx fl)
    (f0 : F) (h0 : b.parse msg.msgid = .ok f0) (f1 : Option F)
    (h1 : match msg.msgidPlural with | none => f1 = none | some sp => ∃ g, b.parse sp = .ok g ∧ f1 = some g)
    (hs : NoCrashOn b msg.msgstr) (hforms : ∀ p ∈ msg.msgstrPlural, NoCrashOn b p.2)
    (hargs : ∀ d ∈ allPlans b ctx msg fl (some f0) f1, PlanOk b msg.pfx d) :
    checkMessage b ctx msg fl = .ok (b.checkMsgids msg.repr (some f0) ++
      ((if b.truthy msg.msgstr then stringTags b ctx msg msg.msgstr else []) ++ (pluralPart b ctx msg fl (some f0) f1).1 ++
       (allPlans b ctx msg fl (some f0) f1).flatMap (planTags b msg.pfx))) := by
  unfold checkMessage
  rw [msgidFmt_eq b ctx msg _ hdom.notTemplate, h0]
  simp only
  have hpm : pluralMsgidFmt b ctx msg = .ok (some ([], f1)) := by
    unfold pluralMsgidFmt
    cases hpl : msg.msgidPlural with
    | none => rw [hpl] at h1; simp only at h1; subst h1; rfl
    | some sp =>
      rw [hpl] at h1
      obtain ⟨g, hg, rfl⟩ := h1
      simp only
      rw [msgidFmt_eq b ctx msg _ hdom.notTemplate, hg]
  rw [hpm]
  simp only
  have htm : templateArgs b ctx msg (some f0) f1 = .ok [] := by
    unfold templateArgs
    rw [hdom.notTemplate]
  rw [htm]
  simp only
  rw [checkTranslations_eq b ctx msg fl (some f0) f1 hdom.notFuzzy hdom.encoding hs hforms hargs]
  simp

/-- **an invalid `msgid`**: nothing is reported (reporting errors against `msgstr` is not worth the trouble) -/
theorem checkMessage_invalid_msgid (b : Backend σ F) (ctx : Ctx) (msg : Msg σ) (fl : Flags) (hn : ctx.isTemplate = false)
    (h0 : b.parse msg.msgid = .own) : checkMessage b ctx msg fl = .ok [] := by
  unfold checkMessage
  rw [msgidFmt_eq b ctx msg _ hn, h0]

/-- a message without plural forms plans at most the comparison of `msgstr` with `msgid`, never tolerant -/
theorem allPlans_plain (b : Backend σ F) (ctx : Ctx) (msg : Msg σ) (fl : Flags) (f0 f1 : Option F) (hforms : msg.msgstrPlural = []) :
    allPlans b ctx msg fl f0 f1 = (if b.truthy msg.msgstr then [msgstrPlanOf b msg f0] else []) ∧
    (pluralPart b ctx msg fl f0 f1).1 = [] := by
  unfold allPlans pluralPart
  rw [hforms]
  cases ctx.preimage with
  | none => simp
  | some l => cases l <;> simp

/-- every planned comparison for a `msgstr[i]` is `pluralPlan` of a parsed `msgstr[i]` and the filtered preimage of `i` -/
theorem mem_pluralPart (b : Backend σ F) (ctx : Ctx) (msg : Msg σ) (fl : Flags) (f0 f1 : Option F) (d : Plan F)
    (hd : d ∈ (pluralPart b ctx msg fl f0 f1).2) :
    ∃ pre i s g pi, ctx.preimage = some pre ∧ (i, s) ∈ msg.msgstrPlural ∧ b.parse s = .ok g ∧ preimageGet pre i = some pi ∧
      d = pluralPlan b f0 f1 i g (pi.filter fl.inRange) := by
  unfold pluralPart at hd
  cases hpre : ctx.preimage with
  | none => rw [hpre] at hd; cases hd
  | some l =>
    rw [hpre] at hd
    cases l with
    | nil => cases hd
    | cons q pre =>
      simp only at hd
      split at hd
      · obtain ⟨p, hp, hpd⟩ := List.mem_filterMap.1 hd
        rw [mem_sortBy] at hp
        unfold planOf at hpd
        cases hf : stringFmt b p.2 with
        | none => rw [hf] at hpd; cases hpd
        | some g =>
          cases hpi : preimageGet (q :: pre) p.1 with
          | none => rw [hf, hpi] at hpd; cases hpd
          | some pi =>
            rw [hf, hpi] at hpd
            simp only [Option.some.injEq] at hpd
            refine ⟨q :: pre, p.1, p.2, g, pi, rfl, hp, ?_, hpi, hpd.symm⟩
            unfold stringFmt at hf
            cases hp' : b.parse p.2 with
            | ok g' => rw [hp'] at hf; simp only [Option.some.injEq] at hf; rw [hf]
            | own => rw [hp'] at hf; cases hf
            | crash e => rw [hp'] at hf; cases hf
      · cases hd

/-! ## `check_message` never raises, for any context, when the parser and `check_args` do not -/

/-- the string neither crashes the parser nor parses to something outside `Good` -/
def StrOk (b : Backend σ F) (Good : F → Prop) (s : σ) : Prop :=
  NoCrashOn b s ∧ ∀ f, b.parse s = .ok f → Good f

structure MsgOk (b : Backend σ F) (Good : F → Prop) (msg : Msg σ) : Prop where
  msgid : StrOk b Good msg.msgid
  plural : ∀ s, msg.msgidPlural = some s → StrOk b Good s
  msgstr : StrOk b Good msg.msgstr
  forms : ∀ p ∈ msg.msgstrPlural, StrOk b Good p.2

/-- `check_args` does not raise on `Good` format objects -/
def ArgsTotal (b : Backend σ F) (Good : F → Prop) : Prop :=
  ∀ pfx srcLoc f dstLoc g ok, Good f → Good g → ∃ t, b.checkArgs pfx srcLoc f dstLoc g ok = .ok t

def GoodOpt (Good : F → Prop) (o : Option F) : Prop := ∀ f, o = some f → Good f

theorem stringFmt_good (b : Backend σ F) (Good : F → Prop) (s : σ) (h : StrOk b Good s) : GoodOpt Good (stringFmt b s) := by
  intro f hf
  unfold stringFmt at hf
  cases hp : b.parse s with
  | ok g => rw [hp] at hf; simp only [Option.some.injEq] at hf; subst hf; exact h.2 g hp
  | own => rw [hp] at hf; cases hf
  | crash e => rw [hp] at hf; cases hf

theorem msgidFmt_total (b : Backend σ F) (Good : F → Prop) (ctx : Ctx) (msg : Msg σ) (s : σ) (h : StrOk b Good s) :
    msgidFmt b ctx msg s = .ok none ∨ ∃ tg fo, msgidFmt b ctx msg s = .ok (some (tg, fo)) ∧ GoodOpt Good fo := by
  unfold msgidFmt
  cases ht : ctx.isTemplate with
  | true =>
    simp only [↓reduceIte, checkString_eq b ctx msg s h.1]
    exact Or.inr ⟨_, _, rfl, stringFmt_good b Good s h⟩
  | false =>
    simp only [Bool.false_eq_true, ↓reduceIte]
    cases hp : b.parse s with
    | ok f => exact Or.inr ⟨[], some f, rfl, fun g hg => by cases hg; exact h.2 f hp⟩
    | own => exact Or.inl rfl
    | crash e => exact absurd hp (h.1 e)

theorem planOk_of_good (b : Backend σ F) (Good : F → Prop) (ha : ArgsTotal b Good) (pfx : Extra) (d : Plan F)
    (hs : GoodOpt Good d.src) (hd : GoodOpt Good d.dst) : PlanOk b pfx d := by
  intro src dst hsrc hdst
  exact ha pfx d.srcLoc src d.dstLoc dst d.omittedOk (hs src hsrc) (hd dst hdst)

theorem allPlans_ok (b : Backend σ F) (Good : F → Prop) (ha : ArgsTotal b Good) (ctx : Ctx) (msg : Msg σ) (fl : Flags)
    (hm : MsgOk b Good msg) (f0 f1 : Option F) (h0 : GoodOpt Good f0) (h1 : GoodOpt Good f1) :
    ∀ d ∈ allPlans b ctx msg fl f0 f1, PlanOk b msg.pfx d := by
  intro d hd
  unfold allPlans at hd
  rcases List.mem_append.1 hd with h | h
  · split at h
    · simp only [List.mem_singleton] at h
      subst h
      exact planOk_of_good b Good ha _ _ h0 (stringFmt_good b Good _ hm.msgstr)
    · cases h
  · obtain ⟨pre, i, s, g, pi, _, hmem, hg, _, rfl⟩ := mem_pluralPart b ctx msg fl f0 f1 d h
    have hgood : Good g := (hm.forms (i, s) hmem).2 g hg
    apply planOk_of_good b Good ha
    · by_cases hp : pi.filter fl.inRange = [1]
      · rw [((pluralPlan_src b f0 f1 i g _).1 hp).1]; exact h0
      · rw [((pluralPlan_src b f0 f1 i g _).2 hp).1]; exact h1
    · rw [(pluralPlan_dst b f0 f1 i g _).1]
      intro f hf; cases hf; exact hgood

theorem checkTranslations_total (b : Backend σ F) (Good : F → Prop) (ha : ArgsTotal b Good) (ctx : Ctx) (msg : Msg σ) (fl : Flags)
    (hm : MsgOk b Good msg) (f0 f1 : Option F) (h0 : GoodOpt Good f0) (h1 : GoodOpt Good f1) :
    ∃ t, checkTranslations b ctx msg fl f0 f1 = .ok t := by
  by_cases hf : fl.fuzzy = true
  · exact ⟨[], by unfold checkTranslations; simp [hf]⟩
  · by_cases he : ctx.hasEncoding = true
    · simp only [Bool.not_eq_true] at hf
      exact ⟨_, checkTranslations_eq b ctx msg fl f0 f1 hf he hm.msgstr.1 (fun p hp => (hm.forms p hp).1)
        (allPlans_ok b Good ha ctx msg fl hm f0 f1 h0 h1)⟩
    · exact ⟨[], by unfold checkTranslations; simp [hf, he]⟩

/-- **`check_message` never raises** when the parser raises only its own errors on the message's strings and
    `check_args` does not raise on what it parses to. -/
theorem checkMessage_total (b : Backend σ F) (Good : F → Prop) (ha : ArgsTotal b Good) (ctx : Ctx) (msg : Msg σ) (fl : Flags)
    (hm : MsgOk b Good msg) : ∃ t, checkMessage b ctx msg fl = .ok t := by
  unfold checkMessage
  rcases msgidFmt_total b Good ctx msg msg.msgid hm.msgid with h | ⟨tg0, f0, h, hg0⟩
  · rw [h]; exact ⟨[], rfl⟩
  · rw [h]
    simp only
    have hsecond : pluralMsgidFmt b ctx msg = .ok none ∨
        ∃ tg1 f1, pluralMsgidFmt b ctx msg = .ok (some (tg1, f1)) ∧ GoodOpt Good f1 := by
      unfold pluralMsgidFmt
      cases hpl : msg.msgidPlural with
      | none => exact Or.inr ⟨[], none, rfl, fun f hf => by cases hf⟩
      | some s => exact msgidFmt_total b Good ctx msg s (hm.plural s hpl)
    rcases hsecond with h2 | ⟨tg1, f1, h2, hg1⟩
    · rw [h2]; exact ⟨[], rfl⟩
    · rw [h2]
      simp only
      have htmpl : ∃ tg2, templateArgs b ctx msg f0 f1 = .ok tg2 := by
        unfold templateArgs
        cases ctx.isTemplate with
        | false => exact ⟨[], rfl⟩
        | true =>
          cases f0 with
          | none => exact ⟨[], rfl⟩
          | some a =>
            cases f1 with
            | none => exact ⟨[], rfl⟩
            | some c => exact ha _ _ c _ a true (hg1 c rfl) (hg0 a rfl)
      obtain ⟨tg2, h3⟩ := htmpl
      rw [h3]
      simp only
      obtain ⟨tg4, h4⟩ := checkTranslations_total b Good ha ctx msg fl hm f0 f1 hg0 hg1
      rw [h4]
      exact ⟨_, rfl⟩

end I18n.FmtCheck
