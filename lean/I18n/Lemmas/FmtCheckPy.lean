import I18n.Lemmas.FmtCheckKinds
import I18n.Lemmas.FmtCheckOrder
import I18n.Lemmas.FmtCheckCSig
import I18n.Lemmas.PyFmtGroups
import I18n.Props.C12
/-!
# The Python-% comparator in closed form; well-formedness of what the parser (C12's model) reports
-/
namespace I18n.FmtCheck
open I18n I18n.FmtSig I18n.Spec.FmtCompare

/-! ## what `PyFmt.parse` reports is a well-formed dict -/

theorem distinctKeys_nodup : ∀ l : List (List Char), (PyFmt.distinctKeys l).Nodup
  | [] => by simp [PyFmt.distinctKeys]
  | k :: ks => by
    simp only [PyFmt.distinctKeys, List.nodup_cons]
    exact ⟨by simp, (distinctKeys_nodup ks).filter _⟩

theorem groups_wf (log : List (List Char × PEntry)) : MapWf (PyFmt.groups log) := by
  constructor
  · have : (PyFmt.groups log).map (·.1) = PyFmt.distinctKeys (log.map (·.1)) := by
      simp [PyFmt.groups, Function.comp_def]
    rw [this]
    exact distinctKeys_nodup _
  · intro p hp
    obtain ⟨k, es⟩ := p
    obtain ⟨hes, e, he⟩ := PyFmt.groups_spec hp
    intro hnil
    simp only at hnil
    have : e ∈ (log.filter (fun p => p.1 == k)).map (·.2) :=
      List.mem_map.2 ⟨(k, e), List.mem_filter.2 ⟨he, by simp⟩, rfl⟩
    rw [← hes, hnil] at this
    cases this

/-- `FormatString(s)` accepted ⇒ `map_arguments` has distinct keys, each with at least one use -/
theorem pyParse_wf {s : List Char} {r : PyFmt.Result} (h : pyParse s = .ok r) : MapWf r.map := by
  unfold pyParse at h
  cases hp : PyFmt.parse s with
  | error e => rw [hp] at h; cases e <;> cases h
  | ok r' =>
    rw [hp] at h
    simp only [ParseOutcome.ok.injEq] at h
    subst h
    obtain ⟨st, _, _, hm, _⟩ := PyFmt.parse_loop hp
    rw [hm]
    exact groups_wf _

/-- the parser's errors are its own classes -/
theorem pyParse_nocrash (s : List Char) (e : Py.Exc) : pyParse s ≠ .crash e := by
  unfold pyParse
  cases hp : PyFmt.parse s with
  | ok r => simp
  | error err =>
    have := I18n.Props.C12.error_own hp
    cases err <;> simp_all [PyFmt.PErr.own]

/-! ## reference views -/

/-- positional signature: the type of each unnamed argument (`*` widths and precisions are `int`s) -/
def pySeq (r : PyFmt.Result) : List String := r.seq.map (·.type)

def pyHeadType : List PEntry → String
  | e :: _ => e.type
  | [] => ""

/-- named signature: key ↦ type -/
def pyNamed (r : PyFmt.Result) : Named (List Char) String := viewOf pyHeadType r.map

def pyNumberTag (pfx : Extra) (srcLoc : List Char) (src : PyFmt.Result) (dstLoc : List Char) (dst : PyFmt.Result) : TagCall :=
  tagExcessOrMissing "python-format-string-argument-number-mismatch" pfx dst.seq.length dstLoc "!=" src.seq.length srcLoc

/-- the type-mismatch tag for source type `a`, translation type `b` -/
def pyTypeTag (pfx : Extra) (srcLoc dstLoc : List Char) (p : String × String) : TagCall :=
  tagTypeMismatch "python-format-string-argument-type-mismatch" pfx p.2.toList dstLoc p.1.toList srcLoc

def pyUnknownTag (pfx : Extra) (srcLoc dstLoc : List Char) (k : List Char) : TagCall :=
  tagUnknown "python-format-string-unknown-argument" pfx (.str k) srcLoc dstLoc

def pyMissingTag (pfx : Extra) (srcLoc dstLoc : List Char) (k : List Char) : TagCall :=
  tagMissing "python-format-string-missing-argument" pfx (.str k) srcLoc dstLoc

def pyMissing (src dst : PyFmt.Result) : List (List Char) :=
  (src.map.map (·.1)).filter fun k => !(dst.map.map (·.1)).contains k

def pyTolerated (src dst : PyFmt.Result) (omittedOk : Bool) : Bool :=
  mapTolerated (fun a : PEntry => a.type == "int") src.map (pyMissing src dst) omittedOk

theorem pySeqTypeTags_eq (pfx : Extra) (srcLoc dstLoc : List Char) : ∀ (src dst : List PEntry),
    pySeqTypeTags pfx srcLoc dstLoc src dst =
      (typeDiffs (src.map (·.type)) (dst.map (·.type))).map (pyTypeTag pfx srcLoc dstLoc) := by
  intro src
  induction src with
  | nil => intro dst; simp [pySeqTypeTags, typeDiffs]
  | cons s ss ih =>
    intro dst
    cases dst with
    | nil => simp [pySeqTypeTags, typeDiffs]
    | cons d ds =>
      simp only [pySeqTypeTags, ih, List.map_cons, typeDiffs]
      by_cases h : s.type = d.type
      · simp [h]
      · simp [h, pyTypeTag]

theorem checkArgsPython_eq (pfx : Extra) (srcLoc : List Char) (src : PyFmt.Result) (dstLoc : List Char) (dst : PyFmt.Result)
    (omittedOk : Bool) (hs : MapWf src.map) (hd : MapWf dst.map) :
    checkArgsPython pfx srcLoc src dstLoc dst omittedOk = .ok (
      (if dst.seq.length != src.seq.length then [pyNumberTag pfx srcLoc src dstLoc dst] else []) ++
      (typeDiffs (pySeq src) (pySeq dst)).map (pyTypeTag pfx srcLoc dstLoc) ++
      (sortBy strLt ((dst.map.map (·.1)).filter fun k => (src.map.map (·.1)).contains k)).flatMap
          (clashAt (pyClash pfx srcLoc dstLoc) src.map dst.map) ++
      (sortBy strLt ((dst.map.map (·.1)).filter fun k => !(src.map.map (·.1)).contains k)).map (pyUnknownTag pfx srcLoc dstLoc) ++
      (sortBy strLt (if pyTolerated src dst omittedOk then [] else pyMissing src dst)).map (pyMissingTag pfx srcLoc dstLoc)) := by
  have hcommon : ∀ k ∈ sortBy strLt ((dst.map.map (·.1)).filter fun k => (src.map.map (·.1)).contains k),
      k ∈ keys src.map ∧ k ∈ keys dst.map := by
    intro k hk
    rw [mem_sortBy] at hk
    have := (mem_filter_contains _ _ k).1 hk
    exact ⟨this.2, this.1⟩
  have hmiss : ∀ k ∈ pyMissing src dst, k ∈ keys src.map := by
    intro k hk
    exact ((mem_filter_not_contains _ _ k).1 hk).1
  have h1 := mapTypeTags_ok (pyClash pfx srcLoc dstLoc) src.map dst.map hs.2 hd.2 _ hcommon
  have h2 := missingKeys_ok (fun a : PEntry => a.type == "int") src.map (pyMissing src dst) omittedOk hmiss
  unfold checkArgsPython
  simp only
  rw [h1]
  simp only
  unfold pyMissing at h2
  rw [h2, pySeqTypeTags_eq]
  rfl

theorem mem_pyClashAt (pfx : Extra) (srcLoc dstLoc : List Char) (src dst : PyFmt.Result) (hs : MapWf src.map) (hd : MapWf dst.map)
    (k : List Char) (t : TagCall) :
    t ∈ clashAt (pyClash pfx srcLoc dstLoc) src.map dst.map k ↔
      ∃ a b, TypeDiffKey (· = ·) (pyNamed src) (pyNamed dst) k a b ∧ t = pyTypeTag pfx srcLoc dstLoc (a, b) := by
  rw [mem_clashAt _ _ _ hs.2 hd.2]
  unfold TypeDiffKey pyNamed
  rw [get_viewOf, get_viewOf]
  constructor
  · rintro ⟨s0, sr, d0, dr, h1, h2, h3⟩
    unfold pyClash at h3
    split at h3
    · rename_i hc
      simp only [Option.some.injEq] at h3
      exact ⟨s0.type, d0.type, ⟨by rw [h1]; rfl, by rw [h2]; rfl, by simpa using hc⟩, h3.symm⟩
    · cases h3
  · rintro ⟨a, b, ⟨h1, h2, h3⟩, rfl⟩
    cases hus : valueAt src.map k with
    | none => rw [hus] at h1; cases h1
    | some us =>
      cases hud : valueAt dst.map k with
      | none => rw [hud] at h2; cases h2
      | some ud =>
        rw [hus] at h1; rw [hud] at h2
        cases us with
        | nil => exact absurd rfl (hs.2 _ (get_mem hus))
        | cons s0 sr =>
          cases ud with
          | nil => exact absurd rfl (hd.2 _ (get_mem hud))
          | cons d0 dr =>
            simp only [Option.map_some, pyHeadType, Option.some.injEq] at h1 h2
            subst h1 h2
            refine ⟨s0, sr, d0, dr, rfl, rfl, ?_⟩
            unfold pyClash pyTypeTag
            simp [h3]

/-- **`check_args` (Python `%`) never raises and emits exactly** the tags of `Spec.FmtCompare` -/
theorem checkArgsPython_tags (pfx : Extra) (srcLoc : List Char) (src : PyFmt.Result) (dstLoc : List Char) (dst : PyFmt.Result)
    (omittedOk : Bool) (hs : MapWf src.map) (hd : MapWf dst.map) :
    ∃ tags, checkArgsPython pfx srcLoc src dstLoc dst omittedOk = .ok tags ∧
      ∀ t, t ∈ tags ↔
        (NumberDiffers (pySeq src) (pySeq dst) ∧ t = pyNumberTag pfx srcLoc src dstLoc dst) ∨
        (∃ i a b, TypeDiffAt (pySeq src) (pySeq dst) i a b ∧ t = pyTypeTag pfx srcLoc dstLoc (a, b)) ∨
        (∃ k a b, TypeDiffKey (· = ·) (pyNamed src) (pyNamed dst) k a b ∧ t = pyTypeTag pfx srcLoc dstLoc (a, b)) ∨
        (∃ k, Unknown (pyNamed src) (pyNamed dst) k ∧ t = pyUnknownTag pfx srcLoc dstLoc k) ∨
        (∃ k, Missing (pyNamed src) (pyNamed dst) k ∧ pyTolerated src dst omittedOk = false ∧
          t = pyMissingTag pfx srcLoc dstLoc k) := by
  refine ⟨_, checkArgsPython_eq pfx srcLoc src dstLoc dst omittedOk hs hd, fun t => ?_⟩
  have hks : keys (pyNamed src) = src.map.map (·.1) := keys_viewOf _ _
  have hkd : keys (pyNamed dst) = dst.map.map (·.1) := keys_viewOf _ _
  rw [List.mem_append, List.mem_append, List.mem_append, List.mem_append, List.mem_flatMap, List.mem_map, List.mem_map, List.mem_map]
  unfold Unknown Missing NumberDiffers
  rw [hks, hkd]
  constructor
  · rintro ((((h | ⟨p, hp, rfl⟩) | ⟨k, _, hk⟩) | ⟨k, hk, rfl⟩) | ⟨k, hk, rfl⟩)
    · left
      split at h
      · rename_i hne
        simp only [List.mem_singleton] at h
        exact ⟨by simpa [pySeq] using hne, h⟩
      · cases h
    · right; left
      obtain ⟨a, b⟩ := p
      obtain ⟨i, hi⟩ := (mem_typeDiffs _ _ a b).1 hp
      exact ⟨i, a, b, hi, rfl⟩
    · right; right; left
      obtain ⟨a, b, h, rfl⟩ := (mem_pyClashAt pfx srcLoc dstLoc src dst hs hd k t).1 hk
      exact ⟨k, a, b, h, rfl⟩
    · rw [mem_sortBy] at hk
      right; right; right; left
      exact ⟨k, (mem_filter_not_contains _ _ k).1 hk, rfl⟩
    · rw [mem_sortBy] at hk
      right; right; right; right
      cases htol : pyTolerated src dst omittedOk with
      | true => rw [htol] at hk; cases hk
      | false =>
        rw [htol] at hk
        exact ⟨k, (mem_filter_not_contains _ _ k).1 hk, rfl, rfl⟩
  · rintro (⟨hne, rfl⟩ | ⟨i, a, b, hi, rfl⟩ | ⟨k, a, b, h, rfl⟩ | ⟨k, hk, rfl⟩ | ⟨k, hk, htol, rfl⟩)
    · left; left; left; left
      have : (dst.seq.length != src.seq.length) = true := by simpa [pySeq] using hne
      simp [this]
    · left; left; left; right
      exact ⟨(a, b), (mem_typeDiffs _ _ a b).2 ⟨i, hi⟩, rfl⟩
    · left; left; right
      have hk1 : k ∈ src.map.map (·.1) := by
        have := (get_isSome_iff k (pyNamed src)).1 ⟨a, h.1⟩
        rwa [hks] at this
      have hk2 : k ∈ dst.map.map (·.1) := by
        have := (get_isSome_iff k (pyNamed dst)).1 ⟨b, h.2.1⟩
        rwa [hkd] at this
      exact ⟨k, by rw [mem_sortBy]; exact (mem_filter_contains _ _ k).2 ⟨hk2, hk1⟩,
        (mem_pyClashAt pfx srcLoc dstLoc src dst hs hd k _).2 ⟨a, b, h, rfl⟩⟩
    · left; right
      exact ⟨k, by rw [mem_sortBy]; exact (mem_filter_not_contains _ _ k).2 hk, rfl⟩
    · right
      refine ⟨k, ?_, rfl⟩
      rw [mem_sortBy, htol]
      exact (mem_filter_not_contains _ _ k).2 hk

/-- **when Python-% tolerates a missing named argument**: the caller allows it, exactly one key is missing, and every
    use of it is an integer conversion -/
theorem pyTolerated_iff (src dst : PyFmt.Result) (hs : MapWf src.map) (omittedOk : Bool) :
    pyTolerated src dst omittedOk = true ↔
      omittedOk = true ∧ ∃ k uses, OnlyMissing (pyNamed src) (pyNamed dst) k ∧ valueAt src.map k = some uses ∧
        ∀ u ∈ uses, u.type = "int" := by
  unfold pyTolerated mapTolerated OnlyMissing Missing
  have hks : keys (pyNamed src) = src.map.map (·.1) := keys_viewOf _ _
  have hkd : keys (pyNamed dst) = dst.map.map (·.1) := keys_viewOf _ _
  rw [hks, hkd]
  simp only [Bool.and_eq_true]
  constructor
  · rintro ⟨ho, h⟩
    refine ⟨ho, ?_⟩
    match hm : pyMissing src dst, h with
    | [k], h =>
      simp only at h
      cases hu : valueAt src.map k with
      | none => rw [hu] at h; cases h
      | some uses =>
        rw [hu] at h
        exact ⟨k, uses, (missing_singleton_iff hs.1 k).1 hm, hu, by simpa using h⟩
  · rintro ⟨ho, k, uses, hk, hu, hall⟩
    have : pyMissing src dst = [k] := (missing_singleton_iff hs.1 k).2 hk
    rw [this]
    simp only [hu]
    exact ⟨ho, by simpa using hall⟩

/-- **Python-% `check_args` emits exactly**: the number-mismatch tag if the numbers of unnamed arguments differ; one type tag per
    unnamed position with different types, in position order; one type tag per common key with different types, in increasing
    key order; the unknown-argument tags in increasing key order; the missing-argument tags in increasing key order (unless the
    single one is tolerated). -/
theorem checkArgsPython_determined (pfx : Extra) (srcLoc : List Char) (src : PyFmt.Result) (dstLoc : List Char) (dst : PyFmt.Result)
    (omittedOk : Bool) (hs : MapWf src.map) (hd : MapWf dst.map) :
    ∃ K U M, checkArgsPython pfx srcLoc src dstLoc dst omittedOk = .ok (
        (if dst.seq.length != src.seq.length then [pyNumberTag pfx srcLoc src dstLoc dst] else []) ++
        (typeDiffs (pySeq src) (pySeq dst)).map (pyTypeTag pfx srcLoc dstLoc) ++
        K.flatMap (clashAt (pyClash pfx srcLoc dstLoc) src.map dst.map) ++
        U.map (pyUnknownTag pfx srcLoc dstLoc) ++ M.map (pyMissingTag pfx srcLoc dstLoc)) ∧
      Sorted strLt K ∧ (∀ k, k ∈ K ↔ k ∈ keys (pyNamed src) ∧ k ∈ keys (pyNamed dst)) ∧
      Sorted strLt U ∧ (∀ k, k ∈ U ↔ Unknown (pyNamed src) (pyNamed dst) k) ∧
      Sorted strLt M ∧ (∀ k, k ∈ M ↔ Missing (pyNamed src) (pyNamed dst) k ∧ pyTolerated src dst omittedOk = false) := by
  have hks : keys (pyNamed src) = src.map.map (·.1) := keys_viewOf _ _
  have hkd : keys (pyNamed dst) = dst.map.map (·.1) := keys_viewOf _ _
  refine ⟨_, _, _, checkArgsPython_eq pfx srcLoc src dstLoc dst omittedOk hs hd, ?_, ?_, ?_, ?_, ?_, ?_⟩
  · exact sortBy_sorted strLt_strictTotal _ (hd.1.filter _)
  · intro k
    rw [mem_sortBy, mem_filter_contains, hks, hkd]
    exact And.comm
  · exact sortBy_sorted strLt_strictTotal _ (hd.1.filter _)
  · intro k
    rw [mem_sortBy, mem_filter_not_contains]
    unfold Unknown; rw [hks, hkd]
  · cases pyTolerated src dst omittedOk with
    | true => simp [sortBy, Sorted]
    | false => exact sortBy_sorted strLt_strictTotal _ (hs.1.filter _)
  · intro k
    rw [mem_sortBy]
    unfold Missing; rw [hks, hkd]
    cases pyTolerated src dst omittedOk with
    | true => simp
    | false =>
      simp only [Bool.false_eq_true, ↓reduceIte, and_true]
      exact mem_filter_not_contains _ _ k

/-! ## the named signature in terms of the specifications the scanner reads -/

theorem valueAt_of_mem_nodup {κ ν : Type} [DecidableEq κ] : ∀ {m : Named κ ν} {k : κ} {v : ν},
    (m.map (·.1)).Nodup → (k, v) ∈ m → valueAt m k = some v
  | [], _, _, _, h => by cases h
  | (k', v') :: rest, k, v, hn, h => by
    simp only [List.map_cons, List.nodup_cons] at hn
    simp only [valueAt]
    rcases List.mem_cons.1 h with heq | hmem
    · cases heq; simp
    · have hne : k' ≠ k := by
        intro hk
        subst hk
        exact hn.1 (List.mem_map.2 ⟨(k', v), hmem, rfl⟩)
      simp only [hne, ↓reduceIte]
      exact valueAt_of_mem_nodup hn.2 hmem

/-- **The named signature is the set of (key, type) of the named specifications read**: for an accepted string, key `k` has type
    `t` iff some specification `%(k)…` of the string has type `t` (`log` = the `(key, conversion)` records in reading order). -/
theorem pyNamed_iff_log {s : List Char} {r : PyFmt.Result} (h : PyFmt.parse s = .ok r) :
    ∃ st, PyFmt.loop true (s.length + 1) s [] PyFmt.St.init = .ok st ∧
      ∀ k t, valueAt (pyNamed r) k = some t ↔ ∃ e, (k, e) ∈ st.map ∧ e.type = t := by
  obtain ⟨st, hl, _, hm, hall⟩ := PyFmt.parse_loop h
  refine ⟨st, hl, fun k t => ?_⟩
  unfold pyNamed
  rw [get_viewOf, hm]
  have hwf := groups_wf st.map
  constructor
  · intro hv
    cases hg : valueAt (PyFmt.groups st.map) k with
    | none => rw [hg] at hv; cases hv
    | some es =>
      rw [hg] at hv
      simp only [Option.map_some, Option.some.injEq] at hv
      have hmem := get_mem hg
      obtain ⟨hes, _⟩ := PyFmt.groups_spec hmem
      cases es with
      | nil => exact absurd rfl (hwf.2 _ hmem)
      | cons e0 rest =>
        have he0 : e0 ∈ (st.map.filter (fun p => p.1 == k)).map (·.2) := by rw [← hes]; simp
        obtain ⟨p, hp, rfl⟩ := List.mem_map.1 he0
        have hp' := List.mem_filter.1 hp
        have hk : p.1 = k := by simpa using hp'.2
        exact ⟨p.2, by rw [← hk]; exact hp'.1, hv⟩
  · rintro ⟨e, he, rfl⟩
    obtain ⟨es, hes, hin⟩ := PyFmt.groups_mem he
    rw [valueAt_of_mem_nodup hwf.1 hes]
    simp only [Option.map_some, Option.some.injEq]
    cases es with
    | nil => cases hin
    | cons e0 rest =>
      simp only [pyHeadType]
      have hsame : PyFmt.sameType (e0 :: rest) = true := by
        have := List.all_eq_true.1 hall (k, e0 :: rest) hes
        simpa using this
      rcases List.mem_cons.1 hin with rfl | hr
      · rfl
      · simp only [PyFmt.sameType, List.all_eq_true, beq_iff_eq] at hsame
        exact (hsame e hr).symm

/-- two accepted strings whose named specifications carry the same (key, type) pairs — in any order, any multiplicity — have
    the same named signature -/
theorem sameNamed_of_logs {s s' : List Char} {r r' : PyFmt.Result} (h : PyFmt.parse s = .ok r) (h' : PyFmt.parse s' = .ok r')
    {st st' : PyFmt.St} (hl : PyFmt.loop true (s.length + 1) s [] PyFmt.St.init = .ok st)
    (hl' : PyFmt.loop true (s'.length + 1) s' [] PyFmt.St.init = .ok st')
    (hsame : ∀ k t, (∃ e, (k, e) ∈ st.map ∧ e.type = t) ↔ (∃ e, (k, e) ∈ st'.map ∧ e.type = t)) :
    SameNamed (· = ·) (pyNamed r) (pyNamed r') := by
  obtain ⟨st1, hl1, hiff⟩ := pyNamed_iff_log h
  obtain ⟨st2, hl2, hiff'⟩ := pyNamed_iff_log h'
  rw [hl] at hl1; cases hl1
  rw [hl'] at hl2; cases hl2
  constructor
  · intro k
    rw [← get_isSome_iff, ← get_isSome_iff]
    constructor
    · rintro ⟨v, hv⟩; exact ⟨v, (hiff' k v).2 ((hsame k v).1 ((hiff k v).1 hv))⟩
    · rintro ⟨v, hv⟩; exact ⟨v, (hiff k v).2 ((hsame k v).2 ((hiff' k v).1 hv))⟩
  · intro k a b ha hb
    have := (hiff' k a).2 ((hsame k a).1 ((hiff k a).1 ha))
    rw [hb] at this
    exact (Option.some.inj this).symm

end I18n.FmtCheck
