import I18n.Lemmas.PerlBraceChars
/-
perl-brace: the scanner accepts exactly the well-formed strings of `Spec.PerlBraceRef`, reports exactly their arguments,
raises only `Error`, and its items spell the input.
-/
namespace I18n.PerlBrace
open I18n.BraceChars I18n.Spec.PerlBraceRef

/-! ### list facts -/

theorem split_unique {α : Type} (c : α) : ∀ (a b x y : List α), c ∉ a → c ∉ b → a ++ c :: x = b ++ c :: y → a = b ∧ x = y := by
  intro a
  induction a with
  | nil =>
    intro b x y _ hb h
    cases b with
    | nil => simpa using h
    | cons d b =>
      simp at h
      exact absurd (h.1 ▸ (by simp : d ∈ d :: b)) hb
  | cons e a ih =>
    intro b x y ha hb h
    cases b with
    | nil =>
      simp at h
      exact absurd (h.1 ▸ (by simp : e ∈ e :: a)) ha
    | cons d b =>
      simp at h
      obtain ⟨rfl, h⟩ := h
      have := ih b x y (fun h' => ha (by simp [h'])) (fun h' => hb (by simp [h'])) h
      exact ⟨by rw [this.1], this.2⟩

theorem split_after {α : Type} (c e : α) (hne : c ≠ e) : ∀ (a x pre y : List α), e ∉ a → a ++ c :: x = pre ++ e :: y →
    ∃ p, pre = a ++ c :: p ∧ x = p ++ e :: y := by
  intro a
  induction a with
  | nil =>
    intro x pre y _ h
    cases pre with
    | nil => simp at h; exact absurd h.1 hne
    | cons d pre => simp at h; exact ⟨pre, by simp [h.1], h.2⟩
  | cons f a ih =>
    intro x pre y ha h
    cases pre with
    | nil => simp at h; exact absurd (h.1 ▸ (by simp : f ∈ f :: a)) ha
    | cons d pre =>
      simp at h
      obtain ⟨rfl, h⟩ := h
      obtain ⟨p, hp, hx⟩ := ih x pre y (fun h' => ha (by simp [h'])) h
      exact ⟨p, by simp [hp], hx⟩

theorem span_all {α : Type} (p : α → Bool) : ∀ (t rest : List α), (∀ d ∈ t, p d = true) → (∀ d r, rest = d :: r → p d = false) →
    (t ++ rest).takeWhile p = t ∧ (t ++ rest).dropWhile p = rest := by
  intro t
  induction t with
  | nil =>
    intro rest _ hr
    cases rest with
    | nil => simp
    | cons d r => simp [hr d r rfl]
  | cons e t ih =>
    intro rest ht hr
    have := ih rest (fun d hd => ht d (by simp [hd])) hr
    simp [ht e (by simp), this.1, this.2]

theorem takeWhile_all {α : Type} (p : α → Bool) : ∀ (l : List α), ∀ d ∈ l.takeWhile p, p d = true := by
  intro l
  induction l with
  | nil => simp
  | cons e l ih =>
    intro d hd
    by_cases he : p e = true
    · simp [he] at hd
      rcases hd with rfl | hd
      · exact he
      · exact ih d hd
    · simp [he] at hd

/-! ### identifiers -/

theorem isIdent_iff (w : List Char) : IsIdent w ↔ ∃ c t, w = c :: t ∧ isIdStart c = true ∧ ∀ d ∈ t, isWord d = true := by
  simp only [IsIdent, isIdStart_iff, isWord_iff]

theorem ident_no_open {w : List Char} (h : IsIdent w) : '{' ∉ w := by
  obtain ⟨c, t, rfl, hc, ht⟩ := (isIdent_iff w).1 h
  intro hm
  simp at hm
  rcases hm with rfl | hm
  · exact word_ne_open (idStart_word hc) rfl
  · exact word_ne_open (ht _ hm) rfl

theorem ident_no_close {w : List Char} (h : IsIdent w) : '}' ∉ w := by
  obtain ⟨c, t, rfl, hc, ht⟩ := (isIdent_iff w).1 h
  intro hm
  simp at hm
  rcases hm with rfl | hm
  · exact word_ne_close (idStart_word hc) rfl
  · exact word_ne_close (ht _ hm) rfl

/-! ### the scanner on one item -/

theorem scanItem_field {post : List Char} {w rest : List Char} (hw : IsIdent w) (h : post = w ++ '}' :: rest) :
    scanItem ('{' :: post) = some (.field w, rest) := by
  obtain ⟨c, t, rfl, hc, ht⟩ := (isIdent_iff w).1 hw
  subst h
  have := span_all isWord t ('}' :: rest) ht (by intro d r h; cases h; decide)
  simp [scanItem, hc, this.1, this.2]

theorem scanItem_open {post : List Char} {it : Item} {rest : List Char} (h : scanItem ('{' :: post) = some (it, rest)) :
    ∃ w, it = .field w ∧ IsIdent w ∧ post = w ++ '}' :: rest := by
  cases post with
  | nil => simp [scanItem] at h
  | cons d ds =>
    simp only [scanItem, ne_eq, not_true_eq_false, if_false] at h
    by_cases hd : isIdStart d = true
    · simp only [hd, if_true] at h
      cases hdw : ds.dropWhile isWord with
      | nil => simp [hdw] at h
      | cons e r =>
        simp only [hdw] at h
        by_cases he : e = '}'
        · subst he
          simp at h
          obtain ⟨rfl, rfl⟩ := h
          refine ⟨d :: ds.takeWhile isWord, rfl, (isIdent_iff _).2 ⟨d, _, rfl, hd, ?_⟩, ?_⟩
          · exact takeWhile_all isWord ds
          · have := List.takeWhile_append_dropWhile (p := isWord) (l := ds)
            rw [hdw] at this
            simp [this]
        · split at h <;> simp_all
    · simp [hd] at h

theorem scanItem_other {c : Char} (cs : List Char) (hc : c ≠ '{') :
    scanItem (c :: cs) = some (.lit (c :: cs.takeWhile (· ≠ '{')), cs.dropWhile (· ≠ '{')) := by
  simp [scanItem, hc]

/-! ### the reference on prefixes -/

theorem wf_nil : WellFormed [] := by
  intro pre post h; simp at h

theorem wf_cons_other {c : Char} (hc : c ≠ '{') (s : List Char) : WellFormed (c :: s) ↔ WellFormed s := by
  constructor
  · intro h pre post hs
    exact h (c :: pre) post (by simp [hs])
  · intro h pre post hs
    cases pre with
    | nil => simp at hs; exact absurd hs.1 hc
    | cons d pre => simp at hs; exact h pre post hs.2

theorem wf_append_lit (t : List Char) (ht : '{' ∉ t) (s : List Char) : WellFormed (t ++ s) ↔ WellFormed s := by
  induction t with
  | nil => simp
  | cons c t ih =>
    have hc : c ≠ '{' := fun h => ht (by simp [h])
    rw [List.cons_append, wf_cons_other hc, ih (fun h => ht (by simp [h]))]

theorem wf_field {w : List Char} (hw : IsIdent w) (rest : List Char) : WellFormed ('{' :: w ++ '}' :: rest) ↔ WellFormed rest := by
  constructor
  · intro h pre post hs
    exact h ('{' :: w ++ '}' :: pre) post (by simp [hs])
  · intro h pre post hs
    cases pre with
    | nil =>
      simp at hs
      exact ⟨w, rest, hw, hs.symm⟩
    | cons d pre =>
      simp at hs
      obtain ⟨_, hs⟩ := hs
      obtain ⟨p, _, hx⟩ := split_after '}' '{' (by decide) w rest pre post (ident_no_open hw) hs
      exact h p post hx

theorem wf_open {post : List Char} (h : WellFormed ('{' :: post)) : ∃ w rest, IsIdent w ∧ post = w ++ '}' :: rest :=
  h [] post rfl

theorem arg_cons_other {c : Char} (hc : c ≠ '{') (s w : List Char) : IsArgument (c :: s) w ↔ IsArgument s w := by
  constructor
  · rintro ⟨hw, pre, rest, hs⟩
    cases pre with
    | nil => simp at hs; exact absurd hs.1 hc
    | cons d pre => simp at hs; exact ⟨hw, pre, rest, by simpa using hs.2⟩
  · rintro ⟨hw, pre, rest, hs⟩
    exact ⟨hw, c :: pre, rest, by simp [hs]⟩

theorem arg_append_lit (t : List Char) (ht : '{' ∉ t) (s w : List Char) : IsArgument (t ++ s) w ↔ IsArgument s w := by
  induction t with
  | nil => simp
  | cons c t ih =>
    have hc : c ≠ '{' := fun h => ht (by simp [h])
    rw [List.cons_append, arg_cons_other hc, ih (fun h => ht (by simp [h]))]

theorem arg_field {n : List Char} (hn : IsIdent n) (rest w : List Char) :
    IsArgument ('{' :: n ++ '}' :: rest) w ↔ (w = n ∨ IsArgument rest w) := by
  constructor
  · rintro ⟨hw, pre, rest', hs⟩
    cases pre with
    | nil =>
      simp at hs
      have := split_unique '}' n w rest rest' (ident_no_close hn) (ident_no_close hw) hs
      exact Or.inl this.1.symm
    | cons d pre =>
      simp at hs
      obtain ⟨_, hs⟩ := hs
      obtain ⟨p, _, hx⟩ := split_after '}' '{' (by decide) n rest pre (w ++ '}' :: rest') (ident_no_open hn) hs
      exact Or.inr ⟨hw, p, rest', by simpa using hx⟩
  · rintro (rfl | ⟨hw, pre, rest', hs⟩)
    · exact ⟨hn, [], rest, by simp⟩
    · exact ⟨hw, '{' :: n ++ '}' :: pre, rest', by simp [hs]⟩

/-! ### one step of the loop -/

theorem dropWhile_length_le {α : Type} (p : α → Bool) (l : List α) : (l.dropWhile p).length ≤ l.length := by
  induction l with
  | nil => simp
  | cons a l ih => simp only [List.dropWhile_cons]; split <;> simp <;> omega

theorem takeWhile_no_open (cs : List Char) : '{' ∉ cs.takeWhile (· ≠ '{') := by
  intro h
  have := takeWhile_all (· ≠ '{') cs '{' h
  simp at this

/-- what one successful `scanItem` means -/
theorem scanItem_some {cs : List Char} {it : Item} {rest : List Char} (h : scanItem cs = some (it, rest)) :
    cs = it.text ++ rest ∧ rest.length < cs.length ∧
    (WellFormed cs ↔ WellFormed rest) ∧
    (∀ w, IsArgument cs w ↔ ((∃ n, it = .field n ∧ w = n) ∨ IsArgument rest w)) := by
  cases cs with
  | nil => simp [scanItem] at h
  | cons c cs =>
    by_cases hc : c = '{'
    · subst hc
      obtain ⟨w, rfl, hw, rfl⟩ := scanItem_open h
      refine ⟨by simp [Item.text], by simp; omega, ?_, ?_⟩
      · simpa using wf_field hw rest
      · intro x
        have := arg_field hw rest x
        simp only [List.cons_append] at this ⊢
        rw [this]; simp
    · rw [scanItem_other cs hc] at h
      simp only [Option.some.injEq, Prod.mk.injEq] at h
      obtain ⟨rfl, rfl⟩ := h
      have hsplit : c :: cs = (c :: cs.takeWhile (· ≠ '{')) ++ cs.dropWhile (· ≠ '{') := by
        simp [List.takeWhile_append_dropWhile]
      have hno : '{' ∉ c :: cs.takeWhile (· ≠ '{') := by
        intro hm
        simp only [List.mem_cons] at hm
        rcases hm with hm | hm
        · exact hc hm.symm
        · exact takeWhile_no_open cs hm
      refine ⟨by simp [Item.text], ?_, ?_, ?_⟩
      · have := dropWhile_length_le (fun x : Char => decide (x ≠ '{')) cs
        simp only [List.length_cons]; omega
      · rw [hsplit]; exact wf_append_lit _ hno _
      · intro w
        rw [hsplit, arg_append_lit _ hno]
        simp

theorem scanItem_none {c : Char} {cs : List Char} (h : scanItem (c :: cs) = none) : c = '{' ∧ ¬ WellFormed (c :: cs) := by
  by_cases hc : c = '{'
  · subst hc
    refine ⟨rfl, fun hwf => ?_⟩
    obtain ⟨w, rest, hw, hp⟩ := wf_open hwf
    rw [scanItem_field hw hp] at h
    cases h
  · rw [scanItem_other cs hc] at h; cases h

theorem printablePrefix_open (cs : List Char) : ∃ p, printablePrefix ('{' :: cs) = some p := by
  have : isPrintableAscii '{' = true := by decide
  simp [printablePrefix, this]

/-! ### the loop -/

def itemsText (items : List Item) : List Char := (items.map Item.text).flatten

theorem loop_spec : ∀ (fuel : Nat) (cs : List Char) (items : List Item) (names : List (List Char)), cs.length ≤ fuel →
    (WellFormed cs → ∃ r, loop fuel cs items names = .ok r ∧
        (∀ w, w ∈ r.names ↔ (w ∈ names ∨ IsArgument cs w)) ∧ itemsText r.items = itemsText items.reverse ++ cs) ∧
    (¬ WellFormed cs → ∃ p, loop fuel cs items names = .error (.error p)) := by
  intro fuel
  induction fuel with
  | zero =>
    intro cs items names hlen
    have : cs = [] := by cases cs <;> simp_all
    subst this
    refine ⟨fun _ => ⟨_, rfl, ?_, by simp⟩, fun h => absurd wf_nil h⟩
    intro w
    simp only [List.mem_reverse]
    constructor
    · exact Or.inl
    · rintro (h | ⟨_, pre, rest, h⟩)
      · exact h
      · simp at h
  | succ fuel ih =>
    intro cs items names hlen
    cases cs with
    | nil =>
      refine ⟨fun _ => ⟨_, rfl, ?_, by simp⟩, fun h => absurd wf_nil h⟩
      intro w
      simp only [List.mem_reverse]
      constructor
      · exact Or.inl
      · rintro (h | ⟨_, pre, rest, h⟩)
        · exact h
        · simp at h
    | cons c cs =>
      cases hsc : scanItem (c :: cs) with
      | none =>
        obtain ⟨rfl, hnwf⟩ := scanItem_none hsc
        refine ⟨fun h => absurd h hnwf, fun _ => ?_⟩
        obtain ⟨p, hp⟩ := printablePrefix_open cs
        exact ⟨p, by simp [loop, hsc, hp]⟩
      | some res =>
        obtain ⟨it, rest⟩ := res
        obtain ⟨htext, hlt, hwf, hargs⟩ := scanItem_some hsc
        have hlen' : rest.length ≤ fuel := by simp at hlen hlt; omega
        have ih' := ih rest (it :: items) (it.addName names) hlen'
        simp only [loop, hsc]
        refine ⟨fun h => ?_, fun h => ?_⟩
        · obtain ⟨r, hr, hn, hi⟩ := ih'.1 (hwf.1 h)
          refine ⟨r, hr, ?_, ?_⟩
          · intro w
            rw [hn w, hargs w]
            cases it with
            | lit t => simp [Item.addName]
            | field n =>
              simp only [Item.addName, List.mem_cons, Item.field.injEq, exists_eq_left']
              constructor
              · rintro ((h | h) | h)
                · exact Or.inr (Or.inl h)
                · exact Or.inl h
                · exact Or.inr (Or.inr h)
              · rintro (h | h | h)
                · exact Or.inl (Or.inr h)
                · exact Or.inl (Or.inl h)
                · exact Or.inr h
          · rw [hi, htext]; simp [itemsText]
        · exact ih'.2 (fun h' => h (hwf.2 h'))

end I18n.PerlBrace
