import I18n.Generated.TagsFmt
/-!
# The functions regenerated from `lib/tags.py` equal the hand-written model of C02

`I18n.Generated.TagsFmt` is rewritten by `tools/translate/tagsfmt2lean.py` from the current source on every run; this file proves,
for all inputs, that each regenerated function computes the model function the theorems of `Props/C02.lean` are about.
-/
set_option linter.unusedSimpArgs false
namespace I18n.Tags.Gen
open I18n I18n.Tags I18n.Generated

theorem lit_empty : lit "" = [] := rfl

/-- `_escape` as regenerated = `Tags.escape` -/
theorem escape_eq (db : UnicodeDB) (s : Extra) : TagsFmt._escape db s = .ok (escape db s) := by
  cases s with
  | safe v => rfl
  | bytes b => rfl
  | str v =>
    simp only [TagsFmt._escape, escape, escapeStr, Py.pyStr, lit_empty, decide_eq_true_eq]
    by_cases h1 : v = []
    · simp [h1]
    · by_cases h2 : isSafe v = true <;> simp [h1, h2]
  | int n =>
    simp only [TagsFmt._escape, escape, escapeStr, Py.pyStr, lit_empty, decide_eq_true_eq]
    by_cases h1 : strInt n = []
    · simp [h1]
    · by_cases h2 : isSafe (strInt n) = true <;> simp [h1, h2]

/-- a comprehension over a function that cannot fail -/
theorem mapM_ok {α β ε : Type} (f : α → Except ε β) (g : α → β) (h : ∀ x, f x = .ok (g x)) (xs : List α) :
    PyKit.mapM f xs = .ok (xs.map g) := by
  induction xs with
  | nil => rfl
  | cons x xs ih => simp [PyKit.mapM, h, ih]

/-- `Tag.get_priority` as regenerated = the letter of `Tags.priority` -/
theorem get_priority_eq (db : UnicodeDB) (t : Tag) :
    TagsFmt.Tag.get_priority db t = .ok [(priority t.severity t.certainty).code] := by
  obtain ⟨name, sev, cert⟩ := t
  cases sev <;> cases cert <;> rfl

/-- `safe_format` as regenerated = `Tags.safeFormat` -/
theorem safe_format_eq (db : UnicodeDB) (template : Str) (args : List Extra) (kwargs : List (Str × Extra)) :
    TagsFmt.safe_format db template args kwargs = safeFormat db template args kwargs := by
  simp only [TagsFmt.safe_format, safeFormat]
  rw [mapM_ok _ (escape db) (escape_eq db)]
  simp only []
  rw [mapM_ok _ (fun kv : Str × Extra => (kv.1, escape db kv.2)) ?h]
  case h => intro kv; obtain ⟨k, v⟩ := kv; simp [escape_eq]

/-- `Tag.format` as regenerated = `Tags.format` (`colour` = what `get_colors()` answered, when `color` is true) -/
theorem format_eq (db : UnicodeDB) (colors : Str × Str) (t : Tag) (target : Str) (extra : List Extra) (color : Bool) :
    TagsFmt.Tag.format db colors t target extra color = .ok (format db t target extra (if color then some colors else none)) := by
  simp only [TagsFmt.Tag.format, format, get_priority_eq]
  rw [mapM_ok _ (escape db) (escape_eq db)]
  cases color <;> cases h : extra.isEmpty <;>
    simp [h, lit_empty, Tag.priority, List.append_assoc]
end I18n.Tags.Gen
