import I18n.Lemmas.MsgFlagsLoop
/-
`check_messages` against the rule set: the per-message body, with the two accumulators replaced by what they stand for
(`msgid_counter[k]` = number of earlier messages with key `k`; `found_unusual_characters` = the unexplained unusual characters
in translations of earlier messages), and the loop over the file.
-/
namespace I18n.Msg
open I18n.Tags (Str lit Extra)
open I18n.Spec.MessageRules

/-! ## small correspondences -/

theorem hasMsgstrPlural_eq (e : Entry) : e.hasMsgstrPlural = someForm e := by
  simp only [Entry.hasMsgstrPlural, someForm]
  congr 1; funext s; cases s <;> simp

theorem not_all_nonempty (e : Entry) : (!e.forms.all (!·.isEmpty)) = e.forms.any (· = []) := by
  induction e.forms with
  | nil => simp
  | cons s rest ih => cases s <;> simp_all

theorem isMessage_eq (e : Entry) : isMessage e = (!e.obsolete && !isHeaderEntry e) := by
  cases h : e.msgctxt <;> simp [isMessage, isHeaderEntry, h]

theorem markerCheck_eq (env : Env) (e : Entry) (strings : List Str) :
    markerCheck env e strings = markerTag env.flag.db e (strings.findSome? env.searchMarker) := by
  induction strings with
  | nil => simp [markerCheck, markerTag]
  | cons s rest ih =>
    cases h : env.searchMarker s <;> simp [markerCheck, markerTag, h, ih]

theorem newlineCheck_eq (db : Tags.UnicodeDB) (e : Entry) (t : MTag) (bit : Str → Bool) (strings : List Str) :
    newlineCheck db e t bit strings = rule (strings.any fun s => bit s != bit e.msgid) (tagR db e tplPlain t []) := rfl

/-! ## unusual characters -/

theorem ucNames_isSome (charName : Nat → Option Str) : ∀ (l : List Nat), (∀ c ∈ l, (charName c).isSome) →
    (ucNames charName l).isSome
  | [], _ => rfl
  | [c], h => by
    have := h c (by simp)
    cases hc : charName c <;> simp_all [ucNames]
  | c :: d :: rest, h => by
    have h1 := h c (by simp)
    have h2 := ucNames_isSome charName (d :: rest) (fun x hx => h x (by simp [hx]))
    cases hc : charName c <;> cases hr : ucNames charName (d :: rest) <;> simp_all [ucNames]

theorem unusualLoop_eq {env : Env} (hs : Sane env) (pre : List Entry) (e : Entry) :
    ∀ (rest done : List Str) (found : List Nat),
      (∀ c, c ∈ found ↔ c ∈ seenBefore env pre ∨ c ∈ done.flatMap (unexplained env e)) →
      (unusualLoop env e (explained env e) found rest).2 = unusualTags env pre e done rest ∧
      (∀ c, c ∈ (unusualLoop env e (explained env e) found rest).1 ↔
        c ∈ seenBefore env pre ∨ c ∈ (done ++ rest).flatMap (unexplained env e))
  | [], done, found, h => by simpa [unusualLoop, unusualTags] using h
  | s :: rest, done, found, h => by
    have huc : toSorted natLt ((env.findUnusual s).filter fun c => !(explained env e).contains c && !found.contains c)
        = reported env pre e done s := by
      simp only [reported, unexplained, List.filter_filter]
      congr 1
      apply List.filter_congr
      intro c _
      have hb : found.contains c = ((seenBefore env pre).contains c || (done.flatMap (unexplained env e)).contains c) := by
        rw [Bool.eq_iff_iff]
        simp only [List.contains_eq_mem, decide_eq_true_eq, Bool.or_eq_true]
        exact h c
      rw [hb]
      generalize (explained env e).contains c = x
      generalize (seenBefore env pre).contains c = y
      generalize (done.flatMap (unexplained env e)).contains c = z
      cases x <;> cases y <;> cases z <;> rfl
    have hmem : ∀ c, c ∈ reported env pre e done s ↔ c ∈ unexplained env e s ∧ c ∉ found := by
      intro c
      have := h c
      simp only [reported, mem_toSorted, List.mem_filter, Bool.and_eq_true, Bool.not_eq_true', List.contains_eq_mem,
        decide_eq_false_iff_not]
      constructor
      · rintro ⟨h1, h2, h3⟩; exact ⟨h1, fun hf => by rcases this.mp hf with h | h <;> simp_all⟩
      · rintro ⟨h1, h2⟩; exact ⟨h1, fun hf => h2 (this.mpr (Or.inl hf)), fun hf => h2 (this.mpr (Or.inr hf))⟩
    simp only [unusualLoop, huc, unusualTags]
    by_cases hemp : (reported env pre e done s).isEmpty = true
    · have hnil : reported env pre e done s = [] := by simpa using hemp
      have ih := unusualLoop_eq hs pre e rest (done ++ [s]) found (by
        intro c
        have := h c
        have hm := hmem c
        rw [hnil] at hm
        simp only [List.flatMap_append, List.flatMap_cons, List.flatMap_nil, List.append_nil, List.mem_append]
        constructor
        · intro hf; rcases this.mp hf with h | h <;> simp [h]
        · rintro (h' | h' | h')
          · exact this.mpr (Or.inl h')
          · exact this.mpr (Or.inr h')
          · by_cases hf : c ∈ found
            · exact hf
            · exact absurd (hm.mpr ⟨h', hf⟩) List.not_mem_nil)
      simp only [hemp, ↓reduceIte, List.nil_append]
      simpa using ih
    · have hall : ∀ c ∈ reported env pre e done s, (env.charName c).isSome := by
        intro c hc
        have := (hmem c).mp hc
        have : c ∈ env.findUnusual s := by
          have := this.1; simp only [unexplained, List.mem_filter] at this; exact this.1
        exact hs.names s c this
      have hsome := ucNames_isSome env.charName _ hall
      obtain ⟨names, hn⟩ := Option.isSome_iff_exists.mp hsome
      have ih := unusualLoop_eq hs pre e rest (done ++ [s]) (found ++ reported env pre e done s) (by
        intro c
        have := h c
        have hm := hmem c
        simp only [List.flatMap_append, List.flatMap_cons, List.flatMap_nil, List.append_nil, List.mem_append]
        constructor
        · rintro (hf | hr)
          · rcases this.mp hf with h | h <;> simp [h]
          · exact Or.inr (Or.inr (hm.mp hr).1)
        · rintro (h' | h' | h')
          · exact Or.inl (this.mpr (Or.inl h'))
          · exact Or.inl (this.mpr (Or.inr h'))
          · by_cases hf : c ∈ found
            · exact Or.inl hf
            · exact Or.inr (hm.mpr ⟨h', hf⟩))
      simp only [hemp, Bool.false_eq_true, ↓reduceIte, hn, unusualTag]
      refine ⟨?_, ?_⟩
      · simp [ih.1]
      · simpa using ih.2

/-! ## dispatch and the XML gate -/

theorem checkMessageFormats_eq {env : Env} (hs : Sane env) (ctx : Ctx) (e : Entry) :
    checkMessageFormats env ctx e (info env.flag e) = dispatch env e ++ xmlTags env ctx e := by
  have hx := hs.xml
  simp only [checkMessageFormats, dispatch, xmlTags, checkXmlFormat, info, rule]
  congr 1
  by_cases hg : env.xmlGate e.comment = true <;> by_cases he : ctx.hasEncoding = true <;> simp [hg, he]
  cases h1 : env.xml e.msgid with
  | other => exact absurd h1 (hx _)
  | syntaxError msg => simp
  | ok =>
    by_cases hf : fuzzy e = true <;> by_cases hm : e.hasMsgstr = true <;> simp [hf, hm]
    cases h2 : env.xml (e.msgstr.getD []) with
    | other => exact absurd h2 (hx _)
    | syntaxError msg => simp
    | ok => simp

/-! ## the body of the loop -/

structure MInv (env : Env) (ctx : Ctx) (pre : List Entry) (st : MSt) : Prop where
  counter : ∀ k, (assocGet k st.counter).getD 0 = (pre.filter fun m => isMessage m && key m = k).length
  empty : st.counter = [] ↔ pre.any isMessage = false
  found : ctx.hasEncoding = true → ∀ c, c ∈ st.found ↔ c ∈ seenBefore env pre

theorem seenBefore_snoc (env : Env) (pre : List Entry) (e : Entry) (h : isMessage e = true) :
    seenBefore env (pre ++ [e]) = seenBefore env pre ++ (translations e).flatMap (unexplained env e) := by
  simp [seenBefore, List.filter_append, h]

theorem seenBefore_snoc_skip (env : Env) (pre : List Entry) (e : Entry) (h : isMessage e = false) :
    seenBefore env (pre ++ [e]) = seenBefore env pre := by
  simp [seenBefore, List.filter_append, h]

theorem translations_eq (e : Entry) : translationStrings e = translations e := by
  simp [translationStrings, translations, hasMsgstrPlural_eq]

theorem considered_eq (e : Entry) : consideredStrings e (fuzzy e) = considered e := by
  cases h : fuzzy e <;> simp [consideredStrings, considered, hasMsgstrPlural_eq, h]

theorem checkMessage_eq {env : Env} (hs : Sane env) (ctx : Ctx) {pre : List Entry} {st : MSt} (hi : MInv env ctx pre st)
    (e : Entry) (hm : isMessage e = true) :
    (checkMessage env ctx st e).2 = entryTags env ctx pre e ∧ MInv env ctx (pre ++ [e]) (checkMessage env ctx st e).1 := by
  obtain ⟨hc, hemp, hf⟩ := hi
  have hcnt := hc (e.msgid, e.msgctxt)
  have hfuz : (info env.flag e).fuzzy = fuzzy e := rfl
  simp only [checkMessage, checkMessageFlags_eq, checkMessageFormats_eq hs, hfuz, translations_eq, considered_eq,
    newlineCheck_eq, markerCheck_eq, not_all_nonempty, hasMsgstrPlural_eq]
  have hex : env.findUnusual e.msgid ++ env.findUnusual (e.msgidPlural.getD []) = explained env e := rfl
  have hkey : ∀ m : Entry, (isMessage m && decide (key m = (e.msgid, e.msgctxt))) = (isMessage m && decide (key m = key e)) := fun _ => rfl
  by_cases henc : ctx.hasEncoding = true
  · have hu := unusualLoop_eq hs pre e (translations e) [] st.found (by simpa using hf henc)
    refine ⟨?_, ?_, ?_, ?_⟩
    · simp only [entryTags, hm, henc, if_true, hcnt, earlierSame, hasTranslation, firstMarker, rule, hex, hu.1]
      cases hfz : fuzzy e <;> simp [List.append_assoc, key]
    · intro k
      by_cases hk : (e.msgid, e.msgctxt) = k
      · subst hk
        simp [assocGet_assocSet_self, hcnt, List.filter_append, hm, key]
      · have hk' : key e ≠ k := hk
        simp [assocGet_assocSet_ne (Ne.symm hk), hc k, List.filter_append, hm, hk']
    · simp [assocSet_ne_nil, hm]
    · intro _ c
      rw [seenBefore_snoc env pre e hm]
      simp only [henc, if_true, hex]
      simpa using hu.2 c
  · have henc' : ctx.hasEncoding = false := by simpa using henc
    refine ⟨?_, ?_, ?_, ?_⟩
    · simp only [entryTags, hm, henc', hcnt, earlierSame, hasTranslation, firstMarker, rule]
      cases hfz : fuzzy e <;> simp [List.append_assoc, key]
    · intro k
      by_cases hk : (e.msgid, e.msgctxt) = k
      · subst hk
        simp [assocGet_assocSet_self, hcnt, List.filter_append, hm, key]
      · have hk' : key e ≠ k := hk
        simp [assocGet_assocSet_ne (Ne.symm hk), hc k, List.filter_append, hm, hk']
    · simp [assocSet_ne_nil, hm]
    · intro h; exact absurd h henc

theorem MInv_skip {env : Env} {ctx : Ctx} {pre : List Entry} {st : MSt} (hi : MInv env ctx pre st) (e : Entry)
    (hm : isMessage e = false) : MInv env ctx (pre ++ [e]) st := by
  obtain ⟨hc, hemp, hf⟩ := hi
  refine ⟨?_, ?_, ?_⟩
  · intro k; simp [hc k, List.filter_append, hm]
  · simp [hemp, hm]
  · intro h c; rw [seenBefore_snoc_skip env pre e hm]; exact hf h c

/-! ## the loop over the file -/

theorem messageLoop_eq {env : Env} (hs : Sane env) (ctx : Ctx) :
    ∀ (rest pre : List Entry) (st : MSt), MInv env ctx pre st →
      (messageLoop env ctx st rest).2 = entriesFrom env ctx pre rest ∧
      MInv env ctx (pre ++ rest) (messageLoop env ctx st rest).1
  | [], pre, st, hi => by simpa [messageLoop, entriesFrom] using hi
  | e :: rest, pre, st, hi => by
    by_cases hm : isMessage e = true
    · have hm' := hm
      rw [isMessage_eq] at hm'
      have ho : e.obsolete = false := by cases h : e.obsolete <;> simp_all
      have hh : isHeaderEntry e = false := by cases h : isHeaderEntry e <;> simp_all
      have hstep := checkMessage_eq hs ctx hi e hm
      have ih := messageLoop_eq hs ctx rest (pre ++ [e]) (checkMessage env ctx st e).1 hstep.2
      simp only [messageLoop, ho, hh, Bool.false_eq_true, if_false, entriesFrom]
      refine ⟨?_, ?_⟩
      · rw [hstep.1, ih.1]
      · simpa using ih.2
    · have hm0 : isMessage e = false := by simpa using hm
      have ih := messageLoop_eq hs ctx rest (pre ++ [e]) st (MInv_skip hi e hm0)
      have het : entryTags env ctx pre e = [] := by simp [entryTags, hm0]
      have hm' := hm0
      rw [isMessage_eq] at hm'
      by_cases ho : e.obsolete = true
      · simp only [messageLoop, ho, if_true, entriesFrom, het]
        exact ⟨by rw [ih.1], by simpa using ih.2⟩
      · have hh : isHeaderEntry e = true := by cases h : isHeaderEntry e <;> simp_all
        simp only [messageLoop, ho, Bool.false_eq_true, if_false, hh, if_true, entriesFrom, het]
        exact ⟨by rw [ih.1], by simpa using ih.2⟩

/-- `check_messages` (per-entry emissions and the file-level part) = the rule set -/
theorem trace_eq {env : Env} (hs : Sane env) (ctx : Ctx) (file : List Entry) :
    trace env ctx file = messageRules env ctx file := by
  have h0 : MInv env ctx [] ({} : MSt) := ⟨by simp, by simp, by simp [seenBefore]⟩
  have h := messageLoop_eq hs ctx file [] {} h0
  simp only [List.nil_append] at h
  obtain ⟨h1, -, hemp, -⟩ := h
  simp only [trace, messageRules, h1, emptyFileCheck, fileTags, rule]
  congr 1
  have : ((messageLoop env ctx {} file).1.counter.length = 0) ↔ file.any isMessage = false := by
    rw [← hemp]; exact List.length_eq_zero_iff
  by_cases ha : file.any isMessage = true
  · have : ¬ (messageLoop env ctx {} file).1.counter.length = 0 := by rw [this]; simp [ha]
    simp [this, ha]
  · have ha0 : file.any isMessage = false := by simpa using ha
    have : (messageLoop env ctx {} file).1.counter.length = 0 := this.mpr ha0
    cases hb : ctx.isBinary <;> cases hh : ctx.possibleHiddenStrings <;> simp [this, ha0]

end I18n.Msg
