import I18n.Model.PyBraceG
import I18n.Lemmas.PyKitLemmas
/-!
# `Field.__init__` / `FormatString.add_argument` regenerated from `lib/strformat/pybrace.py` equal the hand-written model
-/
set_option linter.unusedSimpArgs false
set_option linter.unusedVariables false
namespace I18n.PyBrace.Gen
open I18n I18n.PyBrace I18n.PyBrace.Py I18n.Generated I18n.PyKit

/-- the exceptions of `add_argument` as the regenerated code raises them -/
def liftAddErr : Except AddErr State → Except PErr State
  | .ok s => .ok s
  | .error .indexError => .error (.crash .IndexError)
  | .error .overflowError => .error (.crash .Overflow)
  | .error (.crash e) => .error (.crash e)

/-- `add_argument(name, field)` as regenerated = the model's `addArgument` -/
theorem add_argument_eq (cfg : Cfg) (st : State) (name : Option (List Char)) (a : Arg) :
    PyBraceField.add_argument cfg st name a = liftAddErr (addArgument cfg st name a) := by
  obtain ⟨next, map⟩ := st
  cases name with
  | none =>
    cases next with
    | none => rfl
    | some n =>
      simp only [PyBraceField.add_argument, addArgument]
      by_cases h : n > cfg.ssizeMax <;> simp [h, liftAddErr]
  | some nm =>
    simp only [PyBraceField.add_argument, addArgument, Py.pyInt]
    by_cases hd : isDecimalStr nm = true
    · simp only [hd, if_true]
      cases hp : PyBrace.pyInt cfg nm with
      | error e => simp [Except.bind, liftAddErr]
      | ok n =>
        simp only [Except.bind]
        by_cases h : n > cfg.ssizeMax
        · simp [h, liftAddErr]
        · simp only [h, decide_false, Bool.false_eq_true, if_false]
          have hfl : ∀ x : Nat, (0 = x) = (x = 0) := fun x => propext eq_comm
          try simp only [hfl]
          cases next with
          | none => simp [Except.bind, liftAddErr]
          | some k =>
            cases k with
            | zero => simp [Except.bind, liftAddErr]
            | succ k' => simp [Except.bind, liftAddErr]
    · simp [hd, liftAddErr]

/-- the only crash `add_argument` can have is the `ValueError` of `int()` -/
theorem addArgument_crash {cfg : Cfg} {st : State} {name : Option (List Char)} {a : Arg} {e : Py.Exc}
    (h : addArgument cfg st name a = .error (.crash e)) : e = .ValueError := by
  unfold addArgument at h
  split at h
  · split at h
    · cases h
    · split at h <;> cases h
  · split at h
    · split at h
      · rename_i e' hp
        cases h
        unfold PyBrace.pyInt at hp
        split at hp <;> cases hp
        rfl
      · split at h
        · cases h
        · split at h <;> cases h
    · cases h

/-- the callers' two `except` clauses around `add_argument` = the model's `liftAdd` -/
theorem try_lift (cfg : Cfg) (st : State) (name : Option (List Char)) (a : Arg) (s : List Char) (b : Bool) :
    PyKit.tryExcept (PyKit.tryExcept (PyBraceField.add_argument cfg st name a) isIndexError (.error (.own .ArgumentNumberingMixture (.text s))))
      isOverflowError (.error (.own .ArgumentRangeError (.text s))) = liftAdd s b (addArgument cfg st name a) := by
  rw [add_argument_eq]
  cases h : addArgument cfg st name a with
  | ok st' => rfl
  | error e =>
    cases e with
    | indexError => rfl
    | overflowError => rfl
    | crash x =>
      have := addArgument_crash h
      subst this
      rfl

theorem getLast_braces (nm : List Char) : ('{' :: nm ++ ['}']).getLast? = some '}' := by
  rw [List.getLast?_append]
  rfl

theorem strip_braces (nm : List Char) : (('{' :: nm ++ ['}']).drop 1).dropLast = nm := by
  simp

/-- the loop `for subfield in _simple_field_re.findall(fmt)` as regenerated = the model's `nestedAdds` -/
theorem liftAdd_flag (t : List Char) (b b' : Bool) (x : Except AddErr State) : liftAdd t b x = liftAdd t b' x := by
  cases x with
  | ok s => rfl
  | error e => cases e <;> rfl

theorem nested_step (cfg : Cfg) (text : List Char) (nm : List Char) (rest : List (List Char)) (st : State) :
    nestedAdds cfg text (nm :: rest) st =
      (Except.bind (strFirst ('{' :: nm ++ ['}'])) (fun tmp1 =>
        if decide (tmp1 = '{') = true then
          Except.bind (strLast ('{' :: nm ++ ['}'])) (fun tmp2 =>
            if decide (tmp2 = '}') = true then
              liftAdd text false (addArgument cfg st (orNone ((('{' :: nm ++ ['}']).drop 1).dropLast)) nestedArg)
            else .error (.crash .AssertionError))
        else .error (.crash .AssertionError))).bind (nestedAdds cfg text rest) := by
  simp only [strFirst, strLast, getLast_braces, strip_braces, bind_ok, decide_true, if_true, nestedAdds, orNone, nestedArg,
    liftAdd_flag text true false]
  cases liftAdd text false (addArgument cfg st (if nm.isEmpty = true then none else some nm) { nested := true, types := TySet.all }) <;> rfl

/-! ### the model of the typing rules, staged like the code -/

def mType (s : List Char) (f : Spec) : Except PErr TySet :=
  match tpType f with
  | .ok tp => .ok tp
  | .error c => .error (.own c (.text s))

def mFlags (s : List Char) (f : Spec) (tp : TySet) : Except PErr TySet :=
  match tpFlags f tp with
  | .ok tp => .ok tp
  | .error c => .error (.own c (.text s))

def mAlignVal (f : Spec) : Option Char := if f.align.isNone && f.zero then some '=' else f.align

def mAlign (s : List Char) (f : Spec) (tp : TySet) : Except PErr TySet :=
  match tpAlign f tp with
  | .ok tp => .ok tp
  | .error c => .error (.own c (.text s))

def liftSpecErr {α : Type} (s : List Char) : Except (ErrClass ⊕ Py.Exc) α → Except PErr α
  | .ok x => .ok x
  | .error (.inl c) => .error (.own c (.text s))
  | .error (.inr e) => .error (.crash e)

def mWidth (cfg : Cfg) (s : List Char) (f : Spec) : Except PErr Unit := liftSpecErr s (checkWidth cfg f)
def mPrec (cfg : Cfg) (s : List Char) (f : Spec) (tp : TySet) : Except PErr TySet := liftSpecErr s (tpPrec cfg f tp)

theorem tpType_nonempty {f : Spec} {tp : TySet} (h : tpType f = .ok tp) : tp.isEmpty = false := by
  unfold tpType at h
  cases hty : f.type with
  | none => rw [hty] at h; cases h; rfl
  | some t =>
    rw [hty] at h
    simp only [] at h
    repeat' split at h
    all_goals first | (cases h; rfl) | cases h

theorem mType_nonempty {s : List Char} {f : Spec} {tp : TySet} (h : mType s f = .ok tp) : tp.isEmpty = false := by
  unfold mType at h
  cases ht : tpType f with
  | ok tp' => rw [ht] at h; cases h; exact tpType_nonempty ht
  | error c => rw [ht] at h; cases h

theorem tpFlags_nonempty {f : Spec} {tp tp' : TySet} (h : tpFlags f tp = .ok tp') : tp'.isEmpty = false := by
  unfold tpFlags at h
  by_cases hb : (f.alt || f.sign.isSome || f.comma) = true
  · simp only [hb, if_true] at h
    by_cases he : (tp.inter TySet.numeric).isEmpty = true
    · simp [he] at h
    · simp only [he, Bool.false_eq_true, if_false, Except.ok.injEq] at h
      subst h; simpa using he
  · simp only [hb, Bool.false_eq_true, if_false] at h
    by_cases he : tp.isEmpty = true
    · simp [he] at h
    · simp only [he, Bool.false_eq_true, if_false, Except.ok.injEq] at h
      subst h; simpa using he

theorem mFlags_nonempty {s : List Char} {f : Spec} {tp tp' : TySet} (h : mFlags s f tp = .ok tp') : tp'.isEmpty = false := by
  unfold mFlags at h
  cases ht : tpFlags f tp with
  | ok t => rw [ht] at h; cases h; exact tpFlags_nonempty ht
  | error c => rw [ht] at h; cases h

theorem specCheck_staged (cfg : Cfg) (s : List Char) (f : Spec) :
    liftSpecErr s (specCheck cfg f) =
      Except.bind (mType s f) (fun tp => Except.bind (mFlags s f tp) (fun tp => Except.bind (mAlign s f tp) (fun tp =>
        Except.bind (mWidth cfg s f) (fun _ => mPrec cfg s f tp)))) := by
  unfold specCheck mType
  cases tpType f with
  | error c => rfl
  | ok tp =>
    simp only [bind_ok, mFlags]
    cases tpFlags f tp with
    | error c => rfl
    | ok tp1 =>
      simp only [bind_ok, mAlign]
      cases tpAlign f tp1 with
      | error c => rfl
      | ok tp2 =>
        simp only [bind_ok, mWidth]
        cases checkWidth cfg f with
        | error e => cases e <;> rfl
        | ok u => rfl

theorem conv_test (c : List Char) :
    ["!s".toList, "!r".toList, "!a".toList].contains c = (c == "!s".toList || c == "!r".toList || c == "!a".toList) := by
  simp only [List.contains_cons, List.contains_nil, Bool.or_false, Bool.or_assoc]

/-- the conversion stage of the model -/
def mConv (s : List Char) (conv : Option (List Char)) (tp : TySet) : Except PErr Unit :=
  match conv with
  | none => .ok ()
  | some c =>
    if ["!s".toList, "!r".toList, "!a".toList].contains c then
      (if !tp.str then .error (.own .FormatTypeMismatch (.text s)) else .ok ())
    else .error (.own .ConversionError (.text s))

/-- the format stage of the model -/
def mFormat (cfg : Cfg) (f : RawField) (st1 : State) : Except PErr (State × TySet) :=
  match f.format with
  | none => .ok (st1, TySet.all)
  | some fmt =>
    if hasNested fmt then Except.bind (nestedAdds cfg f.text f.nested st1) (fun st2 => .ok (st2, TySet.all))
    else Except.bind (liftSpecErr f.text (specTypes cfg fmt)) (fun tp => .ok (st1, tp))

/-- the model's `fieldInit`, staged like the code -/
theorem fieldInit_staged (cfg : Cfg) (st : State) (f : RawField) :
    (fieldInit cfg st f).map (fun r => (r.2, r.1)) =
      Except.bind (liftAdd f.text false (addArgument cfg st f.name { nested := false, types := ownTypes cfg f })) (fun st1 =>
        Except.bind (mFormat cfg f st1) (fun r =>
          Except.bind (mConv f.text f.conversion r.2) (fun _ => .ok (r.2, r.1)))) := by
  unfold fieldInit
  cases liftAdd f.text false (addArgument cfg st f.name { nested := false, types := ownTypes cfg f }) with
  | error e => rfl
  | ok st1 =>
    simp only [bind_ok, mFormat]
    have tail : ∀ (st2 : State) (tp : TySet),
        Except.map (fun r => (r.2, r.1))
          (match f.conversion with
           | none => (Except.ok (st2, tp) : Except PErr (State × TySet))
           | some c =>
             if (c == "!s".toList || c == "!r".toList || c == "!a".toList) = true then
               if tp.str = true then Except.ok (st2, tp) else Except.error (PErr.own ErrClass.FormatTypeMismatch (ErrArg.text f.text))
             else Except.error (PErr.own ErrClass.ConversionError (ErrArg.text f.text))) =
        Except.bind (mConv f.text f.conversion tp) (fun _ => .ok (tp, st2)) := by
      intro st2 tp
      unfold mConv
      cases f.conversion with
      | none => rfl
      | some c =>
        simp only [conv_test]
        cases (c == "!s".toList || c == "!r".toList || c == "!a".toList) <;> cases tp.str <;> rfl
    cases f.format with
    | none => exact tail st1 TySet.all
    | some fmt =>
      simp only []
      by_cases hn : hasNested fmt = true
      · simp only [hn, if_true]
        cases nestedAdds cfg f.text f.nested st1 with
        | error e => rfl
        | ok st2 => exact tail st2 TySet.all
      · simp only [hn, Bool.false_eq_true, if_false]
        cases specTypes cfg fmt with
        | error e => cases e <;> rfl
        | ok tp => exact tail st1 tp

/-- `Field(parent, match)` as regenerated — called with the value `self.types` will have — = the model's `fieldInit` -/
theorem field_init_eq (cfg : Cfg) (st : State) (f : RawField) (hfmt : ∀ fm, f.format = some fm → ∃ t, fm = ':' :: t) :
    PyBraceField.Field.__init__ cfg (ownTypes cfg f) st f = (fieldInit cfg st f).map (fun r => (r.2, r.1)) := by
  rw [fieldInit_staged]
  simp only [PyBraceField.Field.__init__, try_lift _ _ _ _ _ false, fieldArg]
  refine bind_congr rfl (fun st1 => ?_)
  refine bind_congr ?fmt (fun r => ?conv)
  case conv =>
    obtain ⟨st2, tp⟩ := r
    refine bind_congr ?_ (fun _ => rfl)
    simp only [mConv]
    cases f.conversion with
    | none => rfl
    | some c => first | rfl | (simp only []; cases ["!s".toList, "!r".toList, "!a".toList].contains c <;> cases tp.str <;> rfl)
  case fmt =>
    unfold mFormat
    cases hf : f.format with
    | none => rfl
    | some fmt =>
      obtain ⟨t, rfl⟩ := hfmt fmt hf
      simp only [hasNested]
      by_cases hn : (':' :: t).contains '{' = true
      · simp only [hn, if_true]
        refine bind_congr ?_ (fun _ => rfl)
        exact forEach_map _ _ (nestedAdds cfg f.text) (fun _ => rfl) (fun nm rest s => nested_step cfg f.text nm rest s) f.nested st1
      · simp only [hn, Bool.false_eq_true, if_false, strFirst, bind_ok, decide_true, if_true, List.drop, specTypes]
        cases scanSpec t with
        | none => rfl
        | some spec =>
          simp only [specCheck_staged, bind_assoc]
          -- the type of the presentation character
          refine bind_congr' ?tp (fun tp htp => ?_)
          case tp =>
            simp only [mType, tpType]
            cases spec.type with
            | none => rfl
            | some c =>
              simp only []
              generalize "bcdoxX".toList.contains c = b2
              generalize "eEfFgG%".toList.contains c = b3
              -- both orientations of the comparisons with a literal
              have hfl : ∀ x : Char, (x = c) = (c = x) := fun x => propext eq_comm
              try simp only [hfl]
              by_cases h1 : c = 's'
              · subst h1; simp
              · by_cases h4 : c = 'n'
                · subst h4; cases b2 <;> cases b3 <;> cases spec.comma <;> simp
                · cases b2 <;> cases b3 <;> simp [h1, h4]
          have hne : tp.isEmpty = false := mType_nonempty htp
          -- `#`, sign, comma
          refine bind_congr' ?flags (fun tp2 htp2 => ?_)
          case flags =>
            simp only [mFlags, tpFlags, TySet.numeric]
            generalize (spec.alt || spec.sign.isSome || spec.comma) = b
            cases b
            · simp only [Bool.false_eq_true, if_false, hne]
            · simp only [if_true]
              cases (tp.inter ⟨false, true, true⟩).isEmpty <;> simp
          have hne2 : tp2.isEmpty = false := mFlags_nonempty htp2
          -- align / zero
          refine (bind_of_ok (x := mAlignVal spec) ?alignval).trans ?_
          case alignval =>
            unfold mAlignVal
            cases spec.align <;> cases spec.zero <;> rfl
          refine bind_congr' ?align (fun tp3 htp3 => ?_)
          case align =>
            simp only [mAlign, tpAlign, TySet.numeric, mAlignVal]
            have hfl : ∀ x : Option Char, (some '=' = x) = (x = some '=') := fun x => propext eq_comm
            try simp only [hfl]
            by_cases ha : (if (spec.align.isNone && spec.zero) = true then some '=' else spec.align) = some '='
            · simp only [ha, decide_true, if_true, beq_self_eq_true]
              cases (tp2.inter ⟨false, true, true⟩).isEmpty <;> simp
            · have ha' : ((if (spec.align.isNone && spec.zero) = true then some '=' else spec.align) == some '=') = false := by simpa using ha
              simp only [ha, ha', decide_false, Bool.false_eq_true, if_false, hne2]
          -- width
          refine bind_congr ?width (fun _ => ?_)
          case width =>
            simp only [mWidth, checkWidth, Py.pyInt]
            cases spec.width with
            | none => rfl
            | some w =>
              simp only []
              cases PyBrace.pyInt cfg w with
              | error e => rfl
              | ok n =>
                simp only [bind_ok]
                by_cases hw : n > cfg.ssizeMax <;> simp [hw, liftSpecErr]
          -- precision
          refine bind_congr ?prec (fun _ => rfl)
          case prec =>
            simp only [mPrec, tpPrec, Py.pyInt]
            cases spec.precision with
            | none => rfl
            | some p =>
              simp only []
              cases hpe : (tp3.inter ⟨true, false, true⟩).isEmpty
              · simp only [Bool.not_false, Bool.not_true, Bool.false_eq_true, if_false]
                cases PyBrace.pyInt cfg p with
                | error e => rfl
                | ok n =>
                  simp only [bind_ok]
                  by_cases hw : n > cfg.ssizeMax <;> simp [hw, liftSpecErr]
              · simp [liftSpecErr]

/-- the type set `fieldInit` returns is the one that was stored in the map at the start (`ownTypes`) -/
theorem fieldInit_types {cfg : Cfg} {st st' : State} {f : RawField} {tp : TySet} (h : fieldInit cfg st f = .ok (st', tp)) :
    tp = ownTypes cfg f := by
  unfold fieldInit at h
  cases h1 : liftAdd f.text false (addArgument cfg st f.name { nested := false, types := ownTypes cfg f }) with
  | error e => rw [h1] at h; cases h
  | ok st1 =>
    rw [h1] at h
    simp only [] at h
    unfold ownTypes
    cases hf : f.format with
    | none =>
      rw [hf] at h
      simp only [] at h
      cases hc : f.conversion with
      | none => rw [hc] at h; cases h; rfl
      | some c => rw [hc] at h; simp only [] at h; repeat' split at h
                  all_goals first | (cases h; rfl) | cases h
    | some fmt =>
      rw [hf] at h
      simp only [] at h
      by_cases hn : hasNested fmt = true
      · simp only [hn, if_true] at h ⊢
        cases hna : nestedAdds cfg f.text f.nested st1 with
        | error e => rw [hna] at h; cases h
        | ok st2 =>
          rw [hna] at h
          simp only [] at h
          cases hc : f.conversion with
          | none => rw [hc] at h; cases h; rfl
          | some c => rw [hc] at h; simp only [] at h; repeat' split at h
                      all_goals first | (cases h; rfl) | cases h
      · simp only [hn, Bool.false_eq_true, if_false] at h ⊢
        cases hs : specTypes cfg fmt with
        | error e => rw [hs] at h; cases e <;> cases h
        | ok tp' =>
          rw [hs] at h
          simp only [] at h
          cases hc : f.conversion with
          | none => rw [hc] at h; cases h; rfl
          | some c => rw [hc] at h; simp only [] at h; repeat' split at h
                      all_goals first | (cases h; rfl) | cases h

/-- the regenerated constructor inside the hybrid parser = the model's `fieldInit` -/
theorem fieldInitG_eq (cfg : Cfg) (st : State) (f : RawField) (hfmt : ∀ fm, f.format = some fm → ∃ t, fm = ':' :: t) :
    G.fieldInitG cfg st f = fieldInit cfg st f := by
  unfold G.fieldInitG
  rw [field_init_eq cfg st f hfmt]
  cases h : fieldInit cfg st f with
  | error e => rfl
  | ok r =>
    obtain ⟨st', tp⟩ := r
    have := fieldInit_types h
    simp [Except.map, this]

end I18n.PyBrace.Gen
