import I18n.Model.CheckPlurals
import I18n.Props.C04
import I18n.Props.C05
import I18n.Props.C06
/-! Lemmas about the `check_plurals` model: what a completed window knows, and why the gap claims
    are true for every `n < 2^32` (composition of C05 and C06). -/
namespace I18n.CheckPlurals
open I18n I18n.Py I18n.Plural

/-- the image of the whole domain `[0, 2^bits)` is already attained below `O + P` -/
theorem periodic_image {bits : Nat} {e : Expr} {O P : Int} (h : period bits e = .ok (some (O, P))) :
    ∀ m : Nat, (m : Int) < 2 ^ bits → ∃ i : Nat, (i : Int) < max (O + P) 1 ∧ i ≤ m ∧ outcome bits m e = outcome bits i e := by
  obtain ⟨hO, hP, hper⟩ := I18n.Props.C06.period_sound bits e O P h
  intro m
  induction m using Nat.strongRecOn with
  | _ m ih =>
    intro hm
    by_cases hsmall : (m : Int) < O + P
    · exact ⟨m, by omega, Nat.le_refl m, rfl⟩
    · -- m ≥ O + P: step back by P
      have hmp : (0 : Int) ≤ (m : Int) - P := by omega
      obtain ⟨m', hm'⟩ : ∃ m' : Nat, (m' : Int) = (m : Int) - P := ⟨((m : Int) - P).toNat, by omega⟩
      have hlt : m' < m := by omega
      obtain ⟨i, hi, him, hout⟩ := ih m' hlt (by omega)
      refine ⟨i, hi, by omega, ?_⟩
      have := hper m' (by omega) (by omega)
      rw [← hout, this]
      congr 1
      omega

/-- keys of a preimage dict -/
def keys (p : Preimage) : List Int := p.map (·.1)

theorem keys_add (p : Preimage) (fi : Int) (i : Nat) (k : Int) :
    k ∈ keys (p.add fi i) ↔ k ∈ keys p ∨ k = fi := by
  unfold Preimage.add keys
  split
  · rename_i hany
    simp only [List.map_map, List.mem_map, Function.comp]
    constructor
    · rintro ⟨q, hq, rfl⟩
      left
      refine ⟨q, hq, ?_⟩
      split <;> rfl
    · rintro (⟨q, hq, rfl⟩ | rfl)
      · exact ⟨q, hq, by split <;> rfl⟩
      · simp only [List.any_eq_true, decide_eq_true_eq] at hany
        obtain ⟨q, hq, hqe⟩ := hany
        exact ⟨q, hq, by split <;> simp [*]⟩
  · simp [List.mem_append]

theorem mem_insertInt (x : Int) (l : List Int) (k : Int) : k ∈ insertInt x l ↔ k = x ∨ k ∈ l := by
  induction l with
  | nil => simp [insertInt]
  | cons y ys ih =>
    simp only [insertInt]
    split
    · simp
    · simp only [List.mem_cons, ih]
      constructor
      · rintro (h | h | h) <;> simp [h]
      · rintro (h | h | h) <;> simp [h]

theorem mem_sortedKeys (p : Preimage) (k : Int) : k ∈ sortedKeys p ↔ k ∈ keys p := by
  unfold sortedKeys keys
  generalize p.map (·.1) = l
  have : ∀ (acc : List Int), k ∈ l.foldl (fun acc x => insertInt x acc) acc ↔ k ∈ acc ∨ k ∈ l := by
    induction l with
    | nil => intro acc; simp
    | cons x xs ih =>
      intro acc
      simp only [List.foldl_cons, ih, mem_insertInt, List.mem_cons]
      constructor
      · rintro ((h | h) | h) <;> simp [h]
      · rintro (h | h | h) <;> simp [h]
  simpa using this []


/-! ## the window loop -/

/-- what `analyse` hands to `gapRanges`: the preimage of a window that ran to completion -/
def completedOf (st : WinState) (fin : WinEnd) : Option Preimage :=
  match fin with
  | .completed => some st.pre
  | _ => none

/-- the diagnostic the window owes for index `i`, if any: its true outcome -/
def badMsg (n : Nat) (e : Expr) (i : Nat) : Option (List Char) :=
  match evalAt 32 i e with
  | .error .Overflow => some ("f(".toList ++ natStr i ++ "): integer overflow".toList)
  | .error .ZeroDivision => some ("f(".toList ++ natStr i ++ "): division by zero".toList)
  | .error _ => none
  | .ok fi => if fi ≥ n then some ("f(".toList ++ natStr i ++ ") = ".toList ++ intStr fi ++ " >= ".toList ++ natStr n) else none

def badTagName (n : Nat) (e : Expr) (i : Nat) (hp : Bool) : String :=
  match evalAt 32 i e with
  | .ok _ => tagName "codomain-error-in" hp
  | .error _ => tagName "arithmetic-error-in" hp

/-- `badMsg = none` means: evaluates, and the value is a valid form index -/
theorem badMsg_none {n : Nat} {e : Expr} {i : Nat} (h : badMsg n e i = none) :
    ∃ v, evalAt 32 i e = .ok v ∧ 0 ≤ v ∧ v < n := by
  unfold badMsg at h
  cases hev : evalAt 32 i e with
  | error ex =>
    rw [hev] at h
    have := I18n.Props.C04.eval_error_kinds (by decide) i e ex hev
    rcases this with rfl | rfl <;> simp at h
  | ok v =>
    rw [hev] at h
    simp only at h
    split at h
    · cases h
    · have := I18n.Props.C04.eval_value_range (by decide) i e v hev
      exact ⟨v, rfl, this.1, by omega⟩

/-- the registry's expression is total on the indices (a hypothesis discharged for the shipped registry) -/
def LcTotal (lc : Option (Nat × Expr)) (is : List Nat) : Prop :=
  ∀ ln le, lc = some (ln, le) → ∀ i ∈ is, ∃ v, evalAt 32 i le = .ok v

/-- **Completed window.**  Every index evaluated to a valid form index, the recorded keys are exactly
    the values seen, and the only tag that may have been added is the `unusual` one. -/
theorem window_completed (n : Nat) (e : Expr) (lc : Option (Nat × Expr)) (hp : Bool) (ut : TagCall) :
    ∀ (is : List Nat) (st st' : WinState), window n e lc hp ut is st = (st', .completed) →
      (∀ i ∈ is, badMsg n e i = none) ∧
      (∀ k, k ∈ keys st'.pre ↔ k ∈ keys st.pre ∨ ∃ i ∈ is, evalAt 32 i e = .ok k) ∧
      (∀ t ∈ st'.tags, t ∈ st.tags ∨ t = ut) := by
  intro is
  induction is with
  | nil =>
    intro st st' h
    simp only [window] at h
    cases h
    exact ⟨by simp, by simp, fun t ht => Or.inl ht⟩
  | cons i rest ih =>
    intro st st' h
    simp only [window] at h
    cases hev : evalAt 32 i e with
    | error ex =>
      rw [hev] at h
      cases ex <;> simp at h
    | ok fi =>
      rw [hev] at h
      simp only at h
      split at h
      · simp at h
      · rename_i hfi
        have hbad : badMsg n e i = none := by simp [badMsg, hev, hfi]
        -- all continuing branches call `window … rest st1'` with pre = st.pre.add fi i and tags ⊆ st.tags ∪ {ut}
        have key : ∀ (st1 : WinState), window n e lc hp ut rest st1 = (st', .completed) →
            st1.pre = st.pre.add fi i → (∀ t ∈ st1.tags, t ∈ st.tags ∨ t = ut) →
            (∀ j ∈ i :: rest, badMsg n e j = none) ∧
            (∀ k, k ∈ keys st'.pre ↔ k ∈ keys st.pre ∨ ∃ j ∈ i :: rest, evalAt 32 j e = .ok k) ∧
            (∀ t ∈ st'.tags, t ∈ st.tags ∨ t = ut) := by
          intro st1 hw hpre htags
          obtain ⟨h1, h2, h3⟩ := ih st1 st' hw
          refine ⟨?_, ?_, ?_⟩
          · intro j hj
            rcases List.mem_cons.mp hj with rfl | hj
            · exact hbad
            · exact h1 j hj
          · intro k
            rw [h2 k, hpre, keys_add]
            constructor
            · rintro ((hk | rfl) | ⟨j, hj, hjk⟩)
              · exact Or.inl hk
              · exact Or.inr ⟨i, by simp, hev⟩
              · exact Or.inr ⟨j, by simp [hj], hjk⟩
            · rintro (hk | ⟨j, hj, hjk⟩)
              · exact Or.inl (Or.inl hk)
              · rcases List.mem_cons.mp hj with rfl | hj
                · rw [hev] at hjk; cases hjk; exact Or.inl (Or.inr rfl)
                · exact Or.inr ⟨j, hj, hjk⟩
          · intro t ht
            rcases h3 t ht with h | h
            · exact htags t h
            · exact Or.inr h
        cases lc with
        | none =>
          simp only at h
          exact key _ h rfl (fun t ht => Or.inl ht)
        | some l =>
          obtain ⟨ln, le⟩ := l
          simp only at h
          split at h
          · cases hle : evalAt 32 i le with
            | error ex =>
              rw [hle] at h
              cases ex <;> simp at h
            | ok v =>
              rw [hle] at h
              simp only at h
              split at h
              · refine key _ h rfl ?_
                intro t ht
                simp only [List.mem_append, List.mem_singleton] at ht
                exact ht
              · exact key _ h rfl (fun t ht => Or.inl ht)
          · exact key _ h rfl (fun t ht => Or.inl ht)


theorem eval_err_cases {i : Nat} {e : Expr} {ex : Exc} (h : evalAt 32 i e = .error ex) :
    ex = .Overflow ∨ ex = .ZeroDivision := I18n.Props.C04.eval_error_kinds (by decide) i e ex h

/-- the window never lets an exception escape -/
theorem window_nocrash (n : Nat) (e : Expr) (lc : Option (Nat × Expr)) (hp : Bool) (ut : TagCall) :
    ∀ (is : List Nat) (st st' : WinState) (ex : Exc), window n e lc hp ut is st ≠ (st', .crashed ex) := by
  intro is
  induction is with
  | nil => intro st st' ex h; simp [window] at h
  | cons i rest ih =>
    intro st st' ex h
    simp only [window] at h
    cases hev : evalAt 32 i e with
    | error ex1 =>
      rw [hev] at h
      rcases eval_err_cases hev with rfl | rfl <;> simp at h
    | ok fi =>
      rw [hev] at h
      simp only at h
      split at h
      · simp at h
      · cases lc with
        | none => exact ih _ _ _ h
        | some l =>
          obtain ⟨ln, le⟩ := l
          simp only at h
          split at h
          · cases hle : evalAt 32 i le with
            | error ex2 =>
              rw [hle] at h
              rcases eval_err_cases hle with rfl | rfl <;> simp at h
            | ok v =>
              rw [hle] at h
              simp only at h
              split at h <;> exact ih _ _ _ h
          · exact ih _ _ _ h

/-- **Stopped window.**  It stopped at the LEAST index whose outcome is a failure or an out-of-range
    value, and the last tag names that index with its true outcome; before it only `unusual` tags. -/
theorem window_stopped (n : Nat) (e : Expr) (lc : Option (Nat × Expr)) (hp : Bool) (ut : TagCall) :
    ∀ (is : List Nat) (st st' : WinState), window n e lc hp ut is st = (st', .stopped) → LcTotal lc is →
      ∃ pre i post msg mid, is = pre ++ i :: post ∧ (∀ j ∈ pre, badMsg n e j = none) ∧ badMsg n e i = some msg ∧
        st'.tags = st.tags ++ mid ++ [⟨badTagName n e i hp, [.safe msg]⟩] ∧ (∀ t ∈ mid, t = ut) := by
  intro is
  induction is with
  | nil => intro st st' h; simp [window] at h
  | cons i rest ih =>
    intro st st' h hlc
    simp only [window] at h
    have hlc' : LcTotal lc rest := fun ln le h1 j hj => hlc ln le h1 j (by simp [hj])
    -- continuing branches
    have cont : ∀ (st1 : WinState) (mid0 : List TagCall), window n e lc hp ut rest st1 = (st', .stopped) →
        badMsg n e i = none → st1.tags = st.tags ++ mid0 → (∀ t ∈ mid0, t = ut) →
        ∃ pre i' post msg mid, i :: rest = pre ++ i' :: post ∧ (∀ j ∈ pre, badMsg n e j = none) ∧ badMsg n e i' = some msg ∧
          st'.tags = st.tags ++ mid ++ [⟨badTagName n e i' hp, [.safe msg]⟩] ∧ (∀ t ∈ mid, t = ut) := by
      intro st1 mid0 hw hgood htags hmid0
      obtain ⟨pre, i', post, msg, mid, his, hpre, hbad, ht, hmid⟩ := ih st1 st' hw hlc'
      refine ⟨i :: pre, i', post, msg, mid0 ++ mid, by simp [his], ?_, hbad, ?_, ?_⟩
      · intro j hj
        rcases List.mem_cons.mp hj with rfl | hj
        · exact hgood
        · exact hpre j hj
      · rw [ht, htags]; simp
      · intro t ht'
        rcases List.mem_append.mp ht' with h1 | h1
        · exact hmid0 t h1
        · exact hmid t h1
    cases hev : evalAt 32 i e with
    | error ex1 =>
      rw [hev] at h
      rcases eval_err_cases hev with rfl | rfl <;> simp only [Prod.mk.injEq, and_true] at h <;> subst h
      · refine ⟨[], i, rest, "f(".toList ++ natStr i ++ "): integer overflow".toList, [], rfl, by simp, ?_, ?_, by simp⟩
        · simp only [badMsg, hev]
        · simp [badTagName, hev]
      · refine ⟨[], i, rest, "f(".toList ++ natStr i ++ "): division by zero".toList, [], rfl, by simp, ?_, ?_, by simp⟩
        · simp only [badMsg, hev]
        · simp [badTagName, hev]
    | ok fi =>
      rw [hev] at h
      simp only at h
      split at h
      · rename_i hfi
        simp only [Prod.mk.injEq, and_true] at h
        subst h
        refine ⟨[], i, rest, "f(".toList ++ natStr i ++ ") = ".toList ++ intStr fi ++ " >= ".toList ++ natStr n, [], rfl, by simp, ?_, ?_, by simp⟩
        · simp only [badMsg, hev, hfi, ↓reduceIte]
        · simp [badTagName, hev]
      · rename_i hfi
        have hgood : badMsg n e i = none := by simp [badMsg, hev, hfi]
        cases lc with
        | none =>
          simp only at h
          exact cont _ [] h hgood (by simp) (by simp)
        | some l =>
          obtain ⟨ln, le⟩ := l
          simp only at h
          split at h
          · obtain ⟨v, hle⟩ := hlc ln le rfl i (by simp)
            rw [hle] at h
            simp only at h
            split at h
            · exact cont _ [ut] h hgood (by simp) (by simp)
            · exact cont _ [] h hgood (by simp) (by simp)
          · exact cont _ [] h hgood (by simp) (by simp)


/-! ## the gap claims -/

theorem outcome_eq_some {bits : Nat} {m : Int} {e : Expr} {k : Int} : outcome bits m e = some k ↔ evalAt bits m e = .ok k := by
  unfold outcome
  cases evalAt bits m e <;> simp

theorem scanKeys_spec (n : Nat) (ks : List Int) : ∀ (l : List Int), (∀ i ∈ l, 0 ≤ i) →
    ∀ r ∈ scanKeys n ks l, ∃ j : Int, 0 ≤ j ∧ j ∉ ks ∧ r = (j.toNat, (j + 1).toNat) := by
  intro l
  induction l with
  | nil => intro _ r hr; simp [scanKeys] at hr
  | cons i rest ih =>
    intro hpos r hr
    simp only [scanKeys] at hr
    have hi := hpos i (by simp)
    split at hr
    · rename_i h1
      simp only [List.mem_singleton] at hr
      refine ⟨i - 1, by omega, by simpa using h1.2, ?_⟩
      rw [hr]; congr 1; congr 1; omega
    · split at hr
      · rename_i h2
        simp only [List.mem_singleton] at hr
        refine ⟨i + 1, by omega, by simpa using h2.2, ?_⟩
        rw [hr]; congr 1; congr 1; omega
      · exact ih (fun j hj => hpos j (by simp [hj])) r hr

theorem gapTail_true (n : Nat) (e : Expr) (completed : Option Preimage) (rs0 rs : List (Nat × Nat))
    (h : gapTail n e completed rs0 = .ok rs)
    (hcod : ∀ r ∈ rs0, ∀ k : Nat, r.1 ≤ k → k < r.2 → ∀ m : Nat, (m : Int) < 2 ^ 32 → evalAt 32 m e ≠ .ok (k : Int))
    (hcomp : ∀ pre, completed = some pre →
      (∀ i : Nat, i < 200 → ∃ v, evalAt 32 i e = .ok v ∧ v ∈ keys pre) ∧ (∀ k ∈ keys pre, 0 ≤ k)) :
    ∀ r ∈ rs, ∀ k : Nat, r.1 ≤ k → k < r.2 → ∀ m : Nat, (m : Int) < 2 ^ 32 → evalAt 32 m e ≠ .ok (k : Int) := by
  unfold gapTail at h
  split at h
  · cases completed with
    | none => simp only at h; cases h; exact hcod
    | some pre =>
      simp only at h
      cases hper : period 32 e with
      | error ex => rw [hper] at h; cases h
      | ok per =>
        rw [hper] at h
        cases per with
        | none =>
          simp only [Bool.false_eq_true, ↓reduceIte] at h
          cases h; exact hcod
        | some op =>
          obtain ⟨o, p⟩ := op
          simp only at h
          by_cases hsmall : o + p < (codomainLimit : Int)
          · simp only [hsmall, decide_true, ↓reduceIte] at h
            cases h
            obtain ⟨hall, hpos⟩ := hcomp pre rfl
            intro r hr k hk1 hk2 m hm hev
            obtain ⟨j, hj0, hjk, rfl⟩ := scanKeys_spec n (sortedKeys pre) (sortedKeys pre)
              (fun i hi => hpos i ((mem_sortedKeys pre i).1 hi)) r hr
            simp only at hk1 hk2
            have hkj : (k : Int) = j := by omega
            obtain ⟨i', hi', _, hout⟩ := periodic_image hper m hm
            have hi200 : i' < 200 := by
              have : codomainLimit = 200 := rfl
              omega
            obtain ⟨v, hv, hvk⟩ := hall i' hi200
            have : outcome 32 m e = some (k : Int) := outcome_eq_some.2 hev
            rw [hout] at this
            have := outcome_eq_some.1 this
            rw [hv] at this
            cases this
            exact hjk ((mem_sortedKeys pre _).2 (hkj ▸ hvk))
          · simp only [hsmall, decide_false, Bool.false_eq_true, ↓reduceIte] at h
            cases h; exact hcod
  · cases h; exact hcod

/-- **Gap claims are true.**  Whatever ranges `gapRanges` reports, no `m < 2^32` produces a value in
    them — provided the preimage handed over (if any) is that of a completed window. -/
theorem gapRanges_true (n : Nat) (e : Expr) (completed : Option Preimage) (rs : List (Nat × Nat))
    (h : gapRanges n e completed = .ok rs)
    (hcomp : ∀ pre, completed = some pre →
      (∀ i : Nat, i < 200 → ∃ v, evalAt 32 i e = .ok v ∧ v ∈ keys pre) ∧ (∀ k ∈ keys pre, 0 ≤ k)) :
    ∀ r ∈ rs, ∀ k : Nat, r.1 ≤ k → k < r.2 → ∀ m : Nat, (m : Int) < 2 ^ 32 → evalAt 32 m e ≠ .ok (k : Int) := by
  unfold gapRanges at h
  cases hcd : codomain 32 e with
  | error ex => rw [hcd] at h; cases h
  | ok cd =>
    rw [hcd] at h
    cases cd with
    | none =>
      simp only at h
      exact gapTail_true n e completed [] rs h (by simp) hcomp
    | some xy =>
      obtain ⟨x, y⟩ := xy
      simp only at h
      have hsound := fun m hm v hv => I18n.Props.C05.codomain_sound 32 e x y hcd m hm v hv
      refine gapTail_true n e completed _ rs h ?_ hcomp
      intro r hr k hk1 hk2 m hm hev
      have := hsound m hm k hev
      unfold codomainRanges at hr
      rcases List.mem_append.mp hr with hr | hr
      · split at hr
        · simp only [List.mem_singleton] at hr; subst hr; simp only at hk2; omega
        · cases hr
      · split at hr
        · simp only [List.mem_singleton] at hr; subst hr; simp only at hk1; omega
        · cases hr

/-- since the fix: the gap analysis cannot raise -/
theorem gapRanges_nocrash (n : Nat) (e : Expr) (completed : Option Preimage) : ∃ rs, gapRanges n e completed = .ok rs := by
  unfold gapRanges
  obtain ⟨cd, hcd⟩ := I18n.Props.C05.codomain_nocrash 32 e
  obtain ⟨per, hper⟩ := I18n.Props.C06.period_nocrash 32 e
  rw [hcd]
  cases cd with
  | none =>
    simp only [gapTail, hper]
    split
    · cases completed <;> simp only <;> (repeat' split) <;> exact ⟨_, rfl⟩
    · exact ⟨_, rfl⟩
  | some xy =>
    simp only [gapTail, hper]
    split
    · cases completed <;> simp only <;> (repeat' split) <;> exact ⟨_, rfl⟩
    · exact ⟨_, rfl⟩

end I18n.CheckPlurals
