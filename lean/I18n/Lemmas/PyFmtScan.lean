import I18n.Model.PyFmt
import I18n.Spec.CPyPercent
/-!
# The parser's scanner and CPython's `unicode_format_arg_parse` read the same conversion specifications

`effect d c` replays on the interpreter's argument context what `unicode_format_arg` does for a specification that the
parser's scanner reads as `d`; `formatArg_of_scan` is the equation, `formatArg_of_scan_none` the failure half.
-/
set_option linter.unusedSimpArgs false
namespace I18n.PyFmt
open I18n.Spec.CPyPercent
open I18n.Generated.PyFormatTables (flagChars lengthChars allCvt)

/-! ## key -/

theorem scanKey_eq_readKey : ∀ (cs : List Char) (n : Nat), scanKey n cs = readKey n cs := by
  intro cs
  induction cs with
  | nil => intro n; rfl
  | cons c cs ih =>
    intro n
    simp only [scanKey, readKey]
    by_cases h1 : c = '('
    · subst h1
      simp [ih]
      cases readKey (n + 1) cs <;> rfl
    · by_cases h2 : c = ')'
      · subst h2
        simp [ih]
        by_cases h3 : n = 1
        · simp [h3]
        · simp [h3]
          cases readKey (n - 1) cs <;> rfl
      · simp [h1, h2, ih]
        cases readKey n cs <;> rfl

theorem scanKey_length : ∀ (cs : List Char) (n : Nat) k r, scanKey n cs = some (k, r) → r.length < cs.length := by
  intro cs
  induction cs with
  | nil => intro n k r h; simp [scanKey] at h
  | cons c cs ih =>
    intro n k r h
    simp only [scanKey] at h
    split at h
    · cases h2 : scanKey (n + 1) cs with
      | none => simp [h2] at h
      | some p =>
        obtain ⟨k', r'⟩ := p
        simp [h2] at h
        have := ih _ _ _ h2
        simp [← h.2]; omega
    · split at h
      · split at h
        · simp at h; simp [← h.2]
        · cases h2 : scanKey (n - 1) cs with
          | none => simp [h2] at h
          | some p =>
            obtain ⟨k', r'⟩ := p
            simp [h2] at h
            have := ih _ _ _ h2
            simp [← h.2]; omega
      · cases h2 : scanKey n cs with
        | none => simp [h2] at h
        | some p =>
          obtain ⟨k', r'⟩ := p
          simp [h2] at h
          have := ih _ _ _ h2
          simp [← h.2]; omega

/-! ## flags -/

theorem flag_contains (c : Char) : flagChars.contains c = decide (c = '-' ∨ c = '+' ∨ c = ' ' ∨ c = '#' ∨ c = '0') := by
  rw [Bool.eq_iff_iff]
  simp [flagChars]
  constructor
  · rintro (h | h | h | h | h) <;> simp [h]
  · rintro (h | h | h | h | h) <;> simp [h]

theorem scanFlags_eq_readFlags : ∀ (rest : List Char) (ch : Char), scanFlags ch rest = readFlags (ch :: rest) := by
  intro rest
  induction rest with
  | nil =>
    intro ch
    simp only [scanFlags, readFlags, flag_contains, decide_eq_true_eq]
    by_cases h : (ch = '-' ∨ ch = '+' ∨ ch = ' ' ∨ ch = '#' ∨ ch = '0')
    · simp only [h, if_true]; rfl
    · simp only [h, if_false]
  | cons c r ih =>
    intro ch
    simp only [scanFlags]
    rw [ih c]
    conv => rhs; unfold readFlags
    simp only [flag_contains, decide_eq_true_eq]
    by_cases h : (ch = '-' ∨ ch = '+' ∨ ch = ' ' ∨ ch = '#' ∨ ch = '0')
    · simp only [h, if_true]; cases readFlags (c :: r) <;> rfl
    · simp only [h, if_false]

/-- what the flag loop returns: flag characters, then a character that is not a flag, and a suffix -/
theorem scanFlags_spec : ∀ (rest : List Char) (ch : Char) f ch' rest', scanFlags ch rest = some (f, ch', rest') →
    flagChars.contains ch' = false ∧ (∀ x ∈ f, flagChars.contains x = true) ∧ rest'.length ≤ rest.length ∧
    (f = [] → ch' = ch ∧ rest' = rest) := by
  intro rest
  induction rest with
  | nil =>
    intro ch f ch' rest' h
    simp only [scanFlags] at h
    split at h
    · cases h
    · rename_i hf
      cases h
      exact ⟨by simpa using hf, fun x hx => (by cases hx), Nat.le_refl _, fun _ => ⟨rfl, rfl⟩⟩
  | cons c r ih =>
    intro ch f ch' rest' h
    simp only [scanFlags] at h
    split at h
    · rename_i hf
      cases h2 : scanFlags c r with
      | none => rw [h2] at h; cases h
      | some p =>
        obtain ⟨f2, ch2, r2⟩ := p
        rw [h2] at h
        cases h
        obtain ⟨a, b, c', _⟩ := ih _ _ _ _ h2
        refine ⟨a, ?_, (by simp only [List.length_cons]; omega), fun hn => (by cases hn)⟩
        intro x hx
        rcases List.mem_cons.1 hx with rfl | hx
        · exact hf
        · exact b x hx
    · rename_i hf
      cases h
      exact ⟨by simpa using hf, fun x hx => (by cases hx), Nat.le_refl _, fun _ => ⟨rfl, rfl⟩⟩

/-! ## digits -/

theorem isDigit_eq (c : Char) : PyFmt.isDigit c = Spec.CPyPercent.isDigit c := rfl
theorem digitVal_eq (c : Char) : PyFmt.digitVal c = Spec.CPyPercent.digitVal c := rfl

theorem digitVal_le (c : Char) (h : PyFmt.isDigit c = true) : PyFmt.digitVal c ≤ 9 := by
  simp only [PyFmt.isDigit, Bool.and_eq_true, decide_eq_true_eq] at h
  have h2 : c.val ≤ '9'.val := h.2
  have h3 := UInt32.le_iff_toNat_le.1 h2
  have e : PyFmt.digitVal c = c.val.toNat - 48 := rfl
  have e9 : '9'.val.toNat = 57 := rfl
  omega

theorem digitVal_pos (c : Char) (h : PyFmt.isDigit c = true) (h0 : c ≠ '0') : 1 ≤ PyFmt.digitVal c := by
  simp only [PyFmt.isDigit, Bool.and_eq_true, decide_eq_true_eq] at h
  have h1 : '0'.val ≤ c.val := h.1
  have h1' := UInt32.le_iff_toNat_le.1 h1
  have e : PyFmt.digitVal c = c.val.toNat - 48 := rfl
  have e0 : '0'.val.toNat = 48 := rfl
  have : c.val.toNat ≠ 48 := by
    intro hc
    apply h0
    apply Char.ext
    apply UInt32.toNat_inj.1
    rw [hc, e0]
  omega

/-- the parser's digit loop: the value only grows, and what is left is a suffix starting with a non-digit -/
theorem scanDigits_spec : ∀ (rest : List Char) (acc : Nat) (ch : Char) w ch' rest', scanDigits acc ch rest = some (w, ch', rest') →
    acc ≤ w ∧ PyFmt.isDigit ch' = false ∧ rest'.length ≤ rest.length ∧
    (PyFmt.isDigit ch = true → acc * 10 + PyFmt.digitVal ch ≤ w) ∧
    (PyFmt.isDigit ch = false → w = acc ∧ ch' = ch ∧ rest' = rest) := by
  intro rest
  induction rest with
  | nil =>
    intro acc ch w ch' rest' h
    simp only [scanDigits] at h
    split at h
    · cases h
    · rename_i hd
      cases h
      have hd' : PyFmt.isDigit ch = false := by simpa using hd
      exact ⟨Nat.le_refl _, hd', Nat.le_refl _, fun h => (by rw [hd'] at h; cases h), fun _ => ⟨rfl, rfl, rfl⟩⟩
  | cons c r ih =>
    intro acc ch w ch' rest' h
    simp only [scanDigits] at h
    split at h
    · rename_i hd
      obtain ⟨a, b, c', _, _⟩ := ih _ _ _ _ _ h
      refine ⟨by omega, b, by simp only [List.length_cons]; omega, fun _ => a, fun hn => (by rw [hd] at hn; cases hn)⟩
    · rename_i hd
      cases h
      have hd' : PyFmt.isDigit ch = false := by simpa using hd
      exact ⟨Nat.le_refl _, hd', Nat.le_refl _, fun h => (by rw [hd'] at h; cases h), fun _ => ⟨rfl, rfl, rfl⟩⟩

/-- CPython's digit loop on the same characters: the same value unless it exceeds the limit -/
theorem readDigits_of_scan (max : Nat) (tooBig : Err) (hmax : 9 ≤ max) : ∀ (rest : List Char) (acc : Nat) (ch : Char) w ch' rest',
    scanDigits acc ch rest = some (w, ch', rest') → acc ≤ max →
    readDigits max tooBig acc (ch :: rest) = if w ≤ max then .ok (w, ch', rest') else .error tooBig := by
  intro rest
  induction rest with
  | nil =>
    intro acc ch w ch' rest' h hacc
    simp only [scanDigits] at h
    split at h
    · cases h
    · rename_i hd
      cases h
      simp only [readDigits, ← isDigit_eq]
      simp [hd, hacc]
  | cons c r ih =>
    intro acc ch w ch' rest' h hacc
    have hs := scanDigits_spec _ _ _ _ _ _ h
    simp only [scanDigits] at h
    split at h
    · rename_i hd
      have h9 := digitVal_le ch hd
      have hw := hs.2.2.2.1 hd
      conv => lhs; unfold readDigits
      simp only [← isDigit_eq, ← digitVal_eq, hd, if_true]
      by_cases hbig : acc > (max - PyFmt.digitVal ch) / 10
      · simp only [hbig, if_true]
        have : ¬ w ≤ max := by omega
        simp [this]
      · simp only [hbig, if_false]
        exact ih _ _ _ _ _ h (by omega)
    · rename_i hd
      cases h
      conv => lhs; unfold readDigits
      simp [← isDigit_eq, hd, hacc]

/-- when the parser's digit loop runs off the end, so does CPython's (or the numeral is too big first) -/
theorem readDigits_of_scan_none (max : Nat) (tooBig : Err) : ∀ (rest : List Char) (acc : Nat) (ch : Char),
    scanDigits acc ch rest = none → ∃ e, readDigits max tooBig acc (ch :: rest) = .error e := by
  intro rest
  induction rest with
  | nil =>
    intro acc ch h
    simp only [scanDigits] at h
    split at h
    · rename_i hd
      simp only [readDigits, ← isDigit_eq, hd, if_true]
      split <;> exact ⟨_, rfl⟩
    · cases h
  | cons c r ih =>
    intro acc ch h
    simp only [scanDigits] at h
    split at h
    · rename_i hd
      conv => arg 1; intro e; lhs; unfold readDigits
      simp only [← isDigit_eq, hd, if_true]
      split
      · exact ⟨_, rfl⟩
      · exact ih _ _ h
    · cases h

/-! ## what `unicode_format_arg` does for a specification the parser's scanner reads as `d` -/

def keyStep (key : Option (List Char)) (c : Ctx) : Except Err Ctx :=
  match key with
  | none => .ok c
  | some k =>
    match c.dict with
    | none => .error .requiresMapping
    | some m =>
      match lookup m k with
      | none => .error .keyError
      | some v => .ok { c with cur := .one v false }

def widthStep (w : Num) (c : Ctx) : Except Err Ctx :=
  match w with
  | .star =>
    match getNextArg c with
    | .error e => .error e
    | .ok (.int n, c) => if n < -(PY_SSIZE_T_MAX : Int) - 1 ∨ n > PY_SSIZE_T_MAX then .error .overflow else .ok c
    | .ok (_, _) => .error .starWantsInt
  | .num n => if n ≤ PY_SSIZE_T_MAX then .ok c else .error .widthTooBig

def precStep (p : Option Num) (c : Ctx) : Except Err (Option Nat × Ctx) :=
  match p with
  | none => .ok (none, c)
  | some .star =>
    match getNextArg c with
    | .error e => .error e
    | .ok (.int n, c) => if n < -(INT_MAX : Int) - 1 ∨ n > INT_MAX then .error .overflow else .ok (some n.toNat, c)
    | .ok (_, _) => .error .starWantsInt
  | some (.num n) => if n ≤ INT_MAX then .ok (some n, c) else .error .precTooBig

def effect (d : Directive) (c : Ctx) : Except Err Ctx :=
  match keyStep d.key c with
  | .error e => .error e
  | .ok c =>
    match widthStep d.width c with
    | .error e => .error e
    | .ok c =>
      match precStep d.prec c with
      | .error e => .error e
      | .ok (p, c) =>
        match getNextArg c with
        | .error e => .error e
        | .ok (v, c) =>
          match formatValue d.conv p v with
          | .error e => .error e
          | .ok () => if c.dict.isSome && c.unconverted then .error .notAllConverted else .ok c

/-! ## part by part -/

theorem parseKey_of_scan {ch : Char} {rest : List Char} {key ch' rest'} (h : scanKeyPart ch rest = some (key, ch', rest')) (c : Ctx) :
    parseKey (ch :: rest) c = match keyStep key c with | .error e => .error e | .ok c' => .ok (ch' :: rest', c') := by
  unfold scanKeyPart at h
  by_cases hp : ch = '('
  · subst hp
    simp only [beq_self_eq_true, if_true] at h
    cases hk : scanKey 1 rest with
    | none => rw [hk] at h; cases h
    | some p =>
      obtain ⟨k, r⟩ := p
      rw [hk] at h
      cases r with
      | nil => cases h
      | cons x xs =>
        cases h
        rw [scanKey_eq_readKey] at hk
        simp only [parseKey, keyStep, hk]
        cases c.dict with
        | none => rfl
        | some m =>
          dsimp only
          cases lookup m k <;> rfl
  · have : (ch == '(') = false := by simpa using hp
    simp only [this] at h
    cases h
    simp only [keyStep]
    unfold parseKey
    split
    · rename_i heq; cases heq; exact absurd rfl hp
    · rfl

theorem parseKey_of_scan_none {ch : Char} {rest : List Char} (h : scanKeyPart ch rest = none) (c : Ctx) :
    (∃ e, parseKey (ch :: rest) c = .error e) ∨ (∃ c', parseKey (ch :: rest) c = .ok ([], c')) := by
  unfold scanKeyPart at h
  by_cases hp : ch = '('
  · subst hp
    simp only [beq_self_eq_true, if_true] at h
    simp only [parseKey]
    cases hd : c.dict with
    | none => exact Or.inl ⟨_, rfl⟩
    | some m =>
      simp only
      cases hk : scanKey 1 rest with
      | none => rw [scanKey_eq_readKey] at hk; simp only [hk]; exact Or.inl ⟨_, rfl⟩
      | some p =>
        obtain ⟨k, r⟩ := p
        rw [hk] at h
        cases r with
        | cons x xs => cases h
        | nil =>
          rw [scanKey_eq_readKey] at hk
          simp only [hk]
          cases lookup m k with
          | none => exact Or.inl ⟨_, rfl⟩
          | some v => exact Or.inr ⟨_, rfl⟩
  · have : (ch == '(') = false := by simpa using hp
    simp only [this] at h
    cases h

theorem parseWidth_of_scan {ch : Char} {rest : List Char} {w ch' rest'} (h : scanWidth ch rest = some (w, ch', rest')) (c : Ctx) :
    parseWidth ch rest c = match widthStep w c with | .error e => .error e | .ok c' => .ok (ch', rest', c') := by
  unfold scanWidth at h
  by_cases hs : ch = '*'
  · subst hs
    simp only [beq_self_eq_true, if_true] at h
    cases rest with
    | nil => cases h
    | cons x xs =>
      cases h
      simp only [parseWidth, widthStep, if_true, readChar]
      cases getNextArg c with
      | error e => rfl
      | ok p =>
        obtain ⟨v, c'⟩ := p
        cases v <;> simp only []
        split <;> rfl
  · have hb : (ch == '*') = false := by simpa using hs
    simp only [hb] at h
    cases hd : scanDigits 0 ch rest with
    | none => rw [hd] at h; cases h
    | some p =>
      obtain ⟨n, x, r⟩ := p
      rw [hd] at h
      cases h
      simp only [parseWidth, hs, if_false, widthStep]
      by_cases hdig : PyFmt.isDigit ch = true
      · simp only [← isDigit_eq, hdig, if_true]
        cases rest with
        | nil => simp only [scanDigits, hdig, if_true] at hd; cases hd
        | cons y ys =>
          simp only [scanDigits, hdig, if_true, Nat.zero_mul, Nat.zero_add] at hd
          have := readDigits_of_scan PY_SSIZE_T_MAX .widthTooBig (by decide) _ _ _ _ _ _ hd
            (by have := digitVal_le ch hdig; simp only [PY_SSIZE_T_MAX]; omega)
          rw [← digitVal_eq, this]
          by_cases hn : n ≤ PY_SSIZE_T_MAX
          · simp only [hn, if_true]
          · simp only [hn, if_false]
      · have hdf : PyFmt.isDigit ch = false := by simpa using hdig
        obtain ⟨rfl, rfl, rfl⟩ := (scanDigits_spec _ _ _ _ _ _ hd).2.2.2.2 hdf
        simp only [← isDigit_eq, hdf]
        simp [PY_SSIZE_T_MAX]

theorem parseWidth_of_scan_none {ch : Char} {rest : List Char} (h : scanWidth ch rest = none) (c : Ctx) :
    ∃ e, parseWidth ch rest c = .error e := by
  unfold scanWidth at h
  by_cases hs : ch = '*'
  · subst hs
    simp only [beq_self_eq_true, if_true] at h
    cases rest with
    | cons x xs => cases h
    | nil =>
      simp only [parseWidth, if_true, readChar]
      cases getNextArg c with
      | error e => exact ⟨_, rfl⟩
      | ok p =>
        obtain ⟨v, c'⟩ := p
        cases v <;> simp only []
        · split <;> exact ⟨_, rfl⟩
        all_goals exact ⟨_, rfl⟩
  · have hb : (ch == '*') = false := by simpa using hs
    simp only [hb] at h
    cases hd : scanDigits 0 ch rest with
    | some p => rw [hd] at h; cases h
    | none =>
      simp only [parseWidth, hs, if_false]
      by_cases hdig : PyFmt.isDigit ch = true
      · simp only [← isDigit_eq, hdig, if_true]
        cases rest with
        | nil => exact ⟨_, rfl⟩
        | cons y ys =>
          simp only [scanDigits, hdig, if_true, Nat.zero_mul, Nat.zero_add] at hd
          obtain ⟨e, he⟩ := readDigits_of_scan_none PY_SSIZE_T_MAX .widthTooBig _ _ _ hd
          rw [← digitVal_eq, he]
          exact ⟨_, rfl⟩
      · have hdf : PyFmt.isDigit ch = false := by simpa using hdig
        cases rest with
        | nil => simp only [scanDigits, hdf] at hd; cases hd
        | cons y ys => simp only [scanDigits, hdf] at hd; cases hd

theorem parsePrec_of_scan {ch : Char} {rest : List Char} {p ch' rest'} (h : scanPrec ch rest = some (p, ch', rest')) (c : Ctx) :
    parsePrec ch rest c = match precStep p c with | .error e => .error e | .ok (pv, c') => .ok (pv, ch', rest', c') := by
  unfold scanPrec at h
  by_cases hdot : ch = '.'
  · subst hdot
    simp only [beq_self_eq_true, if_true] at h
    cases rest with
    | nil => cases h
    | cons x xs =>
      simp only [] at h
      by_cases hs : x = '*'
      · subst hs
        simp only [beq_self_eq_true, if_true] at h
        cases xs with
        | nil => cases h
        | cons y ys =>
          cases h
          simp only [parsePrec, precStep, if_true, readChar]
          cases getNextArg c with
          | error e => rfl
          | ok q =>
            obtain ⟨v, c'⟩ := q
            cases v <;> simp only []
            split <;> rfl
      · have hb : (x == '*') = false := by simpa using hs
        simp only [hb] at h
        cases hd : scanDigits 0 x xs with
        | none => rw [hd] at h; cases h
        | some q =>
          obtain ⟨n, y, r⟩ := q
          rw [hd] at h
          cases h
          simp only [parsePrec, if_true, readChar, hs, if_false, precStep]
          by_cases hdig : PyFmt.isDigit x = true
          · simp only [← isDigit_eq, hdig, if_true]
            cases xs with
            | nil => simp only [scanDigits, hdig, if_true] at hd; cases hd
            | cons z zs =>
              simp only [scanDigits, hdig, if_true, Nat.zero_mul, Nat.zero_add] at hd
              have := readDigits_of_scan INT_MAX .precTooBig (by decide) _ _ _ _ _ _ hd
                (by have := digitVal_le x hdig; simp only [INT_MAX]; omega)
              rw [← digitVal_eq, this]
              by_cases hn : n ≤ INT_MAX
              · simp only [hn, if_true]
              · simp only [hn, if_false]
          · have hdf : PyFmt.isDigit x = false := by simpa using hdig
            obtain ⟨rfl, rfl, rfl⟩ := (scanDigits_spec _ _ _ _ _ _ hd).2.2.2.2 hdf
            simp only [← isDigit_eq, hdf]
            simp [INT_MAX]
  · have hb : (ch == '.') = false := by simpa using hdot
    simp only [hb] at h
    cases h
    simp only [parsePrec, hdot, if_false, precStep]

theorem parsePrec_of_scan_none {ch : Char} {rest : List Char} (h : scanPrec ch rest = none) (c : Ctx) :
    ∃ e, parsePrec ch rest c = .error e := by
  unfold scanPrec at h
  by_cases hdot : ch = '.'
  · subst hdot
    simp only [beq_self_eq_true, if_true] at h
    cases rest with
    | nil => exact ⟨_, rfl⟩
    | cons x xs =>
      simp only [] at h
      by_cases hs : x = '*'
      · subst hs
        simp only [beq_self_eq_true, if_true] at h
        cases xs with
        | cons y ys => cases h
        | nil =>
          simp only [parsePrec, if_true, readChar]
          cases getNextArg c with
          | error e => exact ⟨_, rfl⟩
          | ok q =>
            obtain ⟨v, c'⟩ := q
            cases v <;> simp only []
            · split <;> exact ⟨_, rfl⟩
            all_goals exact ⟨_, rfl⟩
      · have hb : (x == '*') = false := by simpa using hs
        simp only [hb] at h
        cases hd : scanDigits 0 x xs with
        | some q => rw [hd] at h; cases h
        | none =>
          simp only [parsePrec, if_true, readChar, hs, if_false]
          by_cases hdig : PyFmt.isDigit x = true
          · simp only [← isDigit_eq, hdig, if_true]
            cases xs with
            | nil => exact ⟨_, rfl⟩
            | cons z zs =>
              simp only [scanDigits, hdig, if_true, Nat.zero_mul, Nat.zero_add] at hd
              obtain ⟨e, he⟩ := readDigits_of_scan_none INT_MAX .precTooBig _ _ _ hd
              rw [← digitVal_eq, he]
              exact ⟨_, rfl⟩
          · have hdf : PyFmt.isDigit x = false := by simpa using hdig
            cases xs with
            | nil => simp only [scanDigits, hdf] at hd; cases hd
            | cons z zs => simp only [scanDigits, hdf] at hd; cases hd
  · have hb : (ch == '.') = false := by simpa using hdot
    simp only [hb] at h
    cases h

theorem length_contains (c : Char) : lengthChars.contains c = decide (c = 'h' ∨ c = 'l' ∨ c = 'L') := by
  rw [Bool.eq_iff_iff]
  simp [lengthChars]
  constructor
  · rintro (h | h | h) <;> simp [h]
  · rintro (h | h | h) <;> simp [h]

/-! ## the whole specification -/

/-- the tail of `argParse` after the precision: length modifier, conversion character -/
theorem length_of_scan {ch : Char} {rest : List Char} {len ch' rest'} (h : scanLength ch rest = some (len, ch', rest')) :
    (if ch = 'h' ∨ ch = 'l' ∨ ch = 'L' then
      match readChar rest with
      | .error e => (Except.error e : Except Err (Char × List Char))
      | .ok (ch, rest) => .ok (ch, rest)
     else .ok (ch, rest)) = .ok (ch', rest') := by
  unfold scanLength at h
  simp only [length_contains, decide_eq_true_eq] at h
  by_cases hl : ch = 'h' ∨ ch = 'l' ∨ ch = 'L'
  · simp only [hl, if_true] at h ⊢
    cases rest with
    | nil => cases h
    | cons x xs => cases h; rfl
  · simp only [hl, if_false] at h ⊢
    cases h; rfl

theorem length_of_scan_none {ch : Char} {rest : List Char} (h : scanLength ch rest = none) :
    (ch = 'h' ∨ ch = 'l' ∨ ch = 'L') ∧ rest = [] := by
  unfold scanLength at h
  simp only [length_contains, decide_eq_true_eq] at h
  by_cases hl : ch = 'h' ∨ ch = 'l' ∨ ch = 'L'
  · simp only [hl, if_true] at h
    cases rest with
    | nil => exact ⟨hl, rfl⟩
    | cons x xs => cases h
  · simp only [hl, if_false] at h
    cases h

/-- `argParse` with the length/conversion tail factored out (definitional) -/
theorem argParse_eq (cs : List Char) (c : Ctx) :
    argParse cs c =
      match parseKey cs c with
      | .error e => .error e
      | .ok (cs, c) =>
        match readFlags cs with
        | none => .error .incompleteFormat
        | some (_flags, ch, rest) =>
          match parseWidth ch rest c with
          | .error e => .error e
          | .ok (ch, rest, c) =>
            match parsePrec ch rest c with
            | .error e => .error e
            | .ok (prec, ch, rest, c) =>
              match (if ch = 'h' ∨ ch = 'l' ∨ ch = 'L' then
                      match readChar rest with
                      | .error e => (Except.error e : Except Err (Char × List Char))
                      | .ok (ch, rest) => .ok (ch, rest)
                     else .ok (ch, rest)) with
              | .error e => .error e
              | .ok (ch, rest) => .ok (prec, ch, rest, c) := by
  unfold argParse
  cases parseKey cs c with
  | error e => rfl
  | ok p =>
    obtain ⟨cs', c'⟩ := p
    simp only []
    cases readFlags cs' with
    | none => rfl
    | some q =>
      obtain ⟨f, ch, rest⟩ := q
      simp only []
      cases parseWidth ch rest c' with
      | error e => rfl
      | ok r =>
        obtain ⟨ch2, rest2, c2⟩ := r
        simp only []
        cases parsePrec ch2 rest2 c2 with
        | error e => rfl
        | ok s =>
          obtain ⟨pv, ch3, rest3, c3⟩ := s
          simp only []
          by_cases hl : ch3 = 'h' ∨ ch3 = 'l' ∨ ch3 = 'L'
          · simp only [hl, if_true]
            cases readChar rest3 with
            | error e => rfl
            | ok u => rfl
          · simp only [hl, if_false]

/-- **The parser's scanner and `unicode_format_arg_parse` read the same specification**: where the scanner reads `d`
    and leaves `rest`, CPython performs `effect d` on its argument context and continues at `rest`. -/
theorem formatArg_of_scan {cs : List Char} {d : Directive} {rest : List Char} (h : scanDirective cs = some (d, rest)) (c : Ctx) :
    formatArg cs c = match effect d c with | .error e => .error e | .ok c' => .ok (rest, c') := by
  unfold scanDirective at h
  cases cs with
  | nil => cases h
  | cons ch0 rest0 =>
    simp only [] at h
    cases hk : scanKeyPart ch0 rest0 with
    | none => rw [hk] at h; cases h
    | some pk =>
      obtain ⟨key, ch1, rest1⟩ := pk
      rw [hk] at h; simp only [] at h
      cases hf : scanFlags ch1 rest1 with
      | none => rw [hf] at h; cases h
      | some pf =>
        obtain ⟨flags, ch2, rest2⟩ := pf
        rw [hf] at h; simp only [] at h
        cases hw : scanWidth ch2 rest2 with
        | none => rw [hw] at h; cases h
        | some pw =>
          obtain ⟨width, ch3, rest3⟩ := pw
          rw [hw] at h; simp only [] at h
          cases hp : scanPrec ch3 rest3 with
          | none => rw [hp] at h; cases h
          | some pp =>
            obtain ⟨prec, ch4, rest4⟩ := pp
            rw [hp] at h; simp only [] at h
            cases hl : scanLength ch4 rest4 with
            | none => rw [hl] at h; cases h
            | some pl =>
              obtain ⟨len, ch5, rest5⟩ := pl
              rw [hl] at h; simp only [] at h
              split at h
              · cases h
                simp only [formatArg, argParse_eq, effect, parseKey_of_scan hk]
                cases keyStep key c with
                | error e => rfl
                | ok c1 =>
                  simp only [← scanFlags_eq_readFlags, hf, parseWidth_of_scan hw]
                  cases widthStep width c1 with
                  | error e => rfl
                  | ok c2 =>
                    simp only [parsePrec_of_scan hp]
                    cases precStep prec c2 with
                    | error e => rfl
                    | ok q =>
                      obtain ⟨pv, c3⟩ := q
                      simp only [length_of_scan hl]
                      cases getNextArg c3 with
                      | error e => rfl
                      | ok r =>
                        obtain ⟨v, c4⟩ := r
                        simp only []
                        cases formatValue ch5 pv v with
                        | error e => rfl
                        | ok u =>
                          simp only []
                          split <;> rfl
              · cases h

theorem formatValue_unsupported {ch : Char} (h : allCvt.contains ch = false) (p : Option Nat) (v : Val) :
    formatValue ch p v = .error .unsupportedChar := by
  simp only [allCvt, List.contains_cons, List.contains_nil, Bool.or_false, Bool.or_eq_false_iff, beq_eq_false_iff_ne, ne_eq] at h
  obtain ⟨h1, h2, h3, h4, h5, h6, h7, h8, h9, h10, h11, h12, h13, h14, h15, h16, h17⟩ := h
  unfold formatValue
  simp only [h1, h2, h3, h4, h5, h6, h7, h8, h9, h10, h11, h12, h13, h14, h15, h16, h17, or_self, if_false]

/-- **Where the parser's scanner raises `Error`, CPython raises too, whatever the arguments.** -/
theorem formatArg_of_scan_none {cs : List Char} (h : scanDirective cs = none) (c : Ctx) :
    ∃ e, formatArg cs c = .error e := by
  unfold scanDirective at h
  cases cs with
  | nil => exact ⟨_, rfl⟩
  | cons ch0 rest0 =>
    simp only [] at h
    cases hk : scanKeyPart ch0 rest0 with
    | none =>
      rcases parseKey_of_scan_none hk c with ⟨e, he⟩ | ⟨c', he⟩
      · exact ⟨e, by simp only [formatArg, argParse_eq, he]⟩
      · exact ⟨.incompleteFormat, by simp only [formatArg, argParse_eq, he, readFlags]⟩
    | some pk =>
      obtain ⟨key, ch1, rest1⟩ := pk
      rw [hk] at h; simp only [] at h
      simp only [formatArg, argParse_eq, parseKey_of_scan hk]
      cases keyStep key c with
      | error e => exact ⟨_, rfl⟩
      | ok c1 =>
        simp only [← scanFlags_eq_readFlags]
        cases hf : scanFlags ch1 rest1 with
        | none => exact ⟨_, rfl⟩
        | some pf =>
          obtain ⟨flags, ch2, rest2⟩ := pf
          rw [hf] at h; simp only [] at h ⊢
          cases hw : scanWidth ch2 rest2 with
          | none =>
            obtain ⟨e, he⟩ := parseWidth_of_scan_none hw c1
            exact ⟨e, by simp only [he]⟩
          | some pw =>
            obtain ⟨width, ch3, rest3⟩ := pw
            rw [hw] at h; simp only [] at h
            simp only [parseWidth_of_scan hw]
            cases widthStep width c1 with
            | error e => exact ⟨_, rfl⟩
            | ok c2 =>
              simp only []
              cases hp : scanPrec ch3 rest3 with
              | none =>
                obtain ⟨e, he⟩ := parsePrec_of_scan_none hp c2
                exact ⟨e, by simp only [he]⟩
              | some pp =>
                obtain ⟨prec, ch4, rest4⟩ := pp
                rw [hp] at h; simp only [] at h
                simp only [parsePrec_of_scan hp]
                cases precStep prec c2 with
                | error e => exact ⟨_, rfl⟩
                | ok q =>
                  obtain ⟨pv, c3⟩ := q
                  simp only []
                  cases hl : scanLength ch4 rest4 with
                  | none =>
                    obtain ⟨hc, rfl⟩ := length_of_scan_none hl
                    exact ⟨.incompleteFormat, by simp only [hc, if_true, readChar]⟩
                  | some pl =>
                    obtain ⟨len, ch5, rest5⟩ := pl
                    rw [hl] at h; simp only [] at h
                    simp only [length_of_scan hl]
                    split at h
                    · cases h
                    · rename_i hcv
                      have hcv' : allCvt.contains ch5 = false := by simpa using hcv
                      cases getNextArg c3 with
                      | error e => exact ⟨_, rfl⟩
                      | ok r =>
                        obtain ⟨v, c4⟩ := r
                        exact ⟨.unsupportedChar, by simp only [formatValue_unsupported hcv']⟩

/-! ## lengths (for the termination device) and the literal `%%` -/

theorem scanKeyPart_length {ch : Char} {rest : List Char} {key ch' rest'} (h : scanKeyPart ch rest = some (key, ch', rest')) :
    rest'.length ≤ rest.length := by
  unfold scanKeyPart at h
  split at h
  · cases hk : scanKey 1 rest with
    | none => rw [hk] at h; cases h
    | some p =>
      obtain ⟨k, r⟩ := p
      rw [hk] at h
      have := scanKey_length _ _ _ _ hk
      cases r with
      | nil => cases h
      | cons x xs => cases h; simp only [List.length_cons] at this; omega
  · cases h; exact Nat.le_refl _

theorem scanWidth_length {ch : Char} {rest : List Char} {w ch' rest'} (h : scanWidth ch rest = some (w, ch', rest')) :
    rest'.length ≤ rest.length := by
  unfold scanWidth at h
  split at h
  · cases rest with
    | nil => cases h
    | cons x xs => cases h; simp
  · cases hd : scanDigits 0 ch rest with
    | none => rw [hd] at h; cases h
    | some p =>
      obtain ⟨n, x, r⟩ := p
      rw [hd] at h; cases h
      exact (scanDigits_spec _ _ _ _ _ _ hd).2.2.1

theorem scanPrec_length {ch : Char} {rest : List Char} {p ch' rest'} (h : scanPrec ch rest = some (p, ch', rest')) :
    rest'.length ≤ rest.length := by
  unfold scanPrec at h
  split at h
  · cases rest with
    | nil => cases h
    | cons x xs =>
      simp only [] at h
      split at h
      · cases xs with
        | nil => cases h
        | cons y ys => cases h; simp only [List.length_cons]; omega
      · cases hd : scanDigits 0 x xs with
        | none => rw [hd] at h; cases h
        | some q =>
          obtain ⟨n, y, r⟩ := q
          rw [hd] at h; cases h
          have := (scanDigits_spec _ _ _ _ _ _ hd).2.2.1
          simp only [List.length_cons]; omega
  · cases h; exact Nat.le_refl _

theorem scanLength_length {ch : Char} {rest : List Char} {l ch' rest'} (h : scanLength ch rest = some (l, ch', rest')) :
    rest'.length ≤ rest.length := by
  unfold scanLength at h
  split at h
  · cases rest with
    | nil => cases h
    | cons x xs => cases h; simp
  · cases h; exact Nat.le_refl _

/-- what `scanDirective` returns, part by part -/
theorem scanDirective_parts {cs : List Char} {d : Directive} {rest : List Char} (h : scanDirective cs = some (d, rest)) :
    ∃ ch0 rest0 ch1 rest1 ch2 rest2 ch3 rest3 ch4 rest4,
      cs = ch0 :: rest0 ∧ scanKeyPart ch0 rest0 = some (d.key, ch1, rest1) ∧ scanFlags ch1 rest1 = some (d.flags, ch2, rest2) ∧
      scanWidth ch2 rest2 = some (d.width, ch3, rest3) ∧ scanPrec ch3 rest3 = some (d.prec, ch4, rest4) ∧
      scanLength ch4 rest4 = some (d.length, d.conv, rest) ∧ allCvt.contains d.conv = true := by
  unfold scanDirective at h
  cases cs with
  | nil => cases h
  | cons ch0 rest0 =>
    simp only [] at h
    cases hk : scanKeyPart ch0 rest0 with
    | none => rw [hk] at h; cases h
    | some pk =>
      obtain ⟨key, ch1, rest1⟩ := pk
      rw [hk] at h; simp only [] at h
      cases hf : scanFlags ch1 rest1 with
      | none => rw [hf] at h; cases h
      | some pf =>
        obtain ⟨flags, ch2, rest2⟩ := pf
        rw [hf] at h; simp only [] at h
        cases hw : scanWidth ch2 rest2 with
        | none => rw [hw] at h; cases h
        | some pw =>
          obtain ⟨width, ch3, rest3⟩ := pw
          rw [hw] at h; simp only [] at h
          cases hp : scanPrec ch3 rest3 with
          | none => rw [hp] at h; cases h
          | some pp =>
            obtain ⟨prec, ch4, rest4⟩ := pp
            rw [hp] at h; simp only [] at h
            cases hl : scanLength ch4 rest4 with
            | none => rw [hl] at h; cases h
            | some pl =>
              obtain ⟨len, ch5, rest5⟩ := pl
              rw [hl] at h; simp only [] at h
              split at h
              · rename_i hc
                cases h
                exact ⟨ch0, rest0, ch1, rest1, ch2, rest2, ch3, rest3, ch4, rest4, rfl, hk, hf, hw, hp, hl, hc⟩
              · cases h

/-- every round of the parser's loop consumes at least one character -/
theorem scanDirective_length {cs : List Char} {d : Directive} {rest : List Char} (h : scanDirective cs = some (d, rest)) :
    rest.length < cs.length := by
  obtain ⟨ch0, rest0, ch1, rest1, ch2, rest2, ch3, rest3, ch4, rest4, rfl, hk, hf, hw, hp, hl, _⟩ := scanDirective_parts h
  have := scanKeyPart_length hk
  have := (scanFlags_spec _ _ _ _ _ hf).2.2.1
  have := scanWidth_length hw
  have := scanPrec_length hp
  have := scanLength_length hl
  simp only [List.length_cons]; omega

/-- the flags the scanner collects are flag characters, and the conversion character is one of `_info.all_cvt` -/
theorem scanDirective_wf {cs : List Char} {d : Directive} {rest : List Char} (h : scanDirective cs = some (d, rest)) :
    (∀ x ∈ d.flags, flagChars.contains x = true) ∧ allCvt.contains d.conv = true := by
  obtain ⟨ch0, rest0, ch1, rest1, ch2, rest2, ch3, rest3, ch4, rest4, rfl, hk, hf, hw, hp, hl, hc⟩ := scanDirective_parts h
  exact ⟨(scanFlags_spec _ _ _ _ _ hf).2.1, hc⟩

/-- the specification `%%` -/
def percentDirective : Directive := { key := none, flags := [], width := .num 0, prec := none, length := none, conv := '%' }

theorem scan_percent (r : List Char) : scanDirective ('%' :: r) = some (percentDirective, r) := by
  cases r <;> rfl

/-- a specification with conversion `%` and no key, flag, width, precision or length is the two characters `%%` -/
theorem scan_plain {cs : List Char} {d : Directive} {rest : List Char} (h : scanDirective cs = some (d, rest))
    (hc : d.conv = '%') (hp : d.plain = true) : cs = '%' :: rest ∧ d = percentDirective := by
  obtain ⟨ch0, rest0, ch1, rest1, ch2, rest2, ch3, rest3, ch4, rest4, rfl, hk, hf, hw, hpr, hl, _⟩ := scanDirective_parts h
  obtain ⟨key, flags, width, prec, length, conv⟩ := d
  dsimp only at hc hk hf hw hpr hl
  subst hc
  simp only [Directive.plain, bne_self_eq_false, Bool.false_or, Bool.and_eq_true, Option.isNone_iff_eq_none, List.isEmpty_iff,
    beq_iff_eq] at hp
  obtain ⟨⟨⟨⟨rfl, rfl⟩, rfl⟩, rfl⟩, rfl⟩ := hp
  -- key
  have h1 : ch1 = ch0 ∧ rest1 = rest0 := by
    unfold scanKeyPart at hk
    split at hk
    · cases hk' : scanKey 1 rest0 with
      | none => rw [hk'] at hk; cases hk
      | some p =>
        obtain ⟨k, r⟩ := p
        rw [hk'] at hk
        cases r with
        | nil => cases hk
        | cons x xs => cases hk
    · cases hk; exact ⟨rfl, rfl⟩
  obtain ⟨hnf, _, _, h2⟩ := scanFlags_spec _ _ _ _ _ hf
  have h2 := h2 rfl
  -- width
  have h3 : ch3 = ch2 ∧ rest3 = rest2 := by
    unfold scanWidth at hw
    split at hw
    · cases rest2 with
      | nil => cases hw
      | cons x xs => cases hw
    · cases hd : scanDigits 0 ch2 rest2 with
      | none => rw [hd] at hw; cases hw
      | some p =>
        obtain ⟨n, x, r⟩ := p
        rw [hd] at hw
        cases hw
        have hs := scanDigits_spec _ _ _ _ _ _ hd
        by_cases hdig : PyFmt.isDigit ch2 = true
        · have h0 : ch2 ≠ '0' := by
            intro h0; subst h0
            rw [flag_contains] at hnf
            simp at hnf
          have := digitVal_pos ch2 hdig h0
          have := hs.2.2.2.1 hdig
          omega
        · have hdf : PyFmt.isDigit ch2 = false := by simpa using hdig
          obtain ⟨_, e1, e2⟩ := hs.2.2.2.2 hdf
          exact ⟨e1, e2⟩
  have h4 : ch4 = ch3 ∧ rest4 = rest3 := by
    unfold scanPrec at hpr
    split at hpr
    · cases rest3 with
      | nil => cases hpr
      | cons x xs =>
        simp only [] at hpr
        split at hpr
        · cases xs with
          | nil => cases hpr
          | cons y ys => cases hpr
        · cases hd : scanDigits 0 x xs with
          | none => rw [hd] at hpr; cases hpr
          | some q => rw [hd] at hpr; cases hpr
    · cases hpr; exact ⟨rfl, rfl⟩
  have h5 : '%' = ch4 ∧ rest = rest4 := by
    unfold scanLength at hl
    split at hl
    · cases rest4 with
      | nil => cases hl
      | cons x xs => cases hl
    · cases hl; exact ⟨rfl, rfl⟩
  obtain ⟨a1, b1⟩ := h1
  obtain ⟨a2, b2⟩ := h2
  obtain ⟨a3, b3⟩ := h3
  obtain ⟨a4, b4⟩ := h4
  obtain ⟨a5, b5⟩ := h5
  subst_vars
  exact ⟨rfl, rfl⟩

end I18n.PyFmt
