import I18n.Model.CliState
/-!
Lemmas about the state-threading model of the per-file path (C03): a cache whose key determines its value cannot be
observed; the invariant "patched ∧ cache consistent" is preserved by every `check_file`; sequential and parallel
`check_all` deliver the per-file outputs in argument order.
-/
namespace I18n.CliState
variable {K K' V : Type} [DecidableEq K']

theorem cacheGet_cons (c : List (K' × V)) (k1 k : K') (v : V) :
    cacheGet ((k1, v) :: c) k = if k1 = k then some v else cacheGet c k := rfl

/-- `proj` is a sound cache key for `f`: the key determines the value -/
def KeyDetermines (proj : K → K') (f : K → V) : Prop := ∀ k1 k2, proj k1 = proj k2 → f k1 = f k2

theorem consistent_nil (proj : K → K') (f : K → V) : Consistent proj f [] := by
  intro k v h; simp [cacheGet] at h

theorem consistent_insert {proj : K → K'} {f : K → V} (hkey : KeyDetermines proj f) {c : List (K' × V)}
    (hc : Consistent proj f c) (k : K) : Consistent proj f ((proj k, f k) :: c) := by
  intro k2 v h
  rw [cacheGet_cons] at h
  by_cases hk : proj k = proj k2
  · simp only [hk, if_true] at h
    cases h
    exact hkey k k2 hk
  · simp only [hk, if_false] at h
    exact hc k2 v h

/-- **A consistent cache is invisible**: the lines printed are those of the cache-free run, and the cache stays consistent. -/
theorem run_consistent {proj : K → K'} {f : K → V} (hkey : KeyDetermines proj f) :
    ∀ (p : Prog K V) (c : List (K' × V)), Consistent proj f c →
      (p.run proj f c).2 = p.pure f ∧ Consistent proj f (p.run proj f c).1 := by
  intro p
  induction p with
  | done out => intro c hc; exact ⟨rfl, hc⟩
  | ask k cont ih =>
    intro c hc
    simp only [Prog.run, Prog.pure]
    cases hget : cacheGet c (proj k) with
    | some v =>
      have hv : v = f k := hc k v hget
      subst hv
      exact ih (f k) c hc
    | none =>
      exact ih (f k) _ (consistent_insert hkey hc k)

section Path
variable {O F : Type}
variable (proj : K → K') (f : K → V) (unpackDeb : O → Bool)
variable (checkRegular : O → F → Prog K V) (checkDeb : O → F → Option (Prog K V))
variable (colourOf : Bool → Bool → Bool) (render : Bool → String → String)

/-- the invariant of reachable global states: environment patched, caches consistent -/
def Inv (t : Bool) (g : G K' V) : Prop := g.patched = true ∧ Consistent proj f g.cache ∧ g.terminal = t

/-- the colour decision does not look at the redirect -/
def IgnoresRedirect (colourOf : Bool → Bool → Bool) : Prop := ∀ t c, colourOf t c = colourOf t false

/-- the output of a file in a process of its own (no cache at all) -/
def out (t : Bool) (o : O) (file : F) : List String :=
  ((checkFileProg unpackDeb checkRegular checkDeb o file).pure f).map (render (colourOf t false))

variable {proj f}

theorem step_inv (hkey : KeyDetermines proj f) (hcol : IgnoresRedirect colourOf) (o : O) (g : G K' V) (file : F) (hg : Inv proj f t g) :
    (step proj f unpackDeb checkRegular checkDeb colourOf render o g file).2 = .ok (out f unpackDeb checkRegular checkDeb colourOf render t o file)
    ∧ Inv proj f t (step proj f unpackDeb checkRegular checkDeb colourOf render o g file).1 := by
  obtain ⟨hp, hc, ht⟩ := hg
  have h := run_consistent hkey (checkFileProg unpackDeb checkRegular checkDeb o file) g.cache hc
  simp only [step, hp, if_true]
  refine ⟨?_, rfl, h.2, ht⟩
  rw [h.1, ht, hcol t g.captured]
  rfl

/-- `check_file_s` = `check_file` as far as output and invariant go, and it leaves `sys.stdout` as it found it — also when
    `check_file` raised -/
theorem checkFileS_inv (hkey : KeyDetermines proj f) (hcol : IgnoresRedirect colourOf) (o : O) (g : G K' V) (file : F) (hg : Inv proj f t g) :
    (checkFileS proj f unpackDeb checkRegular checkDeb colourOf render o g file).2 = .ok (out f unpackDeb checkRegular checkDeb colourOf render t o file)
    ∧ Inv proj f t (checkFileS proj f unpackDeb checkRegular checkDeb colourOf render o g file).1 := by
  have hg1 : Inv proj f t ({ g with captured := true } : G K' V) := hg
  have hs := step_inv unpackDeb checkRegular checkDeb colourOf render hkey hcol o _ file hg1
  exact ⟨hs.1, hs.2⟩

theorem checkFileS_restores_stdout (o : O) (g : G K' V) (file : F) :
    (checkFileS proj f unpackDeb checkRegular checkDeb colourOf render o g file).1.captured = g.captured := rfl

theorem seqRun_inv (hkey : KeyDetermines proj f) (hcol : IgnoresRedirect colourOf) (o : O) :
    ∀ (files : List F) (g : G K' V), Inv proj f t g →
      (seqRun proj f unpackDeb checkRegular checkDeb colourOf render o g files).2
        = .ok ((files.map (out f unpackDeb checkRegular checkDeb colourOf render t o)).flatten)
      ∧ Inv proj f t (seqRun proj f unpackDeb checkRegular checkDeb colourOf render o g files).1 := by
  intro files
  induction files with
  | nil => intro g hg; exact ⟨rfl, hg⟩
  | cons file rest ih =>
    intro g hg
    have hs := step_inv unpackDeb checkRegular checkDeb colourOf render hkey hcol o g file hg
    rcases hstep : step proj f unpackDeb checkRegular checkDeb colourOf render o g file with ⟨g1, r1⟩
    rw [hstep] at hs
    simp only at hs
    obtain ⟨hr, hg1⟩ := hs
    subst hr
    have ih1 := ih g1 hg1
    rcases hrest : seqRun proj f unpackDeb checkRegular checkDeb colourOf render o g1 rest with ⟨g2, r2⟩
    rw [hrest] at ih1
    simp only at ih1
    obtain ⟨hr2, hg2⟩ := ih1
    subst hr2
    simp only [seqRun, hstep, hrest, List.map_cons, List.flatten_cons]
    exact ⟨trivial, hg2⟩

theorem setWorker_inv (W : Nat → G K' V) (w : Nat) (g : G K' V) (hW : ∀ n, Inv proj f t (W n)) (hg : Inv proj f t g) :
    ∀ n, Inv proj f t (setWorker W w g n) := by
  intro n
  unfold setWorker
  split
  · exact hg
  · exact hW n

/-- whatever worker a task lands on and whatever that worker did before, the task's captured output is the file's own -/
theorem parExec_find (hkey : KeyDetermines proj f) (hcol : IgnoresRedirect colourOf) (o : O) (paths : List F) :
    ∀ (sched : List (Nat × Nat)) (W : Nat → G K' V), (∀ n, Inv proj f t (W n)) →
      ∀ (i : Nat) (p : F), paths[i]? = some p → i ∈ sched.map (·.1) →
        ((parExec proj f unpackDeb checkRegular checkDeb colourOf render o paths sched W).find? (fun q => q.1 == i)).map (·.2)
          = some (.ok (out f unpackDeb checkRegular checkDeb colourOf render t o p)) := by
  intro sched
  induction sched with
  | nil => intro W _ i p _ h; simp at h
  | cons jw rest ih =>
    intro W hW i p hp hi
    obtain ⟨j, w⟩ := jw
    simp only [parExec]
    cases hj : paths[j]? with
    | none =>
      simp only
      have hne : j ≠ i := by
        intro h; subst h; rw [hp] at hj; cases hj
      have hi' : i ∈ rest.map (·.1) := by
        simp only [List.map_cons, List.mem_cons] at hi
        rcases hi with h | h
        · exact absurd h.symm hne
        · exact h
      exact ih W hW i p hp hi'
    | some q =>
      simp only
      have hs := checkFileS_inv unpackDeb checkRegular checkDeb colourOf render hkey hcol o (W w) q (hW w)
      by_cases hji : j = i
      · subst hji
        rw [hp] at hj; cases hj
        simp only [List.find?_cons, beq_self_eq_true, Option.map_some]
        rw [hs.1]
      · have hb : (j == i) = false := by simpa using hji
        simp only [List.find?_cons, hb]
        have hi' : i ∈ rest.map (·.1) := by
          simp only [List.map_cons, List.mem_cons] at hi
          rcases hi with h | h
          · exact absurd h.symm hji
          · exact h
        exact ih _ (setWorker_inv W w _ hW hs.2) i p hp hi'

theorem collect_all_ok (outs : List (List String)) :
    collect (outs.map (fun x => some (Except.ok x))) = .ok outs.flatten := by
  induction outs with
  | nil => rfl
  | cons x xs ih => simp only [List.map_cons, collect, ih, List.flatten_cons]

end Path
end I18n.CliState
