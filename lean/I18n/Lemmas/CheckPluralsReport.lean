import I18n.Lemmas.CheckPluralsClean
namespace I18n.CheckPlurals
open I18n I18n.Py I18n.Plural I18n.PluralParse I18n.Spec.PluralForms

/-- the report of a header value that parses, in terms of the window's final state -/
theorem report_ok_raw (inp : Input) (pf : List Char) (out : Output) (hv : headerValues inp = [pf]) (ht : inp.isTemplate = false)
    (n : Nat) (e : Expr) (lj rj : List Char) (hpf : parsePluralForms pf = .ok n e lj rj) (h : checkPlurals inp = .ok out) :
    ∃ lcs st fin rs,
      lcsOf inp n = .ok lcs ∧
      window n e (pickLc (unusualTag (hasPlurals inp) pf (hintOf inp)) lcs).2 (hasPlurals inp) (unusualTag (hasPlurals inp) pf (hintOf inp))
        (List.range codomainLimit)
        ⟨tags0Of inp ++ junkTags lj rj ++ nplTags n (expectedOf inp) ++ (pickLc (unusualTag (hasPlurals inp) pf (hintOf inp)) lcs).1, [], false⟩ = (st, fin) ∧
      gapRanges n e (completedOf st fin) = .ok rs ∧
      out = ⟨st.tags ++ gapTags (hasPlurals inp) rs, if rs.isEmpty then completedOf st fin else none⟩ := by
  rw [checkPlurals_single inp pf hv ht, hpf] at h
  simp only [analyse_eq] at h
  cases hl : lcsOf inp n with
  | error ex => rw [hl] at h; cases h
  | ok lcs =>
    rw [hl] at h
    simp only at h
    generalize hw : window n e _ _ _ _ _ = w at h
    obtain ⟨st, fin⟩ := w
    cases hg : gapRanges n e (completedOf st fin) with
    | error ex =>
      cases fin <;> simp only [hg] at h <;> cases h
    | ok rs =>
      refine ⟨lcs, st, fin, rs, rfl, hw, hg, ?_⟩
      cases fin <;> simp only [hg, Except.ok.injEq] at h
      · exact h.symm
      · exact h.symm
      · cases h

/-- the window stopped at the LEAST bad index, its diagnostic is the last tag, only `unusual` tags before it -/
theorem window_stopped_least (n : Nat) (e : Expr) (lc : Option (Nat × Expr)) (hp : Bool) (ut : TagCall)
    (st0 st : WinState) (hlc : LcTotal lc (List.range codomainLimit))
    (hw : window n e lc hp ut (List.range codomainLimit) st0 = (st, .stopped)) :
    ∃ i msg mid, i < codomainLimit ∧ (∀ j, j < i → badMsg n e j = none) ∧ badMsg n e i = some msg ∧
      st.tags = st0.tags ++ mid ++ [⟨badTagName n e i hp, [.safe msg]⟩] ∧ (∀ t ∈ mid, t = ut) := by
  obtain ⟨pre, i, post, msg, mid, his, hpre, hbad, htags, hmid⟩ := window_stopped n e lc hp ut _ st0 st hw hlc
  have hlen : pre.length = i ∧ pre = List.range i := by
    have h1 : (List.range codomainLimit)[pre.length]? = some i := by rw [his]; simp
    have hi : pre.length = i := by
      have hlt : pre.length < codomainLimit := by
        have := congrArg List.length his
        simp at this; omega
      rw [List.getElem?_range hlt] at h1
      simpa using h1
    refine ⟨hi, ?_⟩
    have h2 := congrArg (List.take pre.length) his
    simp only [List.take_left'] at h2
    rw [← h2, List.take_range, hi]
    congr 1
    have : i < codomainLimit := by
      have := congrArg List.length his
      simp at this; omega
    omega
  refine ⟨i, msg, mid, ?_, ?_, hbad, htags, hmid⟩
  · have := congrArg List.length his
    simp at this; omega
  · intro j hj
    exact hpre j (by rw [hlen.2]; exact List.mem_range.2 hj)

theorem gapTail_nonempty (n : Nat) (e : Expr) (completed : Option Preimage) (rs0 rs : List (Nat × Nat))
    (h : gapTail n e completed rs0 = .ok rs) (h0 : ∀ r ∈ rs0, r.1 < r.2)
    (hcomp : ∀ pre, completed = some pre → ∀ k ∈ keys pre, 0 ≤ k) : ∀ r ∈ rs, r.1 < r.2 := by
  unfold gapTail at h
  split at h
  · cases completed with
    | none => simp only at h; cases h; exact h0
    | some pre =>
      simp only at h
      cases hper : period 32 e with
      | error ex => rw [hper] at h; cases h
      | ok per =>
        rw [hper] at h
        cases per with
        | none => simp only [Bool.false_eq_true, ↓reduceIte] at h; cases h; exact h0
        | some op =>
          obtain ⟨o, p⟩ := op
          simp only at h
          by_cases hsmall : o + p < (codomainLimit : Int)
          · simp only [hsmall, decide_true, ↓reduceIte] at h
            cases h
            exact scanKeys_nonempty n _ _ (fun i hi => hcomp pre rfl i ((mem_sortedKeys pre i).1 hi))
          · simp only [hsmall, decide_false, Bool.false_eq_true, ↓reduceIte] at h
            cases h; exact h0
  · cases h; exact h0

/-- every reported gap range is a non-empty range (so `format_range` is never applied to an empty one) -/
theorem gapRanges_nonempty (n : Nat) (e : Expr) (completed : Option Preimage) (rs : List (Nat × Nat))
    (h : gapRanges n e completed = .ok rs) (hcomp : ∀ pre, completed = some pre → ∀ k ∈ keys pre, 0 ≤ k) :
    ∀ r ∈ rs, r.1 < r.2 := by
  unfold gapRanges at h
  cases hcd : codomain 32 e with
  | error ex => rw [hcd] at h; cases h
  | ok cd =>
    rw [hcd] at h
    cases cd with
    | none => exact gapTail_nonempty n e completed [] rs h (by simp) hcomp
    | some xy =>
      obtain ⟨x, y⟩ := xy
      have hwf := I18n.Props.C05.codomain_interval_wf 32 e x y hcd
      exact gapTail_nonempty n e completed _ rs h (codomainRanges_nonempty x y n (by omega)) hcomp

/-- what a window that started with an empty preimage hands to the gap analysis -/
theorem completedOf_facts (n : Nat) (e : Expr) (lc : Option (Nat × Expr)) (hp : Bool) (ut : TagCall)
    (st0 st : WinState) (fin : WinEnd) (h0 : st0.pre = [])
    (hw : window n e lc hp ut (List.range codomainLimit) st0 = (st, fin)) :
    ∀ pre, completedOf st fin = some pre →
      (∀ i : Nat, i < 200 → ∃ v, evalAt 32 i e = .ok v ∧ v ∈ keys pre) ∧ (∀ k ∈ keys pre, 0 ≤ k) := by
  intro pre hpre
  cases fin with
  | completed =>
    simp only [completedOf, Option.some.injEq] at hpre
    subst hpre
    obtain ⟨hgood, hkeys, _⟩ := window_completed n e lc hp ut _ st0 st hw
    refine ⟨?_, ?_⟩
    · intro i hi
      have hmem : i ∈ List.range codomainLimit := List.mem_range.2 hi
      obtain ⟨v, hv, _, _⟩ := badMsg_none (hgood i hmem)
      exact ⟨v, hv, (hkeys v).2 (Or.inr ⟨i, hmem, hv⟩)⟩
    · intro k hk
      rcases (hkeys k).1 hk with h | ⟨i, hi, hv⟩
      · simp [keys, h0] at h
      · obtain ⟨v, hv', hv0, _⟩ := badMsg_none (hgood i hi)
        rw [hv] at hv'; cases hv'; exact hv0
  | stopped => simp [completedOf] at hpre
  | crashed ex => simp [completedOf] at hpre

theorem not_window_name_front (inp : Input) (pf : List Char) (n : Nat) (lj rj : List Char) (lcs : Option (List (Nat × Expr)))
    (mid : List TagCall) (hmid : ∀ t ∈ mid, t = unusualTag (hasPlurals inp) pf (hintOf inp)) :
    ∀ t ∈ tags0Of inp ++ junkTags lj rj ++ nplTags n (expectedOf inp) ++ (pickLc (unusualTag (hasPlurals inp) pf (hintOf inp)) lcs).1 ++ mid,
      ¬ isArithName t.name ∧ ¬ isCodomainName t.name := by
  intro t htm
  simp only [List.mem_append] at htm
  have hun : ¬ isArithName (unusualTag (hasPlurals inp) pf (hintOf inp)).name ∧ ¬ isCodomainName (unusualTag (hasPlurals inp) pf (hintOf inp)).name := by
    rcases name_unusualTag (hasPlurals inp) pf (hintOf inp) with h' | h' <;> (rw [h', isArithName, isCodomainName]; decide)
  rcases htm with (((h0 | hj) | hn) | hp) | hm
  · rcases name_tags0 h0 with h' | h' <;> (rw [h', isArithName, isCodomainName]; decide)
  · rcases mem_junkTags.1 hj with ⟨_, rfl⟩ | ⟨_, rfl⟩ <;> (simp only [isArithName, isCodomainName]; decide)
  · rw [name_npl hn, isArithName, isCodomainName]; decide
  · rw [mem_pickLc _ _ _ hp]; exact hun
  · rw [hmid t hm]; exact hun

/-- **C07, window and gap clauses on the whole method.**  For a header value that parses (registry total on the window):
    the report is `front ++ last ++ gaps` where `front` holds no arithmetic-error / codomain-error tag; `last` is empty iff every
    `i < 200` evaluates to a valid index, and otherwise is exactly the diagnostic of the LEAST bad `i` with its true outcome;
    `gaps` are the `f(x) != …` claims, each about a non-empty range none of whose members is produced by any `m < 2^32`. -/
theorem window_report' (inp : Input) (pf : List Char) (out : Output) (hv : headerValues inp = [pf]) (ht : inp.isTemplate = false)
    (n : Nat) (e : Expr) (lj rj : List Char) (hpf : parsePluralForms pf = .ok n e lj rj) (h : checkPlurals inp = .ok out)
    (hreg : RegistryClean inp) :
    ∃ front last rs, out.tags = front ++ last ++ gapTags (hasPlurals inp) rs ∧
      (∀ t ∈ front, ¬ isArithName t.name ∧ ¬ isCodomainName t.name) ∧
      (last = [] ↔ ∀ i, i < codomainLimit → badMsg n e i = none) ∧
      (∀ i msg, i < codomainLimit → (∀ j, j < i → badMsg n e j = none) → badMsg n e i = some msg →
        last = [⟨badTagName n e i (hasPlurals inp), [.safe msg]⟩]) ∧
      (∀ r ∈ rs, r.1 < r.2 ∧ ∀ k : Nat, r.1 ≤ k → k < r.2 → ∀ m : Nat, (m : Int) < 2 ^ 32 → evalAt 32 m e ≠ .ok (k : Int)) ∧
      (out.preimage ≠ none → last = [] ∧ rs = []) := by
  obtain ⟨lcs, st, fin, rs, hl, hw, hg, hout⟩ := report_ok_raw inp pf out hv ht n e lj rj hpf h
  have hlc := lcTotal_of_clean hreg hl (unusualTag (hasPlurals inp) pf (hintOf inp))
  have hfacts := completedOf_facts _ _ _ _ _ _ st fin rfl hw
  have hgaps : ∀ r ∈ rs, r.1 < r.2 ∧ ∀ k : Nat, r.1 ≤ k → k < r.2 → ∀ m : Nat, (m : Int) < 2 ^ 32 → evalAt 32 m e ≠ .ok (k : Int) := by
    intro r hr
    exact ⟨gapRanges_nonempty n e _ rs hg (fun pre hpre => (hfacts pre hpre).2) r hr,
           gapRanges_true n e _ rs hg hfacts r hr⟩
  cases fin with
  | crashed ex => exact absurd hw (window_nocrash _ _ _ _ _ _ _ _ _)
  | completed =>
    obtain ⟨mid, last, h1, h2, h3, _, _⟩ := window_shape _ _ _ _ _ _ _ _ _ hw
    obtain ⟨hgood, _, _⟩ := window_completed _ _ _ _ _ _ _ _ hw
    have hall : ∀ i, i < codomainLimit → badMsg n e i = none := fun i hi => hgood i (List.mem_range.2 hi)
    refine ⟨_ ++ mid, [], rs, ?_, not_window_name_front inp pf n lj rj lcs mid h2, ?_, ?_, hgaps, ?_⟩
    · rw [hout]; simp only [h1, h3 rfl, List.append_nil]
    · simp only [true_iff]; exact hall
    · intro i msg hi _ hbad; rw [hall i hi] at hbad; cases hbad
    · intro _; refine ⟨rfl, ?_⟩
      rw [hout] at *
      simp only at *
      cases hrs : rs with
      | nil => rfl
      | cons a b => simp [hrs] at *
  | stopped =>
    obtain ⟨i, msg, mid, hi, hleast, hbad, htags, hmid⟩ := window_stopped_least _ _ _ _ _ _ _ hlc hw
    refine ⟨_ ++ mid, [⟨badTagName n e i (hasPlurals inp), [.safe msg]⟩], rs, ?_, not_window_name_front inp pf n lj rj lcs mid hmid, ?_, ?_, hgaps, ?_⟩
    · rw [hout]; simp only [htags]
    · simp only [reduceCtorEq, false_iff]
      intro hall
      rw [hall i hi] at hbad; cases hbad
    · intro i' msg' hi' hleast' hbad'
      have hii : i = i' := by
        rcases Nat.lt_trichotomy i i' with hlt | heq | hgt
        · rw [hleast' i hlt] at hbad; cases hbad
        · exact heq
        · rw [hleast i' hgt] at hbad'; cases hbad'
      subst hii
      rw [hbad] at hbad'; cases hbad'; rfl
    · intro hpre
      rw [hout] at hpre
      simp [completedOf] at hpre

theorem expected_of_counts (inp : Input) (n : Nat) (hcount : ∀ j ∈ formCounts inp.msgs, j = n) :
    expectedOf inp = [] ∨ ∃ x, expectedOf inp = [(n, x)] := by
  have hspec := scanMsgs_spec inp.msgs false [] (by simp)
  cases hfc : formCounts inp.msgs with
  | nil => left; exact hspec.1.2 ⟨rfl, hfc⟩
  | cons a l =>
    right
    have : AllEq n (([] : List (Nat × List Char)).map (·.1) ++ formCounts inp.msgs) := by
      simp only [List.map_nil, List.nil_append]
      exact ⟨by rw [hfc]; simp, hcount⟩
    exact (hspec.2.1 n).2 this

theorem pick_of_registered {inp : Input} {n : Nat} {e : Expr} {lcs : Option (List (Nat × Expr))} (ut : TagCall)
    (hl : lcsOf inp n = .ok lcs)
    (hreg : inp.correct = none ∨ ∃ cs c lj' rj', inp.correct = some cs ∧ c ∈ cs ∧ parsePluralFormsStrict c = .ok n e lj' rj') :
    (pickLc ut lcs).1 = [] ∧ ((pickLc ut lcs).2 = none ∨ (pickLc ut lcs).2 = some (n, e)) := by
  rcases lcsOf_some hl with ⟨_, rfl⟩ | ⟨cs, r, hcs, hlc, rfl⟩
  · exact ⟨rfl, Or.inl rfl⟩
  · rcases hreg with hnone | ⟨cs', c, lj', rj', hcs', hc', hstrict⟩
    · rw [hnone] at hcs; cases hcs
    · rw [hcs'] at hcs; cases hcs
      have hmem := (localCorrect_spec n _ r hlc).2 c hc' e lj' rj' hstrict
      exact pickLc_of_mem ut r (n, e) hmem

/-- **C07, clean-declaration clause.**  One Plural-Forms field whose value is exactly a declaration (no junk) that is total on
    the window, in range and onto `{0..nplurals-1}`, with nplurals agreeing with the messages and the declaration being one
    of the registry's for the language (or no language): `check_plurals` emits NOTHING, and records the full preimage. -/
theorem clean_decl_silent' (inp : Input) (pf : List Char) (hpfs : inp.pluralForms = [pf]) (ht : inp.isTemplate = false)
    (n : Nat) (e : Expr) (hpf : parsePluralForms pf = .ok n e [] []) (hclean : CleanOnWindow n e)
    (hcount : ∀ j ∈ formCounts inp.msgs, j = n) (hparses : RegistryParses inp)
    (hreg : inp.correct = none ∨ ∃ cs c lj' rj', inp.correct = some cs ∧ c ∈ cs ∧ parsePluralFormsStrict c = .ok n e lj' rj') :
    ∃ pre, checkPlurals inp = .ok ⟨[], some pre⟩ ∧ ∀ k, k ∈ keys pre ↔ ∃ i : Nat, i < codomainLimit ∧ evalAt 32 i e = .ok k := by
  have hv : headerValues inp = [pf] := by simp [headerValues, hpfs]
  rw [checkPlurals_single inp pf hv ht, hpf]
  simp only [analyse_eq]
  -- the registry's declarations with this nplurals
  obtain ⟨lcs, hl⟩ : ∃ lcs, lcsOf inp n = .ok lcs := by
    unfold lcsOf
    cases hc : inp.correct with
    | none => exact ⟨none, rfl⟩
    | some cs =>
      obtain ⟨r, hr⟩ := hparses cs hc n
      exact ⟨some r, by simp [hr, Except.map]⟩
  rw [hl]
  simp only
  obtain ⟨hp1, hp2⟩ := pick_of_registered (unusualTag (hasPlurals inp) pf (hintOf inp)) hl hreg
  have hlc : LcTotal (pickLc (unusualTag (hasPlurals inp) pf (hintOf inp)) lcs).2 (List.range codomainLimit) := by
    intro ln le hlc i hi
    rcases hp2 with h' | h'
    · rw [h'] at hlc; cases hlc
    · rw [h'] at hlc; cases hlc
      obtain ⟨v, hv, _⟩ := hclean.total i (List.mem_range.1 hi)
      exact ⟨v, hv⟩
  -- nothing before the window
  have htags0 : tags0Of inp = [] := by
    have hdup : dupTags inp = [] := by simp [dupTags, hpfs]
    have hinc : inconsistentTags (expectedOf inp) = [] := by
      rcases expected_of_counts inp n hcount with h' | ⟨x, h'⟩ <;> simp [inconsistentTags, h']
    simp [tags0Of, hdup, hinc]
  have hnpl : nplTags n (expectedOf inp) = [] := by
    rcases expected_of_counts inp n hcount with h' | ⟨x, h'⟩ <;> simp [nplTags, h']
  obtain ⟨st, mid, hw, htags, _, hmid0, hkeys⟩ := window_clean hclean (pickLc (unusualTag (hasPlurals inp) pf (hintOf inp)) lcs).2
    (hasPlurals inp) (unusualTag (hasPlurals inp) pf (hintOf inp))
    ⟨tags0Of inp ++ junkTags [] [] ++ nplTags n (expectedOf inp) ++ (pickLc (unusualTag (hasPlurals inp) pf (hintOf inp)) lcs).1, [], false⟩ rfl hlc
  have hmid : mid = [] := hmid0 (hp2.imp id (fun h => ⟨n, h⟩))
  rw [hw]
  simp only [completedOf, gapRanges_clean hclean st.pre hkeys]
  refine ⟨st.pre, ?_, hkeys⟩
  simp [htags, hmid, htags0, hnpl, hp1, junkTags, gapTags]

end I18n.CheckPlurals
