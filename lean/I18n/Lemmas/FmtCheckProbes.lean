import I18n.Model.FmtCheck
import I18n.Generated.FmtCheckTables
/-!
# The model re-computes, inside the kernel, every probe of the live checkers (`Generated.FmtCheckTables`)
-/
namespace I18n.FmtCheck
open I18n I18n.FmtSig I18n.Generated

set_option maxRecDepth 1000000

/-- tag name and integer extras -/
def tagSummary (t : TagCall) : String × List Int :=
  (t.name, t.extras.filterMap fun x => match x with | .int n => some n | _ => none)

def summarize : Except Py.Exc (List TagCall) → Option (List (String × List Int))
  | .ok ts => some (ts.map tagSummary)
  | .error _ => none

def probePfx : Extra := .safe "msgid x:".toList

def lastIntProbe (s : String) (n : Nat) : Int :=
  match cParse s.toList with
  | .ok f =>
    match getLastIntConv f n with
    | .ok (some c) => c
    | .ok none => -1
    | .error _ => -2
  | _ => -3

def cArgsProbe (a b : String) (ok : Bool) : Option (List (String × List Int)) :=
  match cParse a.toList, cParse b.toList with
  | .ok x, .ok y => summarize (checkArgsC probePfx "msgid".toList x "msgstr".toList y ok)
  | _, _ => none

def pyArgsProbe (a b : String) (ok : Bool) : Option (List (String × List Int)) :=
  match pyParse a.toList, pyParse b.toList with
  | .ok x, .ok y => summarize (checkArgsPython probePfx "msgid".toList x "msgstr".toList y ok)
  | _, _ => none

theorem checkerNames_pin : FmtCheckTables.checkerNames.map String.toList = checkerNames := by decide +kernel

theorem lastInt_probes_pin :
    FmtCheckTables.lastIntProbes.all (fun p => lastIntProbe p.1 p.2.1 == p.2.2) = true := by decide +kernel

theorem cArgs_probes_pin :
    FmtCheckTables.cArgsProbes.all (fun p => cArgsProbe p.1 p.2.1 p.2.2.1 == some p.2.2.2) = true := by decide +kernel

theorem pyArgs_probes_pin :
    FmtCheckTables.pyArgsProbes.all (fun p => pyArgsProbe p.1 p.2.1 p.2.2.1 == some p.2.2.2) = true := by decide +kernel

theorem braceArgs_probes_pin :
    FmtCheckTables.braceArgsProbes.all (fun p =>
      summarize (checkArgsPyBrace probePfx "msgid".toList p.1 "msgstr".toList p.2.1 p.2.2.1) == some p.2.2.2) = true := by decide +kernel

theorem perlArgs_probes_pin :
    FmtCheckTables.perlArgsProbes.all (fun p =>
      summarize (checkArgsPerlBrace probePfx "msgid".toList p.1 "msgstr".toList p.2.1 p.2.2.1) == some p.2.2.2) = true := by decide +kernel

/-! ## the composition with the parser models of C13 on the probed strings -/

def sigArgsOf : ParseOutcome PyBraceSig → Option (List (BKey × List TySet) × Nat)
  | .ok f => some (f.args, f.nitems)
  | _ => none

def perlArgsOf : ParseOutcome PerlBraceSig → Option (List (List Char) × Nat)
  | .ok f => some (sortBy strLt f.args, f.nitems)
  | _ => none

/-- every second row (the two tolerance settings share the signatures) -/
def evens {α : Type} : List α → List α
  | a :: _ :: rest => a :: evens rest
  | l => l

/-- **the python-brace parser model (C13), run in the kernel on the probed strings, yields — through `braceSigOf` — exactly the
    signatures the translator extracted from the real parser objects**: keys, dict order, type sets of every use, `len` -/
theorem braceStrings_probes_pin :
    ((FmtCheckTables.braceArgsStrings.zip (evens FmtCheckTables.braceArgsProbes)).all fun p =>
      sigArgsOf (pyBraceParse p.1.1.toList) == some (p.2.1.args, p.2.1.nitems) &&
      sigArgsOf (pyBraceParse p.1.2.toList) == some (p.2.2.1.args, p.2.2.1.nitems)) = true ∧
    FmtCheckTables.braceArgsStrings.length * 2 = FmtCheckTables.braceArgsProbes.length := by decide +kernel

theorem perlStrings_probes_pin :
    ((FmtCheckTables.perlArgsStrings.zip (evens FmtCheckTables.perlArgsProbes)).all fun p =>
      perlArgsOf (perlBraceParse p.1.1.toList) == some (sortBy strLt p.2.1.args, p.2.1.nitems) &&
      perlArgsOf (perlBraceParse p.1.2.toList) == some (sortBy strLt p.2.2.1.args, p.2.2.1.nitems)) = true ∧
    FmtCheckTables.perlArgsStrings.length * 2 = FmtCheckTables.perlArgsProbes.length := by decide +kernel

end I18n.FmtCheck
