import I18n.Model.FmtCheck
import I18n.Generated.FmtCheckTables
/-!
# The model re-computes, inside the kernel, every probe of the live checkers (`Generated.FmtCheckTables`)
-/
namespace I18n.FmtCheck
open I18n I18n.FmtSig I18n.Generated

set_option maxRecDepth 1000000

/-- tag name and integer extras -/
def tagSummary (t : TagCall) : String × List Int :=
  (t.name, t.extras.filterMap fun x => match x with | .int n => some n | _ => none)

def summarize : Except Py.Exc (List TagCall) → Option (List (String × List Int))
  | .ok ts => some (ts.map tagSummary)
  | .error _ => none

def probePfx : Extra := .safe "msgid x:".toList

def lastIntProbe (s : String) (n : Nat) : Int :=
  match cParse s.toList with
  | .ok f =>
    match getLastIntConv f n with
    | .ok (some c) => c
    | .ok none => -1
    | .error _ => -2
  | _ => -3

def cArgsProbe (a b : String) (ok : Bool) : Option (List (String × List Int)) :=
  match cParse a.toList, cParse b.toList with
  | .ok x, .ok y => summarize (checkArgsC probePfx "msgid".toList x "msgstr".toList y ok)
  | _, _ => none

def pyArgsProbe (a b : String) (ok : Bool) : Option (List (String × List Int)) :=
  match pyParse a.toList, pyParse b.toList with
  | .ok x, .ok y => summarize (checkArgsPython probePfx "msgid".toList x "msgstr".toList y ok)
  | _, _ => none

theorem checkerNames_pin : FmtCheckTables.checkerNames.map String.toList = checkerNames := by decide +kernel

theorem lastInt_probes_pin :
    FmtCheckTables.lastIntProbes.all (fun p => lastIntProbe p.1 p.2.1 == p.2.2) = true := by decide +kernel

theorem cArgs_probes_pin :
    FmtCheckTables.cArgsProbes.all (fun p => cArgsProbe p.1 p.2.1 p.2.2.1 == some p.2.2.2) = true := by decide +kernel

theorem pyArgs_probes_pin :
    FmtCheckTables.pyArgsProbes.all (fun p => pyArgsProbe p.1 p.2.1 p.2.2.1 == some p.2.2.2) = true := by decide +kernel

theorem braceArgs_probes_pin :
    FmtCheckTables.braceArgsProbes.all (fun p =>
      summarize (checkArgsPyBrace probePfx "msgid".toList p.1 "msgstr".toList p.2.1 p.2.2.1) == some p.2.2.2) = true := by decide +kernel

theorem perlArgs_probes_pin :
    FmtCheckTables.perlArgsProbes.all (fun p =>
      summarize (checkArgsPerlBrace probePfx "msgid".toList p.1 "msgstr".toList p.2.1 p.2.2.1) == some p.2.2.2) = true := by decide +kernel

end I18n.FmtCheck
