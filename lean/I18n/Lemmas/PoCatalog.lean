import I18n.Lemmas.PoFsm
/-! The message lines of an entry, entry after entry: `Po.parseLoop` rebuilds the catalog. -/
namespace I18n.Lemmas.PoCatalog
open I18n I18n.Po I18n.Spec.PoSpelling I18n.Lemmas.PoKit I18n.Lemmas.PoLines I18n.Lemmas.PoFsm
open I18n.Generated.PolibFsm (St Sym Handler)

theorem dictSet_fresh (k : Nat) (v : Text) (d : List (Nat × Text)) (h : ∀ kv ∈ d, kv.1 ≠ k) : dictSet k v d = d ++ [(k, v)] := by
  induction d with
  | nil => rfl
  | cons kv rest ih =>
    obtain ⟨k', v'⟩ := kv
    have hk : k' ≠ k := h (k', v') (by simp)
    simp [dictSet, hk, ih (fun x hx => h x (by simp [hx]))]

section
variable (E : Codec) (env : Env) (hsp : env.isSpace = pyIsSpace) (hdec : env.decimal = pyDecimal) (enc : Bytes) (hE : CodecOk env enc E)
include hsp hdec hE

/-- the `msgstr[j] …` blocks, `j` counting up -/
theorem forms_block (pre : Prefix) (hpre : MsgPrefix pre) (forms : List StrSp) (hv : ∀ x ∈ forms, x.Valid E)
    (j : Nat) (hj : j + forms.length ≤ 10) (n : Nat) (s : PState) (htr : transition .mx s.state = some .mx)
    (hD : ∀ kv ∈ s.cur.msgstrPlural, kv.1 < j) :
    ∃ s', parseLoop env enc n (formsLines pre j forms) s = .ok s' ∧ s'.entries = s.entries ∧ s'.header = s.header ∧
      s'.cur = { s.cur with msgstrPlural := s.cur.msgstrPlural ++ formsDict j forms } ∧
      (forms ≠ [] → s'.state = .mx) ∧ (forms = [] → s' = s) ∧
      (∀ x, forms.getLast? = some x → x.EndsReal → TokOk s') := by
  induction forms generalizing j n s with
  | nil => exact ⟨s, rfl, rfl, rfl, by simp [formsDict], by simp, fun _ => rfl, by simp⟩
  | cons x xs ih =>
    have hj' : j < 10 := by simp at hj; omega
    obtain ⟨s1, h1, hs1, htok1⟩ := mx_str E env hsp enc hE hdec pre hpre ⟨j, hj'⟩ x (hv x (by simp)) n s htr
    obtain ⟨e1, e2, e3, e4, e5⟩ := hs1
    have hfresh : dictSet j x.text s.cur.msgstrPlural = s.cur.msgstrPlural ++ [(j, x.text)] :=
      dictSet_fresh j x.text _ (fun kv hkv => Nat.ne_of_lt (hD kv hkv))
    obtain ⟨s2, h2, f1, f2, f3, f4, f5, f6⟩ := ih (fun y hy => hv y (by simp [hy])) (j + 1) (by simp at hj ⊢; omega)
      (n + (x.lines pre (mxKw j)).length) s1 (by rw [e4]; rfl)
      (by
        intro kv hkv
        rw [e3] at hkv
        simp only [mk, hfresh, List.mem_append, List.mem_singleton] at hkv
        rcases hkv with h | h
        · exact Nat.lt_succ_of_lt (hD kv h)
        · rw [h]; exact Nat.lt_succ_self j)
    refine ⟨s2, ?_, by rw [f1, e1]; rfl, by rw [f2, e2]; rfl, ?_, fun _ => ?_, by simp, ?_⟩
    · simp only [formsLines]
      rw [parseLoop_append, h1]
      exact h2
    · rw [f3, e3]
      simp [mk, hfresh, formsDict]
    · cases xs with
      | nil => rw [f5 rfl, e4]; rfl
      | cons y ys => exact f4 (by simp)
    · intro z hz hend
      cases xs with
      | nil =>
        simp at hz; subst hz
        rw [f5 rfl]; exact htok1 hend
      | cons y ys => exact f6 z (by simpa [List.getLast?_cons_cons] using hz) hend

omit hsp hdec hE in
theorem ready_congr {s : PState} {es : List Entry} {c c' : Entry} (h : ∀ ln, { c with linenum := ln } = { c' with linenum := ln })
    (hr : Ready s es c) : Ready s es c' := by
  intro n
  obtain ⟨h1, h2, h3, h4, ln, h5⟩ := hr n
  exact ⟨h1, h2, h3, h4, ln, by rw [h5, h ln]⟩

omit hsp hdec hE in
theorem msgPrefix_of_valid (m : MsgSp) (hm : m.Valid E) : MsgPrefix m.pre := hm.1

/-- the message lines of one entry, from any state in which `msgctxt`/`msgid` may come next -/
theorem msg_phase (m : MsgSp) (hm : m.Valid E) (n : Nat) (s : PState) (es : List Entry) (c : Entry) (hr : Ready s es c)
    (hc : c.msgctxt = none ∧ c.msgidPlural = none ∧ c.msgstr = none ∧ c.msgstrPlural = [])
    (htr : transition .ct s.state = some .ct ∧ transition .mi s.state = some .mi) :
    ∃ s' ln, parseLoop env enc n m.lines s = .ok s' ∧ s'.entries = es ∧ s'.header = s.header ∧
      s'.cur = { m.entry c with linenum := ln } ∧ (s'.state = .ms ∨ s'.state = .mx) ∧ (m.EndsReal → TokOk s') := by
  have hpre : MsgPrefix m.pre := hm.1
  obtain ⟨mpre, mctxt, mid, mbody⟩ := m
  -- msgctxt
  have hA : ∃ sA, parseLoop env enc n (ctxtLines mpre mctxt) s = .ok sA ∧
      Ready sA es { c with msgctxt := mctxt.map StrSp.text } ∧ transition .mi sA.state = some .mi ∧ sA.header = s.header := by
    cases mctxt with
    | none =>
      refine ⟨s, by simp [ctxtLines, parseLoop], ready_congr (fun ln => ?_) hr, htr.2, rfl⟩
      simp [hc.1]
    | some cx =>
      obtain ⟨sA, ln, h1, hs⟩ := ct_str E env hsp enc hE mpre hpre cx (hm.2.1 cx rfl) n s es c hr htr.1
      have hrA := ready_of_same E env hsp enc hE hs (by simp)
      refine ⟨sA, h1, ready_congr (fun _ => rfl) hrA, by rw [hs.2.2.2.1]; rfl, hs.2.1⟩
  obtain ⟨sA, hA1, hA2, hA3, hA4⟩ := hA
  -- msgid
  obtain ⟨sB, lnB, hB1, hB2⟩ := mi_str E env hsp enc hE mpre hpre mid hm.2.2.1
    (n + (ctxtLines mpre mctxt).length) sA es _ hA2 hA3
  obtain ⟨b1, b2, b3, b4, b5⟩ := hB2
  -- body
  cases mbody with
  | singular x =>
    obtain ⟨sC, hC1, hC2, hC3⟩ := ms_str E env hsp enc hE mpre hpre x hm.2.2.2
      (n + (ctxtLines mpre mctxt).length + (mid.lines mpre "msgid".toList).length)
      sB (by rw [b4]; rfl)
    obtain ⟨c1, c2, c3, c4, c5⟩ := hC2
    refine ⟨sC, lnB, ?_, by rw [c1, b1]; rfl, by rw [c2, b2, hA4]; rfl, ?_, Or.inl c4, hC3⟩
    · simp only [MsgSp.lines, bodyLines]
      rw [parseLoop_append, hA1]
      simp only
      rw [parseLoop_append, hB1]
      exact hC1
    · rw [c3, b3]
      simp [mk, MsgSp.entry, hc.2.1, hc.2.2.2]
  | plural p forms =>
    obtain ⟨hp, hne, hlen, hfv⟩ := hm.2.2.2
    obtain ⟨sC, hC1, hC2⟩ := mp_str E env hsp enc hE mpre hpre p hp
      (n + (ctxtLines mpre mctxt).length + (mid.lines mpre "msgid".toList).length)
      sB (by rw [b4]; rfl)
    obtain ⟨c1, c2, c3, c4, c5⟩ := hC2
    obtain ⟨sD, hD1, d1, d2, d3, d4, _, d6⟩ := forms_block E env hsp hdec enc hE mpre hpre forms hfv 0 (by omega)
      (n + (ctxtLines mpre mctxt).length + (mid.lines mpre "msgid".toList).length
        + (p.lines mpre "msgid_plural".toList).length)
      sC (by rw [c4]; rfl) (by rw [c3, b3]; simp [mk, hc.2.2.2])
    refine ⟨sD, lnB, ?_, by rw [d1, c1, b1]; rfl, by rw [d2, c2, b2, hA4]; rfl, ?_, Or.inr (d4 hne), ?_⟩
    · simp only [MsgSp.lines, bodyLines]
      rw [parseLoop_append, hA1]
      simp only
      rw [parseLoop_append, hB1]
      simp only
      rw [parseLoop_append, hC1]
      exact hD1
    · rw [d3, c3, b3]
      simp [mk, MsgSp.entry, hc.2.2.1, hc.2.2.2]
    · intro hend
      obtain ⟨x, hx⟩ : ∃ x, forms.getLast? = some x := by
        cases h : forms.getLast? with
        | none => simp [List.getLast?_eq_none_iff] at h; exact absurd h hne
        | some x => exact ⟨x, rfl⟩
      exact d6 x hx (hend x hx)

/-- an entry without the line number polib records for it -/
def content (e : Entry) : Entry := { e with linenum := 0 }

def Done (s : PState) : Prop := s.state = .ms ∨ s.state = .mx
def Fresh (s : PState) : Prop := (s.state = .st ∨ s.state = .he) ∧ s.cur = {}

/-- the entries the next flush will have produced -/
def pending (s : PState) : List Entry := if s.state = .ms ∨ s.state = .mx then s.entries ++ [s.cur] else s.entries

omit hsp hdec hE in
theorem pending_done (s : PState) (h : Done s) : pending s = s.entries ++ [s.cur] := by
  have h' : s.state = .ms ∨ s.state = .mx := h
  unfold pending; rw [if_pos h']

omit hsp hdec hE in
theorem ready_start (s : PState) (h : Done s ∨ Fresh s) :
    Ready s (pending s) {} ∧ transition .ct s.state = some .ct ∧ transition .mi s.state = some .mi := by
  rcases h with h | h
  · refine ⟨by rw [pending_done s h]; exact ready_done s h, ?_, ?_⟩ <;> rcases h with h | h <;> rw [h] <;> rfl
  · have hn : ¬ (s.state = .ms ∨ s.state = .mx) := by rcases h.1 with h | h <;> simp [h]
    refine ⟨by simpa [pending, hn] using ready_fresh s h.1 h.2, ?_, ?_⟩ <;> rcases h.1 with h | h <;> rw [h] <;> rfl

/-- entry after entry -/
theorem msgs_loop (ms : List MsgSp) (hv : ∀ m ∈ ms, m.Valid E) (n : Nat) (s : PState) (hs : Done s ∨ Fresh s) :
    ∃ s', parseLoop env enc n (ms.flatMap MsgSp.lines) s = .ok s' ∧
      (ms ≠ [] → Done s' ∧ s'.header = s.header ∧
        (s'.entries ++ [s'.cur]).map content = (pending s).map content ++ ms.map (fun m => m.entry {}) ∧
        (∀ m, ms.getLast? = some m → m.EndsReal → TokOk s')) := by
  induction ms generalizing n s with
  | nil => exact ⟨s, rfl, by simp⟩
  | cons m rest ih =>
    obtain ⟨hr, ht1, ht2⟩ := ready_start s hs
    obtain ⟨s1, ln, h1, e1, e2, e3, e4, e5⟩ := msg_phase E env hsp hdec enc hE m (hv m (by simp)) n s (pending s) {} hr
      ⟨rfl, rfl, rfl, rfl⟩ ⟨ht1, ht2⟩
    obtain ⟨s2, h2, hrest⟩ := ih (fun x hx => hv x (by simp [hx])) (n + m.lines.length) s1 (Or.inl e4)
    refine ⟨s2, ?_, fun _ => ?_⟩
    · simp only [List.flatMap_cons]
      rw [parseLoop_append, h1]
      exact h2
    · have hp1 : (pending s1).map content = (pending s).map content ++ [m.entry {}] := by
        have : pending s1 = s1.entries ++ [s1.cur] := pending_done s1 e4
        rw [this, e1, e3]
        simp [content, MsgSp.entry]
      cases rest with
      | nil =>
        have e : s2 = s1 := parseLoop_nil_ok env enc _ s1 s2 (by simpa using h2)
        subst e
        refine ⟨e4, e2, ?_, ?_⟩
        · have : pending s2 = s2.entries ++ [s2.cur] := pending_done s2 e4
          rw [← this, hp1]; simp
        · intro m' hm' hend; simp at hm'; subst hm'; exact e5 hend
      | cons y ys =>
        obtain ⟨d1, d2, d3, d4⟩ := hrest (by simp)
        refine ⟨d1, by rw [d2, e2], ?_, ?_⟩
        · rw [d3, hp1]; simp
        · intro m' hm' hend
          exact d4 m' (by simpa [List.getLast?_cons_cons] using hm') hend

omit hsp hdec hE in
theorem finish_tokOk (s : PState) (h : TokOk s) : finish s = { header := s.header, entries := s.entries ++ [s.cur] } := by
  obtain ⟨t, ht, hh⟩ := h
  have : startsWith ['#'] t = false := by
    cases t with
    | nil => rfl
    | cons c r => simp at hh; simp [startsWith, hh]
  simp [finish, ht, this]

/-- the lines of a catalog without comment lines: leading noise, then the message lines of each entry -/
theorem parse_msgs (noise0 : List Noise) (hn : ∀ z ∈ noise0, z.Valid) (ms : List MsgSp) (hne : ms ≠ [])
    (hv : ∀ m ∈ ms, m.Valid E) (hend : ∀ m, ms.getLast? = some m → m.EndsReal) :
    ∃ f, parseLines env enc (noise0.map Noise.render ++ ms.flatMap MsgSp.lines) = .ok f ∧ f.header = [] ∧
      f.entries.map content = ms.map (fun m => m.entry {}) := by
  obtain ⟨s0, h0, hs0⟩ := noise_loop env hsp enc noise0 hn 0 {}
  have hfresh : Fresh s0 := ⟨Or.inl (by rw [← hs0.2.2.2.1]; rfl), by rw [← hs0.2.2.1]⟩
  obtain ⟨s1, h1, hrest⟩ := msgs_loop E env hsp hdec enc hE ms hv (0 + (noise0.map Noise.render).length) s0 (Or.inr hfresh)
  obtain ⟨d1, d2, d3, d4⟩ := hrest hne
  obtain ⟨m, hm⟩ : ∃ m, ms.getLast? = some m := by
    cases h : ms.getLast? with
    | none => simp [List.getLast?_eq_none_iff] at h; exact absurd h hne
    | some m => exact ⟨m, rfl⟩
  have htok := d4 m hm (hend m hm)
  refine ⟨finish s1, ?_, ?_, ?_⟩
  · simp only [parseLines]
    rw [parseLoop_append, h0]
    simp only
    rw [h1]
  · rw [finish_tokOk s1 htok]
    show s1.header = []
    rw [d2, ← hs0.2.1]
  · rw [finish_tokOk s1 htok]
    show (s1.entries ++ [s1.cur]).map content = _
    have hp : pending s0 = [] := by
      have hn : ¬ (s0.state = .ms ∨ s0.state = .mx) := by rcases hfresh.1 with h | h <;> simp [h]
      simp [pending, hn, ← hs0.1]
    rw [d3, hp]; simp

end

end I18n.Lemmas.PoCatalog
