import I18n.Lemmas.CFmtScan
import I18n.Lemmas.CFmtGlobal
/-!
# `parseW false` against `Spec.Printf.Valid` / `signature`; the errors it can raise
-/
namespace I18n.CFmt
open I18n.Spec.Printf

/-! ## argument numbers are positive -/

theorem idxValue_pos {idx : Option (List Char)} (h : IdxInRange idx) : ∀ i, idxValue idx = some i → 1 ≤ i := by
  cases idx with
  | none => intro i hi; cases hi
  | some ds => intro i hi; simp only [idxValue, Option.some.injEq] at hi; subst hi; exact h.1

theorem refs_idx_pos {d : Directive} (hv : ValidDirective d) (p : Nat) :
    ∀ r ∈ d.refs p, ∀ i, r.idx = some i → 1 ≤ i := by
  intro r hr i hi
  rw [refs_eq] at hr
  simp only [List.mem_append] at hr
  rcases hr with hr | hr | hr
  · cases hw : d.width with
    | none => simp [widthRefs, hw] at hr
    | num ds => simp [widthRefs, hw] at hr
    | star idx =>
      simp only [widthRefs, hw, List.mem_singleton] at hr
      subst hr
      have := hv.width
      rw [hw] at this
      exact idxValue_pos this.1 i hi
  · cases hp : d.prec with
    | none => simp [precRefs, hp] at hr
    | num ds => simp [precRefs, hp] at hr
    | star idx =>
      simp only [precRefs, hp, List.mem_singleton] at hr
      subst hr
      have := hv.prec
      rw [hp] at this
      exact idxValue_pos this.1 i hi
  · simp only [convRefs] at hr
    split at hr
    · simp only [List.mem_singleton] at hr
      subst hr
      exact idxValue_pos hv.indexRange i hi
    · cases hr

theorem refsFrom_idx_pos : ∀ (items : List Item) (k : Nat), AllValid items →
    ∀ r ∈ refsFrom k items, ∀ i, r.idx = some i → 1 ≤ i
  | [], _, _ => by simp [refsFrom]
  | .lit _ :: rest, k, hv => by
    simp only [refsFrom]
    exact refsFrom_idx_pos rest (k + 1) (fun d hd => hv d (by simpa [dirs] using hd))
  | .dir d :: rest, k, hv => by
    simp only [refsFrom, List.mem_append]
    rintro r (hr | hr)
    · exact refs_idx_pos (hv d (by simp [dirs])).2 k r hr
    · exact refsFrom_idx_pos rest (k + 1) (fun d' hd' => hv d' (by simp [dirs, hd'])) r hr

theorem positionsFrom_ge : ∀ (rs : List Ref) (k : Nat), (∀ r ∈ rs, ∀ i, r.idx = some i → 1 ≤ i) → 1 ≤ k →
    ∀ p ∈ positionsFrom k rs, 1 ≤ p.1
  | [], _, _, _ => by simp [positionsFrom]
  | r :: rs, k, h, hk => by
    simp only [positionsFrom, List.mem_cons, forall_eq_or_imp]
    refine ⟨?_, positionsFrom_ge rs (k + 1) (fun r' hr' => h r' (by simp [hr'])) (by omega)⟩
    cases hi : r.idx with
    | none => exact hk
    | some i => exact h r (by simp) i hi

/-! ## success -/

theorem St.init_nitems : St.init.nitems = 0 := rfl

theorem signatureOf_eq {L : List (Nat × Entry)} {k : Nat} (hk : ∀ j, HasKey L j ↔ 1 ≤ j ∧ j < 1 + k) :
    (List.range k).map (fun t => usesOf L (1 + t)) = signatureOf L := by
  unfold signatureOf
  rw [gapfree_argCount hk]
  apply List.map_congr_left
  intro t _
  rw [Nat.add_comm]

theorem parseFalse_sound {s : List Char} {r : Result} (h : parseW false s = .ok r) :
    ∃ items, render items = s ∧ ItemsWf items ∧ AllValid items ∧ GlobalValid (refs items) ∧
      r.arguments = signature items := by
  unfold parseW at h
  generalize hsc : scan s = sc at h
  obtain ⟨items, complete⟩ := sc
  simp only at h
  obtain ⟨hwf, rest, hs, hcomp⟩ := scan_sound hsc
  cases hst : steps false items St.init with
  | error e => rw [hst] at h; cases h
  | ok st =>
    rw [hst] at h
    simp only at h
    cases complete with
    | false => simp at h
    | true =>
      simp only [Bool.not_true, Bool.false_eq_true, if_false] at h
      have hrest := hcomp rfl
      subst hrest
      obtain ⟨hv, st1, ha, rfl⟩ := (steps_ok_iff items St.init st hwf).1 hst
      rw [St.init_nitems] at ha
      obtain ⟨i1, i2, _⟩ := addAll_init (refs items)
      have hmap : st1.map = positions (refs items) := i1 st1 ha
      obtain ⟨hnum, hrange⟩ := i2.1 ⟨st1, ha⟩
      have hbounds : ∀ p ∈ positions (refs items), 1 ≤ p.1 ∧ p.1 < 1 + Generated.CFormatTables.NL_ARGMAX := by
        intro p hp
        have h1 := positionsFrom_ge (refs items) 1 (refsFrom_idx_pos items 0 hv) (Nat.le_refl _) p hp
        have h2 := hrange p hp
        rw [nl_argmax_pin]
        omega
      obtain ⟨cA, _⟩ := collect_spec Generated.CFormatTables.NL_ARGMAX 1 (positions (refs items)) hbounds
      simp only [setN_map, hmap] at h
      cases hc : collect Generated.CFormatTables.NL_ARGMAX 1 (positions (refs items)) with
      | error e => rw [hc] at h; cases h
      | ok args =>
        rw [hc] at h
        simp only at h
        obtain ⟨k, hk, rfl⟩ := (cA args).1 hc
        split at h
        · rename_i hall
          cases h
          refine ⟨items, by simpa using hs.symm, hwf, hv, ⟨hnum, hrange, (gapFree_iff _).2 ⟨k, hk⟩, (allSameType_iff hk).1 hall⟩, ?_⟩
          exact signatureOf_eq hk
        · cases h

theorem parseFalse_complete {items : List Item} (hwf : ItemsWf items) (hv : AllValid items)
    (hg : GlobalValid (refs items)) :
    ∃ r, parseW false (render items) = .ok r ∧ r.arguments = signature items := by
  obtain ⟨i1, i2, _⟩ := addAll_init (refs items)
  obtain ⟨st1, ha⟩ := i2.2 ⟨hg.numbering, hg.range⟩
  have hmap : st1.map = positions (refs items) := i1 st1 ha
  have hst : steps false items St.init = .ok (setN (St.init.nitems + items.length) st1) :=
    (steps_ok_iff items St.init _ hwf).2 ⟨hv, st1, by rw [St.init_nitems]; exact ha, rfl⟩
  have hbounds : ∀ p ∈ positions (refs items), 1 ≤ p.1 ∧ p.1 < 1 + Generated.CFormatTables.NL_ARGMAX := by
    intro p hp
    have h1 := positionsFrom_ge (refs items) 1 (refsFrom_idx_pos items 0 hv) (Nat.le_refl _) p hp
    have h2 := hg.range p hp
    rw [nl_argmax_pin]
    omega
  obtain ⟨cA, _⟩ := collect_spec Generated.CFormatTables.NL_ARGMAX 1 (positions (refs items)) hbounds
  obtain ⟨k, hk⟩ := (gapFree_iff _).1 hg.gapFree
  have hc := (cA _).2 ⟨k, hk, rfl⟩
  have hall := (allSameType_iff hk).2 hg.oneType
  refine ⟨⟨signature items, st1.warnings, St.init.nitems + items.length⟩, ?_, rfl⟩
  unfold parseW
  rw [scan_complete hwf]
  simp only [hst, setN_map, hmap, hc, Bool.not_true, Bool.false_eq_true, if_false, hall, if_true]
  simp only [signature, signatureOf_eq hk]
  rfl


/-! ## failure: only the module's own errors, unless `int()` refuses a numeral -/

theorem flagLoop_false_error (flags : List Char) (conv : Char) : ∀ (fs : List Char) (st : St) (e : CErr),
    flagLoop false flags conv fs st = .error e → ∃ f ∈ fs, flagErr f conv = some e
  | [], st, e, h => by cases h
  | f :: fs, st, e, h => by
    simp only [flagLoop, warn_false, ite_self] at h
    cases hf : flagErr f conv with
    | some e' =>
      rw [hf] at h
      simp only [Except.error.injEq] at h
      exact ⟨f, by simp, by rw [hf, h]⟩
    | none =>
      rw [hf] at h
      obtain ⟨f', hf', he⟩ := flagLoop_false_error flags conv fs st e h
      exact ⟨f', by simp [hf'], he⟩

theorem checkFlags_false_error {st : St} {flags : List Char} {conv : Char} {e : CErr}
    (hfl : ∀ f ∈ flags, f ∈ flagChars) (hc : conv ∈ convChars)
    (h : checkFlags false st flags conv = .error e) : e = .FlagError := by
  unfold checkFlags at h
  cases hl : flagLoop false flags conv (distinct flags) st with
  | ok st1 => rw [hl] at h; cases h
  | error e' =>
    rw [hl] at h
    simp only [Except.error.injEq] at h
    subst h
    obtain ⟨f, hf, he⟩ := flagLoop_false_error flags conv _ st _ hl
    have := (flagErr_spec f (hfl f (mem_distinct.1 hf)) conv hc).2
    rw [he] at this
    rcases this with h | h
    · cases h
    · exact (Option.some.inj h)

/-- the outcome classes of a failing stage -/
def Blame (short : Prop) (e : CErr) : Prop := e.own = true ∨ (e = .crash .ValueError ∧ ¬ short)

theorem addArgument_error_own {pre : List Ref} {st : St} (hR : Reach pre st) {n : Option Nat} {v : Entry} {e : CErr}
    (h : addArgument st n v = .error e) : e.own = true := by
  rcases (addArgument_reach hR ⟨n, v⟩).2.2 e h with rfl | rfl <;> rfl

theorem optIndex_blame {idx : Option (List Char)} {e : CErr} (h : optIndex idx = .error e) : Blame (IdxShort idx) e := by
  rcases optIndex_error h with rfl | ⟨rfl, hs⟩
  · exact Or.inl rfl
  · exact Or.inr ⟨rfl, hs⟩

theorem doWidth_error {pre : List Ref} {st : St} (hR : Reach pre st) {w : Width} {conv : Char} {parent : Nat} {e : CErr}
    (h : doWidth st w conv parent = .error e) : Blame (WidthShort w) e := by
  cases w with
  | none => simp [doWidth] at h
  | num ds =>
    simp only [doWidth, pyInt_eq] at h
    by_cases hl : IntFits ds.length
    · simp only [hl, if_true] at h
      split at h
      · cases h; exact Or.inl rfl
      · split at h
        · cases h; exact Or.inl rfl
        · cases h
    · simp only [hl, if_false, Except.error.injEq] at h
      exact Or.inr ⟨h.symm, hl⟩
  | star idx =>
    simp only [doWidth] at h
    cases ho : optIndex idx with
    | error e' => rw [ho] at h; cases h; exact optIndex_blame ho
    | ok i =>
      rw [ho] at h
      simp only at h
      cases ha : addArgument st i ⟨.width, Generated.CFormatTables.variableWidthType, parent⟩ with
      | error e' => rw [ha] at h; cases h; exact Or.inl (addArgument_error_own hR ha)
      | ok st1 =>
        rw [ha] at h
        simp only at h
        split at h
        · cases h; exact Or.inl rfl
        · cases h

theorem precTail_error {conv : Char} {flags : List Char} {st : St} {e : CErr}
    (h : (if (Generated.CFormatTables.intCvt ++ Generated.CFormatTables.floatCvt ++ Generated.CFormatTables.strCvt).contains conv = true then
        Except.ok (if (Generated.CFormatTables.intCvt.contains conv && flags.contains '0') = true then warn false st .RedundantFlag else st)
      else (Except.error CErr.PrecisionError : Except CErr St)) = .error e) : e = .PrecisionError := by
  split at h
  · cases h
  · cases h; rfl

theorem doPrec_error {pre : List Ref} {st : St} (hR : Reach pre st) {p : Prec} {flags : List Char} {conv : Char}
    {parent : Nat} {e : CErr} (h : doPrec false st p flags conv parent = .error e) : Blame (PrecShort p) e := by
  cases p with
  | none => simp [doPrec] at h
  | num ds =>
    have hlen : IntFits (if ds.isEmpty then ['0'] else ds).length ↔
        IntFits ds.length := by
      cases ds with
      | nil => exact ⟨fun _ => Or.inr (Nat.zero_le _), fun _ => by show IntFits 1; unfold IntFits; omega⟩
      | cons d ds' => exact Iff.rfl
    simp only [doPrec, pyInt_eq] at h
    by_cases hl : IntFits ds.length
    · rw [if_pos (hlen.2 hl)] at h
      simp only at h
      by_cases hv : decimal (if ds.isEmpty then ['0'] else ds) > Generated.CFormatTables.INT_MAX
      · rw [if_pos hv] at h; cases h; exact Or.inl rfl
      · rw [if_neg hv] at h
        rw [precTail_error h]; exact Or.inl rfl
    · rw [if_neg (mt hlen.1 hl)] at h
      cases h
      exact Or.inr ⟨rfl, hl⟩
  | star idx =>
    simp only [doPrec] at h
    cases ho : optIndex idx with
    | error e' => rw [ho] at h; cases h; exact optIndex_blame ho
    | ok i =>
      rw [ho] at h
      simp only at h
      cases ha : addArgument st i ⟨.prec, Generated.CFormatTables.variablePrecisionType, parent⟩ with
      | error e' => rw [ha] at h; cases h; exact Or.inl (addArgument_error_own hR ha)
      | ok st1 =>
        rw [ha] at h
        simp only at h
        rw [precTail_error h]; exact Or.inl rfl

theorem doIndex_error {pre : List Ref} {st : St} (hR : Reach pre st) {idx : Option (List Char)} {tp : String} {conv : Char}
    {parent : Nat} {e : CErr} (h : doIndex st idx tp conv parent = .error e) : Blame (IdxShort idx) e := by
  simp only [doIndex] at h
  cases ho : optIndex idx with
  | error e' => rw [ho] at h; cases h; exact optIndex_blame ho
  | ok i =>
    rw [ho] at h
    simp only at h
    split at h
    · split at h
      · cases h; exact Or.inl rfl
      · cases h
    · exact Or.inl (addArgument_error_own hR h)

theorem Reach.setN {pre : List Ref} {st : St} (h : Reach pre st) (k : Nat) : Reach pre (setN k st) := ⟨h.map, h.next⟩

theorem conversion_reach {pre : List Ref} {st st' : St} {d : Directive} (hR : Reach pre st) (hd : d.Wf)
    (h : conversion false st d = .ok st') : Reach (pre ++ d.refs st.nitems) st' :=
  (addAll_reach _ pre st hR).1 st' ((conversion_ok_iff hd st st').1 h).2.2

theorem conversion_error {pre : List Ref} {st : St} {d : Directive} {e : CErr} (hR : Reach pre st) (hd : d.Wf)
    (h : conversion false st d = .error e) : Blame (DirShort d) e := by
  have hc := body_conv_mem hd.body
  unfold conversion at h
  rw [typeInfo_spec hd.body] at h
  cases hti : d.body.typeInfo with
  | none => rw [hti] at h; cases h; exact Or.inl rfl
  | some ti =>
    rw [hti] at h
    simp only [warn_false, ite_self] at h
    cases h1 : checkFlags false st d.flags d.body.conv with
    | error e' =>
      rw [h1] at h; cases h
      rw [checkFlags_false_error hd.flags hc h1]
      exact Or.inl rfl
    | ok st1 =>
      rw [h1] at h
      simp only at h
      obtain ⟨rfl, _⟩ := (checkFlags_false_ok_iff _ _ _ _).1 h1
      cases h2 : doWidth st1 d.width d.body.conv st1.nitems with
      | error e' =>
        rw [h2] at h; cases h
        rcases doWidth_error hR h2 with ho | ⟨rfl, hs⟩
        · exact Or.inl ho
        · exact Or.inr ⟨rfl, fun hd' => hs hd'.width⟩
      | ok st2 =>
        rw [h2] at h
        simp only at h
        have hR2 := (addAll_reach _ pre st1 hR).1 st2 ((doWidth_ok_iff hc _ _ _ _).1 h2).2.2
        cases h3 : doPrec false st2 d.prec d.flags d.body.conv st2.nitems with
        | error e' =>
          rw [h3] at h; cases h
          rcases doPrec_error hR2 h3 with ho | ⟨rfl, hs⟩
          · exact Or.inl ho
          · exact Or.inr ⟨rfl, fun hd' => hs hd'.prec⟩
        | ok st3 =>
          rw [h3] at h
          simp only at h
          have hR3 := (addAll_reach _ _ st2 hR2).1 st3 ((doPrec_ok_iff hc _ _ _ _ _).1 h3).2.2
          rcases doIndex_error hR3 h with ho | ⟨rfl, hs⟩
          · exact Or.inl ho
          · exact Or.inr ⟨rfl, fun hd' => hs hd'.index⟩

theorem steps_error {e : CErr} : ∀ (items : List Item) (pre : List Ref) (st : St), Reach pre st → ItemsWf items →
    steps false items st = .error e → Blame (∀ d ∈ dirs items, DirShort d) e
  | [], _, _, _, _, h => by cases h
  | .lit cs :: rest, pre, st, hR, hwf, h => by
    simp only [steps, step] at h
    rcases steps_error rest pre _ (hR.setN (st.nitems + 1)) hwf.2.2.2 h with ho | ⟨rfl, hs⟩
    · exact Or.inl ho
    · exact Or.inr ⟨rfl, fun hall => hs fun d hd => hall d (by simpa [dirs] using hd)⟩
  | .dir d :: rest, pre, st, hR, hwf, h => by
    simp only [steps, step] at h
    cases hc : conversion false st d with
    | error e' =>
      rw [hc] at h; cases h
      rcases conversion_error hR hwf.1 hc with ho | ⟨rfl, hs⟩
      · exact Or.inl ho
      · exact Or.inr ⟨rfl, fun hall => hs (hall d (by simp [dirs]))⟩
    | ok st1 =>
      rw [hc] at h
      simp only at h
      have hR1 := conversion_reach hR hwf.1 hc
      rcases steps_error rest _ _ (hR1.setN (st1.nitems + 1)) hwf.2 h with ho | ⟨rfl, hs⟩
      · exact Or.inl ho
      · exact Or.inr ⟨rfl, fun hall => hs fun d' hd' => hall d' (by simp [dirs, hd'])⟩

theorem parseFalse_error {s : List Char} {e : CErr} (h : parseW false s = .error e) :
    Blame (∀ d ∈ dirs (scan s).1, DirShort d) e := by
  unfold parseW at h
  generalize hsc : scan s = sc at h
  obtain ⟨items, complete⟩ := sc
  simp only at h ⊢
  obtain ⟨hwf, rest, hs, hcomp⟩ := scan_sound hsc
  cases hst : steps false items St.init with
  | error e' => rw [hst] at h; cases h; exact steps_error items [] St.init Reach.init hwf hst
  | ok st =>
    rw [hst] at h
    simp only at h
    cases complete with
    | false => simp at h; subst h; exact Or.inl rfl
    | true =>
      simp only [Bool.not_true, Bool.false_eq_true, if_false] at h
      obtain ⟨hv, st1, ha, rfl⟩ := (steps_ok_iff items St.init st hwf).1 hst
      rw [St.init_nitems] at ha
      obtain ⟨i1, i2, _⟩ := addAll_init (refs items)
      have hmap : st1.map = positions (refs items) := i1 st1 ha
      obtain ⟨hnum, hrange⟩ := i2.1 ⟨st1, ha⟩
      have hbounds : ∀ p ∈ positions (refs items), 1 ≤ p.1 ∧ p.1 < 1 + Generated.CFormatTables.NL_ARGMAX := by
        intro p hp
        have h1 := positionsFrom_ge (refs items) 1 (refsFrom_idx_pos items 0 hv) (Nat.le_refl _) p hp
        have h2 := hrange p hp
        rw [nl_argmax_pin]
        omega
      obtain ⟨_, cE⟩ := collect_spec Generated.CFormatTables.NL_ARGMAX 1 (positions (refs items)) hbounds
      simp only [setN_map, hmap] at h
      cases hc : collect Generated.CFormatTables.NL_ARGMAX 1 (positions (refs items)) with
      | error e' => rw [hc] at h; cases h; rw [cE _ hc]; exact Or.inl rfl
      | ok args =>
        rw [hc] at h
        simp only at h
        split at h
        · cases h
        · cases h; exact Or.inl rfl

end I18n.CFmt
