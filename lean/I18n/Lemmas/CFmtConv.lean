import I18n.Lemmas.CFmtTables
/-!
# `Conversion.__init__` of the model: warnings are inert; success ⇔ `ValidDirective` + argument bookkeeping
-/
namespace I18n.CFmt
open I18n.Spec.Printf
open I18n.Generated.CFormatTables (intMaxStrDigits)

/-! ## dropping the warnings commutes with everything -/

def erase (st : St) : St := { st with warnings := [] }

@[simp] theorem erase_next (st : St) : (erase st).next = st.next := rfl
@[simp] theorem erase_map (st : St) : (erase st).map = st.map := rfl
@[simp] theorem erase_nitems (st : St) : (erase st).nitems = st.nitems := rfl
@[simp] theorem erase_erase (st : St) : erase (erase st) = erase st := rfl
@[simp] theorem warn_false (st : St) (x : Warn) : warn false st x = st := rfl
@[simp] theorem erase_warn (w : Bool) (st : St) (x : Warn) : erase (warn w st x) = erase st := by
  cases w <;> rfl
@[simp] theorem map_error {α β ε : Type} (f : α → β) (e : ε) : (Except.error e : Except ε α).map f = .error e := rfl
@[simp] theorem map_ok {α β ε : Type} (f : α → β) (a : α) : (Except.ok a : Except ε α).map f = .ok (f a) := rfl

theorem addArgument_erase (st : St) (n : Option Nat) (v : Entry) :
    (addArgument st n v).map erase = addArgument (erase st) n v := by
  unfold addArgument
  cases n <;> simp only [erase_next, erase_map] <;> cases st.next <;> simp only [] <;>
    (repeat' split) <;> first | rfl | simp_all

theorem flagLoop_erase (w : Bool) (flags : List Char) (conv : Char) : ∀ (fs : List Char) (st : St),
    (flagLoop w flags conv fs st).map erase = flagLoop false flags conv fs (erase st)
  | [], st => rfl
  | f :: fs, st => by
    simp only [flagLoop, warn_false, ite_self]
    cases flagErr f conv with
    | some e => rfl
    | none =>
      simp only
      rw [flagLoop_erase w flags conv fs]
      split <;> simp

theorem checkFlags_erase (w : Bool) (st : St) (flags : List Char) (conv : Char) :
    (checkFlags w st flags conv).map erase = checkFlags false (erase st) flags conv := by
  have h := flagLoop_erase w flags conv (distinct flags) st
  unfold checkFlags
  cases h1 : flagLoop w flags conv (distinct flags) st with
  | error e => rw [h1] at h; simp only [← h]; rfl
  | ok st1 =>
    rw [h1] at h
    simp only [← h, map_ok, warn_false, ite_self]
    congr 1
    split <;> split <;> simp

theorem doWidth_erase (st : St) (width : Width) (conv : Char) (parent : Nat) :
    (doWidth st width conv parent).map erase = doWidth (erase st) width conv parent := by
  unfold doWidth
  cases width with
  | none => rfl
  | num ds =>
    simp only
    cases pyInt ds <;> simp only [] <;> (repeat' split) <;> first | rfl | simp_all
  | star idx =>
    simp only
    cases optIndex idx with
    | error e => rfl
    | ok i =>
      simp only
      have h := addArgument_erase st i ⟨.width, Generated.CFormatTables.variableWidthType, parent⟩
      cases h1 : addArgument st i ⟨.width, Generated.CFormatTables.variableWidthType, parent⟩ with
      | error e => rw [h1] at h; simp only [← h]; rfl
      | ok st1 => rw [h1] at h; simp only [← h, map_ok]; split <;> rfl

theorem doPrec_erase (w : Bool) (st : St) (prec : Prec) (flags : List Char) (conv : Char) (parent : Nat) :
    (doPrec w st prec flags conv parent).map erase = doPrec false (erase st) prec flags conv parent := by
  unfold doPrec
  cases prec with
  | none => rfl
  | num ds =>
    simp only
    cases pyInt (if ds.isEmpty then ['0'] else ds) <;> simp only [] <;> (repeat' split) <;> first | rfl | simp_all
  | star idx =>
    simp only
    cases optIndex idx with
    | error e => rfl
    | ok i =>
      simp only
      have h := addArgument_erase st i ⟨.prec, Generated.CFormatTables.variablePrecisionType, parent⟩
      cases h1 : addArgument st i ⟨.prec, Generated.CFormatTables.variablePrecisionType, parent⟩ with
      | error e => rw [h1] at h; simp only [← h]; rfl
      | ok st1 => rw [h1] at h; simp only [← h, map_ok]; (repeat' split) <;> first | rfl | simp_all

theorem doIndex_erase (st : St) (index : Option (List Char)) (tp : String) (conv : Char) (parent : Nat) :
    (doIndex st index tp conv parent).map erase = doIndex (erase st) index tp conv parent := by
  unfold doIndex
  cases optIndex index with
  | error e => rfl
  | ok i =>
    simp only
    split
    · split <;> rfl
    · exact addArgument_erase st i _

theorem conversion_erase (w : Bool) (st : St) (d : Directive) :
    (conversion w st d).map erase = conversion false (erase st) d := by
  unfold conversion
  cases typeInfo d.body with
  | error e => rfl
  | ok ti =>
    obtain ⟨tp, integer, np⟩ := ti
    simp only [warn_false, ite_self]
    have h1 := checkFlags_erase w (if np = true then warn w st .NonPortableConversion else st) d.flags d.body.conv
    have e0 : erase (if np = true then warn w st .NonPortableConversion else st) = erase st := by split <;> simp
    rw [e0] at h1
    cases hc : checkFlags w (if np = true then warn w st .NonPortableConversion else st) d.flags d.body.conv with
    | error e => rw [hc] at h1; simp only [← h1]; rfl
    | ok st1 =>
      rw [hc] at h1
      simp only [← h1, map_ok]
      have h2 := doWidth_erase st1 d.width d.body.conv st1.nitems
      cases hw : doWidth st1 d.width d.body.conv st1.nitems with
      | error e => rw [hw] at h2; simp only [erase_nitems, ← h2]; rfl
      | ok st2 =>
        rw [hw] at h2
        simp only [erase_nitems, ← h2, map_ok]
        have h3 := doPrec_erase w st2 d.prec d.flags d.body.conv st2.nitems
        cases hp : doPrec w st2 d.prec d.flags d.body.conv st2.nitems with
        | error e => rw [hp] at h3; simp only [← h3]; rfl
        | ok st3 =>
          rw [hp] at h3
          simp only [← h3, map_ok]
          exact doIndex_erase st3 d.index tp d.body.conv st3.nitems

theorem step_erase (w : Bool) (st : St) (it : Item) :
    (step w st it).map erase = step false (erase st) it := by
  cases it with
  | lit cs => rfl
  | dir d =>
    have h := conversion_erase w st d
    simp only [step]
    cases hc : conversion w st d with
    | error e => rw [hc] at h; simp only [← h]; rfl
    | ok st1 => rw [hc] at h; simp only [← h, map_ok]; rfl

theorem steps_erase (w : Bool) : ∀ (items : List Item) (st : St),
    (steps w items st).map erase = steps false items (erase st)
  | [], st => rfl
  | it :: rest, st => by
    have h := step_erase w st it
    simp only [steps]
    cases hc : step w st it with
    | error e => rw [hc] at h; simp only [← h]; rfl
    | ok st1 => rw [hc] at h; simp only [← h, map_ok]; exact steps_erase w rest st1

/-- **Warnings are inert.**  Acceptance, the error raised and the argument list do not depend on whether
    warnings are recorded. -/
theorem parseW_arguments (w : Bool) (s : List Char) :
    (parseW w s).map (·.arguments) = (parseW false s).map (·.arguments) := by
  unfold parseW
  simp only
  have h := steps_erase w (scan s).1 St.init
  have h' := steps_erase false (scan s).1 St.init
  cases h1 : steps w (scan s).1 St.init with
  | error e =>
    rw [h1] at h
    cases h2 : steps false (scan s).1 St.init with
    | error e' => rw [h2] at h'; rw [← h'] at h; simp at h; simp [h]
    | ok st' => rw [h2] at h'; rw [← h'] at h; simp at h
  | ok st =>
    rw [h1] at h
    cases h2 : steps false (scan s).1 St.init with
    | error e' => rw [h2] at h'; rw [← h'] at h; simp at h
    | ok st' =>
      rw [h2] at h'; rw [← h'] at h
      simp only [map_ok, Except.ok.injEq] at h
      have hm : st.map = st'.map := by simpa using congrArg St.map h
      simp only [hm]
      split
      · rfl
      · cases collect Generated.CFormatTables.NL_ARGMAX 1 st'.map with
        | error e => rfl
        | ok args => simp only; split <;> rfl

end I18n.CFmt
