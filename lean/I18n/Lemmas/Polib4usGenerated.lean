import I18n.Generated.Polib4us
/-!
# `lib/polib4us.py` regenerated (`Generated/Polib4us.lean`) equals the model of `Model/Po.lean`
-/
set_option linter.unusedSimpArgs false
set_option linter.unusedVariables false
namespace I18n.Po.PGen
open I18n I18n.Po I18n.Generated

/-! ## escapes: what `_escapes_re` matches, and the two fix-ups + `literal_eval` on it -/

/-- the shapes `escapeBody` produces -/
def validBody (b : Text) : Bool :=
  match b with
  | [c] => (simpleByte c).isSome || isOct c
  | [c, d] => (isOct c && isOct d) || (c == 'x' && isHex d)
  | [c, d, e] => (isOct c && isOct d && isOct e) || (c == 'x' && isHex d && isHex e)
  | _ => false

theorem escapeBody_valid (s b r : Text) (h : escapeBody s = some (b, r)) : validBody b = true := by
  unfold escapeBody at h
  split at h
  · rename_i c rest
    split at h
    · rename_i hs; cases h; simp [validBody, hs]
    · split at h
      · rename_i ho
        split at h
        · rename_i d rest'
          split at h
          · rename_i hd
            split at h
            · rename_i e rest''
              split at h
              · rename_i he; cases h; simp [validBody, ho, hd, he]
              · cases h; simp [validBody, ho, hd]
            · cases h; simp [validBody, ho, hd]
          · cases h; simp [validBody, ho]
        · cases h; simp [validBody, ho]
      · split at h
        · rename_i hx
          split at h
          · rename_i d rest'
            split at h
            · rename_i hd
              split at h
              · rename_i e rest''
                split at h
                · rename_i he; cases h; simp [validBody, hd, he]
                · cases h; simp [validBody, hd]
              · cases h; simp [validBody, hd]
            · cases h
          · cases h
        · cases h
  · cases h

theorem escapeRun_valid : ∀ (fuel : Nat) (s : Text), ∀ b ∈ (escapeRun fuel s).1, validBody b = true := by
  intro fuel
  induction fuel with
  | zero => intro s b hb; simp [escapeRun] at hb
  | succ fuel ih =>
    intro s b hb
    unfold escapeRun at hb
    split at hb
    · rename_i t
      split at hb
      · rename_i body rest heb
        simp only [List.mem_cons] at hb
        rcases hb with rfl | hb
        · exact escapeBody_valid _ _ _ heb
        · exact ih rest b hb
      · simp at hb
    · simp at hb

theorem isOct_cases (c : Char) (h : isOct c = true) : c ∈ ['0', '1', '2', '3', '4', '5', '6', '7'] := by
  simp only [isOct, Bool.and_eq_true, decide_eq_true_eq, Char.le_def, UInt32.le_iff_toNat_le] at h
  have hc : c = Char.ofNat c.toNat := (Char.ofNat_toNat c).symm
  have e0 : ('0' : Char).val.toNat = 48 := rfl
  have e7 : ('7' : Char).val.toNat = 55 := rfl
  rw [e0, e7] at h
  have h1 : 48 ≤ c.toNat ∧ c.toNat ≤ 55 := h
  have : c.toNat = 48 ∨ c.toNat = 49 ∨ c.toNat = 50 ∨ c.toNat = 51 ∨ c.toNat = 52 ∨ c.toNat = 53 ∨ c.toNat = 54 ∨ c.toNat = 55 := by omega
  rcases this with h | h | h | h | h | h | h | h <;> (rw [hc, h]; decide)

/-- the octal fix-up followed by `literal_eval`, on every three-digit octal escape: the value modulo 256, as the model has it -/
theorem three_octal_table : ∀ c ∈ ['0', '1', '2', '3', '4', '5', '6', '7'], ∀ d ∈ ['0', '1', '2', '3', '4', '5', '6', '7'],
    ∀ e ∈ ['0', '1', '2', '3', '4', '5', '6', '7'],
    Py.bodyByte (Py.bigOctal1 Polib4us._wrap_octal_escape [c, d, e]) = some (escapeByte [c, d, e]) := by
  decide +kernel

theorem x_not_oct : isOct 'x' = false := by decide

/-- one escape: the two substitutions then `literal_eval` give the model's byte -/
theorem body_byte_eq (b : Text) (h : validBody b = true) :
    Py.bodyByte (Py.bigOctal1 Polib4us._wrap_octal_escape (Py.shortX1 b)) = some (escapeByte (fixShortX b)) := by
  match b, h with
  | [c], h => simp [Py.shortX1, Py.bigOctal1, Py.bodyByte, fixShortX, escapeByte]; cases simpleByte c <;> rfl
  | [c, d], h =>
    simp only [validBody, Bool.or_eq_true, Bool.and_eq_true, beq_iff_eq] at h
    by_cases hx : c = 'x'
    · subst hx
      have h7 : ¬ ('x' ≤ '7') := by decide
      simp [Py.shortX1, Py.bigOctal1, Py.bodyByte, fixShortX, escapeByte, h7]
    · simp [Py.shortX1, Py.bigOctal1, Py.bodyByte, fixShortX, escapeByte, hx]
  | [c, d, e], h =>
    simp only [validBody, Bool.or_eq_true, Bool.and_eq_true, beq_iff_eq] at h
    have hs : Py.shortX1 [c, d, e] = [c, d, e] := rfl
    have hf : fixShortX [c, d, e] = [c, d, e] := rfl
    rw [hs, hf]
    rcases h with ⟨⟨hc, hd⟩, he⟩ | ⟨⟨hx, hd⟩, he⟩
    · exact three_octal_table c (isOct_cases c hc) d (isOct_cases d hd) e (isOct_cases e he)
    · subst hx
      have h7 : ¬ ('x' ≤ '7') := by decide
      simp [Py.bigOctal1, Py.bodyByte, escapeByte, h7]
  | [], h => simp [validBody] at h
  | _ :: _ :: _ :: _ :: _, h => simp [validBody] at h

theorem run_bytes_eq : ∀ (run : Py.Run), (∀ b ∈ run, validBody b = true) →
    Py.bodyBytes (Py.bigOctalSub Polib4us._wrap_octal_escape (Py.shortXSub run)) = some (run.map fun b => escapeByte (fixShortX b)) := by
  intro run
  induction run with
  | nil => intro _; rfl
  | cons b rest ih =>
    intro h
    have hb := body_byte_eq b (h b (by simp))
    have hr := ih (fun x hx => h x (by simp [hx]))
    simp only [Py.bigOctalSub, Py.shortXSub, List.map_cons, Py.bodyBytes] at hr ⊢
    rw [hb, hr]

/-- the inner `unescape(match)` as regenerated, on a match of `_escapes_re`: ASCII first, else the file's charset — `decodeRun` -/
theorem unescape_inner_eq (env : Env) (enc : Bytes) (run : Py.Run) (h : ∀ b ∈ run, validBody b = true) :
    Polib4us.polib_unescape_unescape env enc run =
      (match decodeAscii (run.map fun b => escapeByte (fixShortX b)) with
       | some t => .ok t
       | none => Py.encodingsDecode env (run.map fun b => escapeByte (fixShortX b)) enc) := by
  simp only [Polib4us.polib_unescape_unescape, Py.literalEval, run_bytes_eq run h, Py.decodeAsciiBytes]
  cases decodeAscii (run.map fun b => escapeByte (fixShortX b)) <;> simp [Py.Exn.isUnicodeDecodeError]

theorem unescape_inner_toOption (env : Env) (enc : Bytes) (run : Py.Run) (h : ∀ b ∈ run, validBody b = true) :
    (Polib4us.polib_unescape_unescape env enc run).toOption = decodeRun env enc run := by
  rw [unescape_inner_eq env enc run h]
  simp only [decodeRun, Py.encodingsDecode]
  cases decodeAscii (run.map fun b => escapeByte (fixShortX b)) with
  | some t => rfl
  | none => cases env.decode enc (run.map fun b => escapeByte (fixShortX b)) <;> rfl

/-- `_escapes_re.sub(unescape, s)` with the regenerated inner function = `unescapeAux` -/
theorem escapesSub_eq (env : Env) (enc : Bytes) : ∀ (fuel : Nat) (s : Text),
    (Py.escapesSub (Polib4us.polib_unescape_unescape env enc) fuel s).toOption = unescapeAux env enc fuel s := by
  intro fuel
  induction fuel with
  | zero => intro s; rfl
  | succ fuel ih =>
    intro s
    cases s with
    | nil => rfl
    | cons c cs =>
      simp only [Py.escapesSub, unescapeAux]
      have hv := escapeRun_valid (c :: cs).length (c :: cs)
      generalize escapeRun (c :: cs).length (c :: cs) = r at hv
      obtain ⟨bodies, rest⟩ := r
      cases bodies with
      | nil =>
        simp only []
        have := ih cs
        cases hA : Py.escapesSub (Polib4us.polib_unescape_unescape env enc) fuel cs with
        | error e => rw [hA] at this; simp [Except.toOption] at this ⊢; rw [← this]; rfl
        | ok t => rw [hA] at this; simp [Except.toOption] at this ⊢; rw [← this]; rfl
      | cons b bs =>
        simp only []
        have hin := unescape_inner_toOption env enc (b :: bs) hv
        cases hF : Polib4us.polib_unescape_unescape env enc (b :: bs) with
        | error e => rw [hF] at hin; simp [Except.toOption] at hin ⊢; rw [← hin]
        | ok t =>
          rw [hF] at hin
          simp only [Except.toOption] at hin
          rw [← hin]
          simp only []
          have := ih rest
          cases hA : Py.escapesSub (Polib4us.polib_unescape_unescape env enc) fuel rest with
          | error e => rw [hA] at this; simp [Except.toOption] at this ⊢; rw [← this]; rfl
          | ok t' => rw [hA] at this; simp [Except.toOption] at this ⊢; rw [← this]; rfl

/-- `polib_unescape(s)` as regenerated = `unescape` -/
theorem polib_unescape_eq (env : Env) (enc : Bytes) (s : Text) :
    (Polib4us.polib_unescape env enc s).toOption = unescape env enc s := by
  simp only [Polib4us.polib_unescape, unescape]
  exact escapesSub_eq env enc (s.length + 1) s

/-! ## the flags setter, `translated` -/

/-- the `POEntry.flags` setter as regenerated = `setFlags`, given the strip set the table translator probed from the live setter
    (the set in the source text may be spelled in any order) -/
theorem set_flags_eq (hset : Generated.PolibFsm.flagStripSet = [9, 11, 12, 13, 32]) (flags : List Text) :
    Polib4us.set_flags flags = .ok (setFlags flags) := by
  have hp : ∀ codes : List Nat, (∀ n, codes.contains n = Generated.PolibFsm.flagStripSet.contains n) →
      (fun c : Char => codes.contains c.toNat) = isFlagSpace := by
    intro codes h; funext c; rw [isFlagSpace, h]
  simp only [Polib4us.set_flags, setFlags, Py.stripCodes]
  rw [hp _ (by
    intro n
    rw [hset]
    simp only [List.contains_cons, List.contains_nil, Bool.or_false]
    apply Bool.eq_iff_iff.mpr
    simp only [Bool.or_eq_true, beq_iff_eq]
    omega)]

/-- `POEntry.translated()` as regenerated = `translated` -/
theorem translated_eq (e : Entry) : Polib4us.translated e = .ok (Po.translated e) := by
  simp only [Polib4us.translated, Po.translated]
  cases e.obsolete
  · simp only [Bool.false_eq_true, if_false]
    cases e.flags.contains ['f', 'u', 'z', 'z', 'y']
    · simp only [Bool.false_eq_true, if_false]
      have h2 : (e.msgstrPlural.any fun kv => Py.truthy kv.2) = e.msgstrPlural.any fun kv => !kv.2.isEmpty := rfl
      rw [h2]
      cases e.msgstr with
      | none => rfl
      | some t => cases t <;> rfl
    · simp
  · simp

/-! ## `Codecs._is_ignored_comment`, `Codecs.open` -/

/-- `Codecs._is_ignored_comment(line)` as regenerated: IndexError on a line without tokens, else `isIgnoredComment` -/
theorem is_ignored_eq (env : Env) (line : Text) :
    Polib4us.Codecs__is_ignored_comment env line =
      (match splitWs env.isSpace 1 line with
       | [] => .error .index
       | _ :: _ => .ok (isIgnoredComment env line)) := by
  simp only [Polib4us.Codecs__is_ignored_comment, isIgnoredComment, Py.listGet]
  cases splitWs env.isSpace 1 line with
  | nil => rfl
  | cons t ts => simp [Bool.or_assoc]

theorem dropWhile_ne_nil_of_all_false (p : Char → Bool) : ∀ (l : Text), l.all p = false → l.dropWhile p ≠ [] := by
  intro l
  induction l with
  | nil => intro h; simp at h
  | cons c cs ih =>
    intro h
    by_cases hc : p c = true
    · simp only [List.all_cons, hc, Bool.true_and] at h
      simp only [List.dropWhile_cons, hc, if_true]
      exact ih h
    · simp [List.dropWhile_cons, hc]

theorem tokens_ne_nil (env : Env) (line : Text) (h1 : line ≠ []) (h2 : allIn env.isSpace line = false) :
    ∃ t ts, splitWs env.isSpace 1 line = t :: ts := by
  have hall : line.all env.isSpace = false := by
    cases line with
    | nil => exact (h1 rfl).elim
    | cons c cs => simpa [allIn] using h2
  have hd := dropWhile_ne_nil_of_all_false env.isSpace line hall
  simp only [splitWs]
  cases hr : line.dropWhile env.isSpace with
  | nil => exact (hd hr).elim
  | cons c cs => simp

/-- the state of the loop of `Codecs.open`: (empty, what was yielded, pending comments) -/
abbrev LoopState := Bool × List Text × List Text

/-- one iteration of the loop, as the model has it -/
def stepModel (env : Env) (line : Text) (s : LoopState) : LoopState :=
  let l' := normalise line
  if holdBack env l' then (s.1, s.2.1, s.2.2 ++ [l']) else (false, s.2.1 ++ s.2.2 ++ [l'], [])

def loopModel (env : Env) : List Text → LoopState → LoopState
  | [], s => s
  | l :: ls, s => loopModel env ls (stepModel env l s)

theorem forEach_loopModel (env : Env) (body : Text → LoopState → Except Py.Exn LoopState)
    (hbody : ∀ line e o p, body line (e, o, p) = .ok (stepModel env line (e, o, p))) :
    ∀ (ls : List Text) (s : LoopState), Py.forEach ls body s = .ok (loopModel env ls s) := by
  intro ls
  induction ls with
  | nil => intro s; rfl
  | cons l ls ih =>
    intro s
    obtain ⟨e, o, p⟩ := s
    simp only [Py.forEach, hbody, loopModel, ih]

/-- what the generator has yielded after the loop and the final `if empty: yield '# '` = `preLoop` -/
theorem loopModel_preLoop (env : Env) : ∀ (ls : List Text) (e : Bool) (o p : List Text),
    (loopModel env ls (e, o, p)).2.1 ++ (if (loopModel env ls (e, o, p)).1 then [['#', ' ']] else []) = o ++ preLoop env ls p e := by
  intro ls
  induction ls with
  | nil => intro e o p; cases e <;> simp [loopModel, preLoop]
  | cons l ls ih =>
    intro e o p
    simp only [loopModel, stepModel, preLoop]
    by_cases hh : holdBack env (normalise l) = true
    · simp only [hh, if_true]
      exact ih e o (p ++ [normalise l])
    · simp only [hh, if_false, Bool.false_eq_true]
      rw [ih false (o ++ p ++ [normalise l]) []]
      simp

/-- the test of the loop body, with its short circuit: `_is_ignored_comment` is only asked about lines that have a token -/
theorem hold_decision (env : Env) (l : Text) :
    (if (l.take 2 == [] || l.take 2 == ['#', ' ']) = true then (Except.ok true : Except Py.Exn Bool)
     else if allIn env.isSpace l = true then .ok true
     else Polib4us.Codecs__is_ignored_comment env l) = .ok (holdBack env l) := by
  simp only [holdBack]
  by_cases h1 : (l.take 2 == [] || l.take 2 == ['#', ' ']) = true
  · rw [if_pos h1]; simp only [h1, Bool.true_or]
  · by_cases h2 : allIn env.isSpace l = true
    · rw [if_neg h1, if_pos h2]; simp only [h2, Bool.or_true, Bool.true_or]
    · have hne : l ≠ [] := by
        intro hl
        subst hl
        simp at h1
      obtain ⟨t, ts, hts⟩ := tokens_ne_nil env l hne (by simpa using h2)
      have h1' : (l.take 2 == [] || l.take 2 == ['#', ' ']) = false := by simpa using h1
      have h2' : allIn env.isSpace l = false := by simpa using h2
      rw [is_ignored_eq, hts]
      simp only [h1', h2', Bool.false_eq_true, if_false, Bool.false_or]

/-- the loop body as regenerated is one step of the model -/
theorem body_step (env : Env) (line : Text) (e : Bool) (o p : List Text) :
    (match (if atypical line = true then (Except.ok (['#', ' '] ++ List.drop 1 line) : Except Py.Exn Text) else Except.ok line) with
     | Except.error x => Except.error x
     | Except.ok line =>
       match (if (List.take 2 line == [] || List.take 2 line == ['#', ' ']) = true then (Except.ok true : Except Py.Exn Bool)
              else if allIn env.isSpace line = true then Except.ok true
              else Polib4us.Codecs__is_ignored_comment env line) with
       | Except.error x => Except.error x
       | Except.ok tmp3 =>
         if tmp3 = true then (Except.ok (e, o, p ++ [line]) : Except Py.Exn LoopState) else Except.ok (false, o ++ p ++ [line], [])) =
      .ok (stepModel env line (e, o, p)) := by
  simp only [stepModel, normalise]
  by_cases ha : atypical line = true
  · simp only [ha, if_true, hold_decision, List.cons_append, List.nil_append]
    cases holdBack env ('#' :: ' ' :: List.drop 1 line) <;> simp
  · simp only [ha, if_false, Bool.false_eq_true, hold_decision]
    cases holdBack env line <;> simp

/-- the environment's ASCII codec is ASCII -/
def AsciiIsAscii (env : Env) : Prop :=
  ∀ bs, env.decode asciiName bs = (match decodeAscii bs with | some t => .text t | none => .ude)

/-- after the loop: `if empty: yield '# '`, and the result is `preprocess` -/
theorem after_loop (env : Env) (t : Text) :
    (match (Except.ok (loopModel env (iterlines t) (true, [], [])) : Except Py.Exn LoopState) with
     | Except.error e => Except.error e
     | Except.ok (empty, out_, pending_comments) =>
       if empty = true then (Except.ok (out_ ++ [['#', ' ']]) : Except Py.Exn (List Text)) else Except.ok out_) =
      .ok (preprocess env t) := by
  have h := loopModel_preLoop env (iterlines t) true [] []
  simp only [preprocess]
  generalize loopModel env (iterlines t) (true, [], []) = r at h
  obtain ⟨e', o', p'⟩ := r
  simp only [List.nil_append] at h
  rw [← h]
  cases e' <;> simp

/-- `Codecs.open(path, mode, encoding)` as regenerated: the lines it yields are `preprocess` of the decoded file (`decodeFile`) -/
theorem codecs_open_eq (env : Env) (hascii : AsciiIsAscii env) (file : Bytes) (mode : Text) (enc : Bytes)
    (hmode : mode = ['r', 'U'] ∨ mode = ['r', 't']) :
    Polib4us.Codecs_open env file mode enc =
      (match decodeFile env enc file with
       | .ok t => .ok (preprocess env t)
       | .error .decode => .error .unicodeDecode
       | .error _ => .error .other) := by
  have hm : (!(mode == ['r', 'U'] || mode == ['r', 't'])) = false := by rcases hmode with h | h <;> (subst h; decide)
  have hm' : (!(mode == ['r', 't'] || mode == ['r', 'U'])) = false := by rcases hmode with h | h <;> (subst h; decide)
  simp only [Polib4us.Codecs_open, hm, hm', Bool.false_eq_true, if_false, decodeFile]
  cases hc : env.asciiCompatible enc with
  | true =>
    simp only [Bool.not_true, Bool.false_eq_true, if_false, if_true, Py.encodingsDecode]
    cases env.decode enc file with
    | ude => rfl
    | other => rfl
    | text t =>
      simp only []
      rw [forEach_loopModel env _ (fun line e o p => body_step env line e o p)]
      exact after_loop env t
  | false =>
    simp only [Bool.not_false, if_true, Bool.false_eq_true, if_false, Py.encodingsDecode, hascii file]
    cases decodeAscii file with
    | none => rfl
    | some t =>
      simp only []
      rw [forEach_loopModel env _ (fun line e o p => body_step env line e o p)]
      exact after_loop env t

end I18n.Po.PGen
