import I18n.Lemmas.CharsetCodec
/-!
# C20: the charmap codecs — the reverse round trip, the bijection on the defined repertoire, exact error positions
-/
namespace I18n.Charset
open I18n.Spec.Charset (InjectiveOnDefined ValidSpan)

/-! ## the encoding map is sound: what it answers is an entry of the table -/

theorem lastIndexFrom_lt (c : Nat) : ∀ (l : List Nat) (i j : Nat), lastIndexFrom c i l = some j → j < i + l.length := by
  intro l
  induction l with
  | nil => intro i j h; simp [lastIndexFrom] at h
  | cons x xs ih =>
    intro i j h
    simp only [lastIndexFrom] at h
    split at h
    · rename_i j' hj'
      cases h
      have := ih _ _ hj'
      simp only [List.length_cons]; omega
    · split at h
      · cases h; simp only [List.length_cons]; omega
      · cases h

/-- `charmap_build` only ever answers a byte whose table entry is the character; in the trie form never for U+FFFE -/
theorem encLookup_sound (table : List Nat) (c : Nat) (b : UInt8) (h : encLookup table c = some b) :
    table[b.toNat]? = some c ∧ (needDict table = false → c ≠ undefinedCp) := by
  unfold encLookup at h
  split at h
  · cases h
  · rename_i hne
    cases hj : lastIndexFrom c 0 (table.take 256) with
    | none => simp [hj] at h
    | some j =>
      simp only [hj, Option.map_some, Option.some.injEq] at h
      have hs := lastIndexFrom_some c _ _ _ hj
      have hlt := lastIndexFrom_lt c _ _ _ hj
      have hlen : (table.take 256).length ≤ 256 := by simp [List.length_take]; omega
      have hj256 : j < 256 := by omega
      have hb : b.toNat = j := by
        rw [← h, UInt8.toNat_ofNat']; omega
      have hget := hs.2
      simp only [Nat.sub_zero] at hget
      rw [List.getElem?_take] at hget
      simp only [hj256, if_true] at hget
      refine ⟨by rw [hb]; exact hget, fun hd hc => hne ⟨hc, hd⟩⟩

/-- **the bijection on the defined repertoire**: for a table injective on its defined entries whose `charmap_build` takes the
    trie form, byte `b` decodes to the defined character `c` iff `c` encodes to `b` -/
theorem encLookup_iff (table : List Nat) (hinj : InjectiveOnDefined table) (htrie : needDict table = false)
    (b : UInt8) (c : Nat) : (table[b.toNat]? = some c ∧ c ≠ undefinedCp) ↔ encLookup table c = some b :=
  ⟨fun h => encLookup_of_entry table hinj b c h.1 h.2, fun h => ⟨(encLookup_sound table c b h).1, (encLookup_sound table c b h).2 htrie⟩⟩

/-! ## decode(encode(s)) = s -/

theorem encode_decode_from (table : List Nat) : ∀ (cs : List Nat) (i j : Nat) (bs : List UInt8),
    (needDict table = false ∨ undefinedCp ∉ cs) →
    charmapEncodeFrom (encLookup table) i cs = .ok bs → charmapDecodeFrom table j bs = .ok cs := by
  intro cs
  induction cs with
  | nil => intro i j bs _ h; simp [charmapEncodeFrom] at h; subst h; rfl
  | cons c cs ih =>
    intro i j bs hu h
    simp only [charmapEncodeFrom] at h
    split at h
    · cases h
    · rename_i b hb
      split at h
      · cases h
      · rename_i bs' hbs
        cases h
        have hs := encLookup_sound table c b hb
        have hne : c ≠ undefinedCp := by
          rcases hu with hu | hu
          · exact hs.2 hu
          · intro hc; exact hu (by simp [hc])
        have hu' : needDict table = false ∨ undefinedCp ∉ cs := by
          rcases hu with hu | hu
          · exact .inl hu
          · exact .inr (fun hm => hu (List.mem_cons_of_mem _ hm))
        simp only [charmapDecodeFrom, hs.1, hne, if_false, ih (i + 1) (j + 1) bs' hu' hbs]

/-! ## exact error positions -/

/-- encoding succeeds iff every character has a byte -/
theorem encodeFrom_ok_iff (enc : Nat → Option UInt8) : ∀ (cs : List Nat) (i : Nat),
    (∃ bs, charmapEncodeFrom enc i cs = .ok bs) ↔ ∀ c ∈ cs, (enc c).isSome = true := by
  intro cs
  induction cs with
  | nil => intro i; simp [charmapEncodeFrom]
  | cons c cs ih =>
    intro i
    simp only [charmapEncodeFrom, List.mem_cons, forall_eq_or_imp]
    cases hc : enc c with
    | none => simp
    | some b =>
      simp only [Option.isSome_some, true_and]
      rw [← ih (i + 1)]
      constructor
      · rintro ⟨bs, h⟩
        split at h
        · cases h
        · rename_i bs' hbs; exact ⟨bs', hbs⟩
      · rintro ⟨bs', hbs⟩
        exact ⟨b :: bs', by simp [hbs]⟩

theorem takeWhile_spec {α : Type} (p : α → Bool) : ∀ (l : List α),
    (∀ k (h : k < (l.takeWhile p).length), ∃ x, l[k]? = some x ∧ p x = true) ∧
    (∀ x, l[(l.takeWhile p).length]? = some x → p x = false) := by
  intro l
  induction l with
  | nil => simp
  | cons a l ih =>
    rw [List.takeWhile_cons]
    by_cases hp : p a = true
    · simp only [hp, if_true, List.length_cons]
      refine ⟨?_, ?_⟩
      · intro k hk
        cases k with
        | zero => exact ⟨a, by simp, hp⟩
        | succ k =>
          rw [List.getElem?_cons_succ]
          exact ih.1 k (by omega)
      · intro x hx
        rw [List.getElem?_cons_succ] at hx
        exact ih.2 x hx
    · simp only [hp, Bool.false_eq_true, if_false, List.length_nil]
      refine ⟨fun k hk => by omega, ?_⟩
      intro x hx
      simp at hx
      subst hx
      simpa using hp

/-- **a `UnicodeEncodeError` names exactly the first run of unencodable characters**: everything before `start` encodes,
    everything in `start .. end` does not, and the character at `end` (if any) does -/
theorem encodeFrom_error_exact (enc : Nat → Option UInt8) : ∀ (cs : List Nat) (i s e : Nat),
    charmapEncodeFrom enc i cs = .error (s, e) →
    i ≤ s ∧ s < e ∧ e ≤ i + cs.length ∧
    (∀ k, k < s - i → ∃ c, cs[k]? = some c ∧ (enc c).isSome = true) ∧
    (∀ k, s - i ≤ k → k < e - i → ∃ c, cs[k]? = some c ∧ enc c = none) ∧
    (∀ c, cs[e - i]? = some c → (enc c).isSome = true) := by
  intro cs
  induction cs with
  | nil => intro i s e h; simp [charmapEncodeFrom] at h
  | cons c cs ih =>
    intro i s e h
    simp only [charmapEncodeFrom] at h
    split at h
    · rename_i hc
      simp only [Except.error.injEq, Prod.mk.injEq] at h
      obtain ⟨rfl, rfl⟩ := h
      have hle := takeWhile_length_le (fun c => (enc c).isNone) cs
      have hsp := takeWhile_spec (fun c => (enc c).isNone) cs
      refine ⟨Nat.le_refl _, by omega, by simp only [List.length_cons]; omega, fun k hk => by omega, ?_, ?_⟩
      · intro k _ hk
        cases k with
        | zero => exact ⟨c, by simp, hc⟩
        | succ k =>
          rw [List.getElem?_cons_succ]
          obtain ⟨x, hx, hp⟩ := hsp.1 k (by omega)
          exact ⟨x, hx, by simpa using hp⟩
      · intro x hx
        have he : i + 1 + (cs.takeWhile fun c => (enc c).isNone).length - i
            = (cs.takeWhile fun c => (enc c).isNone).length + 1 := by omega
        rw [he, List.getElem?_cons_succ] at hx
        have := hsp.2 x hx
        cases hx' : enc x <;> simp_all
    · rename_i b hb
      split at h
      · rename_i err herr
        cases h
        obtain ⟨h1, h2, h3, h4, h5, h6⟩ := ih _ _ _ herr
        refine ⟨by omega, h2, by simp only [List.length_cons]; omega, ?_, ?_, ?_⟩
        · intro k hk
          cases k with
          | zero => exact ⟨c, by simp, by simp [hb]⟩
          | succ k =>
            rw [List.getElem?_cons_succ]
            exact h4 k (by omega)
        · intro k hk1 hk2
          cases k with
          | zero => omega
          | succ k =>
            rw [List.getElem?_cons_succ]
            exact h5 k (by omega) (by omega)
        · intro x hx
          have he : e - i = (e - (i + 1)) + 1 := by omega
          rw [he, List.getElem?_cons_succ] at hx
          exact h6 x hx
      · cases h

/-- decoding succeeds iff every byte has a defined entry -/
def definedAt (table : List Nat) (b : UInt8) : Bool :=
  match table[b.toNat]? with
  | none => false
  | some c => c != undefinedCp

theorem decodeFrom_ok_iff (table : List Nat) : ∀ (bs : List UInt8) (i : Nat),
    (∃ cs, charmapDecodeFrom table i bs = .ok cs) ↔ ∀ b ∈ bs, definedAt table b = true := by
  intro bs
  induction bs with
  | nil => intro i; simp [charmapDecodeFrom]
  | cons b bs ih =>
    intro i
    simp only [charmapDecodeFrom, List.mem_cons, forall_eq_or_imp]
    cases hb : table[b.toNat]? with
    | none => simp [definedAt, hb]
    | some c =>
      by_cases hc : c = undefinedCp
      · simp [definedAt, hb, hc]
      · have hd : definedAt table b = true := by simp [definedAt, hb, hc]
        simp only [hc, if_false, hd, true_and]
        rw [← ih (i + 1)]
        constructor
        · rintro ⟨cs, h⟩
          split at h
          · cases h
          · rename_i cs' hcs; exact ⟨cs', hcs⟩
        · rintro ⟨cs', hcs⟩
          exact ⟨c :: cs', by simp [hcs]⟩

/-- **a `UnicodeDecodeError` names exactly the first undefined byte** -/
theorem decodeFrom_error_exact (table : List Nat) : ∀ (bs : List UInt8) (i s e : Nat),
    charmapDecodeFrom table i bs = .error (s, e) →
    i ≤ s ∧ e = s + 1 ∧ s < i + bs.length ∧
    (∀ k, k < s - i → ∃ b, bs[k]? = some b ∧ definedAt table b = true) ∧
    (∃ b, bs[s - i]? = some b ∧ definedAt table b = false) := by
  intro bs
  induction bs with
  | nil => intro i s e h; simp [charmapDecodeFrom] at h
  | cons b bs ih =>
    intro i s e h
    simp only [charmapDecodeFrom] at h
    split at h
    · rename_i hb
      simp only [Except.error.injEq, Prod.mk.injEq] at h
      obtain ⟨rfl, rfl⟩ := h
      refine ⟨Nat.le_refl _, rfl, by simp only [List.length_cons]; omega, fun k hk => by omega, b, by simp, ?_⟩
      simp [definedAt, hb]
    · rename_i c hb
      split at h
      · rename_i hc
        simp only [Except.error.injEq, Prod.mk.injEq] at h
        obtain ⟨rfl, rfl⟩ := h
        refine ⟨Nat.le_refl _, rfl, by simp only [List.length_cons]; omega, fun k hk => by omega, b, by simp, ?_⟩
        simp [definedAt, hb, hc]
      · rename_i hc
        split at h
        · rename_i err herr
          cases h
          obtain ⟨h1, h2, h3, h4, b', hb', hd'⟩ := ih _ _ _ herr
          refine ⟨by omega, h2, by simp only [List.length_cons]; omega, ?_, b', ?_, hd'⟩
          · intro k hk
            cases k with
            | zero => exact ⟨b, by simp, by simp [definedAt, hb, hc]⟩
            | succ k =>
              rw [List.getElem?_cons_succ]
              exact h4 k (by omega)
          · have he : s - i = (s - (i + 1)) + 1 := by omega
            rw [he, List.getElem?_cons_succ]
            exact hb'
        · cases h

/-! ## the statements -/

/-- **decode(encode(s)) = s**, for every table: whenever `charmap_build` took its trie form (which never maps U+FFFE), or the
    text does not contain U+FFFE -/
theorem charmap_encode_decode (table : List Nat) (cs : List Nat) (bs : List UInt8)
    (hu : needDict table = false ∨ undefinedCp ∉ cs)
    (h : charmapEncode table cs = .ok bs) : charmapDecode table bs = .ok cs :=
  encode_decode_from table cs 0 0 bs hu h

/-- the exact error of `charmap_encode`, at offset 0 -/
theorem charmapEncode_error_exact (table : List Nat) (cs : List Nat) (s e : Nat)
    (h : charmapEncode table cs = .error (s, e)) :
    s < e ∧ e ≤ cs.length ∧
    (∀ k, k < s → ∃ c, cs[k]? = some c ∧ (encLookup table c).isSome = true) ∧
    (∀ k, s ≤ k → k < e → ∃ c, cs[k]? = some c ∧ encLookup table c = none) ∧
    (∀ c, cs[e]? = some c → (encLookup table c).isSome = true) := by
  have := encodeFrom_error_exact (encLookup table) cs 0 s e h
  simp only [Nat.sub_zero, Nat.zero_add] at this
  exact ⟨this.2.1, this.2.2.1, this.2.2.2.1, fun k hk => this.2.2.2.2.1 k hk, this.2.2.2.2.2⟩

theorem charmapDecode_error_exact (table : List Nat) (bs : List UInt8) (s e : Nat)
    (h : charmapDecode table bs = .error (s, e)) :
    e = s + 1 ∧ s < bs.length ∧
    (∀ k, k < s → ∃ b, bs[k]? = some b ∧ definedAt table b = true) ∧
    (∃ b, bs[s]? = some b ∧ definedAt table b = false) := by
  have := decodeFrom_error_exact table bs 0 s e h
  simp only [Nat.sub_zero, Nat.zero_add] at this
  exact ⟨this.2.1, this.2.2.1, this.2.2.2.1, this.2.2.2.2⟩

end I18n.Charset
