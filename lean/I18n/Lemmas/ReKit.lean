import I18n.Spec.BraceRe
/-!
# A kit for reasoning about `Spec.BraceRe.bt` (backtracking first-match semantics)

* the defining equations of `bt` as rewrite rules;
* a decision procedure for facts about character classes that hold for ALL characters (`clsEquivB`, `fsDisjointB`):
  a class made of literals and ranges is constant between consecutive break points, so testing the break points decides it;
* `nullable` / `first` and the lemma `bt_stuck`: a regex cannot get past a character outside its first set;
* `norm`: a canonical form (classes as sorted merged ranges, sequences right-nested without `eps`, `x+` as `x x*`,
  alternations of non-nullable branches with pairwise disjoint first sets sorted by their smallest first character), with
  `norm_sound : bt db (norm r) = bt db r`.  A proof about `norm liveTree` therefore survives every respelling of the
  pattern that `norm` identifies.
Core Lean only.
-/
namespace I18n.ReKit
open I18n.Spec.BraceRe

/-! ## equations -/
section eqs
variable {β : Type} (db : CharDB)

theorem bt_eps (st : St) (k : St → Option β) : bt db .eps st k = k st := by simp [bt]
theorem bt_cls_nil (neg items) (pos caps) (k : St → Option β) : bt db (.cls neg items) ⟨[], pos, caps⟩ k = none := by simp [bt]
theorem bt_cls_cons (neg items) (c r pos caps) (k : St → Option β) :
    bt db (.cls neg items) ⟨c :: r, pos, caps⟩ k = if clsTest db neg items c then k ⟨r, pos + 1, caps⟩ else none := by simp [bt]
theorem bt_seq (a b : Re) (st : St) (k : St → Option β) : bt db (.seq a b) st k = bt db a st (fun st' => bt db b st' k) := by simp [bt]
theorem bt_alt (a b : Re) (st : St) (k : St → Option β) : bt db (.alt a b) st k = (bt db a st k).or (bt db b st k) := by
  simp only [bt]; cases bt db a st k <;> rfl
theorem bt_opt (a : Re) (st : St) (k : St → Option β) : bt db (.opt a) st k = (bt db a st k).or (k st) := by
  simp only [bt]; cases bt db a st k <;> rfl
theorem bt_star (a : Re) (st : St) (k : St → Option β) : bt db (.star a) st k = starLoop (bt db a) st.rest.length st k := by simp [bt]
theorem bt_plus (a : Re) (st : St) (k : St → Option β) : bt db (.plus a) st k = bt db (.seq a (.star a)) st k := by simp [bt]
theorem bt_group (g : Nat) (a : Re) (st : St) (k : St → Option β) :
    bt db (.group g a) st k = bt db a st (fun st' => k { st' with caps := (g, st.pos, st'.pos) :: st'.caps }) := by simp [bt]

theorem starLoop_succ (body : St → (St → Option β) → Option β) (fuel : Nat) (st : St) (k : St → Option β) :
    starLoop body (fuel + 1) st k =
      (body st (fun st' => if st'.rest.length < st.rest.length then starLoop body fuel st' k else none)).or (k st) := by
  simp only [starLoop]; cases body st _ <;> rfl

end eqs

/-! ## classes over `Nat`, break points -/

def itemN (n : Nat) : ClsItem → Bool
  | .lit k => n == k
  | .range a b => a ≤ n && n ≤ b
  | _ => false

def itemBps : ClsItem → List Nat
  | .lit k => [k, k + 1]
  | .range a b => [a, b + 1]
  | _ => []

def noCatItem : ClsItem → Bool
  | .lit _ => true | .range _ _ => true | _ => false

theorem item_test_eq (db : CharDB) (c : Char) {it : ClsItem} (h : noCatItem it = true) : it.test db c = itemN c.toNat it := by
  cases it <;> simp_all [noCatItem, ClsItem.test, itemN]

def itemsN (items : List ClsItem) (n : Nat) : Bool := items.any (itemN n)

theorem items_test_eq (db : CharDB) (c : Char) {items : List ClsItem} (h : items.all noCatItem = true) :
    items.any (ClsItem.test db c) = itemsN items c.toNat := by
  induction items with
  | nil => rfl
  | cons it rest ih =>
    simp only [List.all_cons, Bool.and_eq_true] at h
    simp only [List.any_cons, itemsN, item_test_eq db c h.1]
    rw [ih h.2]; rfl

/-- the largest of `0 :: bps` that is `≤ n` -/
def floorGo (n : Nat) : Nat → List Nat → Nat
  | m, [] => m
  | m, b :: bs => floorGo n (if b ≤ n ∧ m ≤ b then b else m) bs

def floor (bps : List Nat) (n : Nat) : Nat := floorGo n 0 bps

theorem floorGo_spec (n : Nat) : ∀ (bs : List Nat) (m : Nat), m ≤ n →
    floorGo n m bs ≤ n ∧ m ≤ floorGo n m bs ∧ (floorGo n m bs = m ∨ floorGo n m bs ∈ bs) ∧ ∀ b ∈ bs, b ≤ n → b ≤ floorGo n m bs := by
  intro bs
  induction bs with
  | nil => intro m h; simp [floorGo, h]
  | cons b bs ih =>
    intro m h
    simp only [floorGo]
    by_cases hb : b ≤ n ∧ m ≤ b
    · simp only [hb, and_self, if_true]
      obtain ⟨h1, h2, h3, h4⟩ := ih b hb.1
      refine ⟨h1, Nat.le_trans hb.2 h2, ?_, ?_⟩
      · rcases h3 with h3 | h3
        · right; rw [h3]; exact List.mem_cons_self
        · right; exact List.mem_cons_of_mem _ h3
      · intro x hx hxn
        rcases List.mem_cons.1 hx with rfl | hx
        · exact h2
        · exact h4 x hx hxn
    · simp only [hb, if_false]
      obtain ⟨h1, h2, h3, h4⟩ := ih m h
      refine ⟨h1, h2, ?_, ?_⟩
      · rcases h3 with h3 | h3
        · left; exact h3
        · right; exact List.mem_cons_of_mem _ h3
      · intro x hx hxn
        rcases List.mem_cons.1 hx with rfl | hx
        · by_cases hmx : m ≤ x
          · exact absurd ⟨hxn, hmx⟩ hb
          · exact Nat.le_trans (Nat.le_of_lt (Nat.lt_of_not_le hmx)) h2
        · exact h4 x hx hxn

theorem floor_le (bps : List Nat) (n : Nat) : floor bps n ≤ n := (floorGo_spec n bps 0 (Nat.zero_le _)).1
theorem floor_mem (bps : List Nat) (n : Nat) : floor bps n ∈ 0 :: bps := by
  rcases (floorGo_spec n bps 0 (Nat.zero_le _)).2.2.1 with h | h
  · unfold floor; rw [h]; exact List.mem_cons_self
  · exact List.mem_cons_of_mem _ h
theorem le_floor {bps : List Nat} {n b : Nat} (hb : b ∈ bps) (h : b ≤ n) : b ≤ floor bps n :=
  (floorGo_spec n bps 0 (Nat.zero_le _)).2.2.2 b hb h

/-- `f` is constant between the break points -/
def Stable (bps : List Nat) (f : Nat → Bool) : Prop := ∀ n, f n = f (floor bps n)

theorem stable_range {bps : List Nat} {a b : Nat} (ha : a ∈ bps) (hb : b + 1 ∈ bps) : Stable bps (fun n => decide (a ≤ n) && decide (n ≤ b)) := by
  intro n
  have h1 := floor_le bps n
  have h2 : a ≤ n → a ≤ floor bps n := le_floor ha
  have h3 : b + 1 ≤ n → b + 1 ≤ floor bps n := le_floor hb
  by_cases p : a ≤ n <;> by_cases q : n ≤ b <;> simp [p, q] <;> omega

theorem stable_item {bps : List Nat} {it : ClsItem} (h : ∀ x ∈ itemBps it, x ∈ bps) : Stable bps (fun n => itemN n it) := by
  cases it with
  | lit k =>
    have := stable_range (bps := bps) (a := k) (b := k) (h k (by simp [itemBps])) (h (k + 1) (by simp [itemBps]))
    intro n
    have e := this n
    simp only [itemN]
    have t : ∀ m : Nat, (m == k) = (decide (k ≤ m) && decide (m ≤ k)) := by
      intro m; by_cases p : m = k
      · subst p; simp
      · have : ¬ (k ≤ m ∧ m ≤ k) := fun ⟨a, b⟩ => p (Nat.le_antisymm b a)
        simp only [beq_eq_false_iff_ne.2 p]
        by_cases q : k ≤ m <;> by_cases r : m ≤ k <;> simp_all
    rw [t, t]; exact e
  | range a b => exact stable_range (h a (by simp [itemBps])) (h (b + 1) (by simp [itemBps]))
  | word => intro n; rfl
  | notWord => intro n; rfl
  | digit => intro n; rfl
  | notDigit => intro n; rfl

theorem stable_items {bps : List Nat} {items : List ClsItem} (h : ∀ x ∈ items.flatMap itemBps, x ∈ bps) : Stable bps (itemsN items) := by
  induction items with
  | nil => intro n; rfl
  | cons it rest ih =>
    intro n
    have h1 : ∀ x ∈ itemBps it, x ∈ bps := fun x hx => h x (by simp [List.flatMap_cons, hx])
    have h2 : ∀ x ∈ rest.flatMap itemBps, x ∈ bps := fun x hx => h x (by simp only [List.flatMap_cons, List.mem_append]; exact Or.inr hx)
    have e1 := stable_item h1 n
    have e2 := ih h2 n
    simp only [itemsN, List.any_cons] at e2 ⊢
    have e1' : itemN n it = itemN (floor bps n) it := e1
    rw [e1', e2]

theorem stable_decide {bps : List Nat} {f : Nat → Bool} (hs : Stable bps f) (h : (0 :: bps).all (fun n => !f n) = true) (n : Nat) : f n = false := by
  rw [hs n]
  have := List.all_eq_true.1 h _ (floor_mem bps n)
  simpa using this

/-- the two item lists denote the same set of code points (decided at the break points) -/
def clsEquivB (a b : List ClsItem) : Bool :=
  a.all noCatItem && b.all noCatItem &&
    (0 :: (a.flatMap itemBps ++ b.flatMap itemBps)).all (fun n => !(itemsN a n != itemsN b n))

theorem clsEquivB_sound {a b : List ClsItem} (h : clsEquivB a b = true) (db : CharDB) (neg : Bool) (c : Char) :
    clsTest db neg a c = clsTest db neg b c := by
  simp only [clsEquivB, Bool.and_eq_true] at h
  obtain ⟨⟨ha, hb⟩, hall⟩ := h
  have hs : Stable (a.flatMap itemBps ++ b.flatMap itemBps) (fun n => itemsN a n != itemsN b n) := by
    intro n
    have e1 := stable_items (bps := a.flatMap itemBps ++ b.flatMap itemBps) (items := a) (fun x hx => List.mem_append_left _ hx) n
    have e2 := stable_items (bps := a.flatMap itemBps ++ b.flatMap itemBps) (items := b) (fun x hx => List.mem_append_right _ hx) n
    simp only [e1, e2]
  have := stable_decide hs hall c.toNat
  simp only [clsTest, items_test_eq db c ha, items_test_eq db c hb]
  have e : itemsN a c.toNat = itemsN b c.toNat := by simpa using this
  rw [e]

/-! ## first sets, nullability -/

/-- a union of (possibly negated) classes -/
abbrev FS := List (Bool × List ClsItem)

def fsTest (db : CharDB) (fs : FS) (c : Char) : Bool := fs.any (fun p => clsTest db p.1 p.2 c)

def nullable : Re → Bool
  | .eps => true
  | .cls _ _ => false
  | .seq a b => nullable a && nullable b
  | .alt a b => nullable a || nullable b
  | .opt _ => true
  | .star _ => true
  | .plus a => nullable a
  | .group _ a => nullable a
  | .bos => true
  | .eos => true

def first : Re → FS
  | .eps => []
  | .cls neg items => [(neg, items)]
  | .seq a b => if nullable a then first a ++ first b else first a
  | .alt a b => first a ++ first b
  | .opt a => first a
  | .star a => first a
  | .plus a => first a
  | .group _ a => first a
  | .bos => []
  | .eos => []

/-- the next character, if any, is outside `fs` -/
def HeadOut (db : CharDB) (fs : FS) (rest : List Char) : Prop := ∀ c r, rest = c :: r → fsTest db fs c = false

theorem HeadOut.append_left {db : CharDB} {f g : FS} {rest : List Char} (h : HeadOut db (f ++ g) rest) : HeadOut db f rest := by
  intro c r hr; have := h c r hr; simp only [fsTest, List.any_append, Bool.or_eq_false_iff] at this; exact this.1
theorem HeadOut.append_right {db : CharDB} {f g : FS} {rest : List Char} (h : HeadOut db (f ++ g) rest) : HeadOut db g rest := by
  intro c r hr; have := h c r hr; simp only [fsTest, List.any_append, Bool.or_eq_false_iff] at this; exact this.2

section stuck
variable {β : Type} (db : CharDB)

theorem starLoop_stuck (body : St → (St → Option β) → Option β) (st : St)
    (hb : ∀ k, (∀ st' : St, st'.rest = st.rest → k st' = none) → body st k = none)
    (fuel : Nat) (k : St → Option β) (hk : ∀ st' : St, st'.rest = st.rest → k st' = none) :
    starLoop body fuel st k = none := by
  cases fuel with
  | zero => simp only [starLoop]; exact hk st rfl
  | succ fuel =>
    rw [starLoop_succ]
    rw [hb _ (fun st' h => by simp [h])]
    simp [hk st rfl]

/-- **a regex cannot get past a character outside its first set**: if the next character is not in `first a` (or the
    input is exhausted), `a` can only match the empty string — so it fails outright when it is not nullable, and it fails
    when the continuation fails on every state with the same remaining input -/
theorem bt_stuck (a : Re) : ∀ (st : St) (k : St → Option β), HeadOut db (first a) st.rest →
    ((nullable a = false → bt db a st k = none) ∧ ((∀ st' : St, st'.rest = st.rest → k st' = none) → bt db a st k = none)) := by
  induction a with
  | eps => intro st k _; exact ⟨by simp [nullable], fun hk => by rw [bt_eps]; exact hk st rfl⟩
  | cls neg items =>
    intro st k h
    have : bt db (.cls neg items) st k = none := by
      obtain ⟨rest, pos, caps⟩ := st
      cases rest with
      | nil => exact bt_cls_nil db ..
      | cons c r =>
        have := h c r rfl
        simp only [first, fsTest, List.any_cons, List.any_nil, Bool.or_false] at this
        rw [bt_cls_cons, this]; rfl
    exact ⟨fun _ => this, fun _ => this⟩
  | seq a b iha ihb =>
    intro st k h
    simp only [first] at h
    by_cases na : nullable a = true
    · simp only [na, if_true] at h
      constructor
      · intro hn
        simp only [nullable, na, Bool.true_and] at hn
        rw [bt_seq]
        exact (iha st _ h.append_left).2 (fun st' hs => (ihb st' k (hs ▸ h.append_right)).1 hn)
      · intro hk
        rw [bt_seq]
        exact (iha st _ h.append_left).2 (fun st' hs => (ihb st' k (hs ▸ h.append_right)).2 (fun st'' hs' => hk st'' (hs'.trans hs)))
    · have na' : nullable a = false := by simpa using na
      simp only [na', Bool.false_eq_true, if_false] at h
      have : bt db (.seq a b) st k = none := by rw [bt_seq]; exact (iha st _ h).1 na'
      exact ⟨fun _ => this, fun _ => this⟩
  | alt a b iha ihb =>
    intro st k h
    simp only [first] at h
    constructor
    · intro hn
      simp only [nullable, Bool.or_eq_false_iff] at hn
      rw [bt_alt, (iha st k h.append_left).1 hn.1, (ihb st k h.append_right).1 hn.2]; rfl
    · intro hk
      rw [bt_alt, (iha st k h.append_left).2 hk, (ihb st k h.append_right).2 hk]; rfl
  | opt a iha =>
    intro st k h
    simp only [first] at h
    exact ⟨by simp [nullable], fun hk => by rw [bt_opt, (iha st k h).2 hk, hk st rfl]; rfl⟩
  | star a iha =>
    intro st k h
    simp only [first] at h
    refine ⟨by simp [nullable], fun hk => ?_⟩
    rw [bt_star]
    exact starLoop_stuck _ st (fun k' hk' => (iha st k' h).2 hk') _ k hk
  | plus a iha =>
    intro st k h
    simp only [first] at h
    constructor
    · intro hn
      rw [bt_plus, bt_seq]; exact (iha st _ h).1 (by simpa [nullable] using hn)
    · intro hk
      rw [bt_plus, bt_seq]
      refine (iha st _ h).2 (fun st' hs => ?_)
      rw [bt_star]
      exact starLoop_stuck _ st' (fun k' hk' => (iha st' k' (hs ▸ h)).2 hk') _ k (fun st'' hs' => hk st'' (hs'.trans hs))
  | group g a iha =>
    intro st k h
    simp only [first] at h
    constructor
    · intro hn; rw [bt_group]; exact (iha st _ h).1 (by simpa [nullable] using hn)
    · intro hk; rw [bt_group]; exact (iha st _ h).2 (fun st' hs => hk _ hs)
  | bos =>
    intro st k _
    refine ⟨by simp [nullable], fun hk => ?_⟩
    simp only [bt]; split
    · exact hk st rfl
    · rfl
  | eos =>
    intro st k _
    refine ⟨by simp [nullable], fun hk => ?_⟩
    simp only [bt]; split
    · exact hk st rfl
    · rfl

end stuck

/-! ## first sets over `Nat`: disjointness decided at the break points -/

def fsN (fs : FS) (n : Nat) : Bool := fs.any (fun p => itemsN p.2 n != p.1)
def fsBps (fs : FS) : List Nat := fs.flatMap (fun p => p.2.flatMap itemBps)
def fsNoCat (fs : FS) : Bool := fs.all (fun p => p.2.all noCatItem)

theorem fsTest_eq (db : CharDB) (c : Char) {fs : FS} (h : fsNoCat fs = true) : fsTest db fs c = fsN fs c.toNat := by
  induction fs with
  | nil => rfl
  | cons p rest ih =>
    simp only [fsNoCat, List.all_cons, Bool.and_eq_true] at h
    have := ih (by simpa [fsNoCat] using h.2)
    simp only [fsTest, fsN] at this
    simp only [fsTest, fsN, List.any_cons, this]
    simp only [clsTest, items_test_eq db c h.1]

theorem stable_fs {bps : List Nat} {fs : FS} (h : ∀ x ∈ fsBps fs, x ∈ bps) : Stable bps (fsN fs) := by
  induction fs with
  | nil => intro n; rfl
  | cons p rest ih =>
    intro n
    have h1 : ∀ x ∈ p.2.flatMap itemBps, x ∈ bps := fun x hx => h x (by simp only [fsBps, List.flatMap_cons, List.mem_append]; exact Or.inl hx)
    have h2 : ∀ x ∈ fsBps rest, x ∈ bps := fun x hx => h x (by simp only [fsBps, List.flatMap_cons, List.mem_append]; exact Or.inr hx)
    have e1 := stable_items h1 n
    have e2 := ih h2 n
    simp only [fsN, List.any_cons] at e2 ⊢
    rw [e1, e2]

def fsDisjointB (f g : FS) : Bool :=
  fsNoCat f && fsNoCat g && (0 :: (fsBps f ++ fsBps g)).all (fun n => !(fsN f n && fsN g n))

theorem fsDisjointB_sound {f g : FS} (h : fsDisjointB f g = true) (db : CharDB) (c : Char) (hf : fsTest db f c = true) :
    fsTest db g c = false := by
  simp only [fsDisjointB, Bool.and_eq_true] at h
  obtain ⟨⟨nf, ng⟩, hall⟩ := h
  have hs : Stable (fsBps f ++ fsBps g) (fun n => fsN f n && fsN g n) := by
    intro n
    have e1 := stable_fs (bps := fsBps f ++ fsBps g) (fs := f) (fun x hx => List.mem_append_left _ hx) n
    have e2 := stable_fs (bps := fsBps f ++ fsBps g) (fs := g) (fun x hx => List.mem_append_right _ hx) n
    simp only [e1, e2]
  have := stable_decide hs hall c.toNat
  rw [fsTest_eq db c nf] at hf
  rw [fsTest_eq db c ng]
  simpa [hf] using this

/-- `fs` is empty (no character at all) -/
def fsEmptyB (fs : FS) : Bool := fsNoCat fs && (0 :: fsBps fs).all (fun n => !fsN fs n)

/-- every character of `f` is in `g` -/
def fsSubsetB (f g : FS) : Bool :=
  fsNoCat f && fsNoCat g && (0 :: (fsBps f ++ fsBps g)).all (fun n => !(fsN f n && !fsN g n))

theorem fsSubsetB_sound {f g : FS} (h : fsSubsetB f g = true) (db : CharDB) (c : Char) (hf : fsTest db f c = true) :
    fsTest db g c = true := by
  simp only [fsSubsetB, Bool.and_eq_true] at h
  obtain ⟨⟨nf, ng⟩, hall⟩ := h
  have hs : Stable (fsBps f ++ fsBps g) (fun n => fsN f n && !fsN g n) := by
    intro n
    have e1 := stable_fs (bps := fsBps f ++ fsBps g) (fs := f) (fun x hx => List.mem_append_left _ hx) n
    have e2 := stable_fs (bps := fsBps f ++ fsBps g) (fs := g) (fun x hx => List.mem_append_right _ hx) n
    simp only [e1, e2]
  have := stable_decide hs hall c.toNat
  rw [fsTest_eq db c nf] at hf
  rw [fsTest_eq db c ng]
  simpa [hf] using this

/-! ## canonical form -/

def toRange : ClsItem → List (Nat × Nat)
  | .lit k => [(k, k)]
  | .range a b => if a ≤ b then [(a, b)] else []
  | _ => []

def insertR (r : Nat × Nat) : List (Nat × Nat) → List (Nat × Nat)
  | [] => [r]
  | x :: xs => if r.1 ≤ x.1 then r :: x :: xs else x :: insertR r xs

def mergeGo (a b : Nat) : List (Nat × Nat) → List (Nat × Nat)
  | [] => [(a, b)]
  | (c, d) :: rest => if c ≤ b + 1 then mergeGo a (max b d) rest else (a, b) :: mergeGo c d rest

/-- sorted, merged ranges (computed without proof; `normCls` validates the result with `clsEquivB`) -/
def canonItems (items : List ClsItem) : List ClsItem :=
  match (items.flatMap toRange).foldr insertR [] with
  | [] => []
  | (a, b) :: rest => (mergeGo a b rest).map (fun p => .range p.1 p.2)

def normCls (neg : Bool) (items : List ClsItem) : Re :=
  if clsEquivB items (canonItems items) then .cls neg (canonItems items) else .cls neg items

def mkSeq (a b : Re) : Re :=
  match a with
  | .eps => b
  | .seq a1 a2 => .seq a1 (mkSeq a2 b)
  | a => if b = .eps then a else .seq a b

def altList : Re → List Re
  | .alt a b => altList a ++ altList b
  | r => [r]

def ofAltList : List Re → Re
  | [] => .cls false []
  | [a] => a
  | a :: b :: rest => .alt a (ofAltList (b :: rest))

/-- the smallest code point of a first set (0 if it has none) -/
def fsMin (fs : FS) : Nat :=
  match (0 :: fsBps fs).filter (fsN fs) with
  | [] => 0
  | x :: xs => xs.foldl (fun m y => if y < m then y else m) x

def altKey (a : Re) : Nat := fsMin (first a)

def insertA (a : Re) : List Re → List Re
  | [] => [a]
  | x :: xs => if altKey a ≤ altKey x then a :: x :: xs else x :: insertA a xs

def sortAlts (l : List Re) : List Re := l.foldr insertA []

/-- every branch is non-nullable and any two different branches have disjoint first sets: at most one branch can match
    at any input, so the order of the branches does not matter -/
def sortableB (l : List Re) : Bool :=
  l.all (fun a => !nullable a) && l.all (fun a => l.all (fun b => a == b || fsDisjointB (first a) (first b)))

def mkAlt (a b : Re) : Re :=
  if sortableB (altList a ++ altList b) then ofAltList (sortAlts (altList a ++ altList b)) else .alt a b

def norm : Re → Re
  | .eps => .eps
  | .cls neg items => normCls neg items
  | .seq a b => mkSeq (norm a) (norm b)
  | .alt a b => mkAlt (norm a) (norm b)
  | .opt a => .opt (norm a)
  | .star a => .star (norm a)
  | .plus a => mkSeq (norm a) (.star (norm a))
  | .group g a => .group g (norm a)
  | .bos => .bos
  | .eos => .eos

section sound
variable {β : Type} (db : CharDB)

theorem normCls_sound (neg : Bool) (items : List ClsItem) (st : St) (k : St → Option β) :
    bt db (normCls neg items) st k = bt db (.cls neg items) st k := by
  unfold normCls
  split
  · rename_i h
    obtain ⟨rest, pos, caps⟩ := st
    cases rest with
    | nil => rw [bt_cls_nil, bt_cls_nil]
    | cons c r => rw [bt_cls_cons, bt_cls_cons, clsEquivB_sound h db neg c]
  · rfl

theorem mkSeq_sound (a b : Re) : ∀ (st : St) (k : St → Option β), bt db (mkSeq a b) st k = bt db (.seq a b) st k := by
  induction a with
  | eps => intro st k; simp [mkSeq, bt_seq, bt_eps]
  | seq a1 a2 _ ih2 =>
    intro st k
    simp only [mkSeq, bt_seq]
    congr 1; funext st'; rw [ih2, bt_seq]
  | cls neg items => intro st k; simp only [mkSeq]; split <;> simp_all [bt_seq, bt_eps]
  | alt a1 a2 => intro st k; simp only [mkSeq]; split <;> simp_all [bt_seq, bt_eps]
  | opt a1 => intro st k; simp only [mkSeq]; split <;> simp_all [bt_seq, bt_eps]
  | star a1 => intro st k; simp only [mkSeq]; split <;> simp_all [bt_seq, bt_eps]
  | plus a1 => intro st k; simp only [mkSeq]; split <;> simp_all [bt_seq, bt_eps]
  | group g a1 => intro st k; simp only [mkSeq]; split <;> simp_all [bt_seq, bt_eps]
  | bos => intro st k; simp only [mkSeq]; split <;> simp_all [bt_seq, bt_eps]
  | eos => intro st k; simp only [mkSeq]; split <;> simp_all [bt_seq, bt_eps]

theorem bt_ofAltList (l : List Re) (st : St) (k : St → Option β) :
    bt db (ofAltList l) st k = l.findSome? (fun a => bt db a st k) := by
  induction l with
  | nil =>
    obtain ⟨rest, pos, caps⟩ := st
    cases rest <;> simp [ofAltList, bt_cls_nil, bt_cls_cons, clsTest]
  | cons a rest ih =>
    cases rest with
    | nil => simp only [ofAltList, List.findSome?_cons, List.findSome?_nil]; cases bt db a st k <;> rfl
    | cons b rest =>
      simp only [ofAltList, bt_alt, ih, List.findSome?_cons]
      cases bt db a st k <;> rfl

theorem findSome_append {α γ : Type} (f : α → Option γ) (l1 l2 : List α) :
    (l1 ++ l2).findSome? f = (l1.findSome? f).or (l2.findSome? f) := by
  induction l1 with
  | nil => simp
  | cons a l ih => simp only [List.cons_append, List.findSome?_cons, ih]; cases f a <;> rfl

theorem bt_altList (r : Re) (st : St) (k : St → Option β) :
    (altList r).findSome? (fun a => bt db a st k) = bt db r st k := by
  induction r with
  | alt a b iha ihb => simp only [altList, findSome_append, iha, ihb, bt_alt]
  | eps => simp only [altList, List.findSome?_cons, List.findSome?_nil]; cases bt db _ st k <;> rfl
  | cls neg items => simp only [altList, List.findSome?_cons, List.findSome?_nil]; cases bt db _ st k <;> rfl
  | seq a b => simp only [altList, List.findSome?_cons, List.findSome?_nil]; cases bt db _ st k <;> rfl
  | opt a => simp only [altList, List.findSome?_cons, List.findSome?_nil]; cases bt db _ st k <;> rfl
  | star a => simp only [altList, List.findSome?_cons, List.findSome?_nil]; cases bt db _ st k <;> rfl
  | plus a => simp only [altList, List.findSome?_cons, List.findSome?_nil]; cases bt db _ st k <;> rfl
  | group g a => simp only [altList, List.findSome?_cons, List.findSome?_nil]; cases bt db _ st k <;> rfl
  | bos => simp only [altList, List.findSome?_cons, List.findSome?_nil]; cases bt db _ st k <;> rfl
  | eos => simp only [altList, List.findSome?_cons, List.findSome?_nil]; cases bt db _ st k <;> rfl

theorem findSome_unique {α γ : Type} [DecidableEq α] (f : α → Option γ) (a : α) (l : List α) (h : ∀ b ∈ l, b ≠ a → f b = none) :
    l.findSome? f = if a ∈ l then f a else none := by
  induction l with
  | nil => simp
  | cons x xs ih =>
    have ih' := ih (fun b hb => h b (List.mem_cons_of_mem _ hb))
    simp only [List.findSome?_cons, List.mem_cons]
    by_cases hx : x = a
    · subst hx
      cases hfx : f x with
      | some v => simp
      | none => simp only [true_or, if_true]; rw [ih']; split <;> simp_all
    · rw [h x List.mem_cons_self hx, ih']
      have : (a = x ∨ a ∈ xs) ↔ a ∈ xs := ⟨fun h => h.resolve_left (fun e => hx e.symm), Or.inr⟩
      simp only [this]

theorem mem_insertA {a x : Re} {l : List Re} : x ∈ insertA a l ↔ x = a ∨ x ∈ l := by
  induction l with
  | nil => simp [insertA]
  | cons y ys ih =>
    simp only [insertA]
    split
    · simp
    · simp only [List.mem_cons, ih]
      constructor
      · rintro (h | h | h) <;> simp_all
      · rintro (h | h | h) <;> simp_all

theorem mem_sortAlts {x : Re} {l : List Re} : x ∈ sortAlts l ↔ x ∈ l := by
  induction l with
  | nil => simp [sortAlts]
  | cons a l ih =>
    have : sortAlts (a :: l) = insertA a (sortAlts l) := rfl
    rw [this, mem_insertA, ih]; simp

/-- among sortable branches at most one can match at a given state -/
theorem sortable_unique {l : List Re} (h : sortableB l = true) (st : St) (k : St → Option β) :
    ∃ a, ∀ b ∈ l, b ≠ a → bt db b st k = none := by
  simp only [sortableB, Bool.and_eq_true, List.all_eq_true, Bool.or_eq_true, Bool.not_eq_true', beq_iff_eq] at h
  obtain ⟨hn, hd⟩ := h
  by_cases hex : ∃ a ∈ l, ∃ c r, st.rest = c :: r ∧ fsTest db (first a) c = true
  · obtain ⟨a, ha, c, r, hr, hc⟩ := hex
    refine ⟨a, fun b hb hne => ?_⟩
    have hdis : fsDisjointB (first a) (first b) = true := by
      rcases hd a ha b hb with e | e
      · exact absurd e.symm hne
      · exact e
    refine (bt_stuck db b st k ?_).1 (hn b hb)
    intro c' r' hr'
    rw [hr] at hr'
    cases hr'
    exact fsDisjointB_sound hdis db c hc
  · refine ⟨.eps, fun b hb _ => (bt_stuck db b st k ?_).1 (hn b hb)⟩
    intro c r hr
    by_cases hc : fsTest db (first b) c = true
    · exact absurd ⟨b, hb, c, r, hr, hc⟩ hex
    · simpa using hc

theorem mkAlt_sound (a b : Re) (st : St) (k : St → Option β) : bt db (mkAlt a b) st k = bt db (.alt a b) st k := by
  unfold mkAlt
  split
  · rename_i h
    obtain ⟨x, hx⟩ := sortable_unique db h st k
    rw [bt_ofAltList, findSome_unique _ x _ (fun b hb => hx b (mem_sortAlts.1 hb)), bt_alt, ← bt_altList db a, ← bt_altList db b,
      ← findSome_append, findSome_unique _ x _ hx]
    simp only [mem_sortAlts]
  · rfl

theorem norm_sound (r : Re) : ∀ (st : St) (k : St → Option β), bt db (norm r) st k = bt db r st k := by
  induction r with
  | eps => intro st k; rfl
  | cls neg items => intro st k; exact normCls_sound db neg items st k
  | seq a b iha ihb =>
    intro st k
    simp only [norm, mkSeq_sound, bt_seq, iha]
    congr 1; funext st'; exact ihb st' k
  | alt a b iha ihb => intro st k; simp only [norm, mkAlt_sound, bt_alt, iha, ihb]
  | opt a iha => intro st k; simp only [norm, bt_opt, iha]
  | star a iha =>
    intro st k
    have : bt (β := β) db (norm a) = bt db a := by funext st' k'; exact iha st' k'
    simp only [norm, bt_star, this]
  | plus a iha =>
    intro st k
    have : bt (β := β) db (norm a) = bt db a := by funext st' k'; exact iha st' k'
    simp only [norm, mkSeq_sound, bt_plus, bt_seq, bt_star, this]
  | group g a iha => intro st k; simp only [norm, bt_group, iha]
  | bos => intro st k; rfl
  | eos => intro st k; rfl

theorem matchAt_norm (r : Re) (cs : List Char) (pos : Nat) : matchAt db (norm r) cs pos = matchAt db r cs pos :=
  norm_sound db r _ _

end sound

/-! ## tools for reading a concrete tree -/
section tools
variable {β : Type} (db : CharDB)

/-- a non-nullable regex fails in front of a character outside its first set (decided by `fsDisjointB`) -/
theorem fails_of_first (R : Re) (P : FS) (hn : nullable R = false) (hd : fsDisjointB P (first R) = true)
    (c : Char) (r : List Char) (pos : Nat) (caps : Caps) (k : St → Option β) (hc : fsTest db P c = true) :
    bt db R ⟨c :: r, pos, caps⟩ k = none :=
  (bt_stuck db R ⟨c :: r, pos, caps⟩ k (by intro c' r' h; cases h; exact fsDisjointB_sound hd db c hc)).1 hn

theorem fails_nil (R : Re) (hn : nullable R = false) (pos : Nat) (caps : Caps) (k : St → Option β) :
    bt db R ⟨[], pos, caps⟩ k = none :=
  (bt_stuck db R ⟨[], pos, caps⟩ k (by intro c' r' h; cases h)).1 hn

/-- longest prefix whose elements satisfy `p`, and the rest -/
def span (p : Char → Bool) : List Char → List Char × List Char
  | [] => ([], [])
  | x :: xs => if p x then (x :: (span p xs).1, (span p xs).2) else ([], x :: xs)

/-- greedy `[class]*`: if, whenever the continuation succeeds in front of a character of the class, it also succeeds after
    the maximal run from there, then the repetition consumes the maximal run -/
theorem star_cls (neg : Bool) (items : List ClsItem) (P : Char → Bool) (hP : ∀ c, clsTest db neg items c = P c) (X : St → Option β)
    (H : ∀ c r pos caps, P c = true → X ⟨c :: r, pos, caps⟩ ≠ none → X ⟨(span P r).2, pos + 1 + (span P r).1.length, caps⟩ ≠ none) :
    ∀ (rest : List Char) (pos : Nat) (caps : Caps),
      bt db (.star (.cls neg items)) ⟨rest, pos, caps⟩ X = X ⟨(span P rest).2, pos + (span P rest).1.length, caps⟩ := by
  have main : ∀ (fuel : Nat) (rest : List Char) (pos : Nat) (caps : Caps), rest.length ≤ fuel →
      starLoop (bt db (.cls neg items)) fuel ⟨rest, pos, caps⟩ X = X ⟨(span P rest).2, pos + (span P rest).1.length, caps⟩ := by
    intro fuel
    induction fuel with
    | zero =>
      intro rest pos caps h
      have : rest = [] := by cases rest <;> simp_all
      subst this; simp [starLoop, span]
    | succ fuel ih =>
      intro rest pos caps h
      rw [starLoop_succ]
      cases rest with
      | nil => simp [bt_cls_nil, span]
      | cons c r =>
        rw [bt_cls_cons, hP]
        by_cases hc : P c = true
        · have hr : r.length ≤ fuel := by simp at h; omega
          simp only [hc, if_true, List.length_cons, Nat.lt_add_one, ih r (pos + 1) caps hr, span]
          have e : pos + ((span P r).1.length + 1) = pos + 1 + (span P r).1.length := by omega
          simp only [e]
          cases hv : X ⟨(span P r).2, pos + 1 + (span P r).1.length, caps⟩ with
          | some v => rfl
          | none =>
            cases hx : X ⟨c :: r, pos, caps⟩ with
            | none => rfl
            | some y => exact absurd hv (H c r pos caps hc (by rw [hx]; simp))
        · have hc' : P c = false := by simpa using hc
          simp [hc', span]
  intro rest pos caps
  rw [bt_star]
  exact main _ rest pos caps (Nat.le_refl _)

/-! ### finite languages: the words of a star-free regex in the matcher's priority order -/

def stripN : List Nat → List Char → Option (List Char)
  | [], s => some s
  | _ :: _, [] => none
  | w :: ws, c :: s => if c.toNat == w then stripN ws s else none

theorem stripN_append (u v : List Nat) (s : List Char) : stripN (u ++ v) s = (stripN u s).bind (stripN v) := by
  induction u generalizing s with
  | nil => rfl
  | cons w ws ih =>
    cases s with
    | nil => rfl
    | cons c s => simp only [List.cons_append, stripN]; split <;> simp [ih]

/-- the words of a regex made of single-code-point classes, `seq`, `alt`, `opt`, in the order the matcher tries them -/
def clsWord : Bool → List ClsItem → Option (List (List Nat))
  | false, [.range a b] => if a = b then some [[a]] else none
  | _, _ => none

theorem clsWord_some {neg : Bool} {items : List ClsItem} {ws : List (List Nat)} (h : clsWord neg items = some ws) :
    ∃ a, neg = false ∧ items = [.range a a] ∧ ws = [[a]] := by
  unfold clsWord at h
  split at h
  · rename_i a b
    split at h
    · rename_i hab; subst hab; cases h; exact ⟨a, rfl, rfl, rfl⟩
    · cases h
  · cases h

theorem findSome_flatMap {α γ δ : Type} (f : γ → Option δ) (g : α → List γ) (l : List α) :
    (l.flatMap g).findSome? f = l.findSome? (fun a => (g a).findSome? f) := by
  induction l with
  | nil => rfl
  | cons a l ih =>
    simp only [List.flatMap_cons, findSome_append, ih, List.findSome?_cons]
    cases (g a).findSome? f <;> rfl

theorem findSome_const_none {α γ : Type} (l : List α) : l.findSome? (fun _ => (none : Option γ)) = none := by
  induction l with
  | nil => rfl
  | cons _ _ ih => simp

def words : Re → Option (List (List Nat))
  | .eps => some [[]]
  | .cls neg items => clsWord neg items
  | .seq a b =>
    match words a, words b with
    | some wa, some wb => some (wa.flatMap (fun u => wb.map (fun v => u ++ v)))
    | _, _ => none
  | .alt a b =>
    match words a, words b with
    | some wa, some wb => some (wa ++ wb)
    | _, _ => none
  | .opt a =>
    match words a with
    | some wa => some (wa ++ [[]])
    | none => none
  | _ => none

/-- try the words in order -/
def tryWords (ws : List (List Nat)) (rest : List Char) (pos : Nat) (caps : Caps) (k : St → Option β) : Option β :=
  ws.findSome? (fun w => (stripN w rest).bind (fun r => k ⟨r, pos + w.length, caps⟩))

theorem bt_words (R : Re) : ∀ (ws : List (List Nat)), words R = some ws → ∀ (rest : List Char) (pos : Nat) (caps : Caps) (k : St → Option β),
    bt db R ⟨rest, pos, caps⟩ k = tryWords ws rest pos caps k := by
  induction R with
  | eps => intro ws h rest pos caps k; cases h; simp [tryWords, bt_eps, stripN]
  | cls neg items =>
    intro ws h rest pos caps k
    obtain ⟨a, rfl, rfl, rfl⟩ := clsWord_some (by simpa [words] using h)
    cases rest with
    | nil => simp [tryWords, bt_cls_nil, stripN]
    | cons c r =>
      rw [bt_cls_cons]
      simp only [tryWords, List.findSome?_cons, List.findSome?_nil, stripN, clsTest, ClsItem.test, List.any_cons, List.any_nil,
        Bool.or_false, List.length_cons, List.length_nil]
      by_cases e : c.toNat = a
      · simp [e]
        cases k ⟨r, pos + 1, caps⟩ <;> rfl
      · have : ¬ (a ≤ c.toNat ∧ c.toNat ≤ a) := fun ⟨p, q⟩ => e (Nat.le_antisymm q p)
        simp [e, this]
  | seq a b iha ihb =>
    intro ws h rest pos caps k
    simp only [words] at h
    cases ha : words a with
    | none => simp [ha] at h
    | some wa =>
      cases hb : words b with
      | none => simp [ha, hb] at h
      | some wb =>
        simp only [ha, hb, Option.some.injEq] at h
        subst h
        rw [bt_seq, iha wa ha]
        simp only [tryWords, findSome_flatMap, List.findSome?_map, Function.comp_def]
        congr 1; funext u
        cases hu : stripN u rest with
        | none =>
          simp only [stripN_append, hu, Option.bind_none]
          exact (findSome_const_none wb).symm
        | some r =>
          simp only [Option.bind_some, ihb wb hb, tryWords, stripN_append, hu, List.length_append, Nat.add_assoc]
  | alt a b iha ihb =>
    intro ws h rest pos caps k
    simp only [words] at h
    cases ha : words a with
    | none => simp [ha] at h
    | some wa =>
      cases hb : words b with
      | none => simp [ha, hb] at h
      | some wb =>
        simp only [ha, hb, Option.some.injEq] at h
        subst h
        rw [bt_alt, iha wa ha, ihb wb hb]
        simp only [tryWords, findSome_append]
  | opt a iha =>
    intro ws h rest pos caps k
    simp only [words] at h
    cases ha : words a with
    | none => simp [ha] at h
    | some wa =>
      simp only [ha, Option.some.injEq] at h
      subst h
      rw [bt_opt, iha wa ha]
      simp [tryWords, stripN]
  | star a => intro ws h; simp [words] at h
  | plus a => intro ws h; simp [words] at h
  | group g a => intro ws h; simp [words] at h
  | bos => intro ws h; simp [words] at h
  | eos => intro ws h; simp [words] at h

theorem stripN_map_append (cs r : List Char) : stripN (cs.map Char.toNat) (cs ++ r) = some r := by
  induction cs with
  | nil => rfl
  | cons c cs ih => simp [stripN, ih]

theorem stripN_some {w : List Nat} {s r : List Char} (h : stripN w s = some r) : ∃ cs, cs.map Char.toNat = w ∧ s = cs ++ r := by
  induction w generalizing s with
  | nil => simp only [stripN, Option.some.injEq] at h; exact ⟨[], rfl, by simp [h]⟩
  | cons k ks ih =>
    cases s with
    | nil => simp [stripN] at h
    | cons c s =>
      simp only [stripN] at h
      split at h
      · rename_i hc
        obtain ⟨cs, h1, h2⟩ := ih h
        exact ⟨c :: cs, by simp [h1, (beq_iff_eq.1 hc)], by simp [h2]⟩
      · cases h

/-- if two words both lead a text, one is a prefix of the other -/
theorem stripN_comparable {w : List Nat} {u r r' : List Char} (h : stripN w (u ++ r) = some r') :
    w <+: u.map Char.toNat ∨ u.map Char.toNat <+: w := by
  induction w generalizing u with
  | nil => left; exact List.nil_prefix
  | cons k ks ih =>
    cases u with
    | nil => right; exact List.nil_prefix
    | cons c u =>
      simp only [List.cons_append, stripN] at h
      split at h
      · rename_i hc
        have hc' := beq_iff_eq.1 hc
        rcases ih h with p | p
        · left; simp only [List.map_cons, hc']; exact (List.cons_prefix_cons).2 ⟨rfl, p⟩
        · right; simp only [List.map_cons, hc']; exact (List.cons_prefix_cons).2 ⟨rfl, p⟩
      · cases h

end tools

end I18n.ReKit
