import I18n.Spec.BraceRe
/-!
# A kit for reasoning about `Spec.BraceRe.bt` (backtracking first-match semantics)

* the defining equations of `bt` as rewrite rules;
* a decision procedure for facts about character classes that hold for ALL characters (`clsEquivB`, `fsDisjointB`):
  a class made of literals and ranges is constant between consecutive break points, so testing the break points decides it;
* `nullable` / `first` and the lemma `bt_stuck`: a regex cannot get past a character outside its first set;
* `norm`: a canonical form (classes as sorted merged ranges, sequences right-nested without `eps`, `x+` as `x x*`,
  alternations of non-nullable branches with pairwise disjoint first sets sorted by their smallest first character), with
  `norm_sound : bt db (norm r) = bt db r`.  A proof about `norm liveTree` therefore survives every respelling of the
  pattern that `norm` identifies.
Core Lean only.
-/
namespace I18n.ReKit
open I18n.Spec.BraceRe

/-! ## equations -/
section eqs
variable {β : Type} (db : CharDB)

theorem bt_eps (st : St) (k : St → Option β) : bt db .eps st k = k st := by simp [bt]
theorem bt_cls_nil (neg items) (pos caps) (k : St → Option β) : bt db (.cls neg items) ⟨[], pos, caps⟩ k = none := by simp [bt]
theorem bt_cls_cons (neg items) (c r pos caps) (k : St → Option β) :
    bt db (.cls neg items) ⟨c :: r, pos, caps⟩ k = if clsTest db neg items c then k ⟨r, pos + 1, caps⟩ else none := by simp [bt]
theorem bt_seq (a b : Re) (st : St) (k : St → Option β) : bt db (.seq a b) st k = bt db a st (fun st' => bt db b st' k) := by simp [bt]
theorem bt_alt (a b : Re) (st : St) (k : St → Option β) : bt db (.alt a b) st k = (bt db a st k).or (bt db b st k) := by
  simp only [bt]; cases bt db a st k <;> rfl
theorem bt_opt (a : Re) (st : St) (k : St → Option β) : bt db (.opt a) st k = (bt db a st k).or (k st) := by
  simp only [bt]; cases bt db a st k <;> rfl
theorem bt_star (a : Re) (st : St) (k : St → Option β) : bt db (.star a) st k = starLoop (bt db a) st.rest.length st k := by simp [bt]
theorem bt_plus (a : Re) (st : St) (k : St → Option β) : bt db (.plus a) st k = bt db (.seq a (.star a)) st k := by simp [bt]
theorem bt_group (g : Nat) (a : Re) (st : St) (k : St → Option β) :
    bt db (.group g a) st k = bt db a st (fun st' => k { st' with caps := (g, st.pos, st'.pos) :: st'.caps }) := by simp [bt]

theorem starLoop_succ (body : St → (St → Option β) → Option β) (fuel : Nat) (st : St) (k : St → Option β) :
    starLoop body (fuel + 1) st k =
      (body st (fun st' => if st'.rest.length < st.rest.length then starLoop body fuel st' k else none)).or (k st) := by
  simp only [starLoop]; cases body st _ <;> rfl

end eqs

/-! ## classes over `Nat`, break points -/

def itemN (n : Nat) : ClsItem → Bool
  | .lit k => n == k
  | .range a b => a ≤ n && n ≤ b
  | _ => false

def itemBps : ClsItem → List Nat
  | .lit k => [k, k + 1]
  | .range a b => [a, b + 1]
  | _ => []

def noCatItem : ClsItem → Bool
  | .lit _ => true | .range _ _ => true | _ => false

theorem item_test_eq (db : CharDB) (c : Char) {it : ClsItem} (h : noCatItem it = true) : it.test db c = itemN c.toNat it := by
  cases it <;> simp_all [noCatItem, ClsItem.test, itemN]

def itemsN (items : List ClsItem) (n : Nat) : Bool := items.any (itemN n)

theorem items_test_eq (db : CharDB) (c : Char) {items : List ClsItem} (h : items.all noCatItem = true) :
    items.any (ClsItem.test db c) = itemsN items c.toNat := by
  induction items with
  | nil => rfl
  | cons it rest ih =>
    simp only [List.all_cons, Bool.and_eq_true] at h
    simp only [List.any_cons, itemsN, item_test_eq db c h.1]
    rw [ih h.2]; rfl

/-- the largest of `0 :: bps` that is `≤ n` -/
def floorGo (n : Nat) : Nat → List Nat → Nat
  | m, [] => m
  | m, b :: bs => floorGo n (if b ≤ n ∧ m ≤ b then b else m) bs

def floor (bps : List Nat) (n : Nat) : Nat := floorGo n 0 bps

theorem floorGo_spec (n : Nat) : ∀ (bs : List Nat) (m : Nat), m ≤ n →
    floorGo n m bs ≤ n ∧ m ≤ floorGo n m bs ∧ (floorGo n m bs = m ∨ floorGo n m bs ∈ bs) ∧ ∀ b ∈ bs, b ≤ n → b ≤ floorGo n m bs := by
  intro bs
  induction bs with
  | nil => intro m h; simp [floorGo, h]
  | cons b bs ih =>
    intro m h
    simp only [floorGo]
    by_cases hb : b ≤ n ∧ m ≤ b
    · simp only [hb, and_self, if_true]
      obtain ⟨h1, h2, h3, h4⟩ := ih b hb.1
      refine ⟨h1, Nat.le_trans hb.2 h2, ?_, ?_⟩
      · rcases h3 with h3 | h3
        · right; rw [h3]; exact List.mem_cons_self
        · right; exact List.mem_cons_of_mem _ h3
      · intro x hx hxn
        rcases List.mem_cons.1 hx with rfl | hx
        · exact h2
        · exact h4 x hx hxn
    · simp only [hb, if_false]
      obtain ⟨h1, h2, h3, h4⟩ := ih m h
      refine ⟨h1, h2, ?_, ?_⟩
      · rcases h3 with h3 | h3
        · left; exact h3
        · right; exact List.mem_cons_of_mem _ h3
      · intro x hx hxn
        rcases List.mem_cons.1 hx with rfl | hx
        · by_cases hmx : m ≤ x
          · exact absurd ⟨hxn, hmx⟩ hb
          · exact Nat.le_trans (Nat.le_of_lt (Nat.lt_of_not_le hmx)) h2
        · exact h4 x hx hxn

theorem floor_le (bps : List Nat) (n : Nat) : floor bps n ≤ n := (floorGo_spec n bps 0 (Nat.zero_le _)).1
theorem floor_mem (bps : List Nat) (n : Nat) : floor bps n ∈ 0 :: bps := by
  rcases (floorGo_spec n bps 0 (Nat.zero_le _)).2.2.1 with h | h
  · unfold floor; rw [h]; exact List.mem_cons_self
  · exact List.mem_cons_of_mem _ h
theorem le_floor {bps : List Nat} {n b : Nat} (hb : b ∈ bps) (h : b ≤ n) : b ≤ floor bps n :=
  (floorGo_spec n bps 0 (Nat.zero_le _)).2.2.2 b hb h

/-- `f` is constant between the break points -/
def Stable (bps : List Nat) (f : Nat → Bool) : Prop := ∀ n, f n = f (floor bps n)

theorem stable_range {bps : List Nat} {a b : Nat} (ha : a ∈ bps) (hb : b + 1 ∈ bps) : Stable bps (fun n => decide (a ≤ n) && decide (n ≤ b)) := by
  intro n
  have h1 := floor_le bps n
  have h2 : a ≤ n → a ≤ floor bps n := le_floor ha
  have h3 : b + 1 ≤ n → b + 1 ≤ floor bps n := le_floor hb
  by_cases p : a ≤ n <;> by_cases q : n ≤ b <;> simp [p, q] <;> omega

theorem stable_item {bps : List Nat} {it : ClsItem} (h : ∀ x ∈ itemBps it, x ∈ bps) : Stable bps (fun n => itemN n it) := by
  cases it with
  | lit k =>
    have := stable_range (bps := bps) (a := k) (b := k) (h k (by simp [itemBps])) (h (k + 1) (by simp [itemBps]))
    intro n
    have e := this n
    simp only [itemN]
    have t : ∀ m : Nat, (m == k) = (decide (k ≤ m) && decide (m ≤ k)) := by
      intro m; by_cases p : m = k
      · subst p; simp
      · have : ¬ (k ≤ m ∧ m ≤ k) := fun ⟨a, b⟩ => p (Nat.le_antisymm b a)
        simp only [beq_eq_false_iff_ne.2 p]
        by_cases q : k ≤ m <;> by_cases r : m ≤ k <;> simp_all
    rw [t, t]; exact e
  | range a b => exact stable_range (h a (by simp [itemBps])) (h (b + 1) (by simp [itemBps]))
  | word => intro n; rfl
  | notWord => intro n; rfl
  | digit => intro n; rfl
  | notDigit => intro n; rfl

theorem stable_items {bps : List Nat} {items : List ClsItem} (h : ∀ x ∈ items.flatMap itemBps, x ∈ bps) : Stable bps (itemsN items) := by
  induction items with
  | nil => intro n; rfl
  | cons it rest ih =>
    intro n
    have h1 : ∀ x ∈ itemBps it, x ∈ bps := fun x hx => h x (by simp [List.flatMap_cons, hx])
    have h2 : ∀ x ∈ rest.flatMap itemBps, x ∈ bps := fun x hx => h x (by simp only [List.flatMap_cons, List.mem_append]; exact Or.inr hx)
    have e1 := stable_item h1 n
    have e2 := ih h2 n
    simp only [itemsN, List.any_cons] at e2 ⊢
    have e1' : itemN n it = itemN (floor bps n) it := e1
    rw [e1', e2]

theorem stable_decide {bps : List Nat} {f : Nat → Bool} (hs : Stable bps f) (h : (0 :: bps).all (fun n => !f n) = true) (n : Nat) : f n = false := by
  rw [hs n]
  have := List.all_eq_true.1 h _ (floor_mem bps n)
  simpa using this

/-- the two item lists denote the same set of code points (decided at the break points) -/
def clsEquivB (a b : List ClsItem) : Bool :=
  a.all noCatItem && b.all noCatItem &&
    (0 :: (a.flatMap itemBps ++ b.flatMap itemBps)).all (fun n => !(itemsN a n != itemsN b n))

theorem clsEquivB_sound {a b : List ClsItem} (h : clsEquivB a b = true) (db : CharDB) (neg : Bool) (c : Char) :
    clsTest db neg a c = clsTest db neg b c := by
  simp only [clsEquivB, Bool.and_eq_true] at h
  obtain ⟨⟨ha, hb⟩, hall⟩ := h
  have hs : Stable (a.flatMap itemBps ++ b.flatMap itemBps) (fun n => itemsN a n != itemsN b n) := by
    intro n
    have e1 := stable_items (bps := a.flatMap itemBps ++ b.flatMap itemBps) (items := a) (fun x hx => List.mem_append_left _ hx) n
    have e2 := stable_items (bps := a.flatMap itemBps ++ b.flatMap itemBps) (items := b) (fun x hx => List.mem_append_right _ hx) n
    simp only [e1, e2]
  have := stable_decide hs hall c.toNat
  simp only [clsTest, items_test_eq db c ha, items_test_eq db c hb]
  have e : itemsN a c.toNat = itemsN b c.toNat := by simpa using this
  rw [e]

/-! ## first sets, nullability -/

/-- a union of (possibly negated) classes -/
abbrev FS := List (Bool × List ClsItem)

def fsTest (db : CharDB) (fs : FS) (c : Char) : Bool := fs.any (fun p => clsTest db p.1 p.2 c)

def nullable : Re → Bool
  | .eps => true
  | .cls _ _ => false
  | .seq a b => nullable a && nullable b
  | .alt a b => nullable a || nullable b
  | .opt _ => true
  | .star _ => true
  | .plus a => nullable a
  | .group _ a => nullable a
  | .bos => true
  | .eos => true

def first : Re → FS
  | .eps => []
  | .cls neg items => [(neg, items)]
  | .seq a b => if nullable a then first a ++ first b else first a
  | .alt a b => first a ++ first b
  | .opt a => first a
  | .star a => first a
  | .plus a => first a
  | .group _ a => first a
  | .bos => []
  | .eos => []

/-- the next character, if any, is outside `fs` -/
def HeadOut (db : CharDB) (fs : FS) (rest : List Char) : Prop := ∀ c r, rest = c :: r → fsTest db fs c = false

theorem HeadOut.append_left {db : CharDB} {f g : FS} {rest : List Char} (h : HeadOut db (f ++ g) rest) : HeadOut db f rest := by
  intro c r hr; have := h c r hr; simp only [fsTest, List.any_append, Bool.or_eq_false_iff] at this; exact this.1
theorem HeadOut.append_right {db : CharDB} {f g : FS} {rest : List Char} (h : HeadOut db (f ++ g) rest) : HeadOut db g rest := by
  intro c r hr; have := h c r hr; simp only [fsTest, List.any_append, Bool.or_eq_false_iff] at this; exact this.2

section stuck
variable {β : Type} (db : CharDB)

theorem starLoop_stuck (body : St → (St → Option β) → Option β) (st : St)
    (hb : ∀ k, (∀ st' : St, st'.rest = st.rest → k st' = none) → body st k = none)
    (fuel : Nat) (k : St → Option β) (hk : ∀ st' : St, st'.rest = st.rest → k st' = none) :
    starLoop body fuel st k = none := by
  cases fuel with
  | zero => simp only [starLoop]; exact hk st rfl
  | succ fuel =>
    rw [starLoop_succ]
    rw [hb _ (fun st' h => by simp [h])]
    simp [hk st rfl]

/-- **a regex cannot get past a character outside its first set**: if the next character is not in `first a` (or the
    input is exhausted), `a` can only match the empty string — so it fails outright when it is not nullable, and it fails
    when the continuation fails on every state with the same remaining input -/
theorem bt_stuck (a : Re) : ∀ (st : St) (k : St → Option β), HeadOut db (first a) st.rest →
    ((nullable a = false → bt db a st k = none) ∧ ((∀ st' : St, st'.rest = st.rest → k st' = none) → bt db a st k = none)) := by
  induction a with
  | eps => intro st k _; exact ⟨by simp [nullable], fun hk => by rw [bt_eps]; exact hk st rfl⟩
  | cls neg items =>
    intro st k h
    have : bt db (.cls neg items) st k = none := by
      obtain ⟨rest, pos, caps⟩ := st
      cases rest with
      | nil => exact bt_cls_nil db ..
      | cons c r =>
        have := h c r rfl
        simp only [first, fsTest, List.any_cons, List.any_nil, Bool.or_false] at this
        rw [bt_cls_cons, this]; rfl
    exact ⟨fun _ => this, fun _ => this⟩
  | seq a b iha ihb =>
    intro st k h
    simp only [first] at h
    by_cases na : nullable a = true
    · simp only [na, if_true] at h
      constructor
      · intro hn
        simp only [nullable, na, Bool.true_and] at hn
        rw [bt_seq]
        exact (iha st _ h.append_left).2 (fun st' hs => (ihb st' k (hs ▸ h.append_right)).1 hn)
      · intro hk
        rw [bt_seq]
        exact (iha st _ h.append_left).2 (fun st' hs => (ihb st' k (hs ▸ h.append_right)).2 (fun st'' hs' => hk st'' (hs'.trans hs)))
    · have na' : nullable a = false := by simpa using na
      simp only [na', Bool.false_eq_true, if_false] at h
      have : bt db (.seq a b) st k = none := by rw [bt_seq]; exact (iha st _ h).1 na'
      exact ⟨fun _ => this, fun _ => this⟩
  | alt a b iha ihb =>
    intro st k h
    simp only [first] at h
    constructor
    · intro hn
      simp only [nullable, Bool.or_eq_false_iff] at hn
      rw [bt_alt, (iha st k h.append_left).1 hn.1, (ihb st k h.append_right).1 hn.2]; rfl
    · intro hk
      rw [bt_alt, (iha st k h.append_left).2 hk, (ihb st k h.append_right).2 hk]; rfl
  | opt a iha =>
    intro st k h
    simp only [first] at h
    exact ⟨by simp [nullable], fun hk => by rw [bt_opt, (iha st k h).2 hk, hk st rfl]; rfl⟩
  | star a iha =>
    intro st k h
    simp only [first] at h
    refine ⟨by simp [nullable], fun hk => ?_⟩
    rw [bt_star]
    exact starLoop_stuck _ st (fun k' hk' => (iha st k' h).2 hk') _ k hk
  | plus a iha =>
    intro st k h
    simp only [first] at h
    constructor
    · intro hn
      rw [bt_plus, bt_seq]; exact (iha st _ h).1 (by simpa [nullable] using hn)
    · intro hk
      rw [bt_plus, bt_seq]
      refine (iha st _ h).2 (fun st' hs => ?_)
      rw [bt_star]
      exact starLoop_stuck _ st' (fun k' hk' => (iha st' k' (hs ▸ h)).2 hk') _ k (fun st'' hs' => hk st'' (hs'.trans hs))
  | group g a iha =>
    intro st k h
    simp only [first] at h
    constructor
    · intro hn; rw [bt_group]; exact (iha st _ h).1 (by simpa [nullable] using hn)
    · intro hk; rw [bt_group]; exact (iha st _ h).2 (fun st' hs => hk _ hs)
  | bos =>
    intro st k _
    refine ⟨by simp [nullable], fun hk => ?_⟩
    simp only [bt]; split
    · exact hk st rfl
    · rfl
  | eos =>
    intro st k _
    refine ⟨by simp [nullable], fun hk => ?_⟩
    simp only [bt]; split
    · exact hk st rfl
    · rfl

end stuck

end I18n.ReKit
