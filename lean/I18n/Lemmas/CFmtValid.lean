import I18n.Lemmas.CFmtConv
/-!
# `conversion false` succeeds exactly on valid directives (with short numerals), adding the directive's references
-/
namespace I18n.CFmt
open I18n.Spec.Printf
open I18n.Generated.CFormatTables (intMaxStrDigits)

set_option maxRecDepth 100000

/-! ## finite facts about the hand-modelled checks (by evaluation over the conversion characters) -/

theorem flagErr_spec : ∀ f ∈ flagChars, ∀ c ∈ convChars,
    (flagErr f c = none ↔ c ∈ flagConvs f) ∧ (flagErr f c = none ∨ flagErr f c = some .FlagError) := by decide +kernel

theorem width_conv_spec : ∀ c ∈ convChars, ((c == '%' || c == 'n') = false ↔ c ∈ widthConvs) := by decide +kernel

theorem prec_conv_spec : ∀ c ∈ convChars,
    ((Generated.CFormatTables.intCvt ++ Generated.CFormatTables.floatCvt ++ Generated.CFormatTables.strCvt).contains c = true
      ↔ c ∈ precConvs) := by decide +kernel

theorem index_conv_spec : ∀ c ∈ convChars, (c ∈ indexConvs ↔ c ≠ '%') ∧ (c ∈ consuming → c ∈ indexConvs) := by decide +kernel

def voidOK (len : Option Len) (c : Char) : Bool :=
  match stdType len c with
  | some ti => decide (ti.type = "void") == !decide (c ∈ consuming)
  | none => true

theorem void_spec : ∀ len ∈ allLens, ∀ c ∈ convChars, voidOK len c = true := by decide +kernel

theorem pri_not_void : ∀ c ∈ priConvChars, ∀ l ∈ allPriLens, priType c l ≠ "void" ∧ c ∈ consuming ∧ c ∈ convChars := by
  decide +kernel

theorem body_conv_mem {b : Body} (hb : b.Wf) : b.conv ∈ convChars := by
  cases b with
  | std len conv => exact hb
  | pri conv len => exact (pri_not_void conv hb _ (mem_allPriLens len)).2.2

theorem body_void {b : Body} (hb : b.Wf) {ti : TypeInfo} (h : b.typeInfo = some ti) :
    ti.type = "void" ↔ b.conv ∉ consuming := by
  cases b with
  | std len conv =>
    have := void_spec len (mem_allLens len) conv hb
    simp only [Body.typeInfo] at h
    simp only [voidOK, h] at this
    simp only [Body.conv]
    constructor
    · intro hv hc; simp [hv, hc] at this
    · intro hc; simpa [hc] using this
  | pri conv len =>
    have := pri_not_void conv hb len (mem_allPriLens len)
    have hb' : conv ∈ priConvChars := hb
    simp only [Body.typeInfo, hb', if_true, Option.some.injEq] at h
    subst h
    simp only [Body.conv]
    constructor
    · intro hv; exact absurd hv this.1
    · intro hc; exact absurd this.2.1 hc


/-! ## folding `add_argument` over a list of references -/

def addAll : St → List Ref → Except CErr St
  | st, [] => .ok st
  | st, r :: rs =>
    match addArgument st r.idx r.entry with
    | .error e => .error e
    | .ok st' => addAll st' rs

theorem addAll_single (st : St) (r : Ref) : addAll st [r] = addArgument st r.idx r.entry := by
  simp only [addAll]
  cases addArgument st r.idx r.entry <;> rfl

theorem addAll_append (st : St) (a b : List Ref) :
    addAll st (a ++ b) = match addAll st a with
      | .error e => .error e
      | .ok st' => addAll st' b := by
  induction a generalizing st with
  | nil => rfl
  | cons r rs ih =>
    simp only [List.cons_append, addAll]
    cases addArgument st r.idx r.entry with
    | error e => rfl
    | ok st' => exact ih st'

theorem addArgument_nitems {st st' : St} {n : Option Nat} {v : Entry} (h : addArgument st n v = .ok st') :
    st'.nitems = st.nitems ∧ st'.warnings = st.warnings := by
  unfold addArgument at h
  cases n <;> simp only [] at h <;> cases hn : st.next <;> simp only [hn] at h <;>
    (repeat' split at h) <;> first | (cases h; done) | (cases h; exact ⟨rfl, rfl⟩)

theorem addAll_nitems : ∀ {rs : List Ref} {st st' : St}, addAll st rs = .ok st' →
    st'.nitems = st.nitems ∧ st'.warnings = st.warnings
  | [], st, st', h => by cases h; exact ⟨rfl, rfl⟩
  | r :: rs, st, st', h => by
    simp only [addAll] at h
    cases h1 : addArgument st r.idx r.entry with
    | error e => rw [h1] at h; cases h
    | ok st1 =>
      rw [h1] at h
      have a := addArgument_nitems h1
      have b := addAll_nitems h
      exact ⟨b.1.trans a.1, b.2.trans a.2⟩

/-! ## numerals within the `int()` limit -/

def IdxShort : Option (List Char) → Prop
  | none => True
  | some ds => IntFits ds.length

def WidthShort : Width → Prop
  | .none => True
  | .num ds => IntFits ds.length
  | .star idx => IdxShort idx

def PrecShort : Prec → Prop
  | .none => True
  | .num ds => IntFits ds.length
  | .star idx => IdxShort idx

/-- every numeral of the directive has at most `sys.get_int_max_str_digits()` digits -/
structure DirShort (d : Directive) : Prop where
  index : IdxShort d.index
  width : WidthShort d.width
  prec : PrecShort d.prec

theorem pyInt_eq (ds : List Char) :
    pyInt ds = if IntFits ds.length then .ok (decimal ds) else .error (.crash .ValueError) := by
  rfl

theorem argIndex_eq (ds : List Char) :
    argIndex ds =
      if IntFits ds.length then
        (if 1 ≤ decimal ds ∧ decimal ds ≤ Spec.Printf.NL_ARGMAX then .ok (decimal ds) else .error .ArgumentRangeError)
      else .error (.crash .ValueError) := by
  have e : (decide (0 < decimal ds) && decide (decimal ds ≤ Spec.Printf.NL_ARGMAX)) =
      decide (1 ≤ decimal ds ∧ decimal ds ≤ Spec.Printf.NL_ARGMAX) := (Bool.decide_and _ _).symm
  unfold argIndex
  rw [pyInt_eq]
  by_cases hl : IntFits ds.length
  · simp only [hl, if_true]
    rw [nl_argmax_pin, e]
    by_cases hr : 1 ≤ decimal ds ∧ decimal ds ≤ Spec.Printf.NL_ARGMAX
    · simp [hr]
    · simp [hr]
  · simp only [hl, if_false]

theorem optIndex_ok_iff (idx : Option (List Char)) (i : Option Nat) :
    optIndex idx = .ok i ↔ IdxShort idx ∧ IdxInRange idx ∧ i = idxValue idx := by
  cases idx with
  | none => simp [optIndex, IdxShort, IdxInRange, idxValue, eq_comm]
  | some ds =>
    simp only [optIndex, argIndex_eq, IdxShort, IdxInRange, idxValue]
    by_cases hl : IntFits ds.length
    · by_cases hr : 1 ≤ decimal ds ∧ decimal ds ≤ Spec.Printf.NL_ARGMAX
      · simp [hl, hr, eq_comm]
      · simp [hl, hr]
    · simp [hl]

/-- whatever `optIndex` fails with is the module's own error unless a numeral is too long -/
theorem optIndex_error {idx : Option (List Char)} {e : CErr} (h : optIndex idx = .error e) :
    e = .ArgumentRangeError ∨ (e = .crash .ValueError ∧ ¬ IdxShort idx) := by
  cases idx with
  | none => simp [optIndex] at h
  | some ds =>
    simp only [optIndex, argIndex_eq, IdxShort] at h ⊢
    by_cases hl : IntFits ds.length
    · by_cases hr : 1 ≤ decimal ds ∧ decimal ds ≤ Spec.Printf.NL_ARGMAX
      · simp [hl, hr] at h
      · simp [hl, hr] at h; exact Or.inl h.symm
    · simp [hl] at h; exact Or.inr ⟨h.symm, hl⟩

/-! ## the stages of `Conversion.__init__` with warnings off -/

theorem mem_distinct {x : Char} : ∀ {l : List Char}, x ∈ distinct l ↔ x ∈ l
  | [] => by simp [distinct]
  | c :: cs => by
    have ih := mem_distinct (x := x) (l := cs)
    by_cases h : x = c
    · subst h; simp [distinct]
    · simp only [distinct, List.mem_cons, List.mem_filter, ih, h, false_or]
      constructor
      · exact fun hh => hh.1
      · exact fun hh => ⟨hh, by simpa using h⟩

theorem flagLoop_false_ok_iff (flags : List Char) (conv : Char) : ∀ (fs : List Char) (st st' : St),
    flagLoop false flags conv fs st = .ok st' ↔ st' = st ∧ ∀ f ∈ fs, flagErr f conv = none
  | [], st, st' => by simp [flagLoop, eq_comm]
  | f :: fs, st, st' => by
    simp only [flagLoop, warn_false, ite_self, List.mem_cons, forall_eq_or_imp]
    cases hf : flagErr f conv with
    | some e => simp
    | none => simpa using flagLoop_false_ok_iff flags conv fs st st'

theorem checkFlags_false_ok_iff (st st' : St) (flags : List Char) (conv : Char) :
    checkFlags false st flags conv = .ok st' ↔ st' = st ∧ ∀ f ∈ flags, flagErr f conv = none := by
  unfold checkFlags
  cases h : flagLoop false flags conv (distinct flags) st with
  | error e =>
    have := (not_congr (flagLoop_false_ok_iff flags conv (distinct flags) st st)).1 (by rw [h]; exact fun hh => by cases hh)
    simp only [true_and, mem_distinct] at this
    simp only
    constructor
    · intro hh; cases hh
    · rintro ⟨_, hh⟩; exact absurd hh this
  | ok st1 =>
    obtain ⟨rfl, h2⟩ := (flagLoop_false_ok_iff flags conv (distinct flags) st st1).1 h
    simp only [mem_distinct] at h2
    simp only [warn_false, ite_self, Except.ok.injEq]
    constructor
    · intro hh; exact ⟨hh.symm, h2⟩
    · intro hh; exact hh.1.symm

def widthRefs (w : Width) (parent : Nat) : List Ref :=
  match w with
  | .star idx => [⟨idxValue idx, ⟨.width, "int", parent⟩⟩]
  | _ => []

def precRefs (p : Prec) (parent : Nat) : List Ref :=
  match p with
  | .star idx => [⟨idxValue idx, ⟨.prec, "int", parent⟩⟩]
  | _ => []

theorem error_ne_ok {α : Type} {e : CErr} {a : α} : (Except.error e : Except CErr α) = .ok a ↔ False :=
  ⟨fun h => (by cases h), False.elim⟩

/-- the common tail of the width/precision stages: an applicability test -/
theorem stage_tail {st st' : St} {b : Bool} {P : Prop} {e : CErr} (hb : b = false ↔ P) :
    (if b = true then (Except.error e : Except CErr St) else .ok st) = .ok st' ↔ P ∧ st = st' := by
  cases b with
  | true =>
    have : ¬P := fun h => by have := hb.2 h; cases this
    simp only [if_true, error_ne_ok, this, false_and]
  | false =>
    have : P := hb.1 rfl
    simp only [Bool.false_eq_true, if_false, Except.ok.injEq, this, true_and]

theorem doWidth_ok_iff {conv : Char} (hc : conv ∈ convChars) (st st' : St) (w : Width) (parent : Nat) :
    doWidth st w conv parent = .ok st' ↔ WidthShort w ∧ w.Valid conv ∧ addAll st (widthRefs w parent) = .ok st' := by
  have hcs := width_conv_spec conv hc
  cases w with
  | none =>
    simp only [doWidth, WidthShort, Width.Valid, widthRefs, addAll, true_and]
  | num ds =>
    simp only [doWidth, pyInt_eq, WidthShort, Width.Valid, widthRefs, addAll, ← int_max_pin, Except.ok.injEq]
    by_cases hl : IntFits ds.length
    · simp only [hl, if_true, true_and]
      by_cases hv : decimal ds > Generated.CFormatTables.INT_MAX
      · simp only [hv, if_true, error_ne_ok, Nat.not_le.2 hv, false_and]
      · simp only [hv, if_false, Nat.not_lt.1 hv, true_and]
        exact stage_tail hcs
    · simp only [hl, if_false, error_ne_ok, false_and]
  | star idx =>
    simp only [doWidth, WidthShort, Width.Valid, widthRefs, addAll_single, star_type_pin.1]
    cases ho : optIndex idx with
    | error e =>
      have := (not_congr (optIndex_ok_iff idx (idxValue idx))).1 (by rw [ho]; exact fun hh => by cases hh)
      simp only [and_true] at this
      simp only [error_ne_ok, false_iff]
      rintro ⟨h1, h2, _⟩
      exact this ⟨h1, h2.1⟩
    | ok i =>
      obtain ⟨h1, h2, rfl⟩ := (optIndex_ok_iff idx i).1 ho
      simp only [h1, h2, true_and]
      cases ha : addArgument st (idxValue idx) ⟨.width, "int", parent⟩ with
      | error e => simp only [error_ne_ok, and_false]
      | ok st1 =>
        simp only [Except.ok.injEq]
        exact stage_tail hcs

theorem precTail_iff {conv : Char} (hc : conv ∈ convChars) (flags : List Char) (st st' : St) :
    (if (Generated.CFormatTables.intCvt ++ Generated.CFormatTables.floatCvt ++ Generated.CFormatTables.strCvt).contains conv = true then
        Except.ok (if (Generated.CFormatTables.intCvt.contains conv && flags.contains '0') = true then warn false st .RedundantFlag else st)
      else (Except.error CErr.PrecisionError : Except CErr St)) = .ok st' ↔ conv ∈ precConvs ∧ st = st' := by
  have hcs := prec_conv_spec conv hc
  by_cases hb : (Generated.CFormatTables.intCvt ++ Generated.CFormatTables.floatCvt ++ Generated.CFormatTables.strCvt).contains conv = true
  · simp only [hb, if_true, warn_false, ite_self, Except.ok.injEq, hcs.1 hb, true_and]
  · have : conv ∉ precConvs := fun h => hb (hcs.2 h)
    rw [if_neg hb]
    simp only [error_ne_ok, this, false_and]

theorem doPrec_ok_iff {conv : Char} (hc : conv ∈ convChars) (st st' : St) (p : Prec) (flags : List Char) (parent : Nat) :
    doPrec false st p flags conv parent = .ok st' ↔ PrecShort p ∧ p.Valid conv ∧ addAll st (precRefs p parent) = .ok st' := by
  cases p with
  | none =>
    simp only [doPrec, PrecShort, Prec.Valid, precRefs, addAll, true_and]
  | num ds =>
    have hdec : decimal (if ds.isEmpty then ['0'] else ds) = decimal ds := by
      cases ds with
      | nil => rfl
      | cons d ds' => rfl
    have hlen : IntFits (if ds.isEmpty then ['0'] else ds).length ↔ IntFits ds.length := by
      cases ds with
      | nil => exact ⟨fun _ => Or.inr (Nat.zero_le _), fun _ => by show IntFits 1; unfold IntFits; omega⟩
      | cons d ds' => exact Iff.rfl
    simp only [doPrec, pyInt_eq, PrecShort, Prec.Valid, precRefs, addAll, ← int_max_pin, hdec, Except.ok.injEq]
    by_cases hl : IntFits ds.length
    · simp only [hlen.2 hl, hl, if_true, true_and]
      by_cases hv : decimal ds > Generated.CFormatTables.INT_MAX
      · simp only [hv, if_true, error_ne_ok, Nat.not_le.2 hv, false_and]
      · simp only [hv, if_false, Nat.not_lt.1 hv, true_and]
        exact precTail_iff hc flags st st'
    · simp only [mt hlen.1 hl, hl, if_false, error_ne_ok, false_and]
  | star idx =>
    simp only [doPrec, PrecShort, Prec.Valid, precRefs, addAll_single, star_type_pin.2]
    cases ho : optIndex idx with
    | error e =>
      have := (not_congr (optIndex_ok_iff idx (idxValue idx))).1 (by rw [ho]; exact fun hh => by cases hh)
      simp only [and_true] at this
      simp only [error_ne_ok, false_iff]
      rintro ⟨h1, h2, _⟩
      exact this ⟨h1, h2.1⟩
    | ok i =>
      obtain ⟨h1, h2, rfl⟩ := (optIndex_ok_iff idx i).1 ho
      simp only [h1, h2, true_and]
      cases ha : addArgument st (idxValue idx) ⟨.prec, "int", parent⟩ with
      | error e => simp only [error_ne_ok, and_false]
      | ok st1 =>
        simp only [Except.ok.injEq]
        exact precTail_iff hc flags st1 st'


def convRefs (d : Directive) (parent : Nat) : List Ref :=
  if d.body.conv ∈ consuming then [⟨idxValue d.index, ⟨.conv, d.body.typeName, parent⟩⟩] else []

theorem refs_eq (d : Directive) (p : Nat) : d.refs p = widthRefs d.width p ++ (precRefs d.prec p ++ convRefs d p) := rfl

theorem idxValue_isSome (idx : Option (List Char)) : (idxValue idx).isSome = true ↔ idx ≠ none := by
  cases idx <;> simp [idxValue]

theorem doIndex_ok_iff {d : Directive} (hb : d.body.Wf) {ti : TypeInfo} (hti : d.body.typeInfo = some ti)
    (st st' : St) (parent : Nat) :
    doIndex st d.index ti.type d.body.conv parent = .ok st' ↔
      IdxShort d.index ∧ IdxInRange d.index ∧ (d.index ≠ none → d.body.conv ∈ indexConvs) ∧
        addAll st (convRefs d parent) = .ok st' := by
  have hc := body_conv_mem hb
  have hv := body_void hb hti
  have hi := index_conv_spec _ hc
  have htn : d.body.typeName = ti.type := by simp [Body.typeName, hti]
  unfold doIndex
  cases ho : optIndex d.index with
  | error e =>
    have := (not_congr (optIndex_ok_iff d.index (idxValue d.index))).1 (by rw [ho]; exact fun hh => by cases hh)
    simp only [and_true] at this
    simp only [error_ne_ok, false_iff]
    rintro ⟨h1, h2, _⟩
    exact this ⟨h1, h2⟩
  | ok i =>
    obtain ⟨h1, h2, rfl⟩ := (optIndex_ok_iff d.index i).1 ho
    simp only [h1, h2, true_and, beq_iff_eq]
    by_cases hvoid : ti.type = "void"
    · have hnc : d.body.conv ∉ consuming := hv.1 hvoid
      simp only [hvoid, if_true, convRefs, hnc, if_false, addAll, Except.ok.injEq]
      by_cases hx : ((idxValue d.index).isSome && d.body.conv == '%') = true
      · have hx' : d.index ≠ none ∧ d.body.conv = '%' := by
          simpa [idxValue_isSome] using hx
        have : ¬(d.index ≠ none → d.body.conv ∈ indexConvs) := fun h => (hi.1.1 (h hx'.1)) hx'.2
        simp only [hx, if_true, error_ne_ok, this, false_and]
      · have hx' : d.index ≠ none → d.body.conv ≠ '%' := by
          intro hn hp
          exact hx (by simp [(idxValue_isSome _).2 hn, hp])
        have : d.index ≠ none → d.body.conv ∈ indexConvs := fun h => hi.1.2 (hx' h)
        simp only [hx, Bool.false_eq_true, if_false, Except.ok.injEq]
        exact ⟨fun h => ⟨this, h⟩, fun h => h.2⟩
    · have hcn : d.body.conv ∈ consuming := Classical.not_not.1 (fun h => hvoid (hv.2 h))
      have : d.index ≠ none → d.body.conv ∈ indexConvs := fun _ => hi.2 hcn
      simp only [hvoid, if_false, convRefs, hcn, if_true, addAll_single, htn]
      exact ⟨fun h => ⟨this, h⟩, fun h => h.2⟩

theorem addAll_append_ok_iff (st st' : St) (a b : List Ref) :
    addAll st (a ++ b) = .ok st' ↔ ∃ st1, addAll st a = .ok st1 ∧ addAll st1 b = .ok st' := by
  rw [addAll_append]
  cases addAll st a with
  | error e => simp [error_ne_ok]
  | ok st1 => simp

/-- **One directive.**  With warnings off, `Conversion(parent, match)` succeeds exactly when the directive is a
    valid conversion specification whose numerals `int()` accepts, and then it has registered the
    directive's argument references, in order. -/
theorem conversion_ok_iff {d : Directive} (hd : d.Wf) (st st' : St) :
    conversion false st d = .ok st' ↔
      DirShort d ∧ ValidDirective d ∧ addAll st (d.refs st.nitems) = .ok st' := by
  have hc := body_conv_mem hd.body
  unfold conversion
  rw [typeInfo_spec hd.body]
  cases hti : d.body.typeInfo with
  | none =>
    simp only [error_ne_ok, false_iff]
    rintro ⟨_, hv, _⟩
    exact hv.typed hti
  | some ti =>
    simp only [warn_false, ite_self]
    constructor
    · intro h
      cases h1 : checkFlags false st d.flags d.body.conv with
      | error e => rw [h1] at h; cases h
      | ok st1 =>
        rw [h1] at h
        simp only at h
        obtain ⟨rfl, hfl⟩ := (checkFlags_false_ok_iff _ _ _ _).1 h1
        cases h2 : doWidth st1 d.width d.body.conv st1.nitems with
        | error e => rw [h2] at h; cases h
        | ok st2 =>
          rw [h2] at h
          simp only at h
          obtain ⟨ws, wv, wa⟩ := (doWidth_ok_iff hc _ _ _ _).1 h2
          cases h3 : doPrec false st2 d.prec d.flags d.body.conv st2.nitems with
          | error e => rw [h3] at h; cases h
          | ok st3 =>
            rw [h3] at h
            simp only at h
            obtain ⟨ps, pv, pa⟩ := (doPrec_ok_iff hc _ _ _ _ _).1 h3
            obtain ⟨is, ir, ia, ca⟩ := (doIndex_ok_iff hd.body hti _ _ _).1 h
            have n2 := (addAll_nitems wa).1
            have n3 := (addAll_nitems pa).1
            rw [n2] at pa
            rw [n3, n2] at ca
            refine ⟨⟨is, ws, ps⟩, ⟨hd, (by rw [hti]; simp), ?_, wv, pv, ir, ia⟩, ?_⟩
            · intro f hf
              exact ((flagErr_spec f (hd.flags f hf) _ hc).1).1 (hfl f hf)
            · rw [refs_eq, addAll_append_ok_iff]
              refine ⟨st2, wa, ?_⟩
              rw [addAll_append_ok_iff]
              exact ⟨st3, pa, ca⟩
    · rintro ⟨⟨is, ws, ps⟩, hv, ha⟩
      rw [refs_eq, addAll_append_ok_iff] at ha
      obtain ⟨st2, wa, ha⟩ := ha
      rw [addAll_append_ok_iff] at ha
      obtain ⟨st3, pa, ca⟩ := ha
      have n2 := (addAll_nitems wa).1
      have n3 := (addAll_nitems pa).1
      have e1 : checkFlags false st d.flags d.body.conv = .ok st :=
        (checkFlags_false_ok_iff _ _ _ _).2 ⟨rfl, fun f hf => ((flagErr_spec f (hd.flags f hf) _ hc).1).2 (hv.flags f hf)⟩
      have e2 : doWidth st d.width d.body.conv st.nitems = .ok st2 := (doWidth_ok_iff hc _ _ _ _).2 ⟨ws, hv.width, wa⟩
      have e3 : doPrec false st2 d.prec d.flags d.body.conv st2.nitems = .ok st3 :=
        (doPrec_ok_iff hc _ _ _ _ _).2 ⟨ps, hv.prec, by rw [n2]; exact pa⟩
      have e4 : doIndex st3 d.index ti.type d.body.conv st3.nitems = .ok st' :=
        (doIndex_ok_iff hd.body hti _ _ _).2 ⟨is, hv.indexRange, hv.indexAllowed, by rw [n3, n2]; exact ca⟩
      simp only [e1, e2, e3, e4]

end I18n.CFmt
