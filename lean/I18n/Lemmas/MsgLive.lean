import I18n.Lemmas.MsgNoCrash
/-
The environment generated from /repo (`liveEnv`) is `Sane`, whatever expat answers as long as it raises nothing but `ExpatError`.
-/
namespace I18n.Msg
open I18n.Tags
open I18n.Spec.MessageRules

theorem mem_findAllFrom (word : Nat → Bool) (alts : List Alt) : ∀ (s : Str) (prev : Option Nat) (c : Nat),
    c ∈ findAllFrom word alts prev s → ∃ a ∈ alts, ccMatch word a.2.1 c = true
  | [], _, _, h => by simp [findAllFrom] at h
  | x :: rest, prev, c, h => by
    simp only [findAllFrom] at h
    split at h
    · rename_i hit
      rcases List.mem_cons.mp h with rfl | h
      · simp only [List.any_eq_true, altMatch, Bool.and_eq_true] at hit
        obtain ⟨a, ha, ⟨_, hc⟩, _⟩ := hit
        exact ⟨a, ha, hc⟩
      · exact mem_findAllFrom word alts rest _ c h
    · exact mem_findAllFrom word alts rest _ c h

/-- every code point of an inclusive range satisfies `p` -/
def allInRange (p : Nat → Bool) (r : Nat × Nat) : Bool := (List.range (r.2 - r.1 + 1)).all fun i => p (r.1 + i)

theorem allInRange_spec {p : Nat → Bool} {r : Nat × Nat} (h : allInRange p r = true) {c : Nat} (h1 : r.1 ≤ c) (h2 : c ≤ r.2) :
    p c = true := by
  simp only [allInRange, List.all_eq_true, List.mem_range] at h
  have := h (c - r.1) (by omega)
  rwa [show r.1 + (c - r.1) = c by omega] at this

/-- the generated class is positive, `\w`-free, and every code point in it has a name in the probed table -/
def liveNamesOk : Bool :=
  Generated.StringFormats.unusualAlts.all fun a =>
    !a.2.1.1 && !a.2.1.2.2 &&
      a.2.1.2.1.all (allInRange fun c => ((assocGet c Generated.StringFormats.unusualNames).getD none).isSome)

theorem liveNamesOk_true : liveNamesOk = true := by decide +kernel

theorem live_names (xml : Str → XmlVerdict) (s : Str) (c : Nat) (h : c ∈ (liveEnv xml).findUnusual s) :
    ((liveEnv xml).charName c).isSome := by
  obtain ⟨a, ha, hc⟩ := mem_findAllFrom _ _ s none c h
  have hok := liveNamesOk_true
  simp only [liveNamesOk, List.all_eq_true, Bool.and_eq_true, Bool.not_eq_true'] at hok
  obtain ⟨⟨hneg, hw⟩, hr⟩ := hok a ha
  simp only [ccMatch, hneg, hw, Bool.false_and, Bool.or_false, Bool.false_eq_true, if_false, inRanges,
    List.any_eq_true, Bool.and_eq_true, decide_eq_true_eq] at hc
  obtain ⟨r, hrm, h1, h2⟩ := hc
  exact allInRange_spec (hr r hrm) h1 h2

theorem live_braces : ∀ f ∈ Generated.StringFormats.stringFormats, ∀ c ∈ f.1, c ≠ 123 ∧ c ≠ 125 := by decide
theorem live_prefixBraces : ∀ p ∈ Generated.StringFormats.formatPrefixes, ∀ c ∈ p, c ≠ 123 ∧ c ≠ 125 := by decide

/-- the running tool's environment is sane as long as expat raises nothing but `ExpatError` -/
theorem live_sane (xml : Str → XmlVerdict) (hx : ∀ s, xml s ≠ .other) : Sane (liveEnv xml) :=
  ⟨hx, live_names xml, live_braces, live_prefixBraces⟩

end I18n.Msg
