import I18n.Lemmas.MsgBasic
import I18n.Spec.MessageRules
/-
The loop of `_check_message_flags` against the per-flag rules: after the distinct flags `done` (in sorted order) the state is
the per-flag diagnostics of `done`, the two dictionaries folded over `done`, and the scalar fields determined by `done`.
-/
namespace I18n.Msg
open I18n.Tags (Str lit Extra)
open I18n.Spec.MessageRules

def wrapState (done : List Str) : Option Bool :=
  if lit "no-wrap" ∈ done then some false else if lit "wrap" ∈ done then some true else none

structure Inv (env : FlagEnv) (e : Entry) (flags done : List Str) (st : FSt) : Prop where
  out : st.out = done.flatMap (perFlag env e flags)
  ff : st.formatFlags = formatDict env done
  rf : st.rangeFlags = rangeDict env flags done
  fuzzy : st.fuzzy = decide (lit "fuzzy" ∈ done)
  wrap : st.wrap = wrapState done
  rmin : st.rangeMin = ((lastRange env done).map (·.1)).getD 0
  rmax : st.rangeMax = (lastRange env done).map (·.2)

theorem fuzzy_ne_wrap : lit "fuzzy" ≠ lit "wrap" := by decide
theorem fuzzy_ne_nowrap : lit "fuzzy" ≠ lit "no-wrap" := by decide
theorem wrap_ne_nowrap : lit "wrap" ≠ lit "no-wrap" := by decide

theorem formatDict_snoc (env : FlagEnv) (done : List Str) (f : Str) :
    formatDict env (done ++ [f]) = formatStep env (formatDict env done) f := by
  simp [formatDict, List.foldl_append]

theorem rangeDict_snoc (env : FlagEnv) (flags done : List Str) (f : Str) :
    rangeDict env flags (done ++ [f]) = rangeStep env flags (rangeDict env flags done) f := by
  simp [rangeDict, List.foldl_append]

theorem lastRange_snoc (env : FlagEnv) (done : List Str) (f : Str) :
    lastRange env (done ++ [f]) = lastStep env (lastRange env done) f := by
  simp [lastRange, List.foldl_append]

def addOut (st : FSt) (x : List Emit) : FSt := { st with out := st.out ++ x }

/-- the `if / elif` chain, read through the kind of the flag -/
theorem flagBranch_eq (env : FlagEnv) (e : Entry) (st : FSt) (f : Str) (n : Nat) :
    flagBranch env e st f n =
      match flagKind env f with
      | .fuzzy => (true, n, { st with fuzzy := true })
      | .wrap =>
        if st.wrap = some false then
          (true, n, addOut st [tagR env.db e tplColon .conflictingMessageFlags [.str (lit "wrap"), .str (lit "no-wrap")]])
        else (true, n, { st with wrap := some true })
      | .noWrap =>
        if st.wrap = some true then
          (true, n, addOut st [tagR env.db e tplColon .conflictingMessageFlags [.str (lit "wrap"), .str (lit "no-wrap")]])
        else (true, n, { st with wrap := some false })
      | .range r =>
        let st' := addOut st (rule e.msgidPlural.isNone (.tag .rangeFlagWithoutPluralString []))
        match r with
        | some (i, j) => (true, 0, { st' with rangeMin := i, rangeMax := some j, rangeFlags := rangeAdd (i, j) f n st'.rangeFlags })
        | none => (true, n, addOut st' [tagR env.db e tplColon .invalidRangeFlag [.str f]])
      | .format tp fmt => (true, n, { st with formatFlags := assocSet (tp, fmt) f st.formatFlags })
      | .markdownText => (true, n, st)
      | .unknown => (false, n, st) := by
  unfold flagBranch flagKind
  by_cases h1 : f = lit "fuzzy"
  · simp [h1]
  · by_cases h2 : f = lit "wrap"
    · subst h2; simp [h1, addOut]
    · by_cases h3 : f = lit "no-wrap"
      · subst h3; simp [h1, h2, addOut]
      · simp only [h1, h2, h3, if_false, or_self]
        by_cases h4 : startsWith env.rangePrefix f = true
        · simp only [h4, if_true]
          cases hp : parseRange env f with
          | none => cases hpl : e.msgidPlural <;> simp [addOut, rule]
          | some ij => obtain ⟨i, j⟩ := ij; cases hpl : e.msgidPlural <;> simp [addOut, rule]
        · simp only [h4, Bool.false_eq_true, if_false]
          by_cases h5 : endsWith formatSuffix f = true
          · simp only [h5, if_true]
            cases hc : classifyFormat env f env.prefixes with
            | none => simp
            | some x => obtain ⟨tp, fmt⟩ := x; simp
          · simp only [h5, Bool.false_eq_true, if_false]
            by_cases h6 : f = lit "markdown-text" <;> simp [h6]

theorem kind_fuzzy_iff (env : FlagEnv) (f : Str) : flagKind env f = .fuzzy ↔ f = lit "fuzzy" := by
  unfold flagKind
  constructor
  · intro h
    by_cases h1 : f = lit "fuzzy"
    · exact h1
    · simp only [h1, if_false] at h
      repeat (first | split at h | cases h)
  · intro h; simp [h]

theorem kind_wrap_iff (env : FlagEnv) (f : Str) : flagKind env f = .wrap ↔ f = lit "wrap" := by
  unfold flagKind
  constructor
  · intro h
    by_cases h1 : f = lit "fuzzy"
    · simp [h1] at h
    · by_cases h2 : f = lit "wrap"
      · exact h2
      · simp only [h1, h2, if_false] at h
        repeat (first | split at h | cases h)
  · intro h; subst h; simp [fuzzy_ne_wrap.symm]

theorem kind_noWrap_iff (env : FlagEnv) (f : Str) : flagKind env f = .noWrap ↔ f = lit "no-wrap" := by
  unfold flagKind
  constructor
  · intro h
    by_cases h1 : f = lit "fuzzy"
    · simp [h1] at h
    · by_cases h2 : f = lit "wrap"
      · subst h2; simp [fuzzy_ne_wrap.symm] at h
      · by_cases h3 : f = lit "no-wrap"
        · exact h3
        · simp only [h1, h2, h3, if_false] at h
          repeat (first | split at h | cases h)
  · intro h; subst h; simp [fuzzy_ne_nowrap.symm, wrap_ne_nowrap.symm]

/-- the tail common to every iteration: the unknown-flag and duplicate-flag tags -/
theorem flagStep_eq (env : FlagEnv) (e : Entry) (st : FSt) (f : Str) (n : Nat) :
    flagStep env e st f n =
      addOut (flagBranch env e st f n).2.2
        (rule (!(flagBranch env e st f n).1) (tagR env.db e tplColon .unknownMessageFlag [.str f])
          ++ rule (decide ((flagBranch env e st f n).2.1 > 1 ∧ f ≠ [])) (tagR env.db e tplColon .duplicateMessageFlag [.str f])) := by
  simp only [flagStep, rule, addOut]
  cases hb : (flagBranch env e st f n).1 <;> by_cases hd : (flagBranch env e st f n).2.1 > 1 ∧ f ≠ [] <;> simp [hd]

theorem flagStep_inv {env : FlagEnv} {e : Entry} {flags done : List Str} {st : FSt} (h : Inv env e flags done st) (f : Str)
    (hw : f = lit "wrap" → (lit "no-wrap" ∈ flags ↔ lit "no-wrap" ∈ done))
    (hn : f = lit "no-wrap" → lit "wrap" ∉ done) :
    Inv env e flags (done ++ [f]) (flagStep env e st f (flags.count f)) := by
  obtain ⟨hout, hff, hrf, hfz, hwr, hmin, hmax⟩ := h
  rw [flagStep_eq, flagBranch_eq]
  cases hk : flagKind env f with
  | fuzzy =>
    have hf := (kind_fuzzy_iff env f).mp hk
    subst hf
    have hr : rangeOf env (lit "fuzzy") = none := by simp [rangeOf, hk]
    constructor <;>
      simp [addOut, rule, hout, perFlag, hk, formatDict_snoc, formatStep, hff, rangeDict_snoc, rangeStep, hr, hrf,
        lastRange_snoc, lastStep, hmin, hmax, hwr, wrapState, fuzzy_ne_wrap.symm, fuzzy_ne_nowrap.symm]
  | wrap =>
    have hf := (kind_wrap_iff env f).mp hk
    subst hf
    have hr : rangeOf env (lit "wrap") = none := by simp [rangeOf, hk]
    have hw' := hw rfl
    by_cases hc : lit "no-wrap" ∈ done
    · have hc' : lit "no-wrap" ∈ flags := hw'.mpr hc
      have hws : st.wrap = some false := by rw [hwr]; simp [wrapState, hc]
      constructor <;>
        simp [addOut, rule, hout, perFlag, hk, formatDict_snoc, formatStep, hff, rangeDict_snoc, rangeStep, hr, hrf,
          lastRange_snoc, lastStep, hmin, hmax, hws, wrapState, fuzzy_ne_wrap, hc, hc', hfz]
    · have hc' : lit "no-wrap" ∉ flags := fun h => hc (hw'.mp h)
      have hws : st.wrap ≠ some false := by rw [hwr, wrapState, if_neg hc]; split <;> simp
      constructor <;>
        simp [addOut, rule, hout, perFlag, hk, formatDict_snoc, formatStep, hff, rangeDict_snoc, rangeStep, hr, hrf,
          lastRange_snoc, lastStep, hmin, hmax, hws, wrapState, fuzzy_ne_wrap, hc, hc', hfz, wrap_ne_nowrap.symm]
  | noWrap =>
    have hf := (kind_noWrap_iff env f).mp hk
    subst hf
    have hr : rangeOf env (lit "no-wrap") = none := by simp [rangeOf, hk]
    have hn' := hn rfl
    have hws : st.wrap ≠ some true := by rw [hwr, wrapState, if_neg hn']; split <;> simp
    constructor <;>
      simp [addOut, rule, hout, perFlag, hk, formatDict_snoc, formatStep, hff, rangeDict_snoc, rangeStep, hr, hrf,
        lastRange_snoc, lastStep, hmin, hmax, hws, wrapState, fuzzy_ne_nowrap, hfz]
  | range r =>
    have nf : lit "fuzzy" ≠ f := fun h => by rw [(kind_fuzzy_iff env f).mpr h.symm] at hk; cases hk
    have nw : lit "wrap" ≠ f := fun h => by rw [(kind_wrap_iff env f).mpr h.symm] at hk; cases hk
    have nn : lit "no-wrap" ≠ f := fun h => by rw [(kind_noWrap_iff env f).mpr h.symm] at hk; cases hk
    have hr : rangeOf env f = r := by simp [rangeOf, hk]
    cases r with
    | none =>
      constructor <;>
        simp [addOut, rule, hout, perFlag, hk, formatDict_snoc, formatStep, hff, rangeDict_snoc, rangeStep, hr, hrf,
          lastRange_snoc, lastStep, hmin, hmax, hwr, wrapState, nf, nw, nn, hfz]
    | some ij =>
      obtain ⟨i, j⟩ := ij
      constructor <;>
        simp [addOut, rule, hout, perFlag, hk, formatDict_snoc, formatStep, hff, rangeDict_snoc, rangeStep, hr, hrf,
          lastRange_snoc, lastStep, hmin, hmax, hwr, wrapState, nf, nw, nn, hfz]
  | format tp fmt =>
    have nf : lit "fuzzy" ≠ f := fun h => by rw [(kind_fuzzy_iff env f).mpr h.symm] at hk; cases hk
    have nw : lit "wrap" ≠ f := fun h => by rw [(kind_wrap_iff env f).mpr h.symm] at hk; cases hk
    have nn : lit "no-wrap" ≠ f := fun h => by rw [(kind_noWrap_iff env f).mpr h.symm] at hk; cases hk
    have hr : rangeOf env f = none := by simp [rangeOf, hk]
    constructor <;>
      simp [addOut, rule, hout, perFlag, hk, formatDict_snoc, formatStep, hff, rangeDict_snoc, rangeStep, hr, hrf,
        lastRange_snoc, lastStep, hmin, hmax, hwr, wrapState, nf, nw, nn, hfz]
  | markdownText =>
    have nf : lit "fuzzy" ≠ f := fun h => by rw [(kind_fuzzy_iff env f).mpr h.symm] at hk; cases hk
    have nw : lit "wrap" ≠ f := fun h => by rw [(kind_wrap_iff env f).mpr h.symm] at hk; cases hk
    have nn : lit "no-wrap" ≠ f := fun h => by rw [(kind_noWrap_iff env f).mpr h.symm] at hk; cases hk
    have hr : rangeOf env f = none := by simp [rangeOf, hk]
    constructor <;>
      simp [addOut, rule, hout, perFlag, hk, formatDict_snoc, formatStep, hff, rangeDict_snoc, rangeStep, hr, hrf,
        lastRange_snoc, lastStep, hmin, hmax, hwr, wrapState, nf, nw, nn, hfz]
  | unknown =>
    have nf : lit "fuzzy" ≠ f := fun h => by rw [(kind_fuzzy_iff env f).mpr h.symm] at hk; cases hk
    have nw : lit "wrap" ≠ f := fun h => by rw [(kind_wrap_iff env f).mpr h.symm] at hk; cases hk
    have nn : lit "no-wrap" ≠ f := fun h => by rw [(kind_noWrap_iff env f).mpr h.symm] at hk; cases hk
    have hr : rangeOf env f = none := by simp [rangeOf, hk]
    constructor <;>
      simp [addOut, rule, hout, perFlag, hk, formatDict_snoc, formatStep, hff, rangeDict_snoc, rangeStep, hr, hrf,
        lastRange_snoc, lastStep, hmin, hmax, hwr, wrapState, nf, nw, nn, hfz]

theorem wrap_lt_nowrap : strLt (lit "wrap") (lit "no-wrap") = false := by decide

theorem flagLoop_inv (env : FlagEnv) (e : Entry) (flags : List Str) :
    ∀ (rest done : List Str) (st : FSt),
      (done ++ rest).Pairwise (fun a b => strLt a b = true) → (∀ f, f ∈ flags ↔ f ∈ done ++ rest) →
      Inv env e flags done st →
      Inv env e flags (done ++ rest) (flagLoop env e st (rest.map fun f => (f, flags.count f)))
  | [], done, st, _, _, h => by simpa [flagLoop] using h
  | f :: rest, done, st, hp, hm, h => by
    have hstep := flagStep_inv h f
      (by
        rintro rfl
        constructor
        · intro hin
          rcases List.mem_append.mp ((hm _).mp hin) with hd | hr
          · exact hd
          · rcases List.mem_cons.mp hr with heq | hr
            · exact absurd heq.symm wrap_ne_nowrap
            · have := (List.pairwise_append.mp hp).2.1
              have := (List.pairwise_cons.mp this).1 _ hr
              rw [wrap_lt_nowrap] at this; cases this
        · intro hd; exact (hm _).mpr (List.mem_append_left _ hd))
      (by
        rintro rfl hd
        have := (List.pairwise_append.mp hp).2.2 _ hd _ (List.mem_cons_self)
        rw [wrap_lt_nowrap] at this; cases this)
    have := flagLoop_inv env e flags rest (done ++ [f]) (flagStep env e st f (flags.count f))
      (by simpa using hp) (by simpa using hm) hstep
    simpa [flagLoop] using this

/-- `_check_message_flags` = the flag rules: the returned namespace and the emissions -/
theorem checkMessageFlags_eq (env : FlagEnv) (e : Entry) :
    checkMessageFlags env e = (info env e, flagTags env e) := by
  have h0 : Inv env e e.flags [] ({} : FSt) := by
    constructor <;> simp [formatDict, rangeDict, lastRange, wrapState]
  have h := flagLoop_inv env e e.flags (toSorted strLt e.flags) [] {}
    (by simpa using pairwise_toSorted strLt_total e.flags) (by simp) h0
  simp only [List.nil_append] at h
  obtain ⟨hout, hff, hrf, hfz, -, hmin, hmax⟩ := h
  have hs : sortedFlagItems e.flags = (toSorted strLt e.flags).map fun f => (f, e.flags.count f) := rfl
  simp only [checkMessageFlags, hs, hout, hff, hrf, hfz, hmin, hmax, flagTags, info, positiveFormats, fuzzy]
  simp

end I18n.Msg
