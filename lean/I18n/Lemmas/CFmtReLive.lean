import I18n.Lemmas.CFmtRe
import I18n.Generated.CFmtRe
/-!
The only step that looks at the tree dumped from the live module: its canonical form is `canonRe` (kernel evaluation of
`ReKit.norm`), hence — `norm_sound`, `matchAt_canon` — the scanner is the first match of the LIVE tree.
-/
namespace I18n.CFmtRe
open I18n.Spec.Printf I18n.Spec.BraceRe I18n.ReKit
open I18n.CFmt hiding St

/-- the live tree, as dumped on this run, has the canonical form the step lemmas are about -/
theorem live_norm : norm I18n.Generated.CFmtRe.directiveRe = canonRe := by decide +kernel

/-- **the model's scanner IS the first match of the LIVE parse tree** (through `norm`): end position and group spans -/
theorem matchAt_live (db : CharDB) (cs : List Char) (pos : Nat) :
    matchAt db I18n.Generated.CFmtRe.directiveRe cs pos =
      (scanItem cs).map (fun p => (⟨p.2, pos + p.1.render.length, itemCaps pos p.1⟩ : St)) := by
  rw [← matchAt_norm, live_norm]
  exact matchAt_canon db cs pos

/-- `_printable_prefix(s[last_pos:])` cannot fail where `Error` is raised: the text there starts with `%`, which the
    pattern `[ -~]+` matches -/
theorem printable_prefix_matches (db : CharDB) (t : List Char) :
    (matchAt db I18n.Generated.CFmtRe.printablePrefixRe ('%' :: t) 0).isSome = true := by
  have e : norm I18n.Generated.CFmtRe.printablePrefixRe = .seq (.cls false [.range 32 126]) (.star (.cls false [.range 32 126])) := by
    decide +kernel
  rw [← matchAt_norm, e]
  unfold matchAt
  rw [bt_seq, bt_cls_cons]
  have : clsTest db false [.range 32 126] '%' = true := by simp [clsTest, ClsItem.test]
  rw [if_pos this]
  rw [star_cls db false _ (fun c => clsTest db false [.range 32 126] c) (fun _ => rfl) some (by intro _ _ _ _ _ _; simp)]
  rfl

end I18n.CFmtRe
