import I18n.Model.HashOrder
/-! `pySorted` is a sorting function: a permutation of its input, pairwise ordered (C03, hash-seed independence). -/
namespace I18n.HashOrder
variable {α : Type}

theorem insertBy_perm (le : α → α → Bool) (a : α) : ∀ l, (insertBy le a l).Perm (a :: l)
  | [] => List.Perm.refl _
  | b :: l => by
    simp only [insertBy]
    split
    · exact List.Perm.refl _
    · exact ((insertBy_perm le a l).cons b).trans (List.Perm.swap a b l)

theorem pySorted_perm (le : α → α → Bool) : ∀ l, (pySorted le l).Perm l
  | [] => List.Perm.refl _
  | a :: l => (insertBy_perm le a _).trans ((pySorted_perm le l).cons a)

theorem insertBy_pairwise (le : α → α → Bool) (trans : ∀ a b c, le a b → le b c → le a c) (total : ∀ a b, le a b || le b a)
    (a : α) : ∀ l, l.Pairwise (fun x y => le x y = true) → (insertBy le a l).Pairwise (fun x y => le x y = true)
  | [], _ => by simp [insertBy]
  | b :: l, h => by
    simp only [insertBy]
    have hb := List.pairwise_cons.mp h
    split
    · rename_i hab
      refine List.pairwise_cons.mpr ⟨?_, h⟩
      intro x hx
      rcases List.mem_cons.mp hx with rfl | hx
      · exact hab
      · exact trans _ _ _ hab (hb.1 x hx)
    · rename_i hab
      have hba : le b a = true := by
        have := total a b
        simp only [Bool.or_eq_true] at this
        rcases this with h1 | h1
        · exact absurd h1 hab
        · exact h1
      refine List.pairwise_cons.mpr ⟨?_, insertBy_pairwise le trans total a l hb.2⟩
      intro x hx
      have hx' := (insertBy_perm le a l).mem_iff.mp hx
      rcases List.mem_cons.mp hx' with rfl | hx'
      · exact hba
      · exact hb.1 x hx'

theorem pySorted_pairwise (le : α → α → Bool) (trans : ∀ a b c, le a b → le b c → le a c) (total : ∀ a b, le a b || le b a) :
    ∀ l, (pySorted le l).Pairwise (fun x y => le x y = true)
  | [] => List.Pairwise.nil
  | a :: l => insertBy_pairwise le trans total a _ (pySorted_pairwise le trans total l)

end I18n.HashOrder
