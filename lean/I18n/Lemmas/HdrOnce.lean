import I18n.Lemmas.HdrAddr
import I18n.Lemmas.HdrLines
/-
C15 lemmas, part 15: multiplicity.  Thanks to `sorted(set(values))` every per-value diagnostic of MIME-Version,
Content-Transfer-Encoding, Project-Id-Version, Report-Msgid-Bugs-To, Last-Translator, Language-Team and every field-name
diagnostic is emitted once (the lists of tags of these stages have no duplicates).
-/
set_option linter.unusedSimpArgs false
namespace I18n.Hdr
open I18n.Spec.HeaderRules I18n.Date I18n.Generated

/-- the value (or field name) a diagnostic is about: its first extra -/
def firstStr (t : TagCall) : Str := match t.extras with | .str s :: _ => s | _ => []

theorem nodup_flatMap_key (l : List Str) (f : Str → List TagCall) (hl : l.Nodup)
    (hf : ∀ v ∈ l, (f v).Nodup) (hk : ∀ v ∈ l, ∀ t ∈ f v, firstStr t = v) : (l.flatMap f).Nodup := by
  induction l with
  | nil => simp
  | cons a r ih =>
    have hl' := List.nodup_cons.1 hl
    rw [List.flatMap_cons, List.nodup_append]
    refine ⟨hf a (by simp), ih hl'.2 (fun v hv => hf v (by simp [hv])) (fun v hv => hk v (by simp [hv])), ?_⟩
    intro t ht t' ht' e
    obtain ⟨y, hy, hty⟩ := List.mem_flatMap.1 ht'
    have k1 := hk a (by simp) t ht
    have k2 := hk y (by simp [hy]) t' hty
    rw [e] at k1
    exact hl'.1 (by rw [← k1, k2]; exact hy)

theorem sortedSet_nodup (l : List Str) : (sortedSet l).Nodup := by
  rw [List.nodup_iff_pairwise_ne]
  exact List.Pairwise.imp (fun {a b} h e => by subst e; rw [strLt_irrefl] at h; cases h) (sortedSet_sorted l)

theorem dedup_nodup (vs : List Str) : (dedup vs).Nodup := by
  unfold dedup
  split
  · exact sortedSet_nodup vs
  · rename_i h
    cases vs with
    | nil => simp
    | cons a r =>
      cases r with
      | nil => simp
      | cons b r' => simp at h

/-- lists of tags whose names lie in disjoint sets can be appended without creating duplicates -/
theorem nodup_append_names (a b : List TagCall) (ha : a.Nodup) (hb : b.Nodup) (LA : List String)
    (hA : ∀ t ∈ a, t.name ∈ LA) (hB : ∀ t ∈ b, t.name ∉ LA) : (a ++ b).Nodup := by
  rw [List.nodup_append]
  refine ⟨ha, hb, ?_⟩
  intro t ht t' ht' e
  exact hB t' ht' (e ▸ hA t ht)

theorem nodup_opt (c : Prop) [Decidable c] (t : TagCall) : (if c then [t] else []).Nodup := by
  split <;> simp

theorem nodup_if2 (c d : Prop) [Decidable c] [Decidable d] (t u : TagCall) :
    (if c then [t] else if d then [u] else []).Nodup := by
  split
  · simp
  · split <;> simp

theorem fixed_once (vs : List Str) (good : Str) (dupT noT : TagCall) (inv : String)
    (h1 : dupT.name ≠ inv) (h2 : noT.name ≠ inv) (h3 : dupT.name ≠ noT.name) :
    ((if vs.length > 1 then [dupT] else [])
      ++ ((dedup vs).filter (· ≠ good)).map (fun v => tag inv [sx v, arrow, .str good])
      ++ (if (dedup vs).length = 0 then [noT] else [])).Nodup := by
  have hmid : (((dedup vs).filter (· ≠ good)).map (fun v => tag inv [sx v, arrow, .str good])).Nodup := by
    rw [List.nodup_iff_pairwise_ne]
    refine List.Pairwise.map _ (fun a b hab e => ?_) (List.Pairwise.filter _ (List.nodup_iff_pairwise_ne.1 (dedup_nodup vs)))
    apply hab
    simp only [tag, sx, TagCall.mk.injEq, List.cons.injEq, Extra.str.injEq] at e
    exact e.2.1
  have hmidn : ∀ t ∈ ((dedup vs).filter (· ≠ good)).map (fun v => tag inv [sx v, arrow, .str good]), t.name = inv := by
    intro t ht
    obtain ⟨v, _, rfl⟩ := List.mem_map.1 ht
    rfl
  have hA1 : ((if vs.length > 1 then [dupT] else [])
      ++ ((dedup vs).filter (· ≠ good)).map (fun v => tag inv [sx v, arrow, .str good])).Nodup := by
    refine nodup_append_names _ _ (nodup_opt _ _) hmid [dupT.name] (fun t ht => ?_) (fun t ht => ?_)
    · split at ht <;> simp at ht; subst ht; simp
    · rw [hmidn t ht]; simp; exact fun e => h1 e.symm
  refine nodup_append_names _ _ hA1 (nodup_opt _ _) [dupT.name, inv] (fun t ht => ?_) (fun t ht => ?_)
  · rcases List.mem_append.1 ht with ht | ht
    · split at ht <;> simp at ht; subst ht; simp
    · rw [hmidn t ht]; simp
  · split at ht <;> simp at ht
    subst ht
    simp only [List.mem_cons, List.not_mem_nil, or_false, not_or]
    exact ⟨fun e => h3 e.symm, h2⟩

theorem mimeVersionTags_nodup (m : Meta) : (mimeVersionTags m).Nodup := by
  unfold mimeVersionTags
  exact fixed_once (m.getS "MIME-Version") _ _ _ "invalid-mime-version" (by decide) (by decide) (by decide)

theorem cteTags_nodup (m : Meta) : (cteTags m).Nodup := by
  unfold cteTags
  exact fixed_once (m.getS "Content-Transfer-Encoding") _ _ _ "invalid-content-transfer-encoding" (by decide) (by decide) (by decide)

theorem projectOne_props (db : UDB) (v : Str) :
    (projectOne db v).Nodup ∧ ∀ t ∈ projectOne db v, firstStr t = v ∧ t.extras ≠ [] := by
  unfold projectOne
  split
  · simp [tag, sx, firstStr]
  · constructor
    · apply nodup_append_names _ _ (nodup_opt _ _) (nodup_opt _ _) ["no-package-name-in-project-id-version"]
      · intro t ht; split at ht <;> simp at ht; subst ht; simp [tag]
      · intro t ht; split at ht <;> simp at ht; subst ht; simp [tag]
    · intro t ht
      rcases List.mem_append.1 ht with ht | ht <;> (split at ht <;> simp at ht; subst ht; simp [tag, sx, firstStr])

theorem flat_with_head_nodup (hd : List TagCall) (l : List Str) (f : Str → List TagCall) (hhd : hd.Nodup)
    (hempty : ∀ t ∈ hd, t.extras = []) (hl : l.Nodup)
    (hf : ∀ v ∈ l, (f v).Nodup ∧ ∀ t ∈ f v, firstStr t = v ∧ t.extras ≠ []) : (hd ++ l.flatMap f).Nodup := by
  rw [List.nodup_append]
  refine ⟨hhd, nodup_flatMap_key l f hl (fun v hv => (hf v hv).1) (fun v hv t ht => ((hf v hv).2 t ht).1), ?_⟩
  intro t ht t' ht' e
  obtain ⟨v, hv, htv⟩ := List.mem_flatMap.1 ht'
  exact ((hf v hv).2 t' htv).2 (e ▸ hempty t ht)

theorem projectIdTags_nodup (db : UDB) (m : Meta) : (projectIdTags db m).Nodup := by
  unfold projectIdTags
  apply flat_with_head_nodup _ _ _ (nodup_if2 _ _ _ _) _ (dedup_nodup _) (fun v _ => projectOne_props db v)
  intro t ht
  split at ht
  · simp at ht; subst ht; rfl
  · split at ht <;> simp at ht; subst ht; rfl

theorem one_props (l : List TagCall) (v : Str) (h : l = [] ∨ ∃ n rest, l = [tag n (sx v :: rest)]) :
    l.Nodup ∧ ∀ t ∈ l, firstStr t = v ∧ t.extras ≠ [] := by
  rcases h with rfl | ⟨n, rest, rfl⟩
  · simp
  · simp [tag, sx, firstStr]

theorem reportOne_props (x : Ext) (v : Str) : (reportOne x v).Nodup ∧ ∀ t ∈ reportOne x v, firstStr t = v ∧ t.extras ≠ [] := by
  apply one_props
  rw [reportOne_eq]
  split
  · split
    · exact Or.inr ⟨_, [], rfl⟩
    · exact Or.inl rfl
  · split
    · exact Or.inr ⟨_, [], rfl⟩
    · exact Or.inr ⟨_, [], rfl⟩
    · exact Or.inr ⟨_, [], rfl⟩
    · exact Or.inl rfl

theorem translatorOne_props (x : Ext) (tmpl : Bool) (v : Str) :
    (translatorOne x tmpl v).Nodup ∧ ∀ t ∈ translatorOne x tmpl v, firstStr t = v ∧ t.extras ≠ [] := by
  apply one_props
  rw [translatorOne_eq]
  split
  · exact Or.inr ⟨_, [], rfl⟩
  · split
    · exact Or.inr ⟨_, [], rfl⟩
    · split
      · exact Or.inl rfl
      · exact Or.inr ⟨_, [], rfl⟩
    · exact Or.inr ⟨_, [], rfl⟩
    · exact Or.inl rfl

theorem teamOne_props (x : Ext) (tmpl : Bool) (emails : List (Str × Str)) (v : Str) :
    (teamOne x tmpl emails v).Nodup ∧ ∀ t ∈ teamOne x tmpl emails v, firstStr t = v ∧ t.extras ≠ [] := by
  apply one_props
  rw [teamOne_eq]
  split
  · exact Or.inl rfl
  · split
    · exact Or.inr ⟨_, [], rfl⟩
    · split
      · exact Or.inl rfl
      · exact Or.inr ⟨_, [], rfl⟩
    · exact Or.inr ⟨_, [], rfl⟩
    · split
      · exact Or.inr ⟨_, [_], rfl⟩
      · exact Or.inl rfl

theorem reportTags_nodup (x : Ext) (m : Meta) : (reportTags x m).Nodup := by
  unfold reportTags
  simp only []
  rw [List.append_assoc]
  have hvs : (if dedup (m.getS "Report-Msgid-Bugs-To") = [[]] then [] else dedup (m.getS "Report-Msgid-Bugs-To")).Nodup := by
    split
    · simp
    · exact dedup_nodup _
  generalize (if dedup (m.getS "Report-Msgid-Bugs-To") = [[]] then [] else dedup (m.getS "Report-Msgid-Bugs-To")) = vs' at hvs ⊢
  rw [List.nodup_append]
  refine ⟨nodup_opt _ _, ?_, ?_⟩
  · apply flat_with_head_nodup _ _ _ (nodup_opt _ _) _ hvs (fun v _ => reportOne_props x v)
    intro t ht; split at ht <;> simp at ht; subst ht; rfl
  · intro t ht t' ht' e
    have h1 : t.name = "duplicate-header-field-report-msgid-bugs-to" := by
      split at ht <;> simp at ht; subst ht; rfl
    rcases List.mem_append.1 ht' with ht' | ht'
    · have : t'.name = "no-report-msgid-bugs-to-header-field" := by
        split at ht' <;> simp at ht'; subst ht'; rfl
      rw [e, this] at h1; exact absurd h1 (by decide)
    · obtain ⟨v, _, htv⟩ := List.mem_flatMap.1 ht'
      have h2 := ((reportOne_props x v).2 t' htv).2
      have h3 : t.extras = [] := by split at ht <;> simp at ht; subst ht; rfl
      exact h2 (e ▸ h3)

theorem checkProject_nodup (x : Ext) (m : Meta) : (checkProject x m).Nodup := by
  unfold checkProject
  apply nodup_append_names _ _ (projectIdTags_nodup x.db m) (reportTags_nodup x m)
    ["duplicate-header-field-project-id-version", "no-project-id-version-header-field", "boilerplate-in-project-id-version",
     "no-package-name-in-project-id-version", "no-version-in-project-id-version"]
  · intro t ht
    unfold projectIdTags at ht
    rcases List.mem_append.1 ht with ht | ht
    · split at ht
      · simp at ht; subst ht; simp [tag]
      · split at ht <;> simp at ht; subst ht; simp [tag]
    · obtain ⟨v, _, htv⟩ := List.mem_flatMap.1 ht
      unfold projectOne at htv
      split at htv
      · simp at htv; subst htv; simp [tag]
      · rcases List.mem_append.1 htv with h | h <;> (split at h <;> simp at h; subst h; simp [tag])
  · intro t ht
    unfold reportTags at ht
    simp only [] at ht
    generalize (if dedup (m.getS "Report-Msgid-Bugs-To") = [[]] then [] else dedup (m.getS "Report-Msgid-Bugs-To")) = vs' at ht
    rcases List.mem_append.1 ht with ht | ht
    · rcases List.mem_append.1 ht with ht | ht <;> (split at ht <;> simp at ht; subst ht; simp [tag])
    · obtain ⟨v, _, htv⟩ := List.mem_flatMap.1 ht
      rw [reportOne_eq] at htv
      split at htv
      · split at htv <;> simp at htv; subst htv; simp [tag]
      · split at htv <;> simp at htv <;> (subst htv; simp [tag])

theorem checkTranslator_nodup (x : Ext) (tmpl : Bool) (m : Meta) : (checkTranslator x tmpl m).Nodup := by
  unfold checkTranslator
  simp only []
  rw [List.append_assoc, List.append_assoc]
  have hA : ((if (m.getS "Last-Translator").length > 1 then [tag "duplicate-header-field-last-translator" []]
        else if (m.getS "Last-Translator").length = 0 then [tag "no-last-translator-header-field" []] else [])
      ++ (dedup (m.getS "Last-Translator")).flatMap (translatorOne x tmpl)).Nodup := by
    apply flat_with_head_nodup _ _ _ (nodup_if2 _ _ _ _) _ (dedup_nodup _) (fun v _ => translatorOne_props x tmpl v)
    intro t ht
    split at ht
    · simp at ht; subst ht; rfl
    · split at ht <;> simp at ht; subst ht; rfl
  have hB : ((if (m.getS "Language-Team").length > 1 then [tag "duplicate-header-field-language-team" []]
        else if (m.getS "Language-Team").length = 0 then [tag "no-language-team-header-field" []] else [])
      ++ (dedup (m.getS "Language-Team")).flatMap
          (teamOne x tmpl (translatorEmails x (dedup (m.getS "Last-Translator")) []))).Nodup := by
    apply flat_with_head_nodup _ _ _ (nodup_if2 _ _ _ _) _ (dedup_nodup _) (fun v _ => teamOne_props x tmpl _ v)
    intro t ht
    split at ht
    · simp at ht; subst ht; rfl
    · split at ht <;> simp at ht; subst ht; rfl
  rw [← List.append_assoc]
  apply nodup_append_names _ _ hA hB
    ["duplicate-header-field-last-translator", "no-last-translator-header-field", "invalid-last-translator", "boilerplate-in-last-translator"]
  · intro t ht
    rcases List.mem_append.1 ht with ht | ht
    · split at ht
      · simp at ht; subst ht; simp [tag]
      · split at ht <;> simp at ht; subst ht; simp [tag]
    · obtain ⟨v, _, htv⟩ := List.mem_flatMap.1 ht
      rw [translatorOne_eq] at htv
      split at htv
      · simp at htv; subst htv; simp [tag]
      · split at htv
        · simp at htv; subst htv; simp [tag]
        · split at htv <;> simp at htv; subst htv; simp [tag]
        · simp at htv; subst htv; simp [tag]
        · simp at htv
  · intro t ht
    rcases List.mem_append.1 ht with ht | ht
    · split at ht
      · simp at ht; subst ht; simp [tag]
      · split at ht <;> simp at ht; subst ht; simp [tag]
    · obtain ⟨v, _, htv⟩ := List.mem_flatMap.1 ht
      rw [teamOne_eq] at htv
      split at htv
      · simp at htv
      · split at htv
        · simp at htv; subst htv; simp [tag]
        · split at htv <;> simp at htv; subst htv; simp [tag]
        · simp at htv; subst htv; simp [tag]
        · split at htv <;> simp at htv; subst htv; simp [tag]

theorem fieldNameTags_props (x : Ext) (m : Meta) (key : Str) :
    (fieldNameTags x m key).Nodup ∧ ∀ t ∈ fieldNameTags x m key, firstStr t = key := by
  rw [fieldNameTags_eq]
  constructor
  · apply nodup_append_names _ _ _ (nodup_opt _ _) ["unknown-header-field"]
    · intro t ht
      split at ht
      · simp at ht
      · split at ht
        · simp at ht
        · split at ht <;> simp at ht <;> (subst ht; simp [tag])
    · intro t ht; split at ht <;> simp at ht; subst ht; simp [tag]
    · split
      · simp
      · split
        · simp
        · split <;> simp
  · intro t ht
    rcases List.mem_append.1 ht with ht | ht
    · split at ht
      · simp at ht
      · split at ht
        · simp at ht
        · split at ht <;> simp at ht <;> (subst ht; simp [tag, sx, firstStr])
    · split at ht <;> simp at ht; subst ht; simp [tag, sx, firstStr]

theorem nameTags_nodup (x : Ext) (m : Meta) : ((sortedSet (m.map (·.1))).flatMap (fieldNameTags x m)).Nodup :=
  nodup_flatMap_key _ _ (sortedSet_nodup _) (fun v _ => (fieldNameTags_props x m v).1) (fun v _ => (fieldNameTags_props x m v).2)

end I18n.Hdr
