import I18n.Lemmas.DateCal
import I18n.Lemmas.DateTable
/- Scanner lemmas for C18: the hand-written scanner `parseDate` accepts exactly the declarative grammar `Written`
   and returns the groups written in the string. -/
set_option linter.unusedSimpArgs false
namespace I18n.Date
open I18n.Spec.Date I18n.Generated

theorem stripPre_some {p s r : List Char} : stripPre p s = some r ↔ s = p ++ r := by
  induction p generalizing s with
  | nil => simp [stripPre, eq_comm]
  | cons a p ih =>
    cases s with
    | nil => simp [stripPre]
    | cons c s =>
      simp only [stripPre, List.cons_append, List.cons.injEq]
      by_cases h : a = c
      · simp [h, ih]
      · simp [h]; intro h'; exact absurd h'.symm h

theorem stripPre_append (p r : List Char) : stripPre p (p ++ r) = some r := stripPre_some.mpr rfl

theorem stripPre_none {p s : List Char} : stripPre p s = none ↔ ∀ r, s ≠ p ++ r := by
  constructor
  · intro h r hr
    rw [stripPre_some.mpr hr] at h; cases h
  · intro h
    cases hs : stripPre p s with
    | none => rfl
    | some r => exact absurd (stripPre_some.mp hs) (h r)

theorem digits_some {n : Nat} {s d r : List Char} :
    digits n s = some (d, r) ↔ s = d ++ r ∧ d.length = n ∧ ∀ c ∈ d, isDigit c = true := by
  induction n generalizing s d r with
  | zero =>
    simp only [digits, Option.some.injEq, Prod.mk.injEq]
    constructor
    · rintro ⟨rfl, rfl⟩; simp
    · rintro ⟨h1, h2, _⟩
      have : d = [] := List.eq_nil_of_length_eq_zero h2
      subst this; simp at h1; simp [h1]
  | succ n ih =>
    cases s with
    | nil =>
      simp only [digits]
      constructor
      · intro h; cases h
      · rintro ⟨h1, h2, _⟩
        have := congrArg List.length h1
        simp at this; omega
    | cons c s =>
      simp only [digits]
      by_cases hc : isDigit c = true
      · simp only [hc, if_true]
        cases hd : digits n s with
        | none =>
          simp only
          constructor
          · intro h; cases h
          · rintro ⟨h1, h2, h3⟩
            cases d with
            | nil => simp at h2
            | cons x d =>
              simp only [List.cons_append, List.cons.injEq] at h1
              have : digits n s = some (d, r) := ih.mpr ⟨h1.2, by simpa using h2, fun c hc => h3 c (List.mem_cons_of_mem _ hc)⟩
              rw [hd] at this; cases this
        | some p =>
          obtain ⟨d', r'⟩ := p
          have := ih.mp hd
          simp only [Option.some.injEq, Prod.mk.injEq]
          constructor
          · rintro ⟨rfl, rfl⟩
            refine ⟨by rw [this.1]; rfl, by simp [this.2.1], ?_⟩
            intro x hx
            cases hx with
            | head => exact hc
            | tail _ hx => exact this.2.2 x hx
          · rintro ⟨h1, h2, h3⟩
            cases d with
            | nil => simp at h2
            | cons x d =>
              simp only [List.cons_append, List.cons.injEq] at h1
              have h' : digits n s = some (d, r) := ih.mpr ⟨h1.2, by simpa using h2, fun c hc => h3 c (List.mem_cons_of_mem _ hc)⟩
              rw [hd] at h'
              simp only [Option.some.injEq, Prod.mk.injEq] at h'
              exact ⟨by rw [h1.1, h'.1], h'.2⟩
      · simp only [hc]
        constructor
        · intro h; cases h
        · rintro ⟨h1, h2, h3⟩
          cases d with
          | nil => simp at h2
          | cons x d =>
            simp only [List.cons_append, List.cons.injEq] at h1
            exact absurd (h1.1 ▸ h3 x List.mem_cons_self) hc

theorem lit_some {c : Char} {s r : List Char} : lit c s = some r ↔ s = c :: r := by
  cases s with
  | nil => simp [lit]
  | cons x s =>
    simp only [lit, List.cons.injEq]
    by_cases h : x = c
    · simp [h]
    · simp [h]

theorem digits_iff {n : Nat} {d : List Char} :
    (d.length = n ∧ ∀ c ∈ d, isDigit c = true) ↔ Digits n d := by
  unfold Digits
  constructor
  · rintro ⟨h1, h2⟩; exact ⟨h1, fun c hc => (isDigit_iff c).mp (h2 c hc)⟩
  · rintro ⟨h1, h2⟩; exact ⟨h1, fun c hc => (isDigit_iff c).mpr (h2 c hc)⟩

theorem digits_append {n : Nat} {d : List Char} (r : List Char) (h : Digits n d) : digits n (d ++ r) = some (d, r) :=
  digits_some.mpr ⟨rfl, (digits_iff.mpr h)⟩

theorem digits_sound {n : Nat} {s d r : List Char} (h : digits n s = some (d, r)) : s = d ++ r ∧ Digits n d :=
  ⟨(digits_some.mp h).1, digits_iff.mp (digits_some.mp h).2⟩

theorem isSpace_iff (c : Char) : isSpace c = true ↔ White c := by
  unfold isSpace White
  simp only [List.any_eq_true, Bool.and_eq_true, decide_eq_true_eq]

theorem isSpace_false_of_digit {c : Char} (h : isDigit c = true) : isSpace c = false := by
  unfold isDigit at h
  simp only [Bool.and_eq_true, decide_eq_true_eq] at h
  cases hs : isSpace c with
  | false => rfl
  | true =>
    unfold isSpace at hs
    simp only [DateTables.whitespace, List.any_cons, List.any_nil, Bool.or_false, Bool.or_eq_true, Bool.and_eq_true,
      decide_eq_true_eq] at hs
    omega

theorem not_white_of_digit {c : Char} (h : AsciiDigit c) : ¬ White c := by
  intro hw
  have := isSpace_false_of_digit ((isDigit_iff c).mpr h)
  rw [(isSpace_iff c).mpr hw] at this; cases this

theorem dropWhile_sound (s : List Char) :
    ∃ l, s = l ++ s.dropWhile isSpace ∧ (∀ c ∈ l, White c) ∧ ∀ c, (s.dropWhile isSpace).head? = some c → ¬ White c := by
  induction s with
  | nil => exact ⟨[], rfl, by simp, by simp⟩
  | cons a s ih =>
    by_cases h : isSpace a = true
    · obtain ⟨l, h1, h2, h3⟩ := ih
      refine ⟨a :: l, ?_, ?_, ?_⟩
      · simp only [List.dropWhile_cons, h, if_true, List.cons_append]; rw [← h1]
      · intro c hc
        cases hc with
        | head => exact (isSpace_iff a).mp h
        | tail _ hc => exact h2 c hc
      · simpa only [List.dropWhile_cons, h, if_true] using h3
    · refine ⟨[], ?_, by simp, ?_⟩
      · simp [h]
      · simp only [List.dropWhile_cons, h, Bool.false_eq_true, if_false, List.head?_cons, Option.some.injEq]
        intro c hc hw
        subst hc
        exact h ((isSpace_iff a).mpr hw)

theorem dropWhile_append {l r : List Char} (hl : ∀ c ∈ l, White c) (hr : ∀ c, r.head? = some c → ¬ White c) :
    (l ++ r).dropWhile isSpace = r := by
  induction l with
  | nil =>
    cases r with
    | nil => rfl
    | cons a r =>
      have : isSpace a = false := by
        cases h : isSpace a with
        | false => rfl
        | true => exact absurd ((isSpace_iff a).mp h) (hr a rfl)
      simp [this]
  | cons a l ih =>
    have : isSpace a = true := (isSpace_iff a).mpr (hl a List.mem_cons_self)
    simp only [List.cons_append, List.dropWhile_cons, this, if_true]
    exact ih (fun c hc => hl c (List.mem_cons_of_mem _ hc))

/-! ### the stages -/

theorem scanDate_sound {s d r : List Char} (h : scanDate s = some (d, r)) : s = d ++ r ∧ IsDate d := by
  unfold scanDate at h
  split at h
  · cases h
  · rename_i y s1 h1
    split at h
    · cases h
    · rename_i s2 h2
      split at h
      · cases h
      · rename_i m s3 h3
        split at h
        · cases h
        · rename_i s4 h4
          split at h
          · cases h
          · rename_i dd s5 h5
            simp only [Option.some.injEq, Prod.mk.injEq] at h
            obtain ⟨rfl, rfl⟩ := h
            obtain ⟨e1, d1⟩ := digits_sound h1
            obtain ⟨e3, d3⟩ := digits_sound h3
            obtain ⟨e5, d5⟩ := digits_sound h5
            have e2 := lit_some.mp h2
            have e4 := lit_some.mp h4
            refine ⟨?_, y, m, dd, rfl, d1, d3, d5⟩
            rw [e1, e2, e3, e4, e5]; simp

theorem scanDate_complete {d : List Char} (r : List Char) (h : IsDate d) : scanDate (d ++ r) = some (d, r) := by
  obtain ⟨y, m, dd, rfl, hy, hm, hd⟩ := h
  unfold scanDate
  have e1 : (y ++ '-' :: m ++ '-' :: dd) ++ r = y ++ ('-' :: (m ++ ('-' :: (dd ++ r)))) := by simp
  rw [e1, digits_append _ hy]
  simp only [lit, if_true]
  rw [digits_append _ hm]
  simp only [lit, if_true]
  rw [digits_append _ hd]

theorem scanTime_sound {s d r : List Char} (h : scanTime s = some (d, r)) : s = d ++ r ∧ IsTime d := by
  unfold scanTime at h
  split at h
  · cases h
  · rename_i y s1 h1
    split at h
    · cases h
    · rename_i s2 h2
      split at h
      · cases h
      · rename_i m s3 h3
        simp only [Option.some.injEq, Prod.mk.injEq] at h
        obtain ⟨rfl, rfl⟩ := h
        obtain ⟨e1, d1⟩ := digits_sound h1
        obtain ⟨e3, d3⟩ := digits_sound h3
        have e2 := lit_some.mp h2
        refine ⟨?_, y, m, rfl, d1, d3⟩
        rw [e1, e2, e3]; simp

theorem scanTime_complete {d : List Char} (r : List Char) (h : IsTime d) : scanTime (d ++ r) = some (d, r) := by
  obtain ⟨y, m, rfl, hy, hm⟩ := h
  unfold scanTime
  have e1 : (y ++ ':' :: m) ++ r = y ++ (':' :: (m ++ r)) := by simp
  rw [e1, digits_append _ hy]
  simp only [lit, if_true]
  rw [digits_append _ hm]

theorem scanSep_sound {s r : List Char} (h : scanSep s = some r) : ∃ sep, s = sep ++ r ∧ IsSep sep := by
  cases s with
  | nil => simp [scanSep] at h
  | cons c s =>
    simp only [scanSep] at h
    split at h
    · rename_i hc
      simp only [Option.some.injEq] at h
      obtain ⟨l, h1, h2, _⟩ := dropWhile_sound s
      refine ⟨c :: l, ?_, Or.inr ⟨by simp, ?_⟩⟩
      · rw [← h, List.cons_append, ← h1]
      · intro x hx
        cases hx with
        | head => exact (isSpace_iff c).mp hc
        | tail _ hx => exact h2 x hx
    · split at h
      · rename_i hc
        simp only [Option.some.injEq] at h
        exact ⟨['T'], by rw [hc, h]; rfl, Or.inl rfl⟩
      · cases h

theorem head_digit_of_isTime {t : List Char} (r : List Char) (h : IsTime t) :
    ∃ c, (t ++ r).head? = some c ∧ AsciiDigit c := by
  obtain ⟨hh, m, rfl, ⟨hl, hd⟩, _⟩ := h
  cases hh with
  | nil => simp at hl
  | cons a hh => exact ⟨a, rfl, hd a List.mem_cons_self⟩

theorem scanSep_complete {sep : List Char} (r : List Char) (h : IsSep sep)
    (hr : ∃ c, r.head? = some c ∧ AsciiDigit c) : scanSep (sep ++ r) = some r := by
  obtain ⟨c0, hc0, hd0⟩ := hr
  have hnw : ∀ c, r.head? = some c → ¬ White c := by
    intro c hc; rw [hc0] at hc; cases hc; exact not_white_of_digit hd0
  rcases h with rfl | ⟨hne, hw⟩
  · have : isSpace 'T' = false := by decide
    simp [scanSep, this]
  · cases sep with
    | nil => exact absurd rfl hne
    | cons a l =>
      have ha : isSpace a = true := (isSpace_iff a).mpr (hw a List.mem_cons_self)
      simp only [List.cons_append, scanSep, ha, if_true, Option.some.injEq]
      exact dropWhile_append (fun c hc => hw c (List.mem_cons_of_mem _ hc)) hnw

theorem scanSecs_sound {s r : List Char} (h : scanSecs s = some r) : ∃ secs, s = secs ++ r ∧ IsSecs secs := by
  unfold scanSecs at h
  split at h
  · rename_i r0
    split at h
    · rename_i d s1 h1
      simp only [Option.some.injEq] at h
      subst h
      obtain ⟨e1, d1⟩ := digits_sound h1
      exact ⟨':' :: d, by rw [e1]; rfl, Or.inr ⟨d, rfl, d1⟩⟩
    · cases h
  · simp only [Option.some.injEq] at h
    exact ⟨[], by simp [h], Or.inl rfl⟩

theorem scanSecs_complete {secs : List Char} (r : List Char) (h : IsSecs secs)
    (hr : ∀ x, r ≠ ':' :: x) : scanSecs (secs ++ r) = some r := by
  rcases h with rfl | ⟨d, rfl, hd⟩
  · simp only [List.nil_append]
    unfold scanSecs
    split
    · rename_i r0; exact absurd rfl (hr r0)
    · rfl
  · simp only [List.cons_append, scanSecs, digits_append _ hd]

/-! ### the zone -/

def Zone.spec : Zone → ZoneSpec
  | .none => .absent
  | .abbr a => .abbr a
  | .num (sg :: hh) mm => .numeric sg hh mm
  | .num [] mm => .numeric '+' [] mm

def zoneOfSpec : ZoneSpec → Zone
  | .absent => .none
  | .abbr a => .abbr a
  | .numeric sg hh mm => .num (sg :: hh) mm

theorem spec_zoneOfSpec (z : ZoneSpec) : (zoneOfSpec z).spec = z := by
  cases z <;> rfl

/-- the numeric alternative without the GMT/UTC prefix -/
def NumText (z : List Char) (sg : Char) (hh mm : List Char) : Prop :=
  ∃ colon, z = sg :: hh ++ colon ++ mm ∧ (colon = [] ∨ colon = [':']) ∧ (sg = '+' ∨ sg = '-') ∧ Digits 2 hh ∧ Digits 2 mm

theorem skipChar_cons_ne {c x : Char} (r : List Char) (h : x ≠ c) : skipChar c (x :: r) = x :: r := by
  simp [skipChar, h]

theorem skipChar_cons_eq (c : Char) (r : List Char) : skipChar c (c :: r) = r := by
  simp [skipChar]

theorem skipChar_cases (c : Char) (s : List Char) : (s = c :: skipChar c s) ∨ (skipChar c s = s) := by
  cases s with
  | nil => right; rfl
  | cons x r =>
    by_cases h : x = c
    · left; simp [skipChar, h]
    · right; simp [skipChar, h]

theorem scanNum_sound {z : List Char} {Z : Zone} (h : scanNum z = some Z) :
    ∃ sg hh mm, NumText z sg hh mm ∧ Z = .num (sg :: hh) mm := by
  cases z with
  | nil => simp [scanNum] at h
  | cons sg s =>
    simp only [scanNum] at h
    split at h
    · rename_i hsg
      split at h
      · cases h
      · rename_i hh s1 h1
        obtain ⟨e1, d1⟩ := digits_sound h1
        split at h
        · rename_i mm h2
          simp only [Option.some.injEq] at h
          obtain ⟨e2, d2⟩ := digits_sound h2
          simp only [List.append_nil] at e2
          rcases skipChar_cases ':' s1 with hc | hc
          · exact ⟨sg, hh, mm, ⟨[':'], by rw [e1, hc, e2]; simp, Or.inr rfl, hsg, d1, d2⟩, h.symm⟩
          · exact ⟨sg, hh, mm, ⟨[], by rw [e1, ← hc, e2]; simp, Or.inl rfl, hsg, d1, d2⟩, h.symm⟩
        · cases h
    · cases h

theorem digits2_head {mm : List Char} (h : Digits 2 mm) : ∃ a b, mm = [a, b] ∧ AsciiDigit a ∧ AsciiDigit b := by
  obtain ⟨hl, hd⟩ := h
  match mm, hl with
  | [a, b], _ => exact ⟨a, b, rfl, hd a (by simp), hd b (by simp)⟩

theorem scanNum_complete {z : List Char} {sg : Char} {hh mm : List Char} (h : NumText z sg hh mm) :
    scanNum z = some (.num (sg :: hh) mm) := by
  obtain ⟨colon, rfl, hc, hsg, dh, dm⟩ := h
  have e : sg :: hh ++ colon ++ mm = sg :: (hh ++ (colon ++ mm)) := by simp
  rw [e]
  have hd : digits 2 mm = some (mm, []) := by
    have := digits_append [] dm; simpa using this
  simp only [scanNum, hsg, if_true, digits_append _ dh]
  rcases hc with rfl | rfl
  · obtain ⟨a, b, rfl, ha, hb⟩ := digits2_head dm
    have hne : a ≠ ':' := by
      rintro rfl
      exact absurd ((isDigit_iff ':').mpr ha) (by decide)
    simp only [List.nil_append, skipChar_cons_ne _ hne, hd]
  · simp only [List.cons_append, List.nil_append, skipChar_cons_eq, hd]

theorem scanNum_alpha {z : List Char} (h : ∀ c, z.head? = some c → isAlpha c = true) : scanNum z = none := by
  cases z with
  | nil => rfl
  | cons sg s =>
    have ha := h sg rfl
    have : ¬ (sg = '+' ∨ sg = '-') := by
      rintro (rfl | rfl) <;> revert ha <;> decide
    simp [scanNum, this]

theorem zonePrefix_some {s r : List Char} (h : zonePrefix s = some r) :
    s = ['G','M','T'] ++ r ∨ s = ['U','T','C'] ++ r := by
  unfold zonePrefix at h
  rcases Option.or_eq_some_iff.mp h with h | ⟨_, h⟩
  · exact Or.inl (stripPre_some.mp h)
  · exact Or.inr (stripPre_some.mp h)

theorem scanAbbr_sound {z : List Char} {Z : Zone} (h : scanAbbr z = some Z) : ZoneWritten z Z.spec := by
  unfold scanAbbr at h
  simp only at h
  split at h
  · rename_i os hl
    simp only [Option.some.injEq] at h
    subst h
    refine ⟨?_, known_iff.mpr ⟨os, hl⟩⟩
    rcases skipChar_cases '+' z with hc | hc
    · exact Or.inr hc
    · exact Or.inl hc.symm
  · split at h
    · rename_i hz
      simp only [Option.some.injEq] at h
      subst h; exact hz
    · cases h

theorem scanZone_sound {z : List Char} {Z : Zone} (h : scanZone z = some Z) : ZoneWritten z Z.spec := by
  unfold scanZone at h
  rcases Option.or_eq_some_iff.mp h with h1 | ⟨_, h2⟩
  · obtain ⟨r, hr, hn⟩ := Option.bind_eq_some_iff.mp h1
    obtain ⟨sg, hh, mm, ⟨colon, e, hc, hsg, dh, dm⟩, rfl⟩ := scanNum_sound hn
    rcases zonePrefix_some hr with hp | hp
    · exact ⟨['G','M','T'], colon, by rw [hp, e]; simp, Or.inr (Or.inl rfl), hc, hsg, dh, dm⟩
    · exact ⟨['U','T','C'], colon, by rw [hp, e]; simp, Or.inr (Or.inr rfl), hc, hsg, dh, dm⟩
  · rcases Option.or_eq_some_iff.mp h2 with h3 | ⟨_, h4⟩
    · obtain ⟨sg, hh, mm, ⟨colon, e, hc, hsg, dh, dm⟩, rfl⟩ := scanNum_sound h3
      exact ⟨[], colon, by rw [e]; simp, Or.inl rfl, hc, hsg, dh, dm⟩
    · exact scanAbbr_sound h4

theorem alpha_not_sign {c : Char} (h : isAlpha c = true) : c ≠ '+' ∧ c ≠ '-' ∧ c ≠ ':' ∧ isSpace c = false ∧ isDigit c = false := by
  unfold isAlpha at h
  simp only [Bool.or_eq_true, Bool.and_eq_true, decide_eq_true_eq] at h
  refine ⟨?_, ?_, ?_, ?_, ?_⟩
  · rintro rfl; revert h; decide
  · rintro rfl; revert h; decide
  · rintro rfl; revert h; decide
  · cases hs : isSpace c with
    | false => rfl
    | true =>
      unfold isSpace at hs
      simp only [DateTables.whitespace, List.any_cons, List.any_nil, Bool.or_false, Bool.or_eq_true, Bool.and_eq_true,
        decide_eq_true_eq] at hs
      omega
  · cases hs : isDigit c with
    | false => rfl
    | true =>
      unfold isDigit at hs
      simp only [Bool.and_eq_true, decide_eq_true_eq] at hs
      omega

theorem scanNum_of_alpha_tail {r : List Char} (h : ∀ c ∈ r, isAlpha c = true) : scanNum r = none :=
  scanNum_alpha (fun c hc => h c (List.mem_of_mem_head? hc))

theorem scanZone_complete {z : List Char} {zs : ZoneSpec} (h : ZoneWritten z zs) : scanZone z = some (zoneOfSpec zs) := by
  unfold scanZone
  cases zs with
  | numeric sg hh mm =>
    obtain ⟨pre, colon, e, hp, hc, hsg, dh, dm⟩ := h
    have hnum : scanNum (sg :: hh ++ colon ++ mm) = some (.num (sg :: hh) mm) :=
      scanNum_complete ⟨colon, rfl, hc, hsg, dh, dm⟩
    rcases hp with rfl | rfl | rfl
    · -- no prefix: the prefixed alternative fails on the sign
      have hz : zonePrefix z = none := by
        subst e
        rcases hsg with rfl | rfl <;> simp [zonePrefix, stripPre]
      simp only [hz, Option.bind_none, Option.none_or]
      rw [e, List.nil_append, hnum]; rfl
    · have hz : zonePrefix z = some (sg :: hh ++ colon ++ mm) := by
        subst e; simp [zonePrefix, stripPre]
      simp only [hz, Option.bind_some, hnum, Option.some_or, zoneOfSpec]
    · have hz : zonePrefix z = some (sg :: hh ++ colon ++ mm) := by
        subst e; simp [zonePrefix, stripPre]
      simp only [hz, Option.bind_some, hnum, Option.some_or, zoneOfSpec]
  | abbr a =>
    obtain ⟨hz, hk⟩ := h
    obtain ⟨hne, hal⟩ := known_alpha hk
    obtain ⟨os, hl⟩ := known_iff.mp hk
    -- the first two alternatives fail
    have h1 : (zonePrefix z).bind scanNum = none := by
      cases hp : zonePrefix z with
      | none => rfl
      | some r =>
        simp only [Option.bind_some]
        apply scanNum_of_alpha_tail
        intro c hc
        rcases hz with rfl | rfl
        · rcases zonePrefix_some hp with e | e
          · exact hal c (by rw [e]; simp [hc])
          · exact hal c (by rw [e]; simp [hc])
        · rcases zonePrefix_some hp with e | e <;> simp at e
    have h2 : scanNum z = none := by
      rcases hz with rfl | rfl
      · exact scanNum_of_alpha_tail hal
      · cases a with
        | nil => exact absurd rfl hne
        | cons x a =>
          have hx := (alpha_not_sign (hal x List.mem_cons_self)).2.2.2.2
          simp [scanNum, digits, hx]
    have h3 : skipChar '+' z = a := by
      rcases hz with hz | hz
      · rw [hz]
        cases a with
        | nil => exact absurd rfl hne
        | cons x a => exact skipChar_cons_ne _ (alpha_not_sign (hal x List.mem_cons_self)).1
      · rw [hz]; exact skipChar_cons_eq _ _
    simp only [h1, h2, Option.none_or, scanAbbr, h3, hl, zoneOfSpec]
  | absent =>
    have : z = [] := h
    subst this
    have : lookupTz [] = none := by
      cases hl : lookupTz [] with
      | none => rfl
      | some os => exact absurd rfl (known_alpha (known_iff.mpr ⟨os, hl⟩)).1
    simp [zonePrefix, stripPre, scanNum, scanAbbr, skipChar, this, zoneOfSpec]

/-! ### the whole scanner -/

theorem parseDate_sound {s : List Char} {g : Groups} (h : parseDate s = some g) :
    Written s g.date g.time g.zone.spec := by
  unfold parseDate at h
  split at h
  · cases h
  · rename_i date s1 h1
    split at h
    · cases h
    · rename_i s2 h2
      split at h
      · cases h
      · rename_i time s3 h3
        split at h
        · cases h
        · rename_i s4 h4
          split at h
          · cases h
          · rename_i Z h5
            simp only [Option.some.injEq] at h
            subst h
            obtain ⟨e1, d1⟩ := scanDate_sound h1
            obtain ⟨sep, e2, d2⟩ := scanSep_sound h2
            obtain ⟨e3, d3⟩ := scanTime_sound h3
            obtain ⟨secs, e4, d4⟩ := scanSecs_sound h4
            obtain ⟨gap, e5, d5, _⟩ := dropWhile_sound s4
            refine ⟨sep, secs, gap, s4.dropWhile isSpace, ?_, d1, d2, d3, d4, d5, scanZone_sound h5⟩
            rw [e1, e2, e3, e4]
            simp only [List.append_assoc]
            rw [← e5]

theorem white_not_colon {c : Char} (h : White c) : c ≠ ':' := by
  rintro rfl
  have := (isSpace_iff ':').mpr h
  revert this; decide

theorem zoneWritten_head {z : List Char} {zs : ZoneSpec} (h : ZoneWritten z zs) :
    ∀ c, z.head? = some c → c ≠ ':' ∧ ¬ White c := by
  intro c hc
  have key : ∀ x : Char, (x = '+' ∨ x = '-' ∨ x = 'G' ∨ x = 'U' ∨ isAlpha x = true) → x ≠ ':' ∧ ¬ White x := by
    intro x hx
    have hxa : x ≠ ':' ∧ isSpace x = false := by
      rcases hx with rfl | rfl | rfl | rfl | hx
      · decide
      · decide
      · decide
      · decide
      · exact ⟨(alpha_not_sign hx).2.2.1, (alpha_not_sign hx).2.2.2.1⟩
    refine ⟨hxa.1, fun hw => ?_⟩
    rw [(isSpace_iff x).mpr hw] at hxa; cases hxa.2
  cases zs with
  | numeric sg hh mm =>
    obtain ⟨pre, colon, e, hp, _, hsg, _, _⟩ := h
    apply key
    rcases hp with rfl | rfl | rfl
    · rw [e] at hc; simp at hc; subst hc
      rcases hsg with h | h
      · exact Or.inl h
      · exact Or.inr (Or.inl h)
    · rw [e] at hc; simp at hc; subst hc; exact Or.inr (Or.inr (Or.inl rfl))
    · rw [e] at hc; simp at hc; subst hc; exact Or.inr (Or.inr (Or.inr (Or.inl rfl)))
  | abbr a =>
    obtain ⟨hz, hk⟩ := h
    obtain ⟨hne, hal⟩ := known_alpha hk
    apply key
    rcases hz with hz | hz
    · rw [hz] at hc
      exact Or.inr (Or.inr (Or.inr (Or.inr (hal c (List.mem_of_mem_head? hc)))))
    · rw [hz] at hc; simp at hc; exact Or.inl hc.symm
  | absent =>
    have : z = [] := h
    subst this; cases hc

theorem parseDate_complete {s date time : List Char} {zs : ZoneSpec} (h : Written s date time zs) :
    parseDate s = some ⟨date, time, zoneOfSpec zs⟩ := by
  obtain ⟨sep, secs, gap, ztxt, rfl, hd, hsep, ht, hsecs, hgap, hz⟩ := h
  have hzh := zoneWritten_head hz
  have hhead : ∀ c, (gap ++ ztxt).head? = some c → c ≠ ':' := by
    intro c hc
    cases gap with
    | nil => exact (hzh c hc).1
    | cons x gap =>
      simp at hc; subst hc
      exact white_not_colon (hgap _ List.mem_cons_self)
  unfold parseDate
  have e1 : date ++ sep ++ time ++ secs ++ gap ++ ztxt = date ++ (sep ++ (time ++ (secs ++ (gap ++ ztxt)))) := by simp
  rw [e1, scanDate_complete _ hd]
  simp only
  rw [scanSep_complete _ hsep (head_digit_of_isTime _ ht)]
  simp only
  rw [scanTime_complete _ ht]
  simp only
  rw [scanSecs_complete _ hsecs (by intro x hx; exact hhead ':' (by rw [hx]; rfl) rfl)]
  simp only
  rw [dropWhile_append hgap (fun c hc => (hzh c hc).2), scanZone_complete hz]

end I18n.Date
