import I18n.Generated.Domains
import I18n.Lemmas.HdrPyKit
/-!
# `lib/domains.py` regenerated = `Model/Domains.lean`

`I18n.Generated.Domains` is rewritten by `tools/translate/domains2lean.py` from the current source on every run.  The proofs unfold
the generated definitions through the macro the translator emits (`unfold_generated_domains`: every definition of the file, so a
helper split off in the source is unfolded too) and never name a bound variable of the generated text.
-/
set_option linter.unusedSimpArgs false
namespace I18n.Domains.Gen
open I18n I18n.Generated

theorem is_special_domain_eq (lower : Str → Str) (d : Str) :
    Generated.Domains.is_special_domain lower d = .ok (isSpecialDomain lower d) := by
  unfold_generated_domains
  rfl

theorem is_dotless_domain_eq (d : Str) : Generated.Domains.is_dotless_domain d = .ok (isDotlessDomain d) := by
  unfold_generated_domains
  rfl

theorem is_email_in_special_domain_eq (lower : Str → Str) (email : Str) :
    Generated.Domains.is_email_in_special_domain lower email =
      if '@' ∈ email then .ok (isEmailInSpecialDomain lower email) else .error .ValueError := by
  by_cases h : '@' ∈ email
  · obtain ⟨loc, e⟩ := HdrPy.rsplit1_at email h
    unfold_generated_domains
    simp only [e, h, if_true]
    rfl
  · unfold_generated_domains
    simp only [HdrPy.rsplit1_of_not_mem _ _ h, h, if_false]

theorem is_email_in_dotless_domain_eq (email : Str) :
    Generated.Domains.is_email_in_dotless_domain email =
      if '@' ∈ email then .ok (isEmailInDotlessDomain email) else .error .ValueError := by
  by_cases h : '@' ∈ email
  · obtain ⟨loc, e⟩ := HdrPy.rsplit1_at email h
    unfold_generated_domains
    simp only [e, h, if_true]
    rfl
  · unfold_generated_domains
    simp only [HdrPy.rsplit1_of_not_mem _ _ h, h, if_false]

end I18n.Domains.Gen
