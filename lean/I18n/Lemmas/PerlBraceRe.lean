import I18n.Lemmas.PerlBrace
import I18n.Spec.BraceRe
/-
The deterministic scanner of the perl-brace model IS the first match of the live parse tree `perlFieldRe` under the
backtracking semantics `Spec.BraceRe.bt` (end position and the span of the `name` group included).  A change of the
pattern changes the generated term and breaks this proof in the kernel.
-/
namespace I18n.Spec.BraceRe
open I18n.BraceChars

/-- the interpreter's categories, as the models look them up -/
def liveDB : CharDB := { word := isWord, digit := isDigit }

theorem toNat_eq_iff (c : Char) (k : Nat) (hk : (Char.ofNat k).toNat = k) : c.toNat = k ↔ c = Char.ofNat k := by
  constructor
  · intro h; rw [← h, Char.ofNat_toNat]
  · rintro rfl; exact hk

section eqns
variable {β : Type} (db : CharDB) (k : St → Option β)
theorem bt_eps (st : St) : bt db .eps st k = k st := rfl
theorem bt_cls_nil (neg items pos caps) : bt db (.cls neg items) ⟨[], pos, caps⟩ k = none := rfl
theorem bt_cls_cons (neg items c r pos caps) :
    bt db (.cls neg items) ⟨c :: r, pos, caps⟩ k = if clsTest db neg items c then k ⟨r, pos + 1, caps⟩ else none := rfl
theorem bt_seq (a b st) : bt db (.seq a b) st k = bt db a st (fun st' => bt db b st' k) := rfl
theorem bt_alt (a b st) : bt db (.alt a b) st k = (match bt db a st k with | some r => some r | none => bt db b st k) := rfl
theorem bt_opt (a st) : bt db (.opt a) st k = (match bt db a st k with | some r => some r | none => k st) := rfl
theorem bt_star (a st) : bt db (.star a) st k = starLoop (bt db a) st.rest.length st k := rfl
theorem bt_plus (a st) : bt db (.plus a) st k = bt db a st (fun st' => starLoop (bt db a) st'.rest.length st' k) := rfl
theorem bt_group (g a st) : bt db (.group g a) st k = bt db a st (fun st' => k { st' with caps := (g, st.pos, st'.pos) :: st'.caps }) := rfl
theorem bt_bos (st) : bt db .bos st k = if st.pos = 0 then k st else none := rfl
theorem bt_eos (st) : bt db .eos st k = if st.rest.isEmpty then k st else none := rfl
end eqns

/-- greedy repetition of a one-character class: if the continuation cannot succeed in front of a character of the class
    (or always succeeds), the repetition consumes the maximal run -/
theorem starLoop_cls (db : CharDB) (neg : Bool) (items : List ClsItem) {β : Type} (k : St → Option β)
    (H : (∀ c r pos caps, clsTest db neg items c = true → k ⟨c :: r, pos, caps⟩ = none) ∨ (∀ st, k st ≠ none)) :
    ∀ (fuel : Nat) (rest : List Char) (pos : Nat) (caps : Caps), rest.length ≤ fuel →
      starLoop (bt db (.cls neg items)) fuel ⟨rest, pos, caps⟩ k =
        k ⟨rest.dropWhile (clsTest db neg items), pos + (rest.takeWhile (clsTest db neg items)).length, caps⟩ := by
  intro fuel
  induction fuel with
  | zero =>
    intro rest pos caps h
    have : rest = [] := by cases rest <;> simp_all
    subst this; simp [starLoop]
  | succ fuel ih =>
    intro rest pos caps h
    cases rest with
    | nil => simp [starLoop, bt_cls_nil]
    | cons c r =>
      by_cases hc : clsTest db neg items c = true
      · have hr : r.length ≤ fuel := by simp at h; omega
        have := ih r (pos + 1) caps hr
        have e : pos + 1 + (List.takeWhile (clsTest db neg items) r).length = pos + ((List.takeWhile (clsTest db neg items) r).length + 1) := by omega
        rw [e] at this
        simp only [starLoop, bt_cls_cons, hc, if_true, List.length_cons, Nat.lt_add_one, this, List.dropWhile_cons, List.takeWhile_cons]
        cases hk : k ⟨List.dropWhile (clsTest db neg items) r, pos + ((List.takeWhile (clsTest db neg items) r).length + 1), caps⟩ with
        | some x => simp
        | none =>
          simp only
          rcases H with H | H
          · exact H c r pos caps hc
          · exact absurd hk (H _)
      · simp [starLoop, bt_cls_cons, hc]

end I18n.Spec.BraceRe

namespace I18n.PerlBrace
open I18n.BraceChars I18n.Spec.BraceRe
open I18n.Generated.PyBraceTables (perlFieldRe perlFieldReFlags perlFieldReGroups)

/-- the captures `_field_re` records for an item that starts at `pos` -/
def itemCaps (pos : Nat) : Item → Caps
  | .lit t => [(1, pos, pos + t.length)]
  | .field n => [(2, pos + 1, pos + 1 + n.length)]

theorem cls_not_open (c : Char) : clsTest liveDB true [.lit 123] c = decide (c ≠ '{') := by
  have : (c.toNat == 123) = decide (c = '{') := by
    have := toNat_eq_iff c 123 (by decide)
    by_cases h : c = '{'
    · simp [h]
    · simp [h]; intro h'; exact h (this.1 h')
  simp [clsTest, ClsItem.test, this]

theorem cls_is (k : Nat) (hk : (Char.ofNat k).toNat = k) (c : Char) : clsTest liveDB false [.lit k] c = decide (c = Char.ofNat k) := by
  have := toNat_eq_iff c k hk
  by_cases h : c = Char.ofNat k
  · simp [clsTest, ClsItem.test, h, hk]
  · simp [clsTest, ClsItem.test, h]; intro h'; exact h (this.1 h')

theorem cls_idstart (c : Char) : clsTest liveDB true [.notWord, .digit] c = isIdStart c := by
  simp only [clsTest, ClsItem.test, liveDB, isIdStart, List.any_cons, List.any_nil]
  cases isWord c <;> cases isDigit c <;> rfl

theorem cls_word (c : Char) : clsTest liveDB false [.word] c = isWord c := by
  simp [clsTest, ClsItem.test, liveDB]

/-- `_field_re.match(s, pos)`: the scanner's item, its end, its captures — for every string and position -/
theorem matchAt_perlFieldRe (cs : List Char) (pos : Nat) :
    matchAt liveDB perlFieldRe cs pos =
      (scanItem cs).map fun (it, rest) => { rest := rest, pos := pos + it.text.length, caps := itemCaps pos it } := by
  have hw : clsTest liveDB false [.word] = isWord := funext cls_word
  have hno : clsTest liveDB true [.lit 123] = (fun c => decide (c ≠ '{')) := funext cls_not_open
  cases cs with
  | nil => simp [matchAt, perlFieldRe, bt_alt, bt_group, bt_plus, bt_seq, bt_cls_nil, scanItem]
  | cons c cs =>
    by_cases hc : c = '{'
    · subst hc
      have h1 : clsTest liveDB true [.lit 123] '{' = false := by rw [cls_not_open]; decide
      have h2 : clsTest liveDB false [.lit 123] '{' = true := by rw [cls_is 123 (by decide)]; decide
      cases cs with
      | nil => simp [matchAt, perlFieldRe, bt_alt, bt_group, bt_plus, bt_seq, bt_cls_cons, bt_cls_nil, scanItem, h1, h2]
      | cons d ds =>
        by_cases hd : isIdStart d = true
        · have h3 : clsTest liveDB true [.notWord, .digit] d = true := by rw [cls_idstart]; exact hd
          simp only [matchAt, perlFieldRe, bt_alt, bt_group, bt_plus, bt_seq, bt_star, bt_cls_cons, h1, h2, h3, if_true]
          rw [starLoop_cls liveDB false [.word] _ (Or.inl ?H) _ _ _ _ (Nat.le_refl _)]
          case H =>
            intro c r p caps hcw
            rw [cls_word] at hcw
            have : clsTest liveDB false [.lit 125] c = false := by
              rw [cls_is 125 (by decide)]
              simpa using word_ne_close hcw
            simp [bt_cls_cons, this]
          simp only [hw, scanItem, hd, if_true, ne_eq, not_true_eq_false, if_false]
          cases hdw : ds.dropWhile isWord with
          | nil => simp [bt_cls_nil]
          | cons e r =>
            by_cases he : e = '}'
            · subst he
              have : clsTest liveDB false [.lit 125] '}' = true := by rw [cls_is 125 (by decide)]; decide
              simp [bt_cls_cons, this, Item.text, itemCaps]; omega
            · have : clsTest liveDB false [.lit 125] e = false := by
                rw [cls_is 125 (by decide)]; simpa using he
              simp only [bt_cls_cons, this]
              split <;> simp_all
        · have h3 : clsTest liveDB true [.notWord, .digit] d = false := by rw [cls_idstart]; simpa using hd
          simp [matchAt, perlFieldRe, bt_alt, bt_group, bt_plus, bt_seq, bt_cls_cons, scanItem, h1, h2, h3, hd]
    · -- a literal: the greedy run is the first successful path (nothing follows the alternative)
      have h1 : clsTest liveDB true [.lit 123] c = true := by rw [cls_not_open]; simpa using hc
      simp only [matchAt, perlFieldRe, bt_alt, bt_group, bt_plus, bt_seq, bt_star, bt_cls_cons, h1, if_true]
      rw [starLoop_cls liveDB true [.lit 123] _ (Or.inr (by intro st; simp)) _ _ _ _ (Nat.le_refl _)]
      rw [scanItem_other cs hc]
      simp [hno, Item.text, itemCaps]; omega

/-- the compile flags are `re.VERBOSE | re.UNICODE` and the groups are `literal`, `name` -/
theorem perl_regex_flags : perlFieldReFlags = 96 ∧ perlFieldReGroups = [("literal", 1), ("name", 2)] := by decide

end I18n.PerlBrace
