import I18n.Lemmas.CharsetRegistryDef
/-! # C20: the registry model against CodecFacts — chunks 3 .. (one of four shares, built in parallel) -/
namespace I18n.Charset.Tables
open I18n.Charset I18n.Generated.Charset
set_option maxRecDepth 100000

theorem registry_rows_B : (((codecFactsChunks.drop 3).take 3).all fun ch => ch.all fun r => registry r.name == r.codec) = true := by
  decide +kernel

end I18n.Charset.Tables
