import I18n.Lemmas.ReKit
import I18n.Lemmas.CFmtScan
import I18n.Model.CFmtRe
/-!
# The model's scanner IS the first match of the live parse tree of `_directive_re`

`canonRe` is the canonical form (`ReKit.norm`) of the pattern the scanner was written against (`Lemmas.CFmtReLive.live_norm`
checks, by kernel evaluation, that the live tree dumped by the translator has that canonical form); the step lemmas below read
`canonRe` piece by piece under `bt` (every backtracking point is closed either by a first-set argument — `fails_of_first`,
decided by `fsDisjointB` — or, for the `index` group, by following the scanner through `digits $`).
-/
namespace I18n.CFmtRe
open I18n.Spec.Printf I18n.Spec.BraceRe I18n.ReKit
open I18n.CFmt hiding St

/-! ## the canonical tree -/

def lit (k : Nat) : Re := .cls false [.range k k]
def digitRe : Re := .cls false [.range 48 57]
def idxRe (g : Nat) : Re := .group g (.seq digitRe (.seq (.star digitRe) (lit 36)))
def flagRe : Re := .cls false [.range 32 32, .range 35 35, .range 39 39, .range 43 43, .range 45 45, .range 48 48, .range 73 73]
def nzRe : Re := .cls false [.range 49 57]
def widthRe : Re := .opt (.alt (.seq (.group 6 (lit 42)) (.opt (idxRe 7))) (.group 5 (.seq nzRe (.star digitRe))))
def precRe : Re := .opt (.seq (lit 46) (.alt (.group 8 (.star digitRe)) (.seq (.group 9 (lit 42)) (.opt (idxRe 10)))))
def lenRe : Re :=
  .alt (lit 76) (.alt (.cls false [.range 90 90, .range 106 106, .range 113 113, .range 116 116, .range 122 122])
    (.alt (.seq (lit 104) (.opt (lit 104))) (.seq (lit 108) (.opt (lit 108)))))
def convRe : Re :=
  .cls false [.range 37 37, .range 65 65, .range 67 67, .range 69 71, .range 83 83, .range 88 88, .range 97 97, .range 99 103,
    .range 105 105, .range 109 112, .range 115 115, .range 117 117, .range 120 120]
def priConvRe : Re := .cls false [.range 88 88, .range 100 100, .range 105 105, .range 111 111, .range 117 117, .range 120 120]
def bitsRe : Re := .alt (.seq (lit 49) (lit 54)) (.alt (.seq (lit 51) (lit 50)) (.alt (.seq (lit 54) (lit 52)) (lit 56)))
def kindRe : Re :=
  .alt (.seq (lit 70) (.seq (lit 65) (.seq (lit 83) (lit 84)))) (.seq (lit 76) (.seq (lit 69) (.seq (lit 65) (.seq (lit 83) (lit 84)))))
def priLenRe : Re :=
  .alt (.seq (.opt kindRe) bitsRe) (.alt (.seq (lit 77) (.seq (lit 65) (lit 88))) (.seq (lit 80) (.seq (lit 84) (lit 82))))
def priRe : Re :=
  .seq (lit 60) (.seq (lit 80) (.seq (lit 82) (.seq (lit 73) (.seq (.group 13 priConvRe) (.seq (.group 14 priLenRe) (lit 62))))))
def stdRe : Re := .seq (.opt (.group 11 lenRe)) (.group 12 convRe)
def bodyRe : Re := .alt stdRe priRe
def notPctRe : Re := .cls true [.range 37 37]
def litRe : Re := .group 1 (.seq notPctRe (.star notPctRe))
def tailRe : Re := .seq (.opt (idxRe 3)) (.seq (.group 4 (.star flagRe)) (.seq widthRe (.seq precRe bodyRe)))
def dirRe : Re := .group 2 (.seq (lit 37) tailRe)
def canonRe : Re := .alt litRe dirRe

/-! ## the classes of the canonical tree are the model's character tests -/
section classes
variable (db : CharDB)

theorem bne_false' (b : Bool) : (b != false) = b := by cases b <;> rfl
theorem bne_true' (b : Bool) : (b != true) = !b := by cases b <;> rfl

theorem cls_lit (k : Nat) (d : Char) (h : d.toNat = k) (c : Char) : clsTest db false [.range k k] c = (c == d) := by
  subst h
  simp only [clsTest, ClsItem.test, List.any_cons, List.any_nil, Bool.or_false, bne_false']
  by_cases e : c = d
  · subst e; simp
  · have : c.toNat ≠ d.toNat := fun h => e (Char.toNat_inj.1 h)
    simp only [beq_eq_false_iff_ne.2 e]
    by_cases p : d.toNat ≤ c.toNat <;> by_cases q : c.toNat ≤ d.toNat <;> simp [p, q]
    omega

@[simp] theorem lit_36 (c : Char) : clsTest db false [.range 36 36] c = (c == '$') := cls_lit db 36 '$' rfl c
@[simp] theorem lit_37 (c : Char) : clsTest db false [.range 37 37] c = (c == '%') := cls_lit db 37 '%' rfl c
@[simp] theorem lit_42 (c : Char) : clsTest db false [.range 42 42] c = (c == '*') := cls_lit db 42 '*' rfl c
@[simp] theorem lit_46 (c : Char) : clsTest db false [.range 46 46] c = (c == '.') := cls_lit db 46 '.' rfl c
@[simp] theorem lit_60 (c : Char) : clsTest db false [.range 60 60] c = (c == '<') := cls_lit db 60 '<' rfl c
@[simp] theorem lit_62 (c : Char) : clsTest db false [.range 62 62] c = (c == '>') := cls_lit db 62 '>' rfl c
@[simp] theorem lit_73 (c : Char) : clsTest db false [.range 73 73] c = (c == 'I') := cls_lit db 73 'I' rfl c
@[simp] theorem lit_80 (c : Char) : clsTest db false [.range 80 80] c = (c == 'P') := cls_lit db 80 'P' rfl c
@[simp] theorem lit_82 (c : Char) : clsTest db false [.range 82 82] c = (c == 'R') := cls_lit db 82 'R' rfl c
@[simp] theorem lit_70 (c : Char) : clsTest db false [.range 70 70] c = (c == 'F') := cls_lit db 70 'F' rfl c
@[simp] theorem lit_65 (c : Char) : clsTest db false [.range 65 65] c = (c == 'A') := cls_lit db 65 'A' rfl c
@[simp] theorem lit_83 (c : Char) : clsTest db false [.range 83 83] c = (c == 'S') := cls_lit db 83 'S' rfl c
@[simp] theorem lit_84 (c : Char) : clsTest db false [.range 84 84] c = (c == 'T') := cls_lit db 84 'T' rfl c
@[simp] theorem lit_76 (c : Char) : clsTest db false [.range 76 76] c = (c == 'L') := cls_lit db 76 'L' rfl c
@[simp] theorem lit_69 (c : Char) : clsTest db false [.range 69 69] c = (c == 'E') := cls_lit db 69 'E' rfl c
@[simp] theorem lit_77 (c : Char) : clsTest db false [.range 77 77] c = (c == 'M') := cls_lit db 77 'M' rfl c
@[simp] theorem lit_88 (c : Char) : clsTest db false [.range 88 88] c = (c == 'X') := cls_lit db 88 'X' rfl c
@[simp] theorem lit_49 (c : Char) : clsTest db false [.range 49 49] c = (c == '1') := cls_lit db 49 '1' rfl c
@[simp] theorem lit_54 (c : Char) : clsTest db false [.range 54 54] c = (c == '6') := cls_lit db 54 '6' rfl c
@[simp] theorem lit_51 (c : Char) : clsTest db false [.range 51 51] c = (c == '3') := cls_lit db 51 '3' rfl c
@[simp] theorem lit_50 (c : Char) : clsTest db false [.range 50 50] c = (c == '2') := cls_lit db 50 '2' rfl c
@[simp] theorem lit_52 (c : Char) : clsTest db false [.range 52 52] c = (c == '4') := cls_lit db 52 '4' rfl c
@[simp] theorem lit_56 (c : Char) : clsTest db false [.range 56 56] c = (c == '8') := cls_lit db 56 '8' rfl c
@[simp] theorem lit_104 (c : Char) : clsTest db false [.range 104 104] c = (c == 'h') := cls_lit db 104 'h' rfl c
@[simp] theorem lit_108 (c : Char) : clsTest db false [.range 108 108] c = (c == 'l') := cls_lit db 108 'l' rfl c

theorem isDigit_eq (c : Char) : c.isDigit = (decide (48 ≤ c.toNat) && decide (c.toNat ≤ 57)) := by
  simp [Char.isDigit, UInt32.le_iff_toNat_le]

@[simp] theorem cls_digit (c : Char) : clsTest db false [.range 48 57] c = c.isDigit := by
  simp [clsTest, ClsItem.test, isDigit_eq]

@[simp] theorem cls_nz (c : Char) : clsTest db false [.range 49 57] c = (c.isDigit && c != '0') := by
  have e : (c != '0') = !(c.toNat == 48) := by
    by_cases h : c = '0'
    · subst h; rfl
    · have : c.toNat ≠ 48 := fun h' => h (Char.toNat_inj.1 (by simpa using h'))
      simp only [bne_iff_ne, ne_eq, h, not_false_eq_true, beq_eq_false_iff_ne.2 this, Bool.not_false]
  simp only [clsTest, ClsItem.test, List.any_cons, List.any_nil, Bool.or_false, bne_false', isDigit_eq, e]
  by_cases p : 49 ≤ c.toNat <;> by_cases q : c.toNat ≤ 57 <;> by_cases r : 48 ≤ c.toNat <;> by_cases t : c.toNat = 48 <;> simp [p, q, r, t] <;> omega

@[simp] theorem cls_notPct (c : Char) : clsTest db true [.range 37 37] c = (c != '%') := by
  have := lit_37 db c
  simp only [clsTest, bne_false', bne_true'] at this ⊢
  rw [this]; rfl

theorem contains_eq_itemsN (chars : List Char) (c : Char) :
    chars.contains c = itemsN (chars.map (fun ch => ClsItem.lit ch.toNat)) c.toNat := by
  induction chars with
  | nil => rfl
  | cons d ds ih =>
    have e : (c == d) = (c.toNat == d.toNat) := by
      by_cases h : c = d
      · subst h; simp
      · have : c.toNat ≠ d.toNat := fun h' => h (Char.toNat_inj.1 h')
        simp only [beq_eq_false_iff_ne.2 h, beq_eq_false_iff_ne.2 this]
    simp only [List.contains_cons, ih, e, itemsN, List.map_cons, List.any_cons, itemN]

/-- a class is the membership test of a list of characters, decided at the break points -/
theorem cls_of_chars (chars : List Char) (items : List ClsItem)
    (h : clsEquivB items (chars.map (fun ch => ClsItem.lit ch.toNat)) = true) (c : Char) :
    clsTest db false items c = chars.contains c := by
  rw [clsEquivB_sound h db false c, contains_eq_itemsN]
  have hb : (chars.map (fun ch => ClsItem.lit ch.toNat)).all noCatItem = true := by
    simp only [clsEquivB, Bool.and_eq_true] at h; exact h.1.2
  simp only [clsTest, items_test_eq db c hb, bne_false']

theorem isFlag_contains (c : Char) : isFlag c = flagChars.contains c := by
  simp only [isFlag, flagChars, List.contains_cons, List.contains_nil, Bool.or_false, Bool.or_assoc]

@[simp] theorem cls_flag (c : Char) :
    clsTest db false [.range 32 32, .range 35 35, .range 39 39, .range 43 43, .range 45 45, .range 48 48, .range 73 73] c = isFlag c := by
  rw [isFlag_contains]; exact cls_of_chars db flagChars _ (by decide +kernel) c

@[simp] theorem cls_conv (c : Char) :
    clsTest db false [.range 37 37, .range 65 65, .range 67 67, .range 69 71, .range 83 83, .range 88 88, .range 97 97, .range 99 103,
      .range 105 105, .range 109 112, .range 115 115, .range 117 117, .range 120 120] c = isConv c :=
  cls_of_chars db convChars _ (by decide +kernel) c

@[simp] theorem cls_priConv (c : Char) :
    clsTest db false [.range 88 88, .range 100 100, .range 105 105, .range 111 111, .range 117 117, .range 120 120] c = isPriConv c :=
  cls_of_chars db priConvChars _ (by decide +kernel) c

@[simp] theorem cls_lenOne (c : Char) :
    clsTest db false [.range 90 90, .range 106 106, .range 113 113, .range 116 116, .range 122 122] c = ['q', 'j', 'z', 'Z', 't'].contains c :=
  cls_of_chars db ['q', 'j', 'z', 'Z', 't'] _ (by decide +kernel) c

end classes

/-! ## reading the tree piece by piece -/
section steps
variable {β : Type} (db : CharDB)

theorem spanP_eq_span (p : Char → Bool) (s : List Char) : spanP p s = ReKit.span p s := by
  induction s with
  | nil => rfl
  | cons c cs ih => simp only [spanP, ReKit.span, ih]

theorem or_none' {α : Type} (x : Option α) : x.or none = x := by cases x <;> rfl
theorem none_or' {α : Type} (x : Option α) : (none : Option α).or x = x := by cases x <;> rfl

/-! ### `[0-9]+[$]` -/

theorem scanIndex_nil : scanIndex [] = (none, []) := rfl

theorem scanIndex_nondigit {c : Char} {t : List Char} (hc : c.isDigit = false) : scanIndex (c :: t) = (none, c :: t) := by
  simp [scanIndex, spanP, hc]

theorem scanIndex_digit {c : Char} {t : List Char} (hc : c.isDigit = true) :
    scanIndex (c :: t) =
      if (spanP Char.isDigit t).2.head? = some '$' then (some (c :: (spanP Char.isDigit t).1), (spanP Char.isDigit t).2.tail)
      else (none, c :: t) := by
  simp only [scanIndex, spanP, hc, if_true]
  split <;> rename_i h
  · simp only [Prod.mk.injEq, List.cons.injEq] at h
    obtain ⟨⟨rfl, rfl⟩, h2⟩ := h
    simp [h2]
  · split
    · rename_i hh
      cases h2 : (spanP Char.isDigit t).2 with
      | nil => simp [h2] at hh
      | cons e r =>
        simp only [h2, List.head?_cons, Option.some.injEq] at hh
        subst hh
        exact absurd (by rw [h2]) (h c (spanP Char.isDigit t).1 r)
    · rfl

theorem digit_ne_dollar {c : Char} (hc : c.isDigit = true) : (c == '$') = false := by
  by_cases h : c = '$'
  · subst h; cases hc
  · simpa using h

theorem idx_core (g : Nat) (K : St → Option β) (rest : List Char) (pos : Nat) (caps : Caps) :
    bt db (idxRe g) ⟨rest, pos, caps⟩ K =
      match scanIndex rest with
      | (some ds, r) => K ⟨r, pos + (ds.length + 1), (g, pos, pos + (ds.length + 1)) :: caps⟩
      | (none, _) => none := by
  simp only [idxRe, digitRe, lit, bt_group, bt_seq]
  cases rest with
  | nil => simp [bt_cls_nil, scanIndex_nil]
  | cons c t =>
    rw [bt_cls_cons, cls_digit]
    by_cases hc : c.isDigit = true
    · simp only [hc, if_true]
      rw [star_cls db false _ Char.isDigit (cls_digit db) _ (by
        intro c' r' pos' caps' hc' hne
        rw [bt_cls_cons, lit_36, digit_ne_dollar hc'] at hne
        exact absurd rfl hne)]
      rw [scanIndex_digit hc, ← spanP_eq_span]
      cases h2 : (spanP Char.isDigit t).2 with
      | nil => simp [bt_cls_nil]
      | cons e r =>
        rw [bt_cls_cons, lit_36]
        by_cases he : e = '$'
        · subst he
          simp only [beq_self_eq_true, if_true, List.length_cons, List.head?_cons, List.tail_cons]
          have : pos + 1 + (spanP Char.isDigit t).1.length + 1 = pos + ((spanP Char.isDigit t).1.length + 1 + 1) := by omega
          rw [this]
        · have : (e == '$') = false := by simpa using he
          simp [this, he]
    · have hc' : c.isDigit = false := by simpa using hc
      simp [hc', scanIndex_nondigit hc']

theorem scanIndex_none_snd {s : List Char} (h : (scanIndex s).1 = none) : (scanIndex s).2 = s := by
  unfold scanIndex at h ⊢
  split <;> simp_all

/-- `( [0-9]+[$] )?`: the group takes `digits $` whenever the scanner reads an index — provided the continuation cannot
    succeed from the start of such a text (`hK`) -/
theorem idx_step (g : Nat) (K : St → Option β) (rest : List Char) (pos : Nat) (caps : Caps)
    (hK : ∀ ds r, scanIndex rest = (some ds, r) → K ⟨rest, pos, caps⟩ = none) :
    bt db (.opt (idxRe g)) ⟨rest, pos, caps⟩ K =
      K ⟨(scanIndex rest).2, pos + (renderIdx (scanIndex rest).1).length, idxCaps g pos (scanIndex rest).1 ++ caps⟩ := by
  rw [bt_opt, idx_core]
  cases h : scanIndex rest with
  | mk o r =>
    cases o with
    | some ds => simp only [hK ds r h, or_none', renderIdx, idxCaps, List.length_append, List.length_cons, List.length_nil, List.cons_append, List.nil_append]
    | none =>
      have := scanIndex_none_snd (s := rest) (by rw [h])
      rw [h] at this
      simp only [none_or', renderIdx, idxCaps, List.length_nil, Nat.add_zero, List.nil_append]
      simp only at this
      rw [this]

theorem scanIndex_some_head {rest ds r} (h : scanIndex rest = (some ds, r)) : ∃ c t, rest = c :: t ∧ c.isDigit = true := by
  cases rest with
  | nil => simp [scanIndex_nil] at h
  | cons c t =>
    by_cases hc : c.isDigit = true
    · exact ⟨c, t, rfl, hc⟩
    · have hc' : c.isDigit = false := by simpa using hc
      simp [scanIndex_nondigit hc'] at h

/-! ### flags -/

theorem flags_step (K : St → Option β) (rest : List Char) (pos : Nat) (caps : Caps)
    (hK : ∀ c r pos' caps', isFlag c = true → K ⟨c :: r, pos', caps'⟩ = none) :
    bt db (.group 4 (.star flagRe)) ⟨rest, pos, caps⟩ K =
      K ⟨(spanP isFlag rest).2, pos + (spanP isFlag rest).1.length, (4, pos, pos + (spanP isFlag rest).1.length) :: caps⟩ := by
  rw [bt_group]
  simp only [flagRe]
  rw [star_cls db false _ isFlag (cls_flag db) _ (by
    intro c r pos' caps' hc hne
    exact absurd (hK c r _ _ hc) hne)]
  rw [← spanP_eq_span]

/-! ### width -/

theorem scanWidth_other {c : Char} {t : List Char} (hs : c ≠ '*') :
    scanWidth (c :: t) = if (c.isDigit && c != '0') = true then (.num (spanP Char.isDigit (c :: t)).1, (spanP Char.isDigit (c :: t)).2) else (.none, c :: t) := by
  unfold scanWidth
  split
  · rename_i heq; injection heq with h1 _; exact absurd h1 hs
  · rename_i c' t' _ heq
    injection heq with h1 h2; subst h1; subst h2
    split <;> simp_all
  · rename_i heq; cases heq

theorem width_step (K : St → Option β) (rest : List Char) (pos : Nat) (caps : Caps)
    (hKd : ∀ c r pos' caps', c.isDigit = true → K ⟨c :: r, pos', caps'⟩ = none)
    (hKs : ∀ r pos' caps', K ⟨'*' :: r, pos', caps'⟩ = none) :
    bt db widthRe ⟨rest, pos, caps⟩ K =
      K ⟨(scanWidth rest).2, pos + (scanWidth rest).1.render.length, widthCaps pos (scanWidth rest).1 ++ caps⟩ := by
  simp only [widthRe, bt_opt, bt_alt, bt_seq, bt_group, nzRe, digitRe, lit]
  cases rest with
  | nil => simp [bt_cls_nil, scanWidth, Width.render, widthCaps]
  | cons c t =>
    simp only [bt_cls_cons, lit_42, cls_nz]
    by_cases hs : c = '*'
    · subst hs
      have e1 : (('*' : Char).isDigit && '*' != '0') = false := by decide
      simp only [beq_self_eq_true, if_true, e1, Bool.false_eq_true, if_false, or_none', hKs, scanWidth]
      rw [← bt_opt, idx_step db 7 K t (pos + 1) _ (by
        intro ds r h
        obtain ⟨c, t', rfl, hc⟩ := scanIndex_some_head h
        exact hKd c t' _ _ hc)]
      simp only [Width.render, widthCaps, List.length_cons, List.append_assoc, List.cons_append, List.nil_append]
      have : pos + 1 + (renderIdx (scanIndex t).1).length = pos + ((renderIdx (scanIndex t).1).length + 1) := by omega
      rw [this]
    · have hs' : (c == '*') = false := by simpa using hs
      simp only [hs', Bool.false_eq_true, if_false, none_or']
      by_cases hn : (c.isDigit && c != '0') = true
      · simp only [hn, if_true]
        have hd : c.isDigit = true := by simp only [Bool.and_eq_true] at hn; exact hn.1
        rw [star_cls db false _ Char.isDigit (cls_digit db) _ (by
          intro c' r' pos' caps' hc' hne
          exact absurd (hKd c' r' _ _ hc') hne)]
        rw [← spanP_eq_span, hKd c t _ _ hd, or_none']
        have e : scanWidth (c :: t) = (.num (spanP Char.isDigit (c :: t)).1, (spanP Char.isDigit (c :: t)).2) := by
          rw [scanWidth_other hs, if_pos hn]
        rw [e]
        simp only [spanP, hd, if_true, Width.render, widthCaps, List.length_cons, List.cons_append, List.nil_append]
        have : pos + 1 + (spanP Char.isDigit t).1.length = pos + ((spanP Char.isDigit t).1.length + 1) := by omega
        rw [this]
      · have hn' : (c.isDigit && c != '0') = false := by simpa using hn
        simp only [hn', Bool.false_eq_true, if_false, none_or']
        have e : scanWidth (c :: t) = (.none, c :: t) := by
          rw [scanWidth_other hs, if_neg hn]
        rw [e]
        simp [Width.render, widthCaps]

/-! ### precision -/

theorem scanPrec_nodot {c : Char} {t : List Char} (h : c ≠ '.') : scanPrec (c :: t) = (.none, c :: t) := by
  unfold scanPrec
  split
  · rename_i heq; injection heq with h1 _; exact absurd h1 h
  · rename_i heq; injection heq with h1 _; exact absurd h1 h
  · rfl

theorem scanPrec_dot_other {t : List Char} (h : ∀ u, t ≠ '*' :: u) :
    scanPrec ('.' :: t) = (.num (spanP Char.isDigit t).1, (spanP Char.isDigit t).2) := by
  unfold scanPrec
  split
  · rename_i heq; injection heq with _ h2; exact absurd h2 (h _)
  · rename_i heq; injection heq with _ h2; subst h2; rfl
  · rename_i h1 h2; exact absurd rfl (h2 t)

theorem prec_step (K : St → Option β) (rest : List Char) (pos : Nat) (caps : Caps)
    (hKd : ∀ c r pos' caps', c.isDigit = true → K ⟨c :: r, pos', caps'⟩ = none)
    (hKs : ∀ r pos' caps', K ⟨'*' :: r, pos', caps'⟩ = none)
    (hKp : ∀ r pos' caps', K ⟨'.' :: r, pos', caps'⟩ = none) :
    bt db precRe ⟨rest, pos, caps⟩ K =
      K ⟨(scanPrec rest).2, pos + (scanPrec rest).1.render.length, precCaps pos (scanPrec rest).1 ++ caps⟩ := by
  simp only [precRe, bt_opt, bt_alt, bt_seq, bt_group, digitRe, lit]
  cases rest with
  | nil => simp [bt_cls_nil, scanPrec, Prec.render, precCaps]
  | cons c t =>
    simp only [bt_cls_cons, lit_46]
    by_cases hp : c = '.'
    · subst hp
      simp only [beq_self_eq_true, if_true, hKp, or_none']
      rw [star_cls db false _ Char.isDigit (cls_digit db) _ (by
        intro c' r' pos' caps' hc' hne
        exact absurd (hKd c' r' _ _ hc') hne)]
      rw [← spanP_eq_span]
      cases t with
      | nil => simp [bt_cls_nil, spanP, scanPrec, Prec.render, precCaps]
      | cons e u =>
        simp only [bt_cls_cons, lit_42]
        by_cases hs : e = '*'
        · subst hs
          have e1 : ('*' : Char).isDigit = false := by decide
          simp only [spanP, e1, Bool.false_eq_true, if_false, List.length_nil, Nat.add_zero, hKs, none_or', beq_self_eq_true, if_true]
          rw [← bt_opt, idx_step db 10 K u (pos + 1 + 1) _ (by
            intro ds r h
            obtain ⟨c, t', rfl, hc⟩ := scanIndex_some_head h
            exact hKd c t' _ _ hc)]
          have e : scanPrec ('.' :: '*' :: u) = (.star (scanIndex u).1, (scanIndex u).2) := rfl
          rw [e]
          simp only [Prec.render, precCaps, List.length_cons, List.append_assoc, List.cons_append, List.nil_append]
          have : pos + 1 + 1 + (renderIdx (scanIndex u).1).length = pos + ((renderIdx (scanIndex u).1).length + 1 + 1) := by omega
          rw [this]
        · have hs' : (e == '*') = false := by simpa using hs
          simp only [hs', Bool.false_eq_true, if_false, or_none']
          rw [scanPrec_dot_other (by intro u' h; injection h with h1 _; exact hs h1)]
          simp only [Prec.render, precCaps, List.length_cons, List.cons_append, List.nil_append]
          have : pos + 1 + (spanP Char.isDigit (e :: u)).1.length = pos + ((spanP Char.isDigit (e :: u)).1.length + 1) := by omega
          rw [this]
    · have hp' : (c == '.') = false := by simpa using hp
      simp only [hp', Bool.false_eq_true, if_false, none_or', scanPrec_nodot hp]
      simp [Prec.render, precCaps]

/-! ### `<inttypes.h>` length: a finite prefix-free language -/

def priWords : List (List Nat) :=
  [[70, 65, 83, 84, 49, 54], [70, 65, 83, 84, 51, 50], [70, 65, 83, 84, 54, 52], [70, 65, 83, 84, 56],
   [76, 69, 65, 83, 84, 49, 54], [76, 69, 65, 83, 84, 51, 50], [76, 69, 65, 83, 84, 54, 52], [76, 69, 65, 83, 84, 56],
   [49, 54], [51, 50], [54, 52], [56], [77, 65, 88], [80, 84, 82]]

theorem priWords_eq : words priLenRe = some priWords := by decide +kernel

theorem priWords_prefix_free : ∀ w ∈ priWords, ∀ u ∈ priWords, w ≠ u → ¬ (w <+: u) := by decide +kernel

theorem priWords_are_lens : ∀ w ∈ priWords, ∃ l ∈ allPriLens, w = l.chars.map Char.toNat := by decide +kernel

theorem priLen_word_mem (l : PriLen) : l.chars.map Char.toNat ∈ priWords := by
  cases l with
  | max => decide
  | ptr => decide
  | sized k b => cases k <;> cases b <;> decide

theorem scanPriLen_complete' (l : PriLen) (rest : List Char) : scanPriLen (l.chars ++ rest) = some (l, rest) := by
  cases l with
  | max => rfl
  | ptr => rfl
  | sized k b => cases k <;> cases b <;> rfl

theorem map_toNat_inj {a b : List Char} (h : a.map Char.toNat = b.map Char.toNat) : a = b := by
  induction a generalizing b with
  | nil => cases b <;> simp_all
  | cons x xs ih =>
    cases b with
    | nil => simp at h
    | cons y ys =>
      simp only [List.map_cons, List.cons.injEq] at h
      rw [Char.toNat_inj.1 h.1, ih h.2]

theorem priLen_step (K : St → Option β) (rest : List Char) (pos : Nat) (caps : Caps) :
    bt db priLenRe ⟨rest, pos, caps⟩ K =
      match scanPriLen rest with
      | some (l, r) => K ⟨r, pos + l.chars.length, caps⟩
      | none => none := by
  rw [bt_words db priLenRe priWords priWords_eq]
  unfold tryWords
  cases h : scanPriLen rest with
  | some p =>
    obtain ⟨l, r⟩ := p
    have hs := scanPriLen_sound h
    subst hs
    rw [findSome_unique _ (l.chars.map Char.toNat) priWords (by
      intro w hw hne
      cases hw' : stripN w (l.chars ++ r) with
      | none => rfl
      | some r' =>
        rcases stripN_comparable hw' with p | p
        · exact absurd p (priWords_prefix_free w hw _ (priLen_word_mem l) hne)
        · exact absurd p (priWords_prefix_free _ (priLen_word_mem l) w hw (Ne.symm hne)))]
    simp [priLen_word_mem l, stripN_map_append]
  | none =>
    simp only
    apply List.findSome?_eq_none_iff.2
    intro w hw
    cases hw' : stripN w rest with
    | none => rfl
    | some r' =>
      obtain ⟨cs, h1, h2⟩ := stripN_some hw'
      obtain ⟨l, _, hl⟩ := priWords_are_lens w hw
      have : cs = l.chars := map_toNat_inj (h1.trans hl)
      subst this; subst h2
      rw [scanPriLen_complete'] at h
      cases h

/-! ### length modifier and conversion -/

def lenStart (c : Char) : Bool := ['h', 'l', 'q', 'j', 'z', 'Z', 't', 'L'].contains c

def lenCaps (pos : Nat) : Option Len → Caps
  | none => []
  | some ln => [(11, pos, pos + ln.chars.length)]

theorem scanLen_other {c : Char} {t : List Char} (h : lenStart c = false) : scanLen (c :: t) = (none, c :: t) := by
  simp only [lenStart, List.contains_cons, List.contains_nil, Bool.or_false, Bool.or_eq_false_iff, beq_eq_false_iff_ne] at h
  unfold scanLen
  split <;> first | rfl | (rename_i heq; injection heq with h1 _; simp_all)

theorem scanLen_h {t : List Char} (h : ∀ u, t ≠ 'h' :: u) : scanLen ('h' :: t) = (some .h, t) := by
  unfold scanLen
  split <;> rename_i heq
  · injection heq with _ h2; exact absurd h2 (h _)
  · injection heq with _ h2; subst h2; rfl
  all_goals first | (injection heq with h1 _; exact absurd h1 (by decide)) | simp_all

theorem scanLen_l {t : List Char} (h : ∀ u, t ≠ 'l' :: u) : scanLen ('l' :: t) = (some .l, t) := by
  unfold scanLen
  split <;> rename_i heq
  · injection heq with h1 _; exact absurd h1 (by decide)
  · injection heq with h1 _; exact absurd h1 (by decide)
  · injection heq with _ h2; exact absurd h2 (h _)
  · injection heq with _ h2; subst h2; rfl
  all_goals first | (injection heq with h1 _; exact absurd h1 (by decide)) | simp_all

theorem len_step (K : St → Option β) (rest : List Char) (pos : Nat) (caps : Caps)
    (hK : ∀ c r pos' caps', lenStart c = true → K ⟨c :: r, pos', caps'⟩ = none) :
    bt db (.opt (.group 11 lenRe)) ⟨rest, pos, caps⟩ K =
      K ⟨(scanLen rest).2, pos + (renderLen (scanLen rest).1).length, lenCaps pos (scanLen rest).1 ++ caps⟩ := by
  simp only [lenRe, bt_opt, bt_alt, bt_seq, bt_group, lit]
  cases rest with
  | nil => simp [bt_cls_nil, scanLen, renderLen, lenCaps]
  | cons c t =>
    simp only [bt_cls_cons, lit_76, lit_104, lit_108, cls_lenOne]
    by_cases hL : c = 'L'
    · subst hL
      simp [hK, lenStart, scanLen, renderLen, lenCaps, Len.chars]
    · by_cases h1 : ['q', 'j', 'z', 'Z', 't'].contains c = true
      · have hs : lenStart c = true := by
          simp only [List.contains_cons, List.contains_nil, Bool.or_false, Bool.or_eq_true, beq_iff_eq] at h1
          rcases h1 with rfl | rfl | rfl | rfl | rfl <;> decide
        have hL' : (c == 'L') = false := by simpa using hL
        have hh : (c == 'h') = false := by
          simp only [List.contains_cons, List.contains_nil, Bool.or_false, Bool.or_eq_true, beq_iff_eq] at h1
          rcases h1 with rfl | rfl | rfl | rfl | rfl <;> decide
        have hl : (c == 'l') = false := by
          simp only [List.contains_cons, List.contains_nil, Bool.or_false, Bool.or_eq_true, beq_iff_eq] at h1
          rcases h1 with rfl | rfl | rfl | rfl | rfl <;> decide
        simp only [hL', h1, hh, hl, Bool.false_eq_true, if_false, if_true, none_or', or_none', hK c t _ _ hs]
        simp only [List.contains_cons, List.contains_nil, Bool.or_false, Bool.or_eq_true, beq_iff_eq] at h1
        rcases h1 with rfl | rfl | rfl | rfl | rfl <;> simp [scanLen, renderLen, lenCaps, Len.chars]
      · have h1' : ['q', 'j', 'z', 'Z', 't'].contains c = false := by simpa using h1
        have hL' : (c == 'L') = false := by simpa using hL
        simp only [hL', h1', Bool.false_eq_true, if_false, none_or']
        by_cases hh : c = 'h'
        · subst hh
          have e0 : lenStart 'h' = true := by decide
          simp only [beq_self_eq_true, if_true, hK _ t _ _ e0, or_none', show ('h' == 'l') = false by decide, Bool.false_eq_true, if_false]
          cases t with
          | nil => simp [bt_cls_nil, scanLen, renderLen, lenCaps, Len.chars]
          | cons e u =>
            rw [bt_cls_cons, lit_104]
            by_cases he : e = 'h'
            · subst he
              simp [hK _ u _ _ e0, scanLen, renderLen, lenCaps, Len.chars]
            · have he' : (e == 'h') = false := by simpa using he
              rw [scanLen_h (by intro u' h; injection h with h1 _; exact he h1)]
              simp [he', renderLen, lenCaps, Len.chars]
        · have hh' : (c == 'h') = false := by simpa using hh
          simp only [hh', Bool.false_eq_true, if_false, none_or']
          by_cases hl : c = 'l'
          · subst hl
            have e0 : lenStart 'l' = true := by decide
            simp only [beq_self_eq_true, if_true, hK _ t _ _ e0, or_none']
            cases t with
            | nil => simp [bt_cls_nil, scanLen, renderLen, lenCaps, Len.chars]
            | cons e u =>
              rw [bt_cls_cons, lit_108]
              by_cases he : e = 'l'
              · subst he
                simp [hK _ u _ _ e0, scanLen, renderLen, lenCaps, Len.chars]
              · have he' : (e == 'l') = false := by simpa using he
                rw [scanLen_l (by intro u' h; injection h with h1 _; exact he h1)]
                simp [he', renderLen, lenCaps, Len.chars]
          · have hl' : (c == 'l') = false := by simpa using hl
            have hs : lenStart c = false := by
              simp only [List.contains_cons, List.contains_nil, Bool.or_false, Bool.or_eq_false_iff, beq_eq_false_iff_ne] at h1'
              simp only [lenStart, List.contains_cons, List.contains_nil, Bool.or_false, Bool.or_eq_false_iff, beq_eq_false_iff_ne]
              exact ⟨hh, hl, h1'.1, h1'.2.1, h1'.2.2.1, h1'.2.2.2.1, h1'.2.2.2.2, hL⟩
            simp [hl', scanLen_other hs, renderLen, lenCaps]

theorem lenStart_not_conv {c : Char} (h : lenStart c = true) : isConv c = false := by
  simp only [lenStart, List.contains_cons, List.contains_nil, Bool.or_false, Bool.or_eq_true, beq_iff_eq] at h
  rcases h with rfl | rfl | rfl | rfl | rfl | rfl | rfl | rfl <;> decide

theorem conv_step (K : St → Option β) (rest : List Char) (pos : Nat) (caps : Caps) :
    bt db (.group 12 convRe) ⟨rest, pos, caps⟩ K =
      match rest with
      | c :: r => if isConv c = true then K ⟨r, pos + 1, (12, pos, pos + 1) :: caps⟩ else none
      | [] => none := by
  simp only [convRe, bt_group]
  cases rest with
  | nil => simp [bt_cls_nil]
  | cons c r => simp [bt_cls_cons]

theorem pri_none (K : St → Option β) (rest : List Char) (pos : Nat) (caps : Caps)
    (h : ∀ c r, rest = '<' :: 'P' :: 'R' :: 'I' :: c :: r → False) : bt db priRe ⟨rest, pos, caps⟩ K = none := by
  simp only [priRe, lit, bt_seq, bt_group, priConvRe]
  rcases rest with _ | ⟨a, _ | ⟨b, _ | ⟨c, _ | ⟨d, _ | ⟨e, r⟩⟩⟩⟩⟩ <;>
    simp only [bt_cls_cons, bt_cls_nil, lit_60, lit_80, lit_82, lit_73, ite_self]
  by_cases ha : a = '<' <;> by_cases hb : b = 'P' <;> by_cases hc : c = 'R' <;> by_cases hd : d = 'I' <;> simp_all

/-- the last step of `scanBody` on `<PRI c …`: the closing `>` -/
def closePri (c : Char) : Option (PriLen × List Char) → Option (Body × List Char)
  | some (l, '>' :: rest) => some (.pri c l, rest)
  | _ => none

theorem closePri_ne (c : Char) (l : PriLen) {e : Char} (r3 : List Char) (he : e ≠ '>') : closePri c (some (l, e :: r3)) = none := by
  unfold closePri
  split
  · rename_i heq; injection heq with heq; injection heq with _ heq; injection heq with h1 _; exact absurd h1 he
  · rfl

theorem scanBody_dollar (r : List Char) : scanBody ('$' :: r) = none := by
  unfold scanBody
  split
  · rename_i heq; injection heq with h1 _; exact absurd h1 (by decide)
  · rw [scanLen_other (by decide)]
    simp [isConv, convChars]

/-- `[length] conversion | <PRI…>` is deterministic: whatever the continuation, the body the scanner reads is the only one
    the pattern can match -/
theorem body_step (K : St → Option β) (rest : List Char) (pos : Nat) (caps : Caps) :
    bt db bodyRe ⟨rest, pos, caps⟩ K =
      match scanBody rest with
      | some (b, r) => K ⟨r, pos + b.render.length, bodyCaps pos b ++ caps⟩
      | none => none := by
  simp only [bodyRe, bt_alt, stdRe, bt_seq]
  rw [len_step db _ rest pos caps (by
    intro c r pos' caps' hc
    rw [conv_step]
    simp [lenStart_not_conv hc])]
  rw [conv_step]
  by_cases hp : ∃ c r, rest = '<' :: 'P' :: 'R' :: 'I' :: c :: r
  · obtain ⟨c, r, rfl⟩ := hp
    have e : scanBody ('<' :: 'P' :: 'R' :: 'I' :: c :: r) =
        if isPriConv c = true then closePri c (scanPriLen r) else none := rfl
    rw [e, scanLen_other (by decide)]
    have e0 : isConv '<' = false := by decide
    simp only [e0, Bool.false_eq_true, if_false, none_or']
    simp only [priRe, lit, bt_seq, bt_group, priConvRe, bt_cls_cons, lit_60, lit_80, lit_82, lit_73, beq_self_eq_true, if_true, cls_priConv]
    by_cases hc : isPriConv c = true
    · simp only [hc, if_true]
      rw [priLen_step]
      cases h : scanPriLen r with
      | none => rfl
      | some p =>
        obtain ⟨l, r2⟩ := p
        simp only
        cases r2 with
        | nil => simp [bt_cls_nil, closePri]
        | cons e r3 =>
          rw [bt_cls_cons, lit_62]
          by_cases he : e = '>'
          · subst he
            simp only [beq_self_eq_true, if_true, closePri, Body.render, bodyCaps, List.length_append, List.length_cons, List.length_nil,
              List.cons_append, List.nil_append]
            congr 2
            · omega
          · have he' : (e == '>') = false := by simpa using he
            simp only [he', Bool.false_eq_true, if_false, closePri_ne c l r3 he]
    · have hc' : isPriConv c = false := by simpa using hc
      simp [hc']
  · have e : scanBody rest =
        match (scanLen rest).2 with
        | c :: r' => if isConv c = true then some (.std (scanLen rest).1 c, r') else none
        | [] => none := by
      unfold scanBody
      split
      · rename_i c r; exact absurd ⟨c, r, rfl⟩ hp
      · rfl
    rw [e, pri_none db K rest pos caps (fun c r h => hp ⟨c, r, h⟩), or_none']
    cases (scanLen rest).2 with
    | nil => rfl
    | cons c r' =>
      simp only
      by_cases hc : isConv c = true
      · simp only [hc, if_true]
        cases (scanLen rest).1 with
        | none => simp [renderLen, lenCaps, Body.render, bodyCaps]
        | some ln =>
          simp only [renderLen, lenCaps, Body.render, bodyCaps, List.length_append, List.length_cons, List.length_nil, List.cons_append, List.nil_append]
          have : pos + ln.chars.length + 1 = pos + (ln.chars.length + (0 + 1)) := by omega
          rw [this]
      · have hc' : isConv c = false := by simpa using hc
        simp [hc']

/-! ### the part after `%` -/

def digitFS : FS := [(false, [.range 48 57])]
def starFS : FS := [(false, [.range 42 42])]
def dotFS : FS := [(false, [.range 46 46])]
def flagFS : FS := [(false, [.range 32 32, .range 35 35, .range 39 39, .range 43 43, .range 45 45, .range 48 48, .range 73 73])]

theorem fs_digit (c : Char) : fsTest db digitFS c = c.isDigit := by simp [fsTest, digitFS]
theorem fs_star (c : Char) : fsTest db starFS c = (c == '*') := by simp [fsTest, starFS]
theorem fs_dot (c : Char) : fsTest db dotFS c = (c == '.') := by simp [fsTest, dotFS]
theorem fs_flag (c : Char) : fsTest db flagFS c = isFlag c := by simp [fsTest, flagFS]

def R3 : Re := .seq precRe bodyRe
def R2 : Re := .seq widthRe R3
def R1 : Re := .seq (.group 4 (.star flagRe)) R2

/-- the captures after the flags, for the pieces the scanner reads from `s2` (the text after the flags, at `p3`) -/
theorem tail2_eval (K : St → Option β) (s2 : List Char) (p3 : Nat) (caps : Caps) :
    bt db R2 ⟨s2, p3, caps⟩ K =
      match scanBody (scanPrec (scanWidth s2).2).2 with
      | some (b, r) =>
        K ⟨r, p3 + (scanWidth s2).1.render.length + (scanPrec (scanWidth s2).2).1.render.length + b.render.length,
          bodyCaps (p3 + (scanWidth s2).1.render.length + (scanPrec (scanWidth s2).2).1.render.length) b ++
            (precCaps (p3 + (scanWidth s2).1.render.length) (scanPrec (scanWidth s2).2).1 ++ (widthCaps p3 (scanWidth s2).1 ++ caps))⟩
      | none => none := by
  simp only [R2, R3, bt_seq]
  rw [width_step db _ s2 p3 caps
    (fun c r pos' caps' hc => by
      rw [← bt_seq]
      exact fails_of_first db (.seq precRe bodyRe) digitFS (by decide) (by decide +kernel) c r pos' caps' K (by rw [fs_digit]; exact hc))
    (fun r pos' caps' => by
      rw [← bt_seq]
      exact fails_of_first db (.seq precRe bodyRe) starFS (by decide) (by decide +kernel) '*' r pos' caps' K (by rw [fs_star]; rfl))]
  rw [prec_step db _ _ _ _
    (fun c r pos' caps' hc => fails_of_first db bodyRe digitFS (by decide) (by decide +kernel) c r pos' caps' K (by rw [fs_digit]; exact hc))
    (fun r pos' caps' => fails_of_first db bodyRe starFS (by decide) (by decide +kernel) '*' r pos' caps' K (by rw [fs_star]; rfl))
    (fun r pos' caps' => fails_of_first db bodyRe dotFS (by decide) (by decide +kernel) '.' r pos' caps' K (by rw [fs_dot]; rfl))]
  rw [body_step]

theorem tail1_eval (K : St → Option β) (s1 : List Char) (p2 : Nat) (caps : Caps) :
    bt db R1 ⟨s1, p2, caps⟩ K =
      bt db R2 ⟨(spanP isFlag s1).2, p2 + (spanP isFlag s1).1.length, (4, p2, p2 + (spanP isFlag s1).1.length) :: caps⟩ K := by
  simp only [R1, bt_seq]
  rw [flags_step db _ s1 p2 caps (fun c r pos' caps' hc =>
    fails_of_first db R2 flagFS (by decide) (by decide +kernel) c r pos' caps' K (by rw [fs_flag]; exact hc))]

/-- after `digits $` nothing but the `index` group can go on: the flags take leading zeros, the width the other digits, and
    no precision or body starts with `$` -/
theorem dollar_stuck (r : List Char) : ∀ (ds : List Char), (∀ x ∈ ds, x.isDigit = true) →
    scanBody (scanPrec (scanWidth (spanP isFlag (ds ++ '$' :: r)).2).2).2 = none := by
  have base : ∀ (ds : List Char), (∀ x ∈ ds, x.isDigit = true) → (∀ d t, ds = d :: t → isFlag d = false) →
      scanBody (scanPrec (scanWidth (ds ++ '$' :: r)).2).2 = none := by
    intro ds hd hf
    cases ds with
    | nil =>
      simp only [List.nil_append]
      rw [scanWidth_other (by decide), if_neg (by decide), scanPrec_nodot (by decide), scanBody_dollar]
    | cons d t =>
      have hdd : d.isDigit = true := hd d (by simp)
      have hnf := hf d t rfl
      have hd0 : d ≠ '0' := by intro h; subst h; cases hnf
      have hds : d ≠ '*' := by intro h; subst h; cases hdd
      have hsp : spanP Char.isDigit (d :: t ++ '$' :: r) = (d :: t, '$' :: r) :=
        spanP_complete (a := d :: t) hd (by intro x hx; simp at hx; subst hx; decide)
      rw [List.cons_append, scanWidth_other hds, if_pos (by simp [hdd, hd0])]
      rw [← List.cons_append, hsp]
      simp only
      rw [scanPrec_nodot (by decide), scanBody_dollar]
  intro ds
  induction ds with
  | nil => intro _; simpa [spanP, isFlag] using base [] (by simp) (by simp)
  | cons d t ih =>
    intro hd
    by_cases hf : isFlag d = true
    · simp only [List.cons_append, spanP, hf, if_true]
      exact ih (fun x hx => hd x (by simp [hx]))
    · have hf' : isFlag d = false := by simpa using hf
      simp only [List.cons_append, spanP, hf', Bool.false_eq_true, if_false]
      rw [← List.cons_append]
      exact base (d :: t) hd (by intro d' t' h; injection h with h1 _; subst h1; exact hf')

theorem tail_step (K : St → Option β) (rest : List Char) (pos : Nat) (caps : Caps) :
    bt db tailRe ⟨rest, pos, caps⟩ K =
      match scanDirective rest with
      | some (d, r) => K ⟨r, pos + d.renderTail.length, tailCaps pos d ++ caps⟩
      | none => none := by
  have e : tailRe = .seq (.opt (idxRe 3)) R1 := rfl
  rw [e, bt_seq]
  rw [idx_step db 3 _ rest pos caps (by
    intro ds r h
    obtain ⟨h1, h2⟩ := scanIndex_sound h
    rw [tail1_eval, tail2_eval]
    have : rest = ds ++ '$' :: r := by simpa [renderIdx] using h1
    rw [this, dollar_stuck r ds h2.2])]
  rw [tail1_eval, tail2_eval]
  unfold scanDirective
  simp only
  cases h : scanBody (scanPrec (scanWidth (spanP isFlag (scanIndex rest).2).2).2).2 with
  | none => rfl
  | some p =>
    obtain ⟨b, r⟩ := p
    simp only [Directive.renderTail, tailCaps, List.length_append, List.append_assoc, List.cons_append, Nat.add_assoc]

/-! ### one match -/

theorem lit_step (K : St → Option β) (hK : ∀ st, K st ≠ none) (c : Char) (t : List Char) (pos : Nat) (caps : Caps) (hc : c ≠ '%') :
    bt db litRe ⟨c :: t, pos, caps⟩ K =
      K ⟨(spanP (fun x => x != '%') (c :: t)).2, pos + (spanP (fun x => x != '%') (c :: t)).1.length,
        (1, pos, pos + (spanP (fun x => x != '%') (c :: t)).1.length) :: caps⟩ := by
  have hc' : (c != '%') = true := by simpa using hc
  simp only [litRe, notPctRe, bt_group, bt_seq, bt_cls_cons, cls_notPct, hc', if_true]
  rw [star_cls db true _ (fun x => x != '%') (cls_notPct db) _ (by intro _ _ _ _ _ _; exact hK _)]
  simp only [spanP, hc', if_true, ← spanP_eq_span, List.length_cons]
  have : pos + 1 + (spanP (fun x => x != '%') t).1.length = pos + ((spanP (fun x => x != '%') t).1.length + 1) := by omega
  rw [this]

/-- the first match of the canonical tree at a position IS what the scanner reads there, group spans included -/
theorem matchAt_canon (cs : List Char) (pos : Nat) :
    matchAt db canonRe cs pos =
      (scanItem cs).map (fun p => (⟨p.2, pos + p.1.render.length, itemCaps pos p.1⟩ : St)) := by
  unfold matchAt
  simp only [canonRe, bt_alt]
  cases cs with
  | nil =>
    simp only [litRe, dirRe, notPctRe, lit, bt_group, bt_seq, bt_cls_nil, scanItem]
    rfl
  | cons c t =>
    by_cases hc : c = '%'
    · subst hc
      have e1 : bt db litRe ⟨'%' :: t, pos, []⟩ some = none := by
        simp [litRe, notPctRe, bt_group, bt_seq, bt_cls_cons]
      rw [e1, none_or']
      simp only [dirRe, lit, bt_group, bt_seq, bt_cls_cons, lit_37, beq_self_eq_true, if_true]
      rw [tail_step]
      simp only [scanItem, beq_self_eq_true, if_true]
      cases scanDirective t with
      | none => rfl
      | some p =>
        obtain ⟨d, r⟩ := p
        simp only [Option.map_some, Item.render, Directive.render, itemCaps, dirCaps, List.length_cons, List.append_nil]
        have : pos + 1 + d.renderTail.length = pos + (d.renderTail.length + 1) := by omega
        rw [this]
    · rw [lit_step db some (by simp) c t pos [] hc]
      have hc' : (c == '%') = false := by simpa using hc
      simp [scanItem, hc', Item.render, itemCaps]

end steps

end I18n.CFmtRe
