import I18n.Lemmas.ReKit
import I18n.Lemmas.CFmtScan
import I18n.Model.CFmtRe
/-!
# The model's scanner IS the first match of the live parse tree of `_directive_re`

`canonRe` is the canonical form (`ReKit.norm`) of the pattern the scanner was written against; `live_norm` checks, by
kernel evaluation, that the live tree dumped by the translator has that canonical form; the step lemmas below read
`canonRe` piece by piece under `bt` (every backtracking point is closed either by a first-set argument — `fails_of_first`,
decided by `fsDisjointB` — or, for the `index` group, by following the scanner through `digits $`).
-/
namespace I18n.CFmt
open I18n.Spec.Printf I18n.Spec.BraceRe I18n.ReKit

/-! ## the canonical tree -/

def lit (k : Nat) : Re := .cls false [.range k k]
def digitRe : Re := .cls false [.range 48 57]
def idxRe (g : Nat) : Re := .group g (.seq digitRe (.seq (.star digitRe) (lit 36)))
def flagRe : Re := .cls false [.range 32 32, .range 35 35, .range 39 39, .range 43 43, .range 45 45, .range 48 48, .range 73 73]
def nzRe : Re := .cls false [.range 49 57]
def widthRe : Re := .opt (.alt (.seq (.group 6 (lit 42)) (.opt (idxRe 7))) (.group 5 (.seq nzRe (.star digitRe))))
def precRe : Re := .opt (.seq (lit 46) (.alt (.group 8 (.star digitRe)) (.seq (.group 9 (lit 42)) (.opt (idxRe 10)))))
def lenRe : Re :=
  .alt (lit 76) (.alt (.cls false [.range 90 90, .range 106 106, .range 113 113, .range 116 116, .range 122 122])
    (.alt (.seq (lit 104) (.opt (lit 104))) (.seq (lit 108) (.opt (lit 108)))))
def convRe : Re :=
  .cls false [.range 37 37, .range 65 65, .range 67 67, .range 69 71, .range 83 83, .range 88 88, .range 97 97, .range 99 103,
    .range 105 105, .range 109 112, .range 115 115, .range 117 117, .range 120 120]
def priConvRe : Re := .cls false [.range 88 88, .range 100 100, .range 105 105, .range 111 111, .range 117 117, .range 120 120]
def bitsRe : Re := .alt (.seq (lit 49) (lit 54)) (.alt (.seq (lit 51) (lit 50)) (.alt (.seq (lit 54) (lit 52)) (lit 56)))
def kindRe : Re :=
  .alt (.seq (lit 70) (.seq (lit 65) (.seq (lit 83) (lit 84)))) (.seq (lit 76) (.seq (lit 69) (.seq (lit 65) (.seq (lit 83) (lit 84)))))
def priLenRe : Re :=
  .alt (.seq (.opt kindRe) bitsRe) (.alt (.seq (lit 77) (.seq (lit 65) (lit 88))) (.seq (lit 80) (.seq (lit 84) (lit 82))))
def priRe : Re :=
  .seq (lit 60) (.seq (lit 80) (.seq (lit 82) (.seq (lit 73) (.seq (.group 13 priConvRe) (.seq (.group 14 priLenRe) (lit 62))))))
def stdRe : Re := .seq (.opt (.group 11 lenRe)) (.group 12 convRe)
def bodyRe : Re := .alt stdRe priRe
def notPctRe : Re := .cls true [.range 37 37]
def litRe : Re := .group 1 (.seq notPctRe (.star notPctRe))
def tailRe : Re := .seq (.opt (idxRe 3)) (.seq (.group 4 (.star flagRe)) (.seq widthRe (.seq precRe bodyRe)))
def dirRe : Re := .group 2 (.seq (lit 37) tailRe)
def canonRe : Re := .alt litRe dirRe

/-- the live tree, as dumped on this run, has the canonical form the proofs below are about -/
theorem live_norm : norm I18n.Generated.CFmtRe.directiveRe = canonRe := by decide +kernel

/-! ## the classes of the canonical tree are the model's character tests -/
section classes
variable (db : CharDB)

theorem bne_false' (b : Bool) : (b != false) = b := by cases b <;> rfl
theorem bne_true' (b : Bool) : (b != true) = !b := by cases b <;> rfl

theorem cls_lit (k : Nat) (d : Char) (h : d.toNat = k) (c : Char) : clsTest db false [.range k k] c = (c == d) := by
  subst h
  simp only [clsTest, ClsItem.test, List.any_cons, List.any_nil, Bool.or_false, bne_false']
  by_cases e : c = d
  · subst e; simp
  · have : c.toNat ≠ d.toNat := fun h => e (Char.toNat_inj.1 h)
    simp only [beq_eq_false_iff_ne.2 e]
    by_cases p : d.toNat ≤ c.toNat <;> by_cases q : c.toNat ≤ d.toNat <;> simp [p, q]
    omega

@[simp] theorem lit_36 (c : Char) : clsTest db false [.range 36 36] c = (c == '$') := cls_lit db 36 '$' rfl c
@[simp] theorem lit_37 (c : Char) : clsTest db false [.range 37 37] c = (c == '%') := cls_lit db 37 '%' rfl c
@[simp] theorem lit_42 (c : Char) : clsTest db false [.range 42 42] c = (c == '*') := cls_lit db 42 '*' rfl c
@[simp] theorem lit_46 (c : Char) : clsTest db false [.range 46 46] c = (c == '.') := cls_lit db 46 '.' rfl c
@[simp] theorem lit_60 (c : Char) : clsTest db false [.range 60 60] c = (c == '<') := cls_lit db 60 '<' rfl c
@[simp] theorem lit_62 (c : Char) : clsTest db false [.range 62 62] c = (c == '>') := cls_lit db 62 '>' rfl c
@[simp] theorem lit_73 (c : Char) : clsTest db false [.range 73 73] c = (c == 'I') := cls_lit db 73 'I' rfl c
@[simp] theorem lit_80 (c : Char) : clsTest db false [.range 80 80] c = (c == 'P') := cls_lit db 80 'P' rfl c
@[simp] theorem lit_82 (c : Char) : clsTest db false [.range 82 82] c = (c == 'R') := cls_lit db 82 'R' rfl c
@[simp] theorem lit_70 (c : Char) : clsTest db false [.range 70 70] c = (c == 'F') := cls_lit db 70 'F' rfl c
@[simp] theorem lit_65 (c : Char) : clsTest db false [.range 65 65] c = (c == 'A') := cls_lit db 65 'A' rfl c
@[simp] theorem lit_83 (c : Char) : clsTest db false [.range 83 83] c = (c == 'S') := cls_lit db 83 'S' rfl c
@[simp] theorem lit_84 (c : Char) : clsTest db false [.range 84 84] c = (c == 'T') := cls_lit db 84 'T' rfl c
@[simp] theorem lit_76 (c : Char) : clsTest db false [.range 76 76] c = (c == 'L') := cls_lit db 76 'L' rfl c
@[simp] theorem lit_69 (c : Char) : clsTest db false [.range 69 69] c = (c == 'E') := cls_lit db 69 'E' rfl c
@[simp] theorem lit_77 (c : Char) : clsTest db false [.range 77 77] c = (c == 'M') := cls_lit db 77 'M' rfl c
@[simp] theorem lit_88 (c : Char) : clsTest db false [.range 88 88] c = (c == 'X') := cls_lit db 88 'X' rfl c
@[simp] theorem lit_49 (c : Char) : clsTest db false [.range 49 49] c = (c == '1') := cls_lit db 49 '1' rfl c
@[simp] theorem lit_54 (c : Char) : clsTest db false [.range 54 54] c = (c == '6') := cls_lit db 54 '6' rfl c
@[simp] theorem lit_51 (c : Char) : clsTest db false [.range 51 51] c = (c == '3') := cls_lit db 51 '3' rfl c
@[simp] theorem lit_50 (c : Char) : clsTest db false [.range 50 50] c = (c == '2') := cls_lit db 50 '2' rfl c
@[simp] theorem lit_52 (c : Char) : clsTest db false [.range 52 52] c = (c == '4') := cls_lit db 52 '4' rfl c
@[simp] theorem lit_56 (c : Char) : clsTest db false [.range 56 56] c = (c == '8') := cls_lit db 56 '8' rfl c
@[simp] theorem lit_104 (c : Char) : clsTest db false [.range 104 104] c = (c == 'h') := cls_lit db 104 'h' rfl c
@[simp] theorem lit_108 (c : Char) : clsTest db false [.range 108 108] c = (c == 'l') := cls_lit db 108 'l' rfl c

theorem isDigit_eq (c : Char) : c.isDigit = (decide (48 ≤ c.toNat) && decide (c.toNat ≤ 57)) := by
  simp [Char.isDigit, UInt32.le_iff_toNat_le]

@[simp] theorem cls_digit (c : Char) : clsTest db false [.range 48 57] c = c.isDigit := by
  simp [clsTest, ClsItem.test, isDigit_eq]

@[simp] theorem cls_nz (c : Char) : clsTest db false [.range 49 57] c = (c.isDigit && c != '0') := by
  have e : (c != '0') = !(c.toNat == 48) := by
    by_cases h : c = '0'
    · subst h; rfl
    · have : c.toNat ≠ 48 := fun h' => h (Char.toNat_inj.1 (by simpa using h'))
      simp only [bne_iff_ne, ne_eq, h, not_false_eq_true, beq_eq_false_iff_ne.2 this, Bool.not_false]
  simp only [clsTest, ClsItem.test, List.any_cons, List.any_nil, Bool.or_false, bne_false', isDigit_eq, e]
  by_cases p : 49 ≤ c.toNat <;> by_cases q : c.toNat ≤ 57 <;> by_cases r : 48 ≤ c.toNat <;> by_cases t : c.toNat = 48 <;> simp [p, q, r, t] <;> omega

@[simp] theorem cls_notPct (c : Char) : clsTest db true [.range 37 37] c = (c != '%') := by
  have := lit_37 db c
  simp only [clsTest, bne_false', bne_true'] at this ⊢
  rw [this]; rfl

theorem contains_eq_itemsN (chars : List Char) (c : Char) :
    chars.contains c = itemsN (chars.map (fun ch => ClsItem.lit ch.toNat)) c.toNat := by
  induction chars with
  | nil => rfl
  | cons d ds ih =>
    have e : (c == d) = (c.toNat == d.toNat) := by
      by_cases h : c = d
      · subst h; simp
      · have : c.toNat ≠ d.toNat := fun h' => h (Char.toNat_inj.1 h')
        simp only [beq_eq_false_iff_ne.2 h, beq_eq_false_iff_ne.2 this]
    simp only [List.contains_cons, ih, e, itemsN, List.map_cons, List.any_cons, itemN]

/-- a class is the membership test of a list of characters, decided at the break points -/
theorem cls_of_chars (chars : List Char) (items : List ClsItem)
    (h : clsEquivB items (chars.map (fun ch => ClsItem.lit ch.toNat)) = true) (c : Char) :
    clsTest db false items c = chars.contains c := by
  rw [clsEquivB_sound h db false c, contains_eq_itemsN]
  have hb : (chars.map (fun ch => ClsItem.lit ch.toNat)).all noCatItem = true := by
    simp only [clsEquivB, Bool.and_eq_true] at h; exact h.1.2
  simp only [clsTest, items_test_eq db c hb, bne_false']

theorem isFlag_contains (c : Char) : isFlag c = flagChars.contains c := by
  simp only [isFlag, flagChars, List.contains_cons, List.contains_nil, Bool.or_false, Bool.or_assoc]

@[simp] theorem cls_flag (c : Char) :
    clsTest db false [.range 32 32, .range 35 35, .range 39 39, .range 43 43, .range 45 45, .range 48 48, .range 73 73] c = isFlag c := by
  rw [isFlag_contains]; exact cls_of_chars db flagChars _ (by decide +kernel) c

@[simp] theorem cls_conv (c : Char) :
    clsTest db false [.range 37 37, .range 65 65, .range 67 67, .range 69 71, .range 83 83, .range 88 88, .range 97 97, .range 99 103,
      .range 105 105, .range 109 112, .range 115 115, .range 117 117, .range 120 120] c = isConv c :=
  cls_of_chars db convChars _ (by decide +kernel) c

@[simp] theorem cls_priConv (c : Char) :
    clsTest db false [.range 88 88, .range 100 100, .range 105 105, .range 111 111, .range 117 117, .range 120 120] c = isPriConv c :=
  cls_of_chars db priConvChars _ (by decide +kernel) c

@[simp] theorem cls_lenOne (c : Char) :
    clsTest db false [.range 90 90, .range 106 106, .range 113 113, .range 116 116, .range 122 122] c = ['q', 'j', 'z', 'Z', 't'].contains c :=
  cls_of_chars db ['q', 'j', 'z', 'Z', 't'] _ (by decide +kernel) c

end classes

end I18n.CFmt
