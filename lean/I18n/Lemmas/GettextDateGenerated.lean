import I18n.Generated.GettextDate
/-!
# `fix_date_format` / `parse_date` regenerated from `lib/gettext.py` equal the hand-written model (`Model/Date.lean`)

The main proof is a symbolic evaluation: split on everything the code inspects (the hint, the match, the zone groups, the table entry,
the length, the calendar), after which both sides compute; the facts about the kit primitives are separate lemmas.
-/
set_option linter.unusedSimpArgs false
set_option linter.unusedVariables false
namespace I18n.Date.Gen
open I18n I18n.Date I18n.Date.Py I18n.Generated

/-- `parse_date(s)` as regenerated: the calendar primitive, `ValueError` turned into `DateSyntaxError` -/
theorem parse_date_eq (s : List Char) :
    GettextDate.parse_date s = (match parseCanon s with | some t => .ok t | none => .error .syntax) := by
  simp only [GettextDate.parse_date, strptimeCanon, PyKit.tryExcept]
  cases parseCanon s <;> rfl

theorem hintOk_split (sg a b c d : Char) :
    hintOk [sg, a, b, c, d] = (hintSyntax [sg, a, b, c, d] && (decide (num2 c d ≤ 59) && decide (num2 a b * 60 + num2 c d < 1440))) := by
  simp only [hintOk, hintSyntax, Bool.and_assoc]

/-- a hint that is not `[+-]dddd` is not accepted -/
theorem hintOk_syntax (h : List Char) (hs : hintSyntax h = false) : hintOk h = false := by
  rcases h with _ | ⟨sg, _ | ⟨a, _ | ⟨b, _ | ⟨c, _ | ⟨d, _ | ⟨e, r⟩⟩⟩⟩⟩⟩ <;> try rfl
  rw [hintOk_split, hs]; rfl

/-- on `[+-]dddd`, `strptime(h, '%z')` raises `ValueError` exactly when the model's `hintOk` fails -/
theorem strptimeZ_eq (h : List Char) (hs : hintSyntax h = true) :
    strptimeZ h = (if hintOk h then .ok () else .error .valueError) := by
  rcases h with _ | ⟨sg, _ | ⟨a, _ | ⟨b, _ | ⟨c, _ | ⟨d, _ | ⟨e, r⟩⟩⟩⟩⟩⟩ <;> first | (simp [hintSyntax] at hs; done) | skip
  rw [hintOk_split, hs]
  simp only [strptimeZ, hs, if_true, Bool.true_and]

theorem or_some {α : Type} {a b : Option α} {x : α} (h : a.or b = some x) : a = some x ∨ b = some x := by
  cases a <;> simp_all [Option.or]

theorem scanNum_not_abbr (x a : List Char) : scanNum x ≠ some (.abbr a) := by
  intro hx
  unfold scanNum at hx
  split at hx
  · split at hx
    · split at hx
      · cases hx
      · simp only [] at hx
        split at hx <;> cases hx
    · cases hx
  · cases hx

/-- an abbreviation the scanner reports is a key of the table -/
theorem scanZone_abbr_known {z : List Char} {a : List Char} (h : scanZone z = some (.abbr a)) : ∃ v, lookupTz a = some v := by
  unfold scanZone at h
  rcases or_some h with h1 | h1
  · cases hp : zonePrefix z with
    | none => simp [hp] at h1
    | some p => simp [hp] at h1; exact absurd h1 (scanNum_not_abbr p a)
  · rcases or_some h1 with h2 | h2
    · exact absurd h2 (scanNum_not_abbr z a)
    · unfold scanAbbr at h2
      simp only [] at h2
      cases hl : lookupTz (skipChar '+' z) with
      | some v =>
        simp only [hl] at h2
        injection h2 with h3
        injection h3 with h4
        exact ⟨v, h4 ▸ hl⟩
      | none => simp only [hl] at h2; split at h2 <;> cases h2

theorem parseDate_abbr_known {s : List Char} {g : Groups} {a : List Char} (h : parseDate s = some g) (hz : g.zone = .abbr a) :
    ∃ v, lookupTz a = some v := by
  unfold parseDate at h
  repeat (split at h; · cases h)
  rename_i hzz
  cases h
  simp only [] at hz
  subst hz
  exact scanZone_abbr_known hzz

theorem append_space (date time z : List Char) : date ++ " ".toList ++ time ++ z = date ++ ' ' :: time ++ z := by simp

theorem len_int (t : List Char) : ((t.length : Int) = 21) = (t.length = 21) := by
  apply propext; constructor
  · intro h; exact_mod_cast h
  · intro h; rw [h]; rfl

theorem len_int' (t : List Char) : ((21 : Int) = (t.length : Int)) = (t.length = 21) := by
  rw [← len_int]; exact propext eq_comm

set_option hygiene false in
/-- after the zone text is known: assembly, the `len == 21` assertion, the calendar -/
local macro "date_tail" : tactic => `(tactic| (
  simp only [append_space, parse_date_eq, len_int, len_int']
  split
  · rename_i hl
    simp only [decide_eq_true_eq] at hl
    simp only [hl, ne_eq, not_true_eq_false, if_false]
    split <;> (rename_i heq; split at heq <;> simp_all [ofOutcome])
  · rename_i hl
    simp only [decide_eq_true_eq] at hl
    simp only [hl, ne_eq, not_false_eq_true, if_true, ofOutcome]))

set_option hygiene false in
/-- after the hint has passed its check (or there is none) -/
local macro "date_rest" : tactic => `(tactic| (
  simp only [parseDateMatch]
  cases hp : parseDate (strip s) with
  | none => simp [ofOutcome]
  | some g =>
    obtain ⟨date, time, zone⟩ := g
    simp only [Option.map, groupsOf]
    cases zone with
    | num zh zm =>
      simp only [resolveZone]
      date_tail
    | abbr a =>
      obtain ⟨v, hv⟩ := parseDate_abbr_known hp rfl
      simp only [resolveZone, timezonesGet, hv, PyKit.tryExcept]
      rcases v with _ | ⟨z, _ | ⟨z2, r⟩⟩
      · simp [ofOutcome]
      · simp only []
        date_tail
      · simp [ofOutcome]
    | none =>
      simp only [resolveZone]
      first
        | ((try simp only []); date_tail)
        | simp [ofOutcome]))

/-- `fix_date_format(s, tz_hint=hint)` as regenerated = the model's `fix` (result or exception) -/
theorem fix_date_format_eq (s : List Char) (hint : Option (List Char)) :
    GettextDate.fix_date_format s hint = ofOutcome (fix s hint) := by
  simp only [GettextDate.fix_date_format, fix]
  by_cases hb : hasBoilerplate (strip s) = true
  · simp [hb, ofOutcome]
  simp only [hb, Bool.false_eq_true, if_false]
  cases hint with
  | none =>
    simp only [hintBad, Bool.false_eq_true, if_false]
    date_rest
  | some h =>
    simp only [hintBad]
    by_cases hs : hintSyntax h = true
    · simp only [hs, Bool.not_true, Bool.false_eq_true, if_false, strptimeZ_eq h hs]
      by_cases ho : hintOk h = true
      · simp only [ho, if_true, Bool.not_true, Bool.false_eq_true, if_false]
        date_rest
      · simp [ho, ofOutcome]
    · have hs' : hintSyntax h = false := by simpa using hs
      simp [hs', hintOk_syntax h hs', ofOutcome]

end I18n.Date.Gen
