import I18n.Model.Locale
import I18n.Spec.Locale
/-
The scanner `parseLanguage` against the locale grammar (`Spec.Locale.Parts`) and against the language of the regex.
-/
namespace I18n.Locale
open I18n I18n.Spec.LocaleRe I18n.Spec.Locale

/-! ### maximal munch -/

theorem takeWhile_app (p : Char → Bool) (a rest : List Char) (ha : ∀ c ∈ a, p c = true)
    (hr : ∀ c, rest.head? = some c → p c = false) :
    (a ++ rest).takeWhile p = a ∧ (a ++ rest).dropWhile p = rest := by
  induction a with
  | nil =>
    cases rest with
    | nil => simp
    | cons c t => have := hr c rfl; simp [this]
  | cons x xs ih =>
    have hx : p x = true := ha x (by simp)
    have := ih (fun c hc => ha c (by simp [hc]))
    simp [hx, this]

theorem takeWhile_all (p : Char → Bool) (s : List Char) : ∀ c ∈ s.takeWhile p, p c = true := by
  induction s with
  | nil => simp
  | cons x xs ih =>
    intro c hc
    by_cases hx : p x = true
    · simp [hx] at hc
      rcases hc with rfl | hc
      · exact hx
      · exact ih c hc
    · simp [hx] at hc

theorem dropWhile_head (p : Char → Bool) (s : List Char) : ∀ c, (s.dropWhile p).head? = some c → p c = false := by
  intro c hc
  induction s with
  | nil => simp at hc
  | cons x xs ih =>
    by_cases hx : p x = true
    · simp [hx] at hc; exact ih hc
    · simp [hx] at hc; subst hc; simpa using hx


/-! ### one optional group -/

theorem optGroup_some (sep : Char) (cls : Char → Bool) (min : Nat) (x rest : List Char)
    (hx : ∀ c ∈ x, cls c = true) (hmin : min ≤ x.length) (hr : ∀ c, rest.head? = some c → cls c = false) :
    optGroup sep cls min (sep :: (x ++ rest)) = (some x, rest) := by
  have h := takeWhile_app cls x rest hx hr
  simp [optGroup, h.1, h.2, hmin]

theorem optGroup_none (sep : Char) (cls : Char → Bool) (min : Nat) (s : List Char)
    (hs : s.head? ≠ some sep) : optGroup sep cls min s = (none, s) := by
  cases s with
  | nil => rfl
  | cons c t =>
    have : c ≠ sep := by intro h; apply hs; simp [h]
    simp [optGroup, this]

theorem optGroup_sound (sep : Char) (cls : Char → Bool) (min : Nat) (s : List Char) :
    (∃ x, (optGroup sep cls min s).1 = some x ∧ s = sep :: (x ++ (optGroup sep cls min s).2) ∧ (∀ c ∈ x, cls c = true) ∧ min ≤ x.length
        ∧ ∀ c, (optGroup sep cls min s).2.head? = some c → cls c = false)
    ∨ ((optGroup sep cls min s).1 = none ∧ (optGroup sep cls min s).2 = s) := by
  cases s with
  | nil => right; exact ⟨rfl, rfl⟩
  | cons c t =>
    by_cases h : c = sep ∧ min ≤ (t.takeWhile cls).length
    · left
      refine ⟨t.takeWhile cls, ?_, ?_, takeWhile_all cls t, h.2, ?_⟩
      · simp [optGroup, h]
      · simp [optGroup, h]
      · simpa [optGroup, h] using dropWhile_head cls t
    · right
      simp [optGroup, h]


theorem optGroup_render (sep : Char) (cls : Char → Bool) (min : Nat) (o : Option (List Char)) (rest : List Char)
    (ho : ∀ x, o = some x → (∀ c ∈ x, cls c = true) ∧ min ≤ x.length)
    (hr : ∀ c, rest.head? = some c → cls c = false ∧ c ≠ sep) :
    optGroup sep cls min (Spec.Locale.optPart sep o ++ rest) = (o, rest) := by
  cases o with
  | none =>
    simp only [Spec.Locale.optPart, List.nil_append]
    apply optGroup_none
    intro h
    exact (hr sep h).2 rfl
  | some x =>
    have := ho x rfl
    simp only [Spec.Locale.optPart, List.cons_append]
    exact optGroup_some sep cls min x rest this.1 this.2 (fun c hc => (hr c hc).1)

/-! ### the grammar on records -/

def toParts (l : Language) : Parts := ⟨l.ll, l.cc, l.enc, l.mod⟩

/-- what `Language.__init__` stores: the encoding upper-cased -/
def ofParts (p : Parts) : Language := ⟨p.ll, p.cc, p.enc.map (·.map asciiUpper), p.mod⟩

theorem str_eq_render (l : Language) : l.str = (toParts l).render := by
  cases l with
  | mk ll cc enc mod =>
    cases cc <;> cases enc <;> cases mod <;> rfl

theorem head_tail3 (enc mod : Option (List Char)) (c : Char)
    (h : (Spec.Locale.optPart '.' enc ++ Spec.Locale.optPart '@' mod).head? = some c) : c = '.' ∨ c = '@' := by
  cases enc <;> cases mod <;> simp [Spec.Locale.optPart] at h <;> (subst h; simp)

theorem head_tail2 (cc enc mod : Option (List Char)) (c : Char)
    (h : (Spec.Locale.optPart '_' cc ++ (Spec.Locale.optPart '.' enc ++ Spec.Locale.optPart '@' mod)).head? = some c) :
    c = '_' ∨ c = '.' ∨ c = '@' := by
  cases cc with
  | none => simp only [Spec.Locale.optPart, List.nil_append] at h; exact Or.inr (head_tail3 enc mod c h)
  | some x => simp [Spec.Locale.optPart] at h; subst h; simp

theorem head_tail4 (mod : Option (List Char)) (c : Char)
    (h : (Spec.Locale.optPart '@' mod).head? = some c) : c = '@' := by
  cases mod <;> simp [Spec.Locale.optPart] at h <;> (subst h; rfl)

/-- completeness of the scanner: every rendering of well-formed parts is accepted, with exactly those parts -/
theorem parse_complete (p : Parts) (hp : p.WF) : parseLanguage p.render = some (ofParts p) := by
  obtain ⟨ll, cc, enc, mod⟩ := p
  obtain ⟨hll, hcc, henc, hmod⟩ := hp
  simp only [Parts.render]
  have h1 := takeWhile_app isLower ll (Spec.Locale.optPart '_' cc ++ (Spec.Locale.optPart '.' enc ++ Spec.Locale.optPart '@' mod))
    hll.2 (by
      intro c hc
      rcases head_tail2 cc enc mod c hc with rfl | rfl | rfl <;> decide)
  have h2 := optGroup_render '_' isUpper 2 cc (Spec.Locale.optPart '.' enc ++ Spec.Locale.optPart '@' mod)
    (by intro x hx; subst hx; exact ⟨hcc.2, hcc.1⟩)
    (by
      intro c hc
      rcases head_tail3 enc mod c hc with rfl | rfl <;> decide)
  have h3 := optGroup_render '.' isEncChar 1 enc (Spec.Locale.optPart '@' mod)
    (by intro x hx; subst hx; exact ⟨henc.2, henc.1⟩)
    (by
      intro c hc
      have := head_tail4 mod c hc
      subst this; decide)
  have h4 := optGroup_render '@' isLower 1 mod []
    (by intro x hx; subst hx; exact ⟨hmod.2, hmod.1⟩)
    (by intro c hc; simp at hc)
  simp only [List.append_nil] at h4
  have hlen : ¬ ll.length < 2 := by have : 2 ≤ ll.length := hll.1; omega
  simp [parseLanguage, h1.1, h1.2, h2, h3, h4, hlen, ofParts]


theorem optGroup_parts (sep : Char) (cls : Char → Bool) (min : Nat) (s : List Char) :
    s = Spec.Locale.optPart sep (optGroup sep cls min s).1 ++ (optGroup sep cls min s).2
    ∧ ∀ x, (optGroup sep cls min s).1 = some x → min ≤ x.length ∧ ∀ c ∈ x, cls c = true := by
  rcases optGroup_sound sep cls min s with ⟨x, h1, h2, h3, h4, _⟩ | ⟨h1, h2⟩
  · refine ⟨?_, ?_⟩
    · rw [h1]; simpa [Spec.Locale.optPart] using h2
    · intro y hy; rw [h1] at hy; cases hy; exact ⟨h4, h3⟩
  · refine ⟨?_, ?_⟩
    · rw [h1, h2]; simp [Spec.Locale.optPart]
    · intro y hy; rw [h1] at hy; cases hy

/-- soundness of the scanner: an accepted string is the rendering of well-formed parts, and the result holds those parts
    (encoding upper-cased) -/
theorem parse_sound (s : List Char) (l : Language) (h : parseLanguage s = some l) :
    ∃ p : Parts, p.WF ∧ s = p.render ∧ l = ofParts p := by
  unfold parseLanguage at h
  simp only at h
  split at h
  · cases h
  · rename_i hlen
    split at h
    · rename_i hend
      cases h
      have hs := (List.takeWhile_append_dropWhile (p := isLower) (l := s)).symm
      have g2 := optGroup_parts '_' isUpper 2 (s.dropWhile isLower)
      have g3 := optGroup_parts '.' isEncChar 1 (optGroup '_' isUpper 2 (s.dropWhile isLower)).2
      have g4 := optGroup_parts '@' isLower 1 (optGroup '.' isEncChar 1 (optGroup '_' isUpper 2 (s.dropWhile isLower)).2).2
      rw [hend, List.append_nil] at g4
      refine ⟨⟨s.takeWhile isLower, (optGroup '_' isUpper 2 (s.dropWhile isLower)).1,
        (optGroup '.' isEncChar 1 (optGroup '_' isUpper 2 (s.dropWhile isLower)).2).1,
        (optGroup '@' isLower 1 (optGroup '.' isEncChar 1 (optGroup '_' isUpper 2 (s.dropWhile isLower)).2).2).1⟩, ?_, ?_, rfl⟩
      · refine ⟨⟨show 2 ≤ (s.takeWhile isLower).length by omega, takeWhile_all isLower s⟩, ?_, ?_, ?_⟩
        · generalize (optGroup '_' isUpper 2 (s.dropWhile isLower)).1 = o at g2 ⊢
          cases o with
          | none => trivial
          | some x => exact g2.2 x rfl
        · generalize (optGroup '.' isEncChar 1 (optGroup '_' isUpper 2 (s.dropWhile isLower)).2).1 = o at g3 ⊢
          cases o with
          | none => trivial
          | some x => exact g3.2 x rfl
        · generalize (optGroup '@' isLower 1 (optGroup '.' isEncChar 1 (optGroup '_' isUpper 2 (s.dropWhile isLower)).2).2).1 = o at g4 ⊢
          cases o with
          | none => trivial
          | some x => exact g4.2 x rfl
      · simp only [Parts.render]
        rw [← g4.1, ← g3.1, ← g2.1]
        exact hs
    · cases h


/-! ### upper-casing the encoding -/

theorem upper_toNat (c : Char) (h1 : 97 ≤ c.toNat) (h2 : c.toNat ≤ 122) :
    (Char.ofNat (c.toNat - 32)).toNat = c.toNat - 32 :=
  (by decide : ∀ n : Fin 123, 97 ≤ n.val → (Char.ofNat (n.val - 32)).toNat = n.val - 32) ⟨c.toNat, by omega⟩ h1

theorem asciiUpper_toNat (c : Char) :
    (asciiUpper c).toNat = if 97 ≤ c.toNat ∧ c.toNat ≤ 122 then c.toNat - 32 else c.toNat := by
  unfold asciiUpper
  split
  · rename_i h; exact upper_toNat c h.1 h.2
  · rfl

theorem asciiUpper_idem (c : Char) : asciiUpper (asciiUpper c) = asciiUpper c := by
  have h := asciiUpper_toNat c
  have h2 : ¬ (97 ≤ (asciiUpper c).toNat ∧ (asciiUpper c).toNat ≤ 122) := by
    rw [h]; split <;> omega
  generalize asciiUpper c = d at h2
  unfold asciiUpper
  simp [h2]

theorem asciiUpper_enc (c : Char) (h : inRanges Spec.Locale.encR c = true) : inRanges Spec.Locale.encR (asciiUpper c) = true := by
  have h1 := asciiUpper_toNat c
  simp [inRanges, Spec.Locale.encR] at h ⊢
  rw [h1]
  split <;> omega

theorem ofParts_wf (p : Parts) (hp : p.WF) : (toParts (ofParts p)).WF := by
  obtain ⟨ll, cc, enc, mod⟩ := p
  obtain ⟨hll, hcc, henc, hmod⟩ := hp
  refine ⟨hll, hcc, ?_, hmod⟩
  cases enc with
  | none => trivial
  | some e =>
    refine ⟨by simpa [ofParts, toParts] using henc.1, ?_⟩
    intro c hc
    simp only [List.mem_map] at hc
    obtain ⟨d, hd, rfl⟩ := hc
    exact asciiUpper_enc d (henc.2 d hd)

theorem ofParts_toParts_ofParts (p : Parts) : ofParts (toParts (ofParts p)) = ofParts p := by
  obtain ⟨ll, cc, enc, mod⟩ := p
  cases enc with
  | none => rfl
  | some e => simp [ofParts, toParts, asciiUpper_idem]

end I18n.Locale
