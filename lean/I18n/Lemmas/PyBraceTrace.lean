import I18n.Lemmas.PyBraceMarkup
import I18n.Spec.PyBraceArgs
/-
CPython side only: a derivation `Trace cs fs` (how a string decomposes into literal characters, escaped braces and
replacement fields) determines what the markup iterator yields (`trace_markup`) and what `str.format` does
(`trace_format`: it renders the fields `fs` in order).
-/
namespace I18n.PyBrace
open I18n.Spec.StrFormat

inductive Trace : List Char → List Field → Prop where
  | nil : Trace [] []
  | chr {c : Char} {r : List Char} {fs : List Field} : c ≠ '{' → c ≠ '}' → Trace r fs → Trace (c :: r) fs
  | open_ {r : List Char} {fs : List Field} : Trace r fs → Trace ('{' :: '{' :: r) fs
  | close {r : List Char} {fs : List Field} : Trace r fs → Trace ('}' :: '}' :: r) fs
  | field {c : Char} {r0 rest : List Char} {f : Field} {fs : List Field} : c ≠ '{' → parseField (c :: r0) = .ok (f, rest) →
      Trace rest fs → Trace ('{' :: c :: r0) (f :: fs)

/-- fuel-free view of the iteration with the fields it yields -/
inductive Yields : List Char → List Field → Prop where
  | done : Yields [] []
  | lit {cs rest : List Char} {ch : Chunk} {fs : List Field} : next cs [] = .ok (some (ch, rest)) → ch.field = none →
      Yields rest fs → Yields cs fs
  | fld {cs rest : List Char} {ch : Chunk} {f : Field} {fs : List Field} : next cs [] = .ok (some (ch, rest)) → ch.field = some f →
      Yields rest fs → Yields cs (f :: fs)

theorem next_rest_lt {cs rest : List Char} {ch : Chunk} (hn : next cs [] = .ok (some (ch, rest))) : rest.length < cs.length := by
  rcases next_length _ _ _ _ hn with h | rfl
  · exact h
  · simp [next] at hn

theorem yields_markupLoop {cs : List Char} {fs : List Field} (h : Yields cs fs) :
    ∀ fuel, cs.length < fuel → ∃ chunks, markupLoop fuel cs = .ok chunks ∧ fieldsOf chunks = fs := by
  induction h with
  | done =>
    intro fuel hf
    cases fuel with
    | zero => omega
    | succ fuel => exact ⟨[], by simp [markupLoop, next], rfl⟩
  | @lit cs rest ch fs hn hf _ ih =>
    intro fuel hfu
    cases fuel with
    | zero => omega
    | succ fuel =>
      have hl := next_rest_lt hn
      obtain ⟨chunks, hc, hfs⟩ := ih fuel (by omega)
      exact ⟨ch :: chunks, by simp [markupLoop, hn, hc], by simp [fieldsOf, hf] at hfs ⊢; exact hfs⟩
  | @fld cs rest ch f fs hn hf _ ih =>
    intro fuel hfu
    cases fuel with
    | zero => omega
    | succ fuel =>
      have hl := next_rest_lt hn
      obtain ⟨chunks, hc, hfs⟩ := ih fuel (by omega)
      exact ⟨ch :: chunks, by simp [markupLoop, hn, hc], by simp [fieldsOf, hf] at hfs ⊢; exact hfs⟩

theorem yields_chr {c : Char} {r : List Char} {fs : List Field} (h1 : c ≠ '{') (h2 : c ≠ '}') (h : Yields r fs) : Yields (c :: r) fs := by
  have hn : next (c :: r) [] = next r [c] := by simp [next, h1, h2]
  cases h with
  | done => exact .lit (ch := { literal := [c], field := none }) (rest := []) (by rw [hn]; simp [next]) rfl .done
  | @lit _ rest ch _ hr hf hrest =>
    exact .lit (ch := { ch with literal := [c] ++ ch.literal }) (rest := rest) (by rw [hn, next_lit, hr]) hf hrest
  | @fld _ rest ch f _ hr hf hrest =>
    exact .fld (ch := { ch with literal := [c] ++ ch.literal }) (rest := rest) (by rw [hn, next_lit, hr]) hf hrest

theorem trace_yields {cs : List Char} {fs : List Field} (h : Trace cs fs) : Yields cs fs := by
  induction h with
  | nil => exact .done
  | chr h1 h2 _ ih => exact yields_chr h1 h2 ih
  | open_ _ ih => exact .lit (ch := { literal := ['{'], field := none }) (by simp [next]) rfl ih
  | close _ ih => exact .lit (ch := { literal := ['}'], field := none }) (by simp [next]) rfl ih
  | @field c r0 rest f fs hc hpf _ ih =>
    exact .fld (ch := { literal := [], field := some f }) (rest := rest)
      (by simp only [next, show ¬ ('{' : Char) = '}' by decide, hc, if_false, if_true, hpf]) rfl ih

/-- what the markup iterator yields on a traced string -/
theorem trace_markup {s : List Char} {fs : List Field} (h : Trace s fs) : ∃ chunks, markup s = .ok chunks ∧ fieldsOf chunks = fs :=
  yields_markupLoop (trace_yields h) (s.length + 1) (by omega)

/-! ### `str.format` renders the fields in order -/

def renderAll (a : Args) : AutoNumber → List Field → Except FErr Unit
  | _, [] => .ok ()
  | an, f :: fs =>
    match renderField a an f with
    | .error e => .error e
    | .ok an' => renderAll a an' fs

theorem yields_format (a : Args) {cs : List Char} {fs : List Field} (h : Yields cs fs) :
    ∀ an fuel, cs.length < fuel → formatLoop a fuel cs an = renderAll a an fs := by
  induction h with
  | done =>
    intro an fuel hf
    cases fuel with
    | zero => omega
    | succ fuel => simp [formatLoop, next, renderAll]
  | @lit cs rest ch fs hn hf _ ih =>
    intro an fuel hfu
    cases fuel with
    | zero => omega
    | succ fuel =>
      have hl := next_rest_lt hn
      simp only [formatLoop, hn, hf]
      exact ih an fuel (by omega)
  | @fld cs rest ch f fs hn hf _ ih =>
    intro an fuel hfu
    cases fuel with
    | zero => omega
    | succ fuel =>
      have hl := next_rest_lt hn
      simp only [formatLoop, hn, hf, renderAll]
      cases renderField a an f with
      | error e => rfl
      | ok an' => exact ih an' fuel (by omega)

/-- `str.format` on a traced string -/
theorem trace_format (a : Args) {s : List Char} {fs : List Field} (h : Trace s fs) :
    format s a = renderAll a { state := .init, fieldNumber := 0 } fs :=
  yields_format a (trace_yields h) _ _ (by omega)

end I18n.PyBrace
