import I18n.Spec.HeaderRules
/-
C15 lemmas: the domain scanners of `Model/Domains.lean` decide the declarative predicates of the rule set
(`DomainOf`, `SpecialDomain`, `DotlessEmail`); the table of special-use domains regenerated from `lib/domains.py`
is the documented IANA list.
-/
namespace I18n.Domains
open I18n.Spec.HeaderRules I18n.Generated

theorem stripPrefix_eq_some (p s r : Str) : stripPrefix p s = some r ↔ s = p ++ r := by
  induction p generalizing s with
  | nil => simp [stripPrefix, eq_comm]
  | cons a p ih =>
    cases s with
    | nil => simp [stripPrefix]
    | cons b s =>
      simp only [stripPrefix]
      by_cases h : a = b
      · subst h; simp [ih]
      · simp only [h, if_false, List.cons_append, List.cons.injEq]
        constructor
        · intro h'; cases h'
        · rintro ⟨e, _⟩; exact absurd e.symm h

/-- **domains_pin**: the alternatives of `lib.domains._is_special`, as regenerated from the source on this run, are the
    documented special-use domain names -/
theorem domains_pin : HeaderFields.specialDomains = specialDomains := rfl

theorem hasLabelSuffix_iff (suffix d : Str) :
    hasLabelSuffix suffix d = true ↔ ∃ p, p ≠ [] ∧ '\n' ∉ p ∧ d = p ++ '.' :: suffix := by
  unfold hasLabelSuffix
  constructor
  · intro h
    split at h
    · rename_i p hp
      have e := (stripPrefix_eq_some _ _ _).1 hp
      have e2 : d = p.reverse ++ '.' :: suffix := by
        have := congrArg List.reverse e
        simpa using this
      refine ⟨p.reverse, ?_, ?_, e2⟩
      · intro hn; simp_all
      · simp_all
    · cases h
  · rintro ⟨p, hne, hnl, rfl⟩
    have : stripPrefix suffix.reverse (p ++ '.' :: suffix).reverse = some ('.' :: p.reverse) := by
      rw [stripPrefix_eq_some]; simp
    rw [this]
    simp [hne, hnl]

theorem isSpecialLowered_iff (d : Str) : isSpecialLowered d = true ↔ SpecialDomain d := by
  unfold isSpecialLowered SpecialDomain
  rw [domains_pin, List.any_eq_true]
  constructor
  · rintro ⟨alt, hm, h⟩
    refine ⟨alt, hm, ?_⟩
    unfold matchesAlt at h
    simp only [Bool.or_eq_true, Bool.and_eq_true, Bool.not_eq_true', beq_iff_eq] at h
    rcases h with h | h
    · exact Or.inl h
    · exact Or.inr ((hasLabelSuffix_iff _ _).1 h)
  · rintro ⟨alt, hm, h⟩
    refine ⟨alt, hm, ?_⟩
    unfold matchesAlt
    simp only [Bool.or_eq_true, Bool.and_eq_true, Bool.not_eq_true', beq_iff_eq]
    rcases h with h | h
    · exact Or.inl h
    · exact Or.inr ((hasLabelSuffix_iff _ _).2 h)

theorem domainOfAux_spec (acc s : Str) :
    ('@' ∉ s ∧ domainOfAux acc s = acc) ∨ (∃ loc dom, s = loc ++ '@' :: dom ∧ '@' ∉ dom ∧ domainOfAux acc s = dom) := by
  induction s generalizing acc with
  | nil => left; simp [domainOfAux]
  | cons c cs ih =>
    unfold domainOfAux
    by_cases h : c = '@'
    · subst h
      simp only [if_true]
      rcases ih cs with ⟨hn, he⟩ | ⟨loc, dom, e, hn, he⟩
      · right; exact ⟨[], cs, by simp, hn, he⟩
      · right; exact ⟨'@' :: loc, dom, by simp [e], hn, he⟩
    · simp only [h, if_false]
      rcases ih acc with ⟨hn, he⟩ | ⟨loc, dom, e, hn, he⟩
      · left; refine ⟨?_, he⟩; simp [hn, Ne.symm h]
      · right; exact ⟨c :: loc, dom, by simp [e], hn, he⟩

theorem domainOf_unique {loc dom loc' dom' : Str} (h : loc ++ '@' :: dom = loc' ++ '@' :: dom')
    (hn : '@' ∉ dom) (hn' : '@' ∉ dom') : dom = dom' := by
  induction loc generalizing loc' with
  | nil =>
    cases loc' with
    | nil => simpa using h
    | cons c l =>
      simp only [List.nil_append, List.cons_append, List.cons.injEq] at h
      exact absurd (by rw [h.2]; simp) hn
  | cons a l ih =>
    cases loc' with
    | nil =>
      simp only [List.nil_append, List.cons_append, List.cons.injEq] at h
      exact absurd (by rw [← h.2]; simp) hn'
    | cons c l' =>
      simp only [List.cons_append, List.cons.injEq] at h
      exact ih h.2

/-- for an address with `@`, `domainOf` is the part after the last `@` -/
theorem domainOf_spec (addr : Str) (h : '@' ∈ addr) : DomainOf addr (domainOf addr) := by
  unfold domainOf
  rcases domainOfAux_spec addr addr with ⟨hn, _⟩ | ⟨loc, dom, e, hn, he⟩
  · exact absurd h hn
  · rw [he]; exact ⟨loc, e, hn⟩

theorem DomainOf_iff (addr dom : Str) (h : '@' ∈ addr) : DomainOf addr dom ↔ dom = domainOf addr := by
  constructor
  · rintro ⟨loc, e, hn⟩
    obtain ⟨loc', e', hn'⟩ := domainOf_spec addr h
    exact domainOf_unique (e.symm.trans e') hn hn'
  · rintro rfl; exact domainOf_spec addr h

theorem isEmailInSpecialDomain_iff (x : Hdr.Ext) (addr : Str) (h : '@' ∈ addr) :
    isEmailInSpecialDomain x.db.lower addr = true ↔ SpecialEmail x addr := by
  unfold isEmailInSpecialDomain isSpecialDomain SpecialEmail
  rw [isSpecialLowered_iff]
  constructor
  · intro hs; exact ⟨_, domainOf_spec addr h, hs⟩
  · rintro ⟨dom, hd, hs⟩
    rw [(DomainOf_iff addr dom h).1 hd] at hs; exact hs

theorem isEmailInDotlessDomain_iff (addr : Str) (h : '@' ∈ addr) :
    isEmailInDotlessDomain addr = true ↔ DotlessEmail addr := by
  unfold isEmailInDotlessDomain isDotlessDomain DotlessEmail
  constructor
  · intro hs; exact ⟨_, domainOf_spec addr h, by simpa using hs⟩
  · rintro ⟨dom, hd, hs⟩
    rw [(DomainOf_iff addr dom h).1 hd] at hs; simpa using hs

end I18n.Domains
