import I18n.Lemmas.HdrHeaders
import I18n.Lemmas.HdrMime
import I18n.Lemmas.DateTags
/-
C15 lemmas, part 9: no exception escapes the header stages — `get_character_name` is total on the characters
`find_unusual_characters` can report (checked on the regenerated table), the charset fragment is total by C20's
`check_total`, `check_dates` by C18's `NoCrash`; nothing else in the five methods can raise once the library results exist.
-/
set_option linter.unusedSimpArgs false
namespace I18n.Hdr
open I18n.Spec.HeaderRules I18n.Date I18n.Generated

def nameOfNat (n : Nat) : Option String :=
  match HeaderFields.unusualNames.find? (·.1 = n) with
  | some (_, some s) => some s
  | _ => none

theorem charName_eq (c : Char) : charName c = (nameOfNat c.toNat).map String.toList := by
  unfold charName nameOfNat
  cases h : HeaderFields.unusualNames.find? (fun x => decide (x.1 = c.toNat)) with
  | none => rfl
  | some p => obtain ⟨a, b⟩ := p; cases b <;> rfl

/-- every code point the regex can report -/
def candidates : List Nat :=
  (HeaderFields.unusualAlways.flatMap fun r => List.range' r.1 (r.2 - r.1 + 1))
    ++ [HeaderFields.unusualUnlessBracket, HeaderFields.unusualAfterWord]

/-- **unusual_names_total**: `encinfo.get_character_name` (as probed on this run) has a name for each of them -/
theorem unusual_names_total : candidates.all (fun n => (nameOfNat n).isSome) = true := by decide

theorem mem_candidates_of_inRanges (c : Char) (h : inRanges HeaderFields.unusualAlways c = true) : c.toNat ∈ candidates := by
  unfold inRanges at h
  rw [List.any_eq_true] at h
  obtain ⟨r, hr, hc⟩ := h
  simp only [Bool.and_eq_true, decide_eq_true_eq] at hc
  unfold candidates
  apply List.mem_append_left
  rw [List.mem_flatMap]
  refine ⟨r, hr, ?_⟩
  rw [List.mem_range'_1]
  omega

theorem unusualAux_candidates (db : UDB) (prev : Option Char) (s : Str) :
    ∀ c ∈ unusualAux db prev s, c.toNat ∈ candidates := by
  induction s generalizing prev with
  | nil => intro c hc; simp [unusualAux] at hc
  | cons a rest ih =>
    intro c hc
    have key : ∀ (w : Bool), c ∈ (if (inRanges HeaderFields.unusualAlways a
          || (a.toNat = HeaderFields.unusualUnlessBracket && rest.head? != some '[')
          || (a.toNat = HeaderFields.unusualAfterWord && w)) = true
        then a :: unusualAux db (some a) rest else unusualAux db (some a) rest) → c.toNat ∈ candidates := by
      intro w hc
      split at hc
      · rename_i hit
        rcases List.mem_cons.1 hc with rfl | hc
        · simp only [Bool.or_eq_true, Bool.and_eq_true, decide_eq_true_eq] at hit
          rcases hit with (h | h) | h
          · exact mem_candidates_of_inRanges _ h
          · unfold candidates; rw [h.1]; simp
          · unfold candidates; rw [h.1]; simp
        · exact ih _ c hc
      · exact ih _ c hc
    unfold unusualAux at hc
    cases prev with
    | none => exact key false hc
    | some p => exact key (db.isWord p) hc

theorem mem_insertC (x y : Char) (l : List Char) : y ∈ insertC x l ↔ y = x ∨ y ∈ l := by
  induction l with
  | nil => simp [insertC]
  | cons a r ih =>
    unfold insertC
    split
    · rename_i h; subst h; simp
    · split
      · simp
      · simp only [List.mem_cons, ih]
        constructor
        · rintro (h | h | h) <;> simp [h]
        · rintro (h | h | h) <;> simp [h]

theorem mem_sortedChars (y : Char) (l : List Char) : y ∈ sortedChars l ↔ y ∈ l := by
  induction l with
  | nil => simp [sortedChars]
  | cons a r ih =>
    have : sortedChars (a :: r) = insertC a (sortedChars r) := rfl
    rw [this, mem_insertC, ih]; simp

theorem mapM_isSome {α β : Type} (f : α → Option β) (l : List α) (h : ∀ a ∈ l, (f a).isSome = true) :
    (l.mapM f).isSome = true := by
  induction l with
  | nil => simp
  | cons a r ih =>
    have ha := h a (by simp)
    have hr := ih (fun b hb => h b (by simp [hb]))
    cases hfa : f a with
    | none => rw [hfa] at ha; cases ha
    | some b =>
      cases hfr : r.mapM f with
      | none => rw [hfr] at hr; cases hr
      | some bs => simp [List.mapM_cons, hfa, hfr]

theorem unusualText_isSome (db : UDB) (s : Str) : (unusualText (sortedChars (unusualChars db s))).isSome = true := by
  unfold unusualText
  rw [Option.isSome_map]
  apply mapM_isSome
  intro c hc
  rw [Option.isSome_map]
  have hc' : c.toNat ∈ candidates := unusualAux_candidates db none s c ((mem_sortedChars c _).1 hc)
  have := List.all_eq_true.1 unusual_names_total _ hc'
  rw [charName_eq, Option.isSome_map]
  exact this

theorem entryTags_isSome (x : Ext) (tmpl : Bool) (i : Nat) (e : Entry) : (entryTags x tmpl i e).isSome = true := by
  unfold entryTags
  simp only []
  split
  · rfl
  · have := unusualText_isSome x.db e.headerText
    cases h : unusualText (sortedChars (unusualChars x.db e.headerText)) with
    | none => rw [h] at this; cases this
    | some t => rfl

theorem checkHeaders_isSome (x : Ext) (tmpl : Bool) (es : List Entry) : (checkHeaders x tmpl es).isSome = true := by
  unfold checkHeaders
  have hloop := entryLoop_fresh x tmpl 0 es ⟨[], [], false, false⟩ rfl
  cases hh : hdrsFrom 0 es with
  | nil => rw [hh] at hloop; simp only [] at hloop; rw [hloop]; rfl
  | cons p rest =>
    obtain ⟨e, i⟩ := p
    rw [hh] at hloop
    simp only [] at hloop
    have := entryTags_isSome x tmpl i e
    cases het : entryTags x tmpl i e with
    | none => rw [het] at this; cases this
    | some ts => rw [het] at hloop; simp only [] at hloop; rw [hloop]; rfl

theorem contentTypeLoop_ok (db : UDB) (cs : CharsetCheck) (hcs : ∀ n, ∃ r, cs n = .ok r) (cts : List Str) :
    ∃ r, contentTypeLoop db cs cts = .ok r := by
  induction cts with
  | nil => exact ⟨_, rfl⟩
  | cons ct rest ih =>
    obtain ⟨r2, h2⟩ := ih
    have h1 : ∃ r1, contentTypeOne db cs ct = .ok r1 := by
      unfold contentTypeOne
      cases hm : matchContentType db ct with
      | none => exact ⟨_, rfl⟩
      | some p =>
        obtain ⟨full, enc⟩ := p
        obtain ⟨r, hr⟩ := hcs (toName enc)
        simp only [hr]
        exact ⟨_, rfl⟩
    obtain ⟨r1, h1⟩ := h1
    unfold contentTypeLoop
    rw [h1, h2]
    exact ⟨_, rfl⟩

theorem checkMime_ok (db : UDB) (cs : CharsetCheck) (hcs : ∀ n, ∃ r, cs n = .ok r) (m : Meta) :
    ∃ out, checkMime db cs m = .ok out := by
  unfold checkMime
  simp only []
  split
  · exact ⟨_, rfl⟩
  · obtain ⟨r, hr⟩ := contentTypeLoop_ok db cs hcs (dedup (m.getS "Content-Type"))
    rw [hr]; exact ⟨_, rfl⟩

/-- no exception escapes the header stages when the charset fragment is total -/
theorem checkAll_isSome (x : Ext) (cs : CharsetCheck) (hcs : ∀ n, ∃ r, cs n = .ok r) (now : Int) (f : File) :
    (checkAll x cs now f).isSome = true := by
  unfold checkAll
  have h1 := checkHeaders_isSome x f.kind.isTemplate f.entries
  cases hh : checkHeaders x f.kind.isTemplate f.entries with
  | none => rw [hh] at h1; cases h1
  | some ho =>
    simp only []
    obtain ⟨mime, hm⟩ := checkMime_ok x.db cs hcs ho.metadata
    rw [hm]
    simp only []
    have := Date.checkDates_isSome (dateCtx f.kind ho.metadata now)
    cases hd : Date.checkDates (dateCtx f.kind ho.metadata now) with
    | none => rw [hd] at this; cases this
    | some ds => rfl

end I18n.Hdr
