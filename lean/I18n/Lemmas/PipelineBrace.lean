import I18n.Lemmas.PyBraceArgsExist
import I18n.Lemmas.FmtCheckKinds
import I18n.Lemmas.FmtCheckMessage
import I18n.Props.C13
import I18n.Props.C14
import I18n.Model.Meta
/-!
# The brace parsers of C13 as the strings C14's argument checks read (for C01)

C14 models `check_message` of the python-brace and perl-brace checkers over *parsed* strings (`FmtCheck.BraceStr`: truthiness
and the outcome of `backend.FormatString(s)` as a signature, the module's own error, or a crash) and proves it total provided
the outcome is never a crash and every signature is a well-formed dict (`MsgOk`).  Here the outcome is COMPUTED from the text by
C13's parser models (`PyBrace.parse`, `PerlBrace.parse`), and those two provisos are proved for every text
(`brace_error_own`, `perl_error_own`, and the `_argument_map` invariant `SigOK`).  `kmsgReal` is then the message as each of the
four format back ends sees it, a function of the entry alone.
-/
namespace I18n.PipelineBrace
open I18n I18n.FmtCheck I18n.FmtSig

/-! ## python-brace -/

def tySet (t : PyBrace.TySet) : TySet := ⟨t.float, t.int, t.str⟩

def bkey : PyBrace.Key → BKey
  | .idx n => .idx n
  | .name s => .name s

/-- `fmt.argument_map` and `len(fmt)` of a parsed python-brace string -/
def pySig (r : PyBrace.Result) : PyBraceSig :=
  ⟨r.argMap.map fun p => (bkey p.1, p.2.map fun a => tySet a.types), r.items.length⟩

/-- `bool(s)` and `strformat.pybrace.FormatString(s)` -/
def pyBraceStr (s : List Char) : BraceStr PyBraceSig :=
  ⟨!s.isEmpty,
   match PyBrace.parse s with
   | .ok r => .ok (pySig r)
   | .error (.own _ _) => .own
   | .error (.crash e) => .crash e⟩

theorem bkey_injective : ∀ a b, bkey a = bkey b → a = b := by
  intro a b h
  cases a <;> cases b <;> simp_all [bkey]

/-- the `_argument_map` of an accepted string: distinct keys, each with at least one use (C13's invariant) -/
theorem parse_sigOK {s : List Char} {r : PyBrace.Result} (h : PyBrace.parse s = .ok r) : PyBrace.SigOK r.argMap := by
  simp only [PyBrace.parse, PyBrace.parseWith] at h
  split at h
  · cases h
  · rename_i stF items hl
    split at h
    · cases h
    · rename_i m hu
      cases h
      have hm := PyBrace.loop_mapOK PyBrace.liveCfg _ _ _ _ _ _ hl ⟨by simp, by intro k as h; simp at h⟩
      exact PyBrace.unify_sigOK s _ _ hu hm

theorem pySig_wf {s : List Char} {r : PyBrace.Result} (h : PyBrace.parse s = .ok r) : BraceWf (pySig r) := by
  obtain ⟨hnd, hne⟩ := parse_sigOK h
  refine ⟨?_, ?_⟩
  · simp only [pySig, List.map_map]
    have : (r.argMap.map ((fun p : BKey × List TySet => p.1) ∘ fun p => (bkey p.1, p.2.map fun a => tySet a.types)))
        = (r.argMap.map (·.1)).map bkey := by simp [List.map_map, Function.comp_def]
    rw [this]
    exact List.Pairwise.map bkey (fun a b hab hbk => hab (bkey_injective a b hbk)) hnd
  · intro p hp
    simp only [pySig, List.mem_map] at hp
    obtain ⟨q, hq, rfl⟩ := hp
    have := (hne q.1 q.2 hq).1
    simpa using this

/-- **every text is a good python-brace string**: parsing never crashes (C13 `brace_error_own`) and an accepted string has a
    well-formed signature -/
theorem pyBraceStr_ok (s : List Char) : StrOk pyBraceBackend BraceWf (pyBraceStr s) := by
  refine ⟨?_, ?_⟩
  · intro e he
    simp only [pyBraceBackend, pyBraceStr] at he
    cases hp : PyBrace.parse s with
    | ok r => rw [hp] at he; cases he
    | error x =>
      obtain ⟨c, a, rfl⟩ := Props.C13.brace_error_own hp
      rw [hp] at he; cases he
  · intro f hf
    simp only [pyBraceBackend, pyBraceStr] at hf
    cases hp : PyBrace.parse s with
    | ok r => rw [hp] at hf; cases hf; exact pySig_wf hp
    | error x =>
      rw [hp] at hf
      cases x <;> cases hf

/-! ## perl-brace -/

def perlSig (r : PerlBrace.Result) : PerlBraceSig := ⟨r.arguments, r.items.length⟩

def perlBraceStr (s : List Char) : BraceStr PerlBraceSig :=
  ⟨!s.isEmpty,
   match PerlBrace.parse s with
   | .ok r => .ok (perlSig r)
   | .error (.error _) => .own
   | .error (.crash e) => .crash e⟩

/-- every text is a good perl-brace string (C13 `perl_error_own`) -/
theorem perlBraceStr_ok (s : List Char) : StrOk perlBraceBackend (fun _ => True) (perlBraceStr s) := by
  refine ⟨?_, fun _ _ => trivial⟩
  intro e he
  simp only [perlBraceBackend, perlBraceStr] at he
  cases hp : PerlBrace.parse s with
  | ok r => rw [hp] at he; cases he
  | error x =>
    obtain ⟨p, rfl⟩ := Props.C13.perl_error_own hp
    rw [hp] at he; cases he

/-! ## a message as each back end sees it -/

/-- the four strings of a message, through `f` -/
def msgOf {σ : Type} (f : List Char → σ) (o : Meta.Obs) (pfx repr : Extra) : Msg σ :=
  { msgid := f o.msgid, msgidPlural := o.msgidPlural.map f, msgstr := f o.msgstrOrEmpty,
    msgstrPlural := o.msgstrPlural.map fun kv => (kv.1, f kv.2), pfx := pfx, repr := repr }

theorem msgOf_ok {σ F : Type} (b : Backend σ F) (Good : F → Prop) (f : List Char → σ) (hf : ∀ s, StrOk b Good (f s))
    (o : Meta.Obs) (pfx repr : Extra) : MsgOk b Good (msgOf f o pfx repr) := by
  refine ⟨hf _, ?_, hf _, ?_⟩
  · intro s hs
    simp only [msgOf, Option.map_eq_some_iff] at hs
    obtain ⟨t, _, rfl⟩ := hs
    exact hf t
  · intro p hp
    simp only [msgOf, List.mem_map] at hp
    obtain ⟨q, _, rfl⟩ := hp
    exact hf q.2

/-- `self._message_format_checkers[name]` applied to the message: `reprs o` are `message_repr(message, template='{}:')` and
    `message_repr(message)` (functions of msgid and msgctxt) -/
def kmsgReal (reprs : Meta.Obs → Extra × Extra) (o : Meta.Obs) (name : List Char) : KMsg :=
  if name = "c".toList then .c (msgOf id o (reprs o).1 (reprs o).2)
  else if name = "python".toList then .python (msgOf id o (reprs o).1 (reprs o).2)
  else if name = "python-brace".toList then .pyBrace (msgOf pyBraceStr o (reprs o).1 (reprs o).2)
  else if name = "perl-brace".toList then .perlBrace (msgOf perlBraceStr o (reprs o).1 (reprs o).2)
  else .other

/-- **no format checker raises**, whatever the message, the context and the flags (C14's four `check_message_nocrash` theorems,
    the two brace ones with their provisos discharged from C13) -/
theorem kmsgReal_nocrash (reprs : Meta.Obs → Extra × Extra) (o : Meta.Obs) (name : List Char) (ctx : Ctx) (fl : Flags) :
    ∃ ts, (kmsgReal reprs o name).check ctx fl = .ok ts := by
  unfold kmsgReal
  split
  · exact Props.C14.c_check_message_nocrash ctx _ fl
  · split
    · exact Props.C14.python_check_message_nocrash ctx _ fl
    · split
      · exact Props.C14.pybrace_check_message_nocrash ctx _ fl (msgOf_ok _ _ _ pyBraceStr_ok o _ _)
      · split
        · exact Props.C14.perlbrace_check_message_nocrash ctx _ fl (msgOf_ok _ _ _ perlBraceStr_ok o _ _)
        · exact ⟨[], rfl⟩

end I18n.PipelineBrace
