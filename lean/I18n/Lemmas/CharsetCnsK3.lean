import I18n.Lemmas.CharsetCnsCheck
/-!
# C20: one share of the kernel's pass over the generated CNS 11643 tables (built in parallel with its siblings; rebuilt only when
# the tables change)
-/
namespace I18n.Charset.Cns
set_option maxRecDepth 1000000

theorem planes_5_6 : checkPlanes [5, 6] = true := by decide +kernel

end I18n.Charset.Cns
