import I18n.Model.Charset
/-!
# C20: EUC-TW — the structure of the encoding round-trips exactly on canonical units
-/
namespace I18n.Charset

set_option maxRecDepth 20000

theorem eucTwUnit_done (cns : CnsTable) (bs : List UInt8) (h : eucTwUnit cns bs = .done) : bs = [] := by
  cases bs with
  | nil => rfl
  | cons b rest =>
    simp only [eucTwUnit] at h
    split at h
    · cases h
    · split at h
      · cases h
      · split at h
        · cases h
        · split at h
          · cases h
          · split at h
            · split at h
              · cases h
              · split at h
                · split at h <;> cases h
                · cases h
            · split at h <;> cases h

theorem eucTwUnit_ascii (cns : CnsTable) (bs : List UInt8) (c : Nat) (h : eucTwUnit cns bs = .ascii c) :
    ∃ b rest, bs = b :: rest ∧ c = b.toNat ∧ c ≤ 0x7F := by
  cases bs with
  | nil => simp [eucTwUnit] at h
  | cons b rest =>
    simp only [eucTwUnit] at h
    split at h
    · rename_i hb
      cases h
      exact ⟨b, rest, rfl, rfl, hb⟩
    · split at h
      · cases h
      · split at h
        · cases h
        · split at h
          · cases h
          · split at h
            · split at h
              · cases h
              · split at h
                · split at h <;> cases h
                · cases h
            · split at h <;> cases h

theorem eucTwUnit_two (cns : CnsTable) (bs : List UInt8) (r c ch : Nat) (h : eucTwUnit cns bs = .two r c ch) :
    ∃ b b2 rest, bs = b :: b2 :: rest ∧ r = b.toNat ∧ c = b2.toNat := by
  cases bs with
  | nil => simp [eucTwUnit] at h
  | cons b rest =>
    simp only [eucTwUnit] at h
    split at h
    · cases h
    · split at h
      · cases h
      · split at h
        · cases h
        · rename_i b2 rest2
          split at h
          · cases h
          · split at h
            · split at h
              · cases h
              · split at h
                · split at h <;> cases h
                · cases h
            · split at h
              · cases h
                exact ⟨b, b2, rest2, rfl, rfl, rfl⟩
              · cases h

theorem eucTwUnit_four (cns : CnsTable) (bs : List UInt8) (p r c ch : Nat) (h : eucTwUnit cns bs = .four p r c ch) :
    ∃ b b2 b3 b4 rest, bs = b :: b2 :: b3 :: b4 :: rest ∧ b.toNat = 0x8E ∧ 0xA1 ≤ b2.toNat ∧ p = b2.toNat - 0xA0 ∧
      r = b3.toNat ∧ c = b4.toNat := by
  cases bs with
  | nil => simp [eucTwUnit] at h
  | cons b rest =>
    simp only [eucTwUnit] at h
    split at h
    · cases h
    · split at h
      · cases h
      · split at h
        · cases h
        · rename_i b2 rest2
          split at h
          · cases h
          · rename_i hb2
            split at h
            · rename_i hb
              split at h
              · cases h
              · split at h
                · rename_i b3 b4 rest4
                  split at h
                  · cases h
                    exact ⟨b, b2, b3, b4, rest4, rfl, hb, by omega, rfl, rfl, rfl⟩
                  · cases h
                · cases h
            · split at h <;> cases h

theorem ofNat_toNat (b : UInt8) : UInt8.ofNat b.toNat = b := UInt8.ofNat_toNat

/-- **EUC-TW round trip on canonical input**: if every unit of `bs` is the form the encoder writes for its character, then
    whatever `bs` decodes to encodes back to `bs` -/
theorem eucTw_roundtrip_loop (cns : CnsTable) (inv : CnsInverse) : ∀ (fuel i j : Nat) (bs : List UInt8) (cs : List Nat),
    eucTwDecodeLoop cns fuel i bs = .ok cs → eucTwCanonical cns inv fuel bs = true →
    eucTwEncodeFrom inv j cs = .ok bs := by
  intro fuel
  induction fuel with
  | zero =>
    intro i j bs cs h _
    simp only [eucTwDecodeLoop] at h
    split at h
    · rename_i he
      cases h
      have : bs = [] := by simpa using he
      subst this; rfl
    · cases h
  | succ fuel ih =>
    intro i j bs cs h hcan
    simp only [eucTwDecodeLoop] at h
    simp only [eucTwCanonical] at hcan
    cases hu : eucTwUnit cns bs with
    | done =>
      simp only [hu] at h
      cases h
      rw [eucTwUnit_done cns bs hu]; rfl
    | illegal => simp [hu] at h
    | incomplete => simp [hu] at h
    | ascii c =>
      simp only [hu] at h hcan
      obtain ⟨b, rest, rfl, rfl, hle⟩ := eucTwUnit_ascii cns bs c hu
      simp only [List.drop_succ_cons, List.drop_zero] at h hcan
      cases hrec : eucTwDecodeLoop cns fuel (i + 1) rest with
      | error e => simp [hrec, Except.map] at h
      | ok cs' =>
        simp only [hrec, Except.map, Except.ok.injEq] at h
        subst h
        have := ih (i + 1) (j + 1) _ cs' hrec hcan
        simp only [eucTwEncodeFrom, eucTwEncodeChar, hle, if_true, this, Except.map, ofNat_toNat]
        rfl
    | two r c ch =>
      simp only [hu] at h hcan
      obtain ⟨b, b2, rest, rfl, rfl, rfl⟩ := eucTwUnit_two cns bs r c ch hu
      simp only [EucUnit.canonical, Bool.and_eq_true, decide_eq_true_eq, beq_iff_eq] at hcan
      obtain ⟨⟨hgt, hinv⟩, hcan⟩ := hcan
      simp only [List.drop_succ_cons, List.drop_zero] at h hcan
      cases hrec : eucTwDecodeLoop cns fuel (i + 2) rest with
      | error e => simp [hrec, Except.map] at h
      | ok cs' =>
        simp only [hrec, Except.map, Except.ok.injEq] at h
        subst h
        have := ih (i + 2) (j + 1) _ cs' hrec hcan
        have hn : ¬ ch ≤ 0x7F := by omega
        simp only [eucTwEncodeFrom, eucTwEncodeChar, hn, if_false, hinv, if_true, this, Except.map, ofNat_toNat]
        rfl
    | four p r c ch =>
      simp only [hu] at h hcan
      obtain ⟨b, b2, b3, b4, rest, rfl, hb, hb2, rfl, rfl, rfl⟩ := eucTwUnit_four cns bs p r c ch hu
      simp only [EucUnit.canonical, Bool.and_eq_true, decide_eq_true_eq, beq_iff_eq, bne_iff_ne, ne_eq] at hcan
      obtain ⟨⟨⟨hgt, hp⟩, hinv⟩, hcan⟩ := hcan
      simp only [List.drop_succ_cons, List.drop_zero] at h hcan
      cases hrec : eucTwDecodeLoop cns fuel (i + 4) rest with
      | error e => simp [hrec, Except.map] at h
      | ok cs' =>
        simp only [hrec, Except.map, Except.ok.injEq] at h
        subst h
        have := ih (i + 4) (j + 1) _ cs' hrec hcan
        have hn : ¬ ch ≤ 0x7F := by omega
        have hplane : 0xA0 + (b2.toNat - 0xA0) = b2.toNat := by omega
        have hb' : (0x8E : UInt8) = b := by
          rw [← ofNat_toNat b, hb]; rfl
        simp only [eucTwEncodeFrom, eucTwEncodeChar, hn, if_false, hinv, hp, this, Except.map, ofNat_toNat, hplane, hb']
        rfl

theorem eucTw_roundtrip (cns : CnsTable) (inv : CnsInverse) (bs : List UInt8) (cs : List Nat)
    (h : eucTwDecode cns bs = .ok cs) (hcan : eucTwCanonical cns inv bs.length bs = true) :
    eucTwEncode inv cs = .ok bs :=
  eucTw_roundtrip_loop cns inv bs.length 0 0 bs cs h hcan

end I18n.Charset

namespace I18n.Charset
open I18n.Generated.Charset (eucTwDecodeFacts eucTwEncodeFacts)

set_option maxRecDepth 20000

def toBytes (l : List Nat) : List UInt8 := l.map UInt8.ofNat

/-- the tables agree with what the system iconv answered for the dumped units and characters -/
structure AgreesWithIconv (cns : CnsTable) (inv : CnsInverse) : Prop where
  dec : ∀ f ∈ eucTwDecodeFacts, eucTwDecode cns (toBytes f.1) = .ok [f.2]
  enc : ∀ f ∈ eucTwEncodeFacts, eucTwEncode inv [f.1] = .ok (toBytes f.2)

/-- **EUC-TW does not round-trip** under any tables that agree with the system iconv on the dumped facts:
    `8E A1 A4 A1` decodes to U+FF10, which encodes to `A4 A1`; `8E A3 A1 B8` decodes to U+5344, which encodes to `A4 BF` -/
theorem eucTw_roundtrip_refuted (cns : CnsTable) (inv : CnsInverse) (h : AgreesWithIconv cns inv) :
    (eucTwDecode cns [0x8E, 0xA1, 0xA4, 0xA1] = .ok [0xFF10] ∧ eucTwEncode inv [0xFF10] = .ok [0xA4, 0xA1]) ∧
    (eucTwDecode cns [0x8E, 0xA3, 0xA1, 0xB8] = .ok [0x5344] ∧ eucTwEncode inv [0x5344] = .ok [0xA4, 0xBF]) ∧
    ¬ (∀ bs cs, eucTwDecode cns bs = .ok cs → eucTwEncode inv cs = .ok bs) := by
  have d1 := h.dec ([142, 161, 164, 161], 65296) (by decide)
  have e1 := h.enc (65296, [164, 161]) (by decide)
  have d2 := h.dec ([142, 163, 161, 184], 21316) (by decide)
  have e2 := h.enc (21316, [164, 191]) (by decide)
  refine ⟨⟨d1, e1⟩, ⟨d2, e2⟩, ?_⟩
  intro hall
  have := hall _ _ d1
  rw [e1] at this
  simp [toBytes] at this

/-- … while the canonical forms the same facts mention do round-trip (`A4 A1`, `8E A2 A4 A1`) -/
theorem eucTw_canonical_nonvacuous (cns : CnsTable) (inv : CnsInverse) (h : AgreesWithIconv cns inv) :
    eucTwEncode inv [0x5FE3] = .ok [0x8E, 0xA2, 0xA4, 0xA1] ∧ eucTwDecode cns [0x8E, 0xA2, 0xA4, 0xA1] = .ok [0x5FE3] :=
  ⟨h.enc (24547, [142, 162, 164, 161]) (by decide), h.dec ([142, 162, 164, 161], 24547) (by decide)⟩

end I18n.Charset

namespace I18n.Charset

set_option maxRecDepth 20000

/-- a decode error of the EUC-TW structure points at a byte inside the input -/
theorem eucTwDecodeLoop_error_pos (cns : CnsTable) : ∀ (fuel i : Nat) (bs : List UInt8) (s : Nat) (k : Bool),
    eucTwDecodeLoop cns fuel i bs = .error (s, k) → i ≤ s ∧ s < i + bs.length := by
  intro fuel
  induction fuel with
  | zero =>
    intro i bs s k h
    simp only [eucTwDecodeLoop] at h
    split at h
    · cases h
    · rename_i hne
      cases h
      cases bs with
      | nil => simp at hne
      | cons b rest => simp only [List.length_cons]; omega
  | succ fuel ih =>
    intro i bs s k h
    simp only [eucTwDecodeLoop] at h
    cases hu : eucTwUnit cns bs with
    | done => simp [hu] at h
    | illegal =>
      simp only [hu] at h
      cases h
      cases bs with
      | nil => simp [eucTwUnit] at hu
      | cons b rest => simp only [List.length_cons]; omega
    | incomplete =>
      simp only [hu] at h
      cases h
      cases bs with
      | nil => simp [eucTwUnit] at hu
      | cons b rest => simp only [List.length_cons]; omega
    | ascii c =>
      simp only [hu] at h
      obtain ⟨b, rest, rfl, _, _⟩ := eucTwUnit_ascii cns bs c hu
      simp only [List.drop_succ_cons, List.drop_zero] at h
      cases hrec : eucTwDecodeLoop cns fuel (i + 1) rest with
      | ok v => simp [hrec, Except.map] at h
      | error e =>
        simp only [hrec, Except.map, Except.error.injEq] at h
        subst h
        have := ih _ _ _ _ hrec
        simp only [List.length_cons]; omega
    | two r c ch =>
      simp only [hu] at h
      obtain ⟨b, b2, rest, rfl, _, _⟩ := eucTwUnit_two cns bs r c ch hu
      simp only [List.drop_succ_cons, List.drop_zero] at h
      cases hrec : eucTwDecodeLoop cns fuel (i + 2) rest with
      | ok v => simp [hrec, Except.map] at h
      | error e =>
        simp only [hrec, Except.map, Except.error.injEq] at h
        subst h
        have := ih _ _ _ _ hrec
        simp only [List.length_cons]; omega
    | four p r c ch =>
      simp only [hu] at h
      obtain ⟨b, b2, b3, b4, rest, rfl, _, _, _, _, _⟩ := eucTwUnit_four cns bs p r c ch hu
      simp only [List.drop_succ_cons, List.drop_zero] at h
      cases hrec : eucTwDecodeLoop cns fuel (i + 4) rest with
      | ok v => simp [hrec, Except.map] at h
      | error e =>
        simp only [hrec, Except.map, Except.error.injEq] at h
        subst h
        have := ih _ _ _ _ hrec
        simp only [List.length_cons]; omega

end I18n.Charset
