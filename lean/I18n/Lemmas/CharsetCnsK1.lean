import I18n.Lemmas.CharsetCnsCheck
/-!
# C20: one share of the kernel's pass over the generated CNS 11643 tables (built in parallel with its siblings; rebuilt only when
# the tables change)
-/
namespace I18n.Charset.Cns
set_option maxRecDepth 1000000

theorem planes_1_2 : checkPlanes [1, 2] = true := by decide +kernel

end I18n.Charset.Cns

namespace I18n.Charset.Cns
open I18n.Generated.CharsetCns
/-- iconv gives the two-byte units `r c` and the four-byte units `8E A1 r c` the very same table -/
theorem plane1_forms_agree : plane1two = plane1 := by decide +kernel
end I18n.Charset.Cns
