import I18n.Lemmas.HdrMeta
import I18n.Lemmas.HdrDomains
/-
C15 lemmas, part 5: stray lines (conflict markers: the first only), field-name rules.
-/
set_option linter.unusedSimpArgs false
namespace I18n.Hdr
open I18n.Spec.HeaderRules I18n.Date I18n.Generated

theorem stripPrefix_eq_some (p s r : Str) : stripPrefix p s = some r ↔ s = p ++ r := by
  induction p generalizing s with
  | nil => simp [stripPrefix, eq_comm]
  | cons a p ih =>
    cases s with
    | nil => simp [stripPrefix]
    | cons b s =>
      simp only [stripPrefix]
      by_cases h : a = b
      · subst h; simp [ih]
      · simp only [h, if_false, List.cons_append, List.cons.injEq]
        constructor
        · intro h'; cases h'
        · rintro ⟨e, _⟩; exact absurd e.symm h

theorem startsWith_iff (p s : Str) : startsWith p s = true ↔ ∃ r, s = p ++ r := by
  unfold startsWith
  constructor
  · intro h
    cases hs : stripPrefix p s with
    | none => simp [hs] at h
    | some r => exact ⟨r, (stripPrefix_eq_some p s r).1 hs⟩
  · rintro ⟨r, rfl⟩
    rw [(stripPrefix_eq_some p (p ++ r) r).2 rfl]; rfl

theorem endsWith_iff (p s : Str) : endsWith p s = true ↔ ∃ q, s = q ++ p := by
  unfold endsWith
  rw [startsWith_iff]
  constructor
  · rintro ⟨r, h⟩
    refine ⟨r.reverse, ?_⟩
    have := congrArg List.reverse h
    simpa using this
  · rintro ⟨q, rfl⟩
    exact ⟨q.reverse, by simp⟩

/-- **conflict_marker_spec**: the scanner for `^#-#-#-#-#  .+  #-#-#-#-#$` on a line accepts exactly `#-#-#-#-#  <non-empty>  #-#-#-#-#` -/
theorem isConflictMarker_iff (l : Str) : isConflictMarker l = true ↔ ConflictMarker l := by
  unfold isConflictMarker ConflictMarker
  simp only [Bool.and_eq_true, startsWith_iff, endsWith_iff, decide_eq_true_eq]
  constructor
  · rintro ⟨⟨⟨r, hr⟩, ⟨q, hq⟩⟩, hlen⟩
    have hA : ("#-#-#-#-#  ".toList).length = 11 := by decide
    have hB : ("  #-#-#-#-#".toList).length = 11 := by decide
    have e : "#-#-#-#-#  ".toList ++ r = q ++ "  #-#-#-#-#".toList := hr.symm.trans hq
    have hql : q.length + 11 = l.length := by rw [hq]; simp [hB]
    rcases List.append_eq_append_iff.1 e with ⟨a', h1, h2⟩ | ⟨c', h1, _⟩
    · refine ⟨a', ?_, ?_⟩
      · intro e0; subst e0
        have : q.length = 11 := by rw [h1]; simp [hA]
        omega
      · rw [hr, h2]; simp
    · have : ("#-#-#-#-#  ".toList).length = q.length + c'.length := by rw [h1]; simp
      omega
  · rintro ⟨mid, hne, rfl⟩
    refine ⟨⟨⟨mid ++ "  #-#-#-#-#".toList, by simp⟩, ⟨"#-#-#-#-#  ".toList ++ mid, by simp⟩⟩, ?_⟩
    have : 0 < mid.length := List.length_pos_iff.2 hne
    have hA : ("#-#-#-#-#  ".toList).length = 11 := by decide
    have hB : ("  #-#-#-#-#".toList).length = 11 := by decide
    simp only [List.length_append, hA, hB]
    omega

theorem mem_strayTags (seen : Bool) (S : List Str) (t : TagCall) :
    t ∈ strayTags seen S ↔
      (∃ l ∈ S, ¬ isConflictMarker l = true ∧ t = ⟨"stray-header-line", [.str l]⟩)
      ∨ (seen = false ∧ ∃ pre l post, S = pre ++ l :: post ∧ isConflictMarker l = true ∧
          (∀ m ∈ pre, ¬ isConflictMarker m = true) ∧ t = ⟨"conflict-marker-in-header-entry", [.str l]⟩) := by
  induction S generalizing seen with
  | nil => simp [strayTags]
  | cons l rest ih =>
    unfold strayTags
    by_cases hm : isConflictMarker l = true
    · simp only [hm, if_true, List.mem_append, ih true]
      constructor
      · rintro (h | h | ⟨h, _⟩)
        · split at h
          · simp at h
          · rename_i hs
            right
            refine ⟨by simpa using hs, [], l, rest, rfl, hm, by simp, by simpa [tag, sx] using h⟩
        · obtain ⟨l', hl', hn, rfl⟩ := h
          left; exact ⟨l', by simp [hl'], hn, rfl⟩
        · cases h
      · rintro (⟨l', hl', hn, rfl⟩ | ⟨hs, pre, l', post, e, hm', hpre, rfl⟩)
        · right; left
          rcases List.mem_cons.1 hl' with rfl | hl'
          · exact absurd hm hn
          · exact ⟨l', hl', hn, rfl⟩
        · left
          cases pre with
          | nil =>
            simp only [List.nil_append, List.cons.injEq] at e
            obtain ⟨rfl, _⟩ := e
            simp [hs, tag, sx]
          | cons p pre' =>
            simp only [List.cons_append, List.cons.injEq] at e
            obtain ⟨rfl, _⟩ := e
            exact absurd hm (hpre _ (by simp))
    · simp only [hm, if_false, List.mem_cons, ih seen, Bool.false_eq_true]
      constructor
      · rintro (rfl | ⟨l', hl', hn, rfl⟩ | ⟨hs, pre, l', post, e, hm', hpre, rfl⟩)
        · left; exact ⟨l, by simp, hm, by simp [tag, sx]⟩
        · left; exact ⟨l', by simp [hl'], hn, rfl⟩
        · right
          refine ⟨hs, l :: pre, l', post, by simp [e], hm', ?_, rfl⟩
          intro m hmem
          rcases List.mem_cons.1 hmem with rfl | hmem
          · exact hm
          · exact hpre m hmem
      · rintro (⟨l', hl', hn, rfl⟩ | ⟨hs, pre, l', post, e, hm', hpre, rfl⟩)
        · rcases hl' with rfl | hl'
          · left; simp [tag, sx]
          · right; left; exact ⟨l', hl', hn, rfl⟩
        · right; right
          cases pre with
          | nil =>
            simp only [List.nil_append, List.cons.injEq] at e
            obtain ⟨rfl, _⟩ := e
            exact absurd hm' hm
          | cons p pre' =>
            simp only [List.cons_append, List.cons.injEq] at e
            obtain ⟨rfl, e2⟩ := e
            exact ⟨hs, pre', l', post, e2, hm', fun m hmem => hpre m (by simp [hmem]), rfl⟩

theorem strayLines_eq (ls : List Line) : strayLines ls = strays ls := by
  induction ls with
  | nil => rfl
  | cons l rest ih => cases l <;> simp [strayLines, strays, ih] <;> rfl

theorem mem_strayTags_rule (ls : List Line) (t : TagCall) :
    t ∈ strayTags false (strayLines ls) ↔ StrayRule ls t := by
  rw [mem_strayTags, strayLines_eq]
  unfold StrayRule
  simp only [isConflictMarker_iff, true_and]

/-! ### field names -/

theorem startsWithX_iff (k : Str) :
    (startsWith "X-".toList k || startsWith "x-".toList k) = true ↔ XPrefixed k := by
  simp only [Bool.or_eq_true, startsWith_iff, XPrefixed]
  constructor
  · rintro (⟨r, rfl⟩ | ⟨r, rfl⟩)
    · exact ⟨r, Or.inl rfl⟩
    · exact ⟨r, Or.inr rfl⟩
  · rintro ⟨r, rfl | rfl⟩
    · exact Or.inl ⟨r, rfl⟩
    · exact Or.inr ⟨r, rfl⟩

/-- **dedicated_pin**: the fields the code's `@checks_header_fields` decorators register are those with rules of their own -/
theorem dedicated_pin : HeaderFields.dedicated = ownRules := rfl

def hintOf (x : Ext) (m : Meta) (key : Str) : Option Str :=
  match (match lcHint key with | some h => some h | none => x.closeField key) with
  | some h => if m.has h then none else some h
  | none => none

theorem hint_iff (x : Ext) (ls : List Line) (key : Str) (h : Option Str) :
    Hint x (fieldLines ls) key h ↔ h = hintOf x (buildMeta ls []) key := by
  unfold Hint hintOf lcHint
  show (h = match (match registered.find? (fun r => decide (asciiLower r = asciiLower key)) with
                    | some r => some r | none => x.closeField key) with
            | some c => if c ∈ (fieldLines ls).map (·.1) then none else some c
            | none => none) ↔ _
  have e : registered = headerFields := rfl
  rw [e]
  generalize (match headerFields.find? (fun r => decide (asciiLower r = asciiLower key)) with
      | some r => some r | none => x.closeField key) = cand
  cases cand with
  | none => exact Iff.rfl
  | some c =>
    cases hc : (buildMeta ls []).has c with
    | true =>
      have := (meta_has ls c).1 hc
      simp only [this, if_true, hc]
    | false =>
      have hn : c ∉ (fieldLines ls).map (·.1) := fun e => by
        have := (meta_has ls c).2 e; rw [hc] at this; cases this
      simp only [hn, if_false, Bool.false_eq_true, hc]

theorem fieldNameTags_eq (x : Ext) (m : Meta) (key : Str) :
    fieldNameTags x m key =
      (if (startsWith "X-".toList key || startsWith "x-".toList key) = true then []
       else if headerFields.contains key = true then []
       else match hintOf x m key with
         | none => [tag "unknown-header-field" [sx key]]
         | some h => [tag "unknown-header-field" [sx key, arrow, sx h]])
      ++ (if ((m.get key).length > 1 && !dedicatedFields.contains key) = true then [tag "duplicate-header-field" [sx key]] else []) := rfl

theorem mem_fieldNameTags (x : Ext) (ls : List Line) (key : Str) (t : TagCall) :
    t ∈ fieldNameTags x (buildMeta ls []) key ↔
      (¬ XPrefixed key ∧ key ∉ registered ∧ ∃ h, Hint x (fieldLines ls) key h ∧
          t = ⟨"unknown-header-field", match h with | some c => [.str key, .str "=>".toList, .str c] | none => [.str key]⟩)
      ∨ (1 < ((fieldLines ls).filter (·.1 = key)).length ∧ key ∉ ownRules.map String.toList ∧
          t = ⟨"duplicate-header-field", [.str key]⟩) := by
  rw [fieldNameTags_eq, List.mem_append]
  have hreg : headerFields.contains key = true ↔ key ∈ registered := by
    simp [headerFields, registered]
  have hded : dedicatedFields.contains key = true ↔ key ∈ ownRules.map String.toList := by
    simp [dedicatedFields, dedicated_pin]
  have hlen : (Meta.get (buildMeta ls []) key).length = ((fieldLines ls).filter (·.1 = key)).length := by
    rw [meta_get]; simp [fieldVals]
  apply or_congr
  · cases hx : (startsWith "X-".toList key || startsWith "x-".toList key) with
    | true =>
      have := (startsWithX_iff key).1 hx
      simp only [if_true, List.not_mem_nil, false_iff]
      rintro ⟨h, _⟩; exact h this
    | false =>
      have hx' : ¬ XPrefixed key := fun e => by
        have := (startsWithX_iff key).2 e; rw [hx] at this; cases this
      simp only [Bool.false_eq_true, if_false]
      cases hr : headerFields.contains key with
      | true =>
        have := hreg.1 hr
        simp only [if_true, List.not_mem_nil, false_iff]
        rintro ⟨_, h, _⟩; exact h this
      | false =>
        have hr' : key ∉ registered := fun e => by
          have := hreg.2 e; rw [hr] at this; cases this
        simp only [Bool.false_eq_true, if_false]
        constructor
        · intro h
          refine ⟨hx', hr', hintOf x (buildMeta ls []) key, (hint_iff x ls key _).2 rfl, ?_⟩
          cases hh : hintOf x (buildMeta ls []) key with
          | none => rw [hh] at h; simpa [tag, sx] using h
          | some c => rw [hh] at h; simpa [tag, sx, arrow, lit] using h
        · rintro ⟨_, _, h, hh, rfl⟩
          rw [(hint_iff x ls key h).1 hh]
          cases hintOf x (buildMeta ls []) key with
          | none => simp [tag, sx]
          | some c => simp [tag, sx, arrow, lit]
  · rw [hlen]
    cases hd : dedicatedFields.contains key with
    | true =>
      have := hded.1 hd
      simp only [Bool.not_true, Bool.and_false, Bool.false_eq_true, if_false, List.not_mem_nil, false_iff]
      rintro ⟨_, h, _⟩; exact h this
    | false =>
      have hd' : key ∉ ownRules.map String.toList := fun e => by
        have := hded.2 e; rw [hd] at this; cases this
      by_cases hl : 1 < ((fieldLines ls).filter (·.1 = key)).length
      · simp [hd', hl, tag, sx]
      · simp [hd', hl]

theorem mem_nameTags (x : Ext) (ls : List Line) (t : TagCall) :
    t ∈ (sortedSet ((buildMeta ls []).map (·.1))).flatMap (fieldNameTags x (buildMeta ls [])) ↔ NameRule x (fieldLines ls) t := by
  simp only [List.mem_flatMap, meta_keys, mem_fieldNameTags]
  unfold NameRule
  constructor
  · rintro ⟨k, hk, h | h⟩
    · exact Or.inl ⟨k, hk, h⟩
    · exact Or.inr ⟨k, hk, h⟩
  · rintro (⟨k, hk, h⟩ | ⟨k, hk, h⟩)
    · exact ⟨k, hk, Or.inl h⟩
    · exact ⟨k, hk, Or.inr h⟩

end I18n.Hdr
