import I18n.Lemmas.PyBraceSpecRe
import I18n.Lemmas.PyBraceScan
/-
The python-brace scanner (`scanLiteral`, `scanField` and their parts) IS the first match of the live parse tree of
`pybrace._field_re` under the backtracking semantics.
-/
namespace I18n.Spec.BraceRe

/-- iterate a step while it applies -/
def iter (step : St → Option St) : Nat → St → St
  | 0, st => st
  | n + 1, st =>
    match step st with
    | some st' => iter step n st'
    | none => st

/-- the continuation fails whenever the unread text starts with a character of the class -/
def FailsOn {β : Type} (p : Char → Bool) (k : St → Option β) : Prop :=
  ∀ c r pos caps, p c = true → k ⟨c :: r, pos, caps⟩ = none

/-- greedy repetition of a body that, for continuations failing on `bad` starts, is a deterministic step: if the
    continuation of the loop cannot succeed where the body can step (or never fails), the loop runs the step to exhaustion -/
theorem starLoop_det {β : Type} (bad : Char → Bool) (body : St → (St → Option β) → Option β) (step : St → Option St)
    (K : St → Option β)
    (hb : ∀ st k, FailsOn bad k → body st k = (step st).bind k)
    (hbadbody : ∀ c r pos caps k, bad c = true → body ⟨c :: r, pos, caps⟩ k = none)
    (hprog : ∀ st st', step st = some st' → st'.rest.length < st.rest.length)
    (hK : FailsOn bad K)
    (hdisj : (∀ st, (step st).isSome = true → K st = none) ∨ (∀ st, K st ≠ none)) :
    ∀ (fuel : Nat) (st : St), st.rest.length ≤ fuel → starLoop body fuel st K = K (iter step fuel st) := by
  -- the loop itself fails on `bad` starts
  have hloop : ∀ n, FailsOn bad (fun st' => starLoop body n st' K) := by
    intro n c r pos caps hc
    cases n with
    | zero => simp only [starLoop]; exact hK c r pos caps hc
    | succ n => simp only [starLoop, hbadbody c r pos caps _ hc]; exact hK c r pos caps hc
  intro fuel
  induction fuel with
  | zero => intro st _; simp [starLoop, iter]
  | succ fuel ih =>
    intro st hlen
    have hk : FailsOn bad (fun st' => if st'.rest.length < st.rest.length then starLoop body fuel st' K else none) := by
      intro c r pos caps hc
      simp only
      split
      · exact hloop fuel c r pos caps hc
      · rfl
    simp only [starLoop, hb st _ hk, iter]
    cases hs : step st with
    | none => simp
    | some st' =>
      have hp := hprog st st' hs
      simp only [Option.bind_some, hp, if_true]
      rw [ih st' (by omega)]
      cases hr : K (iter step fuel st') with
      | some x => rfl
      | none =>
        simp only
        rcases hdisj with h | h
        · exact h st (by rw [hs]; rfl)
        · exact absurd hr (h _)

end I18n.Spec.BraceRe

namespace I18n.PyBrace
open I18n.BraceChars I18n.Spec.BraceRe
open I18n.PerlBrace (cls_idstart cls_word cls_is)

/-! ### the parts of `_field_re` -/

def reIdent : Re := .seq (.cls true [.notWord, .digit]) (.star (.cls false [.word]))
def reHead : Re := .alt (.plus (.cls false [.digit])) reIdent
def reAttr : Re := .seq (.cls false [.lit 46]) reIdent
def reIndex (br : List ClsItem) : Re := .seq (.cls false [.lit 91]) (.seq (.plus (.cls true br)) (.cls false [.lit 93]))
def reTail (br : List ClsItem) : Re := .star (.alt reAttr (reIndex br))
def reName (br : List ClsItem) : Re := .seq reHead (reTail br)
def reSimple : Re :=
  .seq (.cls false [.lit 123]) (.seq (.opt (reName [.lit 93, .lit 123, .lit 125])) (.cls false [.lit 125]))
def reFmt : Re := .seq (.cls false [.lit 58]) (.star (.alt (.cls true [.lit 123, .lit 125]) reSimple))
def reConv : Re := .seq (.cls false [.lit 33]) (.plus (.cls false [.word]))
def reLit : Re :=
  .alt (.cls true [.lit 123, .lit 125])
    (.alt (.seq (.cls false [.lit 123]) (.cls false [.lit 123])) (.seq (.cls false [.lit 125]) (.cls false [.lit 125])))
def reField : Re :=
  .seq (.cls false [.lit 123]) (.seq (.opt (.group 2 (reName [.lit 93]))) (.seq (.opt (.group 3 reConv))
    (.seq (.opt (.group 4 reFmt)) (.cls false [.lit 125]))))

theorem pinned_field_split : pinnedFieldRe = .alt (.group 1 (.plus reLit)) reField := rfl
theorem pinned_simple_split : pinnedSimpleFieldRe = reSimple := rfl

/-! ### classes -/

theorem cls_top_br (c : Char) : clsTest liveDB true [.lit 93] c = topBr c := by
  simp only [clsTest, ClsItem.test, List.any_cons, List.any_nil, Bool.or_false, toNat_ne (k := 93) (by decide), topBr]
  have : Char.ofNat 93 = ']' := rfl
  rw [this]
  cases h : (c == ']') <;> simp_all

theorem cls_nested_br (c : Char) : clsTest liveDB true [.lit 93, .lit 123, .lit 125] c = nestedBr c := by
  simp only [clsTest, ClsItem.test, List.any_cons, List.any_nil, Bool.or_false, toNat_ne (k := 93) (by decide),
    toNat_ne (k := 123) (by decide), toNat_ne (k := 125) (by decide), nestedBr]
  have e1 : Char.ofNat 93 = ']' := rfl
  have e2 : Char.ofNat 123 = '{' := rfl
  have e3 : Char.ofNat 125 = '}' := rfl
  rw [e1, e2, e3]
  cases h1 : (c == ']') <;> cases h2 : (c == '{') <;> cases h3 : (c == '}') <;> simp_all

theorem cls_nonbrace (c : Char) : clsTest liveDB true [.lit 123, .lit 125] c = (c != '{' && c != '}') := by
  simp only [clsTest, ClsItem.test, List.any_cons, List.any_nil, Bool.or_false, toNat_ne (k := 123) (by decide),
    toNat_ne (k := 125) (by decide)]
  have e2 : Char.ofNat 123 = '{' := rfl
  have e3 : Char.ofNat 125 = '}' := rfl
  rw [e2, e3]
  cases h2 : (c == '{') <;> cases h3 : (c == '}') <;> simp_all

theorem cls_char (k : Nat) (hk : (Char.ofNat k).toNat = k) (c : Char) : clsTest liveDB false [.lit k] c = (c == Char.ofNat k) :=
  cls_one k hk c

/-! ### identifier -/

/-- `[^\W\d]\w*` followed by something that cannot start with a word character -/
theorem bt_ident {β : Type} (st : St) (k : St → Option β) (hk : FailsOn isWord k) :
    bt liveDB reIdent st k =
      match scanIdent st.rest with
      | some (id, r) => k ⟨r, st.pos + id.length, st.caps⟩
      | none => none := by
  obtain ⟨rest, pos, caps⟩ := st
  cases rest with
  | nil => simp [reIdent, bt_seq, bt_cls_nil, scanIdent]
  | cons c r =>
    simp only [reIdent, bt_seq, bt_cls_cons, cls_idstart, bt_star, scanIdent]
    by_cases hc : isIdStart c = true
    · simp only [hc, if_true]
      rw [starLoop_cls liveDB false [.word] k (Or.inl ?H) _ _ _ _ (Nat.le_refl _)]
      case H =>
        intro c0 r0 p0 cp0 h0
        rw [cls_word] at h0
        exact hk c0 r0 p0 cp0 h0
      have hw : clsTest liveDB false [.word] = isWord := funext cls_word
      simp only [hw, List.length_cons]
      congr 2
      omega
    · simp [hc]

/-! ### the head of a name -/

theorem idStart_not_digit {c : Char} (h : isIdStart c = true) : isDigit c = false := by
  simp only [isIdStart, Bool.and_eq_true, Bool.not_eq_true'] at h; exact h.2

theorem digit_not_idStart {c : Char} (h : isDigit c = true) : isIdStart c = false := by
  simp [isIdStart, h]

/-- `(?: \d+ | [^\W\d]\w* )` followed by something that cannot start with a digit or a word character -/
theorem bt_head {β : Type} (st : St) (k : St → Option β) (hw : FailsOn isWord k) (hd : FailsOn isDigit k) :
    bt liveDB reHead st k =
      match scanNameHead st.rest with
      | some (h, r) => k ⟨r, st.pos + h.length, st.caps⟩
      | none => none := by
  obtain ⟨rest, pos, caps⟩ := st
  simp only [reHead, bt_alt, bt_plus, bt_ident _ k hw]
  cases rest with
  | nil => simp [bt_cls_nil, scanNameHead, scanIdent]
  | cons c r =>
    by_cases hc : isDigit c = true
    · have hcd : clsTest liveDB false [.digit] c = true := by rw [cls_digit]; exact hc
      simp only [bt_cls_cons, hcd, if_true, scanNameHead, hc]
      rw [starLoop_cls liveDB false [.digit] k (Or.inl ?H) _ _ _ _ (Nat.le_refl _)]
      case H =>
        intro c0 r0 p0 cp0 h0
        rw [cls_digit] at h0
        exact hd c0 r0 p0 cp0 h0
      have hf : clsTest liveDB false [.digit] = isDigit := funext cls_digit
      simp only [hf, List.length_cons, scanIdent, digit_not_idStart hc]
      have e : pos + 1 + (List.takeWhile isDigit r).length = pos + ((List.takeWhile isDigit r).length + 1) := by omega
      rw [e]
      cases k ⟨List.dropWhile isDigit r, pos + ((List.takeWhile isDigit r).length + 1), caps⟩ <;> simp
    · have hcd : clsTest liveDB false [.digit] c = false := by rw [cls_digit]; simpa using hc
      simp [bt_cls_cons, hcd, scanNameHead, hc]

/-! ### one element of the tail of a name -/

/-- `[.] [^\W\d]\w*` or `\[ X+ \]` at the start, as a step on matcher states -/
def tailStep (inBr : Char → Bool) (st : St) : Option St :=
  match st.rest with
  | '.' :: r =>
    match scanIdent r with
    | some (id, r') => some ⟨r', st.pos + 1 + id.length, st.caps⟩
    | none => none
  | '[' :: r =>
    match scanIndex inBr r with
    | some (x, r') => some ⟨r', st.pos + 1 + x.length + 1, st.caps⟩
    | none => none
  | _ => none

theorem bt_attr {β : Type} (st : St) (k : St → Option β) (hw : FailsOn isWord k) :
    bt liveDB reAttr st k =
      match st.rest with
      | '.' :: r =>
        (match scanIdent r with
         | some (id, r') => k ⟨r', st.pos + 1 + id.length, st.caps⟩
         | none => none)
      | _ => none := by
  obtain ⟨rest, pos, caps⟩ := st
  cases rest with
  | nil => simp [reAttr, bt_seq, bt_cls_nil]
  | cons c r =>
    simp only [reAttr, bt_seq, bt_cls_cons, cls_char 46 (by decide)]
    by_cases hc : c = '.'
    · subst hc
      have : ('.' == Char.ofNat 46) = true := by decide
      simp only [this, if_true, bt_ident _ k hw]
    · have : (c == Char.ofNat 46) = false := by
        have e : Char.ofNat 46 = '.' := rfl
        rw [e]; simpa using hc
      simp only [this, Bool.false_eq_true, if_false]
      split
      · rename_i heq; simp only [List.cons.injEq] at heq; exact absurd heq.1 hc
      · rfl

/-- `\[ X+ \]` for a class `X` that excludes `]` (no condition on the continuation: the closing bracket delimits) -/
theorem bt_index {β : Type} (br : List ClsItem) (inBr : Char → Bool) (hbr : ∀ c, clsTest liveDB true br c = inBr c)
    (hnot : ∀ c, inBr c = true → c ≠ ']') (st : St) (k : St → Option β) :
    bt liveDB (reIndex br) st k =
      match st.rest with
      | '[' :: r =>
        (match scanIndex inBr r with
         | some (x, r') => k ⟨r', st.pos + 1 + x.length + 1, st.caps⟩
         | none => none)
      | _ => none := by
  obtain ⟨rest, pos, caps⟩ := st
  have hf : clsTest liveDB true br = inBr := funext hbr
  simp only [scanIndex]
  cases rest with
  | nil => simp [reIndex, bt_seq, bt_cls_nil]
  | cons c r =>
    simp only [reIndex, bt_seq, bt_cls_cons, cls_char 91 (by decide), bt_plus]
    by_cases hc : c = '['
    · subst hc
      have : ('[' == Char.ofNat 91) = true := by decide
      simp only [this, if_true]
      cases r with
      | nil => simp [bt_cls_nil]
      | cons d r' =>
        by_cases hd : inBr d = true
        · have hcd : clsTest liveDB true br d = true := by rw [hbr]; exact hd
          simp only [bt_cls_cons, hcd, if_true]
          rw [starLoop_cls liveDB true br _ (Or.inl ?H) _ _ _ _ (Nat.le_refl _)]
          case H =>
            intro c0 r0 p0 cp0 h0
            rw [hbr] at h0
            have hne : (c0 == Char.ofNat 93) = false := by
              have e : Char.ofNat 93 = ']' := rfl
              rw [e]; simpa using hnot c0 h0
            simp [bt_cls_cons, cls_char 93 (by decide), hne]
          simp only [hf, List.takeWhile_cons, List.dropWhile_cons, hd, if_true, List.length_cons]
          cases hdw : List.dropWhile inBr r' with
          | nil => simp [bt_cls_nil]
          | cons e r'' =>
            simp only [bt_cls_cons, cls_char 93 (by decide)]
            by_cases he : e = ']'
            · subst he
              have : (']' == Char.ofNat 93) = true := by decide
              simp only [this, if_true, List.length_cons]
              congr 2
              omega
            · have : (e == Char.ofNat 93) = false := by
                have e' : Char.ofNat 93 = ']' := rfl
                rw [e']; simpa using he
              simp only [this, Bool.false_eq_true, if_false]
              split
              · rename_i heq
                exfalso
                split at heq
                · rename_i heq2; simp only [List.cons.injEq] at heq2; exact he heq2.1
                · cases heq
              · rfl
        · have hcd : clsTest liveDB true br d = false := by rw [hbr]; simpa using hd
          have hd' : inBr d = false := by simpa using hd
          simp [bt_cls_cons, hcd, List.takeWhile_cons, hd']
    · have : (c == Char.ofNat 91) = false := by
        have e : Char.ofNat 91 = '[' := rfl
        rw [e]; simpa using hc
      simp only [this, Bool.false_eq_true, if_false]
      split
      · rename_i heq; simp only [List.cons.injEq] at heq; exact absurd heq.1 hc
      · rfl

/-! ### the tail of a name -/

theorem bt_tail_body {β : Type} (br : List ClsItem) (inBr : Char → Bool) (hbr : ∀ c, clsTest liveDB true br c = inBr c)
    (hnot : ∀ c, inBr c = true → c ≠ ']') (st : St) (k : St → Option β) (hw : FailsOn isWord k) :
    bt liveDB (.alt reAttr (reIndex br)) st k = (tailStep inBr st).bind k := by
  obtain ⟨rest, pos, caps⟩ := st
  simp only [bt_alt, bt_attr _ k hw, bt_index br inBr hbr hnot, tailStep]
  cases rest with
  | nil => simp
  | cons c r =>
    by_cases h1 : c = '.'
    · subst h1
      cases h : scanIdent r with
      | none => simp [h]
      | some p =>
        obtain ⟨id, r'⟩ := p
        simp only [h, Option.bind_some]
        cases k ⟨r', pos + 1 + id.length, caps⟩ <;> simp
    · by_cases h2 : c = '['
      · subst h2
        cases h : scanIndex inBr r with
        | none => simp [h]
        | some p => obtain ⟨n, r'⟩ := p; simp [h]
      · have e1 : ∀ (γ : Type) (f : List Char → γ) (g : List Char → γ) (d : γ), (match (c :: r : List Char) with
            | '.' :: r => f r
            | '[' :: r => g r
            | _ => d) = d := by
          intro γ f g d
          split
          · rename_i heq; simp only [List.cons.injEq] at heq; exact absurd heq.1 h1
          · rename_i heq; simp only [List.cons.injEq] at heq; exact absurd heq.1 h2
          · rfl
        have e2 : ∀ (γ : Type) (f : List Char → γ) (d : γ), (match (c :: r : List Char) with
            | '.' :: r => f r
            | _ => d) = d := by
          intro γ f d
          split
          · rename_i heq; simp only [List.cons.injEq] at heq; exact absurd heq.1 h1
          · rfl
        have e3 : ∀ (γ : Type) (g : List Char → γ) (d : γ), (match (c :: r : List Char) with
            | '[' :: r => g r
            | _ => d) = d := by
          intro γ g d
          split
          · rename_i heq; simp only [List.cons.injEq] at heq; exact absurd heq.1 h2
          · rfl
        simp [e1, e2, e3]

theorem tailStep_progress (inBr : Char → Bool) (st st' : St) (h : tailStep inBr st = some st') : st'.rest.length < st.rest.length := by
  obtain ⟨rest, pos, caps⟩ := st
  simp only [tailStep] at h
  split at h
  · rename_i r
    split at h
    · rename_i id r' hid
      cases h
      have := (scanIdent_some hid).1
      simp only at *
      rw [this]; simp; omega
    · cases h
  · rename_i r
    split at h
    · rename_i x r' hidx
      cases h
      have := (scanIndex_some hidx).1
      simp only at *
      rw [this]; simp; omega
    · cases h
  · cases h

theorem tailStep_some_head {inBr : Char → Bool} {st : St} (h : (tailStep inBr st).isSome = true) :
    ∃ c r, st.rest = c :: r ∧ (c == '.' || c == '[') = true := by
  obtain ⟨rest, pos, caps⟩ := st
  simp only [tailStep] at h
  split at h
  · rename_i r; exact ⟨'.', r, rfl, by decide⟩
  · rename_i r; exact ⟨'[', r, rfl, by decide⟩
  · simp at h

theorem tailStep_none_of {inBr : Char → Bool} {c : Char} (h1 : c ≠ '.') (h2 : c ≠ '[') (r : List Char) (pos : Nat) (caps : Caps) :
    tailStep inBr ⟨c :: r, pos, caps⟩ = none := by
  simp only [tailStep]
  split
  · rename_i heq; simp only [List.cons.injEq] at heq; exact absurd heq.1 h1
  · rename_i heq; simp only [List.cons.injEq] at heq; exact absurd heq.1 h2
  · rfl

/-- the tail of a name, followed by something that cannot start with a word character, `.` or `[` -/
theorem bt_tail {β : Type} (br : List ClsItem) (inBr : Char → Bool) (hbr : ∀ c, clsTest liveDB true br c = inBr c)
    (hnot : ∀ c, inBr c = true → c ≠ ']') (st : St) (K : St → Option β) (hw : FailsOn isWord K)
    (hdot : FailsOn (fun c => c == '.' || c == '[') K) :
    bt liveDB (reTail br) st K = K (iter (tailStep inBr) st.rest.length st) := by
  simp only [reTail, bt_star]
  apply starLoop_det isWord _ (tailStep inBr) K
  · intro st k hk; exact bt_tail_body br inBr hbr hnot st k hk
  · intro c r pos caps k hc
    have h1 : (c == Char.ofNat 46) = false := by
      have e : Char.ofNat 46 = '.' := rfl
      rw [e]; simpa using word_ne_dot hc
    have h2 : (c == Char.ofNat 91) = false := by
      have e : Char.ofNat 91 = '[' := rfl
      rw [e]; simpa using word_ne_lbracket hc
    simp [bt_alt, reAttr, reIndex, bt_seq, bt_cls_cons, cls_char 46 (by decide), cls_char 91 (by decide), h1, h2]
  · exact tailStep_progress inBr
  · exact hw
  · left
    intro st hs
    obtain ⟨c, r, hr, hc⟩ := tailStep_some_head hs
    obtain ⟨rest, pos, caps⟩ := st
    simp only at hr
    subst hr
    exact hdot c r pos caps hc
  · exact Nat.le_refl _

theorem iter_tailStep (inBr : Char → Bool) : ∀ (fuel : Nat) (cs : List Char) (pos : Nat) (caps : Caps),
    iter (tailStep inBr) fuel ⟨cs, pos, caps⟩ =
      ⟨(scanNameTail inBr fuel cs).2, pos + (scanNameTail inBr fuel cs).1.length, caps⟩ := by
  intro fuel
  induction fuel with
  | zero => intro cs pos caps; simp [iter, scanNameTail]
  | succ fuel ih =>
    intro cs pos caps
    cases cs with
    | nil => simp [iter, tailStep, scanNameTail]
    | cons c r =>
      by_cases h1 : c = '.'
      · subst h1
        simp only [iter, tailStep, scanNameTail]
        cases hid : scanIdent r with
        | none => simp
        | some p =>
          obtain ⟨id, r'⟩ := p
          simp only [ih]
          cases hrec : scanNameTail inBr fuel r' with
          | mk t r'' => simp; omega
      · by_cases h2 : c = '['
        · subst h2
          simp only [iter, tailStep, scanNameTail]
          cases hidx : scanIndex inBr r with
          | none => simp
          | some p =>
            obtain ⟨x, r'⟩ := p
            simp only [ih]
            cases hrec : scanNameTail inBr fuel r' with
            | mk t r'' => simp; omega
        · have hs := tailStep_none_of (inBr := inBr) h1 h2 r pos caps
          have hn : scanNameTail inBr (fuel + 1) (c :: r) = ([], c :: r) := by
            simp only [scanNameTail]
            split
            · rename_i heq; simp only [List.cons.injEq] at heq; exact absurd heq.1 h1
            · rename_i heq; simp only [List.cons.injEq] at heq; exact absurd heq.1 h2
            · rfl
          simp [iter, hs, hn]

/-- NAME, followed by something that cannot start with a word character, a digit, `.` or `[` -/
theorem bt_name {β : Type} (br : List ClsItem) (inBr : Char → Bool) (hbr : ∀ c, clsTest liveDB true br c = inBr c)
    (hnot : ∀ c, inBr c = true → c ≠ ']') (st : St) (K : St → Option β) (hw : FailsOn isWord K) (hd : FailsOn isDigit K)
    (hdot : FailsOn (fun c => c == '.' || c == '[') K) :
    bt liveDB (reName br) st K =
      match scanName inBr st.rest with
      | some (nm, r) => K ⟨r, st.pos + nm.length, st.caps⟩
      | none => none := by
  have hk : (fun st' => bt liveDB (reTail br) st' K) = fun st' => K (iter (tailStep inBr) st'.rest.length st') :=
    funext fun st' => bt_tail br inBr hbr hnot st' K hw hdot
  simp only [reName, bt_seq, hk]
  rw [bt_head]
  · obtain ⟨rest, pos, caps⟩ := st
    simp only [scanName]
    cases hh : scanNameHead rest with
    | none => simp
    | some p =>
      obtain ⟨h, r⟩ := p
      simp only [iter_tailStep]
      cases hrec : scanNameTail inBr r.length r with
      | mk t r' => simp; congr 2; omega
  · intro c r pos caps hc
    simp only [List.length_cons, iter, tailStep_none_of (word_ne_dot hc) (word_ne_lbracket hc)]
    exact hw c r pos caps hc
  · intro c r pos caps hc
    simp only [List.length_cons, iter, tailStep_none_of (digit_ne_dot hc) (digit_ne_lbracket hc)]
    exact hd c r pos caps hc

/-! ### a nested field -/

theorem failsOn_close {β : Type} (k : St → Option β) (p : Char → Bool) (hp : ∀ c, p c = true → c ≠ '}') :
    FailsOn p (fun st' => bt liveDB (.cls false [.lit 125]) st' k) := by
  intro c r pos caps hc
  have : (c == Char.ofNat 125) = false := by
    have e : Char.ofNat 125 = '}' := rfl
    rw [e]; simpa using hp c hc
  simp [bt_cls_cons, cls_char 125 (by decide), this]

theorem scanName_head_ne_close {inBr : Char → Bool} {r nm r' : List Char} (h : scanName inBr r = some (nm, r')) :
    ∃ c r0, r = c :: r0 ∧ c ≠ '}' ∧ c ≠ '!' ∧ c ≠ ':' := by
  simp only [scanName] at h
  split at h
  · cases h
  · rename_i hd r1 hh
    cases r with
    | nil => simp [scanNameHead] at hh
    | cons c r0 =>
      refine ⟨c, r0, rfl, ?_⟩
      simp only [scanNameHead] at hh
      split at hh
      · rename_i hc; exact ⟨digit_ne_close hc, digit_ne_bang hc, digit_ne_colon hc⟩
      · simp only [scanIdent] at hh
        split at hh
        · rename_i hc
          have := idStart_word hc
          exact ⟨word_ne_close this, word_ne_bang this, word_ne_colon this⟩
        · cases hh

theorem bt_close_cons {β : Type} (k : St → Option β) (c : Char) (r : List Char) (pos : Nat) (caps : Caps) :
    bt liveDB (.cls false [.lit 125]) ⟨c :: r, pos, caps⟩ k = if c = '}' then k ⟨r, pos + 1, caps⟩ else none := by
  have e : Char.ofNat 125 = '}' := rfl
  simp only [bt_cls_cons, cls_char 125 (by decide), e]
  by_cases h : c = '}' <;> simp [h]

/-- SIMPLE, for every continuation: the closing brace delimits -/
theorem bt_simple {β : Type} (st : St) (k : St → Option β) :
    bt liveDB reSimple st k =
      match scanSimple st.rest with
      | some (nm, r) => k ⟨r, st.pos + nm.length + 2, st.caps⟩
      | none => none := by
  obtain ⟨rest, pos, caps⟩ := st
  cases rest with
  | nil => simp [reSimple, bt_seq, bt_cls_nil, scanSimple]
  | cons c r =>
    simp only [reSimple, bt_seq, bt_cls_cons, cls_char 123 (by decide)]
    by_cases hc : c = '{'
    · subst hc
      have : ('{' == Char.ofNat 123) = true := by decide
      simp only [this, if_true, bt_opt]
      rw [bt_name [.lit 93, .lit 123, .lit 125] nestedBr cls_nested_br (by
            intro c h; simp only [nestedBr, Bool.and_eq_true, decide_eq_true_eq] at h; exact h.1.1)]
      · simp only [scanSimple]
        cases hn : scanName nestedBr r with
        | none =>
          simp only
          cases r with
          | nil => simp [bt_cls_nil]
          | cons d r' =>
            rw [bt_close_cons]
            by_cases hd : d = '}'
            · subst hd; simp
            · simp only [hd, if_false]
              split
              · rename_i heq
                exfalso
                split at heq
                · rename_i h2; simp only [List.cons.injEq] at h2; exact hd h2.1
                · cases heq
              · rfl
        | some p =>
          obtain ⟨nm, r'⟩ := p
          obtain ⟨c0, r0, hr, hc0, _, _⟩ := scanName_head_ne_close hn
          subst hr
          have hfb : bt liveDB (.cls false [.lit 125]) ⟨c0 :: r0, pos + 1, caps⟩ k = none := by
            rw [bt_close_cons]; simp [hc0]
          simp only [hfb]
          cases r' with
          | nil => simp [bt_cls_nil]
          | cons d r'' =>
            rw [bt_close_cons]
            by_cases hd : d = '}'
            · subst hd
              simp only [if_true]
              have e : pos + 1 + nm.length + 1 = pos + nm.length + 2 := by omega
              rw [e]
              cases k ⟨r'', pos + nm.length + 2, caps⟩ <;> rfl
            · simp only [hd, if_false]
              split
              · rename_i heq
                exfalso
                split at heq
                · rename_i h2
                  simp only [Option.some.injEq, Prod.mk.injEq, List.cons.injEq] at h2
                  exact hd h2.2.1
                · cases heq
                · rename_i h2; cases h2
              · rfl
      · exact failsOn_close k isWord (fun c h => word_ne_close h)
      · exact failsOn_close k isDigit (fun c h => digit_ne_close h)
      · exact failsOn_close k (fun c => c == '.' || c == '[') (by
          intro c h
          simp only [Bool.or_eq_true, beq_iff_eq] at h
          rcases h with rfl | rfl <;> decide)
    · have : (c == Char.ofNat 123) = false := by
        have e : Char.ofNat 123 = '{' := rfl
        rw [e]; simpa using hc
      simp only [this, Bool.false_eq_true, if_false]
      have hs : scanSimple (c :: r) = none := by
        unfold scanSimple
        split
        · rename_i heq; simp only [List.cons.injEq] at heq; exact absurd heq.1 hc
        · rfl
      simp [hs]

/-! ### the body of a format specification -/

/-- `[^{}]` or SIMPLE at the start, as a step on matcher states -/
def fmtStep (st : St) : Option St :=
  match st.rest with
  | [] => none
  | '{' :: r =>
    match scanSimple ('{' :: r) with
    | some (nm, r') => some ⟨r', st.pos + nm.length + 2, st.caps⟩
    | none => none
  | '}' :: _ => none
  | _ :: r => some ⟨r, st.pos + 1, st.caps⟩

theorem bt_fmt_body {β : Type} (st : St) (k : St → Option β) :
    bt liveDB (.alt (.cls true [.lit 123, .lit 125]) reSimple) st k = (fmtStep st).bind k := by
  obtain ⟨rest, pos, caps⟩ := st
  simp only [bt_alt, bt_simple]
  cases rest with
  | nil => simp [bt_cls_nil, scanSimple, fmtStep]
  | cons c r =>
    simp only [bt_cls_cons, cls_nonbrace]
    by_cases h1 : c = '{'
    · subst h1
      simp only [fmtStep]
      cases hs : scanSimple ('{' :: r) with
      | none => simp
      | some p => obtain ⟨nm, r'⟩ := p; simp
    · by_cases h2 : c = '}'
      · subst h2
        have hs : scanSimple ('}' :: r) = none := by simp [scanSimple]
        simp [fmtStep, hs]
      · have hnb : (c != '{' && c != '}') = true := by simp [h1, h2]
        have hs : scanSimple (c :: r) = none := by
          unfold scanSimple
          split
          · rename_i heq; simp only [List.cons.injEq] at heq; exact absurd heq.1 h1
          · rfl
        have hf : fmtStep ⟨c :: r, pos, caps⟩ = some ⟨r, pos + 1, caps⟩ := by
          simp only [fmtStep]
        simp only [hnb, if_true, hs, hf, Option.bind_some]
        cases k ⟨r, pos + 1, caps⟩ <;> rfl

theorem fmtStep_progress (st st' : St) (h : fmtStep st = some st') : st'.rest.length < st.rest.length := by
  obtain ⟨rest, pos, caps⟩ := st
  simp only [fmtStep] at h
  split at h
  · cases h
  · rename_i r
    split at h
    · rename_i nm r' hs
      cases h
      have := (scanSimple_some hs).1
      simp only at *
      rw [this]; simp; omega
    · cases h
  · cases h
  · cases h; simp

theorem fmtStep_some_head {st : St} (h : (fmtStep st).isSome = true) : ∃ c r, st.rest = c :: r ∧ c ≠ '}' := by
  obtain ⟨rest, pos, caps⟩ := st
  simp only [fmtStep] at h
  split at h
  · simp at h
  · rename_i r; exact ⟨'{', r, rfl, by decide⟩
  · simp at h
  · rename_i c r h1 h2
    refine ⟨c, r, rfl, ?_⟩
    rintro rfl
    exact h2 rfl

theorem iter_fmtStep : ∀ (fuel : Nat) (cs : List Char) (pos : Nat) (caps : Caps),
    iter fmtStep fuel ⟨cs, pos, caps⟩ =
      ⟨(scanFormatBody fuel cs).2.2, pos + (scanFormatBody fuel cs).1.length, caps⟩ := by
  intro fuel
  induction fuel with
  | zero => intro cs pos caps; simp [iter, scanFormatBody]
  | succ fuel ih =>
    intro cs pos caps
    cases cs with
    | nil => simp [iter, fmtStep, scanFormatBody]
    | cons c r =>
      by_cases h1 : c = '{'
      · subst h1
        simp only [iter, fmtStep, scanFormatBody]
        cases hs : scanSimple ('{' :: r) with
        | none => simp
        | some p =>
          obtain ⟨nm, r'⟩ := p
          simp only [ih]
          cases hrec : scanFormatBody fuel r' with
          | mk t x => obtain ⟨ns, r''⟩ := x; simp; omega
      · by_cases h2 : c = '}'
        · subst h2; simp [iter, fmtStep, scanFormatBody]
        · have hf : fmtStep ⟨c :: r, pos, caps⟩ = some ⟨r, pos + 1, caps⟩ := by
            simp only [fmtStep]
          have hb : scanFormatBody (fuel + 1) (c :: r) =
              (c :: (scanFormatBody fuel r).1, (scanFormatBody fuel r).2.1, (scanFormatBody fuel r).2.2) := by
            simp only [scanFormatBody]
          simp only [iter, hf, ih, hb, List.length_cons]
          congr 1; omega

/-- `: (?: [^{}] | SIMPLE )*`, followed by something that can only start with `}` -/
theorem bt_fmt {β : Type} (st : St) (K : St → Option β) (hK : ∀ st, K st ≠ none → ∃ r, st.rest = '}' :: r) :
    bt liveDB reFmt st K =
      match st.rest with
      | ':' :: r => K (iter fmtStep r.length ⟨r, st.pos + 1, st.caps⟩)
      | _ => none := by
  obtain ⟨rest, pos, caps⟩ := st
  cases rest with
  | nil => simp [reFmt, bt_seq, bt_cls_nil]
  | cons c r =>
    simp only [reFmt, bt_seq, bt_cls_cons, cls_char 58 (by decide), bt_star]
    by_cases hc : c = ':'
    · subst hc
      have : (':' == Char.ofNat 58) = true := by decide
      simp only [this, if_true]
      apply starLoop_det (fun _ => false) _ fmtStep K
      · intro st k _; exact bt_fmt_body st k
      · intro c r pos caps k h; cases h
      · exact fmtStep_progress
      · intro c r pos caps h; cases h
      · left
        intro st hs
        obtain ⟨c, r, hr, hc⟩ := fmtStep_some_head hs
        cases hk : K st with
        | none => rfl
        | some x =>
          obtain ⟨r', hr'⟩ := hK st (by rw [hk]; simp)
          rw [hr] at hr'
          simp only [List.cons.injEq] at hr'
          exact absurd hr'.1 hc
      · exact Nat.le_refl _
    · have : (c == Char.ofNat 58) = false := by
        have e : Char.ofNat 58 = ':' := rfl
        rw [e]; simpa using hc
      simp only [this, Bool.false_eq_true, if_false]
      split
      · rename_i heq; simp only [List.cons.injEq] at heq; exact absurd heq.1 hc
      · rfl

/-! ### the conversion -/

/-- `! \w+`, followed by something that cannot start with a word character -/
theorem bt_conv {β : Type} (st : St) (K : St → Option β) (hw : FailsOn isWord K) :
    bt liveDB reConv st K =
      match st.rest with
      | '!' :: r =>
        (match r.takeWhile isWord with
         | [] => none
         | w => K ⟨r.dropWhile isWord, st.pos + 1 + w.length, st.caps⟩)
      | _ => none := by
  obtain ⟨rest, pos, caps⟩ := st
  cases rest with
  | nil => simp [reConv, bt_seq, bt_cls_nil]
  | cons c r =>
    simp only [reConv, bt_seq, bt_cls_cons, cls_char 33 (by decide), bt_plus]
    by_cases hc : c = '!'
    · subst hc
      have : ('!' == Char.ofNat 33) = true := by decide
      simp only [this, if_true]
      cases r with
      | nil => simp [bt_cls_nil]
      | cons d r' =>
        by_cases hd : isWord d = true
        · have hcd : clsTest liveDB false [.word] d = true := by rw [cls_word]; exact hd
          simp only [bt_cls_cons, hcd, if_true]
          rw [starLoop_cls liveDB false [.word] K (Or.inl ?H) _ _ _ _ (Nat.le_refl _)]
          case H =>
            intro c0 r0 p0 cp0 h0
            rw [cls_word] at h0
            exact hw c0 r0 p0 cp0 h0
          have hf : clsTest liveDB false [.word] = isWord := funext cls_word
          simp only [hf, List.takeWhile_cons, List.dropWhile_cons, hd, if_true, List.length_cons]
          congr 2; omega
        · have hcd : clsTest liveDB false [.word] d = false := by rw [cls_word]; simpa using hd
          have hd' : isWord d = false := by simpa using hd
          simp [bt_cls_cons, hcd, List.takeWhile_cons, hd']
    · have : (c == Char.ofNat 33) = false := by
        have e : Char.ofNat 33 = '!' := rfl
        rw [e]; simpa using hc
      simp only [this, Bool.false_eq_true, if_false]
      split
      · rename_i heq; simp only [List.cons.injEq] at heq; exact absurd heq.1 hc
      · rfl

/-! ### the replacement field: the stages after the opening brace, backwards -/

section chain
variable {β : Type} (kf : St → Option β)

/-- `}` and the end of the pattern -/
def K5 (st : St) : Option β :=
  match st.rest with
  | '}' :: r => kf ⟨r, st.pos + 1, st.caps⟩
  | _ => none

/-- format (group 4), … -/
def K4 (st : St) : Option β :=
  match scanFmt st.rest with
  | (some fm, _, r) => K5 kf ⟨r, st.pos + fm.length, (4, st.pos, st.pos + fm.length) :: st.caps⟩
  | (none, _, _) => K5 kf st

/-- conversion (group 3), … -/
def K3 (st : St) : Option β :=
  match scanConv st.rest with
  | (some cv, r) => K4 kf ⟨r, st.pos + cv.length, (3, st.pos, st.pos + cv.length) :: st.caps⟩
  | (none, _) => K4 kf st

/-- name (group 2), … -/
def K2 (st : St) : Option β :=
  match scanNameOpt topBr st.rest with
  | (some nm, r) => K3 kf ⟨r, st.pos + nm.length, (2, st.pos, st.pos + nm.length) :: st.caps⟩
  | (none, _) => K3 kf st

theorem bt_K5 (st : St) : bt liveDB (.cls false [.lit 125]) st kf = K5 kf st := by
  obtain ⟨rest, pos, caps⟩ := st
  cases rest with
  | nil => simp [bt_cls_nil, K5]
  | cons c r =>
    rw [bt_close_cons]
    by_cases hc : c = '}'
    · subst hc; simp [K5]
    · simp only [hc, if_false, K5]
      split
      · rename_i heq; simp only [List.cons.injEq] at heq; exact absurd heq.1 hc
      · rfl

theorem K5_head {st : St} (h : K5 kf st ≠ none) : ∃ r, st.rest = '}' :: r := by
  obtain ⟨rest, pos, caps⟩ := st
  simp only [K5] at h
  split at h
  · rename_i r; exact ⟨r, rfl⟩
  · exact absurd rfl h

theorem K5_other {c : Char} (hc : c ≠ '}') (r : List Char) (pos : Nat) (caps : Caps) : K5 kf ⟨c :: r, pos, caps⟩ = none := by
  simp only [K5]
  split
  · rename_i heq; simp only [List.cons.injEq] at heq; exact absurd heq.1 hc
  · rfl

theorem scanFmt_other {c : Char} (hc : c ≠ ':') (r : List Char) : scanFmt (c :: r) = (none, [], c :: r) := by
  simp only [scanFmt]
  split
  · rename_i heq; simp only [List.cons.injEq] at heq; exact absurd heq.1 hc
  · rfl

theorem scanConv_other {c : Char} (hc : c ≠ '!') (r : List Char) : scanConv (c :: r) = (none, c :: r) := by
  simp only [scanConv]
  split
  · rename_i heq; simp only [List.cons.injEq] at heq; exact absurd heq.1 hc
  · rfl

theorem K4_other {c : Char} (h1 : c ≠ ':') (h2 : c ≠ '}') (r : List Char) (pos : Nat) (caps : Caps) :
    K4 kf ⟨c :: r, pos, caps⟩ = none := by
  simp [K4, scanFmt_other h1, K5_other kf h2]

theorem K3_other {c : Char} (h0 : c ≠ '!') (h1 : c ≠ ':') (h2 : c ≠ '}') (r : List Char) (pos : Nat) (caps : Caps) :
    K3 kf ⟨c :: r, pos, caps⟩ = none := by
  simp [K3, scanConv_other h0, K4_other kf h1 h2]

theorem bt_K4 (st : St) :
    bt liveDB (.seq (.opt (.group 4 reFmt)) (.cls false [.lit 125])) st kf = K4 kf st := by
  have hk : (fun st' => bt liveDB (.cls false [.lit 125]) st' kf) = K5 kf := funext (bt_K5 kf)
  obtain ⟨rest, pos, caps⟩ := st
  simp only [bt_seq, bt_opt, bt_group, hk]
  rw [bt_fmt]
  · cases rest with
    | nil => simp [K4, scanFmt]
    | cons c r =>
      by_cases hc : c = ':'
      · subst hc
        simp only [iter_fmtStep, K4, scanFmt]
        cases hrec : scanFormatBody r.length r with
        | mk t x =>
          obtain ⟨ns, r'⟩ := x
          simp only [List.length_cons]
          have e : pos + 1 + t.length = pos + (t.length + 1) := by omega
          rw [e]
          cases hK : K5 kf ⟨r', pos + (t.length + 1), (4, pos, pos + (t.length + 1)) :: caps⟩ with
          | some x => rfl
          | none => simp [K5_other kf (show (':' : Char) ≠ '}' by decide)]
      · have e1 : ∀ (γ : Type) (f : List Char → γ) (d : γ), (match (c :: r : List Char) with
            | ':' :: r => f r
            | _ => d) = d := by
          intro γ f d
          split
          · rename_i heq; simp only [List.cons.injEq] at heq; exact absurd heq.1 hc
          · rfl
        simp [e1, K4, scanFmt_other hc]
  · intro st' h
    exact K5_head kf (st := ⟨st'.rest, st'.pos, (4, pos, st'.pos) :: st'.caps⟩) h

theorem bt_K3 (st : St) :
    bt liveDB (.seq (.opt (.group 3 reConv)) (.seq (.opt (.group 4 reFmt)) (.cls false [.lit 125]))) st kf = K3 kf st := by
  have hk : (fun st' => bt liveDB (.seq (.opt (.group 4 reFmt)) (.cls false [.lit 125])) st' kf) = K4 kf := funext (bt_K4 kf)
  obtain ⟨rest, pos, caps⟩ := st
  rw [bt_seq, bt_opt, bt_group]
  simp only [bt_K4 kf]
  rw [bt_conv]
  · cases rest with
    | nil => simp [K3, scanConv]
    | cons c r =>
      by_cases hc : c = '!'
      · subst hc
        simp only [K3, scanConv]
        cases htw : List.takeWhile isWord r with
        | nil => simp [K4_other kf (show ('!' : Char) ≠ ':' by decide) (by decide)]
        | cons w ws =>
          simp only [List.length_cons]
          have e : pos + 1 + (ws.length + 1) = pos + (ws.length + 1 + 1) := by omega
          rw [e]
          cases hK : K4 kf ⟨List.dropWhile isWord r, pos + (ws.length + 1 + 1), (3, pos, pos + (ws.length + 1 + 1)) :: caps⟩ with
          | some x => rfl
          | none => simp [K4_other kf (show ('!' : Char) ≠ ':' by decide) (by decide)]
      · have e1 : ∀ (γ : Type) (f : List Char → γ) (d : γ), (match (c :: r : List Char) with
            | '!' :: r => f r
            | _ => d) = d := by
          intro γ f d
          split
          · rename_i heq; simp only [List.cons.injEq] at heq; exact absurd heq.1 hc
          · rfl
        simp [e1, K3, scanConv_other hc]
  · intro c r p cp hc
    exact K4_other kf (word_ne_colon hc) (word_ne_close hc) r _ _

theorem bt_K2 (st : St) :
    bt liveDB (.seq (.opt (.group 2 (reName [.lit 93]))) (.seq (.opt (.group 3 reConv))
      (.seq (.opt (.group 4 reFmt)) (.cls false [.lit 125])))) st kf = K2 kf st := by
  have hk : (fun st' => bt liveDB (.seq (.opt (.group 3 reConv)) (.seq (.opt (.group 4 reFmt)) (.cls false [.lit 125]))) st' kf)
      = K3 kf := funext (bt_K3 kf)
  obtain ⟨rest, pos, caps⟩ := st
  rw [bt_seq, bt_opt, bt_group]
  simp only [bt_K3 kf]
  rw [bt_name [.lit 93] topBr cls_top_br (by intro c h; simpa [topBr] using h)]
  · simp only [K2, scanNameOpt]
    cases hn : scanName topBr rest with
    | none => simp
    | some p =>
      obtain ⟨nm, r⟩ := p
      obtain ⟨c0, r0, hr, h1, h2, h3⟩ := scanName_head_ne_close hn
      subst hr
      simp only
      cases hK : K3 kf ⟨r, pos + nm.length, (2, pos, pos + nm.length) :: caps⟩ with
      | some x => rfl
      | none => simp [K3_other kf h2 h3 h1]
  · intro c r p cp hc
    exact K3_other kf (word_ne_bang hc) (word_ne_colon hc) (word_ne_close hc) r _ _
  · intro c r p cp hc
    exact K3_other kf (digit_ne_bang hc) (digit_ne_colon hc) (digit_ne_close hc) r _ _
  · intro c r p cp hc
    simp only [Bool.or_eq_true, beq_iff_eq] at hc
    rcases hc with rfl | rfl <;> exact K3_other kf (by decide) (by decide) (by decide) r _ _

/-- the replacement-field alternative of `_field_re` -/
theorem bt_field (st : St) :
    bt liveDB reField st kf =
      match st.rest with
      | '{' :: r => K2 kf ⟨r, st.pos + 1, st.caps⟩
      | _ => none := by
  obtain ⟨rest, pos, caps⟩ := st
  have hk := funext (bt_K2 kf)
  cases rest with
  | nil => simp [reField, bt_seq, bt_cls_nil]
  | cons c r =>
    rw [reField, bt_seq, bt_cls_cons, cls_char 123 (by decide)]
    by_cases hc : c = '{'
    · subst hc
      have : ('{' == Char.ofNat 123) = true := by decide
      simp only [this, if_true]
      exact bt_K2 kf _
    · have : (c == Char.ofNat 123) = false := by
        have e : Char.ofNat 123 = '{' := rfl
        rw [e]; simpa using hc
      simp only [this, Bool.false_eq_true, if_false]
      split
      · rename_i heq; simp only [List.cons.injEq] at heq; exact absurd heq.1 hc
      · rfl

end chain

/-! ### literal text -/

/-- `[^{}]`, `{{` or `}}` at the start, as a step on matcher states -/
def litStep (st : St) : Option St :=
  match st.rest with
  | [] => none
  | '{' :: '{' :: r => some ⟨r, st.pos + 2, st.caps⟩
  | '}' :: '}' :: r => some ⟨r, st.pos + 2, st.caps⟩
  | '{' :: _ => none
  | '}' :: _ => none
  | _ :: r => some ⟨r, st.pos + 1, st.caps⟩

theorem bt_open_cons {β : Type} (k : St → Option β) (c : Char) (r : List Char) (pos : Nat) (caps : Caps) :
    bt liveDB (.cls false [.lit 123]) ⟨c :: r, pos, caps⟩ k = if c = '{' then k ⟨r, pos + 1, caps⟩ else none := by
  have e : Char.ofNat 123 = '{' := rfl
  simp only [bt_cls_cons, cls_char 123 (by decide), e]
  by_cases h : c = '{' <;> simp [h]

theorem bt_nonbrace_cons {β : Type} (k : St → Option β) (c : Char) (r : List Char) (pos : Nat) (caps : Caps) :
    bt liveDB (.cls true [.lit 123, .lit 125]) ⟨c :: r, pos, caps⟩ k = if c ≠ '{' ∧ c ≠ '}' then k ⟨r, pos + 1, caps⟩ else none := by
  simp only [bt_cls_cons, cls_nonbrace]
  by_cases h1 : c = '{' <;> by_cases h2 : c = '}' <;> simp [h1, h2]

theorem litStep_open_other {d : Char} (hd : d ≠ '{') (r : List Char) (pos : Nat) (caps : Caps) :
    litStep ⟨'{' :: d :: r, pos, caps⟩ = none := by
  simp only [litStep]
  split <;> first | rfl | (simp_all; done) | (simp_all; cases ‹_ ∧ _› with | intro h _ => subst h; simp_all)

theorem litStep_close_other {d : Char} (hd : d ≠ '}') (r : List Char) (pos : Nat) (caps : Caps) :
    litStep ⟨'}' :: d :: r, pos, caps⟩ = none := by
  simp only [litStep]
  split <;> first | rfl | (simp_all; done) | (simp_all; cases ‹_ ∧ _› with | intro h _ => subst h; simp_all)

theorem litStep_other {c : Char} (h1 : c ≠ '{') (h2 : c ≠ '}') (r : List Char) (pos : Nat) (caps : Caps) :
    litStep ⟨c :: r, pos, caps⟩ = some ⟨r, pos + 1, caps⟩ := by
  simp only [litStep]
  split <;> first | rfl | simp_all

theorem bt_lit {β : Type} (st : St) (k : St → Option β) : bt liveDB reLit st k = (litStep st).bind k := by
  obtain ⟨rest, pos, caps⟩ := st
  simp only [reLit, bt_alt, bt_seq]
  cases rest with
  | nil => simp [bt_cls_nil, litStep]
  | cons c r =>
    simp only [bt_nonbrace_cons, bt_open_cons, bt_close_cons]
    by_cases h1 : c = '{'
    · subst h1
      cases r with
      | nil => simp [bt_cls_nil, litStep]
      | cons d r' =>
        simp only [bt_open_cons, bt_close_cons]
        by_cases hd : d = '{'
        · subst hd
          have e : pos + 1 + 1 = pos + 2 := by omega
          simp only [litStep, if_true, e, Option.bind_some]
          cases k ⟨r', pos + 2, caps⟩ <;> simp
        · simp [hd, litStep_open_other hd]
    · by_cases h2 : c = '}'
      · subst h2
        cases r with
        | nil => simp [bt_cls_nil, litStep]
        | cons d r' =>
          simp only [bt_open_cons, bt_close_cons]
          by_cases hd : d = '}'
          · subst hd
            have e : pos + 1 + 1 = pos + 2 := by omega
            simp only [litStep, if_true, e, Option.bind_some]
            cases k ⟨r', pos + 2, caps⟩ <;> simp
          · simp [hd, litStep_close_other hd]
      · have hc : (¬c = '{' ∧ ¬c = '}') := ⟨h1, h2⟩
        simp only [h1, h2, litStep_other h1 h2, Option.bind_some, hc, if_true, if_false]
        cases k ⟨r, pos + 1, caps⟩ <;> simp [hc]

theorem litStep_progress (st st' : St) (h : litStep st = some st') : st'.rest.length < st.rest.length := by
  obtain ⟨rest, pos, caps⟩ := st
  simp only [litStep] at h
  split at h <;> first | (cases h; done) | (cases h; simp only [List.length_cons]; omega)

theorem iter_stable (step : St → Option St) (hprog : ∀ st st', step st = some st' → st'.rest.length < st.rest.length) :
    ∀ (n m : Nat) (st : St), st.rest.length ≤ n → iter step (n + m) st = iter step n st := by
  intro n
  induction n with
  | zero =>
    intro m st h
    have hs : step st = none := by
      cases hs : step st with
      | none => rfl
      | some st' => have := hprog st st' hs; omega
    cases m with
    | zero => rfl
    | succ m => simp [iter, hs]
  | succ n ih =>
    intro m st h
    have e : n + 1 + m = (n + m) + 1 := by omega
    rw [e]
    simp only [iter]
    cases hs : step st with
    | none => rfl
    | some st' =>
      have := hprog st st' hs
      exact ih m st' (by omega)

theorem iter_litStep : ∀ (fuel : Nat) (cs : List Char) (pos : Nat) (caps : Caps),
    iter litStep fuel ⟨cs, pos, caps⟩ = ⟨(scanLiteral fuel cs).2, pos + (scanLiteral fuel cs).1.length, caps⟩ := by
  intro fuel
  induction fuel with
  | zero => intro cs pos caps; simp [iter, scanLiteral]
  | succ fuel ih =>
    intro cs pos caps
    cases cs with
    | nil => simp [iter, litStep, scanLiteral]
    | cons c r =>
      by_cases h1 : c = '{'
      · subst h1
        cases r with
        | nil => simp [iter, litStep, scanLiteral]
        | cons d r' =>
          by_cases hd : d = '{'
          · subst hd
            simp only [iter, litStep, scanLiteral, ih]
            cases scanLiteral fuel r' with
            | mk t r'' => simp; omega
          · have hl := litStep_open_other hd r' pos caps
            have hs : scanLiteral (fuel + 1) ('{' :: d :: r') = ([], '{' :: d :: r') := by
              simp only [scanLiteral]
              split <;> first | rfl | (simp_all; done) | (simp_all; cases ‹_ ∧ _› with | intro h _ => subst h; simp_all)
            simp [iter, hl, hs]
      · by_cases h2 : c = '}'
        · subst h2
          cases r with
          | nil => simp [iter, litStep, scanLiteral]
          | cons d r' =>
            by_cases hd : d = '}'
            · subst hd
              simp only [iter, litStep, scanLiteral, ih]
              cases scanLiteral fuel r' with
              | mk t r'' => simp; omega
            · have hl := litStep_close_other hd r' pos caps
              have hs : scanLiteral (fuel + 1) ('}' :: d :: r') = ([], '}' :: d :: r') := by
                simp only [scanLiteral]
                split <;> first | rfl | (simp_all; done) | (simp_all; cases ‹_ ∧ _› with | intro h _ => subst h; simp_all)
              simp [iter, hl, hs]
        · have hl := litStep_other h1 h2 r pos caps
          have hs : scanLiteral (fuel + 1) (c :: r) = (c :: (scanLiteral fuel r).1, (scanLiteral fuel r).2) := by
            simp only [scanLiteral]
            split <;> first | rfl | (simp_all; done) | (simp_all; cases ‹_ ∧ _› with | intro h h' => subst h; subst h'; rfl)
          simp only [iter, hl, ih, hs, List.length_cons]
          congr 1; omega

/-! ### `_field_re` -/

/-- the captures of a scanned replacement field that starts at `pos` (most recent first: format, conversion, name) -/
def fieldCaps (pos : Nat) (f : RawField) : Caps :=
  let n := (f.name.getD []).length
  let c := (f.conversion.getD []).length
  let m := (f.format.getD []).length
  (if f.format.isSome then [(4, pos + 1 + n + c, pos + 1 + n + c + m)] else []) ++
  (if f.conversion.isSome then [(3, pos + 1 + n, pos + 1 + n + c)] else []) ++
  (if f.name.isSome then [(2, pos + 1, pos + 1 + n)] else [])

theorem scanNameOpt_none {inBr : Char → Bool} {cs r : List Char} (h : scanNameOpt inBr cs = (none, r)) : r = cs := by
  simp only [scanNameOpt] at h
  split at h <;> simp at h
  exact h.symm

theorem scanConv_none {cs r : List Char} (h : scanConv cs = (none, r)) : r = cs := by
  simp only [scanConv] at h
  split at h
  · split at h <;> simp at h
    exact h.symm
  · simp at h; exact h.symm

theorem scanFmt_none {cs r : List Char} {ns : List (List Char)} (h : scanFmt cs = (none, ns, r)) : r = cs := by
  simp only [scanFmt] at h
  split at h
  · simp at h
  · simp at h; exact h.2.symm

/-- the chain after the opening brace is `scanField` -/
theorem K2_scanField (r0 : List Char) (pos : Nat) :
    K2 (some : St → Option St) ⟨r0, pos + 1, []⟩ =
      (scanField ('{' :: r0)).map (fun p => ⟨p.2, pos + p.1.text.length, fieldCaps pos p.1⟩) := by
  simp only [K2, K3, K4, scanField]
  cases hn : scanNameOpt topBr r0 with
  | mk name r1 =>
    cases hc : (scanConv r1) with
    | mk conv r2 =>
      cases hf : (scanFmt r2) with
      | mk fmt x =>
        obtain ⟨nested, r3⟩ := x
        cases name with
        | none =>
          have := scanNameOpt_none hn; subst this
          simp only [hc]
          cases conv with
          | none =>
            have := scanConv_none hc; subst this
            simp only [hf]
            cases fmt with
            | none =>
              have := scanFmt_none hf; subst this
              simp only [K5]
              split <;> simp_all [fieldCaps]
            | some fm =>
              simp only [K5]
              split <;> simp_all [fieldCaps] <;> omega
          | some cv =>
            simp only [hf]
            cases fmt with
            | none =>
              have := scanFmt_none hf; subst this
              simp only [K5]
              split <;> simp_all [fieldCaps] <;> omega
            | some fm =>
              simp only [K5]
              split <;> simp_all [fieldCaps] <;> omega
        | some nm =>
          simp only [hc]
          cases conv with
          | none =>
            have := scanConv_none hc; subst this
            simp only [hf]
            cases fmt with
            | none =>
              have := scanFmt_none hf; subst this
              simp only [K5]
              split <;> simp_all [fieldCaps] <;> omega
            | some fm =>
              simp only [K5]
              split <;> simp_all [fieldCaps] <;> omega
          | some cv =>
            simp only [hf]
            cases fmt with
            | none =>
              have := scanFmt_none hf; subst this
              simp only [K5]
              split <;> simp_all [fieldCaps] <;> omega
            | some fm =>
              simp only [K5]
              split <;> simp_all [fieldCaps] <;> omega

theorem iter_rest_le (step : St → Option St) (hprog : ∀ st st', step st = some st' → st'.rest.length < st.rest.length) :
    ∀ (n : Nat) (st : St), (iter step n st).rest.length ≤ st.rest.length := by
  intro n
  induction n with
  | zero => intro st; simp [iter]
  | succ n ih =>
    intro st
    simp only [iter]
    cases hs : step st with
    | none => simp
    | some st' =>
      have := hprog st st' hs
      have := ih st'
      simp only; omega

/-- **`_field_re.match(s, pos)`**: the first match of the live parse tree under the backtracking semantics is what the
    model's scanner reads — a maximal run of literal text (group 1), else a replacement field with the spans of the groups
    `name`, `conversion`, `format` — for every string and position -/
theorem matchAt_fieldRe (cs : List Char) (pos : Nat) :
    matchAt liveDB I18n.Generated.PyBraceTables.fieldRe cs pos =
      match scanLiteral cs.length cs with
      | (t :: ts, rest) => some ⟨rest, pos + (t :: ts).length, [(1, pos, pos + (t :: ts).length)]⟩
      | ([], _) => (scanField cs).map (fun p => ⟨p.2, pos + p.1.text.length, fieldCaps pos p.1⟩) := by
  rw [fieldRe_pin.1, pinned_field_split]
  simp only [matchAt, bt_alt, bt_group, bt_plus, bt_lit, bt_field]
  have hloop : ∀ st' : St, starLoop (bt liveDB reLit) st'.rest.length st'
      (fun st'' => (some { st'' with caps := (1, pos, st''.pos) :: st''.caps } : Option St)) =
      some { (iter litStep st'.rest.length st') with caps := (1, pos, (iter litStep st'.rest.length st').pos) :: (iter litStep st'.rest.length st').caps } := by
    intro st'
    apply starLoop_det (fun _ => false) _ litStep _
    · intro st k _; exact bt_lit st k
    · intro c r p cp k h; cases h
    · exact litStep_progress
    · intro c r p cp h; cases h
    · right; intro st; simp
    · exact Nat.le_refl _
  simp only [hloop]
  cases cs with
  | nil => simp [litStep, scanLiteral, scanField]
  | cons c r =>
    have hit := iter_litStep (r.length + 1) (c :: r) pos []
    cases hl : litStep ⟨c :: r, pos, []⟩ with
    | none =>
      simp only [iter, hl] at hit
      have ht : (scanLiteral (r.length + 1) (c :: r)).1 = [] := by
        have := congrArg St.pos hit
        simp only at this
        exact List.length_eq_zero_iff.mp (by omega)
      simp only [Option.bind_none, List.length_cons]
      cases hsl : scanLiteral (r.length + 1) (c :: r) with
      | mk t rest =>
        rw [hsl] at ht
        simp only at ht
        subst ht
        simp only
        by_cases hc : c = '{'
        · subst hc; exact K2_scanField r pos
        · have hsf : scanField (c :: r) = none := by
            unfold scanField
            split
            · rename_i heq; simp only [List.cons.injEq] at heq; exact absurd heq.1 hc
            · rfl
          rw [hsf]
          split
          · rename_i heq; simp only [List.cons.injEq] at heq; exact absurd heq.1 hc
          · rfl
    | some st' =>
      simp only [iter, hl] at hit
      have hp := litStep_progress _ _ hl
      simp only [List.length_cons] at hp
      have hst : iter litStep st'.rest.length st' = iter litStep r.length st' := by
        have := iter_stable litStep litStep_progress st'.rest.length (r.length - st'.rest.length) st' (Nat.le_refl _)
        rw [← this]; congr 1; omega
      simp only [Option.bind_some, hst, hit, List.length_cons]
      cases hsl : scanLiteral (r.length + 1) (c :: r) with
      | mk t rest =>
        cases t with
        | nil =>
          exfalso
          have hle := iter_rest_le litStep litStep_progress r.length st'
          rw [hit, hsl] at hle
          have hsplit := (scanLiteral_spec _ _ _ _ hsl).1
          simp only [List.nil_append] at hsplit
          simp only at hle
          rw [← hsplit] at hle
          simp only [List.length_cons] at hle
          omega
        | cons t0 ts => simp

/-- `_simple_field_re` is the pattern of a nested field, and its first match is `scanSimple` -/
theorem matchAt_simpleFieldRe (cs : List Char) (pos : Nat) :
    matchAt liveDB I18n.Generated.PyBraceTables.simpleFieldRe cs pos =
      (scanSimple cs).map (fun p => ⟨p.2, pos + p.1.length + 2, []⟩) := by
  rw [simpleFieldRe_pin.1, pinned_simple_split]
  simp only [matchAt, bt_simple]
  cases scanSimple cs with
  | none => rfl
  | some p => rfl

end I18n.PyBrace
