import I18n.Lemmas.PyBraceSpecRe
import I18n.Lemmas.PyBraceScan
/-
The python-brace scanner (`scanLiteral`, `scanField` and their parts) IS the first match of the live parse tree of
`pybrace._field_re` under the backtracking semantics.
-/
namespace I18n.Spec.BraceRe

/-- iterate a step while it applies -/
def iter (step : St → Option St) : Nat → St → St
  | 0, st => st
  | n + 1, st =>
    match step st with
    | some st' => iter step n st'
    | none => st

/-- the continuation fails whenever the unread text starts with a character of the class -/
def FailsOn {β : Type} (p : Char → Bool) (k : St → Option β) : Prop :=
  ∀ c r pos caps, p c = true → k ⟨c :: r, pos, caps⟩ = none

/-- greedy repetition of a body that, for continuations failing on `bad` starts, is a deterministic step: if the
    continuation of the loop cannot succeed where the body can step (or never fails), the loop runs the step to exhaustion -/
theorem starLoop_det {β : Type} (bad : Char → Bool) (body : St → (St → Option β) → Option β) (step : St → Option St)
    (K : St → Option β)
    (hb : ∀ st k, FailsOn bad k → body st k = (step st).bind k)
    (hbadbody : ∀ c r pos caps k, bad c = true → body ⟨c :: r, pos, caps⟩ k = none)
    (hprog : ∀ st st', step st = some st' → st'.rest.length < st.rest.length)
    (hK : FailsOn bad K)
    (hdisj : (∀ st, (step st).isSome = true → K st = none) ∨ (∀ st, K st ≠ none)) :
    ∀ (fuel : Nat) (st : St), st.rest.length ≤ fuel → starLoop body fuel st K = K (iter step fuel st) := by
  -- the loop itself fails on `bad` starts
  have hloop : ∀ n, FailsOn bad (fun st' => starLoop body n st' K) := by
    intro n c r pos caps hc
    cases n with
    | zero => simp only [starLoop]; exact hK c r pos caps hc
    | succ n => simp only [starLoop, hbadbody c r pos caps _ hc]; exact hK c r pos caps hc
  intro fuel
  induction fuel with
  | zero => intro st _; simp [starLoop, iter]
  | succ fuel ih =>
    intro st hlen
    have hk : FailsOn bad (fun st' => if st'.rest.length < st.rest.length then starLoop body fuel st' K else none) := by
      intro c r pos caps hc
      simp only
      split
      · exact hloop fuel c r pos caps hc
      · rfl
    simp only [starLoop, hb st _ hk, iter]
    cases hs : step st with
    | none => simp
    | some st' =>
      have hp := hprog st st' hs
      simp only [Option.bind_some, hp, if_true]
      rw [ih st' (by omega)]
      cases hr : K (iter step fuel st') with
      | some x => rfl
      | none =>
        simp only
        rcases hdisj with h | h
        · exact h st (by rw [hs]; rfl)
        · exact absurd hr (h _)

end I18n.Spec.BraceRe

namespace I18n.PyBrace
open I18n.BraceChars I18n.Spec.BraceRe
open I18n.PerlBrace (cls_idstart cls_word cls_is)

/-! ### the parts of `_field_re` -/

def reIdent : Re := .seq (.cls true [.notWord, .digit]) (.star (.cls false [.word]))
def reHead : Re := .alt (.plus (.cls false [.digit])) reIdent
def reAttr : Re := .seq (.cls false [.lit 46]) reIdent
def reIndex (br : List ClsItem) : Re := .seq (.cls false [.lit 91]) (.seq (.plus (.cls true br)) (.cls false [.lit 93]))
def reTail (br : List ClsItem) : Re := .star (.alt reAttr (reIndex br))
def reName (br : List ClsItem) : Re := .seq reHead (reTail br)
def reSimple : Re :=
  .seq (.cls false [.lit 123]) (.seq (.opt (reName [.lit 93, .lit 123, .lit 125])) (.cls false [.lit 125]))
def reFmt : Re := .seq (.cls false [.lit 58]) (.star (.alt (.cls true [.lit 123, .lit 125]) reSimple))
def reConv : Re := .seq (.cls false [.lit 33]) (.plus (.cls false [.word]))
def reLit : Re :=
  .alt (.cls true [.lit 123, .lit 125])
    (.alt (.seq (.cls false [.lit 123]) (.cls false [.lit 123])) (.seq (.cls false [.lit 125]) (.cls false [.lit 125])))
def reField : Re :=
  .seq (.cls false [.lit 123]) (.seq (.opt (.group 2 (reName [.lit 93]))) (.seq (.opt (.group 3 reConv))
    (.seq (.opt (.group 4 reFmt)) (.cls false [.lit 125]))))

theorem pinned_field_split : pinnedFieldRe = .alt (.group 1 (.plus reLit)) reField := rfl
theorem pinned_simple_split : pinnedSimpleFieldRe = reSimple := rfl

/-! ### classes -/

theorem cls_top_br (c : Char) : clsTest liveDB true [.lit 93] c = topBr c := by
  simp only [clsTest, ClsItem.test, List.any_cons, List.any_nil, Bool.or_false, toNat_ne (k := 93) (by decide), topBr]
  have : Char.ofNat 93 = ']' := rfl
  rw [this]
  cases h : (c == ']') <;> simp_all

theorem cls_nested_br (c : Char) : clsTest liveDB true [.lit 93, .lit 123, .lit 125] c = nestedBr c := by
  simp only [clsTest, ClsItem.test, List.any_cons, List.any_nil, Bool.or_false, toNat_ne (k := 93) (by decide),
    toNat_ne (k := 123) (by decide), toNat_ne (k := 125) (by decide), nestedBr]
  have e1 : Char.ofNat 93 = ']' := rfl
  have e2 : Char.ofNat 123 = '{' := rfl
  have e3 : Char.ofNat 125 = '}' := rfl
  rw [e1, e2, e3]
  cases h1 : (c == ']') <;> cases h2 : (c == '{') <;> cases h3 : (c == '}') <;> simp_all

theorem cls_nonbrace (c : Char) : clsTest liveDB true [.lit 123, .lit 125] c = (c != '{' && c != '}') := by
  simp only [clsTest, ClsItem.test, List.any_cons, List.any_nil, Bool.or_false, toNat_ne (k := 123) (by decide),
    toNat_ne (k := 125) (by decide)]
  have e2 : Char.ofNat 123 = '{' := rfl
  have e3 : Char.ofNat 125 = '}' := rfl
  rw [e2, e3]
  cases h2 : (c == '{') <;> cases h3 : (c == '}') <;> simp_all

theorem cls_char (k : Nat) (hk : (Char.ofNat k).toNat = k) (c : Char) : clsTest liveDB false [.lit k] c = (c == Char.ofNat k) :=
  cls_one k hk c

/-! ### identifier -/

/-- `[^\W\d]\w*` followed by something that cannot start with a word character -/
theorem bt_ident {β : Type} (st : St) (k : St → Option β) (hk : FailsOn isWord k) :
    bt liveDB reIdent st k =
      match scanIdent st.rest with
      | some (id, r) => k ⟨r, st.pos + id.length, st.caps⟩
      | none => none := by
  obtain ⟨rest, pos, caps⟩ := st
  cases rest with
  | nil => simp [reIdent, bt_seq, bt_cls_nil, scanIdent]
  | cons c r =>
    simp only [reIdent, bt_seq, bt_cls_cons, cls_idstart, bt_star, scanIdent]
    by_cases hc : isIdStart c = true
    · simp only [hc, if_true]
      rw [starLoop_cls liveDB false [.word] k (Or.inl ?H) _ _ _ _ (Nat.le_refl _)]
      case H =>
        intro c0 r0 p0 cp0 h0
        rw [cls_word] at h0
        exact hk c0 r0 p0 cp0 h0
      have hw : clsTest liveDB false [.word] = isWord := funext cls_word
      simp only [hw, List.length_cons]
      congr 2
      omega
    · simp [hc]

/-! ### the head of a name -/

theorem idStart_not_digit {c : Char} (h : isIdStart c = true) : isDigit c = false := by
  simp only [isIdStart, Bool.and_eq_true, Bool.not_eq_true'] at h; exact h.2

theorem digit_not_idStart {c : Char} (h : isDigit c = true) : isIdStart c = false := by
  simp [isIdStart, h]

/-- `(?: \d+ | [^\W\d]\w* )` followed by something that cannot start with a digit or a word character -/
theorem bt_head {β : Type} (st : St) (k : St → Option β) (hw : FailsOn isWord k) (hd : FailsOn isDigit k) :
    bt liveDB reHead st k =
      match scanNameHead st.rest with
      | some (h, r) => k ⟨r, st.pos + h.length, st.caps⟩
      | none => none := by
  obtain ⟨rest, pos, caps⟩ := st
  simp only [reHead, bt_alt, bt_plus, bt_ident _ k hw]
  cases rest with
  | nil => simp [bt_cls_nil, scanNameHead, scanIdent]
  | cons c r =>
    by_cases hc : isDigit c = true
    · have hcd : clsTest liveDB false [.digit] c = true := by rw [cls_digit]; exact hc
      simp only [bt_cls_cons, hcd, if_true, scanNameHead, hc]
      rw [starLoop_cls liveDB false [.digit] k (Or.inl ?H) _ _ _ _ (Nat.le_refl _)]
      case H =>
        intro c0 r0 p0 cp0 h0
        rw [cls_digit] at h0
        exact hd c0 r0 p0 cp0 h0
      have hf : clsTest liveDB false [.digit] = isDigit := funext cls_digit
      simp only [hf, List.length_cons, scanIdent, digit_not_idStart hc]
      have e : pos + 1 + (List.takeWhile isDigit r).length = pos + ((List.takeWhile isDigit r).length + 1) := by omega
      rw [e]
      cases k ⟨List.dropWhile isDigit r, pos + ((List.takeWhile isDigit r).length + 1), caps⟩ <;> simp
    · have hcd : clsTest liveDB false [.digit] c = false := by rw [cls_digit]; simpa using hc
      simp [bt_cls_cons, hcd, scanNameHead, hc]

/-! ### one element of the tail of a name -/

/-- `[.] [^\W\d]\w*` or `\[ X+ \]` at the start, as a step on matcher states -/
def tailStep (inBr : Char → Bool) (st : St) : Option St :=
  match st.rest with
  | '.' :: r =>
    match scanIdent r with
    | some (id, r') => some ⟨r', st.pos + 1 + id.length, st.caps⟩
    | none => none
  | '[' :: r =>
    match scanIndex inBr r with
    | some (x, r') => some ⟨r', st.pos + 1 + x.length + 1, st.caps⟩
    | none => none
  | _ => none

theorem bt_attr {β : Type} (st : St) (k : St → Option β) (hw : FailsOn isWord k) :
    bt liveDB reAttr st k =
      match st.rest with
      | '.' :: r =>
        (match scanIdent r with
         | some (id, r') => k ⟨r', st.pos + 1 + id.length, st.caps⟩
         | none => none)
      | _ => none := by
  obtain ⟨rest, pos, caps⟩ := st
  cases rest with
  | nil => simp [reAttr, bt_seq, bt_cls_nil]
  | cons c r =>
    simp only [reAttr, bt_seq, bt_cls_cons, cls_char 46 (by decide)]
    by_cases hc : c = '.'
    · subst hc
      have : ('.' == Char.ofNat 46) = true := by decide
      simp only [this, if_true, bt_ident _ k hw]
    · have : (c == Char.ofNat 46) = false := by
        have e : Char.ofNat 46 = '.' := rfl
        rw [e]; simpa using hc
      simp only [this, Bool.false_eq_true, if_false]
      split
      · rename_i heq; simp only [List.cons.injEq] at heq; exact absurd heq.1 hc
      · rfl

/-- `\[ X+ \]` for a class `X` that excludes `]` (no condition on the continuation: the closing bracket delimits) -/
theorem bt_index {β : Type} (br : List ClsItem) (inBr : Char → Bool) (hbr : ∀ c, clsTest liveDB true br c = inBr c)
    (hnot : ∀ c, inBr c = true → c ≠ ']') (st : St) (k : St → Option β) :
    bt liveDB (reIndex br) st k =
      match st.rest with
      | '[' :: r =>
        (match scanIndex inBr r with
         | some (x, r') => k ⟨r', st.pos + 1 + x.length + 1, st.caps⟩
         | none => none)
      | _ => none := by
  obtain ⟨rest, pos, caps⟩ := st
  have hf : clsTest liveDB true br = inBr := funext hbr
  simp only [scanIndex]
  cases rest with
  | nil => simp [reIndex, bt_seq, bt_cls_nil]
  | cons c r =>
    simp only [reIndex, bt_seq, bt_cls_cons, cls_char 91 (by decide), bt_plus]
    by_cases hc : c = '['
    · subst hc
      have : ('[' == Char.ofNat 91) = true := by decide
      simp only [this, if_true]
      cases r with
      | nil => simp [bt_cls_nil]
      | cons d r' =>
        by_cases hd : inBr d = true
        · have hcd : clsTest liveDB true br d = true := by rw [hbr]; exact hd
          simp only [bt_cls_cons, hcd, if_true]
          rw [starLoop_cls liveDB true br _ (Or.inl ?H) _ _ _ _ (Nat.le_refl _)]
          case H =>
            intro c0 r0 p0 cp0 h0
            rw [hbr] at h0
            have hne : (c0 == Char.ofNat 93) = false := by
              have e : Char.ofNat 93 = ']' := rfl
              rw [e]; simpa using hnot c0 h0
            simp [bt_cls_cons, cls_char 93 (by decide), hne]
          simp only [hf, List.takeWhile_cons, List.dropWhile_cons, hd, if_true, List.length_cons]
          cases hdw : List.dropWhile inBr r' with
          | nil => simp [bt_cls_nil]
          | cons e r'' =>
            simp only [bt_cls_cons, cls_char 93 (by decide)]
            by_cases he : e = ']'
            · subst he
              have : (']' == Char.ofNat 93) = true := by decide
              simp only [this, if_true, List.length_cons]
              congr 2
              omega
            · have : (e == Char.ofNat 93) = false := by
                have e' : Char.ofNat 93 = ']' := rfl
                rw [e']; simpa using he
              simp only [this, Bool.false_eq_true, if_false]
              split
              · rename_i heq
                exfalso
                split at heq
                · rename_i heq2; simp only [List.cons.injEq] at heq2; exact he heq2.1
                · cases heq
              · rfl
        · have hcd : clsTest liveDB true br d = false := by rw [hbr]; simpa using hd
          have hd' : inBr d = false := by simpa using hd
          simp [bt_cls_cons, hcd, List.takeWhile_cons, hd']
    · have : (c == Char.ofNat 91) = false := by
        have e : Char.ofNat 91 = '[' := rfl
        rw [e]; simpa using hc
      simp only [this, Bool.false_eq_true, if_false]
      split
      · rename_i heq; simp only [List.cons.injEq] at heq; exact absurd heq.1 hc
      · rfl

/-! ### the tail of a name -/

theorem bt_tail_body {β : Type} (br : List ClsItem) (inBr : Char → Bool) (hbr : ∀ c, clsTest liveDB true br c = inBr c)
    (hnot : ∀ c, inBr c = true → c ≠ ']') (st : St) (k : St → Option β) (hw : FailsOn isWord k) :
    bt liveDB (.alt reAttr (reIndex br)) st k = (tailStep inBr st).bind k := by
  obtain ⟨rest, pos, caps⟩ := st
  simp only [bt_alt, bt_attr _ k hw, bt_index br inBr hbr hnot, tailStep]
  cases rest with
  | nil => simp
  | cons c r =>
    by_cases h1 : c = '.'
    · subst h1
      cases h : scanIdent r with
      | none => simp [h]
      | some p =>
        obtain ⟨id, r'⟩ := p
        simp only [h, Option.bind_some]
        cases k ⟨r', pos + 1 + id.length, caps⟩ <;> simp
    · by_cases h2 : c = '['
      · subst h2
        cases h : scanIndex inBr r with
        | none => simp [h]
        | some p => obtain ⟨n, r'⟩ := p; simp [h]
      · have e1 : ∀ (γ : Type) (f : List Char → γ) (g : List Char → γ) (d : γ), (match (c :: r : List Char) with
            | '.' :: r => f r
            | '[' :: r => g r
            | _ => d) = d := by
          intro γ f g d
          split
          · rename_i heq; simp only [List.cons.injEq] at heq; exact absurd heq.1 h1
          · rename_i heq; simp only [List.cons.injEq] at heq; exact absurd heq.1 h2
          · rfl
        have e2 : ∀ (γ : Type) (f : List Char → γ) (d : γ), (match (c :: r : List Char) with
            | '.' :: r => f r
            | _ => d) = d := by
          intro γ f d
          split
          · rename_i heq; simp only [List.cons.injEq] at heq; exact absurd heq.1 h1
          · rfl
        have e3 : ∀ (γ : Type) (g : List Char → γ) (d : γ), (match (c :: r : List Char) with
            | '[' :: r => g r
            | _ => d) = d := by
          intro γ g d
          split
          · rename_i heq; simp only [List.cons.injEq] at heq; exact absurd heq.1 h2
          · rfl
        simp [e1, e2, e3]

theorem tailStep_progress (inBr : Char → Bool) (st st' : St) (h : tailStep inBr st = some st') : st'.rest.length < st.rest.length := by
  obtain ⟨rest, pos, caps⟩ := st
  simp only [tailStep] at h
  split at h
  · rename_i r
    split at h
    · rename_i id r' hid
      cases h
      have := (scanIdent_some hid).1
      simp only at *
      rw [this]; simp; omega
    · cases h
  · rename_i r
    split at h
    · rename_i x r' hidx
      cases h
      have := (scanIndex_some hidx).1
      simp only at *
      rw [this]; simp; omega
    · cases h
  · cases h

theorem tailStep_some_head {inBr : Char → Bool} {st : St} (h : (tailStep inBr st).isSome = true) :
    ∃ c r, st.rest = c :: r ∧ (c == '.' || c == '[') = true := by
  obtain ⟨rest, pos, caps⟩ := st
  simp only [tailStep] at h
  split at h
  · rename_i r; exact ⟨'.', r, rfl, by decide⟩
  · rename_i r; exact ⟨'[', r, rfl, by decide⟩
  · simp at h

theorem tailStep_none_of {inBr : Char → Bool} {c : Char} (h1 : c ≠ '.') (h2 : c ≠ '[') (r : List Char) (pos : Nat) (caps : Caps) :
    tailStep inBr ⟨c :: r, pos, caps⟩ = none := by
  simp only [tailStep]
  split
  · rename_i heq; simp only [List.cons.injEq] at heq; exact absurd heq.1 h1
  · rename_i heq; simp only [List.cons.injEq] at heq; exact absurd heq.1 h2
  · rfl

/-- the tail of a name, followed by something that cannot start with a word character, `.` or `[` -/
theorem bt_tail {β : Type} (br : List ClsItem) (inBr : Char → Bool) (hbr : ∀ c, clsTest liveDB true br c = inBr c)
    (hnot : ∀ c, inBr c = true → c ≠ ']') (st : St) (K : St → Option β) (hw : FailsOn isWord K)
    (hdot : FailsOn (fun c => c == '.' || c == '[') K) :
    bt liveDB (reTail br) st K = K (iter (tailStep inBr) st.rest.length st) := by
  simp only [reTail, bt_star]
  apply starLoop_det isWord _ (tailStep inBr) K
  · intro st k hk; exact bt_tail_body br inBr hbr hnot st k hk
  · intro c r pos caps k hc
    have h1 : (c == Char.ofNat 46) = false := by
      have e : Char.ofNat 46 = '.' := rfl
      rw [e]; simpa using word_ne_dot hc
    have h2 : (c == Char.ofNat 91) = false := by
      have e : Char.ofNat 91 = '[' := rfl
      rw [e]; simpa using word_ne_lbracket hc
    simp [bt_alt, reAttr, reIndex, bt_seq, bt_cls_cons, cls_char 46 (by decide), cls_char 91 (by decide), h1, h2]
  · exact tailStep_progress inBr
  · exact hw
  · left
    intro st hs
    obtain ⟨c, r, hr, hc⟩ := tailStep_some_head hs
    obtain ⟨rest, pos, caps⟩ := st
    simp only at hr
    subst hr
    exact hdot c r pos caps hc
  · exact Nat.le_refl _

theorem iter_tailStep (inBr : Char → Bool) : ∀ (fuel : Nat) (cs : List Char) (pos : Nat) (caps : Caps),
    iter (tailStep inBr) fuel ⟨cs, pos, caps⟩ =
      ⟨(scanNameTail inBr fuel cs).2, pos + (scanNameTail inBr fuel cs).1.length, caps⟩ := by
  intro fuel
  induction fuel with
  | zero => intro cs pos caps; simp [iter, scanNameTail]
  | succ fuel ih =>
    intro cs pos caps
    cases cs with
    | nil => simp [iter, tailStep, scanNameTail]
    | cons c r =>
      by_cases h1 : c = '.'
      · subst h1
        simp only [iter, tailStep, scanNameTail]
        cases hid : scanIdent r with
        | none => simp
        | some p =>
          obtain ⟨id, r'⟩ := p
          simp only [ih]
          cases hrec : scanNameTail inBr fuel r' with
          | mk t r'' => simp; omega
      · by_cases h2 : c = '['
        · subst h2
          simp only [iter, tailStep, scanNameTail]
          cases hidx : scanIndex inBr r with
          | none => simp
          | some p =>
            obtain ⟨x, r'⟩ := p
            simp only [ih]
            cases hrec : scanNameTail inBr fuel r' with
            | mk t r'' => simp; omega
        · have hs := tailStep_none_of (inBr := inBr) h1 h2 r pos caps
          have hn : scanNameTail inBr (fuel + 1) (c :: r) = ([], c :: r) := by
            simp only [scanNameTail]
            split
            · rename_i heq; simp only [List.cons.injEq] at heq; exact absurd heq.1 h1
            · rename_i heq; simp only [List.cons.injEq] at heq; exact absurd heq.1 h2
            · rfl
          simp [iter, hs, hn]

/-- NAME, followed by something that cannot start with a word character, a digit, `.` or `[` -/
theorem bt_name {β : Type} (br : List ClsItem) (inBr : Char → Bool) (hbr : ∀ c, clsTest liveDB true br c = inBr c)
    (hnot : ∀ c, inBr c = true → c ≠ ']') (st : St) (K : St → Option β) (hw : FailsOn isWord K) (hd : FailsOn isDigit K)
    (hdot : FailsOn (fun c => c == '.' || c == '[') K) :
    bt liveDB (reName br) st K =
      match scanName inBr st.rest with
      | some (nm, r) => K ⟨r, st.pos + nm.length, st.caps⟩
      | none => none := by
  have hk : (fun st' => bt liveDB (reTail br) st' K) = fun st' => K (iter (tailStep inBr) st'.rest.length st') :=
    funext fun st' => bt_tail br inBr hbr hnot st' K hw hdot
  simp only [reName, bt_seq, hk]
  rw [bt_head]
  · obtain ⟨rest, pos, caps⟩ := st
    simp only [scanName]
    cases hh : scanNameHead rest with
    | none => simp
    | some p =>
      obtain ⟨h, r⟩ := p
      simp only [iter_tailStep]
      cases hrec : scanNameTail inBr r.length r with
      | mk t r' => simp; congr 2; omega
  · intro c r pos caps hc
    simp only [List.length_cons, iter, tailStep_none_of (word_ne_dot hc) (word_ne_lbracket hc)]
    exact hw c r pos caps hc
  · intro c r pos caps hc
    simp only [List.length_cons, iter, tailStep_none_of (digit_ne_dot hc) (digit_ne_lbracket hc)]
    exact hd c r pos caps hc

end I18n.PyBrace
