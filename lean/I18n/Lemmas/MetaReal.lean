import I18n.Model.MetaReal
import I18n.Lemmas.MetaPo
/-! The composed checker (`Real.pipeline`, `Real.checkPo`, `Real.checkMo`, …) lives in `Model/MetaReal.lean` (core Lean, so that the
    driver can run it); this file keeps the old import path. -/
