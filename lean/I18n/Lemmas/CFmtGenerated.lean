import I18n.Generated.CFmtConv
import I18n.Lemmas.CFmtFinditer
import I18n.Lemmas.CFmtValid
/-!
# The decision code regenerated from `Conversion.__init__` equals the hand-written model

`Generated.CFmtConv.checks` is what `tools/translate/cfmtconv2lean.py` makes of the current source (the statements after
`self.type = tp`); the model is `checkFlags`, `doWidth`, `doPrec`, `doIndex` in sequence.
-/
namespace I18n.CFmt.Py
open I18n.Spec.Printf I18n.Generated.CFormatTables
open I18n.CFmt

/-! ## the kit on concrete values -/

@[simp] theorem bind_ok {α β : Type} (v : α) (k : α → R β) : bind (.ok v) k = k v := rfl
@[simp] theorem bind_error {α β : Type} (e : CErr) (k : α → R β) : bind (.error e) k = .error e := rfl
@[simp] theorem ite_true {α : Type} (a b : R α) : ite (.ok true) a b = a := rfl
@[simp] theorem ite_false {α : Type} (a b : R α) : ite (.ok false) a b = b := rfl
@[simp] theorem ite_error {α : Type} (e : CErr) (a b : R α) : ite (.error e) a b = .error e := rfl
theorem ite_ok {α : Type} (c : Bool) (a b : R α) : ite (.ok c) a b = if c then a else b := by cases c <;> rfl
@[simp] theorem andR_ok (a : Bool) (b : R Bool) : andR (.ok a) b = if a then b else .ok false := by cases a <;> rfl
@[simp] theorem notR_ok (a : Bool) : notR (.ok a) = .ok (!a) := rfl
@[simp] theorem notR_error (e : CErr) : notR (.error e) = .error e := rfl

@[simp] theorem raiseOf_FlagError : raiseOf "FlagError" = .FlagError := by decide
@[simp] theorem raiseOf_AssertionError : raiseOf "AssertionError" = .crash .AssertionError := by decide
@[simp] theorem raiseOf_WidthRangeError : raiseOf "WidthRangeError" = .WidthRangeError := by decide
@[simp] theorem raiseOf_WidthError : raiseOf "WidthError" = .WidthError := by decide
@[simp] theorem raiseOf_PrecisionRangeError : raiseOf "PrecisionRangeError" = .PrecisionRangeError := by decide
@[simp] theorem raiseOf_PrecisionError : raiseOf "PrecisionError" = .PrecisionError := by decide
@[simp] theorem raiseOf_ArgumentRangeError : raiseOf "ArgumentRangeError" = .ArgumentRangeError := by decide
@[simp] theorem raiseOf_ArgumentNumberingMixture : raiseOf "ArgumentNumberingMixture" = .ArgumentNumberingMixture := by decide
@[simp] theorem raiseOf_ForbiddenArgumentIndex : raiseOf "ForbiddenArgumentIndex" = .ForbiddenArgumentIndex := by decide
@[simp] theorem warnS_RedundantFlag (w : Bool) (st : St) : warnS w st "RedundantFlag" = warn w st .RedundantFlag := by
  simp [warnS, warnOf]

@[simp] theorem group_index (d : Directive) : groupOf d "index" = idxVal d.index := by simp [groupOf]
@[simp] theorem group_flags (d : Directive) : groupOf d "flags" = .str d.flags := by simp [groupOf]
@[simp] theorem group_width (d : Directive) : groupOf d "width" = widthVal d.width := by simp [groupOf]
@[simp] theorem group_varwidth (d : Directive) : groupOf d "varwidth" = varwidthVal d.width := by simp [groupOf]
@[simp] theorem group_varwidth_index (d : Directive) : groupOf d "varwidth_index" = varwidthIndexVal d.width := by simp [groupOf]
@[simp] theorem group_precision (d : Directive) : groupOf d "precision" = precVal d.prec := by simp [groupOf]
@[simp] theorem group_varprec (d : Directive) : groupOf d "varprec" = varprecVal d.prec := by simp [groupOf]
@[simp] theorem group_varprec_index (d : Directive) : groupOf d "varprec_index" = varprecIndexVal d.prec := by simp [groupOf]

@[simp] theorem eq_str1 (a b : Char) : eq (.str [a]) (.str [b]) = decide (a = b) := by
  unfold eq
  by_cases h : a = b
  · subst h; simp
  · have : Val.str [a] ≠ Val.str [b] := by intro h'; injection h' with h'; injection h' with h'; exact h h'
    simp [h, this]
@[simp] theorem inStr1 (c : Char) (hay : List Char) : inStr (.str [c]) hay = .ok (hay.contains c) := rfl
@[simp] theorem counterHas1 (cnt : Counter) (c : Char) : counterHas cnt (.str [c]) = cnt.any (fun p => p.1 == c) := rfl

/-! ## the flag loop -/

open I18n.Generated.CFmtConv in
/-- one round of `for flag, count in flags.items()` as regenerated = one round of the model's `flagLoop` -/
theorem loop1_eq (w : Bool) (m : String → Val) (conv : Char) (tp : String) (sid : Nat) (c : Char) (n : Nat) (st : St) :
    loop1 w m (.str [conv]) tp sid (.str [c]) (.int n) st =
      match flagErr c conv with
      | some e => .error e
      | none => .ok (if n != 1 then warn w st .RedundantFlag else st) := by
  have hcount : eq (Val.int n) (Val.int 1) = (n == 1) := by
    unfold eq
    by_cases h : n = 1
    · subst h; rfl
    · have : Val.int n ≠ Val.int 1 := by intro h'; injection h' with h'; exact h h'
      rw [beq_eq_false_iff_ne.2 this, beq_eq_false_iff_ne.2 h]
  unfold loop1 flagErr
  simp only [hcount, eq_str1, inStr1, ite_ok, raiseOf_FlagError, raiseOf_AssertionError, warnS_RedundantFlag, notR_ok, inSet]
  by_cases h0 : n = 1 <;> by_cases h1 : conv = 'n' <;> by_cases h2 : c = '#' <;> by_cases h3 : c = '0' <;> by_cases h4 : c = '\'' <;>
    by_cases h5 : conv = '%' <;> simp_all <;> (try (split <;> simp_all)) <;> (try (split <;> simp_all))

open I18n.Generated.CFmtConv in
theorem forItems_eq (w : Bool) (m : String → Val) (conv : Char) (tp : String) (sid : Nat) (flags : List Char) :
    ∀ (l : List Char) (st : St),
      forItems (loop1 w m (.str [conv]) tp sid) (l.map fun c => (c, flags.count c)) st = flagLoop w flags conv l st := by
  intro l
  induction l with
  | nil => intro st; rfl
  | cons c l ih =>
    intro st
    simp only [List.map_cons, forItems, loop1_eq, flagLoop]
    cases flagErr c conv with
    | some e => rfl
    | none => exact ih _

theorem counterHas_flags (flags : List Char) (c : Char) :
    ((distinct flags).map fun x => (x, flags.count x)).any (fun p => p.1 == c) = flags.contains c := by
  rw [Bool.eq_iff_iff]
  simp only [List.any_map, List.any_eq_true, Function.comp, beq_iff_eq, List.contains_iff_mem]
  constructor
  · rintro ⟨x, hx, rfl⟩; exact mem_distinct.1 hx
  · intro h; exact ⟨c, mem_distinct.2 h, rfl⟩

/-! ## numerals -/

theorem int_digits {ds : List Char} (h : Numeral ds) : Py.int (.str ds) = (pyInt ds).map Val.int := by
  obtain ⟨hne, hd⟩ := h
  have h1 : ds.isEmpty = false := by cases ds <;> simp_all
  have h2 : ds.all Char.isDigit = true := List.all_eq_true.2 hd
  simp only [Py.int, h1, h2, Bool.not_true, Bool.or_self, Bool.false_eq_true, if_false, pyInt]
  split <;> rfl

theorem rstrip_idx {ds : List Char} (h : Numeral ds) : Py.rstripDollar (.str (ds ++ ['$'])) = .ok (.str ds) := by
  simp only [Py.rstripDollar, I18n.CFmtRe.rstripDollar_digits h.2]

/-- `index = int(index.rstrip('$')); if not (0 < index <= NL_ARGMAX): raise ArgumentRangeError` -/
theorem range_check (n : Nat) :
    notR (andR (lt (Val.int 0) (Val.int n)) (le (Val.int n) (Val.int I18n.Generated.CFormatTables.NL_ARGMAX))) =
      .ok (!(decide (0 < n) && decide (n ≤ I18n.Generated.CFormatTables.NL_ARGMAX))) := by
  simp only [lt, le, andR_ok]
  by_cases h : 0 < n <;> simp [h]

/-! ## `add_argument` behind its two `except` clauses is the model's `addArgument` -/

def optVal : Option Nat → Val
  | none => .none
  | some n => .int n

theorem addArgument_eq (st : St) (i : Option Nat) (e : Entry) :
    except1 (except1 (Py.addArgument st (optVal i) e) .IndexError (.error .ArgumentNumberingMixture)) .Overflow (.error .ArgumentRangeError) =
      CFmt.addArgument st i e := by
  cases i with
  | none =>
    simp only [Py.addArgument, optVal, argIndexOf, addArgumentRaw, CFmt.addArgument]
    cases st.next with
    | none => rfl
    | some k => simp only; split <;> rfl
  | some n =>
    simp only [Py.addArgument, optVal, argIndexOf, addArgumentRaw, CFmt.addArgument]
    cases st.next with
    | none => simp only; split <;> rfl
    | some k =>
      simp only
      split
      · split
        · rfl
        · split <;> rfl
      · rfl

@[simp] theorem raiseOf_IndexError : raiseOf "IndexError" = .crash .IndexError := by decide
@[simp] theorem raiseOf_OverflowError : raiseOf "OverflowError" = .crash .Overflow := by decide

open I18n.Generated.CFmtConv in
/-- `FormatString.add_argument` as regenerated from the source = the kit's hand-written version (for the indices the callers
    pass: `None` or an `int`) -/
theorem add_argument_eq_kit (st : St) (i : Option Nat) (e : Entry) :
    add_argument st (optVal i) e = Py.addArgument st (optVal i) e := by
  unfold add_argument Py.addArgument
  obtain ⟨next, map, nitems, warnings⟩ := st
  cases i with
  | none =>
    cases next with
    | none => simp [optVal, argIndexOf, addArgumentRaw, mapIsNone, isNone, nextVal]
    | some k =>
      by_cases hk : k > I18n.Generated.CFormatTables.NL_ARGMAX <;>
        simp [optVal, argIndexOf, addArgumentRaw, mapIsNone, isNone, nextVal, addInt, setNext, gt, lt, ite_ok, mapAppend, hk]
  | some n =>
    cases next with
    | none =>
      by_cases hk : n > I18n.Generated.CFormatTables.NL_ARGMAX <;>
        simp [optVal, argIndexOf, addArgumentRaw, mapIsNone, isNone, nextVal, gt, lt, ite_ok, mapAppend, hk]
    | some k =>
      by_cases h1 : k = 1
      · subst h1
        by_cases hm : map.isEmpty = true <;> by_cases hk : n > I18n.Generated.CFormatTables.NL_ARGMAX <;>
          simp [optVal, argIndexOf, addArgumentRaw, mapIsNone, isNone, nextVal, eq, mapEmpty, hm, hk, setNext, gt, lt, mapAppend, ite_ok]
      · have : (Val.int k == Val.int 1) = false := by
          rw [beq_eq_false_iff_ne]; intro h; injection h with h; exact h1 h
        simp [optVal, argIndexOf, addArgumentRaw, mapIsNone, isNone, nextVal, eq, this, h1, ite_ok]

/-- the model with the position of the conversion fixed (`Conversion.__init__` passes `self`) -/
def modelChecks (w : Bool) (st : St) (d : Directive) (tp : String) : Except CErr St :=
  match checkFlags w st d.flags d.body.conv with
  | .error e => .error e
  | .ok st1 =>
    match doWidth st1 d.width d.body.conv st.nitems with
    | .error e => .error e
    | .ok st2 =>
      match doPrec w st2 d.prec d.flags d.body.conv st.nitems with
      | .error e => .error e
      | .ok st3 => doIndex st3 d.index tp d.body.conv st.nitems

/-- what the width block leaves: the parent's state and the value of the local `width` (`None`, an `int`, or `...`) -/
def widthRes (st : St) (sid : Nat) : Width → R (St × Val)
  | .none => .ok (st, .none)
  | .num ds =>
    match pyInt ds with
    | .error e => .error e
    | .ok v => if v > I18n.Generated.CFormatTables.INT_MAX then .error .WidthRangeError else .ok (st, .int v)
  | .star idx =>
    match optIndex idx with
    | .error e => .error e
    | .ok i =>
      match CFmt.addArgument st i ⟨.width, variableWidthType, sid⟩ with
      | .error e => .error e
      | .ok st' => .ok (st', .ellipsis)

def precRes (st : St) (sid : Nat) : Prec → R (Val × St)
  | .none => .ok (.none, st)
  | .num ds =>
    match pyInt (if ds.isEmpty then ['0'] else ds) with
    | .error e => .error e
    | .ok v => if v > I18n.Generated.CFormatTables.INT_MAX then .error .PrecisionRangeError else .ok (.int v, st)
  | .star idx =>
    match optIndex idx with
    | .error e => .error e
    | .ok i =>
      match CFmt.addArgument st i ⟨.prec, variablePrecisionType, sid⟩ with
      | .error e => .error e
      | .ok st' => .ok (.ellipsis, st')

def idxRes (o : Option (List Char)) : R Val :=
  match optIndex o with
  | .error e => .error e
  | .ok i => .ok (optVal i)

/-- `if width is not None: if conversion in '%n': raise WidthError` -/
def checkW (v : Val) (conv : Char) : R Unit :=
  if (!isNone v && ['%', 'n'].contains conv) = true then .error .WidthError else .ok ()

/-- `if precision is not None: …` -/
def checkP (w : Bool) (pv : Val) (s : St) (flags : List Char) (conv : Char) : R St :=
  if isNone pv = true then .ok s
  else if (intCvt ++ floatCvt ++ strCvt).contains conv = true then
    .ok (if (intCvt.contains conv && flags.contains '0') = true then warn w s .RedundantFlag else s)
  else .error .PrecisionError

/-- the end of `__init__`: `if tp == 'void': … else: parent.add_argument(index, self)` -/
def finalIdx (s : St) (i : Option Nat) (tp : String) (conv : Char) (sid : Nat) : R St :=
  if (tp == "void") = true then (if (i.isSome && conv == '%') = true then .error .ForbiddenArgumentIndex else .ok s)
  else CFmt.addArgument s i ⟨.conv, tp, sid⟩

theorem doWidth_eq (st : St) (wd : Width) (conv : Char) (sid : Nat) :
    doWidth st wd conv sid =
      match widthRes st sid wd with
      | .error e => .error e
      | .ok x => if (!isNone x.2 && (conv == '%' || conv == 'n')) = true then .error .WidthError else .ok x.1 := by
  cases wd with
  | none => rfl
  | num ds =>
    simp only [doWidth, widthRes]
    cases pyInt ds with
    | error e => rfl
    | ok v =>
      simp only
      by_cases hv : v > I18n.Generated.CFormatTables.INT_MAX
      · simp [hv]
      · simp [hv, isNone]
  | star idx =>
    simp only [doWidth, widthRes]
    cases optIndex idx with
    | error e => rfl
    | ok i =>
      simp only
      cases CFmt.addArgument st i ⟨.width, variableWidthType, sid⟩ with
      | error e => rfl
      | ok st' => simp [isNone]

theorem doPrec_eq (w : Bool) (st : St) (p : Prec) (flags : List Char) (conv : Char) (sid : Nat) :
    doPrec w st p flags conv sid =
      match precRes st sid p with
      | .error e => .error e
      | .ok x =>
        if isNone x.1 = true then .ok x.2
        else if (intCvt ++ floatCvt ++ strCvt).contains conv = true then
          .ok (if (intCvt.contains conv && flags.contains '0') = true then warn w x.2 .RedundantFlag else x.2)
        else .error .PrecisionError := by
  cases p with
  | none => rfl
  | num ds =>
    simp only [doPrec, precRes]
    cases pyInt (if ds.isEmpty = true then ['0'] else ds) with
    | error e => rfl
    | ok v =>
      simp only
      by_cases hv : v > I18n.Generated.CFormatTables.INT_MAX
      · simp [hv]
      · simp [hv, isNone]
  | star idx =>
    simp only [doPrec, precRes]
    cases optIndex idx with
    | error e => rfl
    | ok i =>
      simp only
      cases CFmt.addArgument st i ⟨.prec, variablePrecisionType, sid⟩ with
      | error e => rfl
      | ok st' => simp [isNone]

theorem void_eq (tp : String) : eq (Val.str tp.toList) (Val.str ['v', 'o', 'i', 'd']) = (tp == "void") := by
  unfold eq
  by_cases h : tp = "void"
  · subst h; rfl
  · have : Val.str tp.toList ≠ Val.str ['v', 'o', 'i', 'd'] := by
      intro h'; injection h' with h'
      exact h (String.toList_inj.1 (by rw [h']; rfl))
    rw [beq_eq_false_iff_ne.2 this, beq_eq_false_iff_ne.2 h]

theorem bind_assoc {α β γ : Type} (x : R α) (f : α → R β) (g : β → R γ) : bind (bind x f) g = bind x (fun a => bind (f a) g) := by
  cases x <;> rfl
theorem bind_pure {α : Type} (x : R α) : bind x (fun a => .ok a) = x := by cases x <;> rfl

theorem doWidth_b (st : St) (wd : Width) (conv : Char) (sid : Nat) :
    doWidth st wd conv sid = bind (widthRes st sid wd) fun x => bind (checkW x.2 conv) fun _ => .ok x.1 := by
  rw [doWidth_eq]
  cases widthRes st sid wd with
  | error e => rfl
  | ok x =>
    simp only [bind_ok, checkW, List.contains_cons, List.contains_nil, Bool.or_false]
    split <;> rfl

theorem doPrec_b (w : Bool) (st : St) (p : Prec) (flags : List Char) (conv : Char) (sid : Nat) :
    doPrec w st p flags conv sid = bind (precRes st sid p) fun y => checkP w y.1 y.2 flags conv := by
  rw [doPrec_eq]
  cases precRes st sid p <;> rfl

theorem doIndex_b (st : St) (o : Option (List Char)) (tp : String) (conv : Char) (sid : Nat) :
    doIndex st o tp conv sid = bind (optIndex o) fun i => finalIdx st i tp conv sid := by
  unfold doIndex finalIdx
  cases optIndex o with
  | error e => rfl
  | ok i => simp only [bind_ok]

theorem modelChecks_b (w : Bool) (st : St) (d : Directive) (tp : String) :
    modelChecks w st d tp =
      bind (checkFlags w st d.flags d.body.conv) fun st1 =>
        bind (doWidth st1 d.width d.body.conv st.nitems) fun st2 =>
          bind (doPrec w st2 d.prec d.flags d.body.conv st.nitems) fun st3 => doIndex st3 d.index tp d.body.conv st.nitems := by
  unfold modelChecks
  cases checkFlags w st d.flags d.body.conv with
  | error e => rfl
  | ok st1 =>
    simp only [bind_ok]
    cases doWidth st1 d.width d.body.conv st.nitems with
    | error e => rfl
    | ok st2 =>
      simp only [bind_ok]
      cases doPrec w st2 d.prec d.flags d.body.conv st.nitems <;> rfl

theorem idxRes_b (o : Option (List Char)) : idxRes o = bind (optIndex o) fun i => .ok (optVal i) := by
  unfold idxRes; cases optIndex o <;> rfl

theorem isNone_optVal (i : Option Nat) : isNone (optVal i) = !i.isSome := by cases i <;> rfl

/-- the three `if … raise` shapes of the source, for arbitrary truth values -/
theorem checkW_gen (A B : Bool) (e : CErr) :
    ite (.ok !A) (bind (ite (.ok B) (.error e) (.ok ())) fun _ => (.ok () : R Unit)) (.ok ()) =
      if (!A && B) = true then .error e else .ok () := by
  cases A <;> cases B <;> rfl

theorem checkP_gen (C D E F : Bool) (e : CErr) (s s' : St) :
    ite (.ok !C) (bind (ite (.ok D) (.ok ()) (.error e)) fun _ =>
        bind (ite (andR (.ok E) (.ok F)) (.ok s') (.ok s)) fun st => (.ok st : R St)) (.ok s) =
      if C = true then .ok s else if D = true then .ok (if (E && F) = true then s' else s) else .error e := by
  cases C <;> cases D <;> cases E <;> cases F <;> rfl

theorem final_gen (G H I : Bool) (e : CErr) (s : St) (X : R St) :
    bind (ite (.ok G) (bind (ite (.ok !H) (bind (ite (.ok I) (.error e) (.ok ())) fun _ => (.ok () : R Unit)) (.ok ())) fun _ => .ok s)
        (bind X fun st => .ok st)) (fun st => .ok st) =
      if G = true then (if (!H && I) = true then .error e else .ok s) else X := by
  cases G <;> cases H <;> cases I <;> simp [bind_pure]

theorem warn_block (w : Bool) (x : Warn) (a b : Bool) (st : St) {β : Type} (k : St → R β) :
    bind (ite (andR (.ok a) (.ok b)) (.ok (warn w st x)) (.ok st)) k = k (if (a && b) = true then warn w st x else st) := by
  cases a <;> cases b <;> rfl

/-- the index groups: `x = match.group(…); if x is not None: x = int(x.rstrip('$')); if not (0 < x <= NL_ARGMAX): raise` -/
theorem idx_some {ds : List Char} (h : Numeral ds) {β : Type} (k : Val → R β) :
    bind (bind (bind (Py.rstripDollar (.str (ds ++ ['$']))) (fun t => Py.int t)) (fun x =>
        bind (ite (notR (andR (lt (Val.int 0) x) (le x (Val.int I18n.Generated.CFormatTables.NL_ARGMAX)))) (.error .ArgumentRangeError) (.ok ()))
          (fun _ => .ok x))) k =
      match argIndex ds with
      | .error e => .error e
      | .ok n => k (.int n) := by
  rw [rstrip_idx h, bind_ok, int_digits h]
  unfold argIndex
  cases pyInt ds with
  | error e => rfl
  | ok n =>
    simp only [Except.map, bind_ok, range_check, ite_ok]
    by_cases hn : (decide (0 < n) && decide (n ≤ I18n.Generated.CFormatTables.NL_ARGMAX)) = true
    · simp [hn]
    · simp [hn]

open I18n.Generated.CFmtConv in
theorem checks_eq (w : Bool) (st : St) (d : Directive) (hd : d.Wf) (tp : String) :
    checks w st (groupOf d) (.str [d.body.conv]) tp st.nitems = modelChecks w st d tp := by
  rw [modelChecks_b]
  unfold checks checkFlags
  simp only [group_flags, counter, bind_ok, forItems_eq]
  cases flagLoop w d.flags d.body.conv (distinct d.flags) st with
  | error e => rfl
  | ok st1 =>
    simp only [bind_ok, counterHas1, counterHas_flags, warn_block, warnS_RedundantFlag, group_width, group_varwidth, group_varwidth_index,
      group_precision, group_varprec, group_varprec_index, group_index]
    generalize (if (d.flags.contains '+' && d.flags.contains ' ') = true then
        warn w (if (d.flags.contains '-' && d.flags.contains '0') = true then warn w st1 .RedundantFlag else st1) .RedundantFlag
      else if (d.flags.contains '-' && d.flags.contains '0') = true then warn w st1 .RedundantFlag else st1) = st2
    have hw := hd.width
    have hp := hd.prec
    have hi := hd.index
    -- width
    have width_block : ∀ {β : Type} (k : St × Val → R β),
        bind
          (ite (Except.ok !isNone (widthVal d.width))
            (bind (int (widthVal d.width)) fun width =>
              bind (ite (gt width (Val.int Generated.CFormatTables.INT_MAX)) (Except.error (raiseOf "WidthRangeError")) (Except.ok ()))
                fun _ => Except.ok (st2, width))
            (bind
              (ite (Except.ok (truthy (varwidthVal d.width)))
                (bind
                  (ite (Except.ok !isNone (varwidthIndexVal d.width))
                    (bind (bind (rstripDollar (varwidthIndexVal d.width)) fun tmp1 => int tmp1) fun varwidth_index =>
                      bind
                        (ite (notR (andR (lt (Val.int 0) varwidth_index) (le varwidth_index (Val.int Generated.CFormatTables.NL_ARGMAX))))
                          (Except.error (raiseOf "ArgumentRangeError")) (Except.ok ()))
                        fun _ => Except.ok varwidth_index)
                    (Except.ok (varwidthIndexVal d.width)))
                  fun varwidth_index =>
                  bind
                    (except1 (except1 (I18n.Generated.CFmtConv.add_argument st2 varwidth_index (variableWidth st.nitems)) Py.Exc.IndexError
                        (Except.error (raiseOf "ArgumentNumberingMixture"))) Py.Exc.Overflow (Except.error (raiseOf "ArgumentRangeError")))
                    fun st => Except.ok (st, Val.ellipsis))
                (Except.ok (st2, widthVal d.width)))
              fun x => Except.ok (x.fst, x.snd))) k =
        bind (widthRes st2 st.nitems d.width) k := by
      intro β k
      cases hwd : d.width with
      | none => simp [widthVal, varwidthVal, isNone, truthy, widthRes]
      | num ds =>
        rw [hwd] at hw
        simp only [widthVal, isNone, Bool.not_false, ite_true, int_digits hw.1, widthRes]
        cases pyInt ds with
        | error e => rfl
        | ok v =>
          simp only [Except.map, bind_ok, gt, lt, ite_ok, raiseOf_WidthRangeError]
          by_cases hv : I18n.Generated.CFormatTables.INT_MAX < v <;> simp [hv]
      | star idx =>
        rw [hwd] at hw
        cases idx with
        | none =>
          simp only [widthVal, varwidthVal, varwidthIndexVal, idxVal, isNone, truthy, Bool.not_true, ite_false, ite_true, bind_ok, optIndex,
            List.isEmpty_cons, Bool.not_false, raiseOf_ArgumentNumberingMixture, raiseOf_ArgumentRangeError, widthRes]
          rw [show Val.none = optVal none from rfl, add_argument_eq_kit, addArgument_eq]
          unfold variableWidth
          cases CFmt.addArgument st2 none ⟨.width, variableWidthType, st.nitems⟩ <;> rfl
        | some ds =>
          have hn : Numeral ds := hw
          simp only [widthVal, varwidthVal, varwidthIndexVal, idxVal, isNone, truthy, Bool.not_true, ite_false, ite_true, optIndex,
            List.isEmpty_cons, Bool.not_false, raiseOf_ArgumentNumberingMixture, raiseOf_ArgumentRangeError, widthRes]
          rw [idx_some hn]
          cases argIndex ds with
          | error e => rfl
          | ok n =>
            dsimp only
            rw [show Val.int n = optVal (some n) from rfl, add_argument_eq_kit, addArgument_eq]
            unfold variableWidth
            cases CFmt.addArgument st2 (some n) ⟨.width, variableWidthType, st.nitems⟩ <;> rfl
    have prec_block : ∀ (s : St) {β : Type} (k : Val × St → R β),
        bind
          (ite (Except.ok !isNone (precVal d.prec))
            (bind (int (orV (precVal d.prec) (Val.str ['0']))) fun precision =>
              bind (ite (gt precision (Val.int Generated.CFormatTables.INT_MAX)) (Except.error (raiseOf "PrecisionRangeError")) (Except.ok ()))
                fun _ => Except.ok (precision, s))
            (bind
              (ite (Except.ok (truthy (varprecVal d.prec)))
                (bind
                  (ite (Except.ok !isNone (varprecIndexVal d.prec))
                    (bind (bind (rstripDollar (varprecIndexVal d.prec)) fun tmp1 => int tmp1) fun varprec_index =>
                      bind
                        (ite (notR (andR (lt (Val.int 0) varprec_index) (le varprec_index (Val.int Generated.CFormatTables.NL_ARGMAX))))
                          (Except.error (raiseOf "ArgumentRangeError")) (Except.ok ()))
                        fun _ => Except.ok varprec_index)
                    (Except.ok (varprecIndexVal d.prec)))
                  fun varprec_index =>
                  bind
                    (except1 (except1 (I18n.Generated.CFmtConv.add_argument s varprec_index (variablePrecision st.nitems)) Py.Exc.IndexError
                        (Except.error (raiseOf "ArgumentNumberingMixture"))) Py.Exc.Overflow (Except.error (raiseOf "ArgumentRangeError")))
                    fun st => Except.ok (Val.ellipsis, st))
                (Except.ok (precVal d.prec, s)))
              fun x => Except.ok (x.fst, x.snd))) k =
        bind (precRes s st.nitems d.prec) k := by
      intro s β k
      cases hpd : d.prec with
      | none => simp [precVal, varprecVal, isNone, truthy, precRes]
      | num ds =>
        rw [hpd] at hp
        have hnum : Numeral (if ds.isEmpty then ['0'] else ds) := by
          cases ds with
          | nil => exact ⟨by simp, by intro c hc; simp at hc; subst hc; rfl⟩
          | cons c t => exact ⟨by simp, hp⟩
        have hor : orV (Val.str ds) (Val.str ['0']) = Val.str (if ds.isEmpty then ['0'] else ds) := by
          cases ds <;> rfl
        simp only [precVal, isNone, Bool.not_false, ite_true, hor, int_digits hnum, precRes]
        cases pyInt (if ds.isEmpty then ['0'] else ds) with
        | error e => rfl
        | ok v =>
          simp only [Except.map, bind_ok, gt, lt, ite_ok, raiseOf_PrecisionRangeError]
          by_cases hv : I18n.Generated.CFormatTables.INT_MAX < v <;> simp [hv]
      | star idx =>
        rw [hpd] at hp
        cases idx with
        | none =>
          simp only [precVal, varprecVal, varprecIndexVal, idxVal, isNone, truthy, Bool.not_true, ite_false, ite_true, bind_ok, optIndex,
            List.isEmpty_cons, Bool.not_false, raiseOf_ArgumentNumberingMixture, raiseOf_ArgumentRangeError, precRes]
          rw [show Val.none = optVal none from rfl, add_argument_eq_kit, addArgument_eq]
          unfold variablePrecision
          cases CFmt.addArgument s none ⟨.prec, variablePrecisionType, st.nitems⟩ <;> rfl
        | some ds =>
          have hn : Numeral ds := hp
          simp only [precVal, varprecVal, varprecIndexVal, idxVal, isNone, truthy, Bool.not_true, ite_false, ite_true, optIndex,
            List.isEmpty_cons, Bool.not_false, raiseOf_ArgumentNumberingMixture, raiseOf_ArgumentRangeError, precRes]
          rw [idx_some hn]
          cases argIndex ds with
          | error e => rfl
          | ok n =>
            dsimp only
            rw [show Val.int n = optVal (some n) from rfl, add_argument_eq_kit, addArgument_eq]
            unfold variablePrecision
            cases CFmt.addArgument s (some n) ⟨.prec, variablePrecisionType, st.nitems⟩ <;> rfl
    have index_block : ∀ {β : Type} (k : Val → R β),
        bind
          (ite (Except.ok !isNone (idxVal d.index))
            (bind (bind (rstripDollar (idxVal d.index)) fun tmp1 => int tmp1) fun index =>
              bind
                (ite (notR (andR (lt (Val.int 0) index) (le index (Val.int Generated.CFormatTables.NL_ARGMAX))))
                  (Except.error (raiseOf "ArgumentRangeError")) (Except.ok ()))
                fun _ => Except.ok index)
            (Except.ok (idxVal d.index))) k =
        bind (idxRes d.index) k := by
      intro β k
      cases hid : d.index with
      | none => rfl
      | some ds =>
        rw [hid] at hi
        have hn : Numeral ds := hi
        simp only [idxVal, isNone, Bool.not_false, ite_true, raiseOf_ArgumentRangeError, idxRes, optIndex]
        rw [idx_some hn]
        cases argIndex ds <;> rfl
    rw [width_block]
    simp only [prec_block, index_block]
    simp only [doWidth_b, doPrec_b, doIndex_b, idxRes_b, bind_assoc, bind_ok, inStr1, eq_str1, void_eq, isNone_optVal, checkW_gen, checkP_gen,
      add_argument_eq_kit, addArgument_eq, raiseOf_WidthError, raiseOf_PrecisionError, raiseOf_ForbiddenArgumentIndex, raiseOf_ArgumentNumberingMixture,
      raiseOf_ArgumentRangeError, selfEntry, checkW, checkP, finalIdx]
    congr 1; funext x; congr 1; funext _; congr 1; funext y; congr 1; funext s5; congr 1; funext a
    rw [bind_pure]
    cases (tp == "void") with
    | false => simp only [ite_false, bind_pure, Bool.false_eq_true, if_false]
    | true =>
      simp only [ite_true, if_true, Bool.not_not]
      by_cases hc : d.body.conv = '%' <;> cases a.isSome <;> simp [hc]

/-! ## `Conversion.__init__` -/

theorem warn_nitems (w : Bool) (st : St) (x : Warn) : (warn w st x).nitems = st.nitems := by
  unfold warn; split <;> rfl

theorem addArgument_nitems {st st' : St} {n : Option Nat} {v : Entry} (h : CFmt.addArgument st n v = .ok st') : st'.nitems = st.nitems := by
  unfold CFmt.addArgument at h
  cases n with
  | none =>
    cases hn : st.next with
    | none => simp [hn] at h
    | some k =>
      simp only [hn] at h
      split at h
      · cases h
      · cases h; rfl
  | some n =>
    cases hn : st.next with
    | none =>
      simp only [hn] at h
      split at h
      · cases h
      · cases h; rfl
    | some k =>
      simp only [hn] at h
      split at h
      · split at h
        · cases h
        · split at h
          · cases h
          · cases h; rfl
      · cases h

theorem flagLoop_nitems (w : Bool) (flags : List Char) (conv : Char) : ∀ (l : List Char) (st st' : St),
    flagLoop w flags conv l st = .ok st' → st'.nitems = st.nitems := by
  intro l
  induction l with
  | nil => intro st st' h; cases h; rfl
  | cons c l ih =>
    intro st st' h
    simp only [flagLoop] at h
    cases hf : flagErr c conv with
    | some e => simp [hf] at h
    | none =>
      simp only [hf] at h
      have := ih _ _ h
      rw [this]
      split <;> first | rfl | exact warn_nitems ..

theorem checkFlags_nitems {w : Bool} {st st' : St} {flags : List Char} {conv : Char} (h : checkFlags w st flags conv = .ok st') :
    st'.nitems = st.nitems := by
  unfold checkFlags at h
  cases hl : flagLoop w flags conv (distinct flags) st with
  | error e => simp [hl] at h
  | ok st1 =>
    simp only [hl, Except.ok.injEq] at h
    subst h
    have := flagLoop_nitems w flags conv _ _ _ hl
    split <;> split <;> simp only [warn_nitems, this]

theorem doWidth_nitems {st st' : St} {wd : Width} {conv : Char} {sid : Nat} (h : doWidth st wd conv sid = .ok st') : st'.nitems = st.nitems := by
  cases wd with
  | none => simp only [doWidth] at h; cases h; rfl
  | num ds =>
    simp only [doWidth] at h
    cases hp : pyInt ds with
    | error e => simp [hp] at h
    | ok v =>
      simp only [hp] at h
      split at h
      · cases h
      · split at h
        · cases h
        · cases h; rfl
  | star idx =>
    simp only [doWidth] at h
    cases ho : optIndex idx with
    | error e => simp [ho] at h
    | ok i =>
      simp only [ho] at h
      cases ha : CFmt.addArgument st i ⟨.width, variableWidthType, sid⟩ with
      | error e => simp [ha] at h
      | ok st1 =>
        simp only [ha] at h
        split at h
        · cases h
        · cases h; exact addArgument_nitems ha

theorem precRes_nitems {st : St} {sid : Nat} {p : Prec} {y : Val × St} (h : precRes st sid p = .ok y) : y.2.nitems = st.nitems := by
  cases p with
  | none => simp only [precRes, Except.ok.injEq] at h; subst h; rfl
  | num ds =>
    simp only [precRes] at h
    split at h
    · cases h
    · split at h
      · cases h
      · simp only [Except.ok.injEq] at h; subst h; rfl
  | star idx =>
    simp only [precRes] at h
    split at h
    · cases h
    · split at h
      · cases h
      · rename_i ha
        simp only [Except.ok.injEq] at h; subst h
        exact addArgument_nitems ha

theorem checkP_nitems {w : Bool} {pv : Val} {s st' : St} {flags : List Char} {conv : Char} (h : checkP w pv s flags conv = .ok st') :
    st'.nitems = s.nitems := by
  unfold checkP at h
  split at h
  · cases h; rfl
  · split at h
    · cases h; split <;> first | rfl | exact warn_nitems ..
    · cases h

theorem doPrec_nitems {w : Bool} {st st' : St} {p : Prec} {flags : List Char} {conv : Char} {sid : Nat}
    (h : doPrec w st p flags conv sid = .ok st') : st'.nitems = st.nitems := by
  rw [doPrec_b] at h
  cases hpr : precRes st sid p with
  | error e => simp [hpr] at h
  | ok y =>
    simp only [hpr, bind_ok] at h
    rw [checkP_nitems h, precRes_nitems hpr]

open I18n.Generated.CFmtConv in
/-- **`Conversion(parent, match)` as the model has it = the type (from the probed table) and then the decision code regenerated
    from the current source**, for every directive the regex can produce (`d.Wf`: what a match decodes to) -/
theorem conversion_eq_generated (w : Bool) (st : St) (d : Directive) (hd : d.Wf) :
    conversion w st d =
      match typeInfo d.body with
      | .error e => .error e
      | .ok (tp, _, np) =>
        checks w (if np then warn w st .NonPortableConversion else st) (groupOf d) (.str [d.body.conv]) tp st.nitems := by
  unfold conversion
  cases typeInfo d.body with
  | error e => rfl
  | ok r =>
    obtain ⟨tp, integer, np⟩ := r
    simp only
    have hn : (if np = true then warn w st .NonPortableConversion else st).nitems = st.nitems := by
      split <;> first | rfl | exact warn_nitems ..
    rw [← hn, checks_eq w _ d hd tp, modelChecks]
    cases hc : checkFlags w (if np = true then warn w st .NonPortableConversion else st) d.flags d.body.conv with
    | error e => rfl
    | ok st1 =>
      have h1 := checkFlags_nitems hc
      simp only [h1]
      cases hw : doWidth st1 d.width d.body.conv (if np = true then warn w st .NonPortableConversion else st).nitems with
      | error e => rfl
      | ok st2 =>
        have h2 := doWidth_nitems hw
        simp only [h2, h1]
        cases hp : doPrec w st2 d.prec d.flags d.body.conv (if np = true then warn w st .NonPortableConversion else st).nitems with
        | error e => rfl
        | ok st3 =>
          have h3 := doPrec_nitems hp
          simp only [h3, h2, h1]

end I18n.CFmt.Py
