import I18n.Model.PyBrace
import I18n.Lemmas.PerlBraceRe
/-
Pins for C13: the regex parse trees the python-brace scanner was written against, the constants, and the model evaluated
by the kernel on the probes of the live module.
-/
namespace I18n.PyBrace
open I18n.Spec.BraceRe
open I18n.Generated.PyBraceTables

/-- the parse tree of `_field_re` the scanner `scanLiteral` / `scanField` was written against -/
def pinnedFieldRe : Re :=
  (.alt (.group 1 (.plus (.alt (.cls true [.lit 123, .lit 125]) (.alt (.seq (.cls false [.lit 123]) (.cls false [.lit 123])) (.seq (.cls false [.lit 125]) (.cls false [.lit 125])))))) (.seq (.cls false [.lit 123]) (.seq (.opt (.group 2 (.seq (.alt (.plus (.cls false [.digit])) (.seq (.cls true [.notWord, .digit]) (.star (.cls false [.word])))) (.star (.alt (.seq (.cls false [.lit 46]) (.seq (.cls true [.notWord, .digit]) (.star (.cls false [.word])))) (.seq (.cls false [.lit 91]) (.seq (.plus (.cls true [.lit 93])) (.cls false [.lit 93])))))))) (.seq (.opt (.group 3 (.seq (.cls false [.lit 33]) (.plus (.cls false [.word]))))) (.seq (.opt (.group 4 (.seq (.cls false [.lit 58]) (.star (.alt (.cls true [.lit 123, .lit 125]) (.seq (.cls false [.lit 123]) (.seq (.opt (.seq (.alt (.plus (.cls false [.digit])) (.seq (.cls true [.notWord, .digit]) (.star (.cls false [.word])))) (.star (.alt (.seq (.cls false [.lit 46]) (.seq (.cls true [.notWord, .digit]) (.star (.cls false [.word])))) (.seq (.cls false [.lit 91]) (.seq (.plus (.cls true [.lit 93, .lit 123, .lit 125])) (.cls false [.lit 93]))))))) (.cls false [.lit 125])))))))) (.cls false [.lit 125]))))))

/-- the parse tree of `_simple_field_re` (`scanSimple`) -/
def pinnedSimpleFieldRe : Re :=
  (.seq (.cls false [.lit 123]) (.seq (.opt (.seq (.alt (.plus (.cls false [.digit])) (.seq (.cls true [.notWord, .digit]) (.star (.cls false [.word])))) (.star (.alt (.seq (.cls false [.lit 46]) (.seq (.cls true [.notWord, .digit]) (.star (.cls false [.word])))) (.seq (.cls false [.lit 91]) (.seq (.plus (.cls true [.lit 93, .lit 123, .lit 125])) (.cls false [.lit 93]))))))) (.cls false [.lit 125])))

/-- the parse tree of `_format_spec_re` (`scanSpec`) -/
def pinnedFormatSpecRe : Re :=
  (.seq .bos (.seq (.opt (.seq (.opt (.group 1 (.cls true [.lit 125]))) (.group 2 (.cls false [.lit 60, .lit 62, .lit 61, .lit 94])))) (.seq (.opt (.group 3 (.cls false [.lit 32, .lit 43, .lit 45]))) (.seq (.opt (.group 4 (.cls false [.lit 35]))) (.seq (.opt (.group 5 (.cls false [.lit 48]))) (.seq (.opt (.group 6 (.plus (.cls false [.range 48 57])))) (.seq (.opt (.group 7 (.cls false [.lit 44]))) (.seq (.opt (.seq (.cls false [.lit 46]) (.group 8 (.plus (.cls false [.digit]))))) (.seq (.opt (.group 9 (.cls false [.word, .lit 37]))) .eos)))))))))

theorem fieldRe_pin : fieldRe = pinnedFieldRe ∧ fieldReFlags = 96 ∧
    fieldReGroups = [("literal", 1), ("name", 2), ("conversion", 3), ("format", 4)] := by decide

theorem simpleFieldRe_pin : simpleFieldRe = pinnedSimpleFieldRe ∧ simpleFieldReFlags = 96 := by decide

theorem formatSpecRe_pin : formatSpecRe = pinnedFormatSpecRe ∧ formatSpecReFlags = 96 ∧
    formatSpecReGroups = [("fill", 1), ("align", 2), ("sign", 3), ("alt", 4), ("zero", 5), ("width", 6), ("comma", 7),
      ("precision", 8), ("type", 9)] := by decide

theorem printablePrefix_pin : printablePrefixPattern = "[ -~]+" ∧ perlPrintablePrefixPattern = "[ -~]+" ∧
    printablePrefixPatternFlags = 32 ∧ perlPrintablePrefixPatternFlags = 32 := by decide

/-- outcome code of a probe: the type mask of the single reported argument, or the error class -/
def probeCode : Except PErr Result → Nat
  | .ok { argMap := [(_, a :: _)], .. } => a.types.mask
  | .ok _ => 98
  | .error (.own c _) =>
    100 + (match c with
      | .Error => 0 | .ConversionError => 1 | .FormatError => 2 | .FormatTypeMismatch => 3
      | .ArgumentNumberingMixture => 4 | .ArgumentRangeError => 5 | .ArgumentTypeMismatch => 6)
  | .error (.crash _) => 199

theorem probeTable_pin : probeTable.all (fun p => probeCode (parse p.1) == p.2) = true := by decide +kernel

def perlProbeCode : Except PerlBrace.PErr PerlBrace.Result → Nat
  | .ok r => r.arguments.length
  | .error (.error _) => 100
  | .error (.crash _) => 199

theorem perlProbeTable_pin : perlProbeTable.all (fun p => perlProbeCode (PerlBrace.parse p.1) == p.2) = true := by decide +kernel

end I18n.PyBrace
