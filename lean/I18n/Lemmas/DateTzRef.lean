import I18n.Lemmas.DateTable
import I18n.Spec.TimezonesRef
/- The tool's abbreviation table (dumped from the live module) against the hand-maintained reference `Spec/TimezonesRef.lean`
   (kernel evaluation; quadratic in the 210 entries because the data file may be re-ordered). -/
namespace I18n.Date
open I18n.Spec.Date I18n.Generated
open I18n.Spec (TimezonesRef.table TimezonesRef.names TimezonesRef.offsets TimezonesRef.keptBy)

theorem ref_kept : Spec.TimezonesRef.keptBy DateTables.timezones = true := by decide +kernel

/-- the reference rows are well-formed: alphabetic abbreviation, at least one offset, offsets `±HHMM` -/
theorem ref_rows_ok : Spec.TimezonesRef.table.all (fun r => entryOk r && !r.2.isEmpty) = true := by decide +kernel

/-- what `keptBy` says, for any table -/
theorem keptBy_spec {live : List (List Char × List (List Char))} (h : Spec.TimezonesRef.keptBy live = true)
    {a : List Char} (ha : a ∈ Spec.TimezonesRef.names) :
    ∃ e ∈ live, e.1 = a ∧ ∀ o ∈ Spec.TimezonesRef.offsets a, o ∈ e.2 := by
  simp only [Spec.TimezonesRef.names, List.mem_map] at ha
  obtain ⟨r, hr, rfl⟩ := ha
  -- the row `offsets` reads is the first one with this key
  cases hf : Spec.TimezonesRef.table.find? (fun e => e.1 == r.1) with
  | none =>
    have := List.find?_eq_none.mp hf r hr
    simp at this
  | some r' =>
    have hr' := List.mem_of_find?_eq_some hf
    have hk : r'.1 = r.1 := by simpa using List.find?_some hf
    have hrow := List.all_eq_true.mp h r' hr'
    cases hl : live.find? (fun e => e.1 == r'.1) with
    | none => simp [hl] at hrow
    | some e =>
      simp only [hl, List.all_eq_true, List.contains_iff_mem] at hrow
      refine ⟨e, List.mem_of_find?_eq_some hl, ?_, ?_⟩
      · have : e.1 = r'.1 := by simpa using List.find?_some hl
        rw [this, hk]
      · intro o ho
        simp only [Spec.TimezonesRef.offsets, hf] at ho
        exact hrow o ho

end I18n.Date
