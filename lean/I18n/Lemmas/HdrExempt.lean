import I18n.Spec.HeaderRules
import I18n.Lemmas.DateTags
/-
C15 lemmas, part 11: where the file kind matters.  Templates (POT): `fuzzy-header-entry`, `boilerplate-in-last-translator`,
`boilerplate-in-language-team` are not due, the three msginit comment patterns are not looked for; nothing else in the
entry / translator / team rules changes.  Binary catalogs (MO): only the date rule looks at the flag, and there only the
absence of POT-Creation-Date is excused.
-/
set_option linter.unusedSimpArgs false
namespace I18n.Hdr
open I18n.Spec.HeaderRules I18n.Date

theorem checkOne_names (now : Int) (f : Field) (tmpl pub : Bool) (d : List Char) (ts : List Tag)
    (h : checkOne now f tmpl pub d = some ts) :
    ∀ t ∈ ts, t.name = "boilerplate-in-date" ∨ t.name = "invalid-date" ∨ t.name = "date-from-future" ∨ t.name = "ancient-date" := by
  unfold checkOne at h
  simp only [] at h
  split at h
  · injection h with h; subst h; simp
  · split at h
    · injection h with h; subst h; simp
    · injection h with h; subst h; simp
    · cases h
    · cases h
    · split at h
      · cases h
      · injection h with h; subst h
        intro t ht
        simp only [List.mem_append] at ht
        rcases ht with (ht | ht) | ht
        · split at ht
          · simp at ht; subst ht; simp
          · simp at ht
        · split at ht
          · simp at ht; subst ht; simp
          · simp at ht
        · split at ht
          · simp at ht; subst ht; simp
          · simp at ht

theorem perDate_names (now : Int) (f : Field) (tmpl pub : Bool) (ds : List (List Char)) :
    ∀ t ∈ perDate now f tmpl pub ds, t.name ≠ "no-date-header-field" := by
  intro t ht
  unfold perDate at ht
  simp only [List.mem_flatten, List.mem_map] at ht
  obtain ⟨l, ⟨d, _, rfl⟩, hm⟩ := ht
  cases hc : checkOne now f tmpl pub d with
  | none => rw [hc] at hm; simp at hm
  | some ts =>
    rw [hc] at hm
    rcases checkOne_names now f tmpl pub d ts hc t hm with h | h | h | h <;> rw [h] <;> decide

def noDate (f : Field) : Tag := ⟨"no-date-header-field", [.str f.name]⟩

theorem noDate_mem_fieldTags (c : Ctx) (f g : Field) (dates : List (List Char)) :
    noDate g ∈ fieldTags c f dates ↔ (f = g ∧ dates = [] ∧ ¬ (f = .pot ∧ c.isBinary = true)) := by
  unfold fieldTags
  have hname : ∀ t ∈ perDate c.now f c.isTemplate (isPublican c.contentType) (sortedSet dates), t ≠ noDate g :=
    fun t ht e => perDate_names _ _ _ _ _ t ht (by rw [e]; rfl)
  have hname2 : ∀ t ∈ perDate c.now f c.isTemplate (isPublican c.contentType) dates, t ≠ noDate g :=
    fun t ht e => perDate_names _ _ _ _ _ t ht (by rw [e]; rfl)
  split
  · rename_i h1
    constructor
    · intro hm
      rcases List.mem_cons.1 hm with e | hm
      · unfold noDate at e; injection e with e1 _; exact absurd e1 (by decide)
      · exact absurd rfl (hname _ hm)
    · rintro ⟨_, rfl, _⟩; simp at h1
  · split
    · rename_i h0
      have hnil : dates = [] := List.length_eq_zero_iff.1 h0
      split
      · rename_i hb
        simp only [List.not_mem_nil, false_iff]
        rintro ⟨_, _, h⟩; exact h hb
      · rename_i hb
        simp only [List.mem_singleton]
        constructor
        · intro e
          unfold noDate at e
          injection e with _ e2
          have : g = f := by
            cases f <;> cases g <;> first | rfl | (exfalso; revert e2; decide)
          exact ⟨this.symm, hnil, hb⟩
        · rintro ⟨rfl, _, _⟩; rfl
    · rename_i h1 h0
      constructor
      · intro hm; exact absurd rfl (hname2 _ hm)
      · rintro ⟨_, rfl, _⟩; simp at h0

/-- when is `no-date-header-field <field>` among the date verdicts -/
theorem noDate_mem_checkDates (c : Ctx) (g : Field) (ds : List Tag) (h : checkDates c = some ds) :
    noDate g ∈ ds ↔ ((match g with | .pot => c.pot | .po => c.po) = [] ∧ ¬ (g = .pot ∧ c.isBinary = true)) := by
  rw [checkDates_eq] at h
  injection h with h
  subst h
  rw [List.mem_append, noDate_mem_fieldTags, noDate_mem_fieldTags]
  cases g <;> simp

end I18n.Hdr
