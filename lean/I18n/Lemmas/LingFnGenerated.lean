import I18n.Generated.LingFn
/-!
# `lib/ling.py` regenerated (`Generated/LingFn.lean`: `Language._simple_format`, `get_unrepresentable_characters`) equals the model
-/
set_option linter.unusedSimpArgs false
set_option linter.unusedVariables false
namespace I18n.Charset.LGen
open I18n I18n.Charset I18n.Generated

/-- `_simple_format(territory=…)`: `ll` or `ll_CC` -/
theorem simple_format_eq (l : LPy.Language) (territory : Bool) :
    LingFn._simple_format l territory =
      .ok (match l.territory_code with
           | some t => if territory then l.language_code ++ [95] ++ t else l.language_code
           | none => l.language_code) := by
  simp only [LingFn._simple_format]
  cases l.territory_code with
  | none => rfl
  | some t => cases territory <;> simp [LPy.lit]

/-- the model's outcome in the kit's vocabulary: `.error ()` is an exception other than UnicodeError -/
def ofModel : Except Unit (List Name) → Except LPy.Exn (List Name)
  | .ok r => .ok r
  | .error () => .error .other

/-- the `for character in characters:` loop as regenerated (any body that does what the generated one does) = `unrepLoop`, from any
    accumulated result -/
theorem forEachBrk_unrepLoop (encode : List Nat → Enc) (body : Name → List Name → Except LPy.Exn (Bool × List Name))
    (hbody : ∀ ch acc, body ch acc = (match encode ch with
      | .ok => .ok (false, acc)
      | .crash => .error .other
      | .encodeError true => .ok (true, acc ++ [ch])
      | .encodeError false => .ok (false, acc ++ [ch]))) :
    ∀ (chars : List Name) (acc : List Name),
      LPy.forEachBrk chars body acc = (match unrepLoop encode chars with | .ok r => .ok (acc ++ r) | .error () => .error .other) := by
  intro chars
  induction chars with
  | nil => intro acc; simp [LPy.forEachBrk, unrepLoop]
  | cons ch rest ih =>
    intro acc
    simp only [LPy.forEachBrk, unrepLoop, hbody]
    cases encode ch with
    | ok => simp only [ih]
    | crash => rfl
    | encodeError b =>
      cases b
      · simp only [ih]
        cases unrepLoop encode rest with
        | ok r => simp
        | error e => rfl
      · simp

/-- the body of the loop as the translator prints it -/
theorem body_spec (encode : List Nat → Enc) (ch : Name) (acc : List Name) :
    (match (show Except LPy.Exn ((Option (List Name)) ⊕ Unit) from
        match LPy.strEncode encode ch with
        | .error e => .error e
        | .ok _ => .ok (.inr ())) with
     | .ok (.inl _) => (.error .other : Except LPy.Exn (Bool × List Name))
     | .ok (.inr ()) => .ok (false, acc)
     | .error exc_ =>
       if LPy.Exn.isUnicodeError exc_ then
         if exc_.reasonIsIconv then .ok (true, acc ++ [ch]) else .ok (false, acc ++ [ch])
       else .error exc_) =
      (match encode ch with
       | .ok => .ok (false, acc)
       | .crash => .error .other
       | .encodeError true => .ok (true, acc ++ [ch])
       | .encodeError false => .ok (false, acc ++ [ch])) := by
  simp only [LPy.strEncode]
  cases encode ch with
  | ok => rfl
  | crash => rfl
  | encodeError b => cases b <;> rfl

/-- `get_unrepresentable_characters(encoding, strict=…)` as regenerated: the two look-ups (`ll_CC` if there is a territory, then `ll`),
    `None` when neither lists characters, else `getUnrepresentable` -/
theorem get_unrepresentable_eq (chars : Name → Option Name → Bool → Option (List Name)) (encode : List Nat → Enc)
    (l : LPy.Language) (strict : Bool) :
    LingFn.get_unrepresentable_characters chars encode l strict =
      (match (match (match l.territory_code with
                     | some t => chars (l.language_code ++ [95] ++ t) l.modifier strict
                     | none => none) with
              | some cs => some cs
              | none => chars l.language_code l.modifier strict) with
       | none => .ok none
       | some cs => (ofModel (getUnrepresentable encode cs)).map some) := by
  simp only [LingFn.get_unrepresentable_characters, simple_format_eq]
  have key : ∀ cs : List Name,
      (match (show Except LPy.Exn ((Option (List Name)) ⊕ Unit) from
          match LPy.strEncode encode cs.flatten with
          | .error e => .error e
          | .ok _ => .ok (.inr ())) with
       | .ok (.inl _) => (.error .other : Except LPy.Exn (Option (List Name)))
       | .ok (.inr ()) => .ok (some [])
       | .error exc_ =>
         if LPy.Exn.isUnicodeError exc_ then
           match LPy.forEachBrk cs (fun character result =>
               match (show Except LPy.Exn ((Option (List Name)) ⊕ Unit) from
                   match LPy.strEncode encode character with
                   | .error e => .error e
                   | .ok _ => .ok (.inr ())) with
               | .ok (.inl _) => .error .other
               | .ok (.inr ()) => .ok (false, result)
               | .error exc_ =>
                 if LPy.Exn.isUnicodeError exc_ then
                   if exc_.reasonIsIconv then .ok (true, result ++ [character]) else .ok (false, result ++ [character])
                 else .error exc_) [] with
           | .error e => .error e
           | .ok result => .ok (some result)
         else .error exc_) = (ofModel (getUnrepresentable encode cs)).map some := by
    intro cs
    rw [forEachBrk_unrepLoop encode _ (fun ch acc => body_spec encode ch acc)]
    simp only [getUnrepresentable, LPy.strEncode]
    cases encode cs.flatten with
    | ok => rfl
    | crash => rfl
    | encodeError b =>
      simp only [LPy.Exn.isUnicodeError, if_true]
      cases unrepLoop encode cs with
      | ok r => simp [ofModel, Except.map]
      | error e => rfl
  cases htc : l.territory_code with
  | none =>
    simp only [Option.isSome_none, Bool.false_eq_true, if_false]
    cases hc : chars l.language_code l.modifier strict with
    | none => rfl
    | some cs => exact key cs
  | some t =>
    simp only [Option.isSome_some, if_true, Bool.false_eq_true, if_false]
    cases hc1 : chars (l.language_code ++ [95] ++ t) l.modifier strict with
    | some cs => exact key cs
    | none =>
      simp only []
      cases hc : chars l.language_code l.modifier strict with
      | none => rfl
      | some cs => exact key cs

end I18n.Charset.LGen
