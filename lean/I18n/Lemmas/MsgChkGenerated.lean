import I18n.Generated.MsgChk
import I18n.Lemmas.MsgFlagsLoop
import I18n.Lemmas.MsgFlagRules
/-!
# `Checker._check_message_flags` regenerated = `Msg.checkMessageFlags`

`I18n.Generated.MsgChk` is rewritten by `tools/translate/msgchk2lean.py` from the current source on every run.  The generated method keeps
`format_flags` as the nested dictionary of the source (`defaultdict(dict)`), the model as one flat association list keyed by
`(kind, format)`: the loop invariant relates the two (`FF`).
-/
set_option linter.unusedSimpArgs false
set_option linter.unusedVariables false
namespace I18n.Msg.Gen
open I18n I18n.Msg I18n.Generated
open I18n.Tags (Str lit Extra)

/-- forget which exception it was -/
def erase {α : Type} : Except Py.Exc α → Except Unit α
  | .ok v => .ok v
  | .error _ => .error ()

@[simp] theorem erase_ok {α : Type} (v : α) : erase (.ok v : Except Py.Exc α) = .ok v := rfl
@[simp] theorem erase_error {α : Type} (e : Py.Exc) : erase (.error e : Except Py.Exc α) = .error () := rfl

/-! ### nested vs flat `format_flags` -/

abbrev Nested := List (Str × List (Str × Str))
abbrev Flat := List ((Str × Str) × Str)

/-- `format_flags[tp]` of the nested dictionary is the model's `formatFlagsOf flat tp`, for every kind -/
def FF (ff : Nested) (flat : Flat) : Prop := ∀ tp, MsgPy.ddGet ff tp = formatFlagsOf flat tp

theorem FF_nil : FF [] [] := fun tp => rfl

theorem ddGet_dictSet {κ ν : Type} [DecidableEq κ] [Inhabited ν] (k : κ) (v : ν) (d : List (κ × ν)) (k' : κ) :
    MsgPy.ddGet (MsgPy.dictSet k v d) k' = if k' = k then v else MsgPy.ddGet d k' := by
  induction d with
  | nil =>
    by_cases h : k' = k
    · subst h; simp [MsgPy.ddGet, MsgPy.dictSet, assocSet, assocGet]
    · have h' : ¬ k = k' := fun e => h e.symm
      simp [MsgPy.ddGet, MsgPy.dictSet, assocSet, assocGet, h, h']
  | cons p d ih =>
    obtain ⟨a, b⟩ := p
    simp only [MsgPy.ddGet, MsgPy.dictSet] at ih ⊢
    by_cases ha : a = k
    · subst ha
      by_cases h : k' = a
      · subst h; simp [assocSet, assocGet]
      · have h' : ¬ a = k' := fun e => h e.symm
        simp [assocSet, assocGet, h, h']
    · simp only [assocSet, ha, if_false, assocGet]
      by_cases h2 : a = k'
      · subst h2
        have : ¬ a = k := ha
        simp [this]
      · simp only [h2, if_false]
        exact ih

theorem formatFlagsOf_assocSet_same (tp sf flag : Str) (flat : Flat) :
    formatFlagsOf (assocSet (tp, sf) flag flat) tp = assocSet sf flag (formatFlagsOf flat tp) := by
  induction flat with
  | nil => simp [assocSet, formatFlagsOf]
  | cons p flat ih =>
    obtain ⟨⟨t, s⟩, fl⟩ := p
    unfold formatFlagsOf at ih ⊢
    by_cases h : (t, s) = (tp, sf)
    · injection h with h1 h2; subst h1; subst h2
      simp [assocSet]
    · simp only [assocSet, h, if_false]
      by_cases ht : t = tp
      · subst ht
        have hs : ¬ s = sf := fun e => h (by rw [e])
        simp [assocSet, hs, ih]
      · simp [ht, ih]

theorem formatFlagsOf_assocSet_other (tp sf flag tp' : Str) (flat : Flat) (h : tp' ≠ tp) :
    formatFlagsOf (assocSet (tp, sf) flag flat) tp' = formatFlagsOf flat tp' := by
  induction flat with
  | nil =>
    have : ¬ tp = tp' := fun e => h e.symm
    simp [assocSet, formatFlagsOf, this]
  | cons p flat ih =>
    obtain ⟨⟨t, s⟩, fl⟩ := p
    unfold formatFlagsOf at ih ⊢
    by_cases hk : (t, s) = (tp, sf)
    · injection hk with h1 h2; subst h1; subst h2
      have : ¬ t = tp' := fun e => h e.symm
      simp [assocSet, this]
    · simp only [assocSet, hk, if_false]
      by_cases ht : t = tp' <;> simp [ht, ih]

theorem FF_set (ff : Nested) (flat : Flat) (h : FF ff flat) (tp sf flag : Str) :
    FF (MsgPy.dictSet tp (MsgPy.dictSet sf flag (MsgPy.ddGet ff tp)) ff) (assocSet (tp, sf) flag flat) := by
  intro tp'
  rw [ddGet_dictSet]
  by_cases e : tp' = tp
  · subst e
    rw [if_pos rfl, h, formatFlagsOf_assocSet_same]
  · rw [if_neg e, h, formatFlagsOf_assocSet_other _ _ _ _ _ e]

/-! ### the prefix loop of the `-format` branch -/

theorem forEachBrk_classify (env : FlagEnv) (flag : Str) (body : Str → Bool × Nested → Except Py.Exc (PyKit.Step (Bool × Nested)))
    (hb : ∀ p known ff, body p (known, ff) =
      if (!startsWith p flag) = true then .ok (.next (known, ff))
      else if env.isFormat (sliceTo flag p.length 7) = true then
        .ok (.brk (true, MsgPy.dictSet (rstrip [45] p) (MsgPy.dictSet (sliceTo flag p.length 7) flag (MsgPy.ddGet ff (rstrip [45] p))) ff))
      else .ok (.next (known, ff)))
    (ps : List Str) (known : Bool) (ff : Nested) :
    PyKit.forEachBrk ps body (known, ff) =
      .ok (match classifyFormat env flag ps with
        | some (tp, sf) => (true, MsgPy.dictSet tp (MsgPy.dictSet sf flag (MsgPy.ddGet ff tp)) ff)
        | none => (known, ff)) := by
  induction ps with
  | nil => rfl
  | cons p ps ih =>
    simp only [PyKit.forEachBrk, classifyFormat, hb]
    by_cases h1 : (!startsWith p flag) = true
    · simp only [h1, if_true, ih]
    · simp only [h1, if_false, Bool.false_eq_true]
      by_cases h2 : env.isFormat (sliceTo flag p.length 7) = true
      · simp only [h2, if_true]
      · simp only [h2, if_false, Bool.false_eq_true, ih]

/-! ### the loop over `sorted(flags.items())` -/

/-- the loop-carried variables of the generated loop: `(out, fuzzy, wrap, i, j, range_min, range_max, range_flags, format_flags)` -/
abbrev GSt := List Emit × Bool × Option Bool × Option Nat × Option Nat × Nat × Option Nat × List ((Nat × Nat) × List (Str × Nat)) × Nested

/-- the generated state agrees with the model's (`i`, `j` — bound on some paths only — are not constrained) -/
def R (out0 : List Emit) (st : FSt) (g : GSt) : Prop :=
  g.1 = out0 ++ st.out ∧ g.2.1 = st.fuzzy ∧ g.2.2.1 = st.wrap ∧ g.2.2.2.2.2.1 = st.rangeMin ∧ g.2.2.2.2.2.2.1 = st.rangeMax ∧
  g.2.2.2.2.2.2.2.1 = st.rangeFlags ∧ FF g.2.2.2.2.2.2.2.2 st.formatFlags

theorem forEach_rel {α : Type} (out0 : List Emit) (step : FSt → α → FSt) (body : α → GSt → Except Py.Exc GSt)
    (hb : ∀ x st g, R out0 st g → ∃ g', body x g = .ok g' ∧ R out0 (step st x) g') (xs : List α) (st : FSt) (g : GSt) (h : R out0 st g) :
    ∃ g', PyKit.forEach xs body g = .ok g' ∧ R out0 (xs.foldl step st) g' := by
  induction xs generalizing st g with
  | nil => exact ⟨g, rfl, h⟩
  | cons x xs ih =>
    obtain ⟨g1, e1, h1⟩ := hb x st g h
    obtain ⟨g2, e2, h2⟩ := ih (step st x) g1 h1
    exact ⟨g2, by simp [PyKit.forEach, e1, e2], h2⟩

theorem flagLoop_foldl (env : FlagEnv) (e : Entry) (st : FSt) (items : List (Str × Nat)) :
    flagLoop env e st items = items.foldl (fun st p => flagStep env e st p.1 p.2) st := by
  induction items generalizing st with
  | nil => rfl
  | cons p items ih => obtain ⟨f, n⟩ := p; simp [flagLoop, ih]

theorem ite_ok {α : Type} (c : Prop) [Decidable c] (a b : α) :
    (if c then (Except.ok a : Except Py.Exc α) else .ok b) = .ok (if c then a else b) := by
  split <;> rfl

/-! ### facts about the model's loop that make the partial operations of the source total -/

/-- distinct range keys, only known formats in `format_flags`, no exception so far -/
def P (env : FlagEnv) (st : FSt) : Prop :=
  (keysOf st.rangeFlags).Nodup ∧ (∀ p ∈ st.formatFlags, env.isFormat p.1.2 = true) ∧ noCrash st.out = true

theorem classify_isFormat (env : FlagEnv) (flag : Str) (ps : List Str) (tp sf : Str)
    (h : classifyFormat env flag ps = some (tp, sf)) : env.isFormat sf = true := by
  induction ps with
  | nil => cases h
  | cons p ps ih =>
    unfold classifyFormat at h
    split at h
    · exact ih h
    · simp only at h
      split at h
      · injection h with h; injection h with _ h2; rw [← h2]; assumption
      · exact ih h

theorem mem_assocSet {α β : Type} [DecidableEq α] (k : α) (v : β) (d : List (α × β)) (p : α × β) (h : p ∈ assocSet k v d) :
    p = (k, v) ∨ p ∈ d := by
  induction d with
  | nil => simp [assocSet] at h; exact Or.inl h
  | cons q d ih =>
    obtain ⟨a, b⟩ := q
    unfold assocSet at h
    by_cases ha : a = k
    · simp only [ha, if_true, List.mem_cons] at h
      rcases h with h | h
      · exact Or.inl h
      · exact Or.inr (by simp [h])
    · simp only [ha, if_false, List.mem_cons] at h
      rcases h with h | h
      · exact Or.inr (by simp [h])
      · rcases ih h with h | h
        · exact Or.inl h
        · exact Or.inr (by simp [h])

theorem noCrash_snoc_tag (l : List Emit) (t : MTag) (x : List Extra) : noCrash (l ++ [Emit.tag t x]) = noCrash l := by
  rw [noCrash_append]; simp [noCrash]

theorem P_out (env : FlagEnv) (st : FSt) (h : P env st) (t : MTag) (x : List Extra) :
    P env { st with out := st.out ++ [Emit.tag t x] } :=
  ⟨h.1, h.2.1, by simp only [noCrash_snoc_tag]; exact h.2.2⟩

theorem flagBranch_P (env : FlagEnv) (e : Entry) (st : FSt) (f : Str) (n : Nat) (h : P env st) : P env (flagBranch env e st f n).2.2 := by
  unfold flagBranch
  split
  · exact ⟨h.1, h.2.1, h.2.2⟩
  · split
    · simp only []
      split
      · exact P_out env st h _ _
      · exact ⟨h.1, h.2.1, h.2.2⟩
    · split
      · have h' : P env (if e.msgidPlural.isNone = true then { st with out := st.out ++ [Emit.tag MTag.rangeFlagWithoutPluralString []] } else st) := by
          split
          · exact P_out env st h _ _
          · exact h
        revert h'
        generalize (if e.msgidPlural.isNone = true then { st with out := st.out ++ [Emit.tag MTag.rangeFlagWithoutPluralString []] } else st) = st1
        intro h'
        simp only []
        split
        · exact ⟨nodup_keysOf_assocSet _ _ _ h'.1, h'.2.1, h'.2.2⟩
        · exact P_out env st1 h' _ _
      · split
        · split
          · rename_i tp sf hc
            refine ⟨h.1, ?_, h.2.2⟩
            intro p hp
            rcases mem_assocSet _ _ _ _ hp with rfl | hm
            · exact classify_isFormat env f env.prefixes tp sf hc
            · exact h.2.1 p hm
          · exact h
        · split <;> exact h

theorem flagStep_P (env : FlagEnv) (e : Entry) (st : FSt) (f : Str) (n : Nat) (h : P env st) : P env (flagStep env e st f n) := by
  unfold flagStep
  have hb := flagBranch_P env e st f n h
  revert hb
  generalize flagBranch env e st f n = r
  obtain ⟨known, n', st1⟩ := r
  intro hb
  simp only [] at hb ⊢
  have h1 : P env (if (!known) = true then { st1 with out := st1.out ++ [tagR env.db e tplColon .unknownMessageFlag [.str f]] } else st1) := by
    split
    · exact P_out env st1 hb _ _
    · exact hb
  revert h1
  generalize (if (!known) = true then { st1 with out := st1.out ++ [tagR env.db e tplColon .unknownMessageFlag [.str f]] } else st1) = st2
  intro h1
  split
  · exact P_out env st2 h1 _ _
  · exact h1

theorem flagLoop_P (env : FlagEnv) (e : Entry) (items : List (Str × Nat)) (st : FSt) (h : P env st) : P env (flagLoop env e st items) := by
  induction items generalizing st with
  | nil => exact h
  | cons p items ih => obtain ⟨f, n⟩ := p; exact ih _ (flagStep_P env e st f n h)

/-- the literals of the source the model takes from its environment -/
structure SrcEnv (env : FlagEnv) : Prop where
  prefixes : env.prefixes = MsgChk.loop_const_1
  pairs : env.conflictPairs = MsgChk.loop_const_2
  rangePrefix : env.rangePrefix = lit "range:"
  rangeStrip : env.rangeStrip = lit " \t\r\x0c\x0b"
  rangeSep : env.rangeSep = lit ".."

theorem loop_eq (env : FlagEnv) (henv : SrcEnv env) (e : Entry) (out0 : List Emit)
    (body : Str × Nat → GSt → Except Py.Exc GSt) (items : List (Str × Nat))
    (hb : ∀ x st g, R out0 st g → ∃ g', body x g = .ok g' ∧ R out0 (flagStep env e st x.1 x.2) g') :
    ∃ g', PyKit.forEach items body (out0, false, none, none, none, 0, none, [], []) = .ok g' ∧ R out0 (flagLoop env e {} items) g' := by
  rw [flagLoop_foldl]
  exact forEach_rel out0 _ body hb items {} _ ⟨by simp, rfl, rfl, rfl, rfl, rfl, FF_nil⟩

/-! ### loops that emit -/

theorem forEach_emit_mem {α : Type} (f : α → List Emit) (body : α → List Emit → Except Py.Exc (List Emit)) (xs : List α)
    (hb : ∀ x ∈ xs, ∀ out, body x out = .ok (out ++ f x)) (out : List Emit) :
    PyKit.forEach xs body out = .ok (out ++ xs.flatMap f) := by
  induction xs generalizing out with
  | nil => simp [PyKit.forEach]
  | cons x xs ih =>
    have hx := hb x (by simp) out
    have hxs : ∀ y ∈ xs, ∀ out, body y out = .ok (out ++ f y) := fun y hy => hb y (by simp [hy])
    simp [PyKit.forEach, hx, ih hxs, List.append_assoc]

/-- a loop with a second loop-carried variable that every iteration overwrites -/
theorem forEach_emit_junk {α σ : Type} (f : α → List Emit) (body : α → List Emit × σ → Except Py.Exc (List Emit × σ)) (xs : List α)
    (hb : ∀ x ∈ xs, ∀ out s, ∃ s', body x (out, s) = .ok (out ++ f x, s')) (out : List Emit) (s : σ) :
    ∃ s', PyKit.forEach xs body (out, s) = .ok (out ++ xs.flatMap f, s') := by
  induction xs generalizing out s with
  | nil => exact ⟨s, by simp [PyKit.forEach]⟩
  | cons x xs ih =>
    obtain ⟨s1, h1⟩ := hb x (by simp) out s
    obtain ⟨s2, h2⟩ := ih (fun y hy => hb y (by simp [hy])) (out ++ f x) s1
    exact ⟨s2, by simp [PyKit.forEach, h1, h2, List.append_assoc]⟩

theorem dictGet_of_mem (d : List (Str × Str)) (k : Str) (h : k ∈ keysOf d) :
    PyKit.dictGet d k = .ok ((assocGet k d).getD []) := by
  induction d with
  | nil => cases h
  | cons p d ih =>
    obtain ⟨a, b⟩ := p
    by_cases ha : a = k
    · simp [PyKit.dictGet, assocGet, ha]
    · have : k ∈ keysOf d := by
        simp only [keysOf, List.map_cons, List.mem_cons] at h
        rcases h with h | h
        · exact absurd h.symm ha
        · exact h
      simp [PyKit.dictGet, assocGet, ha, ih this]

theorem examplesOf_known (env : FlagEnv) (f : Str) (h : env.isFormat f = true) : MsgPy.examplesOf env f = .ok (env.examples f) := by
  unfold MsgPy.examplesOf FlagEnv.examples
  unfold FlagEnv.isFormat at h
  generalize env.formats = fs at h
  induction fs with
  | nil => simp at h
  | cons p fs ih =>
    obtain ⟨a, b⟩ := p
    by_cases ha : a = f
    · simp [assocGet, ha]
    · simp only [List.any_cons, ha, decide_false, Bool.false_or] at h
      simp only [assocGet, ha, if_false]
      exact ih h

theorem filter_isEmpty {α : Type} (p : α → Bool) (l : List α) : (l.filter p).isEmpty = !l.any p := by
  induction l with
  | nil => rfl
  | cons x l ih => cases h : p x <;> simp [List.filter_cons, h, ih]

theorem length_sinsert_of_not_mem {α : Type} [DecidableEq α] (lt : α → α → Bool) (x : α) (l : List α) (h : x ∉ l) :
    (sinsert lt x l).length = l.length + 1 := by
  induction l with
  | nil => rfl
  | cons y ys ih =>
    have hxy : x ≠ y := fun e => h (by simp [e])
    have hys : x ∉ ys := fun m => h (by simp [m])
    unfold sinsert
    by_cases c : lt x y = true
    · simp [c]
    · simp [c, hxy, ih hys]

theorem length_toSorted_of_nodup {α : Type} [DecidableEq α] (lt : α → α → Bool) (l : List α) (h : l.Nodup) :
    (toSorted lt l).length = l.length := by
  induction l with
  | nil => rfl
  | cons x xs ih =>
    obtain ⟨hx, hxs⟩ := List.nodup_cons.1 h
    unfold toSorted
    simp only [List.foldr_cons]
    have hnm : x ∉ List.foldr (sinsert lt) [] xs := by
      intro hm
      have : x ∈ toSorted lt xs := hm
      exact hx ((mem_toSorted (lt := lt)).1 this)
    rw [length_sinsert_of_not_mem lt x _ hnm]
    have := ih hxs
    unfold toSorted at this
    rw [this]; rfl

theorem flatMap_single {α β : Type} (g : α → β) (l : List α) : l.flatMap (fun x => [g x]) = l.map g := by
  induction l with
  | nil => rfl
  | cons x l ih => simp [List.flatMap_cons, ih]

theorem mem_keys_formatFlagsOf (flat : Flat) (tp k : Str) (h : k ∈ keysOf (formatFlagsOf flat tp)) : ∃ fl, ((tp, k), fl) ∈ flat := by
  unfold keysOf formatFlagsOf at h
  simp only [List.map_map, List.mem_map, List.mem_filter, decide_eq_true_eq, Function.comp] at h
  obtain ⟨⟨⟨t, s⟩, fl⟩, ⟨hm, ht⟩, hk⟩ := h
  simp only at ht hk
  subst ht; subst hk
  exact ⟨fl, hm⟩

/-- a loop that emits one value per element, where the value may be an exception leaving the method -/
theorem forEach_map_crash {α : Type} (g : α → Emit) (body : α → List Emit → Except Py.Exc (List Emit)) (xs : List α)
    (hb : ∀ x ∈ xs, ∀ out, (noCrash [g x] = true → body x out = .ok (out ++ [g x])) ∧ (noCrash [g x] = false → ∃ e, body x out = .error e))
    (out : List Emit) :
    erase (PyKit.forEach xs body out) = if noCrash (xs.map g) = true then .ok (out ++ xs.map g) else .error () := by
  induction xs generalizing out with
  | nil => simp [PyKit.forEach, noCrash]
  | cons x xs ih =>
    obtain ⟨h1, h2⟩ := hb x (by simp) out
    have hxs : ∀ y ∈ xs, ∀ out, (noCrash [g y] = true → body y out = .ok (out ++ [g y])) ∧ (noCrash [g y] = false → ∃ e, body y out = .error e) :=
      fun y hy => hb y (by simp [hy])
    have hsplit : noCrash (List.map g (x :: xs)) = (noCrash [g x] && noCrash (xs.map g)) := by
      rw [List.map_cons, show g x :: xs.map g = [g x] ++ xs.map g from rfl, noCrash_append]
    rw [hsplit]
    cases hc : noCrash [g x]
    · obtain ⟨e, he⟩ := h2 hc
      simp [PyKit.forEach, he]
    · simp only [PyKit.forEach, h1 hc, ih hxs, Bool.true_and]
      split <;> simp [List.append_assoc]

theorem not_crash_mem_of_tags (l : List Emit) (h : ∀ x ∈ l, ∃ t ex, x = Emit.tag t ex) : noCrash l = true := by
  rw [noCrash_iff]
  intro c hc
  obtain ⟨t, ex, e⟩ := h _ hc
  cases e

theorem noCrash_rangeTail (env : FlagEnv) (e : Entry) (rf : List ((Nat × Nat) × List (Str × Nat))) : noCrash (rangeTail env e rf) = true := by
  apply not_crash_mem_of_tags
  intro x hx
  unfold rangeTail at hx
  split at hx
  · split at hx
    · simp only [List.mem_singleton] at hx; exact ⟨_, _, hx⟩
    · cases hx
  · split at hx
    · split at hx
      · simp only [List.mem_singleton] at hx; exact ⟨_, _, hx⟩
      · cases hx
    · cases hx

theorem noCrash_positivePairs (env : FlagEnv) (e : Entry) (pos : List (Str × Str)) : noCrash (positivePairs env e pos) = true := by
  apply not_crash_mem_of_tags
  intro x hx
  unfold positivePairs at hx
  simp only [List.mem_flatMap] at hx
  obtain ⟨f1, _, f2, _, hx⟩ := hx
  split at hx
  · cases hx
  · split at hx
    · cases hx
    · simp only [List.mem_singleton] at hx; exact ⟨_, _, hx⟩

theorem noCrash_conflictLoop (env : FlagEnv) (e : Entry) (ff : Flat) : noCrash (conflictLoop env e ff) = true := by
  apply not_crash_mem_of_tags
  intro x hx
  unfold conflictLoop at hx
  simp only [List.mem_flatMap, List.mem_map] at hx
  obtain ⟨pn, _, f, _, hx⟩ := hx
  exact ⟨_, _, hx.symm⟩

/-- the emissions contain an exception leaving the method -/
def hasCrash (l : List Emit) : Bool := l.any fun x => match x with | .crash _ => true | _ => false

theorem check_message_flags_eq (env : FlagEnv) (henv : SrcEnv env) (e : Entry) (out0 : List Emit) :
    erase (MsgChk.check_message_flags env out0 e) =
      if noCrash (checkMessageFlags env e).2 = true then
        .ok (((checkMessageFlags env e).1.fuzzy, (checkMessageFlags env e).1.rangeMin, (checkMessageFlags env e).1.rangeMax,
               keysOf (formatFlagsOf (flagLoop env e {} (sortedFlagItems e.flags)).formatFlags [])),
             out0 ++ (checkMessageFlags env e).2)
      else .error () := by
  unfold_generated_msgchk
  generalize hfe : PyKit.forEach (sortedFlagItems e.flags) _ _ = r
  have hloop : ∃ g', r = .ok g' ∧ R out0 (flagLoop env e {} (sortedFlagItems e.flags)) g' := by
    rw [← hfe]
    clear hfe
    refine loop_eq env henv e out0 _ _ ?hb
    intro x st g hR
    obtain ⟨flag, n⟩ := x
    obtain ⟨o, fz, w, i, j, rmin, rmax, rf, ff⟩ := g
    obtain ⟨h1, h2, h3, h4, h5, h6, h7⟩ := hR
    simp only at h1 h2 h3 h4 h5 h6 h7
    subst h1 h2 h3 h4 h5 h6
    simp only []
    by_cases c1 : flag = lit "fuzzy"
    · simp only [c1, decide_true, if_true, Bool.not_true, Bool.false_eq_true, if_false, ite_ok]
      refine ⟨_, rfl, ?_⟩
      by_cases hn : n > 1 <;> simp [R, flagStep, flagBranch, hn, h7, tagR, List.append_assoc, lit]
    · have c1' : decide (flag = lit "fuzzy") = false := by simpa using c1
      simp only [c1', Bool.false_eq_true, if_false]
      by_cases c2 : flag = lit "wrap" ∨ flag = lit "no-wrap"
      · have c2' : [lit "wrap", lit "no-wrap"].contains flag = true := by
          rcases c2 with h | h <;> simp [h]
        simp only [c2', if_true, ite_ok, Bool.not_true, Bool.false_eq_true, if_false]
        refine ⟨_, rfl, ?_⟩
        have hfne : flag ≠ [] := by rcases c2 with h | h <;> rw [h] <;> decide
        by_cases hw : st.wrap = some (!decide (flag = lit "wrap")) <;> by_cases hn : n > 1 <;>
          simp [R, flagStep, flagBranch, c1, c2, hw, hn, hfne, h7, tagR, List.append_assoc, tplColon]
      · have c2' : [lit "wrap", lit "no-wrap"].contains flag = false := by
          simp only [not_or] at c2
          simp [c2.1, c2.2]
        simp only [c2', Bool.false_eq_true, if_false]
        by_cases c3 : startsWith (lit "range:") flag = true
        · have c3' : MsgPy.startswith (lit "range:") flag = true := c3
          have hlen : (lit "range:").length = 6 := by decide
          have hfne : flag ≠ [] := by
            intro h; rw [h] at c3; revert c3; decide
          simp only [c3', if_true, ite_ok]
          cases hm : matchRange (lit "..") (MsgPy.strip (lit " \t\x0d\x0c\x0b") (List.drop 6 flag)) with
          | none =>
            simp only [ite_ok, Bool.not_true, Bool.false_eq_true, if_false]
            refine ⟨_, rfl, ?_⟩
            have hp : parseRange env flag = none := by
              unfold parseRange
              rw [henv.rangeSep, henv.rangeStrip, henv.rangePrefix, hlen]
              exact (by rw [show strip (lit " \t\x0d\x0c\x0b") (List.drop 6 flag) = MsgPy.strip (lit " \t\x0d\x0c\x0b") (List.drop 6 flag) from rfl, hm])
            by_cases hn : n > 1 <;> cases hpl : e.msgidPlural <;>
              simp [R, flagStep, flagBranch, c1, c2, henv.rangePrefix, c3, hp, hn, hfne, hpl, h7, tagR, List.append_assoc, tplColon]
          | some ab =>
            obtain ⟨a, b⟩ := ab
            by_cases hab : a < b
            · simp only [hab, decide_true, if_true, ite_ok, PyKit.bound, Bool.not_true, Bool.false_eq_true, if_false]
              refine ⟨_, rfl, ?_⟩
              have hp : parseRange env flag = some (a, b) := by
                unfold parseRange
                rw [henv.rangeSep, henv.rangeStrip, henv.rangePrefix, hlen]
                rw [show strip (lit " \t\x0d\x0c\x0b") (List.drop 6 flag) = MsgPy.strip (lit " \t\x0d\x0c\x0b") (List.drop 6 flag) from rfl, hm]
                simp [hab]
              cases hpl : e.msgidPlural <;>
                simp [R, flagStep, flagBranch, c1, c2, henv.rangePrefix, c3, hp, hpl, h7, tagR, List.append_assoc, tplColon, rangeAdd,
                  MsgPy.ddGet, MsgPy.dictSet] <;> rfl
            · simp only [hab, decide_false, Bool.false_eq_true, if_false, ite_ok, Bool.not_true]
              refine ⟨_, rfl, ?_⟩
              have hp : parseRange env flag = none := by
                unfold parseRange
                rw [henv.rangeSep, henv.rangeStrip, henv.rangePrefix, hlen]
                rw [show strip (lit " \t\x0d\x0c\x0b") (List.drop 6 flag) = MsgPy.strip (lit " \t\x0d\x0c\x0b") (List.drop 6 flag) from rfl, hm]
                simp [hab]
              by_cases hn : n > 1 <;> cases hpl : e.msgidPlural <;>
                simp [R, flagStep, flagBranch, c1, c2, henv.rangePrefix, c3, hp, hn, hfne, hpl, h7, tagR, List.append_assoc, tplColon]
        · have c3' : MsgPy.startswith (lit "range:") flag = false := by simpa using c3
          simp only [c3', Bool.false_eq_true, if_false]
          by_cases c4 : endsWith (lit "-format") flag = true
          · have c4' : MsgPy.endswith (lit "-format") flag = true := c4
            have hfne : flag ≠ [] := by
              intro h; rw [h] at c4; revert c4; decide
            simp only [c4', if_true]
            rw [forEachBrk_classify env flag _ ?hbc]
            case hbc =>
              intro p known ff
              have e45 : lit "-" = [45] := by decide
              simp only [MsgPy.startswith, MsgPy.rstrip, e45]
            rw [← henv.prefixes]
            cases hc : classifyFormat env flag env.prefixes with
            | none =>
              simp only [ite_ok, Bool.not_false, if_true]
              refine ⟨_, rfl, ?_⟩
              by_cases hn : n > 1 <;>
                simp [R, flagStep, flagBranch, c1, c2, henv.rangePrefix, c3, formatSuffix, c4, hc, hn, hfne, h7, tagR, List.append_assoc, tplColon]
            | some ts =>
              obtain ⟨tp, sf⟩ := ts
              simp only [ite_ok, Bool.not_true, Bool.false_eq_true, if_false]
              refine ⟨_, rfl, ?_⟩
              have hff := FF_set ff st.formatFlags h7 tp sf flag
              by_cases hn : n > 1 <;>
                simp [R, flagStep, flagBranch, c1, c2, henv.rangePrefix, c3, formatSuffix, c4, hc, hn, hfne, hff, tagR, List.append_assoc, tplColon]
          · have c4' : MsgPy.endswith (lit "-format") flag = false := by simpa using c4
            simp only [c4', Bool.false_eq_true, if_false, ite_ok]
            refine ⟨_, rfl, ?_⟩
            by_cases c5 : flag = lit "markdown-text"
            · have hfne : flag ≠ [] := by rw [c5]; decide
              have c5' : (flag = lit "markdown-text") = True := eq_true c5
              by_cases hn : n > 1 <;>
                simp [R, flagStep, flagBranch, c1, c2, henv.rangePrefix, c3, formatSuffix, c4, c5', hn, hfne, h7, tagR, List.append_assoc, tplColon]
            · by_cases hf : flag = []
              · have hf' : (flag = []) = True := eq_true hf
                have hie : flag.isEmpty = true := by rw [hf]; rfl
                by_cases hn : n > 1 <;>
                  simp [R, flagStep, flagBranch, c1, c2, henv.rangePrefix, c3, formatSuffix, c4, c5, hn, hf', hie, h7, tagR, List.append_assoc, tplColon]
              · by_cases hn : n > 1 <;>
                  simp [R, flagStep, flagBranch, c1, c2, henv.rangePrefix, c3, formatSuffix, c4, c5, hn, hf, h7, tagR, List.append_assoc, tplColon]
  obtain ⟨g', hr, hR⟩ := hloop
  subst hr
  clear hfe
  have hP := flagLoop_P env e (sortedFlagItems e.flags) {} ⟨by simp [keysOf], by simp, rfl⟩
  unfold checkMessageFlags
  revert hR hP
  generalize flagLoop env e {} (sortedFlagItems e.flags) = st
  intro hR hP
  obtain ⟨o, fz, w, i, j, rmin, rmax, rf, ff⟩ := g'
  obtain ⟨h1, h2, h3, h4, h5, h6, h7⟩ := hR
  simp only at h1 h2 h3 h4 h5 h6 h7
  subst h1 h2 h3 h4 h5 h6
  obtain ⟨hnd, hknown, hnc⟩ := hP
  simp only []
  -- the range part
  generalize hA : (if decide (st.rangeFlags.length > 1) = true then _ else _) = rA
  have hA' : rA = .ok (out0 ++ st.out ++ rangeTail env e st.rangeFlags) := by
    rw [← hA]
    clear hA
    unfold rangeTail
    have hlen : (toSorted pairLt (keysOf st.rangeFlags)).length = st.rangeFlags.length := by
      rw [length_toSorted_of_nodup _ _ hnd]; simp [keysOf]
    by_cases c1 : st.rangeFlags.length > 1
    · simp only [c1, decide_true, if_true, MsgPy.nsmallest2]
      have hk : PyKit.keys st.rangeFlags = keysOf st.rangeFlags := rfl
      rw [hk]
      rcases hts : toSorted pairLt (keysOf st.rangeFlags) with _ | ⟨r1, _ | ⟨r2, rest⟩⟩
      · rw [hts] at hlen; simp at hlen; omega
      · rw [hts] at hlen; simp at hlen; omega
      · simp only [List.take, MsgPy.ddGet]
        rfl
    · simp only [c1, decide_false, Bool.false_eq_true, if_false]
      by_cases c2 : st.rangeFlags.length = 1
      · simp only [c2, decide_true, if_true]
        rcases hrf : st.rangeFlags with _ | ⟨⟨k, c⟩, _ | ⟨q, rest⟩⟩
        · rw [hrf] at c2; simp at c2
        · have hv : MsgPy.values c = c.map (·.2) := rfl
          have hvs : MsgPy.values [(k, c)] = [c] := rfl
          rw [hvs]
          simp only [hv]
          by_cases hs : (c.map (·.2)).sum > 1
          · simp [hs, tagR, PyKit.keys, keysOf, List.append_assoc]
          · simp [hs]
        · rw [hrf] at c2; simp at c2
      · simp only [c2, decide_false, Bool.false_eq_true, if_false]
        rcases hrf : st.rangeFlags with _ | ⟨⟨k, c⟩, _ | ⟨q, rest⟩⟩
        · simp
        · rw [hrf] at c2; simp at c2
        · rw [hrf] at c1; simp at c1
  subst hA'
  clear hA
  have h7' : ∀ tp, MsgPy.ddGet ff tp = formatFlagsOf st.formatFlags tp := h7
  simp only [h7']
  -- conflicts between positive format flags
  have hkn : ∀ tp k, k ∈ keysOf (formatFlagsOf st.formatFlags tp) → env.isFormat k = true := by
    intro tp k hk
    obtain ⟨fl, hm⟩ := mem_keys_formatFlagsOf _ _ _ hk
    exact hknown _ hm
  generalize hpos : formatFlagsOf st.formatFlags [] = pos at hkn ⊢
  have hkp : ∀ k ∈ toSorted strLt (keysOf pos), env.isFormat k = true := by
    intro k hk
    have := hkn [] k (by rw [hpos]; exact (mem_toSorted (lt := strLt)).1 hk)
    exact this
  generalize hB : PyKit.forEach (MsgPy.sortedItems pos) _ _ = rB
  have hB' : rB = .ok (out0 ++ st.out ++ rangeTail env e st.rangeFlags ++ positivePairs env e pos) := by
    rw [← hB]
    clear hB
    unfold positivePairs MsgPy.sortedItems
    rw [forEach_emit_mem (fun x => (toSorted strLt (keysOf pos)).flatMap fun f2 =>
        if !strLt x.1 f2 then [] else if shareExample env x.1 f2 then [] else
          [tagR env.db e tplColon .conflictingMessageFlags [.str x.2, .str ((assocGet f2 pos).getD [])]]) _ _ ?hb1]
    case hb1 =>
      intro x hx o
      obtain ⟨k1, hk1, rfl⟩ := List.mem_map.1 hx
      rw [forEach_emit_mem (fun y => if !strLt k1 y.1 then [] else if shareExample env k1 y.1 then [] else
          [tagR env.db e tplColon .conflictingMessageFlags [.str ((assocGet k1 pos).getD []), .str y.2]]) _ _ ?hb2]
      case hb2 =>
        intro y hy o2
        obtain ⟨k2, hk2, rfl⟩ := List.mem_map.1 hy
        simp only [examplesOf_known env k1 (hkp k1 hk1), examplesOf_known env k2 (hkp k2 hk2), PyKit.setInter, filter_isEmpty, Bool.not_not,
          shareExample, ite_ok, tagR]
        congr 1
        split <;> (try split) <;> simp_all
      simp only [List.flatMap_map]
      rfl
    simp only [List.flatMap_map]
    rfl
  subst hB'
  clear hB
  simp only []
  -- positive against negative kinds
  have mem_common : ∀ (a b : List (Str × Str)) (k : Str),
      k ∈ MsgPy.sortedSet (PyKit.setInter (PyKit.keys a) (PyKit.keys b)) → k ∈ keysOf a ∧ k ∈ keysOf b := by
    intro a b k hk
    have := (mem_toSorted (lt := strLt)).1 hk
    simp only [PyKit.setInter, List.mem_filter, List.contains_eq_mem, decide_eq_true_eq] at this
    exact this
  generalize hC : PyKit.forEach MsgChk.loop_const_2 _ _ = rC
  obtain ⟨s', hC'⟩ : ∃ s', rC = .ok (out0 ++ st.out ++ rangeTail env e st.rangeFlags ++ positivePairs env e pos ++ conflictLoop env e st.formatFlags, s') := by
    rw [← hC]
    clear hC
    unfold conflictLoop
    rw [henv.pairs]
    refine forEach_emit_junk (fun (pn : Str × Str) => (commonKeys (formatFlagsOf st.formatFlags pn.1) (formatFlagsOf st.formatFlags pn.2)).map fun f =>
        tagR env.db e tplColon .conflictingMessageFlags [.str ((assocGet f (formatFlagsOf st.formatFlags pn.1)).getD []),
          .str ((assocGet f (formatFlagsOf st.formatFlags pn.2)).getD [])]) _ _ ?hbc _ _
    intro x hx o s
    rw [forEach_emit_mem (fun f => [tagR env.db e tplColon .conflictingMessageFlags [.str ((assocGet f (formatFlagsOf st.formatFlags x.1)).getD []),
          .str ((assocGet f (formatFlagsOf st.formatFlags x.2)).getD [])]]) _ _ ?hbi]
    case hbi =>
      intro f hf o2
      obtain ⟨h1, h2⟩ := mem_common _ _ f hf
      simp only [dictGet_of_mem _ _ h1, dictGet_of_mem _ _ h2, tagR]
    simp only []
    refine ⟨formatFlagsOf st.formatFlags x.1, ?_⟩
    simp only [commonKeys, MsgPy.sortedSet, PyKit.setInter, PyKit.keys, keysOf, flatMap_single]
  subst hC'
  clear hC
  simp only []
  -- `possible-<fmt>-format` next to `<fmt>-format`: the one place an exception can come from (`safe_format` of the interpolated text)
  generalize hposs : formatFlagsOf st.formatFlags (lit "possible") = poss
  have hD := forEach_map_crash
    (fun f => match impliedBy ((assocGet f pos).getD []) with
      | .ok s => tagR env.db e tplColon .redundantMessageFlag [.str ((assocGet f poss).getD []), .safe s]
      | .error err => Emit.crash (.format err))
    (fun fmt out__ =>
      match PyKit.dictGet poss fmt with
      | Except.error e => Except.error e
      | Except.ok tmp11 =>
        match PyKit.dictGet pos fmt with
        | Except.error e => Except.error e
        | Except.ok tmp12 =>
          match MsgPy.safeFormat (lit "(implied by " ++ tmp12 ++ lit ")") with
          | Except.error e => Except.error e
          | Except.ok tmp13 =>
            Except.ok (out__ ++ [Emit.tag MTag.redundantMessageFlag [Entry.repr env.db e tplColon, Extra.str tmp11, Extra.safe tmp13]]))
    (MsgPy.sortedSet (PyKit.setInter (PyKit.keys pos) (PyKit.keys poss))) ?hbd
    (out0 ++ st.out ++ rangeTail env e st.rangeFlags ++ positivePairs env e pos ++ conflictLoop env e st.formatFlags)
  case hbd =>
    intro f hf o
    obtain ⟨h1, h2⟩ := mem_common _ _ f hf
    simp only [dictGet_of_mem _ _ h1, dictGet_of_mem _ _ h2, MsgPy.safeFormat, impliedBy]
    cases Tags.pyFormat (lit "(implied by " ++ (assocGet f pos).getD [] ++ lit ")") [] [] with
    | ok s => simp [noCrash, tagR]
    | error err => simp [noCrash]
  generalize hfd : PyKit.forEach (MsgPy.sortedSet (PyKit.setInter (PyKit.keys pos) (PyKit.keys poss))) _ _ = rD
  have hD' := (show erase rD = erase _ from by rw [← hfd]; rfl).trans hD
  clear hD hfd
  have hnc' : noCrash (st.out ++ rangeTail env e st.rangeFlags ++ positivePairs env e pos ++ conflictLoop env e st.formatFlags ++
      redundantLoop env e st.formatFlags) = noCrash (redundantLoop env e st.formatFlags) := by
    simp only [noCrash_append, hnc, noCrash_rangeTail, noCrash_positivePairs, noCrash_conflictLoop, Bool.true_and]
  have hred : redundantLoop env e st.formatFlags =
      List.map (fun f => match impliedBy ((assocGet f pos).getD []) with
        | .ok s => tagR env.db e tplColon .redundantMessageFlag [.str ((assocGet f poss).getD []), .safe s]
        | .error err => Emit.crash (.format err)) (MsgPy.sortedSet (PyKit.setInter (PyKit.keys pos) (PyKit.keys poss))) := by
    unfold redundantLoop
    simp only [hpos, hposs]
    rfl
  rw [hnc', hred]
  revert hD'
  generalize List.map _ (MsgPy.sortedSet (PyKit.setInter (PyKit.keys pos) (PyKit.keys poss))) = red
  intro hD'
  cases hcr : noCrash red
  · rw [hcr] at hD'
    simp only [Bool.false_eq_true, if_false] at hD' ⊢
    cases rD with
    | error e => rfl
    | ok v => cases hD'
  · rw [hcr] at hD'
    simp only [if_true] at hD' ⊢
    cases rD with
    | error e => cases hD'
    | ok v =>
      simp only [erase_ok] at hD'
      injection hD' with hD'
      subst hD'
      simp only [erase_ok, List.append_assoc]
      rfl

end I18n.Msg.Gen
