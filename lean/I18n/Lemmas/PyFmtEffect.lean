import I18n.Lemmas.PyFmtScan
import I18n.Lemmas.PyFmtConv
import I18n.Spec.PyFmtArgs
/-!
# A specification the parser accepted formats, given values of the reported types
-/
set_option linter.unusedSimpArgs false
namespace I18n.PyFmt
open I18n.Spec.CPyPercent I18n.Spec.PyFmtArgs
open I18n.Generated.PyFormatTables (flagChars lengthChars octCvt hexCvt intCvt floatCvt allCvt SSIZE_MAX typeTable
  variableWidthType variablePrecisionType)

theorem lookup_mem {α β : Type} [BEq α] [LawfulBEq α] : ∀ (l : List (α × β)) (a : α) (b : β), l.lookup a = some b → (a, b) ∈ l := by
  intro l
  induction l with
  | nil => intro a b h; cases h
  | cons p ps ih =>
    intro a b h
    obtain ⟨a', b'⟩ := p
    simp only [List.lookup] at h
    split at h
    · rename_i heq
      cases h
      have : a = a' := by simpa using heq
      subst this
      exact List.mem_cons_self
    · exact List.mem_cons_of_mem _ (ih a b h)

/-- the value check of `unicode_format_arg_format` passes for a value of the reported type -/
theorem formatValue_ok {c : Char} {tp : String} {parent : Nat} {v : Val} {p : Option Nat}
    (hl : typeTable.lookup c = some tp) (hn : tp ≠ "None") (hv : okFor ⟨.conv, tp, parent⟩ v)
    (hp : ∀ n, p = some n → intCvt.contains c = true → n ≤ INT_MAX - 3) :
    formatValue c p v = .ok () := by
  have hm := lookup_mem _ _ _ hl
  simp only [typeTable, List.mem_cons, Prod.mk.injEq, List.not_mem_nil, or_false] at hm
  have hint : ∀ n, p = some n → c ∈ intCvt → n ≤ INT_MAX - 3 := fun n h1 h2 => hp n h1 (by simpa using h2)
  rcases hm with ⟨rfl, rfl⟩ | ⟨rfl, rfl⟩ | ⟨rfl, rfl⟩ | ⟨rfl, rfl⟩ | ⟨rfl, rfl⟩ | ⟨rfl, rfl⟩ | ⟨rfl, rfl⟩ | ⟨rfl, rfl⟩ | ⟨rfl, rfl⟩ |
    ⟨rfl, rfl⟩ | ⟨rfl, rfl⟩ | ⟨rfl, rfl⟩ | ⟨rfl, rfl⟩ | ⟨rfl, rfl⟩ | ⟨rfl, rfl⟩ | ⟨rfl, rfl⟩ | ⟨rfl, rfl⟩
  all_goals first
    | exact absurd rfl hn                                   -- `%`
    | (-- s r a
       unfold formatValue
       simp only [Char.reduceEq, or_false, false_or, or_true, true_or, if_true, if_false]
       done)
    | (-- d i u o x X
       simp only [okFor, if_true] at hv
       obtain ⟨n, rfl⟩ := hv
       unfold formatValue
       simp only [Char.reduceEq, or_false, false_or, or_true, true_or, if_true, if_false, decide_true, decide_false, Bool.not_true,
         Bool.false_eq_true]
       cases p with
       | none => rfl
       | some q =>
         have := hint q rfl (by simp [intCvt])
         simp only []
         rw [if_neg (by omega)])
    | (-- e E f F g G
       simp only [okFor, String.reduceEq, if_true, if_false] at hv
       unfold formatValue
       simp only [Char.reduceEq, or_false, false_or, or_true, true_or, if_true, if_false]
       rcases hv with rfl | ⟨n, rfl, hlt⟩
       · rfl
       · simp only []
         rw [if_neg (by omega)])
    | (-- c
       simp only [okFor, String.reduceEq, if_true, if_false] at hv
       unfold formatValue
       simp only [Char.reduceEq, or_false, false_or, or_true, true_or, if_true, if_false]
       rcases hv with rfl | ⟨n, rfl, h0, h1⟩
       · rfl
       · simp only []
         rw [if_neg (by omega)])

/-! ## numeric side conditions -/

theorem ssize_le_py {n : Nat} (h : n ≤ SSIZE_MAX) : n ≤ PY_SSIZE_T_MAX := by
  simp only [SSIZE_MAX, PY_SSIZE_T_MAX] at *; omega

theorem ssize_le_int {n : Nat} (h : n ≤ SSIZE_MAX) : n ≤ INT_MAX := by
  simp only [SSIZE_MAX, INT_MAX] at *; omega

theorem ssize3_le_int3 {n : Nat} (h : n ≤ SSIZE_MAX - 3) : n ≤ INT_MAX - 3 := by
  simp only [SSIZE_MAX, INT_MAX] at *; omega

theorem star_width_range {n : Int} (h0 : -2147483648 ≤ n) (h1 : n ≤ 2147483644) :
    ¬ (n < -(PY_SSIZE_T_MAX : Int) - 1 ∨ n > PY_SSIZE_T_MAX) := by
  simp only [PY_SSIZE_T_MAX]; omega

theorem star_prec_range {n : Int} (h0 : -2147483648 ≤ n) (h1 : n ≤ 2147483644) :
    ¬ (n < -(INT_MAX : Int) - 1 ∨ n > INT_MAX) := by
  simp only [INT_MAX]; omega

theorem star_prec_small {n : Int} (h1 : n ≤ 2147483644) : n.toNat ≤ INT_MAX - 3 := by
  simp only [INT_MAX]; omega

/-! ## lists of values against lists of entries -/

theorem okAll_nil {vs : List Val} (h : okAll [] vs) : vs = [] := by
  cases vs with
  | nil => rfl
  | cons v vs => simp [okAll] at h

theorem okAll_cons {e : Entry} {es : List Entry} {vs : List Val} (h : okAll (e :: es) vs) :
    ∃ v vs', vs = v :: vs' ∧ okFor e v ∧ okAll es vs' := by
  cases vs with
  | nil => simp [okAll] at h
  | cons v vs' => exact ⟨v, vs', rfl, h.1, h.2⟩

theorem okAll_append : ∀ (a b : List Entry) (vs : List Val), okAll (a ++ b) vs →
    ∃ v1 v2, vs = v1 ++ v2 ∧ okAll a v1 ∧ okAll b v2 := by
  intro a
  induction a with
  | nil => intro b vs h; exact ⟨[], vs, rfl, trivial, h⟩
  | cons e es ih =>
    intro b vs h
    obtain ⟨v, vs', rfl, h1, h2⟩ := okAll_cons h
    obtain ⟨v1, v2, rfl, h3, h4⟩ := ih b vs' h2
    exact ⟨v :: v1, v2, rfl, ⟨h1, h3⟩, h4⟩

/-! ## unnamed specifications against a tuple -/

theorem effect_tuple {d : Directive} {tp : String} {parent : Nat} {vs rest : List Val}
    (hin : d.inRange) (hl : typeTable.lookup d.conv = some tp) (hk : d.key = none) (hn : tp ≠ "None")
    (hv : okAll (seqAdd d tp parent) vs) :
    effect d ⟨none, .tup (vs ++ rest)⟩ = .ok ⟨none, .tup rest⟩ := by
  obtain ⟨key, flags, width, prec, length, conv⟩ := d
  dsimp only at hl hk
  subst hk
  obtain ⟨hw, hp⟩ := hin
  dsimp only at hw hp
  simp only [seqAdd, hn, if_false] at hv
  obtain ⟨v12, v3, rfl, hv12, hv3⟩ := okAll_append _ _ _ hv
  obtain ⟨v1, v2, rfl, hv1, hv2⟩ := okAll_append _ _ _ hv12
  obtain ⟨v, vn, rfl, hvc, hnil⟩ := okAll_cons hv3
  have := okAll_nil hnil; subst this
  have fv_none : formatValue conv none v = .ok () := formatValue_ok (p := none) hl hn hvc (fun n h => by cases h)
  have fv : ∀ q : Nat, (intCvt.contains conv = true → q ≤ INT_MAX - 3) → formatValue conv (some q) v = .ok () :=
    fun q hq => formatValue_ok (p := some q) hl hn hvc (fun n h hi => by cases h; exact hq hi)
  simp only [effect, keyStep]
  cases width with
  | star =>
    simp only [widthEntries] at hv1
    obtain ⟨a, an, rfl, ha, hnil1⟩ := okAll_cons hv1
    have := okAll_nil hnil1; subst this
    simp only [okFor] at ha
    obtain ⟨n, rfl, n0, n1⟩ := ha
    simp only [widthStep, getNextArg, List.cons_append, List.nil_append, List.append_assoc, if_neg (star_width_range n0 n1)]
    cases prec with
    | none =>
      simp only [precEntries] at hv2
      have := okAll_nil hv2; subst this
      simp only [precStep, getNextArg, List.nil_append, List.cons_append,
        fv_none]
      rfl
    | some pr =>
      cases pr with
      | star =>
        simp only [precEntries] at hv2
        obtain ⟨b, bn, rfl, hb, hnil2⟩ := okAll_cons hv2
        have := okAll_nil hnil2; subst this
        simp only [okFor] at hb
        obtain ⟨m, rfl, m0, m1⟩ := hb
        simp only [precStep, getNextArg, List.nil_append, List.cons_append, if_neg (star_prec_range m0 m1),
          fv _ (fun _ => star_prec_small m1)]
        rfl
      | num q =>
        simp only [precEntries] at hv2
        have := okAll_nil hv2; subst this
        obtain ⟨q1, q2⟩ := hp q rfl
        simp only [precStep, getNextArg, List.nil_append, List.cons_append, if_pos (ssize_le_int q1),
          fv _ (fun hi => ssize3_le_int3 (q2 hi))]
        rfl
  | num wn =>
    simp only [widthEntries] at hv1
    have := okAll_nil hv1; subst this
    simp only [widthStep, if_pos (ssize_le_py (hw wn rfl)), List.nil_append]
    cases prec with
    | none =>
      simp only [precEntries] at hv2
      have := okAll_nil hv2; subst this
      simp only [precStep, getNextArg, List.nil_append, List.cons_append,
        fv_none]
      rfl
    | some pr =>
      cases pr with
      | star =>
        simp only [precEntries] at hv2
        obtain ⟨b, bn, rfl, hb, hnil2⟩ := okAll_cons hv2
        have := okAll_nil hnil2; subst this
        simp only [okFor] at hb
        obtain ⟨m, rfl, m0, m1⟩ := hb
        simp only [precStep, getNextArg, List.nil_append, List.cons_append, if_neg (star_prec_range m0 m1),
          fv _ (fun _ => star_prec_small m1)]
        rfl
      | num q =>
        simp only [precEntries] at hv2
        have := okAll_nil hv2; subst this
        obtain ⟨q1, q2⟩ := hp q rfl
        simp only [precStep, getNextArg, List.nil_append, List.cons_append, if_pos (ssize_le_int q1),
          fv _ (fun hi => ssize3_le_int3 (q2 hi))]
        rfl

/-! ## named specifications against a mapping -/

theorem effect_dict {d : Directive} {tp : String} {parent : Nat} {m : List (List Char × Val)} {cur : Cur} {k : List Char} {v : Val}
    (hin : d.inRange) (hl : typeTable.lookup d.conv = some tp) (hk : d.key = some k) (hn : tp ≠ "None")
    (hs : seqAdd d tp parent = []) (hm : Spec.CPyPercent.lookup m k = some v) (hv : okFor ⟨.conv, tp, parent⟩ v) :
    effect d ⟨some m, cur⟩ = .ok ⟨some m, .one v true⟩ := by
  obtain ⟨key, flags, width, prec, length, conv⟩ := d
  dsimp only at hl hk
  subst hk
  obtain ⟨hw, hp⟩ := hin
  dsimp only at hw hp
  have fv_none : formatValue conv none v = .ok () := formatValue_ok (p := none) hl hn hv (fun n h => by cases h)
  have fv : ∀ q : Nat, (intCvt.contains conv = true → q ≤ INT_MAX - 3) → formatValue conv (some q) v = .ok () :=
    fun q hq => formatValue_ok (p := some q) hl hn hv (fun n h hi => by cases h; exact hq hi)
  simp only [seqAdd, List.append_eq_nil_iff] at hs
  obtain ⟨⟨hs1, hs2⟩, _⟩ := hs
  simp only [effect, keyStep, hm]
  cases width with
  | star => simp [widthEntries] at hs1
  | num wn =>
    simp only [widthStep, if_pos (ssize_le_py (hw wn rfl))]
    cases prec with
    | none =>
      simp only [precStep, getNextArg, fv_none]
      rfl
    | some pr =>
      cases pr with
      | star => simp [precEntries] at hs2
      | num q =>
        obtain ⟨q1, q2⟩ := hp q rfl
        simp only [precStep, getNextArg, if_pos (ssize_le_int q1), fv _ (fun hi => ssize3_le_int3 (q2 hi))]
        rfl

end I18n.PyFmt
