import I18n.Generated.ChkLang
import I18n.Lemmas.LingGenerated
import I18n.Lemmas.PyKitLemmas
/-!
# The path-derived part of `Checker.check_language` regenerated from `lib/check/__init__.py` equals the model's `Locale.stagePath`
-/
set_option linter.unusedSimpArgs false
set_option linter.unusedVariables false
namespace I18n.Locale.Gen
open I18n I18n.Locale I18n.Locale.Py I18n.Generated I18n.PyKit

/-- the result of the model's `stagePath` as the three locals of the code -/
def ofStage (r : Except LErr PathStage) : Except LErr (Option Language × List Char × Nat) :=
  r.map (fun ps => (ps.language, ps.source.toList, ps.quality))

theorem listIndex_eq (xs : List (List Char)) (x : List Char) :
    PyKit.tryExcept (listIndex xs x) (fun e => e == .valueError) (.ok 0) =
      .ok (if xs.findIdx (· = x) < xs.length then xs.findIdx (· = x) else 0) := by
  unfold listIndex
  split <;> rfl

set_option hygiene false in
/-- the base-name stage, once the earlier stages have produced no language -/
local macro "base_tac" : tactic => `(tactic| (
  cases hps : parseLanguageE stem with
  | error e => cases e <;> simp [hps, PyKit.tryExcept, LErr.isLanguageError, Except.map, Except.bind]
  | ok l =>
    cases hen : l.enc with
    | some en => simp [hen, hps, PyKit.tryExcept, LErr.isLanguageError, Except.map, Except.bind]
    | none =>
      cases hfx : fixCodes l with
      | error e => cases e <;> simp [hen, hfx, PyKit.tryExcept, LErr.isLanguageError, Except.map, Except.bind]
      | ok r => obtain ⟨l', f⟩ := r; simp [hen, hfx, PyKit.tryExcept, Except.map, Except.bind]))

set_option hygiene false in
/-- after the `LC_MESSAGES` stage: closed already, or the base-name stage remains -/
local macro "after_lc" : tactic => `(tactic| (
  first
    | (simp [PyKit.tryExcept, LErr.isLanguageError, Except.map, Except.bind]; done)
    | ((try simp only [PyKit.tryExcept, LErr.isLanguageError, Except.map, Except.bind, if_true, if_false, Bool.false_eq_true]); base_tac)))

/-- the path-derived part of `check_language` as regenerated = the model's `stagePath` -/
theorem path_language_eq (opt : Option Language) (path : List Char) :
    ChkLang.path_language opt path = ofStage (stagePath opt path) := by
  unfold ChkLang.path_language stagePath ofStage
  simp only [parse_language_eq, fix_codes_eq, remove_encoding_eq, remove_nonlinguistic_modifier_eq, listIndex_eq, bind_ok]
  cases opt with
  | some l => rfl
  | none =>
    simp only [lcMessagesLanguage, basenameLanguage, bind_ok]
    -- from here on the path only occurs through these three opaque values
    generalize splitOn '/' (normpath path) = comps
    generalize List.findIdx (fun x => decide (x = "LC_MESSAGES".toList)) comps = i
    generalize splitext (basename path) = se
    obtain ⟨stem, ext⟩ := se
    generalize ".po".toList = po
    simp only []
    by_cases hext : ext = po
    · subst hext
      simp only [decide_true, if_true, ne_eq, not_true_eq_false, if_false]
      by_cases hi : i < comps.length ∧ i > 0
      · obtain ⟨h1, h2⟩ := hi
        simp only [h1, h2, if_true, and_self, decide_true]
        cases hp : parseLanguageE (comps.getD (i - 1) []) with
        | error e => cases e <;> after_lc
        | ok l0 =>
          simp only [bind_ok]
          cases hf0 : fixCodes l0 with
          | error e => cases e <;> after_lc
          | ok r0 => obtain ⟨l0', f0⟩ := r0; simp [hp, hf0, PyKit.tryExcept, Except.map, Except.bind]
      · have hz : ¬ ((if i < comps.length then i else 0) > 0) := by
          intro h; apply hi; split at h <;> omega
        simp only [hz, decide_false, Bool.false_eq_true, if_false, hi]
        after_lc
    · simp only [hext, decide_false, Bool.false_eq_true, if_false]
      by_cases hi : i < comps.length ∧ i > 0
      · obtain ⟨h1, h2⟩ := hi
        simp only [h1, h2, if_true, and_self, decide_true]
        cases hp : parseLanguageE (comps.getD (i - 1) []) with
        | error e => cases e <;> simp [PyKit.tryExcept, LErr.isLanguageError, Except.map, Except.bind]
        | ok l0 =>
          simp only [bind_ok]
          cases hf0 : fixCodes l0 with
          | error e => cases e <;> simp [PyKit.tryExcept, LErr.isLanguageError, Except.map, Except.bind]
          | ok r0 => obtain ⟨l0', f0⟩ := r0; simp [hp, hf0, PyKit.tryExcept, Except.map, Except.bind]
      · have hz : ¬ ((if i < comps.length then i else 0) > 0) := by
          intro h; apply hi; split at h <;> omega
        simp [hz, hi, Except.map, Except.bind]

end I18n.Locale.Gen
