import I18n.Generated.ChkLang
import I18n.Lemmas.LingGenerated
import I18n.Lemmas.PyKitLemmas
/-!
# The path-derived part of `Checker.check_language` regenerated from `lib/check/__init__.py` equals the model's `Locale.stagePath`
-/
set_option linter.unusedSimpArgs false
set_option linter.unusedVariables false
namespace I18n.Locale.Gen
open I18n I18n.Locale I18n.Locale.Py I18n.Generated I18n.PyKit

/-- the result of the model's `stagePath` as the three locals of the code -/
def ofStage (r : Except LErr PathStage) : Except LErr (Option Language × List Char × Nat) :=
  r.map (fun ps => (ps.language, ps.source.toList, ps.quality))

theorem listIndex_eq (xs : List (List Char)) (x : List Char) :
    PyKit.tryExcept (listIndex xs x) (fun e => e == .valueError) (.ok 0) =
      .ok (if xs.findIdx (· = x) < xs.length then xs.findIdx (· = x) else 0) := by
  unfold listIndex
  split <;> rfl

/- OUTSTANDING: `ChkLang.path_language opt path = ofStage (stagePath opt path)` — the proof was not finished (see DESIGN-notes/locale.md);
   `Generated/ChkLang.lean` is therefore NOT part of any tie: correspondence-only. -/

end I18n.Locale.Gen
