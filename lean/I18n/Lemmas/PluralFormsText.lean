import I18n.Lemmas.PluralFormsRe
namespace I18n.CheckPlurals
open I18n I18n.PluralParse

/-! ## the declaration syntax, as plain text (no regex engine) -/

/-- a positive decimal numeral without leading zero -/
def PosNumeral (ds : List Char) : Prop := ∃ d r, ds = d :: r ∧ ('1' ≤ d ∧ d ≤ '9') ∧ ∀ c ∈ r, isDigit c = true

/-- `s` STARTS with `nplurals=<ds>;<blanks>plural=<ex>[;]` — `ds` a positive numeral, blanks are spaces and tabs, `ex` the
    non-empty text up to the first `;` or the end of the string — and `rest` is what follows. -/
def OccursAt (s ds ex rest : List Char) : Prop :=
  ∃ bl semi, s = "nplurals=".toList ++ ds ++ [';'] ++ bl ++ "plural=".toList ++ ex ++ semi ++ rest ∧
    PosNumeral ds ∧ (∀ c ∈ bl, c = ' ' ∨ c = '\t') ∧ ex ≠ [] ∧ (∀ c ∈ ex, c ≠ ';') ∧
    (semi = [';'] ∨ (semi = [] ∧ rest = []))

theorem stripPrefix_some {p s r : List Char} (h : stripPrefix p s = some r) : s = p ++ r := by
  unfold stripPrefix at h
  simp only at h
  split at h
  · rename_i hp
    simp only [Option.some.injEq] at h
    subst h
    have := List.prefix_iff_eq_append.1 (List.isPrefixOf_iff_prefix.1 hp)
    exact this.symm
  · cases h

theorem stripPrefix_append (p r : List Char) : stripPrefix p (p ++ r) = some r := by
  unfold stripPrefix
  have : p.isPrefixOf (p ++ r) = true := List.isPrefixOf_iff_prefix.2 (List.prefix_append p r)
  simp [this]

theorem spanLen_all (p : Char → Bool) : ∀ (a b : List Char), (∀ c ∈ a, p c = true) → (b = [] ∨ ∃ c r, b = c :: r ∧ p c = false) →
    Spec.PluralFormsRe.spanLen p (a ++ b) = a.length := by
  intro a
  induction a with
  | nil =>
    intro b _ hb
    rcases hb with rfl | ⟨c, r, rfl, hc⟩
    · rfl
    · simp [Spec.PluralFormsRe.spanLen, hc]
  | cons x a ih =>
    intro b ha hb
    simp only [List.cons_append, Spec.PluralFormsRe.spanLen, ha x (by simp), ↓reduceIte, List.length_cons]
    rw [ih b (fun c hc => ha c (by simp [hc])) hb]

theorem take_spanLen_all (p : Char → Bool) (s : List Char) : ∀ c ∈ s.take (Spec.PluralFormsRe.spanLen p s), p c = true := by
  induction s with
  | nil => simp [Spec.PluralFormsRe.spanLen]
  | cons x r ih =>
    simp only [Spec.PluralFormsRe.spanLen]
    split
    · rename_i hx
      intro c hc
      simp only [List.take_succ_cons, List.mem_cons] at hc
      rcases hc with rfl | hc
      · exact hx
      · exact ih c hc
    · simp

theorem matchHere_occurs {s ds ex rest : List Char} (h : matchHere s = some (ds, ex, rest)) : OccursAt s ds ex rest := by
  unfold matchHere at h
  split at h
  · cases h
  · rename_i s1 h1
    have e1 := stripPrefix_some h1
    split at h
    · rename_i d r
      split at h
      · rename_i hd
        rw [spanDigits_eq] at h
        simp only at h
        split at h
        · rename_i s3 h2
          split at h
          · cases h
          · rename_i s4 h4
            have e4 := stripPrefix_some h4
            rw [spanNotSemi_eq] at h
            simp only at h
            split at h
            · cases h
            · rename_i hne
              -- the pieces
              have hdig : isDigit d = true := digit19_digit09 d ((digit19_has d).2 hd)
              have hL : Spec.PluralFormsRe.spanLen isDigit (d :: r) = Spec.PluralFormsRe.spanLen isDigit r + 1 := by
                simp [Spec.PluralFormsRe.spanLen, hdig]
              have eds : d :: r = (d :: r).take (Spec.PluralFormsRe.spanLen isDigit (d :: r)) ++ ';' :: s3 := by
                rw [← h2]; exact (List.take_append_drop _ _).symm
              have hnum : PosNumeral ((d :: r).take (Spec.PluralFormsRe.spanLen isDigit (d :: r))) := by
                rw [hL]
                refine ⟨d, r.take (Spec.PluralFormsRe.spanLen isDigit r), by simp, hd, take_spanLen_all isDigit r⟩
              have ebl : s3 = s3.take (Spec.PluralFormsRe.spanLen isBlank s3) ++ dropBlanks s3 := by
                rw [dropBlanks_eq]; exact (List.take_append_drop _ _).symm
              have hbl : ∀ c ∈ s3.take (Spec.PluralFormsRe.spanLen isBlank s3), c = ' ' ∨ c = '\t' := by
                intro c hc
                have := take_spanLen_all isBlank s3 c hc
                simpa [isBlank] using this
              have eex : s4 = s4.take (Spec.PluralFormsRe.spanLen (fun c => !(c == ';')) s4) ++ s4.drop (Spec.PluralFormsRe.spanLen (fun c => !(c == ';')) s4) :=
                (List.take_append_drop _ _).symm
              have hex : ∀ c ∈ s4.take (Spec.PluralFormsRe.spanLen (fun c => !(c == ';')) s4), c ≠ ';' := by
                intro c hc
                have := take_spanLen_all (fun c => !(c == ';')) s4 c hc
                simpa using this
              have hexne : s4.take (Spec.PluralFormsRe.spanLen (fun c => !(c == ';')) s4) ≠ [] := by
                intro hnil; rw [hnil] at hne; exact hne rfl
              have hcompose : ∀ semi rest', s4.drop (Spec.PluralFormsRe.spanLen (fun c => !(c == ';')) s4) = semi ++ rest' →
                  s = "nplurals=".toList ++ (d :: r).take (Spec.PluralFormsRe.spanLen isDigit (d :: r)) ++ [';'] ++
                    s3.take (Spec.PluralFormsRe.spanLen isBlank s3) ++ "plural=".toList ++
                    s4.take (Spec.PluralFormsRe.spanLen (fun c => !(c == ';')) s4) ++ semi ++ rest' := by
                intro semi rest' hdrop
                rw [e1]
                conv => lhs; rw [eds, ebl, e4, eex, hdrop]
                simp only [List.append_assoc, List.cons_append, List.nil_append]
              split at h
              · rename_i s6 h5
                simp only [Option.some.injEq, Prod.mk.injEq] at h
                obtain ⟨rfl, rfl, rfl⟩ := h
                exact ⟨_, [';'], hcompose [';'] _ (by rw [h5]; rfl), hnum, hbl, hexne, hex, Or.inl rfl⟩
              · rename_i hns
                simp only [Option.some.injEq, Prod.mk.injEq] at h
                obtain ⟨rfl, rfl, rfl⟩ := h
                have hrest : s4.drop (Spec.PluralFormsRe.spanLen (fun c => !(c == ';')) s4) = [] := by
                  rcases drop_spanLen (fun c => !(c == ';')) s4 with h0 | ⟨c, r', hd', hc⟩
                  · exact h0
                  · have : c = ';' := by simpa using hc
                    subst this
                    exact absurd hd' (hns r')
                exact ⟨_, [], hcompose [] _ (by rw [hrest]; rfl), hnum, hbl, hexne, hex, Or.inr ⟨rfl, hrest⟩⟩
        · cases h
      · cases h
    · cases h

theorem occurs_matchHere {s ds ex rest : List Char} (h : OccursAt s ds ex rest) : matchHere s = some (ds, ex, rest) := by
  obtain ⟨bl, semi, rfl, ⟨d, r, rfl, hd, hr⟩, hbl, hexne, hex, hsemi⟩ := h
  have hdig : isDigit d = true := digit19_digit09 d ((digit19_has d).2 hd)
  -- the string, re-associated
  have e0 : "nplurals=".toList ++ (d :: r) ++ [';'] ++ bl ++ "plural=".toList ++ ex ++ semi ++ rest =
      "nplurals=".toList ++ ((d :: r) ++ (';' :: (bl ++ ("plural=".toList ++ (ex ++ (semi ++ rest)))))) := by
    simp only [List.append_assoc, List.cons_append, List.nil_append]
  rw [e0]
  unfold matchHere
  rw [stripPrefix_append]
  simp only [List.cons_append]
  rw [if_pos hd]
  have hsd : spanDigits (d :: (r ++ ';' :: (bl ++ ("plural=".toList ++ (ex ++ (semi ++ rest)))))) =
      (d :: r, ';' :: (bl ++ ("plural=".toList ++ (ex ++ (semi ++ rest))))) := by
    rw [spanDigits_eq]
    have : Spec.PluralFormsRe.spanLen isDigit ((d :: r) ++ ';' :: (bl ++ ("plural=".toList ++ (ex ++ (semi ++ rest))))) = (d :: r).length :=
      spanLen_all isDigit (d :: r) _ (by intro c hc; rcases List.mem_cons.mp hc with rfl | hc; exact hdig; exact hr c hc)
        (Or.inr ⟨';', _, rfl, by decide⟩)
    rw [← List.cons_append, this]
    simp
  rw [hsd]
  simp only
  have hdb : dropBlanks (bl ++ ("plural=".toList ++ (ex ++ (semi ++ rest)))) = "plural=".toList ++ (ex ++ (semi ++ rest)) := by
    rw [dropBlanks_eq]
    have : Spec.PluralFormsRe.spanLen isBlank (bl ++ ("plural=".toList ++ (ex ++ (semi ++ rest)))) = bl.length :=
      spanLen_all isBlank bl _ (by intro c hc; rcases hbl c hc with rfl | rfl <;> rfl) (Or.inr ⟨'p', _, rfl, by decide⟩)
    rw [this]
    simp
  rw [hdb, stripPrefix_append]
  simp only
  have hsn : spanNotSemi (ex ++ (semi ++ rest)) = (ex, semi ++ rest) := by
    rw [spanNotSemi_eq]
    have : Spec.PluralFormsRe.spanLen (fun c => !(c == ';')) (ex ++ (semi ++ rest)) = ex.length :=
      spanLen_all _ ex _ (by intro c hc; simpa using hex c hc)
        (by rcases hsemi with rfl | ⟨rfl, rfl⟩
            · exact Or.inr ⟨';', rest, rfl, by decide⟩
            · exact Or.inl rfl)
    rw [this]
    simp
  rw [hsn]
  simp only
  have : ex.isEmpty = false := by
    cases ex with
    | nil => exact absurd rfl hexne
    | cons a b => rfl
  simp only [this, Bool.false_eq_true, ↓reduceIte]
  rcases hsemi with rfl | ⟨rfl, rfl⟩
  · rfl
  · rfl

/-- **The anchored matcher, as plain text**: it succeeds exactly on the strings that start with the declaration syntax. -/
theorem matchHere_iff (s ds ex rest : List Char) : matchHere s = some (ds, ex, rest) ↔ OccursAt s ds ex rest :=
  ⟨matchHere_occurs, occurs_matchHere⟩

/-- **`search`, as plain text**: the result is the occurrence with the LEFTMOST start; `None` iff the syntax occurs nowhere. -/
theorem search_occurs : ∀ (s skipped lj ds ex rj : List Char), CheckPlurals.search skipped s = some (lj, ds, ex, rj) →
    ∃ p q, s = p ++ q ∧ lj = skipped.reverse ++ p ∧ OccursAt q ds ex rj ∧
      ∀ p' q', s = p' ++ q' → p'.length < p.length → ∀ ds' ex' rj', ¬ OccursAt q' ds' ex' rj' := by
  intro s
  induction s with
  | nil =>
    intro skipped lj ds ex rj h
    unfold CheckPlurals.search at h
    cases hm : matchHere [] with
    | none => simp [hm] at h
    | some y =>
      obtain ⟨a, b, c⟩ := y
      simp only [hm, Option.some.injEq, Prod.mk.injEq] at h
      obtain ⟨rfl, rfl, rfl, rfl⟩ := h
      exact ⟨[], [], rfl, by simp, matchHere_occurs hm, by intro p' q' _ hl; simp at hl⟩
  | cons c t ih =>
    intro skipped lj ds ex rj h
    unfold CheckPlurals.search at h
    cases hm : matchHere (c :: t) with
    | some y =>
      obtain ⟨a, b, c'⟩ := y
      simp only [hm, Option.some.injEq, Prod.mk.injEq] at h
      obtain ⟨rfl, rfl, rfl, rfl⟩ := h
      exact ⟨[], c :: t, rfl, by simp, matchHere_occurs hm, by intro p' q' _ hl; simp at hl⟩
    | none =>
      simp only [hm] at h
      obtain ⟨p, q, hs, hlj, hocc, hleft⟩ := ih (c :: skipped) lj ds ex rj h
      refine ⟨c :: p, q, by simp [hs], by simp [hlj], hocc, ?_⟩
      intro p' q' hpq hl ds' ex' rj' hocc'
      cases p' with
      | nil =>
        simp only [List.nil_append] at hpq
        subst hpq
        rw [occurs_matchHere hocc'] at hm
        cases hm
      | cons a p'' =>
        simp only [List.cons_append, List.cons.injEq] at hpq
        exact hleft p'' q' hpq.2 (by simpa using hl) ds' ex' rj' hocc'

theorem search_none_iff : ∀ (s skipped : List Char), CheckPlurals.search skipped s = none ↔
    ∀ p q, s = p ++ q → ∀ ds ex rj, ¬ OccursAt q ds ex rj := by
  intro s
  induction s with
  | nil =>
    intro skipped
    unfold CheckPlurals.search
    cases hm : matchHere [] with
    | none =>
      simp only [true_iff]
      intro p q h ds ex rj hocc
      have : q = [] := by
        have := congrArg List.length h
        simp at this
        exact List.eq_nil_of_length_eq_zero (by omega)
      subst this
      rw [occurs_matchHere hocc] at hm
      cases hm
    | some y =>
      obtain ⟨a, b, c⟩ := y
      simp only [false_iff, reduceCtorEq]
      intro h
      exact h [] [] rfl a b c (matchHere_occurs hm)
  | cons c t ih =>
    intro skipped
    unfold CheckPlurals.search
    cases hm : matchHere (c :: t) with
    | some y =>
      obtain ⟨a, b, c'⟩ := y
      simp only [false_iff, reduceCtorEq]
      intro h
      exact h [] (c :: t) rfl a b c' (matchHere_occurs hm)
    | none =>
      simp only [ih]
      constructor
      · intro h p q hpq ds ex rj hocc
        cases p with
        | nil =>
          simp only [List.nil_append] at hpq
          subst hpq
          rw [occurs_matchHere hocc] at hm
          cases hm
        | cons a p' =>
          simp only [List.cons_append, List.cons.injEq] at hpq
          exact h p' q hpq.2 ds ex rj hocc
      · intro h p q hpq
        exact h (c :: p) q (by simp [hpq])

/-- no occurrence of the declaration syntax starts before position `len` of `v` -/
def NoneBefore (v : List Char) (len : Nat) : Prop :=
  ∀ p' q', v = p' ++ q' → p'.length < len → ∀ ds' ex' rj', ¬ OccursAt q' ds' ex' rj'

theorem search_of_leftmost : ∀ (p s q skipped ds ex rj : List Char), s = p ++ q → OccursAt q ds ex rj → NoneBefore s p.length →
    CheckPlurals.search skipped s = some (skipped.reverse ++ p, ds, ex, rj) := by
  intro p
  induction p with
  | nil =>
    intro s q skipped ds ex rj hs hocc _
    simp only [List.nil_append] at hs
    subst hs
    unfold CheckPlurals.search
    rw [occurs_matchHere hocc]
    simp
  | cons a p' ih =>
    intro s q skipped ds ex rj hs hocc hleft
    subst hs
    unfold CheckPlurals.search
    cases hm : matchHere (a :: p' ++ q) with
    | some y =>
      obtain ⟨x1, x2, x3⟩ := y
      exact absurd (matchHere_occurs hm) (hleft [] _ rfl (by simp) x1 x2 x3)
    | none =>
      simp only [List.cons_append]
      have := ih (p' ++ q) q (a :: skipped) ds ex rj rfl hocc
        (by intro p'' q'' hpq hl ds' ex' rj' ho
            exact hleft (a :: p'') q'' (by simp [hpq]) (by simpa using hl) ds' ex' rj' ho)
      rw [this]
      simp

end I18n.CheckPlurals
