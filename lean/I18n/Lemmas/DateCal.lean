import I18n.Model.Date
import I18n.Spec.Date
/- Calendar lemmas for C18: digits ↔ numbers, `parseCanon` ↔ `render`, closed-form ordinal = counted day number. -/
set_option linter.unusedSimpArgs false
namespace I18n.Date
open I18n.Spec.Date

theorem isDigit_iff (c : Char) : isDigit c = true ↔ AsciiDigit c := by
  unfold isDigit AsciiDigit
  simp only [Bool.and_eq_true, decide_eq_true_eq, Char.le_def]
  constructor
  · intro ⟨h1, h2⟩
    constructor
    · show (48 : Nat) ≤ c.toNat; exact h1
    · show c.toNat ≤ 57; exact h2
  · intro ⟨h1, h2⟩
    exact ⟨h1, h2⟩

theorem digit_dval {c : Char} (h : isDigit c = true) : digit (dval c) = c := by
  unfold isDigit at h
  simp only [Bool.and_eq_true, decide_eq_true_eq] at h
  unfold digit dval
  have : 48 + (c.toNat - 48) % 10 = c.toNat := by omega
  rw [this]
  exact Char.ofNat_toNat c

theorem dval_le {c : Char} (h : isDigit c = true) : dval c ≤ 9 := by
  unfold isDigit at h
  simp only [Bool.and_eq_true, decide_eq_true_eq] at h
  unfold dval; omega

theorem digit_of_lt {n : Nat} (h : n ≤ 9) : isDigit (digit n) = true ∧ dval (digit n) = n := by
  have hv : (48 + n % 10).isValidChar := by
    left; omega
  have : (digit n).toNat = 48 + n % 10 := by
    unfold digit
    simp [Char.ofNat, hv, Char.ofNatAux, Char.toNat]
    omega
  unfold isDigit dval
  rw [this]
  simp only [Bool.and_eq_true, decide_eq_true_eq]
  omega

theorem pad2_num2 {a b : Char} (ha : isDigit a = true) (hb : isDigit b = true) : pad2 (num2 a b) = [a, b] := by
  have la := dval_le ha
  have lb := dval_le hb
  unfold pad2 num2
  have e1 : digit ((dval a * 10 + dval b) / 10) = digit (dval a) := by
    unfold digit; congr 2; omega
  have e2 : digit (dval a * 10 + dval b) = digit (dval b) := by
    unfold digit; congr 2; omega
  rw [e1, e2, digit_dval ha, digit_dval hb]

theorem pad4_num4 {a b c d : Char} (ha : isDigit a = true) (hb : isDigit b = true) (hc : isDigit c = true)
    (hd : isDigit d = true) : pad4 (num4 a b c d) = [a, b, c, d] := by
  have la := dval_le ha
  have lb := dval_le hb
  have lc := dval_le hc
  have ld := dval_le hd
  unfold pad4 num4
  have e1 : digit ((((dval a * 10 + dval b) * 10 + dval c) * 10 + dval d) / 1000) = digit (dval a) := by
    unfold digit; congr 2; omega
  have e2 : digit ((((dval a * 10 + dval b) * 10 + dval c) * 10 + dval d) / 100) = digit (dval b) := by
    unfold digit; congr 2; omega
  have e3 : digit ((((dval a * 10 + dval b) * 10 + dval c) * 10 + dval d) / 10) = digit (dval c) := by
    unfold digit; congr 2; omega
  have e4 : digit (((dval a * 10 + dval b) * 10 + dval c) * 10 + dval d) = digit (dval d) := by
    unfold digit; congr 2; omega
  rw [e1, e2, e3, e4, digit_dval ha, digit_dval hb, digit_dval hc, digit_dval hd]

theorem num2_pad2 {n : Nat} (h : n ≤ 99) :
    ∃ a b, pad2 n = [a, b] ∧ isDigit a = true ∧ isDigit b = true ∧ num2 a b = n := by
  refine ⟨digit (n / 10), digit n, rfl, ?_⟩
  have h1 := digit_of_lt (n := n / 10) (by omega)
  have h2 := digit_of_lt (n := n % 10) (by omega)
  have e : digit n = digit (n % 10) := by unfold digit; congr 2; omega
  rw [e]
  refine ⟨h1.1, h2.1, ?_⟩
  unfold num2; rw [h1.2, h2.2]; omega

theorem num4_pad4 {n : Nat} (h : n ≤ 9999) :
    ∃ a b c d, pad4 n = [a, b, c, d] ∧ isDigit a = true ∧ isDigit b = true ∧ isDigit c = true ∧ isDigit d = true
      ∧ num4 a b c d = n := by
  refine ⟨digit (n / 1000), digit (n / 100), digit (n / 10), digit n, rfl, ?_⟩
  have h1 := digit_of_lt (n := n / 1000) (by omega)
  have h2 := digit_of_lt (n := n / 100 % 10) (by omega)
  have h3 := digit_of_lt (n := n / 10 % 10) (by omega)
  have h4 := digit_of_lt (n := n % 10) (by omega)
  have e2 : digit (n / 100) = digit (n / 100 % 10) := by unfold digit; congr 2; omega
  have e3 : digit (n / 10) = digit (n / 10 % 10) := by unfold digit; congr 2; omega
  have e4 : digit n = digit (n % 10) := by unfold digit; congr 2; omega
  rw [e2, e3, e4]
  refine ⟨h1.1, h2.1, h3.1, h4.1, ?_⟩
  unfold num4; rw [h1.2, h2.2, h3.2, h4.2]; omega

/-! ### the calendar -/

def Stamp.toCivil (t : Stamp) : Civil := ⟨t.year, t.month, t.day, t.hour, t.minute, t.neg, t.zh, t.zm⟩
def ofCivil (c : Civil) : Stamp := ⟨c.year, c.month, c.day, c.hour, c.minute, c.neg, c.zh, c.zm⟩

theorem toCivil_ofCivil (c : Civil) : (ofCivil c).toCivil = c := rfl
theorem ofCivil_toCivil (t : Stamp) : ofCivil t.toCivil = t := rfl

theorem isLeap_iff (y : Nat) : isLeap y = true ↔ Leap y := by
  unfold isLeap Leap
  simp only [Bool.and_eq_true, Bool.or_eq_true, decide_eq_true_eq, Nat.dvd_iff_mod_eq_zero, ne_eq, decide_not,
    Bool.not_eq_eq_eq_not, Bool.not_true, decide_eq_false_iff_not]
  omega

theorem daysInMonth_eq {y m : Nat} (h1 : 1 ≤ m) (h2 : m ≤ 12) : daysInMonth y m = monthLength y m := by
  have hl : (if isLeap y = true then 29 else 28) = (if Leap y then 29 else 28) := by
    by_cases h : Leap y
    · simp [h, (isLeap_iff y).mpr h]
    · have : isLeap y = false := by
        cases hh : isLeap y with
        | false => rfl
        | true => exact absurd ((isLeap_iff y).mp hh) h
      simp [h, this]
  unfold daysInMonth monthLength
  rw [hl]
  have : m = 1 ∨ m = 2 ∨ m = 3 ∨ m = 4 ∨ m = 5 ∨ m = 6 ∨ m = 7 ∨ m = 8 ∨ m = 9 ∨ m = 10 ∨ m = 11 ∨ m = 12 := by omega
  rcases this with rfl | rfl | rfl | rfl | rfl | rfl | rfl | rfl | rfl | rfl | rfl | rfl <;> simp

theorem valid_exists {t : Stamp} (hv : t.valid = true) (hy : t.year ≤ 9999) : t.toCivil.Exists := by
  unfold Stamp.valid at hv
  simp only [Bool.and_eq_true, decide_eq_true_eq] at hv
  obtain ⟨⟨⟨⟨⟨⟨⟨⟨h1, h2⟩, h3⟩, h4⟩, h5⟩, h6⟩, h7⟩, h8⟩, h9⟩ := hv
  rw [daysInMonth_eq h2 h3] at h5
  unfold Civil.Exists Stamp.toCivil
  simp only
  omega

theorem exists_valid {c : Civil} (h : c.Exists) : (ofCivil c).valid = true := by
  obtain ⟨h1, h2, h3, h4, h5, h6, h7, h8, h9, h10⟩ := h
  unfold Stamp.valid ofCivil
  simp only [Bool.and_eq_true, decide_eq_true_eq]
  rw [daysInMonth_eq h3 h4]
  omega

/-! ### `parseCanon` ↔ `render` -/

theorem num4_le {a b c d : Char} (ha : isDigit a = true) (hb : isDigit b = true) (hc : isDigit c = true)
    (hd : isDigit d = true) : num4 a b c d ≤ 9999 := by
  have la := dval_le ha
  have lb := dval_le hb
  have lc := dval_le hc
  have ld := dval_le hd
  unfold num4; omega

theorem parseCanon_sound {t : List Char} {st : Stamp} (h : parseCanon t = some st) :
    st.toCivil.Exists ∧ t = render st.toCivil := by
  unfold parseCanon at h
  split at h
  · rename_i y1 y2 y3 y4 c1 m1 m2 c2 d1 d2 c3 h1 h2 c4 n1 n2 sg z1 z2 z3 z4
    split at h
    · rename_i hc
      obtain ⟨rfl, rfl, rfl, rfl, hsg, hd⟩ := hc
      simp only [List.all_cons, List.all_nil, Bool.and_true, Bool.and_eq_true] at hd
      obtain ⟨hy1, hy2, hy3, hy4, hm1, hm2, hd1, hd2, hh1, hh2, hn1, hn2, hz1, hz2, hz3, hz4⟩ := hd
      dsimp only at h
      split at h
      · rename_i hv
        simp only [Option.some.injEq] at h
        subst h
        refine ⟨valid_exists hv (num4_le hy1 hy2 hy3 hy4), ?_⟩
        unfold render Stamp.toCivil
        simp only [pad4_num4 hy1 hy2 hy3 hy4, pad2_num2 hm1 hm2, pad2_num2 hd1 hd2, pad2_num2 hh1 hh2,
          pad2_num2 hn1 hn2, pad2_num2 hz1 hz2, pad2_num2 hz3 hz4]
        rcases hsg with rfl | rfl <;> simp
      · cases h
    · cases h
  · cases h

theorem parseCanon_complete {c : Civil} (h : c.Exists) : parseCanon (render c) = some (ofCivil c) := by
  have hv := exists_valid h
  obtain ⟨h1, h2, h3, h4, h5, h6, h7, h8, h9, h10⟩ := h
  have hml : monthLength c.year c.month ≤ 31 := by
    unfold monthLength; split <;> (try split) <;> omega
  obtain ⟨y1, y2, y3, y4, ey, hy1, hy2, hy3, hy4, ny⟩ := num4_pad4 (n := c.year) h2
  obtain ⟨m1, m2, em, hm1, hm2, nm⟩ := num2_pad2 (n := c.month) (by omega)
  obtain ⟨d1, d2, ed, hd1, hd2, nd⟩ := num2_pad2 (n := c.day) (by omega)
  obtain ⟨o1, o2, eo, ho1, ho2, no⟩ := num2_pad2 (n := c.hour) (by omega)
  obtain ⟨n1, n2, en, hn1, hn2, nn⟩ := num2_pad2 (n := c.minute) (by omega)
  obtain ⟨z1, z2, ez, hz1, hz2, nz⟩ := num2_pad2 (n := c.zh) (by omega)
  obtain ⟨z3, z4, ew, hz3, hz4, nw⟩ := num2_pad2 (n := c.zm) (by omega)
  have hvv : Stamp.valid ⟨num4 y1 y2 y3 y4, num2 m1 m2, num2 d1 d2, num2 o1 o2, num2 n1 n2, c.neg, num2 z1 z2, num2 z3 z4⟩ = true := by
    rw [ny, nm, nd, no, nn, nz, nw]; exact hv
  have hv' := hv
  unfold ofCivil at hv'
  unfold render
  rw [ey, em, ed, eo, en, ez, ew]
  cases hneg : c.neg with
  | true =>
    rw [hneg] at hvv
    simp only [List.cons_append, List.nil_append, if_true, parseCanon, hy1, hy2, hy3, hy4, hm1, hm2, hd1, hd2, ho1, ho2, hn1, hn2,
      hz1, hz2, hz3, hz4, List.all_cons, List.all_nil, Bool.and_true, true_and, or_true, if_true, hvv]
    simp [ofCivil, ny, nm, nd, no, nn, nz, nw, hneg]
    rw [hneg] at hv'; exact hv'
  | false =>
    rw [hneg] at hvv
    have e : decide ('+' = '-') = false := by decide
    rw [e] at *
    simp only [List.cons_append, List.nil_append, Bool.false_eq_true, if_false, parseCanon, hy1, hy2, hy3, hy4, hm1, hm2, hd1, hd2, ho1, ho2, hn1, hn2,
      hz1, hz2, hz3, hz4, List.all_cons, List.all_nil, Bool.and_true, true_and, true_or, if_true, e, hvv]
    simp [ofCivil, ny, nm, nd, no, nn, nz, nw, hneg]
    rw [hneg] at hv'; exact hv'

/-! ### the closed-form ordinal is the counted day number -/

theorem leap_mod (y : Nat) : Leap y ↔ ((y % 4 = 0 ∧ y % 100 ≠ 0) ∨ y % 400 = 0) := by
  unfold Leap
  simp only [Nat.dvd_iff_mod_eq_zero, ne_eq]

theorem year_step (y : Nat) (h0 : y ≠ 0) :
    y * 365 + y / 4 - y / 100 + y / 400
      = ((y - 1) * 365 + (y - 1) / 4 - (y - 1) / 100 + (y - 1) / 400) + (if Leap y then 366 else 365) := by
  have a4 : y / 4 = (y - 1) / 4 + (if y % 4 = 0 then 1 else 0) := by split <;> omega
  have a100 : y / 100 = (y - 1) / 100 + (if y % 100 = 0 then 1 else 0) := by split <;> omega
  have a400 : y / 400 = (y - 1) / 400 + (if y % 400 = 0 then 1 else 0) := by split <;> omega
  have b1 : (y - 1) / 100 ≤ y - 1 := Nat.div_le_self _ _
  have c1 : y % 400 = 0 → y % 100 = 0 := by omega
  have c2 : y % 100 = 0 → y % 4 = 0 := by omega
  have hy : y = (y - 1) + 1 := by omega
  rw [a4, a100, a400]
  simp only [leap_mod]
  generalize (y - 1) / 4 = q4 at *
  generalize (y - 1) / 100 = q100 at *
  generalize (y - 1) / 400 = q400 at *
  generalize y % 4 = r4 at *
  generalize y % 100 = r100 at *
  generalize y % 400 = r400 at *
  generalize y - 1 = p at *
  subst hy
  by_cases h4 : r4 = 0 <;> by_cases h100 : r100 = 0 <;> by_cases h400 : r400 = 0 <;>
    simp only [h4, h100, h400, if_true, if_false, ne_eq, not_true_eq_false, not_false_eq_true, and_true, and_false,
      or_true, or_false, true_and, false_and, true_or, false_or] <;> first | omega | (exfalso; omega) | (exfalso; exact h100 (c1 h400)) | (exfalso; exact h4 (c2 h100)) | skip

theorem daysBeforeYear_eq (y : Nat) : daysBeforeYear y = daysInYearsBefore y := by
  induction y with
  | zero => rfl
  | succ y ih =>
    unfold daysInYearsBefore
    by_cases h0 : y = 0
    · subst h0; rfl
    · simp only [h0, if_false]
      rw [← ih]
      unfold daysBeforeYear yearLength
      simp only [Nat.add_sub_cancel]
      exact year_step y h0

theorem daysBeforeMonth_eq {y m : Nat} (h1 : 1 ≤ m) (h2 : m ≤ 12) : daysBeforeMonth y m = daysInMonthsBefore y m := by
  have hb : isLeap y = true ↔ Leap y := isLeap_iff y
  have : m = 1 ∨ m = 2 ∨ m = 3 ∨ m = 4 ∨ m = 5 ∨ m = 6 ∨ m = 7 ∨ m = 8 ∨ m = 9 ∨ m = 10 ∨ m = 11 ∨ m = 12 := by omega
  by_cases hl : Leap y
  · have hb' : isLeap y = true := hb.mpr hl
    rcases this with rfl | rfl | rfl | rfl | rfl | rfl | rfl | rfl | rfl | rfl | rfl | rfl <;>
      simp [daysBeforeMonth, daysInMonthsBefore, monthLength, hl, hb']
  · have hb' : isLeap y = false := by
      cases hh : isLeap y with
      | false => rfl
      | true => exact absurd (hb.mp hh) hl
    rcases this with rfl | rfl | rfl | rfl | rfl | rfl | rfl | rfl | rfl | rfl | rfl | rfl <;>
      simp [daysBeforeMonth, daysInMonthsBefore, monthLength, hl, hb']

theorem ordinal_eq {y m d : Nat} (h1 : 1 ≤ m) (h2 : m ≤ 12) : ordinal y m d = dayNumber y m d := by
  unfold ordinal dayNumber
  rw [daysBeforeYear_eq, daysBeforeMonth_eq h1 h2]

theorem dayNumber_unix : dayNumber 1970 1 1 = 719163 := by
  rw [← ordinal_eq (by omega) (by omega)]
  decide

/-- the model's instant (closed formula of `datetime`) is the counted one of the specification -/
theorem minutes_eq {t : Stamp} (h1 : 1 ≤ t.month) (h2 : t.month ≤ 12) : t.minutes = t.toCivil.minutes := by
  unfold Stamp.minutes Civil.minutes Stamp.offset Civil.offset Stamp.toCivil
  simp only [dayNumber_unix, ordinal_eq h1 h2]
  rfl

/-! ### the canonical text determines the instant -/

theorem digit_inj {a b : Nat} (ha : a ≤ 9) (hb : b ≤ 9) (h : digit a = digit b) : a = b := by
  have := congrArg dval h
  rwa [(digit_of_lt ha).2, (digit_of_lt hb).2] at this

theorem pad2_inj {a b : Nat} (ha : a ≤ 99) (hb : b ≤ 99) (h : pad2 a = pad2 b) : a = b := by
  unfold pad2 at h
  simp only [List.cons.injEq, and_true] at h
  have e1 := digit_inj (a := a / 10) (b := b / 10) (by omega) (by omega) h.1
  have e2 : digit (a % 10) = digit (b % 10) := by
    have : ∀ n, digit n = digit (n % 10) := by intro n; unfold digit; congr 2; omega
    rw [← this a, ← this b]; exact h.2
  have e3 := digit_inj (a := a % 10) (b := b % 10) (by omega) (by omega) e2
  omega

theorem pad4_inj {a b : Nat} (ha : a ≤ 9999) (hb : b ≤ 9999) (h : pad4 a = pad4 b) : a = b := by
  unfold pad4 at h
  simp only [List.cons.injEq, and_true] at h
  have hd : ∀ n, digit n = digit (n % 10) := by intro n; unfold digit; congr 2; omega
  have e1 := digit_inj (a := a / 1000) (b := b / 1000) (by omega) (by omega) h.1
  have e2 := digit_inj (a := a / 100 % 10) (b := b / 100 % 10) (by omega) (by omega) (by rw [← hd, ← hd]; exact h.2.1)
  have e3 := digit_inj (a := a / 10 % 10) (b := b / 10 % 10) (by omega) (by omega) (by rw [← hd, ← hd]; exact h.2.2.1)
  have e4 := digit_inj (a := a % 10) (b := b % 10) (by omega) (by omega) (by rw [← hd, ← hd]; exact h.2.2.2)
  omega

theorem render_inj {c c' : Civil} (h : c.Exists) (h' : c'.Exists) (e : render c = render c') : c = c' := by
  obtain ⟨h1, h2, h3, h4, h5, h6, h7, h8, h9, h10⟩ := h
  obtain ⟨h1', h2', h3', h4', h5', h6', h7', h8', h9', h10'⟩ := h'
  have hml : ∀ y m, monthLength y m ≤ 31 := by
    intro y m; unfold monthLength; split <;> (try split) <;> omega
  have := hml c.year c.month
  have := hml c'.year c'.month
  unfold render at e
  simp only [pad4, pad2, List.cons_append, List.nil_append, List.cons.injEq, and_true] at e
  obtain ⟨y1, y2, y3, y4, _, m1, m2, _, d1, d2, _, o1, o2, _, n1, n2, sg, z1, z2, z3, z4⟩ := e
  have ey := pad4_inj h2 h2' (by unfold pad4; simp [y1, y2, y3, y4])
  have em := pad2_inj (a := c.month) (b := c'.month) (by omega) (by omega) (by unfold pad2; simp [m1, m2])
  have ed := pad2_inj (a := c.day) (b := c'.day) (by omega) (by omega) (by unfold pad2; simp [d1, d2])
  have eo := pad2_inj (a := c.hour) (b := c'.hour) (by omega) (by omega) (by unfold pad2; simp [o1, o2])
  have en := pad2_inj (a := c.minute) (b := c'.minute) (by omega) (by omega) (by unfold pad2; simp [n1, n2])
  have ez := pad2_inj (a := c.zh) (b := c'.zh) (by omega) (by omega) (by unfold pad2; simp [z1, z2])
  have ew := pad2_inj (a := c.zm) (b := c'.zm) (by omega) (by omega) (by unfold pad2; simp [z3, z4])
  have es : c.neg = c'.neg := by
    cases hc : c.neg <;> cases hc' : c'.neg <;> simp [hc, hc'] at sg <;> rfl
  cases c; cases c'
  simp only at ey em ed eo en ez ew es
  subst ey em ed eo en ez ew es
  rfl

end I18n.Date
