import I18n.Model.Date
import I18n.Spec.Date
/- Calendar lemmas for C18: digits ↔ numbers, `parseCanon` ↔ `render`, closed-form ordinal = counted day number. -/
namespace I18n.Date
open I18n.Spec.Date

theorem isDigit_iff (c : Char) : isDigit c = true ↔ AsciiDigit c := by
  unfold isDigit AsciiDigit
  simp only [Bool.and_eq_true, decide_eq_true_eq, Char.le_def]
  constructor
  · intro ⟨h1, h2⟩
    constructor
    · show (48 : Nat) ≤ c.toNat; exact h1
    · show c.toNat ≤ 57; exact h2
  · intro ⟨h1, h2⟩
    exact ⟨h1, h2⟩

theorem digit_dval {c : Char} (h : isDigit c = true) : digit (dval c) = c := by
  unfold isDigit at h
  simp only [Bool.and_eq_true, decide_eq_true_eq] at h
  unfold digit dval
  have : 48 + (c.toNat - 48) % 10 = c.toNat := by omega
  rw [this]
  exact Char.ofNat_toNat c

end I18n.Date
