import I18n.Spec.Locale
/-
The language of the locale regex (`Spec.Locale.localeRegexp`, an `Re` term) is the locale grammar on records
(`Spec.Locale.IsLocaleName`).
-/
namespace I18n.Spec.Locale
open I18n.Spec.LocaleRe

theorem lang_atLeast_cls (R : List (Nat × Nat)) (n : Nat) (x : List Char) :
    Lang (.atLeast n (.cls R)) x ↔ runOf R n x := by
  constructor
  · rintro ⟨ws, hn, rfl, hw⟩
    have key : ∀ ws : List (List Char), (∀ w ∈ ws, Lang (.cls R) w) →
        ws.flatten.length = ws.length ∧ ∀ c ∈ ws.flatten, inRanges R c = true := by
      intro ws
      induction ws with
      | nil => intro _; simp
      | cons w ws ih =>
        intro h
        obtain ⟨c, rfl, hc⟩ := h w (by simp)
        have := ih (fun w' hw' => h w' (by simp [hw']))
        refine ⟨by simp [this.1], ?_⟩
        intro d hd
        simp at hd
        rcases hd with rfl | hd
        · exact hc
        · exact this.2 d (by simpa using hd)
    have := key ws hw
    exact ⟨by rw [this.1]; exact hn, this.2⟩
  · rintro ⟨hn, hc⟩
    refine ⟨x.map (fun c => [c]), by simpa using hn, ?_, ?_⟩
    · clear hn hc
      induction x with
      | nil => rfl
      | cons c t ih => simp [← ih]
    · intro w hw
      simp at hw
      obtain ⟨c, hc', rfl⟩ := hw
      exact ⟨c, rfl, hc c hc'⟩

theorem inRanges_single (k : Nat) (c : Char) : inRanges [(k, k)] c = true ↔ c.toNat = k := by
  simp [inRanges]; omega

theorem lang_sep (k : Nat) (g n : Nat) (R : List (Nat × Nat)) (y : List Char) :
    Lang (.seq (.cls [(k, k)]) (.group g (.atLeast n (.cls R)))) y ↔ ∃ c x, c.toNat = k ∧ y = c :: x ∧ runOf R n x := by
  constructor
  · rintro ⟨u, v, rfl, ⟨c, rfl, hc⟩, hv⟩
    exact ⟨c, v, (inRanges_single k c).1 hc, rfl, (lang_atLeast_cls R n v).1 hv⟩
  · rintro ⟨c, x, hc, rfl, hx⟩
    exact ⟨[c], x, rfl, ⟨c, rfl, (inRanges_single k c).2 hc⟩, (lang_atLeast_cls R n x).2 hx⟩

theorem char_of_toNat (c : Char) (k : Nat) (h : c.toNat = k) : c = Char.ofNat k := by
  rw [← h]; exact (Char.ofNat_toNat c).symm

theorem lang_optsep (sep : Char) (g n : Nat) (R : List (Nat × Nat)) (y : List Char) :
    Lang (.opt (.seq (.cls [(sep.toNat, sep.toNat)]) (.group g (.atLeast n (.cls R))))) y
      ↔ ∃ o, y = optPart sep o ∧ optRunOf R n o := by
  constructor
  · rintro (rfl | h)
    · exact ⟨none, rfl, trivial⟩
    · obtain ⟨c, x, hc, rfl, hx⟩ := (lang_sep _ g n R y).1 h
      have : c = sep := by
        have h1 := char_of_toNat c _ hc
        rw [Char.ofNat_toNat] at h1; exact h1
      subst this
      exact ⟨some x, rfl, hx⟩
  · rintro ⟨o, rfl, ho⟩
    cases o with
    | none => left; rfl
    | some x => right; exact (lang_sep _ g n R _).2 ⟨sep, x, rfl, rfl, ho⟩

/-- the language of the regex is the grammar on records -/
theorem lang_localeRe (s : List Char) : Lang localeRegexp.re s ↔ IsLocaleName s := by
  have e1 : (95 : Nat) = '_'.toNat := rfl
  have e2 : (46 : Nat) = '.'.toNat := rfl
  have e3 : (64 : Nat) = '@'.toNat := rfl
  simp only [localeRegexp]
  constructor
  · rintro ⟨a, r1, rfl, ha, b, r2, rfl, hb, c, d, rfl, hc, hd⟩
    rw [e1] at hb; rw [e2] at hc; rw [e3] at hd
    obtain ⟨cc, rfl, hcc⟩ := (lang_optsep '_' 2 2 _ b).1 hb
    obtain ⟨enc, rfl, henc⟩ := (lang_optsep '.' 3 1 _ c).1 hc
    obtain ⟨mod, rfl, hmod⟩ := (lang_optsep '@' 4 1 _ d).1 hd
    exact ⟨⟨a, cc, enc, mod⟩, ⟨(lang_atLeast_cls _ 2 a).1 ha, hcc, henc, hmod⟩, rfl⟩
  · rintro ⟨⟨ll, cc, enc, mod⟩, ⟨hll, hcc, henc, hmod⟩, rfl⟩
    refine ⟨ll, _, rfl, (lang_atLeast_cls _ 2 ll).2 hll, optPart '_' cc, _, rfl, ?_, optPart '.' enc, optPart '@' mod, rfl, ?_, ?_⟩
    · rw [e1]; exact (lang_optsep '_' 2 2 _ _).2 ⟨cc, rfl, hcc⟩
    · rw [e2]; exact (lang_optsep '.' 3 1 _ _).2 ⟨enc, rfl, henc⟩
    · rw [e3]; exact (lang_optsep '@' 4 1 _ _).2 ⟨mod, rfl, hmod⟩

/-- `_language_regexp.match(s)` succeeds exactly on the locale names -/
theorem matches_localeRegexp (s : List Char) : Matches localeRegexp s ↔ IsLocaleName s := by
  rw [← lang_localeRe]
  constructor
  · rintro ⟨p, rest, rfl, hp, hr⟩
    have : rest = [] := hr
    subst this; simpa using hp
  · intro h
    exact ⟨s, [], by simp, h, rfl⟩

end I18n.Spec.Locale
