import I18n.Model.PyFmt
/-!
# Recording warnings is inert

`parseW w` is the model with `parent.warn` recording (`w = true`, the real code) or not (`w = false`).  Dropping the
recorded warnings from the result of either run gives the run without recording: acceptance, the error class, the
argument lists and the items do not depend on warnings.
-/
set_option linter.unusedSimpArgs false
namespace I18n.PyFmt

/-- the state with the recorded warnings dropped -/
def St.strip (st : St) : St := { st with warnings := [] }

@[simp] theorem warn_strip (w : Bool) (st : St) (x : Warn) : (warn w st x).strip = st.strip := by
  unfold warn; split <;> rfl
@[simp] theorem warn_false (st : St) (x : Warn) : warn false st x = st := rfl
@[simp] theorem ite_warn_strip (c : Prop) [Decidable c] (w : Bool) (st : St) (x : Warn) :
    (if c then warn w st x else st).strip = st.strip := by split <;> simp
@[simp] theorem ite_warn_strip' (c : Prop) [Decidable c] (w : Bool) (st : St) (x : Warn) :
    (if c then st else warn w st x).strip = st.strip := by split <;> simp
@[simp] theorem strip_strip (st : St) : st.strip.strip = st.strip := rfl
@[simp] theorem strip_seq (st : St) : st.strip.seq = st.seq := rfl
@[simp] theorem strip_map (st : St) : st.strip.map = st.map := rfl
@[simp] theorem strip_items (st : St) : st.strip.items = st.items := rfl

theorem flagLoop_strip (w : Bool) (flags : List Char) (conv : Char) : ∀ (l : List Char) (st : St),
    (flagLoop w flags conv l st).map St.strip = flagLoop false flags conv l st.strip := by
  intro l
  induction l with
  | nil => intro st; rfl
  | cons f more ih =>
    intro st
    simp only [flagLoop, warn_false, ite_self]
    split
    · rw [ih]; simp
    · split
      · rw [ih]; simp
      · split
        · rw [ih]; simp
        · rfl

theorem checkFlags_strip (w : Bool) (st : St) (flags : List Char) (conv : Char) :
    (checkFlags w st flags conv).map St.strip = checkFlags false st.strip flags conv := by
  unfold checkFlags
  rw [← flagLoop_strip w]
  cases flagLoop w flags conv (distinct flags) st with
  | error e => rfl
  | ok st1 => simp [Except.map]

theorem addArgument_strip (st : St) (key : Option (List Char)) (e : Entry) :
    (addArgument st key e).map St.strip = addArgument st.strip key e := by
  unfold addArgument
  cases key with
  | none => by_cases h : st.map.isEmpty = true <;> simp [h, Except.map, St.strip]
  | some k => by_cases h : st.seq.isEmpty = true <;> simp [h, Except.map, St.strip]

theorem doWidth_strip (st : St) (width : Num) (parent : Nat) :
    (doWidth st width parent).map St.strip = doWidth st.strip width parent := by
  unfold doWidth
  cases width with
  | star => exact addArgument_strip _ _ _
  | num n => by_cases h : n > I18n.Generated.PyFormatTables.SSIZE_MAX <;> simp [h, Except.map]

theorem doPrec_strip (st : St) (prec : Option Num) (conv : Char) (parent : Nat) :
    (doPrec st prec conv parent).map St.strip = doPrec st.strip prec conv parent := by
  unfold doPrec
  cases prec with
  | none => rfl
  | some p =>
    cases p with
    | star => exact addArgument_strip _ _ _
    | num n =>
      by_cases h : n > I18n.Generated.PyFormatTables.SSIZE_MAX
      · simp [h, Except.map]
      · by_cases h2 : (I18n.Generated.PyFormatTables.intCvt.contains conv && decide (n > I18n.Generated.PyFormatTables.SSIZE_MAX - 3)) = true
        · simp only [h, if_false, h2, if_true]; rfl
        · simp only [h, if_false, h2]; rfl

@[simp] theorem lateWarnings_strip (w : Bool) (st : St) (d : Directive) : (lateWarnings w st d).strip = st.strip := by
  unfold lateWarnings
  simp only []
  split <;> split <;> split <;> (try split) <;> (try split) <;> simp

@[simp] theorem lateWarnings_false (st : St) (d : Directive) : lateWarnings false st d = st := by
  unfold lateWarnings
  simp

theorem conversion_strip (w : Bool) (st : St) (d : Directive) :
    (conversion w st d).map (fun p => (p.1.strip, p.2)) = conversion false st.strip d := by
  unfold conversion
  simp only [strip_items, lateWarnings_false]
  have h1 := checkFlags_strip w st d.flags d.conv
  cases hc : checkFlags w st d.flags d.conv with
  | error e => rw [hc] at h1; rw [← h1]; rfl
  | ok st1 =>
    rw [hc] at h1; rw [← h1]
    simp only [Except.map]
    have h2 := doWidth_strip st1 d.width st.items.length
    cases hw : doWidth st1 d.width st.items.length with
    | error e => rw [hw] at h2; rw [← h2]; rfl
    | ok st2 =>
      rw [hw] at h2; rw [← h2]
      simp only [Except.map]
      have h3 := doPrec_strip st2 d.prec d.conv st.items.length
      cases hp : doPrec st2 d.prec d.conv st.items.length with
      | error e => rw [hp] at h3; rw [← h3]; rfl
      | ok st3 =>
        rw [hp] at h3; rw [← h3]
        simp only [Except.map]
        cases typeTable_lookup : I18n.Generated.PyFormatTables.typeTable.lookup d.conv with
        | none => rfl
        | some tp =>
          simp only []
          by_cases hn : (tp == "None") = true
          · simp only [hn, if_true]
            by_cases hk : d.key.isSome = true
            · simp only [hk, if_true]
            · simp only [hk, Bool.false_eq_true, if_false]; simp [Except.map]
          · simp only [hn, Bool.false_eq_true, if_false]
            have h5 := addArgument_strip (lateWarnings w st3 d) d.key ⟨.conv, tp, st.items.length⟩
            simp only [lateWarnings_strip] at h5
            rw [← h5]
            cases addArgument (lateWarnings w st3 d) d.key ⟨.conv, tp, st.items.length⟩ with
            | error e => rfl
            | ok st5 => rfl

@[simp] theorem flush_strip (text : List Char) (st : St) : (flush text st).strip = flush text st.strip := by
  unfold flush; split <;> rfl

theorem loop_strip (w : Bool) : ∀ (fuel : Nat) (s text : List Char) (st : St),
    (loop w fuel s text st).map St.strip = loop false fuel s text st.strip := by
  intro fuel
  induction fuel with
  | zero => intro s text st; rfl
  | succ fuel ih =>
    intro s text st
    cases s with
    | nil => simp [loop, Except.map]
    | cons c cs =>
      simp only [loop]
      split
      · exact ih _ _ _
      · cases hs : scanDirective cs with
        | none => rfl
        | some p =>
          obtain ⟨d, rest⟩ := p
          simp only []
          have h := conversion_strip w (flush text st) d
          rw [flush_strip] at h
          rw [← h]
          cases conversion w (flush text st) d with
          | error e => rfl
          | ok q =>
            obtain ⟨st1, tp⟩ := q
            simp only [Except.map]
            exact ih _ _ _

/-- a result with the recorded warnings dropped -/
def Result.strip (r : Result) : Result := { r with warnings := [] }

/-- **Recording warnings is inert**: the run that records them (`parse`, the real code) and the run that does not give
    the same acceptance, error class, argument lists and items -/
theorem parseW_strip (w : Bool) (s : List Char) : (parseW w s).map Result.strip = parseW false s := by
  unfold parseW
  have h := loop_strip w (s.length + 1) s [] St.init
  have hi : St.init.strip = St.init := rfl
  rw [hi] at h
  rw [← h]
  cases loop w (s.length + 1) s [] St.init with
  | error e => rfl
  | ok st =>
    simp only [Except.map, strip_map, strip_seq, strip_items]
    by_cases hall : ((groups st.map).all fun g => sameType g.2) = true
    · simp only [hall, if_true]; rfl
    · simp only [hall, Bool.false_eq_true, if_false]

end I18n.PyFmt
