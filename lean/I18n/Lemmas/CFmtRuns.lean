import I18n.Lemmas.CFmtParse
/-!
# Numerals of the directives of a string are digit runs of the string
-/
namespace I18n.CFmt
open I18n.Spec.Printf
open I18n.Generated.CFormatTables (intMaxStrDigits)

/-- no run of consecutive ASCII digits in `s` is longer than `n` -/
def DigitRunsLe (n : Nat) (s : List Char) : Prop :=
  ∀ a ds b, s = a ++ (ds ++ b) → (∀ c ∈ ds, c.isDigit = true) → ds.length ≤ n

/-- the strings on which `int()` cannot refuse a numeral: the interpreter has no limit
    (`sys.get_int_max_str_digits() == 0`, as lib/__init__.py arranges since `fix:` 871d4d7), or no run of ASCII digits
    is longer than the limit -/
def ShortNumerals (s : List Char) : Prop := intMaxStrDigits = 0 ∨ DigitRunsLe intMaxStrDigits s

theorem dirShort_of_unlimited (h0 : intMaxStrDigits = 0) (d : Directive) : DirShort d := by
  obtain ⟨index, flags, width, prec, body⟩ := d
  refine ⟨?_, ?_, ?_⟩
  · cases index <;> first | trivial | exact Or.inl h0
  · cases width with
    | none => trivial
    | num ds => exact Or.inl h0
    | star idx => cases idx <;> first | trivial | exact Or.inl h0
  · cases prec with
    | none => trivial
    | num ds => exact Or.inl h0
    | star idx => cases idx <;> first | trivial | exact Or.inl h0

theorem DigitRunsLe.infix {n : Nat} {s t a b : List Char} (h : DigitRunsLe n s) (hs : s = a ++ (t ++ b)) : DigitRunsLe n t := by
  intro a' ds b' ht hd
  exact h (a ++ a') ds (b' ++ b) (by rw [hs, ht]; simp) hd

theorem dirShort_of_runs {d : Directive} (hd : d.Wf) (h : DigitRunsLe intMaxStrDigits d.renderTail) : DirShort d := by
  obtain ⟨index, flags, width, prec, body⟩ := d
  obtain ⟨w1, w2, w3, w4, w5⟩ := hd
  simp only at w1 w3 w4
  simp only [Directive.renderTail] at h
  refine ⟨?_, ?_, ?_⟩
  · cases index with
    | none => trivial
    | some ds => exact Or.inr <| h [] ds ('$' :: (flags ++ (width.render ++ (prec.render ++ body.render)))) (by simp [renderIdx]) w1.2
  · cases width with
    | none => trivial
    | num ds => exact Or.inr <| h (renderIdx index ++ flags) ds (prec.render ++ body.render) (by simp [Width.render]) w3.1.2
    | star idx =>
      cases idx with
      | none => trivial
      | some ds => exact Or.inr <| h (renderIdx index ++ flags ++ ['*']) ds ('$' :: (prec.render ++ body.render)) (by simp [Width.render, renderIdx]) w3.2
  · cases prec with
    | none => trivial
    | num ds => exact Or.inr <| h (renderIdx index ++ flags ++ width.render ++ ['.']) ds body.render (by simp [Prec.render]) w4
    | star idx =>
      cases idx with
      | none => trivial
      | some ds =>
        exact Or.inr <| h (renderIdx index ++ flags ++ width.render ++ ['.', '*']) ds ('$' :: body.render) (by simp [Prec.render, renderIdx]) w4.2

theorem dirs_infix : ∀ (items : List Item) (rest : List Char), ∀ d ∈ dirs items,
    ∃ a b, render items ++ rest = a ++ (d.renderTail ++ b)
  | [], _, d, hd => by cases hd
  | .lit cs :: more, rest, d, hd => by
    obtain ⟨a, b, h⟩ := dirs_infix more rest d (by simpa [dirs] using hd)
    exact ⟨cs ++ a, b, by simp [render, Item.render, h]⟩
  | .dir d' :: more, rest, d, hd => by
    simp only [dirs, List.mem_cons] at hd
    rcases hd with rfl | hd
    · exact ⟨['%'], render more ++ rest, by simp [render, Item.render, Directive.render]⟩
    · obtain ⟨a, b, h⟩ := dirs_infix more rest d hd
      exact ⟨d'.render ++ a, b, by simp [render, Item.render, h]⟩

/-- if the string has no over-long digit run, `int()` accepts every numeral of every directive scanned from it -/
theorem dirShort_of_scan {s : List Char} (h : ShortNumerals s) : ∀ d ∈ dirs (scan s).1, DirShort d := by
  intro d hd
  rcases h with h0 | h
  · exact dirShort_of_unlimited h0 d
  obtain ⟨hwf, rest, hs, _⟩ := scan_sound (s := s) (items := (scan s).1) (complete := (scan s).2) rfl
  obtain ⟨a, b, hab⟩ := dirs_infix (scan s).1 rest d hd
  have hdw : d.Wf := by
    have : ∀ (items : List Item), ItemsWf items → ∀ d ∈ dirs items, d.Wf := by
      intro items
      induction items with
      | nil => intro _ d hd; cases hd
      | cons it more ih =>
        intro hw d hd
        cases it with
        | lit cs => exact ih hw.2.2.2 d (by simpa [dirs] using hd)
        | dir d' =>
          simp only [dirs, List.mem_cons] at hd
          rcases hd with rfl | hd
          · exact hw.1
          · exact ih hw.2 d hd
    exact this _ hwf d hd
  exact dirShort_of_runs hdw (h.infix (hs.trans hab))

theorem dirShort_of_render {items : List Item} (hwf : ItemsWf items) (h : ShortNumerals (render items)) :
    ∀ d ∈ dirs items, DirShort d := by
  have := dirShort_of_scan h
  rw [scan_complete hwf] at this
  exact this

end I18n.CFmt
