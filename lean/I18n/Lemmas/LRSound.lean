import I18n.Lemmas.LRComplete
import I18n.Lemmas.ParseAmb
/-! Soundness of the LR driver over the dumped tables: an accepted token list is a sentence of plural.y's grammar
    (`Amb`).  Together with completeness (`LRComplete`) and the unambiguity of `D` this pins the returned tree.

    Invariant of the run: the stack is a path of the automaton from the start state (`PathOK`), and its symbols span,
    in order, the consumed prefix of the input, each `ast` value over a sentence (`SpansV`). -/
namespace I18n.PluralLR
open I18n I18n.PluralParse I18n.Spec

def ValOK : Val → List Tok → Prop
  | .bottom, w => w = []
  | .tok t, w => w = [t]
  | .node _, w => Amb w
  | .expr _, w => Amb w

/-- symbol values, bottom first, span `w` -/
def SpansV : List Val → List Tok → Prop
  | [], w => w = []
  | v :: vs, w => ∃ w1 w2, w = w1 ++ w2 ∧ ValOK v w1 ∧ SpansV vs w2

theorem SpansV_append {a b : List Val} {w : List Tok} :
    SpansV (a ++ b) w ↔ ∃ w1 w2, w = w1 ++ w2 ∧ SpansV a w1 ∧ SpansV b w2 := by
  induction a generalizing w with
  | nil =>
    constructor
    · intro h; exact ⟨[], w, rfl, rfl, h⟩
    · rintro ⟨w1, w2, rfl, h1, h2⟩
      cases h1
      simpa using h2
  | cons v vs ih =>
    constructor
    · rintro ⟨w1, w2, rfl, hv, h⟩
      obtain ⟨w3, w4, rfl, h3, h4⟩ := ih.1 h
      exact ⟨w1 ++ w3, w4, by simp, ⟨w1, w3, rfl, hv, h3⟩, h4⟩
    · rintro ⟨w1, w2, rfl, ⟨w3, w4, rfl, hv, h4⟩, h2⟩
      exact ⟨w3, w4 ++ w2, by simp, hv, ih.2 ⟨w4, w2, rfl, h4, h2⟩⟩

/-- an action applied to well-spanned symbols yields a well-spanned value -/
theorem applyAction_ok {act : Action} {args : List Val} {v : Val} {w : List Tok}
    (h : applyAction act args = some v) (hs : SpansV args w) : ValOK v w := by
  unfold applyAction at h
  split at h <;> simp only [Option.some.injEq, reduceCtorEq] at h <;> subst h
  · obtain ⟨w1, _, rfl, h1, rfl⟩ := hs
    simpa [ValOK] using h1
  · obtain ⟨w1, _, rfl, h1, w2, _, rfl, h2, w3, _, rfl, h3, w4, _, rfl, h4, w5, _, rfl, h5, rfl⟩ := hs
    cases h2; cases h4
    have := Amb.cond h1 h3 h5
    simpa [ValOK] using this
  · obtain ⟨w1, _, rfl, h1, w2, _, rfl, h2, w3, _, rfl, h3, rfl⟩ := hs
    cases h2
    rename_i op _
    have := Amb.bin (.bool op) (by cases op <;> rfl) h1 h3
    simpa [ValOK] using this
  · obtain ⟨w1, _, rfl, h1, w2, _, rfl, h2, w3, _, rfl, h3, rfl⟩ := hs
    cases h2
    rename_i op _
    have := Amb.bin (.cmp op) (by cases op <;> rfl) h1 h3
    simpa [ValOK] using this
  · obtain ⟨w1, _, rfl, h1, w2, _, rfl, h2, w3, _, rfl, h3, rfl⟩ := hs
    cases h2
    rename_i op _
    have := Amb.bin (.bin op) (by cases op <;> rfl) h1 h3
    simpa [ValOK] using this
  · obtain ⟨w1, _, rfl, h1, w2, _, rfl, h2, rfl⟩ := hs
    cases h1
    have := Amb.not h2
    simpa [ValOK] using this
  · obtain ⟨w1, _, rfl, h1, w2, _, rfl, h2, w3, _, rfl, h3, rfl⟩ := hs
    cases h1; cases h3
    have := Amb.paren h2
    simpa [ValOK] using this
  · obtain ⟨w1, _, rfl, h1, rfl⟩ := hs
    cases h1
    simpa [ValOK] using Amb.var
  · obtain ⟨w1, _, rfl, h1, rfl⟩ := hs
    cases h1
    rename_i n
    simpa [ValOK] using Amb.int n

/-- the table entry that pushes `(s', v)` on top of state `s` -/
def Trans (s : Nat) (v : Val) (s' : Nat) : Prop :=
  match v with
  | .bottom => False
  | .tok t => T.actionAt s (col (some t)) = some (some (s' : Int)) ∧ 0 < s'
  | .node _ => T.gotoAt s 0 = some s'
  | .expr _ => T.gotoAt s 1 = some s'

def PathOK : List (Nat × Val) → Prop
  | [] => False
  | [(s, v)] => s = 0 ∧ v = .bottom
  | (s', v) :: (s, u) :: st => Trans s v s' ∧ PathOK ((s, u) :: st)

theorem PathOK_drop : ∀ (st : List (Nat × Val)) (n : Nat), PathOK st → n < st.length → PathOK (st.drop n)
  | st, 0, h, _ => by simpa using h
  | [], _ + 1, h, _ => by cases h
  | [_], n + 1, _, hn => by simp at hn
  | _ :: (s, u) :: st, n + 1, h, hn => by
    simp only [List.drop_succ_cons]
    exact PathOK_drop ((s, u) :: st) n h.2 (by simpa using hn)

def Inv (ts : List Tok) (c : Config) : Prop :=
  PathOK c.stack ∧ ∃ w, SpansV (c.stack.reverse.map (·.2)) w ∧ w ++ c.rest = ts

/-- the kind of value an action returns agrees with the left-hand side of its productions -/
theorem tf_lhs : ∀ p, p < 13 → ∀ pr, T.prods[p]? = some pr →
    (pr.act = .evalStart → pr.lhs = 1) ∧ (pr.act ≠ .evalStart → pr.act ≠ .none → pr.lhs = 0) := by decide

theorem prods_lt {p : Nat} {pr : Prod} (h : T.prods[p]? = some pr) : p < 13 := by
  have := (List.getElem?_eq_some_iff.1 h).1
  simpa [T] using this

theorem applyAction_kind {act : Action} {args : List Val} {v : Val} (h : applyAction act args = some v) :
    (act = .evalStart ∧ ∃ e, v = .expr e) ∨ (act ≠ .evalStart ∧ act ≠ .none ∧ ∃ e, v = .node e) := by
  unfold applyAction at h
  split at h <;> simp only [Option.some.injEq, reduceCtorEq] at h <;> subst h
  · exact .inl ⟨rfl, _, rfl⟩
  all_goals exact .inr ⟨by simp, by simp, _, rfl⟩

theorem reduce_inv {ts : List Tok} {p : Nat} {c c' : Config} (h : reduce T p c = .next c') (hi : Inv ts c) : Inv ts c' := by
  obtain ⟨stack, rest⟩ := c
  unfold reduce at h
  split at h
  · cases h
  · rename_i pr hp
    split at h
    · cases h
    · rename_i hlen
      split at h
      · cases h
      · rename_i v ha
        split at h
        · cases h
        · rename_i s u below hdrop
          split at h
          · cases h
          · rename_i s' hg
            cases h
            simp only at hlen ha hdrop
            obtain ⟨hpath, w, hspan, hw⟩ := hi
            simp only at hpath hspan hw
            have hsplit : stack = stack.take pr.len ++ (s, u) :: below := by
              rw [← hdrop, List.take_append_drop]
            refine ⟨?_, ?_⟩
            · -- path
              have hpd := PathOK_drop stack pr.len hpath (by omega)
              rw [hdrop] at hpd
              refine ⟨?_, hpd⟩
              obtain ⟨hl1, hl0⟩ := tf_lhs p (prods_lt hp) pr hp
              rcases applyAction_kind ha with ⟨hact, e, rfl⟩ | ⟨hact, hact', e, rfl⟩
              · simpa [Trans, hl1 hact] using hg
              · simpa [Trans, hl0 hact hact'] using hg
            · -- spans
              rw [hsplit, List.reverse_append, List.map_append] at hspan
              obtain ⟨w1, w2, rfl, h1, h2⟩ := SpansV_append.1 hspan
              refine ⟨w1 ++ w2, ?_, hw⟩
              show SpansV ((((s', v) :: (s, u) :: below).reverse).map (·.2)) (w1 ++ w2)
              rw [List.reverse_cons, List.map_append]
              exact SpansV_append.2 ⟨w1, w2, rfl, h1, ⟨w2, [], by simp, applyAction_ok ha h2, rfl⟩⟩

theorem step_inv {ts : List Tok} {c c' : Config} (h : step T c = .next c') (hi : Inv ts c) : Inv ts c' := by
  obtain ⟨stack, rest⟩ := c
  unfold step at h
  simp only at h
  split at h
  · cases h
  · rename_i s v st
    split at h
    · cases h
    · rename_i d hd
      split at h
      · exact reduce_inv h hi
      · split at h
        · cases h
        · cases h
        · rename_i t ha
          split at h
          · rename_i ht
            split at h
            · cases h
            · rename_i tok rest'
              cases h
              obtain ⟨hpath, w, hspan, hw⟩ := hi
              simp only at hpath hspan hw
              refine ⟨?_, w ++ [tok], ?_, by rw [← hw]; simp⟩
              · refine ⟨⟨?_, by omega⟩, hpath⟩
                simp only [List.head?_cons] at ha
                rw [ha]
                congr 2
                omega
              · show SpansV ((((t.toNat, Val.tok tok) :: (s, v) :: st).reverse).map (·.2)) (w ++ [tok])
                rw [List.reverse_cons, List.map_append]
                exact SpansV_append.2 ⟨w, [tok], rfl, hspan, ⟨[tok], [], rfl, rfl, rfl⟩⟩
          · split at h
            · exact reduce_inv h hi
            · split at h <;> cases h

/-! ## acceptance -/

theorem actionAt_lt {s c : Nat} {x : Option Int} (h : T.actionAt s c = some x) : s < 26 ∧ c < 14 := by
  unfold Tables.actionAt at h
  cases hr : T.action[s]? with
  | none => simp [hr] at h
  | some row =>
    have hs := (List.getElem?_eq_some_iff.1 hr).1
    have hs' : s < 26 := by simpa [T, Generated.PluralLR.action] using hs
    refine ⟨hs', ?_⟩
    simp only [hr] at h
    have hc := (List.getElem?_eq_some_iff.1 h).1
    have : ∀ s, s < 26 → ∀ row, T.action[s]? = some row → row.length = 14 := by decide
    rw [this s hs' row hr] at hc
    exact hc

theorem gotoAt_lt {s nt x : Nat} (h : T.gotoAt s nt = some x) : s < 26 := by
  unfold Tables.gotoAt at h
  cases hr : T.goto[s]? with
  | none => simp [hr] at h
  | some row =>
    have hs := (List.getElem?_eq_some_iff.1 hr).1
    simpa [T, Generated.PluralLR.goto] using hs

/-- accept is entered only in state 6 on `$end`; state 6 is entered only by `start` from state 0; nothing enters state 0 -/
theorem tf_accept1 : ∀ s, s < 26 → ∀ c, c < 14 → T.actionAt s c = some (some 0) → s = 6 ∧ c = 13 := by decide
theorem tf_accept2 : ∀ s, s < 26 → ∀ c, c < 14 → T.actionAt s c ≠ some (some 6) := by decide
theorem tf_accept3 : ∀ s, s < 26 →
    T.gotoAt s 0 ≠ some 6 ∧ T.gotoAt s 0 ≠ some 0 ∧ T.gotoAt s 1 ≠ some 0 ∧ (T.gotoAt s 1 = some 6 → s = 0) := by decide

theorem col_some_ne (t : Tok) : col (some t) ≠ 13 := by
  cases t <;> first | decide | (rename_i op; cases op <;> decide) | (simp [col])

theorem accept_inv {ts : List Tok} {c : Config} {v : Val} (h : step T c = .accept v) (hi : Inv ts c) :
    ∃ e, v = .expr e ∧ Amb ts := by
  have hacc := tf_accept1
  have hno6 := tf_accept2
  have hgoto := tf_accept3
  unfold step at h
  rcases hst : c.stack with _ | ⟨⟨s, v0⟩, st⟩
  · simp [hst] at h
  · simp only [hst] at h
    cases hd : T.defaultRed s with
    | none => simp [hd] at h
    | some d =>
      simp only [hd] at h
      by_cases hd0 : d ≠ 0
      · rw [if_pos hd0] at h
        unfold reduce at h
        repeat' split at h
        all_goals cases h
      · rw [if_neg hd0] at h
        cases ha : T.actionAt s (col c.rest.head?) with
        | none => simp [ha] at h
        | some a =>
          cases a with
          | none => simp [ha] at h
          | some t =>
            simp only [ha] at h
            by_cases ht : t > 0
            · rw [if_pos ht] at h
              split at h <;> cases h
            · rw [if_neg ht] at h
              by_cases ht' : t < 0
              · rw [if_pos ht'] at h
                unfold reduce at h
                repeat' split at h
                all_goals cases h
              · rw [if_neg ht'] at h
                have ht0 : t = 0 := by omega
                subst ht0
                simp only [Outcome.accept.injEq] at h
                subst h
                obtain ⟨hs6, hc13⟩ := hacc s (actionAt_lt ha).1 _ (actionAt_lt ha).2 ha
                subst hs6
                have hrest : c.rest = [] := by
                  rcases hr : c.rest with _ | ⟨tok, rest⟩
                  · rfl
                  · rw [hr] at hc13
                    exact absurd hc13 (col_some_ne tok)
                obtain ⟨hpath, w, hspan, hw⟩ := hi
                rw [hst] at hpath hspan
                rcases st with _ | ⟨⟨s0, u⟩, st'⟩
                · obtain ⟨h6, _⟩ := hpath
                  cases h6
                · obtain ⟨htr, hp0⟩ := hpath
                  -- what pushed state 6
                  have hv : (∃ e, v0 = .expr e) ∧ s0 = 0 := by
                    cases v0 with
                    | bottom => cases htr
                    | tok tk =>
                      obtain ⟨h1, _⟩ := htr
                      exact absurd h1 (hno6 s0 (actionAt_lt h1).1 _ (actionAt_lt h1).2)
                    | node e => exact absurd htr (hgoto s0 (gotoAt_lt htr)).1
                    | expr e => exact ⟨⟨e, rfl⟩, (hgoto s0 (gotoAt_lt htr)).2.2.2 htr⟩
                  obtain ⟨⟨e, rfl⟩, rfl⟩ := hv
                  -- state 0 is the bottom
                  have hbot : st' = [] ∧ u = .bottom := by
                    rcases st' with _ | ⟨⟨s1, u1⟩, st''⟩
                    · exact ⟨rfl, hp0.2⟩
                    · obtain ⟨htr0, _⟩ := hp0
                      cases u with
                      | bottom => cases htr0
                      | tok tk => exact absurd htr0.2 (by omega)
                      | node e' => exact absurd htr0 (hgoto s1 (gotoAt_lt htr0)).2.1
                      | expr e' => exact absurd htr0 (hgoto s1 (gotoAt_lt htr0)).2.2.1
                  obtain ⟨rfl, rfl⟩ := hbot
                  refine ⟨e, rfl, ?_⟩
                  simp only [List.reverse_cons, List.reverse_nil, List.nil_append, List.cons_append, List.map_cons,
                    List.map_nil] at hspan
                  obtain ⟨w1, _, rfl, h1, w2, _, rfl, h2, rfl⟩ := hspan
                  cases h1
                  rw [hrest] at hw
                  simp only [List.append_nil, List.nil_append] at hw
                  rw [← hw]
                  exact h2

theorem run_sound {ts : List Tok} {e : Expr} : ∀ (f : Nat) (c : Config), Inv ts c → run T f c = .ok e → Amb ts
  | 0, _, _, h => by simp [run] at h
  | f + 1, c, hi, h => by
    simp only [run] at h
    cases hs : step T c with
    | next c' =>
      simp only [hs] at h
      exact run_sound f c' (step_inv hs hi) h
    | accept v =>
      obtain ⟨e', rfl, hamb⟩ := accept_inv hs hi
      exact hamb
    | parsingError => simp [hs] at h
    | crash => simp [hs] at h

/-- **Soundness of the LR driver** with respect to the language of plural.y. -/
theorem lrParseWith_amb {ts : List Tok} {e : Expr} (h : lrParseWith T ts = .ok e) : Amb ts := by
  have hpath : PathOK [(0, Val.bottom)] := ⟨rfl, rfl⟩
  have hspan : SpansV [Val.bottom] [] := ⟨[], [], rfl, rfl, rfl⟩
  have hinv : Inv ts ⟨[(0, .bottom)], ts⟩ := ⟨hpath, [], hspan, rfl⟩
  exact run_sound _ _ hinv h

/-- The table-driven parser returns `e` exactly when the recursive-descent model does — i.e. exactly when the
    stratified C grammar derives `e`. -/
theorem lrParse_ok_iff (ts : List Tok) (e : Expr) : lrParse ts = .ok e ↔ parseToks ts = some e := by
  unfold lrParse
  rw [tables_eq]
  simp only
  rw [parseToks_iff]
  constructor
  · intro h
    obtain ⟨e', d⟩ := (derivable_iff_amb ts).2 (lrParseWith_amb h)
    have := lrParseWith_complete d
    rw [h] at this
    cases this
    exact d
  · exact lrParseWith_complete

end I18n.PluralLR
