import I18n.Lemmas.PoLines
/-! polib's state machine over the lines of a spelled entry. -/
namespace I18n.Lemmas.PoFsm
open I18n I18n.Po I18n.Spec.PoSpelling I18n.Lemmas.PoKit I18n.Lemmas.PoLines
open I18n.Generated.PolibFsm (St Sym Handler)

/-- equal up to the two scratch variables (`tokens[0]`, `entry_obsolete`) that every non-blank line overwrites -/
def Same (a b : PState) : Prop :=
  a.entries = b.entries ∧ a.header = b.header ∧ a.cur = b.cur ∧ a.state = b.state ∧ a.msgstrIndex = b.msgstrIndex

theorem Same.refl (a : PState) : Same a a := ⟨rfl, rfl, rfl, rfl, rfl⟩
theorem Same.trans {a b c : PState} (h1 : Same a b) (h2 : Same b c) : Same a c :=
  ⟨h1.1.trans h2.1, h1.2.1.trans h2.2.1, h1.2.2.1.trans h2.2.2.1, h1.2.2.2.1.trans h2.2.2.2.1, h1.2.2.2.2.trans h2.2.2.2.2⟩
theorem Same.symm {a b : PState} (h : Same a b) : Same b a :=
  ⟨h.1.symm, h.2.1.symm, h.2.2.1.symm, h.2.2.2.1.symm, h.2.2.2.2.symm⟩

theorem same_set {a b : PState} (h : Same a b) (o : Bool) (t : Option Text) :
    { a with entryObsolete := o, lastTok := t } = { b with entryObsolete := o, lastTok := t } := by
  obtain ⟨h1, h2, h3, h4, h5⟩ := h
  cases a; cases b; simp_all

theorem same_of_set (a : PState) (o : Bool) (t : Option Text) : Same a { a with entryObsolete := o, lastTok := t } :=
  ⟨rfl, rfl, rfl, rfl, rfl⟩

/-! ### noise -/

theorem noise_step (env : Env) (hsp : env.isSpace = pyIsSpace) (enc : Bytes) (n : Nat) (z : Noise) (hz : z.Valid) (s : PState) :
    ∃ s', stepLine env enc n z.render s = .ok s' ∧ Same s s' := by
  cases z with
  | blank ws => exact ⟨s, stepLine_blank env hsp enc n ws hz s, Same.refl s⟩
  | ignoredPrev lpad mid rpad =>
    obtain ⟨hl, hr, hm1, hm2⟩ := hz
    have hcore_ne : ('#' :: '~' :: '|' :: mid) ≠ [] := by simp
    have hlast : LastNot pyIsSpace ('#' :: '~' :: '|' :: mid) := by
      cases mid with
      | nil => intro c e; simp at e; rw [← e]; decide
      | cons a as =>
        have : '#' :: '~' :: '|' :: a :: as = ['#', '~', '|'] ++ (a :: as) := by simp
        rw [this]; exact lastNot_append _ _ (by simp) hm2
    have hsplit : splitWs pyIsSpace 2 ('#' :: '~' :: '|' :: mid) = ['#', '~', '|'] :: splitWs pyIsSpace 1 mid := by
      have := splitWs_tok (p := pyIsSpace) 1 ['#', '~', '|'] mid (by simp)
        (by intro c hc; simp at hc; rcases hc with rfl | rfl | rfl <;> decide) hm1
      simpa using this
    have hb : dropBom n (lpad ++ ('#' :: '~' :: '|' :: mid) ++ rpad) = lpad ++ ('#' :: '~' :: '|' :: mid) ++ rpad :=
      dropBom_id n _ (by
        intro c r e
        cases lpad with
        | nil => simp at e; rw [← e.1]; decide
        | cons x xs => simp at e; rw [← e.1]; exact blank_ne_bom _ hl x (by simp))
    have hs := strip_pad (p := pyIsSpace) lpad ('#' :: '~' :: '|' :: mid) rpad (blank_space lpad hl) hr
      (by intro c r e; simp at e; rw [← e.1]; decide) hlast
    refine ⟨{ s with lastTok := some ['#', '~', '|'] }, ?_, ⟨rfl, rfl, rfl, rfl, rfl⟩⟩
    simp only [Noise.render, stepLine, hsp, hb, hs, hsplit]
    simp
  | bare lpad k rpad =>
    obtain ⟨hl, hr, hk⟩ := hz
    have hksp : pyIsSpace k = false := by rcases hk with rfl | rfl | rfl <;> decide
    have hsplit : splitWs pyIsSpace 2 ['#', k] = [['#', k]] := by
      have := splitWs_tok (p := pyIsSpace) 1 ['#', k] [] (by simp)
        (by intro c hc; simp at hc; rcases hc with rfl | rfl; decide; exact hksp) (by intro c r e; simp at e)
      simpa [splitWs] using this
    have := stepLine_plain env hsp enc n lpad ['#', k] rpad (blank_space lpad hl) hr (by simp)
      (by intro c r e; simp at e; rw [← e.1]; decide) (by intro c e; simp at e; rw [← e]; exact hksp)
      (by
        intro c r e
        cases lpad with
        | nil => simp at e; rw [← e.1]; decide
        | cons x xs => simp at e; rw [← e.1]; exact blank_ne_bom _ hl x (by simp))
      ['#', k] [] hsplit (by simp) (by rcases hk with rfl | rfl | rfl <;> decide) s
    refine ⟨{ s with entryObsolete := false, lastTok := some ['#', k] }, ?_, same_of_set s _ _⟩
    simp only [Noise.render]
    rw [this]
    rcases hk with rfl | rfl | rfl <;> simp [dispatch, lookupKw, startsWith]

theorem parseLoop_append (env : Env) (enc : Bytes) (n : Nat) (a b : List Text) (s : PState) :
    parseLoop env enc n (a ++ b) s =
      match parseLoop env enc n a s with
      | .error e => .error e
      | .ok s' => parseLoop env enc (n + a.length) b s' := by
  induction a generalizing n s with
  | nil => simp [parseLoop]
  | cons l ls ih =>
    simp only [List.cons_append, parseLoop]
    cases stepLine env enc (n + 1) l s with
    | error e => rfl
    | ok s1 =>
      simp only [ih]
      have : n + 1 + ls.length = n + (ls.length + 1) := by omega
      simp [this]

theorem noise_loop (env : Env) (hsp : env.isSpace = pyIsSpace) (enc : Bytes) (zs : List Noise) (hz : ∀ z ∈ zs, z.Valid)
    (n : Nat) (s : PState) :
    ∃ s', parseLoop env enc n (zs.map Noise.render) s = .ok s' ∧ Same s s' := by
  induction zs generalizing n s with
  | nil => exact ⟨s, rfl, Same.refl s⟩
  | cons z zs ih =>
    obtain ⟨s1, h1, hs1⟩ := noise_step env hsp enc (n + 1) z (hz z (by simp)) s
    obtain ⟨s2, h2, hs2⟩ := ih (fun y hy => hz y (by simp [hy])) (n + 1) s1
    exact ⟨s2, by simp [parseLoop, h1, h2], hs1.trans hs2⟩

/-! ### the string fields and their continuation lines -/

inductive Fld where
  | ct | mi | mp | ms | mx | pc | pm | pp
  deriving DecidableEq

def Fld.st : Fld → St
  | .ct => .ct | .mi => .mi | .mp => .mp | .ms => .ms | .mx => .mx | .pc => .pc | .pm => .pm | .pp => .pp

def Fld.get (s : PState) : Fld → Option Text
  | .ct => s.cur.msgctxt
  | .mi => some s.cur.msgid
  | .mp => s.cur.msgidPlural
  | .ms => s.cur.msgstr
  | .mx => dictGet? s.msgstrIndex s.cur.msgstrPlural
  | .pc => s.cur.previousMsgctxt
  | .pm => s.cur.previousMsgid
  | .pp => s.cur.previousMsgidPlural

def Fld.set (s : PState) (v : Text) : Fld → PState
  | .ct => { s with cur := { s.cur with msgctxt := some v } }
  | .mi => { s with cur := { s.cur with msgid := v } }
  | .mp => { s with cur := { s.cur with msgidPlural := some v } }
  | .ms => { s with cur := { s.cur with msgstr := some v } }
  | .mx => { s with cur := { s.cur with msgstrPlural := dictSet s.msgstrIndex v s.cur.msgstrPlural } }
  | .pc => { s with cur := { s.cur with previousMsgctxt := some v } }
  | .pm => { s with cur := { s.cur with previousMsgid := some v } }
  | .pp => { s with cur := { s.cur with previousMsgidPlural := some v } }

theorem dictGet_dictSet (k : Nat) (v : Text) (d : List (Nat × Text)) : dictGet? k (dictSet k v d) = some v := by
  induction d with
  | nil => simp [dictSet, dictGet?]
  | cons kv rest ih =>
    obtain ⟨k', v'⟩ := kv
    by_cases h : k' = k
    · simp [dictSet, dictGet?, h]
    · simp [dictSet, dictGet?, h, ih]

theorem dictSet_dictSet (k : Nat) (v w : Text) (d : List (Nat × Text)) : dictSet k w (dictSet k v d) = dictSet k w d := by
  induction d with
  | nil => simp [dictSet]
  | cons kv rest ih =>
    obtain ⟨k', v'⟩ := kv
    by_cases h : k' = k
    · simp [dictSet, h]
    · simp [dictSet, h, ih]

theorem fld_get_set (f : Fld) (s : PState) (v : Text) : f.get (f.set s v) = some v := by
  cases f <;> simp [Fld.get, Fld.set, dictGet_dictSet]

theorem fld_set_set (f : Fld) (s : PState) (v w : Text) : f.set (f.set s v) w = f.set s w := by
  cases f <;> simp [Fld.set, dictSet_dictSet]

theorem fld_set_state (f : Fld) (s : PState) (v : Text) : (f.set s v).state = s.state := by
  cases f <;> rfl

theorem transition_mc (f : Fld) : transition .mc f.st = some .mc := by cases f <;> rfl

/-- a continuation line in the state of field `f` appends to that field -/
theorem handle_mc (env : Env) (enc : Bytes) (n : Nat) (f : Fld) (cs : List Choice) (t : Text)
    (hu : unescape env enc (render cs) = some t) (s : PState) (hst : s.state = f.st) (v : Text) (hget : f.get s = some v) :
    handle env enc n .mc (quoted cs) s = some (f.set s (v ++ t), false) := by
  cases f <;> simp_all [handle, inner_quoted, Fld.st, Fld.get, Fld.set, appendOpt]

theorem process_mc (env : Env) (enc : Bytes) (n : Nat) (f : Fld) (cs : List Choice) (t : Text)
    (hu : unescape env enc (render cs) = some t) (s : PState) (hst : s.state = f.st) (v : Text) (hget : f.get s = some v) :
    process env enc n .mc (quoted cs) s = .ok (f.set s (v ++ t)) := by
  simp only [process, hst, transition_mc, handle_mc env enc n f cs t hu s hst v hget]
  simp

theorem dictSet_of_get (k : Nat) (v : Text) (d : List (Nat × Text)) (h : dictGet? k d = some v) : dictSet k v d = d := by
  induction d with
  | nil => simp [dictGet?] at h
  | cons kv rest ih =>
    obtain ⟨k', v'⟩ := kv
    by_cases hk : k' = k
    · simp [dictGet?, hk] at h; simp [dictSet, hk, h]
    · simp [dictGet?, hk] at h; simp [dictSet, hk, ih h]

theorem fld_set_get (f : Fld) (s : PState) (v : Text) (h : f.get s = some v) : f.set s v = s := by
  obtain ⟨es, hd, cur, st, mi, eo, lt⟩ := s
  cases cur
  cases f <;> simp_all [Fld.get, Fld.set, dictSet_of_get]

theorem same_get {a b : PState} (h : Same a b) (f : Fld) : f.get a = f.get b := by
  obtain ⟨_, _, h3, _, h5⟩ := h
  cases f <;> simp [Fld.get, h3, h5]

theorem same_set_fld {a b : PState} (h : Same a b) (f : Fld) (w : Text) : Same (f.set a w) (f.set b w) := by
  obtain ⟨h1, h2, h3, h4, h5⟩ := h
  cases f <;> exact ⟨h1, h2, by simp [Fld.set, h3, h5], h4, h5⟩

/-- one continuation line -/
theorem cont_step (E : Codec) (env : Env) (hsp : env.isSpace = pyIsSpace) (enc : Bytes) (hE : CodecOk env enc E)
    (pre : Prefix) (hpre : MsgPrefix pre) (f : Fld) (g : Seg) (hg : g.Valid E) (n : Nat) (s : PState)
    (hst : s.state = f.st) (v : Text) (hget : f.get s = some v) :
    ∃ s', stepLine env enc n (contLine pre g) s = .ok s' ∧ Same s' (f.set s (v ++ text g.choices)) ∧
      ∃ t r, s'.lastTok = some t ∧ t = '"' :: r := by
  obtain ⟨t0, r, ht0, hstep⟩ := step_cont_line E env hsp enc n pre hpre g hg s
  have hu := Lemmas.PoUnescape.unescape_spelling hE g.choices hg.1 hg.2.1
  have hs0 : Same s { s with entryObsolete := pre.isObsolete, lastTok := some t0 } := same_of_set s _ _
  have hp := process_mc env enc n f g.choices (text g.choices) hu { s with entryObsolete := pre.isObsolete, lastTok := some t0 }
    hst v (by rw [← same_get hs0 f]; exact hget)
  refine ⟨_, hstep.trans hp, (same_set_fld hs0 f _).symm, t0, r, ?_, ht0⟩
  cases f <;> rfl

/-- the token recorded by the last line does not start a comment -/
def TokOk (s : PState) : Prop := ∃ t, s.lastTok = some t ∧ t.head? ≠ some '#'

theorem parseLoop_nil_ok (env : Env) (enc : Bytes) (n : Nat) (s s' : PState) (h : parseLoop env enc n [] s = .ok s') : s' = s := by
  simp [parseLoop] at h; exact h.symm

theorem cont_block (E : Codec) (env : Env) (hsp : env.isSpace = pyIsSpace) (enc : Bytes) (hE : CodecOk env enc E)
    (pre : Prefix) (hpre : MsgPrefix pre) (f : Fld) (more : List (Seg × List Noise))
    (hv : ∀ gn ∈ more, gn.1.Valid E ∧ ∀ z ∈ gn.2, z.Valid) (n : Nat) (s : PState)
    (hst : s.state = f.st) (v : Text) (hget : f.get s = some v) :
    ∃ s', parseLoop env enc n (contLines pre more) s = .ok s' ∧
      Same s' (f.set s (v ++ more.flatMap fun gn => text gn.1.choices)) ∧
      (more = [] → s' = s) ∧ (∀ gn, more.getLast? = some gn → gn.2 = [] → TokOk s') := by
  induction more generalizing n s v with
  | nil =>
    refine ⟨s, rfl, ?_, fun _ => rfl, by simp⟩
    simp only [List.flatMap_nil, List.append_nil, fld_set_get f s v hget]
    exact Same.refl s
  | cons gn rest ih =>
    obtain ⟨g, zs⟩ := gn
    have hgv := hv (g, zs) (by simp)
    obtain ⟨s1, h1, hs1, t, r, ht1, ht2⟩ := cont_step E env hsp enc hE pre hpre f g hgv.1 (n + 1) s hst v hget
    obtain ⟨s2, h2, hs2⟩ := noise_loop env hsp enc zs hgv.2 (n + 1) s1
    have hs12 : Same s2 (f.set s (v ++ text g.choices)) := hs2.symm.trans hs1
    have hst2 : s2.state = f.st := by rw [hs12.2.2.2.1, fld_set_state]; exact hst
    have hget2 : f.get s2 = some (v ++ text g.choices) := by rw [same_get hs12 f, fld_get_set]
    obtain ⟨s3, h3, hs3, hnil, hlast⟩ := ih (fun x hx => hv x (by simp [hx])) (n + 1 + zs.length) s2 hst2 (v ++ text g.choices) hget2
    refine ⟨s3, ?_, ?_, by simp, ?_⟩
    · simp only [contLines, List.flatMap_cons, List.cons_append, parseLoop, h1]
      rw [parseLoop_append, h2]
      simpa [contLines] using h3
    · refine hs3.trans ?_
      have := same_set_fld hs12 f (v ++ text g.choices ++ rest.flatMap fun gn => text gn.1.choices)
      rw [fld_set_set] at this
      simpa [List.append_assoc] using this
    · intro gn hgn hz
      cases rest with
      | nil =>
        simp at hgn; subst hgn
        simp only at hz; subst hz
        have e2 : s2 = s1 := parseLoop_nil_ok env enc _ s1 s2 (by simpa using h2)
        rw [hnil rfl, e2]
        exact ⟨t, ht1, by rw [ht2]; simp⟩
      | cons y ys => exact hlast gn (by simpa [List.getLast?_cons_cons] using hgn) hz

/-- a keyword line followed by noise and continuation lines, given what the keyword line does -/
theorem str_block (E : Codec) (env : Env) (hsp : env.isSpace = pyIsSpace) (enc : Bytes) (hE : CodecOk env enc E)
    (pre : Prefix) (hpre : MsgPrefix pre) (f : Fld) (kw : Text) (x : StrSp) (hx : x.Valid E) (n : Nat) (s s1 : PState)
    (hkw : stepLine env enc (n + 1) (kwLine pre kw x.sep x.first) s = .ok s1)
    (hst : s1.state = f.st) (hget : f.get s1 = some (text x.first.choices)) :
    ∃ s', parseLoop env enc n (x.lines pre kw) s = .ok s' ∧ Same s' (f.set s1 x.text) ∧
      (TokOk s1 → x.EndsReal → TokOk s') := by
  obtain ⟨s2, h2, hs2⟩ := noise_loop env hsp enc x.firstNoise hx.2.2.2.1 (n + 1) s1
  have hst2 : s2.state = f.st := by rw [← hs2.2.2.2.1]; exact hst
  have hget2 : f.get s2 = some (text x.first.choices) := by rw [← same_get hs2 f]; exact hget
  obtain ⟨s3, h3, hs3, hnil, hlast⟩ := cont_block E env hsp enc hE pre hpre f x.more hx.2.2.2.2 (n + 1 + x.firstNoise.length) s2 hst2 _ hget2
  refine ⟨s3, ?_, hs3.trans (same_set_fld hs2.symm f _), ?_⟩
  · simp only [StrSp.lines, parseLoop, hkw]
    rw [parseLoop_append, h2]
    simpa using h3
  · intro htok hend
    unfold StrSp.EndsReal at hend
    cases hm : x.more.getLast? with
    | none =>
      rw [hm] at hend
      have hmore : x.more = [] := by simpa [List.getLast?_eq_none_iff] using hm
      have e2 : s2 = s1 := parseLoop_nil_ok env enc _ s1 s2 (by simpa [hend] using h2)
      rw [hnil hmore, e2]; exact htok
    | some gn =>
      rw [hm] at hend
      exact hlast gn hm hend

/-! ### what the keyword lines do -/

/-- `flushIfDone` at line `n` would leave entries `es` and the current entry `c` (up to its line number) -/
def Ready (s : PState) (es : List Entry) (c : Entry) : Prop :=
  ∀ n, (flushIfDone n s).entries = es ∧ (flushIfDone n s).header = s.header ∧ (flushIfDone n s).state = s.state ∧
    (flushIfDone n s).msgstrIndex = s.msgstrIndex ∧ ∃ ln, (flushIfDone n s).cur = { c with linenum := ln }

theorem flushIfDone_eo (n : Nat) (s : PState) (o : Bool) (t : Option Text) :
    flushIfDone n { s with entryObsolete := o, lastTok := t } = { flushIfDone n s with entryObsolete := o, lastTok := t } := by
  unfold flushIfDone; split <;> rfl

theorem ready_done (s : PState) (h : s.state = .ms ∨ s.state = .mx) : Ready s (s.entries ++ [s.cur]) {} := by
  intro n; simp [flushIfDone, h]

theorem ready_fresh (s : PState) (h : s.state = .st ∨ s.state = .he) (hc : s.cur = {}) : Ready s s.entries {} := by
  intro n
  have : ¬ (s.state = .ms ∨ s.state = .mx) := by rcases h with h | h <;> simp [h]
  simp [flushIfDone, this, hc]

theorem ready_mid (s : PState) (h : ¬ (s.state = .ms ∨ s.state = .mx)) : Ready s s.entries s.cur := by
  intro n; simp only [flushIfDone, h, if_false, true_and]; exact ⟨s.cur.linenum, rfl⟩

/-- a state given by the five components that matter -/
def mk (es : List Entry) (hd : Text) (cur : Entry) (st : St) (mi : Nat) : PState :=
  { entries := es, header := hd, cur := cur, state := st, msgstrIndex := mi }

theorem same_mk (s : PState) : Same s (mk s.entries s.header s.cur s.state s.msgstrIndex) := ⟨rfl, rfl, rfl, rfl, rfl⟩

theorem same_mk_iff {s : PState} {es hd cur st mi} :
    Same s (mk es hd cur st mi) ↔ s.entries = es ∧ s.header = hd ∧ s.cur = cur ∧ s.state = st ∧ s.msgstrIndex = mi := Iff.rfl

theorem process_of (env : Env) (enc : Bytes) (n : Nat) (sym : Sym) (h : Handler) (tok : Text) (s s' : PState) (ch : Bool)
    (htr : transition sym s.state = some h) (hh : handle env enc n h tok s = some (s', ch)) :
    process env enc n sym tok s =
      .ok (if ch then (match h.toSt? with | some nx => { s' with state := nx } | none => s') else s') := by
  simp only [process, htr, hh]
  cases ch <;> simp
  cases h.toSt? <;> rfl

section kw
variable (E : Codec) (env : Env) (hsp : env.isSpace = pyIsSpace) (enc : Bytes) (hE : CodecOk env enc E)
include hsp hE

theorem ct_kw (pre : Prefix) (hpre : MsgPrefix pre) (sep : Text) (hsep : sep ≠ []) (hbl : Blank sep) (g : Seg) (hg : g.Valid E)
    (n : Nat) (s : PState) (es : List Entry) (c : Entry) (hr : Ready s es c) (htr : transition .ct s.state = some .ct) :
    ∃ s1 ln, stepLine env enc n (kwLine pre "msgctxt".toList sep g) s = .ok s1 ∧
      Same s1 (mk es s.header { c with msgctxt := some (text g.choices), linenum := ln } .ct s.msgstrIndex) := by
  have hu := Lemmas.PoUnescape.unescape_spelling hE g.choices hg.1 hg.2.1
  obtain ⟨h1, h2, h3, h4, ln, h5⟩ := hr n
  let s0 : PState := { s with entryObsolete := pre.isObsolete, lastTok := some "msgctxt".toList }
  refine ⟨{ flushIfDone n s0 with cur := { (flushIfDone n s0).cur with msgctxt := some (text g.choices) }, state := .ct }, ln,
    (step_kw_line E env hsp enc n pre hpre _ .ct isKw_msgctxt sep hsep hbl g hg s).trans ?_, ?_⟩
  · have hh : handle env enc n .ct (quoted g.choices) s0 =
        some ({ flushIfDone n s0 with cur := { (flushIfDone n s0).cur with msgctxt := some (text g.choices) } }, true) := by
      simp only [handle, inner_quoted, hu, Option.map_some]
    rw [process_of env enc n .ct .ct _ s0 _ true htr hh]
    rfl
  · simp only [s0, flushIfDone_eo]
    exact ⟨h1, h2, by simp [h5, mk], rfl, h4⟩

theorem mi_kw (pre : Prefix) (hpre : MsgPrefix pre) (sep : Text) (hsep : sep ≠ []) (hbl : Blank sep) (g : Seg) (hg : g.Valid E)
    (n : Nat) (s : PState) (es : List Entry) (c : Entry) (hr : Ready s es c) (htr : transition .mi s.state = some .mi) :
    ∃ s1 ln, stepLine env enc n (kwLine pre "msgid".toList sep g) s = .ok s1 ∧
      Same s1 (mk es s.header { c with obsolete := pre.isObsolete, msgid := text g.choices, linenum := ln } .mi s.msgstrIndex) := by
  have hu := Lemmas.PoUnescape.unescape_spelling hE g.choices hg.1 hg.2.1
  obtain ⟨h1, h2, h3, h4, ln, h5⟩ := hr n
  let s0 : PState := { s with entryObsolete := pre.isObsolete, lastTok := some "msgid".toList }
  refine ⟨{ flushIfDone n s0 with cur := { (flushIfDone n s0).cur with obsolete := pre.isObsolete, msgid := text g.choices }, state := .mi }, ln,
    (step_kw_line E env hsp enc n pre hpre _ .mi isKw_msgid sep hsep hbl g hg s).trans ?_, ?_⟩
  · have hh : handle env enc n .mi (quoted g.choices) s0 =
        some ({ flushIfDone n s0 with cur := { (flushIfDone n s0).cur with obsolete := (flushIfDone n s0).entryObsolete, msgid := text g.choices } }, true) := by
      simp only [handle, inner_quoted, hu, Option.map_some]
    rw [process_of env enc n .mi .mi _ s0 _ true htr hh]
    simp only [s0, flushIfDone_eo]
    rfl
  · simp only [s0, flushIfDone_eo]
    exact ⟨h1, h2, by simp [h5, mk], rfl, h4⟩

theorem mp_kw (pre : Prefix) (hpre : MsgPrefix pre) (sep : Text) (hsep : sep ≠ []) (hbl : Blank sep) (g : Seg) (hg : g.Valid E)
    (n : Nat) (s : PState) (htr : transition .mp s.state = some .mp) :
    ∃ s1, stepLine env enc n (kwLine pre "msgid_plural".toList sep g) s = .ok s1 ∧
      Same s1 (mk s.entries s.header { s.cur with msgidPlural := some (text g.choices) } .mp s.msgstrIndex) := by
  have hu := Lemmas.PoUnescape.unescape_spelling hE g.choices hg.1 hg.2.1
  let s0 : PState := { s with entryObsolete := pre.isObsolete, lastTok := some "msgid_plural".toList }
  refine ⟨{ s0 with cur := { s0.cur with msgidPlural := some (text g.choices) }, state := .mp },
    (step_kw_line E env hsp enc n pre hpre _ .mp isKw_msgid_plural sep hsep hbl g hg s).trans ?_, ?_⟩
  · have hh : handle env enc n .mp (quoted g.choices) s0 =
        some ({ s0 with cur := { s0.cur with msgidPlural := some (text g.choices) } }, true) := by
      simp only [handle, inner_quoted, hu, Option.map_some]
    rw [process_of env enc n .mp .mp _ s0 _ true htr hh]
    rfl
  · exact ⟨rfl, rfl, rfl, rfl, rfl⟩

theorem ms_kw (pre : Prefix) (hpre : MsgPrefix pre) (sep : Text) (hsep : sep ≠ []) (hbl : Blank sep) (g : Seg) (hg : g.Valid E)
    (n : Nat) (s : PState) (htr : transition .ms s.state = some .ms) :
    ∃ s1, stepLine env enc n (kwLine pre "msgstr".toList sep g) s = .ok s1 ∧
      Same s1 (mk s.entries s.header { s.cur with msgstr := some (text g.choices) } .ms s.msgstrIndex) ∧
      s1.lastTok = some "msgstr".toList := by
  have hu := Lemmas.PoUnescape.unescape_spelling hE g.choices hg.1 hg.2.1
  let s0 : PState := { s with entryObsolete := pre.isObsolete, lastTok := some "msgstr".toList }
  refine ⟨{ s0 with cur := { s0.cur with msgstr := some (text g.choices) }, state := .ms },
    (step_kw_line E env hsp enc n pre hpre _ .ms isKw_msgstr sep hsep hbl g hg s).trans ?_, ?_, ?_⟩
  · have hh : handle env enc n .ms (quoted g.choices) s0 =
        some ({ s0 with cur := { s0.cur with msgstr := some (text g.choices) } }, true) := by
      simp only [handle, inner_quoted, hu, Option.map_some]
    rw [process_of env enc n .ms .ms _ s0 _ true htr hh]
    rfl
  · exact ⟨rfl, rfl, rfl, rfl, rfl⟩
  · rfl

theorem mx_kw (hdec : env.decimal = pyDecimal) (pre : Prefix) (hpre : MsgPrefix pre) (i : Fin 10) (sep : Text) (hsep : sep ≠ []) (hbl : Blank sep)
    (g : Seg) (hg : g.Valid E) (n : Nat) (s : PState) (htr : transition .mx s.state = some .mx) :
    ∃ s1, stepLine env enc n (kwLine pre (mxKw i.val) sep g) s = .ok s1 ∧
      Same s1 (mk s.entries s.header { s.cur with msgstrPlural := dictSet i.val (text g.choices) s.cur.msgstrPlural } .mx i.val) ∧
      s1.lastTok = some (mxKw i.val) := by
  have hu := Lemmas.PoUnescape.unescape_spelling hE g.choices hg.1 hg.2.1
  let s0 : PState := { s with entryObsolete := pre.isObsolete, lastTok := some (mxKw i.val) }
  refine ⟨{ s0 with cur := { s0.cur with msgstrPlural := dictSet i.val (text g.choices) s0.cur.msgstrPlural }, msgstrIndex := i.val, state := .mx },
    (step_mx_line E env hsp enc n pre hpre i sep hsep hbl g hg s).trans ?_, ?_, ?_⟩
  · rw [process_of env enc n .mx .mx _ s0 _ true htr (handle_mx_token env hdec enc n i sep hbl g.choices _ hu s0)]
    rfl
  · exact ⟨rfl, rfl, rfl, rfl, rfl⟩
  · rfl

/-! ### a whole string: keyword line, noise, continuation lines -/

theorem ready_of_same {s : PState} {es hd cur st mi} (h : Same s (mk es hd cur st mi)) (hst : ¬ (st = .ms ∨ st = .mx)) :
    Ready s es cur := by
  obtain ⟨h1, h2, h3, h4, h5⟩ := h
  have := ready_mid s (by rw [h4]; exact hst)
  rw [h1, h3] at this
  exact this

theorem ct_str (pre : Prefix) (hpre : MsgPrefix pre) (x : StrSp) (hx : x.Valid E)
    (n : Nat) (s : PState) (es : List Entry) (c : Entry) (hr : Ready s es c) (htr : transition .ct s.state = some .ct) :
    ∃ s' ln, parseLoop env enc n (x.lines pre "msgctxt".toList) s = .ok s' ∧
      Same s' (mk es s.header { c with msgctxt := some x.text, linenum := ln } .ct s.msgstrIndex) := by
  obtain ⟨s1, ln, h1, hs1⟩ := ct_kw E env hsp enc hE pre hpre x.sep hx.1 hx.2.1 x.first hx.2.2.1 (n + 1) s es c hr htr
  obtain ⟨s2, h2, hs2, _⟩ := str_block E env hsp enc hE pre hpre .ct _ x hx n s s1 h1 hs1.2.2.2.1
    (by rw [same_get hs1 .ct]; rfl)
  exact ⟨s2, ln, h2, hs2.trans (same_set_fld hs1 .ct _)⟩

theorem mi_str (pre : Prefix) (hpre : MsgPrefix pre) (x : StrSp) (hx : x.Valid E)
    (n : Nat) (s : PState) (es : List Entry) (c : Entry) (hr : Ready s es c) (htr : transition .mi s.state = some .mi) :
    ∃ s' ln, parseLoop env enc n (x.lines pre "msgid".toList) s = .ok s' ∧
      Same s' (mk es s.header { c with obsolete := pre.isObsolete, msgid := x.text, linenum := ln } .mi s.msgstrIndex) := by
  obtain ⟨s1, ln, h1, hs1⟩ := mi_kw E env hsp enc hE pre hpre x.sep hx.1 hx.2.1 x.first hx.2.2.1 (n + 1) s es c hr htr
  obtain ⟨s2, h2, hs2, _⟩ := str_block E env hsp enc hE pre hpre .mi _ x hx n s s1 h1 hs1.2.2.2.1
    (by rw [same_get hs1 .mi]; rfl)
  exact ⟨s2, ln, h2, hs2.trans (same_set_fld hs1 .mi _)⟩

theorem mp_str (pre : Prefix) (hpre : MsgPrefix pre) (x : StrSp) (hx : x.Valid E)
    (n : Nat) (s : PState) (htr : transition .mp s.state = some .mp) :
    ∃ s', parseLoop env enc n (x.lines pre "msgid_plural".toList) s = .ok s' ∧
      Same s' (mk s.entries s.header { s.cur with msgidPlural := some x.text } .mp s.msgstrIndex) := by
  obtain ⟨s1, h1, hs1⟩ := mp_kw E env hsp enc hE pre hpre x.sep hx.1 hx.2.1 x.first hx.2.2.1 (n + 1) s htr
  obtain ⟨s2, h2, hs2, _⟩ := str_block E env hsp enc hE pre hpre .mp _ x hx n s s1 h1 hs1.2.2.2.1
    (by rw [same_get hs1 .mp]; rfl)
  exact ⟨s2, h2, hs2.trans (same_set_fld hs1 .mp _)⟩

theorem ms_str (pre : Prefix) (hpre : MsgPrefix pre) (x : StrSp) (hx : x.Valid E)
    (n : Nat) (s : PState) (htr : transition .ms s.state = some .ms) :
    ∃ s', parseLoop env enc n (x.lines pre "msgstr".toList) s = .ok s' ∧
      Same s' (mk s.entries s.header { s.cur with msgstr := some x.text } .ms s.msgstrIndex) ∧ (x.EndsReal → TokOk s') := by
  obtain ⟨s1, h1, hs1, ht1⟩ := ms_kw E env hsp enc hE pre hpre x.sep hx.1 hx.2.1 x.first hx.2.2.1 (n + 1) s htr
  obtain ⟨s2, h2, hs2, htok⟩ := str_block E env hsp enc hE pre hpre .ms _ x hx n s s1 h1 hs1.2.2.2.1
    (by rw [same_get hs1 .ms]; rfl)
  exact ⟨s2, h2, hs2.trans (same_set_fld hs1 .ms _), htok ⟨_, ht1, by decide⟩⟩

theorem mx_str (hdec : env.decimal = pyDecimal) (pre : Prefix) (hpre : MsgPrefix pre) (i : Fin 10) (x : StrSp) (hx : x.Valid E)
    (n : Nat) (s : PState) (htr : transition .mx s.state = some .mx) :
    ∃ s', parseLoop env enc n (x.lines pre (mxKw i.val)) s = .ok s' ∧
      Same s' (mk s.entries s.header { s.cur with msgstrPlural := dictSet i.val x.text s.cur.msgstrPlural } .mx i.val) ∧
      (x.EndsReal → TokOk s') := by
  obtain ⟨s1, h1, hs1, ht1⟩ := mx_kw E env hsp enc hE hdec pre hpre i x.sep hx.1 hx.2.1 x.first hx.2.2.1 (n + 1) s htr
  obtain ⟨s2, h2, hs2, htok⟩ := str_block E env hsp enc hE pre hpre .mx _ x hx n s s1 h1 hs1.2.2.2.1
    (by rw [same_get hs1 .mx]; simp [Fld.get, mk, dictGet_dictSet])
  refine ⟨s2, h2, hs2.trans ?_, htok ⟨_, ht1, by simp [mxKw]⟩⟩
  have := same_set_fld hs1 .mx x.text
  simpa [Fld.set, mk, dictSet_dictSet] using this

end kw

end I18n.Lemmas.PoFsm
