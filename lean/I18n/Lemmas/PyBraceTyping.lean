import I18n.Lemmas.PyBraceSpec
import I18n.Spec.PyBraceArgs
/-
python-brace: the type set the tool computes for a format specification is sound for CPython's `__format__` of `str`, `int`,
`float` — except for the two combinations `Spec.quirk` (comma with b/c/o/x/X; sign or `#` with `c`).
-/
namespace I18n.PyBrace
open I18n.BraceChars I18n.Spec.StrFormat

theorem specCheck_stages {cfg : Cfg} {f : Spec} {tp : TySet} (h : specCheck cfg f = .ok tp) :
    ∃ tp0 tp1 tp2, tpType f = .ok tp0 ∧ tpFlags f tp0 = .ok tp1 ∧ tpAlign f tp1 = .ok tp2 ∧ checkWidth cfg f = .ok () ∧
      tpPrec cfg f tp2 = .ok tp := by
  simp only [specCheck] at h
  split at h
  · cases h
  · rename_i tp0 h0
    split at h
    · cases h
    · rename_i tp1 h1
      split at h
      · cases h
      · rename_i tp2 h2
        split at h
        · cases h
        · rename_i h3
          exact ⟨tp0, tp1, tp2, h0, h1, h2, h3, h⟩

theorem pyInt_val {cfg : Cfg} {ds : List Char} {n : Nat} (h : pyInt cfg ds = .ok n) : n = digitsVal ds := by
  simp only [pyInt] at h
  split at h
  · cases h
  · cases h; rfl

theorem checkWidth_bound {cfg : Cfg} {f : Spec} (h : checkWidth cfg f = .ok ()) : ∀ w, f.width = some w → digitsVal w ≤ cfg.ssizeMax := by
  intro w hw
  simp only [checkWidth, hw] at h
  split at h
  · cases h
  · rename_i n hn
    have := pyInt_val hn
    split at h
    · cases h
    · omega

theorem tpPrec_facts {cfg : Cfg} {f : Spec} {tp2 tp : TySet} (h : tpPrec cfg f tp2 = .ok tp) :
    (f.precision = none ∧ tp = tp2) ∨
    (∃ p, f.precision = some p ∧ tp = tp2.inter ⟨true, false, true⟩ ∧ digitsVal p ≤ cfg.ssizeMax) := by
  simp only [tpPrec] at h
  split at h
  · left; cases h; exact ⟨by assumption, rfl⟩
  · rename_i p hp
    right
    split at h
    · cases h
    · split at h
      · cases h
      · rename_i n hn
        have := pyInt_val hn
        split at h
        · cases h
        · cases h; exact ⟨p, hp, rfl, by omega⟩

theorem tpAlign_facts {f : Spec} {tp1 tp2 : TySet} (h : tpAlign f tp1 = .ok tp2) :
    (((f.align = none ∧ f.zero = true) ∨ f.align = some '=') ∧ tp2 = tp1.inter TySet.numeric) ∨
    ((¬ (f.align = none ∧ f.zero = true) ∧ f.align ≠ some '=') ∧ tp2 = tp1) := by
  unfold tpAlign at h
  by_cases hc : ((if f.align.isNone && f.zero then some '=' else f.align) == some '=') = true
  · simp only [hc, if_true] at h
    by_cases he : (tp1.inter TySet.numeric).isEmpty = true
    · simp [he] at h
    · simp only [he, Bool.false_eq_true, if_false, Except.ok.injEq] at h
      left
      refine ⟨?_, h.symm⟩
      cases ha : f.align with
      | none =>
        cases hz : f.zero with
        | true => simp
        | false => simp [ha, hz] at hc
      | some a => simp [ha] at hc ⊢; exact hc
  · simp only [hc, Bool.false_eq_true, if_false] at h
    by_cases he : tp1.isEmpty = true
    · simp [he] at h
    · simp only [he, Bool.false_eq_true, if_false, Except.ok.injEq] at h
      right
      refine ⟨?_, h.symm⟩
      cases ha : f.align with
      | none =>
        cases hz : f.zero with
        | true => simp [ha, hz] at hc
        | false => simp
      | some a => simp [ha] at hc ⊢; exact hc

theorem tpFlags_facts {f : Spec} {tp0 tp1 : TySet} (h : tpFlags f tp0 = .ok tp1) :
    ((f.alt = true ∨ f.sign.isSome = true ∨ f.comma = true) ∧ tp1 = tp0.inter TySet.numeric) ∨
    ((f.alt = false ∧ f.sign = none ∧ f.comma = false) ∧ tp1 = tp0) := by
  unfold tpFlags at h
  by_cases hc : (f.alt || f.sign.isSome || f.comma) = true
  · simp only [hc, if_true] at h
    by_cases he : (tp0.inter TySet.numeric).isEmpty = true
    · simp [he] at h
    · simp only [he, Bool.false_eq_true, if_false, Except.ok.injEq] at h
      left
      refine ⟨?_, h.symm⟩
      simp only [Bool.or_eq_true] at hc
      rcases hc with (hc | hc) | hc
      · exact Or.inl hc
      · exact Or.inr (Or.inl hc)
      · exact Or.inr (Or.inr hc)
  · simp only [hc, Bool.false_eq_true, if_false] at h
    by_cases he : tp0.isEmpty = true
    · simp [he] at h
    · simp only [he, Bool.false_eq_true, if_false, Except.ok.injEq] at h
      right
      refine ⟨?_, h.symm⟩
      simp only [Bool.or_eq_true, not_or, Bool.not_eq_true] at hc
      refine ⟨hc.1.1, ?_, hc.2⟩
      cases hs : f.sign with
      | none => rfl
      | some s => simp [hs] at hc

theorem tpType_facts {f : Spec} {tp0 : TySet} (h : tpType f = .ok tp0) :
    (f.type = none ∧ tp0 = TySet.all) ∨ (f.type = some 's' ∧ tp0 = ⟨true, false, false⟩) ∨
    ((∃ t, f.type = some t ∧ (t = 'b' ∨ t = 'c' ∨ t = 'd' ∨ t = 'o' ∨ t = 'x' ∨ t = 'X')) ∧ tp0 = ⟨false, true, false⟩) ∨
    ((∃ t, f.type = some t ∧ (t = 'e' ∨ t = 'E' ∨ t = 'f' ∨ t = 'F' ∨ t = 'g' ∨ t = 'G' ∨ t = '%')) ∧ tp0 = ⟨false, false, true⟩) ∨
    (f.type = some 'n' ∧ f.comma = false ∧ tp0 = ⟨false, true, true⟩) := by
  simp only [tpType] at h
  split at h
  · rename_i ht; cases h; exact Or.inl ⟨ht, rfl⟩
  · rename_i t ht
    by_cases h1 : (t == 's') = true
    · simp only [h1, if_true] at h; cases h
      simp only [beq_iff_eq] at h1; subst h1
      exact Or.inr (Or.inl ⟨ht, rfl⟩)
    · by_cases h2 : "bcdoxX".toList.contains t = true
      · simp only [h1, h2, if_true, Bool.false_eq_true, if_false] at h; cases h
        refine Or.inr (Or.inr (Or.inl ⟨⟨t, ht, ?_⟩, rfl⟩))
        simpa using h2
      · by_cases h3 : "eEfFgG%".toList.contains t = true
        · simp only [h1, h2, h3, if_true, Bool.false_eq_true, if_false] at h; cases h
          refine Or.inr (Or.inr (Or.inr (Or.inl ⟨⟨t, ht, ?_⟩, rfl⟩)))
          simpa using h3
        · by_cases h4 : (t == 'n') = true
          · simp only [h1, h2, h3, h4, if_true, Bool.false_eq_true, if_false] at h
            simp only [beq_iff_eq] at h4; subst h4
            split at h
            · cases h
            · rename_i hc; cases h
              exact Or.inr (Or.inr (Or.inr (Or.inr ⟨ht, by simpa using hc, rfl⟩)))
          · simp only [h1, h2, h3, h4, Bool.false_eq_true, if_false] at h; cases h

theorem digitsVal_zero_cons (w : List Char) : digitsVal ('0' :: w) = digitsVal w := by
  have : digitVal '0' = 0 := by decide
  simp [digitsVal, this]

theorem wdigits_val (f : Spec) : digitsVal (wdigits f) = digitsVal (f.width.getD []) := by
  simp only [wdigits]
  split
  · exact digitsVal_zero_cons _
  · simp

/-- the record CPython builds for the string type never has `=` alignment unless the tool saw one -/
theorem formatValue_sound {cfg : Cfg} (hcfg : cfg.ssizeMax ≤ 2 ^ 31 - 1) {sp : List Char} {f : Spec} {tp : TySet}
    (hsp : '}' ∉ sp) (hscan : scanSpec sp = some f) (hchk : specCheck cfg f = .ok tp) (hq : f.quirk = false)
    (v : Val) (hv : hasType tp v = true)
    (hchr : ∀ n, v = .int n → f.type = some 'c' → 0 ≤ n ∧ n ≤ 0x10ffff) : formatValue v sp = .ok () := by
  obtain ⟨tp0, tp1, tp2, h0, h1, h2, h3, h4⟩ := specCheck_stages hchk
  have hk := tpType_known h0
  have hwb : digitsVal (wdigits f) ≤ PY_SSIZE_T_MAX := by
    rw [wdigits_val]
    cases hw : f.width with
    | none => simp [digitsVal, PY_SSIZE_T_MAX]
    | some w =>
      have := checkWidth_bound h3 w hw
      simp only [Option.getD_some, PY_SSIZE_T_MAX]; omega
  have hpb : ∀ p, f.precision = some p → digitsVal p ≤ cfg.ssizeMax := by
    intro p hp
    rcases tpPrec_facts h4 with ⟨hn, _⟩ | ⟨p', hp', _, hb⟩
    · rw [hn] at hp; cases hp
    · rw [hp'] at hp; cases hp; exact hb
  have hpb' : ∀ p, f.precision = some p → digitsVal p ≤ PY_SSIZE_T_MAX := by
    intro p hp; have := hpb p hp; simp only [PY_SSIZE_T_MAX]; omega
  have hsyn := fun da => parseSyntax_of_scan da hsp hscan hk hwb hpb'
  unfold formatValue
  split
  · rfl
  · cases v with
    | str =>
      simp only [hasType] at hv
      -- `str` survives only without flags, `=` alignment, numeric types
      have hprec : tp2.str = true := by
        rcases tpPrec_facts h4 with ⟨_, rfl⟩ | ⟨_, _, rfl, _⟩
        · exact hv
        · simpa [TySet.inter] using hv
      rcases tpAlign_facts h2 with ⟨_, rfl⟩ | ⟨⟨ha1, ha2⟩, rfl⟩
      · simp [TySet.inter, TySet.numeric] at hprec
      rcases tpFlags_facts h1 with ⟨_, rfl⟩ | ⟨⟨hf1, hf2, hf3⟩, rfl⟩
      · simp [TySet.inter, TySet.numeric] at hprec
      have hal : f.align.getD '<' ≠ '=' := by
        cases ha : f.align with
        | none => simp
        | some a => simp; rintro rfl; exact ha2 ha
      rcases tpType_facts h0 with ⟨ht, rfl⟩ | ⟨ht, rfl⟩ | ⟨_, rfl⟩ | ⟨_, rfl⟩ | ⟨_, _, rfl⟩
      · simp only [parseSpec, hsyn, finishSpec, rawOf, ht, hf3, hf1, hf2]
        simp [formatString, hal]
      · simp only [parseSpec, hsyn, finishSpec, rawOf, ht, hf3, hf1, hf2]
        simp [formatString, hal]
      · simp at hprec
      · simp at hprec
      · simp at hprec
    | int n =>
      simp only [hasType] at hv
      have hnoprec : f.precision = none ∧ tp2.int = true := by
        rcases tpPrec_facts h4 with ⟨hn, rfl⟩ | ⟨_, _, rfl, _⟩
        · exact ⟨hn, hv⟩
        · simp [TySet.inter] at hv
      have h1int : tp1.int = true := by
        rcases tpAlign_facts h2 with ⟨_, rfl⟩ | ⟨_, rfl⟩
        · simpa [TySet.inter, TySet.numeric] using hnoprec.2
        · exact hnoprec.2
      have h0int : tp0.int = true := by
        rcases tpFlags_facts h1 with ⟨_, rfl⟩ | ⟨_, rfl⟩
        · simpa [TySet.inter, TySet.numeric] using h1int
        · exact h1int
      simp only [Spec.quirk, Bool.or_eq_false_iff, Bool.and_eq_false_iff] at hq
      rcases tpType_facts h0 with ⟨ht, rfl⟩ | ⟨ht, rfl⟩ | ⟨⟨t, ht, hts⟩, rfl⟩ | ⟨_, rfl⟩ | ⟨ht, hcomma, rfl⟩
      · simp only [parseSpec, hsyn, finishSpec, rawOf, ht, hnoprec.1]
        cases f.comma <;> simp [memC, formatLong]
      · simp at h0int
      · have hc := hchr n rfl
        rcases hts with rfl | rfl | rfl | rfl | rfl | rfl <;>
          simp only [parseSpec, hsyn, finishSpec, rawOf, ht, hnoprec.1] <;>
          simp [ht] at hq hc <;>
          (try simp [hq, memC, formatLong]) <;>
          (try (cases hcm : f.comma <;> simp [hcm, memC, formatLong] at hq ⊢)) <;>
          (try omega)
      · simp at h0int
      · simp only [parseSpec, hsyn, finishSpec, rawOf, ht, hnoprec.1, hcomma]
        simp [memC, formatLong]
    | float =>
      simp only [hasType] at hv
      have h2f : tp2.float = true := by
        rcases tpPrec_facts h4 with ⟨_, rfl⟩ | ⟨_, _, rfl, _⟩
        · exact hv
        · simpa [TySet.inter] using hv
      have h1f : tp1.float = true := by
        rcases tpAlign_facts h2 with ⟨_, rfl⟩ | ⟨_, rfl⟩
        · simpa [TySet.inter, TySet.numeric] using h2f
        · exact h2f
      have h0f : tp0.float = true := by
        rcases tpFlags_facts h1 with ⟨_, rfl⟩ | ⟨_, rfl⟩
        · simpa [TySet.inter, TySet.numeric] using h1f
        · exact h1f
      have hff : ∀ s : ISpec, s.precision = f.precision.map digitsVal → formatFloat s = .ok () := by
        intro s hs
        simp only [formatFloat, hs]
        cases hp : f.precision with
        | none => rfl
        | some p =>
          have := hpb p hp
          have : ¬ digitsVal p > INT_MAX := by simp only [INT_MAX]; omega
          simp [this]
      rcases tpType_facts h0 with ⟨ht, rfl⟩ | ⟨ht, rfl⟩ | ⟨_, rfl⟩ | ⟨⟨t, ht, hts⟩, rfl⟩ | ⟨ht, hcomma, rfl⟩
      · simp only [parseSpec, hsyn, finishSpec, rawOf, ht]
        cases hcm : f.comma <;> simp [memC] <;> exact hff _ rfl
      · simp at h0f
      · simp at h0f
      · rcases hts with rfl | rfl | rfl | rfl | rfl | rfl | rfl <;>
          simp only [parseSpec, hsyn, finishSpec, rawOf, ht] <;>
          cases hcm : f.comma <;> simp [memC] <;> exact hff _ rfl
      · simp only [parseSpec, hsyn, finishSpec, rawOf, ht, hcomma]
        simp [memC]; exact hff _ rfl

end I18n.PyBrace
