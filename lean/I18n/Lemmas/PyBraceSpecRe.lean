import I18n.Lemmas.PerlBraceRe
import I18n.Lemmas.PyBraceTables
import I18n.Lemmas.PyBraceSpec
/-
The model's reading of a format specification (`scanSpec`) IS the first match of the live parse tree of
`pybrace._format_spec_re` under the backtracking semantics: acceptance, end, and the span of every group.
-/
namespace I18n.Spec.BraceRe

/-- greedy repetition of a one-character class, general form: if, whenever the continuation succeeds in front of a character
    of the class, it also succeeds after the maximal run, then the repetition consumes the maximal run -/
theorem starLoop_cls_gen (db : CharDB) (neg : Bool) (items : List ClsItem) {β : Type} (k : St → Option β)
    (H : ∀ c r pos caps, clsTest db neg items c = true → k ⟨c :: r, pos, caps⟩ ≠ none →
      k ⟨r.dropWhile (clsTest db neg items), pos + 1 + (r.takeWhile (clsTest db neg items)).length, caps⟩ ≠ none) :
    ∀ (fuel : Nat) (rest : List Char) (pos : Nat) (caps : Caps), rest.length ≤ fuel →
      starLoop (bt db (.cls neg items)) fuel ⟨rest, pos, caps⟩ k =
        k ⟨rest.dropWhile (clsTest db neg items), pos + (rest.takeWhile (clsTest db neg items)).length, caps⟩ := by
  intro fuel
  induction fuel with
  | zero =>
    intro rest pos caps h
    have : rest = [] := by cases rest <;> simp_all
    subst this; simp [starLoop]
  | succ fuel ih =>
    intro rest pos caps h
    cases rest with
    | nil => simp [starLoop, bt_cls_nil]
    | cons c r =>
      by_cases hc : clsTest db neg items c = true
      · have hr : r.length ≤ fuel := by simp at h; omega
        have := ih r (pos + 1) caps hr
        simp only [starLoop, bt_cls_cons, hc, if_true, List.length_cons, Nat.lt_add_one, this, List.dropWhile_cons, List.takeWhile_cons]
        have e : pos + ((List.takeWhile (clsTest db neg items) r).length + 1) = pos + 1 + (List.takeWhile (clsTest db neg items) r).length := by omega
        rw [e]
        cases hk : k ⟨List.dropWhile (clsTest db neg items) r, pos + 1 + (List.takeWhile (clsTest db neg items) r).length, caps⟩ with
        | some x => simp
        | none =>
          simp only
          cases hk2 : k ⟨c :: r, pos, caps⟩ with
          | none => rfl
          | some y => exact absurd hk (H c r pos caps hc (by rw [hk2]; simp))
      · simp [starLoop, bt_cls_cons, hc]

end I18n.Spec.BraceRe

namespace I18n.PyBrace
open I18n.BraceChars I18n.Spec.BraceRe

/-! ### the classes of `_format_spec_re` -/

theorem toNat_ne {c : Char} {k : Nat} (hk : (Char.ofNat k).toNat = k) : (c.toNat == k) = (c == Char.ofNat k) := by
  have := toNat_eq_iff c k hk
  by_cases h : c = Char.ofNat k
  · subst h
    have e1 : ((Char.ofNat k).toNat == k) = true := by rw [hk]; exact beq_self_eq_true k
    have e2 : (Char.ofNat k == Char.ofNat k) = true := beq_self_eq_true _
    rw [e1, e2]
  · have h' : c.toNat ≠ k := fun h'' => h (this.1 h'')
    rw [beq_eq_false_iff_ne.2 h', beq_eq_false_iff_ne.2 h]

theorem cls_type (c : Char) : clsTest liveDB false [.word, .lit 37] c = (isWord c || c == '%') := by
  simp [clsTest, ClsItem.test, liveDB, toNat_ne (k := 37) (by decide)]

theorem cls_digit (c : Char) : clsTest liveDB false [.digit] c = isDigit c := by
  simp [clsTest, ClsItem.test, liveDB]

theorem cls_ascii_digit (c : Char) : clsTest liveDB false [.range 48 57] c = isAsciiDigit c := by
  simp only [clsTest, ClsItem.test, List.any_cons, List.any_nil, Bool.or_false, isAsciiDigit]
  have h0 : ('0' : Char) ≤ c ↔ 48 ≤ c.toNat := by
    show ('0' : Char).val ≤ c.val ↔ _
    rw [UInt32.le_iff_toNat_le]; rfl
  have h9 : c ≤ ('9' : Char) ↔ c.toNat ≤ 57 := by
    show c.val ≤ ('9' : Char).val ↔ _
    rw [UInt32.le_iff_toNat_le]; rfl
  by_cases a : 48 ≤ c.toNat <;> by_cases b : c.toNat ≤ 57 <;> simp [a, b, h0, h9]

theorem cls_one (k : Nat) (hk : (Char.ofNat k).toNat = k) (c : Char) : clsTest liveDB false [.lit k] c = (c == Char.ofNat k) := by
  simp [clsTest, ClsItem.test, toNat_ne hk]

theorem cls_sign (c : Char) : clsTest liveDB false [.lit 32, .lit 43, .lit 45] c = isSign c := by
  simp [clsTest, ClsItem.test, isSign, toNat_ne (k := 32) (by decide), toNat_ne (k := 43) (by decide), toNat_ne (k := 45) (by decide), Bool.or_assoc]

theorem cls_align (c : Char) : clsTest liveDB false [.lit 60, .lit 62, .lit 61, .lit 94] c = isAlign c := by
  simp [clsTest, ClsItem.test, isAlign, toNat_ne (k := 60) (by decide), toNat_ne (k := 62) (by decide), toNat_ne (k := 61) (by decide),
    toNat_ne (k := 94) (by decide), Bool.or_assoc]

theorem cls_not_close (c : Char) : clsTest liveDB true [.lit 125] c = (c != '}') := by
  simp only [clsTest, ClsItem.test, List.any_cons, List.any_nil, Bool.or_false, toNat_ne (k := 125) (by decide)]
  have : Char.ofNat 125 = '}' := rfl
  rw [this]
  cases h : (c == '}') <;> simp [bne, h]

/-! ### the suffixes of the pattern and the deterministic reading of each -/

def R9 : Re := .seq (.opt (.group 9 (.cls false [.word, .lit 37]))) .eos
def R8 : Re := .seq (.opt (.seq (.cls false [.lit 46]) (.group 8 (.plus (.cls false [.digit]))))) R9
def R7 : Re := .seq (.opt (.group 7 (.cls false [.lit 44]))) R8
def R6 : Re := .seq (.opt (.group 6 (.plus (.cls false [.range 48 57])))) R7
def R5 : Re := .seq (.opt (.group 5 (.cls false [.lit 48]))) R6
def R4 : Re := .seq (.opt (.group 4 (.cls false [.lit 35]))) R5
def R3 : Re := .seq (.opt (.group 3 (.cls false [.lit 32, .lit 43, .lit 45]))) R4
def R2 : Re :=
  .seq (.opt (.seq (.opt (.group 1 (.cls true [.lit 125]))) (.group 2 (.cls false [.lit 60, .lit 62, .lit 61, .lit 94])))) R3

theorem pinned_split : pinnedFormatSpecRe = .seq .bos R2 := rfl

/-- type, end -/
def T9 (st : St) : Option St :=
  match sType st.rest with
  | (none, []) => some st
  | (some _, []) => some ⟨[], st.pos + 1, (9, st.pos, st.pos + 1) :: st.caps⟩
  | _ => none

/-- precision, … -/
def T8 (st : St) : Option St :=
  match sPrec st.rest with
  | (some p, r) => T9 ⟨r, st.pos + 1 + p.length, (8, st.pos + 1, st.pos + 1 + p.length) :: st.caps⟩
  | (none, _) => T9 st

/-- comma, … -/
def T7 (st : St) : Option St :=
  match sLit ',' st.rest with
  | (true, r) => T8 ⟨r, st.pos + 1, (7, st.pos, st.pos + 1) :: st.caps⟩
  | (false, _) => T8 st

/-- width, … -/
def T6 (st : St) : Option St :=
  match sWidth st.rest with
  | (some w, r) => T7 ⟨r, st.pos + w.length, (6, st.pos, st.pos + w.length) :: st.caps⟩
  | (none, _) => T7 st

/-- zero flag, … -/
def T5 (st : St) : Option St :=
  match sLit '0' st.rest with
  | (true, r) => T6 ⟨r, st.pos + 1, (5, st.pos, st.pos + 1) :: st.caps⟩
  | (false, _) => T6 st

/-- `#`, … -/
def T4 (st : St) : Option St :=
  match sLit '#' st.rest with
  | (true, r) => T5 ⟨r, st.pos + 1, (4, st.pos, st.pos + 1) :: st.caps⟩
  | (false, _) => T5 st

/-- sign, … -/
def T3 (st : St) : Option St :=
  match sSign st.rest with
  | (some _, r) => T4 ⟨r, st.pos + 1, (3, st.pos, st.pos + 1) :: st.caps⟩
  | (none, _) => T4 st

/-- fill and alignment, … -/
def T2 (st : St) : Option St :=
  match sFillAlign st.rest with
  | (some _, some _, r) => T3 ⟨r, st.pos + 2, (2, st.pos + 1, st.pos + 2) :: (1, st.pos, st.pos + 1) :: st.caps⟩
  | (none, some _, r) => T3 ⟨r, st.pos + 1, (2, st.pos, st.pos + 1) :: st.caps⟩
  | (_, none, _) => T3 st

/-! ### stage 9 -/

theorem bt_R9 (st : St) : bt liveDB R9 st some = T9 st := by
  obtain ⟨rest, pos, caps⟩ := st
  cases rest with
  | nil => simp [R9, bt_seq, bt_opt, bt_group, bt_cls_nil, bt_eos, T9, sType]
  | cons c r =>
    simp only [R9, bt_seq, bt_opt, bt_group, bt_cls_cons, bt_eos, cls_type, T9, sType]
    by_cases hc : (isWord c || c == '%') = true
    · cases r <;> simp [hc]
    · simp [hc]

theorem T9_cons {c : Char} {r : List Char} {pos : Nat} {caps : Caps} (h : T9 ⟨c :: r, pos, caps⟩ ≠ none) :
    r = [] ∧ (isWord c || c == '%') = true := by
  simp only [T9, sType] at h
  by_cases hc : (isWord c || c == '%') = true
  · simp only [hc, if_true] at h
    cases r with
    | nil => exact ⟨rfl, hc⟩
    | cons d r' => simp at h
  · simp [hc] at h

theorem T9_nil (pos : Nat) (caps : Caps) : T9 ⟨[], pos, caps⟩ = some ⟨[], pos, caps⟩ := by simp [T9, sType]

/-! ### stage 8 -/

theorem T9_of_not_type {c : Char} (hc : (isWord c || c == '%') = false) (r : List Char) (pos : Nat) (caps : Caps) :
    T9 ⟨c :: r, pos, caps⟩ = none := by
  simp [T9, sType, hc]

theorem sPrec_dot_digit {d : Char} (hd : isDigit d = true) (r : List Char) :
    sPrec ('.' :: d :: r) = (some (d :: r.takeWhile isDigit), r.dropWhile isDigit) := by
  simp [sPrec, List.takeWhile_cons, List.dropWhile_cons, hd]

theorem sPrec_dot_nodigit {r : List Char} (h : ∀ d r', r = d :: r' → isDigit d = false) : sPrec ('.' :: r) = (none, '.' :: r) := by
  cases r with
  | nil => simp [sPrec]
  | cons d r' => simp [sPrec, List.takeWhile_cons, h d r' rfl]

theorem sPrec_other {c : Char} (hc : c ≠ '.') (r : List Char) : sPrec (c :: r) = (none, c :: r) := by
  unfold sPrec
  split
  · rename_i heq; simp only [List.cons.injEq] at heq; exact absurd heq.1 hc
  · rfl

theorem bt_R8 (st : St) : bt liveDB R8 st some = T8 st := by
  obtain ⟨rest, pos, caps⟩ := st
  have hk : (fun st' => bt liveDB R9 st' some) = T9 := funext bt_R9
  simp only [R8, bt_seq, bt_opt, hk]
  cases rest with
  | nil => simp [bt_cls_nil, T8, sPrec]
  | cons c r =>
    by_cases hc : c = '.'
    · subst hc
      have hdot : clsTest liveDB false [.lit 46] '.' = true := by rw [cls_one 46 (by decide)]; rfl
      have hT9 : ∀ r pos caps, T9 ⟨'.' :: r, pos, caps⟩ = none := T9_of_not_type (by decide)
      simp only [bt_cls_cons, hdot, if_true, bt_group, bt_plus]
      cases r with
      | nil => simp [bt_cls_nil, T8, sPrec]
      | cons d r' =>
        by_cases hd : isDigit d = true
        · have hcd : clsTest liveDB false [.digit] d = true := by rw [cls_digit]; exact hd
          simp only [bt_cls_cons, hcd, if_true]
          rw [starLoop_cls_gen liveDB false [.digit] _ ?H _ _ _ _ (Nat.le_refl _)]
          case H =>
            intro c0 r0 p0 cp0 _ hne
            have := T9_cons hne
            rw [this.1]
            simp [T9_nil]
          have hfun : clsTest liveDB false [.digit] = isDigit := funext cls_digit
          simp only [hfun, T8, sPrec_dot_digit hd, List.length_cons, hT9]
          have e : pos + 1 + 1 + (List.takeWhile isDigit r').length = pos + 1 + ((List.takeWhile isDigit r').length + 1) := by omega
          rw [e]
          cases T9 ⟨List.dropWhile isDigit r', pos + 1 + ((List.takeWhile isDigit r').length + 1),
            (8, pos + 1, pos + 1 + ((List.takeWhile isDigit r').length + 1)) :: caps⟩ <;> rfl
        · have hcd : clsTest liveDB false [.digit] d = false := by rw [cls_digit]; simpa using hd
          have hs := sPrec_dot_nodigit (r := d :: r') (by intro d' r'' h; cases h; simpa using hd)
          simp [bt_cls_cons, hcd, T8, hs]
    · have hdot : clsTest liveDB false [.lit 46] c = false := by
        rw [cls_one 46 (by decide)]
        have : Char.ofNat 46 = '.' := rfl
        rw [this]; simpa using hc
      simp [bt_cls_cons, hdot, T8, sPrec_other hc]

/-! ### characters no later stage can consume -/

theorem T8_inert {c : Char} (h1 : c ≠ '.') (h2 : (isWord c || c == '%') = false) (r : List Char) (pos : Nat) (caps : Caps) :
    T8 ⟨c :: r, pos, caps⟩ = none := by
  simp [T8, sPrec_other h1, T9_of_not_type h2]

theorem sLit_ne {x c : Char} (h : c ≠ x) (r : List Char) : sLit x (c :: r) = (false, c :: r) := by simp [sLit, h]
theorem sLit_eq (x : Char) (r : List Char) : sLit x (x :: r) = (true, r) := by simp [sLit]

theorem T7_inert {c : Char} (h0 : c ≠ ',') (h1 : c ≠ '.') (h2 : (isWord c || c == '%') = false) (r : List Char) (pos : Nat) (caps : Caps) :
    T7 ⟨c :: r, pos, caps⟩ = none := by
  simp [T7, sLit_ne h0, T8_inert h1 h2]

theorem sWidth_nodigit {c : Char} (h : isAsciiDigit c = false) (r : List Char) : sWidth (c :: r) = (none, c :: r) := by
  simp [sWidth, List.takeWhile_cons, h]

theorem sWidth_digit {c : Char} (h : isAsciiDigit c = true) (r : List Char) :
    sWidth (c :: r) = (some (c :: r.takeWhile isAsciiDigit), r.dropWhile isAsciiDigit) := by
  simp [sWidth, List.takeWhile_cons, List.dropWhile_cons, h]

theorem T6_inert {c : Char} (hd : isAsciiDigit c = false) (h0 : c ≠ ',') (h1 : c ≠ '.') (h2 : (isWord c || c == '%') = false)
    (r : List Char) (pos : Nat) (caps : Caps) : T6 ⟨c :: r, pos, caps⟩ = none := by
  simp [T6, sWidth_nodigit hd, T7_inert h0 h1 h2]

theorem T5_inert {c : Char} (hz : c ≠ '0') (hd : isAsciiDigit c = false) (h0 : c ≠ ',') (h1 : c ≠ '.')
    (h2 : (isWord c || c == '%') = false) (r : List Char) (pos : Nat) (caps : Caps) : T5 ⟨c :: r, pos, caps⟩ = none := by
  simp [T5, sLit_ne hz, T6_inert hd h0 h1 h2]

theorem T4_inert {c : Char} (ha : c ≠ '#') (hz : c ≠ '0') (hd : isAsciiDigit c = false) (h0 : c ≠ ',') (h1 : c ≠ '.')
    (h2 : (isWord c || c == '%') = false) (r : List Char) (pos : Nat) (caps : Caps) : T4 ⟨c :: r, pos, caps⟩ = none := by
  simp [T4, sLit_ne ha, T5_inert hz hd h0 h1 h2]

theorem sSign_no {c : Char} (h : isSign c = false) (r : List Char) : sSign (c :: r) = (none, c :: r) := by simp [sSign, h]
theorem sSign_yes {c : Char} (h : isSign c = true) (r : List Char) : sSign (c :: r) = (some c, r) := by simp [sSign, h]

theorem T3_inert {c : Char} (hs : isSign c = false) (ha : c ≠ '#') (hz : c ≠ '0') (hd : isAsciiDigit c = false) (h0 : c ≠ ',')
    (h1 : c ≠ '.') (h2 : (isWord c || c == '%') = false) (r : List Char) (pos : Nat) (caps : Caps) : T3 ⟨c :: r, pos, caps⟩ = none := by
  simp [T3, sSign_no hs, T4_inert ha hz hd h0 h1 h2]

theorem align_cases {a : Char} (h : isAlign a = true) : a = '<' ∨ a = '>' ∨ a = '=' ∨ a = '^' := by
  simpa [isAlign, or_assoc] using h

theorem sign_cases {s : Char} (h : isSign s = true) : s = ' ' ∨ s = '+' ∨ s = '-' := by
  simpa [isSign, or_assoc] using h

/-- an alignment character cannot be consumed after the fill/align stage -/
theorem T3_align {a : Char} (h : isAlign a = true) (r : List Char) (pos : Nat) (caps : Caps) : T3 ⟨a :: r, pos, caps⟩ = none := by
  rcases align_cases h with rfl | rfl | rfl | rfl <;>
    exact T3_inert (by decide) (by decide) (by decide) (by decide) (by decide) (by decide) (by decide) r pos caps

theorem align_inert {a : Char} (h : isAlign a = true) :
    isSign a = false ∧ a ≠ '#' ∧ a ≠ '0' ∧ isAsciiDigit a = false ∧ a ≠ ',' ∧ a ≠ '.' ∧ (isWord a || a == '%') = false ∧ isDigit a = false := by
  rcases align_cases h with rfl | rfl | rfl | rfl <;> decide

/-! ### the results of the later stages do not depend on position and captures, as far as success goes -/

theorem T9_indep (r : List Char) (p p' : Nat) (c c' : Caps) : (T9 ⟨r, p, c⟩).isSome = (T9 ⟨r, p', c'⟩).isSome := by
  simp only [T9]
  split <;> simp_all

theorem T8_indep (r : List Char) (p p' : Nat) (c c' : Caps) : (T8 ⟨r, p, c⟩).isSome = (T8 ⟨r, p', c'⟩).isSome := by
  cases h : sPrec r with
  | mk o r' => cases o <;> simp only [T8, h] <;> exact T9_indep _ _ _ _ _

theorem T7_indep (r : List Char) (p p' : Nat) (c c' : Caps) : (T7 ⟨r, p, c⟩).isSome = (T7 ⟨r, p', c'⟩).isSome := by
  cases h : sLit ',' r with
  | mk o r' => cases o <;> simp only [T7, h] <;> exact T8_indep _ _ _ _ _

theorem T6_indep (r : List Char) (p p' : Nat) (c c' : Caps) : (T6 ⟨r, p, c⟩).isSome = (T6 ⟨r, p', c'⟩).isSome := by
  cases h : sWidth r with
  | mk o r' => cases o <;> simp only [T6, h] <;> exact T7_indep _ _ _ _ _

theorem isSome_false {α : Type} {o : Option α} (h : o.isSome = false) : o = none := by
  cases o <;> simp_all

/-! ### stages 7 … 3: one optional character (or run) each -/

/-- an optional single-character group in front of a deterministic tail `T`: taking the character when it is there is the
    only way, provided the tail cannot succeed in front of it after the character was declined -/
theorem bt_opt_char (g : Nat) (neg : Bool) (items : List ClsItem) (T : St → Option St) (st : St)
    (hdecline : ∀ c r, st.rest = c :: r → clsTest liveDB neg items c = true →
      T ⟨r, st.pos + 1, (g, st.pos, st.pos + 1) :: st.caps⟩ = none → T st = none) :
    bt liveDB (.opt (.group g (.cls neg items))) st T =
      match st.rest with
      | c :: r => if clsTest liveDB neg items c then T ⟨r, st.pos + 1, (g, st.pos, st.pos + 1) :: st.caps⟩ else T st
      | [] => T st := by
  obtain ⟨rest, pos, caps⟩ := st
  cases rest with
  | nil => simp [bt_opt, bt_group, bt_cls_nil]
  | cons c r =>
    simp only [bt_opt, bt_group, bt_cls_cons]
    by_cases hc : clsTest liveDB neg items c = true
    · simp only [hc, if_true]
      cases hT : T ⟨r, pos + 1, (g, pos, pos + 1) :: caps⟩ with
      | some x => rfl
      | none => exact hdecline c r rfl hc hT
    · simp [hc]

theorem bt_R7 (st : St) : bt liveDB R7 st some = T7 st := by
  have hk : (fun st' => bt liveDB R8 st' some) = T8 := funext bt_R8
  simp only [R7, bt_seq, hk]
  rw [bt_opt_char]
  · obtain ⟨rest, pos, caps⟩ := st
    cases rest with
    | nil => simp [T7, sLit]
    | cons c r =>
      by_cases hc : c = ','
      · subst hc
        have : clsTest liveDB false [.lit 44] ',' = true := by rw [cls_one 44 (by decide)]; rfl
        simp [this, T7, sLit_eq]
      · have : clsTest liveDB false [.lit 44] c = false := by
          rw [cls_one 44 (by decide)]; have : Char.ofNat 44 = ',' := rfl; rw [this]; simpa using hc
        simp [this, T7, sLit_ne hc]
  · intro c r hr hc _
    obtain ⟨rest, pos, caps⟩ := st
    simp only at hr
    subst hr
    have : c = ',' := by
      rw [cls_one 44 (by decide)] at hc; have e : Char.ofNat 44 = ',' := rfl; rw [e] at hc; simpa using hc
    subst this
    exact T8_inert (by decide) (by decide) r pos caps

theorem T7_nil (pos : Nat) (caps : Caps) : T7 ⟨[], pos, caps⟩ = some ⟨[], pos, caps⟩ := by
  simp [T7, sLit, T8, sPrec, T9_nil]

theorem T7_digit {c : Char} (hc : isAsciiDigit c = true) {r : List Char} {pos : Nat} {caps : Caps}
    (h : T7 ⟨c :: r, pos, caps⟩ ≠ none) : r = [] := by
  have h0 : c ≠ ',' := by rintro rfl; revert hc; decide
  have h1 : c ≠ '.' := by rintro rfl; revert hc; decide
  simp only [T7, sLit_ne h0, T8, sPrec_other h1] at h
  exact (T9_cons h).1

theorem bt_R6 (st : St) : bt liveDB R6 st some = T6 st := by
  have hk : (fun st' => bt liveDB R7 st' some) = T7 := funext bt_R7
  obtain ⟨rest, pos, caps⟩ := st
  simp only [R6, bt_seq, bt_opt, bt_group, bt_plus, hk]
  cases rest with
  | nil => simp [bt_cls_nil, T6, sWidth]
  | cons c r =>
    by_cases hc : isAsciiDigit c = true
    · have hcd : clsTest liveDB false [.range 48 57] c = true := by rw [cls_ascii_digit]; exact hc
      simp only [bt_cls_cons, hcd, if_true]
      rw [starLoop_cls_gen liveDB false [.range 48 57] _ ?H _ _ _ _ (Nat.le_refl _)]
      case H =>
        intro c0 r0 p0 cp0 hc0 hne
        rw [cls_ascii_digit] at hc0
        have := T7_digit hc0 hne
        subst this
        simp [T7_nil]
      have hfun : clsTest liveDB false [.range 48 57] = isAsciiDigit := funext cls_ascii_digit
      simp only [hfun, T6, sWidth_digit hc, List.length_cons]
      have e : pos + 1 + (List.takeWhile isAsciiDigit r).length = pos + ((List.takeWhile isAsciiDigit r).length + 1) := by omega
      rw [e]
      cases hT : T7 ⟨List.dropWhile isAsciiDigit r, pos + ((List.takeWhile isAsciiDigit r).length + 1),
        (6, pos, pos + ((List.takeWhile isAsciiDigit r).length + 1)) :: caps⟩ with
      | some x => rfl
      | none =>
        simp only
        cases hT2 : T7 ⟨c :: r, pos, caps⟩ with
        | none => rfl
        | some y =>
          exfalso
          have hr := T7_digit hc (r := r) (pos := pos) (caps := caps) (by rw [hT2]; simp)
          subst hr
          simp [T7_nil] at hT
    · have hcd : clsTest liveDB false [.range 48 57] c = false := by rw [cls_ascii_digit]; simpa using hc
      simp [bt_cls_cons, hcd, T6, sWidth_nodigit (by simpa using hc)]

theorem T6_zero (r : List Char) (p p' : Nat) (c c' : Caps) : (T6 ⟨'0' :: r, p, c⟩).isSome = (T6 ⟨r, p', c'⟩).isSome := by
  have h0 : isAsciiDigit '0' = true := by decide
  simp only [T6, sWidth_digit h0]
  cases r with
  | nil => simp only [List.dropWhile_nil, List.takeWhile_nil, sWidth]; exact T7_indep _ _ _ _ _
  | cons d r' =>
    by_cases hd : isAsciiDigit d = true
    · simp only [sWidth_digit hd, List.dropWhile_cons, hd, if_true]; exact T7_indep _ _ _ _ _
    · have hd' : isAsciiDigit d = false := by simpa using hd
      simp only [sWidth_nodigit hd', List.dropWhile_cons, hd', Bool.false_eq_true, if_false]; exact T7_indep _ _ _ _ _

theorem bt_R5 (st : St) : bt liveDB R5 st some = T5 st := by
  have hk : (fun st' => bt liveDB R6 st' some) = T6 := funext bt_R6
  simp only [R5, bt_seq, hk]
  rw [bt_opt_char]
  · obtain ⟨rest, pos, caps⟩ := st
    cases rest with
    | nil => simp [T5, sLit]
    | cons c r =>
      by_cases hc : c = '0'
      · subst hc
        have : clsTest liveDB false [.lit 48] '0' = true := by rw [cls_one 48 (by decide)]; rfl
        simp [this, T5, sLit_eq]
      · have : clsTest liveDB false [.lit 48] c = false := by
          rw [cls_one 48 (by decide)]; have : Char.ofNat 48 = '0' := rfl; rw [this]; simpa using hc
        simp [this, T5, sLit_ne hc]
  · intro c r hr hc hnone
    obtain ⟨rest, pos, caps⟩ := st
    simp only at hr
    subst hr
    have : c = '0' := by
      rw [cls_one 48 (by decide)] at hc; have e : Char.ofNat 48 = '0' := rfl; rw [e] at hc; simpa using hc
    subst this
    apply isSome_false
    rw [T6_zero r pos (pos + 1) caps ((5, pos, pos + 1) :: caps)]
    simp only at hnone
    rw [hnone]; rfl

theorem bt_R4 (st : St) : bt liveDB R4 st some = T4 st := by
  have hk : (fun st' => bt liveDB R5 st' some) = T5 := funext bt_R5
  simp only [R4, bt_seq, hk]
  rw [bt_opt_char]
  · obtain ⟨rest, pos, caps⟩ := st
    cases rest with
    | nil => simp [T4, sLit]
    | cons c r =>
      by_cases hc : c = '#'
      · subst hc
        have : clsTest liveDB false [.lit 35] '#' = true := by rw [cls_one 35 (by decide)]; rfl
        simp [this, T4, sLit_eq]
      · have : clsTest liveDB false [.lit 35] c = false := by
          rw [cls_one 35 (by decide)]; have : Char.ofNat 35 = '#' := rfl; rw [this]; simpa using hc
        simp [this, T4, sLit_ne hc]
  · intro c r hr hc _
    obtain ⟨rest, pos, caps⟩ := st
    simp only at hr
    subst hr
    have : c = '#' := by
      rw [cls_one 35 (by decide)] at hc; have e : Char.ofNat 35 = '#' := rfl; rw [e] at hc; simpa using hc
    subst this
    exact T5_inert (by decide) (by decide) (by decide) (by decide) (by decide) r pos caps

theorem bt_R3 (st : St) : bt liveDB R3 st some = T3 st := by
  have hk : (fun st' => bt liveDB R4 st' some) = T4 := funext bt_R4
  simp only [R3, bt_seq, hk]
  rw [bt_opt_char]
  · obtain ⟨rest, pos, caps⟩ := st
    cases rest with
    | nil => simp [T3, sSign]
    | cons c r =>
      by_cases hc : isSign c = true
      · simp [cls_sign, hc, T3, sSign_yes hc]
      · have hc' : isSign c = false := by simpa using hc
        simp [cls_sign, hc', T3, sSign_no hc']
  · intro c r hr hc _
    obtain ⟨rest, pos, caps⟩ := st
    simp only at hr
    subst hr
    rw [cls_sign] at hc
    rcases sign_cases hc with rfl | rfl | rfl <;>
      exact T4_inert (by decide) (by decide) (by decide) (by decide) (by decide) (by decide) r pos caps

/-! ### stage 2: fill and alignment -/

theorem T3_nil (pos : Nat) (caps : Caps) : T3 ⟨[], pos, caps⟩ = some ⟨[], pos, caps⟩ := by
  simp [T3, sSign, T4, sLit, T5, T6, sWidth, T7_nil]

/-- whatever the first character is, nothing from the sign stage on gets past an alignment character in second place -/
theorem T3_second_align {a : Char} (h : isAlign a = true) (f : Char) (r : List Char) (pos : Nat) (caps : Caps) :
    T3 ⟨f :: a :: r, pos, caps⟩ = none := by
  obtain ⟨hs, ha, hz, hd, h0, h1, h2, hdd⟩ := align_inert h
  by_cases c1 : isSign f = true
  · simp [T3, sSign_yes c1, T4_inert ha hz hd h0 h1 h2]
  · have c1' : isSign f = false := by simpa using c1
    simp only [T3, sSign_no c1']
    by_cases c2 : f = '#'
    · subst c2; simp [T4, sLit_eq, T5_inert hz hd h0 h1 h2]
    · simp only [T4, sLit_ne c2]
      by_cases c3 : f = '0'
      · subst c3; simp [T5, sLit_eq, T6_inert hd h0 h1 h2]
      · simp only [T5, sLit_ne c3]
        by_cases c4 : isAsciiDigit f = true
        · simp [T6, sWidth_digit c4, List.takeWhile_cons, List.dropWhile_cons, hd, T7_inert h0 h1 h2]
        · have c4' : isAsciiDigit f = false := by simpa using c4
          simp only [T6, sWidth_nodigit c4']
          by_cases c5 : f = ','
          · subst c5; simp [T7, sLit_eq, T8_inert h1 h2]
          · simp only [T7, sLit_ne c5]
            by_cases c6 : f = '.'
            · subst c6
              have := sPrec_dot_nodigit (r := a :: r) (by intro d r' hh; cases hh; exact hdd)
              simp [T8, this, T9_of_not_type (c := '.') (by decide)]
            · simp only [T8, sPrec_other c6, T9, sType]
              by_cases c7 : (isWord f || f == '%') = true
              · simp [c7]
              · simp [c7]

theorem sFillAlign_two {f a : Char} {r : List Char} :
    sFillAlign (f :: a :: r) =
      if f ≠ '}' && isAlign a then (some f, some a, r)
      else if isAlign f then (none, some f, a :: r)
      else (none, none, f :: a :: r) := by
  simp [sFillAlign]

theorem bt_R2 (st : St) : bt liveDB R2 st some = T2 st := by
  have hk : (fun st' => bt liveDB R3 st' some) = T3 := funext bt_R3
  obtain ⟨rest, pos, caps⟩ := st
  simp only [R2, bt_seq, bt_opt, bt_group, hk]
  cases rest with
  | nil => simp [bt_cls_nil, T2, sFillAlign]
  | cons f rest =>
    cases rest with
    | nil =>
      -- a single character: an alignment or nothing
      simp only [bt_cls_cons, bt_cls_nil, cls_not_close, cls_align, T2, sFillAlign]
      by_cases hf : isAlign f = true
      · by_cases hcl : (f != '}') = true <;> simp [hf, hcl, T3_nil]
      · have hf' : isAlign f = false := by simpa using hf
        by_cases hcl : (f != '}') = true <;> simp [hf', hcl]
    | cons a r =>
      simp only [bt_cls_cons, cls_not_close, cls_align, T2, sFillAlign_two]
      by_cases hcl : (f != '}') = true
      · by_cases ha : isAlign a = true
        · -- fill and alignment; if the tail fails after both, it fails after any other choice too
          have hcl' : f ≠ '}' := by simpa using hcl
          simp only [hcl, ha, if_true, Bool.and_self, hcl', ne_eq, not_false_eq_true, decide_true, Bool.true_and]
          cases hT : T3 ⟨r, pos + 1 + 1, (2, pos + 1, pos + 1 + 1) :: (1, pos, pos + 1) :: caps⟩ with
          | some x => rfl
          | none =>
            simp only [T3_second_align ha, T3_align ha]
            by_cases hf : isAlign f = true <;> simp [hf]
        · have ha' : isAlign a = false := by simpa using ha
          simp only [hcl, ha', if_true, Bool.false_eq_true, if_false, Bool.and_false]
          by_cases hf : isAlign f = true
          · simp only [hf, if_true]
            cases hT : T3 ⟨a :: r, pos + 1, (2, pos, pos + 1) :: caps⟩ with
            | some x => rfl
            | none =>
              simp only
              have := align_inert hf
              exact (T3_inert this.1 this.2.1 this.2.2.1 this.2.2.2.1 this.2.2.2.2.1 this.2.2.2.2.2.1 this.2.2.2.2.2.2.1 _ _ _).symm ▸ rfl
          · have hf' : isAlign f = false := by simpa using hf
            simp [hf']
      · -- the first character is `}`: it cannot be a fill character, nor an alignment
        have hf : f = '}' := by simpa using hcl
        subst hf
        have : isAlign '}' = false := by decide
        simp [this]

/-- **`_format_spec_re.match(spec)`**: the first match of the live parse tree under the backtracking semantics is the
    deterministic reading stage by stage (`T2` is built from the stage functions of `scanSpec`, with positions and captures) -/
theorem matchAt_formatSpecRe (cs : List Char) :
    matchAt liveDB I18n.Generated.PyBraceTables.formatSpecRe cs 0 = T2 ⟨cs, 0, []⟩ := by
  rw [formatSpecRe_pin.1, pinned_split]
  simp only [matchAt, bt_seq, bt_bos, if_true]
  exact bt_R2 _

/-! ### the staged reading accepts exactly when `scanSpec` does -/

theorem T9_isSome (r : List Char) (p : Nat) (c : Caps) : (T9 ⟨r, p, c⟩).isSome = (sType r).2.isEmpty := by
  simp only [T9]
  cases h : sType r with
  | mk o r' => cases o <;> cases r' <;> simp

theorem sPrec_none {r r' : List Char} (h : sPrec r = (none, r')) : r' = r := by
  unfold sPrec at h
  split at h
  · split at h <;> simp at h; exact h.symm
  · simp at h; exact h.symm

theorem sLit_false {x : Char} {r r' : List Char} (h : sLit x r = (false, r')) : r' = r := by
  cases r with
  | nil => simp [sLit] at h; exact h
  | cons c r0 =>
    simp only [sLit] at h
    split at h <;> simp at h
    exact h.symm

theorem sWidth_none {r r' : List Char} (h : sWidth r = (none, r')) : r' = r := by
  simp only [sWidth] at h
  split at h <;> simp at h
  exact h.symm

theorem sSign_none {r r' : List Char} (h : sSign r = (none, r')) : r' = r := by
  cases r with
  | nil => simp [sSign] at h; exact h
  | cons c r0 =>
    simp only [sSign] at h
    split at h <;> simp at h
    exact h.symm

theorem sFillAlign_none {r r' : List Char} {o : Option Char} (h : sFillAlign r = (o, none, r')) : r' = r := by
  cases r with
  | nil => simp [sFillAlign] at h; exact h.2
  | cons f r0 =>
    cases r0 with
    | nil =>
      simp only [sFillAlign] at h
      split at h <;> simp at h
      exact h.2.symm
    | cons a r1 =>
      simp only [sFillAlign] at h
      split at h
      · simp at h
      · split at h <;> simp at h
        exact h.2.symm

theorem T8_isSome (r : List Char) (p : Nat) (c : Caps) : (T8 ⟨r, p, c⟩).isSome = (sType (sPrec r).2).2.isEmpty := by
  cases h : sPrec r with
  | mk o r' =>
    cases o with
    | none => have := sPrec_none h; subst this; simp only [T8, h]; exact T9_isSome _ _ _
    | some x => simp only [T8, h]; exact T9_isSome _ _ _

theorem T7_isSome (r : List Char) (p : Nat) (c : Caps) :
    (T7 ⟨r, p, c⟩).isSome = (sType (sPrec (sLit ',' r).2).2).2.isEmpty := by
  cases h : sLit ',' r with
  | mk o r' =>
    cases o with
    | false => have := sLit_false h; subst this; simp only [T7, h]; exact T8_isSome _ _ _
    | true => simp only [T7, h]; exact T8_isSome _ _ _

theorem T6_isSome (r : List Char) (p : Nat) (c : Caps) :
    (T6 ⟨r, p, c⟩).isSome = (sType (sPrec (sLit ',' (sWidth r).2).2).2).2.isEmpty := by
  cases h : sWidth r with
  | mk o r' =>
    cases o with
    | none => have := sWidth_none h; subst this; simp only [T6, h]; exact T7_isSome _ _ _
    | some x => simp only [T6, h]; exact T7_isSome _ _ _

theorem T5_isSome (r : List Char) (p : Nat) (c : Caps) :
    (T5 ⟨r, p, c⟩).isSome = (sType (sPrec (sLit ',' (sWidth (sLit '0' r).2).2).2).2).2.isEmpty := by
  cases h : sLit '0' r with
  | mk o r' =>
    cases o with
    | false => have := sLit_false h; subst this; simp only [T5, h]; exact T6_isSome _ _ _
    | true => simp only [T5, h]; exact T6_isSome _ _ _

theorem T4_isSome (r : List Char) (p : Nat) (c : Caps) :
    (T4 ⟨r, p, c⟩).isSome = (sType (sPrec (sLit ',' (sWidth (sLit '0' (sLit '#' r).2).2).2).2).2).2.isEmpty := by
  cases h : sLit '#' r with
  | mk o r' =>
    cases o with
    | false => have := sLit_false h; subst this; simp only [T4, h]; exact T5_isSome _ _ _
    | true => simp only [T4, h]; exact T5_isSome _ _ _

theorem T3_isSome (r : List Char) (p : Nat) (c : Caps) :
    (T3 ⟨r, p, c⟩).isSome = (sType (sPrec (sLit ',' (sWidth (sLit '0' (sLit '#' (sSign r).2).2).2).2).2).2).2.isEmpty := by
  cases h : sSign r with
  | mk o r' =>
    cases o with
    | none => have := sSign_none h; subst this; simp only [T3, h]; exact T4_isSome _ _ _
    | some x => simp only [T3, h]; exact T4_isSome _ _ _

theorem T2_isSome (r : List Char) (p : Nat) (c : Caps) :
    (T2 ⟨r, p, c⟩).isSome =
      (sType (sPrec (sLit ',' (sWidth (sLit '0' (sLit '#' (sSign (sFillAlign r).2.2).2).2).2).2).2).2).2.isEmpty := by
  cases h : sFillAlign r with
  | mk o x =>
    obtain ⟨o2, r'⟩ := x
    cases o2 with
    | none => have := sFillAlign_none h; subst this; cases o <;> simp only [T2, h] <;> exact T3_isSome _ _ _
    | some a => cases o <;> simp only [T2, h] <;> exact T3_isSome _ _ _

theorem scanSpec_isSome (cs : List Char) :
    (scanSpec cs).isSome =
      (sType (sPrec (sLit ',' (sWidth (sLit '0' (sLit '#' (sSign (sFillAlign cs).2.2).2).2).2).2).2).2).2.isEmpty := by
  simp only [scanSpec]
  cases (sType (sPrec (sLit ',' (sWidth (sLit '0' (sLit '#' (sSign (sFillAlign cs).2.2).2).2).2).2).2).2).2 <;> rfl

/-- `_format_spec_re.match(spec) is not None` iff the model's `scanSpec` reads the specification -/
theorem formatSpecRe_accepts (cs : List Char) :
    (matchAt liveDB I18n.Generated.PyBraceTables.formatSpecRe cs 0).isSome = (scanSpec cs).isSome := by
  rw [matchAt_formatSpecRe, T2_isSome, scanSpec_isSome]

end I18n.PyBrace
