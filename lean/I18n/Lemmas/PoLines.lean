import I18n.Spec.PoSpelling
import I18n.Lemmas.PoKit
import I18n.Lemmas.PoUnescape
/-! What one iteration of polib's line loop (`Po.stepLine`) does on each class of spelled line. -/
namespace I18n.Lemmas.PoLines
open I18n I18n.Po I18n.Spec.PoSpelling I18n.Lemmas.PoKit
open I18n.Generated.PolibFsm (St Sym Handler)

theorem blank_space (s : Text) (h : Blank s) : ∀ c ∈ s, pyIsSpace c = true := by
  intro c hc; rcases h c hc with rfl | rfl <;> decide

/-! ### the rendered string never shows an unescaped quote to polib's test -/

theorem hexChar_ne_quote : ∀ h : HexDigit, h.char ≠ '"' := by
  rintro ⟨v, u⟩; revert v u; decide
theorem octChar_ne_quote : ∀ a : Fin 8, octChar a ≠ '"' := by decide

/-- every `"` in `s` has a backslash right before it; `prev` is the character before `s` -/
def QuotesEscaped : Char → Text → Prop
  | _, [] => True
  | prev, c :: r => (c = '"' → prev = '\\') ∧ QuotesEscaped c r

theorem quoteAfterOther_false (prev : Char) (s : Text) (h : QuotesEscaped prev s) : quoteAfterOther (prev :: s) = false := by
  induction s generalizing prev with
  | nil => simp [quoteAfterOther]
  | cons c r ih =>
    simp only [quoteAfterOther, Bool.or_eq_false_iff, Bool.and_eq_false_iff, bne_eq_false_iff_eq, beq_eq_false_iff_ne]
    refine ⟨?_, ih c h.2⟩
    by_cases hc : c = '"'
    · exact Or.inl (h.1 hc)
    · exact Or.inr hc

theorem quotesEscaped_append (prev : Char) (a b : Text) (ha : QuotesEscaped prev a)
    (hb : QuotesEscaped ((prev :: a).getLast (by simp)) b) : QuotesEscaped prev (a ++ b) := by
  induction a generalizing prev with
  | nil => simpa using hb
  | cons c r ih =>
    refine ⟨ha.1, ih c ha.2 ?_⟩
    simpa [List.getLast_cons] using hb

theorem quotesEscaped_form (prev : Char) (f : EscForm) : QuotesEscaped prev ('\\' :: f.body) := by
  cases f <;> simp [EscForm.body, QuotesEscaped, octChar_ne_quote, hexChar_ne_quote]

theorem quotesEscaped_forms (prev : Char) (forms : List EscForm) :
    QuotesEscaped prev (forms.flatMap fun f => '\\' :: f.body) := by
  induction forms generalizing prev with
  | nil => trivial
  | cons f fs ih =>
    simp only [List.flatMap_cons]
    exact quotesEscaped_append prev _ _ (quotesEscaped_form prev f) (ih _)

theorem quotesEscaped_choice (E : Codec) (prev : Char) (x : Choice) (hx : x.Valid E) : QuotesEscaped prev x.render := by
  cases x with
  | raw c => exact ⟨fun h => absurd h hx.2.1, trivial⟩
  | simple i => exact ⟨fun h => absurd h (by decide), fun _ => rfl, trivial⟩
  | bytes c forms => exact quotesEscaped_forms prev forms

theorem quotesEscaped_render (E : Codec) (prev : Char) (cs : List Choice) (h : ∀ x ∈ cs, x.Valid E) :
    QuotesEscaped prev (render cs) := by
  induction cs generalizing prev with
  | nil => trivial
  | cons x xs ih =>
    simp only [render, List.flatMap_cons]
    exact quotesEscaped_append prev _ _ (quotesEscaped_choice E prev x (h x (by simp))) (ih _ (fun y hy => h y (by simp [hy])))

theorem no_unescaped_quote (E : Codec) (cs : List Choice) (h : ∀ x ∈ cs, x.Valid E) :
    hasUnescapedQuote (render cs) = false := by
  have hq := quotesEscaped_render E 'a' cs h
  cases hr : render cs with
  | nil => rfl
  | cons c r =>
    rw [hr] at hq
    have hc : c ≠ '"' := fun e => absurd (hq.1 e) (by decide)
    have := quoteAfterOther_false c r hq.2
    unfold hasUnescapedQuote
    split
    · rename_i heq; simp at heq; exact absurd heq.1 hc
    · exact this

theorem inner_quoted (cs : List Choice) : inner (quoted cs) = render cs := by
  simp [inner, quoted]

/-! ### `stepLine` up to `dispatch` -/

theorem dropBom_id (n : Nat) (raw : Text) (h : ∀ c r, raw = c :: r → c ≠ bom) : dropBom n raw = raw := by
  unfold dropBom
  split
  · cases raw with
    | nil => rfl
    | cons c r => simp [h c r rfl]
  · rfl

theorem stepLine_blank (env : Env) (hsp : env.isSpace = pyIsSpace) (enc : Bytes) (n : Nat) (raw : Text) (h : ∀ c ∈ raw, pyIsSpace c = true) (s : PState) :
    stepLine env enc n raw s = .ok s := by
  have hb : dropBom n raw = raw := dropBom_id n raw (by
    intro c r e; have := h c (by rw [e]; simp); intro hc; rw [hc] at this; exact absurd this (by decide))
  have : strip pyIsSpace raw = [] := by
    simpa using strip_pad (p := pyIsSpace) raw [] [] h (by simp) (by intro c r e; simp at e) (by intro c e; simp at e)
  simp [stepLine, hsp, hb, this]

theorem stepLine_plain (env : Env) (hsp : env.isSpace = pyIsSpace) (enc : Bytes) (n : Nat) (lpad core rpad : Text)
    (hl : ∀ c ∈ lpad, pyIsSpace c = true) (hr : ∀ c ∈ rpad, pyIsSpace c = true) (hne : core ≠ [])
    (hh : HeadNot pyIsSpace core) (ht : LastNot pyIsSpace core) (hbom : ∀ c r, lpad ++ core = c :: r → c ≠ bom)
    (t0 : Text) (trest : List Text) (hsplit : splitWs pyIsSpace 2 core = t0 :: trest)
    (h1 : t0 ≠ ['#', '~', '|']) (h2 : t0 ≠ ['#', '~']) (s : PState) :
    stepLine env enc n (lpad ++ core ++ rpad) s = dispatch env enc n core t0 trest { s with entryObsolete := false } := by
  have hb : dropBom n (lpad ++ core ++ rpad) = lpad ++ core ++ rpad := dropBom_id n _ (by
    intro c r e
    obtain ⟨a, as, hcore⟩ := List.exists_cons_of_ne_nil hne
    cases hlc : lpad ++ core with
    | nil => simp [hcore] at hlc
    | cons x xs => rw [hlc] at e; simp at e; rw [← e.1]; exact hbom x xs hlc)
  have hs := strip_pad (p := pyIsSpace) lpad core rpad hl hr hh ht
  obtain ⟨a, as, hcore⟩ := List.exists_cons_of_ne_nil hne
  simp only [stepLine, hsp, hb, hs, hsplit]
  simp [hcore, h1, h2]

theorem stepLine_obsolete (env : Env) (hsp : env.isSpace = pyIsSpace) (enc : Bytes) (n : Nat) (lpad sep core rpad : Text)
    (hl : ∀ c ∈ lpad, pyIsSpace c = true) (hr : ∀ c ∈ rpad, pyIsSpace c = true)
    (hsep : sep ≠ []) (hbl : Blank sep) (hne : core ≠ [])
    (hh : HeadNot pyIsSpace core) (ht : LastNot pyIsSpace core) (hlb : Blank lpad)
    (t1 : Text) (trest : List Text) (hsplit : splitWs pyIsSpace 1 core = t1 :: trest) (s : PState) :
    stepLine env enc n (lpad ++ ('#' :: '~' :: (sep ++ core)) ++ rpad) s =
      dispatch env enc n core t1 trest { s with entryObsolete := true } := by
  have hsepsp := blank_space sep hbl
  obtain ⟨a, as, hcore⟩ := List.exists_cons_of_ne_nil hne
  obtain ⟨b, bs, hsepc⟩ := List.exists_cons_of_ne_nil hsep
  have hlast : LastNot pyIsSpace ('#' :: '~' :: (sep ++ core)) := by
    intro c e
    apply ht c
    have h3 : '#' :: '~' :: (sep ++ core) = ('#' :: '~' :: sep) ++ core := by simp
    rw [h3, List.getLast?_append] at e
    rw [hcore] at e ⊢
    simpa using e
  have hb : dropBom n (lpad ++ ('#' :: '~' :: (sep ++ core)) ++ rpad) = lpad ++ ('#' :: '~' :: (sep ++ core)) ++ rpad :=
    dropBom_id n _ (by
      intro c r e
      cases lpad with
      | nil => simp at e; rw [← e.1]; decide
      | cons x xs =>
        simp at e; rw [← e.1]
        rcases hlb x (by simp) with rfl | rfl <;> decide)
  have hs := strip_pad (p := pyIsSpace) lpad ('#' :: '~' :: (sep ++ core)) rpad hl hr
    (by intro c r e; simp at e; rw [← e.1]; decide) hlast
  have hsp2 : splitWs pyIsSpace 2 ('#' :: '~' :: (sep ++ core)) = ['#', '~'] :: t1 :: trest := by
    have := splitWs_tok (p := pyIsSpace) 1 ['#', '~'] (sep ++ core) (by simp)
      (by intro c hc; simp at hc; rcases hc with rfl | rfl <;> decide)
      (by intro c r e; rw [hsepc] at e; simp at e; rw [← e.1]; exact hsepsp b (by rw [hsepc]; simp))
    simp only [List.cons_append, List.nil_append] at this
    rw [this, splitWs_pad 1 sep core hsepsp, hsplit]
  have hdrop : strip pyIsSpace (('#' :: '~' :: (sep ++ core)).drop 3) = core := by
    rw [hsepc]
    simp only [List.cons_append, List.drop_succ_cons, List.drop_zero]
    simpa using strip_pad (p := pyIsSpace) bs core [] (fun c hc => hsepsp c (by rw [hsepc]; simp [hc])) (by simp) hh ht
  simp only [stepLine, hsp, hb, hs, hsp2, hdrop]
  simp

/-! ### keyword lines, continuation lines, `msgstr[N]` lines -/

theorem quoted_headNot (cs : List Choice) : HeadNot pyIsSpace (quoted cs) := by
  intro c r e; simp [quoted] at e; rw [← e.1]; decide

theorem quoted_lastNot (cs : List Choice) : LastNot pyIsSpace (quoted cs) := by
  intro c e
  have : quoted cs = ('"' :: render cs) ++ ['"'] := by simp [quoted]
  rw [this, List.getLast?_concat] at e
  simp at e; rw [← e]; decide

theorem lastNot_append (a b : Text) (hb : b ≠ []) (h : LastNot pyIsSpace b) : LastNot pyIsSpace (a ++ b) := by
  intro c e
  rw [List.getLast?_append] at e
  cases hbl : b.getLast? with
  | none => simp [List.getLast?_eq_none_iff] at hbl; exact absurd hbl hb
  | some x => rw [hbl] at e; simp at e; rw [← e]; exact h x hbl

/-- a keyword of `keywords`: what the lemmas need to know about it -/
structure IsKw (kw : Text) (sym : Sym) : Prop where
  ne : kw ≠ []
  nonspace : ∀ c ∈ kw, pyIsSpace c = false
  lookup : lookupKw kw I18n.Generated.PolibFsm.keywords = some sym
  head : kw.head? ≠ some bom ∧ kw.head? ≠ some '#'

theorem isKw_msgctxt : IsKw "msgctxt".toList .ct := ⟨by decide, by decide, by decide, by decide⟩
theorem isKw_msgid : IsKw "msgid".toList .mi := ⟨by decide, by decide, by decide, by decide⟩
theorem isKw_msgid_plural : IsKw "msgid_plural".toList .mp := ⟨by decide, by decide, by decide, by decide⟩
theorem isKw_msgstr : IsKw "msgstr".toList .ms := ⟨by decide, by decide, by decide, by decide⟩

theorem dispatch_kw (E : Codec) (env : Env) (hsp : env.isSpace = pyIsSpace) (enc : Bytes) (n : Nat) (kw : Text) (sym : Sym) (hkw : IsKw kw sym) (sep : Text) (hsep : Blank sep)
    (cs : List Choice) (hv : ∀ x ∈ cs, x.Valid E) (trest : List Text) (htr : trest ≠ []) (s : PState) :
    dispatch env enc n (kw ++ (sep ++ quoted cs)) kw trest s =
      process env enc n sym (quoted cs) { s with lastTok := some kw } := by
  have hnb : trest.length + 1 > 1 := by
    have := List.length_pos_iff.mpr htr; omega
  have hline : lstrip pyIsSpace ((kw ++ (sep ++ quoted cs)).drop kw.length) = quoted cs := by
    rw [List.drop_left]
    exact lstrip_pad sep (quoted cs) (blank_space sep hsep) (quoted_headNot cs)
  simp only [dispatch, hnb, if_true, hkw.lookup, hsp, hline, inner_quoted, no_unescaped_quote E cs hv]
  simp

theorem lookupKw_quote (r : Text) : lookupKw ('"' :: r) I18n.Generated.PolibFsm.keywords = none := by
  simp [lookupKw, I18n.Generated.PolibFsm.keywords]

/-- a continuation line: whatever its first token is, it starts with the quote -/
theorem dispatch_cont (E : Codec) (env : Env) (hsp : env.isSpace = pyIsSpace) (enc : Bytes) (n : Nat)
    (cs : List Choice) (hv : ∀ x ∈ cs, x.Valid E) (t0 : Text) (ht0 : ∃ r, t0 = '"' :: r) (trest : List Text) (s : PState) :
    dispatch env enc n (quoted cs) t0 trest s = process env enc n .mc (quoted cs) { s with lastTok := some t0 } := by
  obtain ⟨r, rfl⟩ := ht0
  have h1 : (if trest.length + 1 > 1 then lookupKw ('"' :: r) I18n.Generated.PolibFsm.keywords else none) = none := by
    split <;> simp [lookupKw_quote]
  have h2 : (quoted cs).take 1 = ['"'] := by simp [quoted]
  simp only [dispatch, h1, h2, inner_quoted, no_unescaped_quote E cs hv]
  simp

/-- the first token of a line that starts with a quote starts with that quote -/
theorem splitWs_quoted (n : Nat) (cs : List Choice) :
    ∃ r trest, splitWs pyIsSpace (n + 1) (quoted cs) = ('"' :: r) :: trest := by
  have hq : pyIsSpace '"' = false := by decide
  refine ⟨(render cs ++ ['"']).takeWhile (fun c => !pyIsSpace c),
    splitWs pyIsSpace n ((render cs ++ ['"']).dropWhile (fun c => !pyIsSpace c)), ?_⟩
  simp [quoted, splitWs, List.dropWhile, hq, List.takeWhile]

/-! ### `msgstr[N]` -/

theorem pyDecimal_digit : ∀ i : Fin 10, pyDecimal (digitChar i.val) = some i.val := by decide
theorem digit_nonspace : ∀ i : Fin 10, pyIsSpace (digitChar i.val) = false := by decide
theorem digit_ne_quote : ∀ i : Fin 10, digitChar i.val ≠ '"' := by decide
theorem digit_ne_hash : ∀ i : Fin 10, digitChar i.val ≠ '#' := by decide

theorem idxOf?_first (a b : List Char) (c : Char) (h : c ∉ a) : (a ++ c :: b).idxOf? c = some a.length := by
  induction a with
  | nil => simp [List.idxOf?, List.findIdx?_cons]
  | cons x xs ih =>
    have hx : x ≠ c := by intro e; apply h; simp [e]
    have := ih (by intro hm; apply h; simp [hm])
    simp [List.idxOf?, List.findIdx?_cons, hx] at this ⊢
    simp [this]

theorem mxKw_nonspace (i : Fin 10) : ∀ c ∈ mxKw i.val, pyIsSpace c = false := by
  intro c hc
  simp [mxKw] at hc
  rcases hc with rfl | rfl | rfl | rfl | rfl | rfl | rfl | rfl | rfl <;> first | decide | exact digit_nonspace i

theorem blank_no_quote (sep : Text) (h : Blank sep) : '"' ∉ sep := by
  intro hm; rcases h _ hm with e | e <;> exact absurd e (by decide)

theorem dispatch_mx (env : Env) (hsp : env.isSpace = pyIsSpace) (enc : Bytes) (n : Nat) (i : Fin 10) (sep : Text)
    (cs : List Choice) (trest : List Text) (s : PState) :
    dispatch env enc n (mxKw i.val ++ (sep ++ quoted cs)) (mxKw i.val) trest s =
      process env enc n .mx (mxKw i.val ++ (sep ++ quoted cs)) { s with lastTok := some (mxKw i.val) } := by
  have h1 : (if trest.length + 1 > 1 then lookupKw (mxKw i.val) I18n.Generated.PolibFsm.keywords else none) = none := by
    split <;> simp [lookupKw, I18n.Generated.PolibFsm.keywords, mxKw]
  simp only [dispatch, h1]
  simp [mxKw]

/-- the value polib cuts out of a `msgstr[N]` line, and the index -/
theorem handle_mx_token (env : Env) (hdec : env.decimal = pyDecimal) (enc : Bytes) (n : Nat) (i : Fin 10) (sep : Text) (hsep : Blank sep)
    (cs : List Choice) (v : Text) (hu : unescape env enc (render cs) = some v) (s : PState) :
    handle env enc n .mx (mxKw i.val ++ (sep ++ quoted cs)) s =
      some ({ s with cur := { s.cur with msgstrPlural := dictSet i.val v s.cur.msgstrPlural }, msgstrIndex := i.val }, true) := by
  have hidx : (mxKw i.val ++ (sep ++ quoted cs)).idxOf? '"' = some (9 + sep.length) := by
    have : mxKw i.val ++ (sep ++ quoted cs) = (mxKw i.val ++ sep) ++ '"' :: (render cs ++ ['"']) := by simp [quoted]
    rw [this, idxOf?_first _ _ '"' (by
      intro hm; simp only [List.mem_append] at hm
      rcases hm with hm | hm
      · simp [mxKw] at hm; exact absurd hm.symm (digit_ne_quote i)
      · exact blank_no_quote sep hsep hm)]
    simp [mxKw]; omega
  have hval : ((mxKw i.val ++ (sep ++ quoted cs)).drop (9 + sep.length + 1)).take
      ((mxKw i.val ++ (sep ++ quoted cs)).length - 1 - (9 + sep.length + 1)) = render cs := by
    have : mxKw i.val ++ (sep ++ quoted cs) = (mxKw i.val ++ sep ++ ['"']) ++ (render cs ++ ['"']) := by simp [quoted]
    rw [this, List.drop_left' (by simp [mxKw]; omega)]
    have hl : ((mxKw i.val ++ sep ++ ['"']) ++ (render cs ++ ['"'])).length - 1 - (9 + sep.length + 1) = (render cs).length := by
      simp [mxKw]; omega
    rw [hl]; simp
  have hd : (mxKw i.val ++ (sep ++ quoted cs)).drop 7 = digitChar i.val :: (']' :: (sep ++ quoted cs)) := by simp [mxKw]
  simp only [handle, hd, hidx, hval, hu, hdec, pyDecimal_digit]

/-! ### whole lines -/

/-- `pre` is the plain or the obsolete prefix -/
def MsgPrefix (pre : Prefix) : Prop := pre = .plain ∨ ∃ sep, pre = .obsolete sep ∧ sep ≠ [] ∧ Blank sep

theorem blank_ne_bom (l : Text) (h : Blank l) : ∀ c ∈ l, c ≠ bom := by
  intro c hc; rcases h c hc with rfl | rfl <;> decide

/-- a line `lpad ++ pre ++ core ++ rpad` whose `core` starts a message line: up to `dispatch` -/
theorem stepLine_msg (env : Env) (hsp : env.isSpace = pyIsSpace) (enc : Bytes) (n : Nat) (pre : Prefix) (hpre : MsgPrefix pre)
    (lpad core rpad : Text) (hl : Blank lpad) (hr : ∀ c ∈ rpad, pyIsSpace c = true) (hne : core ≠ [])
    (hh : HeadNot pyIsSpace core) (ht : LastNot pyIsSpace core) (hhead : core.head? ≠ some bom ∧ core.head? ≠ some '#')
    (t0 : Text) (t1 : List Text) (t2 : List Text) (h2 : splitWs pyIsSpace 2 core = t0 :: t2)
    (h1 : splitWs pyIsSpace 1 core = t0 :: t1) (s : PState) :
    stepLine env enc n (lpad ++ (pre.render ++ core) ++ rpad) s =
      dispatch env enc n core t0 (if pre.isObsolete then t1 else t2) { s with entryObsolete := pre.isObsolete } := by
  obtain ⟨a, as, hcore⟩ := List.exists_cons_of_ne_nil hne
  rcases hpre with rfl | ⟨sep, rfl, hsep, hbl⟩
  · have ht0 : ∃ r, t0 = a :: r := by
      have := h1; rw [hcore] at this
      have ha : pyIsSpace a = false := hh a as hcore
      simp [splitWs, List.dropWhile, ha, List.takeWhile] at this
      exact ⟨_, this.1.symm⟩
    obtain ⟨r, rfl⟩ := ht0
    have hane : a ≠ '#' := by have := hhead.2; rw [hcore] at this; simpa using this
    simpa [Prefix.render, Prefix.isObsolete] using
      stepLine_plain env hsp enc n lpad core rpad (blank_space lpad hl) hr hne hh ht
        (by
          intro c r' e
          cases lpad with
          | nil => rw [hcore] at e; simp at e; rw [← e.1]; have := hhead.1; rw [hcore] at this; simpa using this
          | cons x xs => simp at e; rw [← e.1]; exact blank_ne_bom _ hl x (by simp))
        (a :: r) t2 h2 (by simp [hane]) (by simp [hane]) s
  · simpa [Prefix.render, Prefix.isObsolete] using
      stepLine_obsolete env hsp enc n lpad sep core rpad (blank_space lpad hl) hr hsep hbl hne hh ht hl t0 t1 h1 s

theorem step_kw_line (E : Codec) (env : Env) (hsp : env.isSpace = pyIsSpace) (enc : Bytes) (n : Nat) (pre : Prefix) (hpre : MsgPrefix pre)
    (kw : Text) (sym : Sym) (hkw : IsKw kw sym) (sep : Text) (hsep : sep ≠ []) (hbl : Blank sep) (g : Seg) (hg : g.Valid E) (s : PState) :
    stepLine env enc n (kwLine pre kw sep g) s =
      process env enc n sym (quoted g.choices) { s with entryObsolete := pre.isObsolete, lastTok := some kw } := by
  obtain ⟨b, bs, hsepc⟩ := List.exists_cons_of_ne_nil hsep
  have hsepsp := blank_space sep hbl
  have hrest : ∀ c r, sep ++ quoted g.choices = c :: r → pyIsSpace c = true := by
    intro c r e; rw [hsepc] at e; simp at e; rw [← e.1]; exact hsepsp b (by rw [hsepc]; simp)
  have hq : ∀ m, splitWs pyIsSpace m (sep ++ quoted g.choices) ≠ [] := fun m =>
    splitWs_ne_nil m _ '"' (by simp [quoted]) (by decide)
  have h2 := splitWs_tok (p := pyIsSpace) 1 kw (sep ++ quoted g.choices) hkw.ne hkw.nonspace hrest
  have h1 := splitWs_tok (p := pyIsSpace) 0 kw (sep ++ quoted g.choices) hkw.ne hkw.nonspace hrest
  obtain ⟨a, as, hkwc⟩ := List.exists_cons_of_ne_nil hkw.ne
  have := stepLine_msg env hsp enc n pre hpre g.lpad (kw ++ (sep ++ quoted g.choices)) g.rpad hg.2.2.1 hg.2.2.2
    (by simp [hkwc]) (by intro c r e; rw [hkwc] at e; simp at e; rw [← e.1]; exact hkw.nonspace a (by rw [hkwc]; simp))
    (lastNot_append _ _ (by simp [quoted]) (lastNot_append _ _ (by simp [quoted]) (quoted_lastNot g.choices)))
    (by have := hkw.head; rw [hkwc] at this ⊢; simpa using this) kw _ _ h2 h1 s
  simp only [kwLine]
  rw [this]
  exact dispatch_kw E env hsp enc n kw sym hkw sep hbl g.choices hg.1 _ (by split <;> exact hq _) _

theorem step_cont_line (E : Codec) (env : Env) (hsp : env.isSpace = pyIsSpace) (enc : Bytes) (n : Nat) (pre : Prefix) (hpre : MsgPrefix pre)
    (g : Seg) (hg : g.Valid E) (s : PState) :
    ∃ t0 r, t0 = '"' :: r ∧ stepLine env enc n (contLine pre g) s =
      process env enc n .mc (quoted g.choices) { s with entryObsolete := pre.isObsolete, lastTok := some t0 } := by
  obtain ⟨r, t2, h2⟩ := splitWs_quoted 1 g.choices
  obtain ⟨r', t1, h1⟩ := splitWs_quoted 0 g.choices
  have hr : r' = r := by
    simp [quoted, splitWs, List.dropWhile, List.takeWhile, (by decide : pyIsSpace '"' = false)] at h1 h2
    rw [← h1.1, ← h2.1]
  subst hr
  refine ⟨'"' :: r', r', rfl, ?_⟩
  have := stepLine_msg env hsp enc n pre hpre g.lpad (quoted g.choices) g.rpad hg.2.2.1 hg.2.2.2
    (by simp [quoted]) (quoted_headNot g.choices) (quoted_lastNot g.choices) (by simp [quoted]; decide) ('"' :: r') t1 t2 h2 h1 s
  simp only [contLine]
  rw [this]
  exact dispatch_cont E env hsp enc n g.choices hg.1 _ ⟨r', rfl⟩ _ _

theorem step_mx_line (E : Codec) (env : Env) (hsp : env.isSpace = pyIsSpace) (enc : Bytes) (n : Nat) (pre : Prefix) (hpre : MsgPrefix pre)
    (i : Fin 10) (sep : Text) (hsep : sep ≠ []) (hbl : Blank sep) (g : Seg) (hg : g.Valid E) (s : PState) :
    stepLine env enc n (kwLine pre (mxKw i.val) sep g) s =
      process env enc n .mx (mxKw i.val ++ (sep ++ quoted g.choices)) { s with entryObsolete := pre.isObsolete, lastTok := some (mxKw i.val) } := by
  obtain ⟨b, bs, hsepc⟩ := List.exists_cons_of_ne_nil hsep
  have hsepsp := blank_space sep hbl
  have hrest : ∀ c r, sep ++ quoted g.choices = c :: r → pyIsSpace c = true := by
    intro c r e; rw [hsepc] at e; simp at e; rw [← e.1]; exact hsepsp b (by rw [hsepc]; simp)
  have h2 := splitWs_tok (p := pyIsSpace) 1 (mxKw i.val) (sep ++ quoted g.choices) (by simp [mxKw]) (mxKw_nonspace i) hrest
  have h1 := splitWs_tok (p := pyIsSpace) 0 (mxKw i.val) (sep ++ quoted g.choices) (by simp [mxKw]) (mxKw_nonspace i) hrest
  have := stepLine_msg env hsp enc n pre hpre g.lpad (mxKw i.val ++ (sep ++ quoted g.choices)) g.rpad hg.2.2.1 hg.2.2.2
    (by simp [mxKw]) (by intro c r e; simp [mxKw] at e; rw [← e.1]; decide)
    (lastNot_append _ _ (by simp [quoted]) (lastNot_append _ _ (by simp [quoted]) (quoted_lastNot g.choices)))
    (by simp [mxKw]; decide) (mxKw i.val) _ _ h2 h1 s
  simp only [kwLine]
  rw [this]
  exact dispatch_mx env hsp enc n i sep g.choices _ _

/-! ### `#|` lines (previous msgctxt / msgid / msgid_plural) -/

structure IsPrevKw (kw : Text) (sym : Sym) : Prop where
  ne : kw ≠ []
  nonspace : ∀ c ∈ kw, pyIsSpace c = false
  lookup : lookupKw kw I18n.Generated.PolibFsm.prevKeywords = some sym
  head : kw.head? ≠ some '"'

theorem isPrevKw_msgctxt : IsPrevKw "msgctxt".toList .pc := ⟨by decide, by decide, by decide, by decide⟩
theorem isPrevKw_msgid : IsPrevKw "msgid".toList .pm := ⟨by decide, by decide, by decide, by decide⟩
theorem isPrevKw_msgid_plural : IsPrevKw "msgid_plural".toList .pp := ⟨by decide, by decide, by decide, by decide⟩

theorem prev_core_facts (psep rest : Text) (hrest : rest ≠ []) (hlast : LastNot pyIsSpace rest) :
    HeadNot pyIsSpace ('#' :: '|' :: (psep ++ rest)) ∧ LastNot pyIsSpace ('#' :: '|' :: (psep ++ rest)) := by
  refine ⟨by intro c r e; simp at e; rw [← e.1]; decide, ?_⟩
  have : '#' :: '|' :: (psep ++ rest) = ('#' :: '|' :: psep) ++ rest := by simp
  rw [this]; exact lastNot_append _ _ hrest hlast

theorem step_prev_kw_line (env : Env) (hsp : env.isSpace = pyIsSpace) (enc : Bytes) (n : Nat)
    (psep : Text) (hpsep : psep ≠ []) (hpbl : Blank psep) (kw : Text) (sym : Sym) (hkw : IsPrevKw kw sym)
    (sep : Text) (hsep : sep ≠ []) (hbl : Blank sep) (g : Seg) (hl : Blank g.lpad) (hr : ∀ c ∈ g.rpad, pyIsSpace c = true) (s : PState) :
    stepLine env enc n (kwLine (.previous psep) kw sep g) s =
      process env enc n sym (quoted g.choices) { s with entryObsolete := false, lastTok := some ['#', '|'] } := by
  obtain ⟨b, bs, hsepc⟩ := List.exists_cons_of_ne_nil hsep
  obtain ⟨pb, pbs, hpsepc⟩ := List.exists_cons_of_ne_nil hpsep
  obtain ⟨ka, kas, hkwc⟩ := List.exists_cons_of_ne_nil hkw.ne
  have hsepsp := blank_space sep hbl
  have hpsepsp := blank_space psep hpbl
  have hrest : ∀ c r, sep ++ quoted g.choices = c :: r → pyIsSpace c = true := by
    intro c r e; rw [hsepc] at e; simp at e; rw [← e.1]; exact hsepsp b (by rw [hsepc]; simp)
  have hk1 := splitWs_tok (p := pyIsSpace) 0 kw (sep ++ quoted g.choices) hkw.ne hkw.nonspace hrest
  have hq0 : splitWs pyIsSpace 0 (sep ++ quoted g.choices) ≠ [] := splitWs_ne_nil 0 _ '"' (by simp [quoted]) (by decide)
  have hsplit : splitWs pyIsSpace 2 ('#' :: '|' :: (psep ++ (kw ++ (sep ++ quoted g.choices)))) =
      ['#', '|'] :: kw :: splitWs pyIsSpace 0 (sep ++ quoted g.choices) := by
    have := splitWs_tok (p := pyIsSpace) 1 ['#', '|'] (psep ++ (kw ++ (sep ++ quoted g.choices))) (by simp)
      (by intro c hc; simp at hc; rcases hc with rfl | rfl <;> decide)
      (by intro c r e; rw [hpsepc] at e; simp at e; rw [← e.1]; exact hpsepsp pb (by rw [hpsepc]; simp))
    simp only [List.cons_append, List.nil_append] at this
    rw [this, splitWs_pad 1 psep _ hpsepsp, hk1]
  have hfacts := prev_core_facts psep (kw ++ (sep ++ quoted g.choices)) (by simp [hkwc])
    (lastNot_append _ _ (by simp [quoted]) (lastNot_append _ _ (by simp [quoted]) (quoted_lastNot g.choices)))
  have hstep := stepLine_plain env hsp enc n g.lpad ('#' :: '|' :: (psep ++ (kw ++ (sep ++ quoted g.choices)))) g.rpad
    (blank_space _ hl) hr (by simp) hfacts.1 hfacts.2
    (by
      intro c r e
      cases hlp : g.lpad with
      | nil => rw [hlp] at e; simp at e; rw [← e.1]; decide
      | cons x xs => rw [hlp] at e; simp at e; rw [← e.1]; exact blank_ne_bom _ hl x (by rw [hlp]; simp))
    ['#', '|'] _ hsplit (by decide) (by decide) s
  have hline : lstrip pyIsSpace (('#' :: '|' :: (psep ++ (kw ++ (sep ++ quoted g.choices)))).drop 2) = kw ++ (sep ++ quoted g.choices) := by
    simp only [List.drop_succ_cons, List.drop_zero]
    exact lstrip_pad psep _ hpsepsp (by intro c r e; rw [hkwc] at e; simp at e; rw [← e.1]; exact hkw.nonspace ka (by rw [hkwc]; simp))
  have htok : lstrip pyIsSpace ((kw ++ (sep ++ quoted g.choices)).drop kw.length) = quoted g.choices := by
    rw [List.drop_left]; exact lstrip_pad sep _ hsepsp (quoted_headNot g.choices)
  have hnq : startsWith ['"'] kw = false := by
    have := hkw.head; rw [hkwc] at this ⊢; simp at this; simp [startsWith, this]
  obtain ⟨q0, qs, hq0c⟩ := List.exists_cons_of_ne_nil hq0
  simp only [kwLine, Prefix.render, List.cons_append]
  rw [hstep]
  simp only [dispatch, hsp, hline, htok, hnq, hkw.lookup, hq0c]
  simp [lookupKw, I18n.Generated.PolibFsm.keywords, startsWith]

theorem step_prev_cont_line (env : Env) (hsp : env.isSpace = pyIsSpace) (enc : Bytes) (n : Nat)
    (psep : Text) (hpsep : psep ≠ []) (hpbl : Blank psep) (g : Seg) (hl : Blank g.lpad) (hr : ∀ c ∈ g.rpad, pyIsSpace c = true) (s : PState) :
    stepLine env enc n (contLine (.previous psep) g) s =
      process env enc n .mc (quoted g.choices) { s with entryObsolete := false, lastTok := some ['#', '|'] } := by
  obtain ⟨pb, pbs, hpsepc⟩ := List.exists_cons_of_ne_nil hpsep
  have hpsepsp := blank_space psep hpbl
  obtain ⟨r, t2, h2⟩ := splitWs_quoted 0 g.choices
  have hsplit : splitWs pyIsSpace 2 ('#' :: '|' :: (psep ++ quoted g.choices)) = ['#', '|'] :: ('"' :: r) :: t2 := by
    have := splitWs_tok (p := pyIsSpace) 1 ['#', '|'] (psep ++ quoted g.choices) (by simp)
      (by intro c hc; simp at hc; rcases hc with rfl | rfl <;> decide)
      (by intro c r e; rw [hpsepc] at e; simp at e; rw [← e.1]; exact hpsepsp pb (by rw [hpsepc]; simp))
    simp only [List.cons_append, List.nil_append] at this
    rw [this, splitWs_pad 1 psep _ hpsepsp, h2]
  have hfacts := prev_core_facts psep (quoted g.choices) (by simp [quoted]) (quoted_lastNot g.choices)
  have hstep := stepLine_plain env hsp enc n g.lpad ('#' :: '|' :: (psep ++ quoted g.choices)) g.rpad
    (blank_space _ hl) hr (by simp) hfacts.1 hfacts.2
    (by
      intro c r e
      cases hlp : g.lpad with
      | nil => rw [hlp] at e; simp at e; rw [← e.1]; decide
      | cons x xs => rw [hlp] at e; simp at e; rw [← e.1]; exact blank_ne_bom _ hl x (by rw [hlp]; simp))
    ['#', '|'] _ hsplit (by decide) (by decide) s
  have hline : lstrip pyIsSpace (('#' :: '|' :: (psep ++ quoted g.choices)).drop 2) = quoted g.choices := by
    simp only [List.drop_succ_cons, List.drop_zero]
    exact lstrip_pad psep _ hpsepsp (quoted_headNot g.choices)
  simp only [contLine, Prefix.render, List.cons_append]
  rw [hstep]
  simp only [dispatch, hsp, hline]
  simp [lookupKw, I18n.Generated.PolibFsm.keywords, startsWith]

end I18n.Lemmas.PoLines
