import I18n.Lemmas.DateScan
/- `hasBoilerplate` (model of `_search_for_date_boilerplate`) ↔ the declarative `HasBoilerplate`; `strip` ↔ `Stripped`. -/
set_option linter.unusedSimpArgs false
namespace I18n.Date
open I18n.Spec.Date I18n.Generated

theorem isSome_stripPre {p s : List Char} : (stripPre p s).isSome = true ↔ ∃ r, s = p ++ r := by
  rw [Option.isSome_iff_exists]
  exact ⟨fun ⟨r, h⟩ => ⟨r, stripPre_some.mp h⟩, fun ⟨r, h⟩ => ⟨r, stripPre_some.mpr h⟩⟩

def BoilerHere (s : List Char) : Prop :=
  (∃ r, s = ['-','M','O','-'] ++ r)
  ∨ (∃ c r, s = ['-','D','A'] ++ c :: r ∧ White c)
  ∨ (∃ c r, s = c :: ['H','O',':'] ++ r ∧ White c)
  ∨ (s = [':','M','I'])
  ∨ (∃ r, s = [':','M','I','+'] ++ r)
  ∨ (s = ['+','Z','O','N','E'])

theorem alt2 (s : List Char) :
    altDA s = true ↔ ∃ c r, s = ['-','D','A'] ++ c :: r ∧ White c := by
  unfold altDA
  cases h : stripPre ['-','D','A'] s with
  | none =>
    simp only [Bool.false_eq_true, false_iff]
    rintro ⟨c, r, e, _⟩
    exact stripPre_none.mp h _ e
  | some r =>
    have e := stripPre_some.mp h
    cases r with
    | nil =>
      simp only [Bool.false_eq_true, false_iff]
      rintro ⟨c, r, e', _⟩
      rw [e] at e'; simp at e'
    | cons c r =>
      simp only [isSpace_iff]
      constructor
      · intro hw; exact ⟨c, r, e, hw⟩
      · rintro ⟨c', r', e', hw⟩
        rw [e] at e'; simp at e'; rw [e'.1]; exact hw

theorem alt3 (s : List Char) :
    altHO s = true ↔ ∃ c r, s = c :: ['H','O',':'] ++ r ∧ White c := by
  unfold altHO
  cases s with
  | nil => simp
  | cons c s =>
    simp only [Bool.and_eq_true, isSpace_iff, isSome_stripPre]
    constructor
    · rintro ⟨hw, r, e⟩; exact ⟨c, r, by rw [e]; rfl, hw⟩
    · rintro ⟨c', r, e, hw⟩
      simp only [List.cons_append, List.cons.injEq] at e
      obtain ⟨rfl, e⟩ := e
      exact ⟨hw, r, by rw [e]; rfl⟩

theorem alt4 (s : List Char) :
    altMI s = true ↔ (s = [':','M','I']) ∨ (∃ r, s = [':','M','I','+'] ++ r) := by
  unfold altMI
  cases h : stripPre [':','M','I'] s with
  | none =>
    simp only [Bool.false_eq_true, false_iff]
    rintro (e | ⟨r, e⟩)
    · exact stripPre_none.mp h [] (by simpa using e)
    · exact stripPre_none.mp h ('+' :: r) (by simpa using e)
  | some r =>
    have e := stripPre_some.mp h
    cases r with
    | nil => simp [e]
    | cons c r =>
      simp only [decide_eq_true_eq]
      constructor
      · rintro rfl; exact Or.inr ⟨r, by simpa using e⟩
      · rintro (e' | ⟨r', e'⟩)
        · rw [e] at e'; simp at e'
        · rw [e] at e'; simp at e'; exact e'.1

theorem alt5 (s : List Char) :
    altZONE s = true ↔ s = ['+','Z','O','N','E'] := by
  unfold altZONE
  cases h : stripPre ['+','Z','O','N','E'] s with
  | none =>
    simp only [Bool.false_eq_true, false_iff]
    intro e
    exact stripPre_none.mp h [] (by simpa using e)
  | some r =>
    have e := stripPre_some.mp h
    cases r with
    | nil => simp [e]
    | cons c r => simp [e]

theorem boilerAt_iff (s : List Char) : boilerAt s = true ↔ BoilerHere s := by
  unfold boilerAt BoilerHere
  simp only [Bool.or_eq_true, isSome_stripPre, alt2, alt3, alt4, alt5, or_assoc]

theorem boilerAny_iff (s : List Char) : boilerAny s = true ↔ ∃ l r, s = l ++ r ∧ BoilerHere r := by
  induction s with
  | nil =>
    simp only [boilerAny, Bool.false_eq_true, false_iff]
    rintro ⟨l, r, e, hb⟩
    have : r = [] := by
      have := congrArg List.length e; simp at this; exact List.eq_nil_of_length_eq_zero (by omega)
    subst this
    rcases hb with ⟨r, h⟩ | ⟨c, r, h, _⟩ | ⟨c, r, h, _⟩ | h | ⟨r, h⟩ | h <;> simp at h
  | cons c s ih =>
    simp only [boilerAny, Bool.or_eq_true, boilerAt_iff, ih]
    constructor
    · rintro (h | ⟨l, r, e, h⟩)
      · exact ⟨[], c :: s, rfl, h⟩
      · exact ⟨c :: l, r, by rw [e]; rfl, h⟩
    · rintro ⟨l, r, e, h⟩
      cases l with
      | nil => left; rw [List.nil_append] at e; rw [e]; exact h
      | cons x l =>
        right
        simp only [List.cons_append, List.cons.injEq] at e
        exact ⟨l, r, e.2, h⟩

theorem hasBoilerplate_iff (s : List Char) : hasBoilerplate s = true ↔ HasBoilerplate s := by
  unfold hasBoilerplate HasBoilerplate
  simp only [Bool.or_eq_true, isSome_stripPre, boilerAny_iff, BoilerHere]
  constructor
  · rintro (h | ⟨l, r, e, hb⟩)
    · exact Or.inl h
    · subst e
      rcases hb with ⟨r', h⟩ | ⟨c, r', h, hw⟩ | ⟨c, r', h, hw⟩ | h | ⟨r', h⟩ | h
      · exact Or.inr (Or.inl ⟨l, r', by rw [h]; simp⟩)
      · exact Or.inr (Or.inr (Or.inl ⟨l, c, r', by rw [h]; simp, hw⟩))
      · exact Or.inr (Or.inr (Or.inr (Or.inl ⟨l, c, r', by rw [h]; simp, hw⟩)))
      · exact Or.inr (Or.inr (Or.inr (Or.inr (Or.inl ⟨l, by rw [h]⟩))))
      · exact Or.inr (Or.inr (Or.inr (Or.inr (Or.inr (Or.inl ⟨l, r', by rw [h]; simp⟩)))))
      · exact Or.inr (Or.inr (Or.inr (Or.inr (Or.inr (Or.inr ⟨l, by rw [h]⟩)))))
  · rintro (h | ⟨l, r, h⟩ | ⟨l, c, r, h, hw⟩ | ⟨l, c, r, h, hw⟩ | ⟨l, h⟩ | ⟨l, r, h⟩ | ⟨l, h⟩)
    · exact Or.inl h
    · exact Or.inr ⟨l, _, by rw [h]; simp, Or.inl ⟨r, rfl⟩⟩
    · exact Or.inr ⟨l, _, by rw [h]; simp, Or.inr (Or.inl ⟨c, r, rfl, hw⟩)⟩
    · exact Or.inr ⟨l, _, by rw [h]; simp, Or.inr (Or.inr (Or.inl ⟨c, r, rfl, hw⟩))⟩
    · exact Or.inr ⟨l, _, h, Or.inr (Or.inr (Or.inr (Or.inl rfl)))⟩
    · exact Or.inr ⟨l, _, by rw [h]; simp, Or.inr (Or.inr (Or.inr (Or.inr (Or.inl ⟨r, rfl⟩))))⟩
    · exact Or.inr ⟨l, _, h, Or.inr (Or.inr (Or.inr (Or.inr (Or.inr rfl))))⟩

/-! ### `strip` -/

theorem strip_spec (s : List Char) : Stripped s (strip s) := by
  obtain ⟨l, e1, hl, hh⟩ := dropWhile_sound s
  obtain ⟨l', e2, hl', hh'⟩ := dropWhile_sound (s.dropWhile isSpace).reverse
  have e3 : s.dropWhile isSpace = strip s ++ l'.reverse := by
    have := congrArg List.reverse e2
    simpa [strip] using this
  refine ⟨l, l'.reverse, ?_, hl, ?_, ?_, ?_⟩
  · rw [List.append_assoc, ← e3]; exact e1
  · intro c hc; exact hl' c (List.mem_reverse.mp hc)
  · intro c hc
    apply hh c
    rw [e3]
    cases hs : strip s with
    | nil => rw [hs] at hc; cases hc
    | cons x xs => rw [hs] at hc; simpa using hc
  · intro c hc
    apply hh' c
    unfold strip at hc
    rwa [List.getLast?_reverse] at hc

theorem strip_id {t : List Char} (h1 : ∀ c, t.head? = some c → ¬ White c) (h2 : ∀ c, t.getLast? = some c → ¬ White c) :
    strip t = t := by
  unfold strip
  have e1 : t.dropWhile isSpace = t := by
    have := dropWhile_append (l := []) (r := t) (by simp) h1
    simpa using this
  rw [e1]
  have e2 : t.reverse.dropWhile isSpace = t.reverse := by
    have := dropWhile_append (l := []) (r := t.reverse) (by simp) (by rw [List.head?_reverse]; exact h2)
    simpa using this
  rw [e2, List.reverse_reverse]

theorem dropWhile_all_white {l : List Char} (h : ∀ c ∈ l, White c) : l.dropWhile isSpace = [] := by
  have := dropWhile_append (l := l) (r := []) h (by simp)
  simpa using this

/-- `Stripped` determines its result: it is `strip s` -/
theorem stripped_unique {s t : List Char} (h : Stripped s t) : t = strip s := by
  obtain ⟨l, r, rfl, hl, hr, hh, hlast⟩ := h
  unfold strip
  cases t with
  | nil =>
    have : ∀ c ∈ l ++ [] ++ r, White c := by
      intro c hc
      simp only [List.append_nil, List.mem_append] at hc
      rcases hc with hc | hc
      · exact hl c hc
      · exact hr c hc
    rw [dropWhile_all_white this]; rfl
  | cons a t =>
    have e1 : (l ++ (a :: t) ++ r).dropWhile isSpace = (a :: t) ++ r := by
      rw [List.append_assoc]
      exact dropWhile_append hl (by intro c hc; simp at hc; subst hc; exact hh a rfl)
    rw [e1, List.reverse_append]
    have e2 : (r.reverse ++ (a :: t).reverse).dropWhile isSpace = (a :: t).reverse := by
      apply dropWhile_append
      · intro c hc; exact hr c (List.mem_reverse.mp hc)
      · intro c hc
        rw [List.head?_reverse] at hc
        exact hlast c hc
    rw [e2, List.reverse_reverse]

end I18n.Date
