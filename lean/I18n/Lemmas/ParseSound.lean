import I18n.Spec.CGrammar
/-! Soundness of the recursive-descent model: whatever it accepts is derived by the stratified C
    grammar, with the AST it returns. -/
namespace I18n.PluralParse
open I18n I18n.Spec

theorem binInfo_level {t : Tok} {k : Nat} {mk} (h : binInfo t = some (k, mk)) : 1 ≤ k ∧ k ≤ 6 := by
  cases t <;> simp only [binInfo] at h
  case bool op => cases op <;> simp only [Option.some.injEq, Prod.mk.injEq] at h <;> omega
  case cmp op => cases op <;> simp only [Option.some.injEq, Prod.mk.injEq] at h <;> omega
  case bin op => cases op <;> simp only [Option.some.injEq, Prod.mk.injEq] at h <;> omega
  all_goals cases h

def SoundAt (f : Nat) : Prop :=
  (∀ ts e r, parseCond f ts = some (e, r) → ∃ pre, ts = pre ++ r ∧ D 0 pre e) ∧
  (∀ k ts e r, 1 ≤ k → parseLevel f k ts = some (e, r) → ∃ pre, ts = pre ++ r ∧ D (min k 7) pre e) ∧
  (∀ k a lts ts e r, 1 ≤ k → k ≤ 6 → D k lts a → parseLoop f k a ts = some (e, r) →
      ∃ pre, ts = pre ++ r ∧ D k (lts ++ pre) e) ∧
  (∀ ts e r, parseUnary f ts = some (e, r) → ∃ pre, ts = pre ++ r ∧ D 7 pre e)

theorem sound_all : ∀ f, SoundAt f := by
  intro f
  induction f with
  | zero =>
    refine ⟨?_, ?_, ?_, ?_⟩ <;> intros <;> simp_all [parseCond, parseLevel, parseLoop, parseUnary]
  | succ f ih =>
    obtain ⟨ihC, ihL, ihP, ihU⟩ := ih
    refine ⟨?_, ?_, ?_, ?_⟩
    · -- parseCond
      intro ts e r h
      simp only [parseCond] at h
      split at h
      · cases h
      · rename_i c r1 hc
        obtain ⟨p1, rfl, d1⟩ := ihL 1 ts c _ (Nat.le_refl 1) hc
        split at h
        · rename_i a r3 ha
          obtain ⟨p2, rfl, d2⟩ := ihC _ _ _ ha
          split at h
          · rename_i b r4 hb
            obtain ⟨p3, rfl, d3⟩ := ihC _ _ _ hb
            cases h
            refine ⟨p1 ++ .qm :: (p2 ++ .colon :: p3), by simp, ?_⟩
            exact D.cond d1 d2 d3
          · cases h
        · cases h
      · rename_i c r1 hne hc
        cases h
        obtain ⟨p1, rfl, d1⟩ := ihL 1 ts _ _ (Nat.le_refl 1) hc
        exact ⟨p1, rfl, D.up0 d1⟩
    · -- parseLevel
      intro k ts e r hk h
      simp only [parseLevel] at h
      split at h
      · rename_i hk7
        obtain ⟨p, rfl, d⟩ := ihU _ _ _ h
        refine ⟨p, rfl, ?_⟩
        have : min k 7 = 7 := by omega
        rw [this]; exact d
      · rename_i hk7
        split at h
        · cases h
        · rename_i a r1 ha
          obtain ⟨p1, rfl, d1⟩ := ihL (k + 1) ts a r1 (by omega) ha
          have hk6 : k ≤ 6 := by omega
          have hmin : min (k + 1) 7 = k + 1 := by omega
          rw [hmin] at d1
          have d1' : D k p1 a := D.up hk hk6 d1
          obtain ⟨p2, rfl, d2⟩ := ihP k a p1 r1 e r hk hk6 d1' h
          refine ⟨p1 ++ p2, by simp, ?_⟩
          have : min k 7 = k := by omega
          rw [this]; exact d2
    · -- parseLoop
      intro k a lts ts e r hk hk6 da h
      simp only [parseLoop] at h
      split at h
      · cases h; exact ⟨[], rfl, by simpa using da⟩
      · rename_i t r0
        split at h
        · rename_i k' mk hbi
          split at h
          · rename_i hkk
            subst hkk
            split at h
            · cases h
            · rename_i b r2 hb
              obtain ⟨p1, rfl, d1⟩ := ihL (k' + 1) r0 b r2 (by omega) hb
              have hmin : min (k' + 1) 7 = k' + 1 := by omega
              rw [hmin] at d1
              have dn : D k' (lts ++ t :: p1) (mk a b) := D.bin t mk hk hk6 hbi da d1
              obtain ⟨p2, rfl, d2⟩ := ihP k' (mk a b) (lts ++ t :: p1) r2 e r hk hk6 dn h
              exact ⟨t :: (p1 ++ p2), by simp, by simpa using d2⟩
          · cases h; exact ⟨[], rfl, by simpa using da⟩
        · cases h; exact ⟨[], rfl, by simpa using da⟩
    · -- parseUnary
      intro ts e r h
      simp only [parseUnary] at h
      split at h
      · rename_i r0
        split at h
        · rename_i e0 r2 he
          cases h
          obtain ⟨p, rfl, d⟩ := ihU _ _ _ he
          exact ⟨.not :: p, rfl, D.not d⟩
        · cases h
      · cases h; exact ⟨[.var], rfl, D.var⟩
      · cases h; exact ⟨[.int _], rfl, D.int _⟩
      · rename_i r0
        split at h
        · rename_i e0 r3 he
          cases h
          obtain ⟨p, rfl, d⟩ := ihC _ _ _ he
          exact ⟨.lpar :: (p ++ [.rpar]), by simp, D.paren d⟩
        · cases h
      · cases h

/-- **Soundness.**  If the model accepts a token list, the C grammar derives exactly the returned AST. -/
theorem parseToks_sound {ts : List Tok} {e : Expr} (h : parseToks ts = some e) : D 0 ts e := by
  unfold parseToks at h
  split at h
  · rename_i e' hp
    cases h
    obtain ⟨pre, hpre, d⟩ := (sound_all _).1 _ _ _ hp
    simp at hpre
    subst hpre
    exact d
  · cases h

end I18n.PluralParse
