import I18n.Lemmas.CharsetCodec
import I18n.Lemmas.CharsetCodecRev
import I18n.Lemmas.CharsetCheck
/-!
# C20: side conditions of the charmap theorems on the generated tables, and the tables against the system iconv
-/
namespace I18n.Charset.Tables
open I18n.Charset I18n.Generated.Charset
open I18n.Spec.Charset (InjectiveOnDefined asciiRepertoire)

set_option maxRecDepth 100000

/-- the three charmap files the tool ships -/
theorem charmap_files : charmaps.map (·.1) =
    ["GEORGIAN-PS".toList.map Char.toNat, "KOI8-RU".toList.map Char.toNat, "VISCII".toList.map Char.toNat] := by decide +kernel

/-- a table is complete: 256 entries, none undefined -/
def complete (t : List Nat) : Bool := t.length == 256 && t.all (· != undefinedCp)

theorem charmaps_complete : (charmaps.all fun kv => complete kv.2) = true := by decide +kernel
theorem charmaps_injective : (charmaps.all fun kv => injBool kv.2) = true := by decide +kernel
/-- the tables decode the tool's ASCII repertoire to itself -/
theorem charmaps_ascii : (charmaps.all fun kv => asciiRepertoire.all fun b => kv.2[b]? == some b) = true := by decide +kernel
/-- the trie form of `charmap_build` applies (entry 0 is NUL, the rest non-zero BMP) -/
theorem charmaps_trie : (charmaps.all fun kv => !needDict kv.2) = true := by decide +kernel

/-- **the shipped tables are the system iconv's**: byte for byte the same code points -/
theorem charmaps_agree_iconv :
    (charmaps.all fun kv => (iconvTables.find? (·.1 == kv.1)).map (·.2) == some (kv.2.map some)) = true := by decide +kernel

/-- glibc's KOI8-T table (the codec the tool reaches through iconv), with U+FFFE for the bytes iconv rejects -/
def koi8tTable : List Nat := iconv_KOI8_T.map fun o => o.getD undefinedCp

theorem koi8t_injective : injBool koi8tTable = true := by decide +kernel
theorem koi8t_length : koi8tTable.length = 256 := by decide +kernel

/-- `charmap_build` takes its trie form for glibc's KOI8-T table too (so U+FFFE, the marker of its undefined bytes, never encodes) -/
theorem koi8t_trie : needDict koi8tTable = false := by decide +kernel

theorem trie_of_mem (kv : List Nat × List Nat) (h : kv ∈ charmaps) : needDict kv.2 = false := by
  have := charmaps_trie
  rw [List.all_eq_true] at this
  simpa using this kv h

theorem injective_of_mem (kv : List Nat × List Nat) (h : kv ∈ charmaps) : InjectiveOnDefined kv.2 := by
  have := charmaps_injective
  rw [List.all_eq_true] at this
  exact injBool_sound _ (this kv h)

/-! ## `_pycodec_to_encoding` against the registry -/

def rowOf' (n : Name) : Option Row := codecFacts.find? (·.name == n)

/-- every value of `_pycodec_to_encoding` is portable (so the `assert` never fires) -/
theorem c2e_portable : (pycodecToEncoding.all fun kv => isPortable portableEncodings true kv.2) = true := by decide +kernel

/-- every value of `_pycodec_to_encoding`, upper-cased as proposals are, is a name the registry resolves to the key -/
theorem c2e_closed :
    (pycodecToEncoding.all fun kv => (rowOf' (upper kv.2)).map (·.codec) == some (some kv.1)) = true := by decide +kernel

end I18n.Charset.Tables
