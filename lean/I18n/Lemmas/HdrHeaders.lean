import I18n.Lemmas.HdrEntry
import I18n.Lemmas.HdrLines
/-
C15 lemmas, part 8: `check_headers` as a whole — the metadata it leaves is the dictionary of the field lines of `H`, and its
tags are those of the entry, stray-line and field-name rules.
-/
set_option linter.unusedSimpArgs false
namespace I18n.Hdr
open I18n.Spec.HeaderRules I18n.Date I18n.Generated

theorem hdrsFrom_zero (es : List Entry) : hdrsFrom 0 es = headerEntries es := rfl

theorem checkHeaders_spec (x : Ext) (f : File) (h : HeadersOut)
    (hc : checkHeaders x f.kind.isTemplate f.entries = some h) :
    h.metadata = buildMeta (headerLinesOf f.entries) [] ∧
    ∀ t, t ∈ h.tags ↔ (EntryRule x f t ∨ StrayRule (headerLinesOf f.entries) t ∨ NameRule x (fieldLines (headerLinesOf f.entries)) t) := by
  unfold checkHeaders at hc
  have hloop := entryLoop_fresh x f.kind.isTemplate 0 f.entries ⟨[], [], false, false⟩ rfl
  rw [hdrsFrom_zero] at hloop
  cases hh : headerEntries f.entries with
  | nil =>
    rw [hh] at hloop
    simp only [] at hloop
    rw [hloop] at hc
    simp only [Bool.false_eq_true, if_false, Option.some.injEq] at hc
    subst hc
    have hl : headerLinesOf f.entries = [] := by
      unfold headerLinesOf headerEntry; rw [hh]; rfl
    rw [hl]
    refine ⟨rfl, fun t => ?_⟩
    have hno : ¬ EntryRule x f t := by
      unfold EntryRule headerEntry
      rw [hh]; simp
    simp only [buildMeta, strayLines, strayTags, List.map_nil, List.append_nil, List.nil_append]
    have : sortedSet ([] : List Str) = [] := rfl
    rw [this]
    simp only [List.flatMap_nil, List.not_mem_nil, false_iff]
    rintro (h1 | h1 | h1)
    · exact hno h1
    · unfold StrayRule strays at h1; simp at h1
    · unfold NameRule fieldLines at h1; simp at h1
  | cons p rest =>
    obtain ⟨e, i⟩ := p
    rw [hh] at hloop
    simp only [] at hloop
    cases het : entryTags x f.kind.isTemplate i e with
    | none =>
      rw [het] at hloop
      rw [hloop] at hc
      simp at hc
    | some ts =>
      rw [het] at hloop
      simp only [List.nil_append] at hloop
      rw [hloop] at hc
      simp only [Bool.false_eq_true, if_false, Option.some.injEq] at hc
      subst hc
      have hl : headerLinesOf f.entries = parseHeader e.headerText := by
        unfold headerLinesOf headerEntry; rw [hh, headerText_eq]; rfl
      rw [hl]
      refine ⟨rfl, fun t => ?_⟩
      simp only [List.mem_append]
      rw [mem_strayTags_rule, mem_nameTags, mem_entryTags x f.kind.isTemplate i e ts het]
      have hE : EntryRule x f t ↔
          ((rest ≠ [] ∧ t = t0 "duplicate-header-entry") ∨
            ( (i ≠ 0 ∧ t = t0 "distant-header-entry")
            ∨ (e.occurrences ≠ [] ∧
                t = ⟨"empty-msgid-message-with-source-code-references", e.occurrences.map fun o => .str (o.1 ++ ':' :: o.2)⟩)
            ∨ (e.msgidPlural ≠ none ∧ t = t0 "empty-msgid-message-with-plural-forms")
            ∨ ("fuzzy".toList ∈ e.flags ∧ f.kind.isTemplate = false ∧ t = t0 "fuzzy-header-entry")
            ∨ (∃ fl ∈ e.flags, fl ≠ "fuzzy".toList ∧
                t = ⟨"unexpected-flag-for-header-entry",
                     if x.closeFuzzy fl then [.str fl, .str "=>".toList, .str "fuzzy".toList] else [.str fl]⟩)
            ∨ (∃ fl, 1 < count fl e.flags ∧ t = ⟨"duplicate-flag-for-header-entry", [.str fl]⟩)
            ∨ (∃ text, sortedChars (unusualChars x.db (entryText e)) ≠ [] ∧
                unusualText (sortedChars (unusualChars x.db (entryText e))) = some text ∧
                t = ⟨"unusual-character-in-header-entry", [.safe text]⟩))) := by
        unfold EntryRule headerEntry
        rw [hh]
        have h2 : 2 ≤ ((e, i) :: rest).length ↔ rest ≠ [] := by
          cases rest <;> simp
        simp only [h2, List.head?_cons, Option.some.injEq, Prod.mk.injEq]
        constructor
        · rintro (h | ⟨e', i', ⟨rfl, rfl⟩, h⟩)
          · exact Or.inl h
          · exact Or.inr h
        · rintro (h | h)
          · exact Or.inl h
          · exact Or.inr ⟨e, i, ⟨rfl, rfl⟩, h⟩
      rw [hE]
      constructor
      · rintro (((h | h) | h) | h)
        · exact Or.inl (Or.inr h)
        · left; left
          split at h
          · simp at h
          · rename_i hr; exact ⟨hr, by simpa [dupTag, tag, t0] using h⟩
        · exact Or.inr (Or.inl h)
        · exact Or.inr (Or.inr h)
      · rintro ((⟨hr, rfl⟩ | h) | h | h)
        · left; left; right; simp [hr, dupTag, tag, t0]
        · exact Or.inl (Or.inl (Or.inl h))
        · exact Or.inl (Or.inr h)
        · exact Or.inr h

end I18n.Hdr
