import I18n.Model.FmtCheck
import I18n.Spec.FmtCompare
/-!
# Lemmas about the C comparator (`checkArgsC`, `getLastIntConv`)
-/
namespace I18n.FmtCheck
open I18n I18n.FmtSig I18n.Spec.Printf I18n.Spec.FmtCompare

/-- every argument has at least one use (what the parser builds) -/
def SlotsOk (args : List (List CEntry)) : Prop := ∀ u ∈ args, u ≠ []

/-- the type-mismatch tag for source type `a`, translation type `b` -/
def cTypeTag (pfx : Extra) (srcLoc dstLoc : List Char) (p : String × String) : TagCall :=
  tagTypeMismatch "c-format-string-argument-type-mismatch" pfx p.2.toList dstLoc p.1.toList srcLoc

theorem cTypeTags_ok (pfx : Extra) (srcLoc dstLoc : List Char) :
    ∀ (src dst : List (List CEntry)), SlotsOk src → SlotsOk dst →
      cTypeTags pfx srcLoc dstLoc src dst = .ok ((typeDiffs (typesOf src) (typesOf dst)).map (cTypeTag pfx srcLoc dstLoc)) := by
  intro src
  induction src with
  | nil => intro dst _ _; simp [cTypeTags, typesOf, typeDiffs]
  | cons s ss ih =>
    intro dst hs hd
    cases dst with
    | nil => cases s <;> simp [cTypeTags, typesOf, typeDiffs]
    | cons d ds =>
      have hs0 : s ≠ [] := hs s (by simp)
      have hd0 : d ≠ [] := hd d (by simp)
      have hss : SlotsOk ss := fun u hu => hs u (by simp [hu])
      have hds : SlotsOk ds := fun u hu => hd u (by simp [hu])
      cases s with
      | nil => exact absurd rfl hs0
      | cons s0 srest =>
        cases d with
        | nil => exact absurd rfl hd0
        | cons d0 drest =>
          have := ih ds hss hds
          simp only [cTypeTags, this, typesOf, List.map_cons, typeDiffs]
          simp only [typesOf] at this
          by_cases h : s0.type = d0.type
          · simp [h]
          · simp [h, cTypeTag]

/-- the length of `typesOf` is the number of arguments -/
theorem typesOf_length (args : List (List CEntry)) : (typesOf args).length = args.length := by
  simp [typesOf]

/-! ## `get_last_integer_conversion` -/

/-- **the scan in closed form**, once `vconv` is known to be `x`: it succeeds iff every use examined belongs to `x`,
    and then `conv` is `x` iff it was already, or one of the uses is the conversion itself -/
theorem lastIntScan_eval (x : Nat) : ∀ (es : List CEntry) (c : Option Nat), (c = none ∨ c = some x) →
    lastIntScan es (some x) c =
      if es.all (fun e => e.parent == x) then
        some (some x, if c.isSome || es.any (fun e => e.kind == .conv) then some x else none)
      else none := by
  intro es
  induction es with
  | nil => intro c hc; rcases hc with rfl | rfl <;> simp [lastIntScan]
  | cons e es ih =>
    intro c hc
    simp only [lastIntScan, Option.getD_some, List.all_cons, List.any_cons]
    by_cases hp : e.parent = x
    · subst hp
      by_cases hk : e.kind = .conv
      · have hc' : (if c.isNone && (e.parent == e.parent) then some e.parent else c) = some e.parent := by
          rcases hc with rfl | rfl <;> simp
        rw [hc', ih (some e.parent) (Or.inr rfl)]
        simp [hk]
      · have hk' : (e.kind != ArgKind.conv) = true := by simpa using hk
        have hk'' : (e.kind == ArgKind.conv) = false := by simpa using hk
        rw [ih c hc]
        simp [hk', hk'']
    · have hpx : (x != e.parent) = true := by simpa using fun h' => hp h'.symm
      have hpb : (e.parent == x) = false := by simpa using hp
      by_cases hk : e.kind = .conv
      · have hxe : (x == e.parent) = false := by simpa using fun h' => hp h'.symm
        simp only [hk, bne_self_eq_false, Bool.false_eq_true, ↓reduceIte, hxe, Bool.and_false, hpb, Bool.false_and]
        rcases hc with rfl | rfl
        · simp
        · have : (some x != some e.parent) = true := by simpa using fun h' => hp h'.symm
          simp [this]
      · have hk' : (e.kind != ArgKind.conv) = true := by simpa using hk
        simp [hk', hpx, hpb]

/-- the uses of the last `n` arguments, in the order the loops visit them -/
def lastUses (f : CFmtX) (n : Nat) : List CEntry := (f.arguments.drop (f.arguments.length - n)).flatten

theorem lastIntScan_start (e : CEntry) (es : List CEntry) :
    lastIntScan (e :: es) none none = lastIntScan (e :: es) (some e.parent) none := by
  simp [lastIntScan]

/-- **`get_last_integer_conversion` in closed form.** -/
theorem getLastIntConv_eq (f : CFmtX) (n : Nat) :
    getLastIntConv f n =
      if n > f.arguments.length ∨ n = 0 then .error .IndexError
      else match lastUses f n with
        | [] => .ok none
        | e :: es =>
          if (e :: es).all (fun e' => e'.parent == e.parent) && (e :: es).any (fun e' => e'.kind == .conv)
              && f.integer.getD e.parent false
          then .ok (some e.parent) else .ok none := by
  unfold getLastIntConv
  by_cases h1 : n > f.arguments.length
  · simp [h1]
  · by_cases h2 : n = 0
    · simp [h2]
    · simp only [h1, h2, ↓reduceIte, or_self]
      show (match lastIntScan (lastUses f n) none none with
        | none => Except.ok none
        | some (_, none) => Except.ok none
        | some (_, some c) => if f.integer.getD c false = true then Except.ok (some c) else Except.ok none) = _
      cases hl : lastUses f n with
      | nil => simp [lastIntScan]
      | cons e es =>
        rw [lastIntScan_start, lastIntScan_eval e.parent (e :: es) none (Or.inl rfl)]
        by_cases ha : (e :: es).all (fun e' => e'.parent == e.parent) = true
        · by_cases hb : (e :: es).any (fun e' => e'.kind == .conv) = true
          · simp only [ha, ↓reduceIte, Option.isSome_none, hb, Bool.or_true, Bool.true_and]
          · simp only [Bool.not_eq_true] at hb
            simp [ha, hb]
        · simp only [Bool.not_eq_true] at ha
          simp [ha]

/-- inside `check_args` the count passed is between 1 and the number of arguments: no `IndexError` -/
theorem getLastIntConv_ok (f : CFmtX) (n : Nat) (h1 : 1 ≤ n) (h2 : n ≤ f.arguments.length) :
    ∃ r, getLastIntConv f n = .ok r := by
  rw [getLastIntConv_eq]
  have : ¬ (n > f.arguments.length ∨ n = 0) := by omega
  simp only [this, ↓reduceIte]
  cases lastUses f n with
  | nil => exact ⟨_, rfl⟩
  | cons e es => simp only; split <;> exact ⟨_, rfl⟩

/-- **What a returned conversion is** (`last_int_conv_spec`): `get_last_integer_conversion(n) = c` iff `1 ≤ n ≤ #arguments`,
    every use of the last `n` arguments belongs to the conversion `c` (the conversion itself, its `*` width, its `*`
    precision), the conversion's own value is among them, and `c` is an integer conversion. -/
theorem getLastIntConv_some_iff (f : CFmtX) (n c : Nat) :
    getLastIntConv f n = .ok (some c) ↔
      1 ≤ n ∧ n ≤ f.arguments.length ∧ lastUses f n ≠ [] ∧ (∀ e ∈ lastUses f n, e.parent = c) ∧
      (∃ e ∈ lastUses f n, e.kind = .conv) ∧ f.integer.getD c false = true := by
  rw [getLastIntConv_eq]
  by_cases h : n > f.arguments.length ∨ n = 0
  · simp only [h, ↓reduceIte]
    constructor
    · intro h'; cases h'
    · rintro ⟨h1, h2, _⟩; omega
  · simp only [h, ↓reduceIte]
    have hn : 1 ≤ n ∧ n ≤ f.arguments.length := by omega
    cases hl : lastUses f n with
    | nil => simp
    | cons e es =>
      simp only
      constructor
      · intro h'
        split at h'
        · rename_i hc
          simp only [Bool.and_eq_true, List.all_eq_true, beq_iff_eq, List.any_eq_true] at hc
          obtain ⟨⟨ha, e', he', hk⟩, hi⟩ := hc
          simp only [Except.ok.injEq, Option.some.injEq] at h'
          subst h'
          exact ⟨hn.1, hn.2, by simp, ha, ⟨e', he', hk⟩, hi⟩
        · simp at h'
      · rintro ⟨_, _, _, ha, ⟨e', he', hk⟩, hi⟩
        have hec : e.parent = c := ha e (by simp)
        have : ((e :: es).all (fun e' => e'.parent == e.parent) && (e :: es).any (fun e' => e'.kind == .conv)
            && f.integer.getD e.parent false) = true := by
          simp only [Bool.and_eq_true, List.all_eq_true, beq_iff_eq, List.any_eq_true]
          exact ⟨⟨fun x hx => (ha x hx).trans hec.symm, e', he', hk⟩, hec ▸ hi⟩
        rw [if_pos this, hec]

/-! ## `check_args` of the C checker in closed form -/

/-- the omission of the last `k` arguments of `src` is tolerated: the caller allows it and they are exactly what one
    integer conversion consumes -/
def cTolerated (src : CFmtX) (k : Nat) (omittedOk : Bool) : Bool :=
  omittedOk && match getLastIntConv src k with
    | .ok (some _) => true
    | _ => false

def cExcessTag (pfx : Extra) (srcLoc : List Char) (src : CFmtX) (dstLoc : List Char) (dst : CFmtX) : TagCall :=
  tagExcessOrMissing "c-format-string-excess-arguments" pfx dst.arguments.length dstLoc ">" src.arguments.length srcLoc

def cMissingTag (pfx : Extra) (srcLoc : List Char) (src : CFmtX) (dstLoc : List Char) (dst : CFmtX) : TagCall :=
  tagExcessOrMissing "c-format-string-missing-arguments" pfx dst.arguments.length dstLoc "<" src.arguments.length srcLoc

def cCountTags (pfx : Extra) (srcLoc : List Char) (src : CFmtX) (dstLoc : List Char) (dst : CFmtX) (omittedOk : Bool) : List TagCall :=
  if dst.arguments.length > src.arguments.length then [cExcessTag pfx srcLoc src dstLoc dst]
  else if dst.arguments.length < src.arguments.length then
    if cTolerated src (src.arguments.length - dst.arguments.length) omittedOk then [] else [cMissingTag pfx srcLoc src dstLoc dst]
  else []

/-- **`check_args` (C) never raises and emits exactly**: the count diagnostic, then one type diagnostic per position
    at which both strings consume an argument of different types. -/
theorem checkArgsC_eq (pfx : Extra) (srcLoc : List Char) (src : CFmtX) (dstLoc : List Char) (dst : CFmtX) (omittedOk : Bool)
    (hs : SlotsOk src.arguments) (hd : SlotsOk dst.arguments) :
    checkArgsC pfx srcLoc src dstLoc dst omittedOk =
      .ok (cCountTags pfx srcLoc src dstLoc dst omittedOk ++
        (typeDiffs (typesOf src.arguments) (typesOf dst.arguments)).map (cTypeTag pfx srcLoc dstLoc)) := by
  unfold checkArgsC
  simp only [cTypeTags_ok pfx srcLoc dstLoc _ _ hs hd]
  unfold cCountTags cTolerated cExcessTag cMissingTag
  by_cases h1 : dst.arguments.length > src.arguments.length
  · simp [h1]
  · by_cases h2 : dst.arguments.length < src.arguments.length
    · simp only [h1, ↓reduceIte, h2]
      cases omittedOk with
      | false => simp
      | true =>
        obtain ⟨r, hr⟩ := getLastIntConv_ok src (src.arguments.length - dst.arguments.length) (by omega) (by omega)
        rw [hr]
        cases r <;> simp
    · simp [h1, h2]

end I18n.FmtCheck
