import I18n.Model.Po
/-!
# What can leave the PO loader (for C01)

`polib.pofile(path[, encoding=…])` as modelled by `Po.loadWith` / `Po.load` ends in one of
* a file,
* `Err.syntax` — polib's `IOError('Syntax error in po file … (line N)…')`, which `Checker.check` reports as
  `syntax-error-in-po-file`: EVERY failure of the line loop is of this kind (the `KeyError` of the transition table, the
  `IndexError`/`ValueError`/`KeyError` of the `msgstr[N]` handlers, a failing unescape are all inside polib's `try`),
* `Err.decode` — `UnicodeDecodeError` from the one decode at the top of `Codecs.open`,
* `Err.crash` — only if the codec, for an encoding the tool classified as ASCII-compatible, raises something that is not a
  `UnicodeError` (`Dec.other`).
-/
namespace I18n.Po

def Err.isSyntax : Err → Bool
  | .syntax _ _ => true
  | _ => false

theorem process_err (env : Env) (enc : Bytes) (n : Nat) (sym : Generated.PolibFsm.Sym) (tok : Text) (s : PState) (e : Err)
    (h : process env enc n sym tok s = .error e) : e.isSyntax = true := by
  unfold process at h
  split at h
  · cases h; rfl
  · split at h
    · cases h; rfl
    · split at h
      · split at h <;> cases h
      · cases h

theorem dispatch_err (env : Env) (enc : Bytes) (n : Nat) (line t0 : Text) (trest : List Text) (s : PState) (e : Err)
    (h : dispatch env enc n line t0 trest s = .error e) : e.isSyntax = true := by
  unfold dispatch at h
  simp only at h
  repeat' split at h
  all_goals first
    | (cases h; rfl)
    | (cases h; done)
    | exact process_err _ _ _ _ _ _ _ h

theorem stepLine_err (env : Env) (enc : Bytes) (n : Nat) (raw : Text) (s : PState) (e : Err)
    (h : stepLine env enc n raw s = .error e) : e.isSyntax = true := by
  unfold stepLine at h
  simp only at h
  repeat' split at h
  all_goals first
    | (cases h; done)
    | exact dispatch_err _ _ _ _ _ _ _ _ h

theorem parseLoop_err (env : Env) (enc : Bytes) : ∀ (ls : List Text) (n : Nat) (s : PState) (e : Err),
    parseLoop env enc n ls s = .error e → e.isSyntax = true := by
  intro ls
  induction ls with
  | nil => intro n s e h; simp [parseLoop] at h
  | cons l ls ih =>
    intro n s e h
    simp only [parseLoop] at h
    split at h
    · rename_i e' he
      cases h
      exact stepLine_err _ _ _ _ _ _ he
    · exact ih _ _ _ h

theorem parseLines_err (env : Env) (enc : Bytes) (ls : List Text) (e : Err) (h : parseLines env enc ls = .error e) :
    e.isSyntax = true := by
  unfold parseLines at h
  split at h
  · rename_i e' he; cases h; exact parseLoop_err _ _ _ _ _ _ he
  · cases h

/-- **the closed outcome set of `polib.pofile(path, encoding=enc)`** -/
theorem loadWith_err (env : Env) (enc file : Bytes) (e : Err) (h : loadWith env enc file = .error e) :
    e.isSyntax = true ∨ e = .decode ∨ (e = .crash ∧ env.asciiCompatible enc = true ∧ env.decode enc file = .other) := by
  unfold loadWith at h
  split at h
  · rename_i e' he
    cases h
    unfold decodeFile at he
    split at he
    · rename_i hc
      split at he
      · cases he
      · cases he; exact .inr (.inl rfl)
      · rename_i ho; cases he; exact .inr (.inr ⟨rfl, hc, ho⟩)
    · split at he
      · cases he
      · cases he; exact .inr (.inl rfl)
  · exact .inl (parseLines_err _ _ _ _ h)

/-- the codec contract the tool relies on: decoding with an encoding `is_ascii_compatible_encoding` accepted gives text or a
    `UnicodeError` (`lib.encodings.decode` turns the bare ones of idna/punycode into `UnicodeDecodeError`, fix ded8ac2), and
    ISO-8859-1 — the encoding of the retry — is ASCII-compatible and decodes every byte string -/
structure CodecsBehave (env : Env) : Prop where
  unicode_errors_only : ∀ enc bs, env.asciiCompatible enc = true → env.decode enc bs ≠ .other
  latin1_compatible : env.asciiCompatible latin1Name = true
  latin1_total : ∀ bs, ∃ t, env.decode latin1Name bs = .text t

/-- first call: a syntax error or a decode error, nothing else -/
theorem load_closed (env : Env) (hc : CodecsBehave env) (file : Bytes) (e : Err) (h : load env file = .error e) :
    e.isSyntax = true ∨ e = .decode := by
  rcases loadWith_err env _ file e h with h1 | h1 | ⟨_, h2, h3⟩
  · exact .inl h1
  · exact .inr h1
  · exact absurd h3 (hc.unicode_errors_only _ _ h2)

/-- the ISO-8859-1 retry: a syntax error, nothing else -/
theorem retry_closed (env : Env) (hc : CodecsBehave env) (file : Bytes) (e : Err) (h : loadWith env latin1Name file = .error e) :
    e.isSyntax = true := by
  rcases loadWith_err env _ file e h with h1 | h1 | ⟨_, h2, h3⟩
  · exact h1
  · subst h1
    exfalso
    unfold loadWith decodeFile at h
    simp only [hc.latin1_compatible, if_true] at h
    obtain ⟨t, ht⟩ := hc.latin1_total file
    rw [ht] at h
    simp only at h
    exact absurd (parseLines_err _ _ _ _ h) (by simp [Err.isSyntax])
  · exact absurd h3 (hc.unicode_errors_only _ _ h2)

end I18n.Po
