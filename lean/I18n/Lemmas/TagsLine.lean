import I18n.Lemmas.Tags
import I18n.Model.TagsLive
/-
Lemmas behind Props/C02: shape of the formatted line, line counting, `str.format` keeps clean text clean,
range-table facts.
-/
namespace I18n.Tags
open I18n.Spec.Tags

/-! ### `str.join` -/

theorem joinStr_eq (sep : Str) (xs : List Str) : joinStr sep xs = (xs.intersperse sep).flatten := by
  induction xs with
  | nil => rfl
  | cons x rest ih =>
    cases rest with
    | nil => simp [joinStr]
    | cons y rest => simp [joinStr, ih, List.intersperse]

/-- a character predicate holds throughout a joined string if it holds in the separator and the pieces -/
theorem joinStr_forall (P : Nat → Prop) (sep : Str) (xs : List Str) (hsep : ∀ c ∈ sep, P c)
    (hxs : ∀ x ∈ xs, ∀ c ∈ x, P c) : ∀ c ∈ joinStr sep xs, P c := by
  induction xs with
  | nil => simp [joinStr]
  | cons x rest ih =>
    cases rest with
    | nil => simpa [joinStr] using hxs x (by simp)
    | cons y rest =>
      intro c hc
      simp only [joinStr, List.mem_append] at hc
      rcases hc with (hc | hc) | hc
      · exact hxs x (by simp) c hc
      · exact hsep c hc
      · exact ih (fun z hz => hxs z (by simp [hz])) c hc

/-! ### `Tag.format` -/

theorem format_plain (db : UnicodeDB) (t : Tag) (p : Str) (xs : List Extra) :
    format db t p xs none = lineOf t.priority.code p t.name (xs.map (escape db)) := by
  cases xs with
  | nil => simp [format, lineOf]
  | cons x rest =>
    simp [format, lineOf, joinStr_eq, lit]

/-- every character of the formatted line satisfies `P` if the fixed punctuation, the letter, the path, the name,
    the colour strings and every escaped extra do -/
theorem format_forall (P : Nat → Prop) (db : UnicodeDB) (t : Tag) (p : Str) (xs : List Extra) (col : Option (Str × Str))
    (hpunct : P 58 ∧ P 32) (hletter : P t.priority.code) (hp : ∀ c ∈ p, P c) (hn : ∀ c ∈ t.name, P c)
    (hcol : ∀ on off, col = some (on, off) → (∀ c ∈ on, P c) ∧ (∀ c ∈ off, P c))
    (hxs : ∀ x ∈ xs, ∀ c ∈ escape db x, P c) : ∀ c ∈ format db t p xs col, P c := by
  have hcs : ∀ c ∈ lit ": ", P c := by
    intro c hc
    have : c = 58 ∨ c = 32 := by simpa [lit] using hc
    rcases this with rfl | rfl
    · exact hpunct.1
    · exact hpunct.2
  have hsp : ∀ c ∈ lit " ", P c := by
    intro c hc
    have : c = 32 := by simpa [lit] using hc
    subst this; exact hpunct.2
  have hj := joinStr_forall P (lit " ") (xs.map (escape db)) hsp (by
    intro x hx
    obtain ⟨y, hy, rfl⟩ := List.mem_map.mp hx
    exact hxs y hy)
  intro c hc
  cases col with
  | none =>
    simp only [format] at hc
    split at hc
    · simp only [List.mem_append, List.mem_singleton, List.append_nil] at hc
      rcases hc with (((rfl | hc) | hc) | hc) | hc
      · exact hletter
      · exact hcs c hc
      · exact hp c hc
      · exact hcs c hc
      · exact hn c hc
    · simp only [List.mem_append, List.mem_singleton, List.append_nil] at hc
      rcases hc with (((((rfl | hc) | hc) | hc) | hc) | hc) | hc
      · exact hletter
      · exact hcs c hc
      · exact hp c hc
      · exact hcs c hc
      · exact hn c hc
      · exact hsp c hc
      · exact hj c hc
  | some oo =>
    obtain ⟨on, off⟩ := oo
    obtain ⟨hon, hoff⟩ := hcol on off rfl
    simp only [format] at hc
    split at hc
    · simp only [List.mem_append, List.mem_singleton] at hc
      rcases hc with (((((rfl | hc) | hc) | hc) | hc) | hc) | hc
      · exact hletter
      · exact hcs c hc
      · exact hp c hc
      · exact hcs c hc
      · exact hon c hc
      · exact hn c hc
      · exact hoff c hc
    · simp only [List.mem_append, List.mem_singleton] at hc
      rcases hc with (((((((rfl | hc) | hc) | hc) | hc) | hc) | hc) | hc) | hc
      · exact hletter
      · exact hcs c hc
      · exact hp c hc
      · exact hcs c hc
      · exact hon c hc
      · exact hn c hc
      · exact hoff c hc
      · exact hsp c hc
      · exact hj c hc

theorem letter_code_cases (l : Letter) : l.code = 80 ∨ l.code = 73 ∨ l.code = 87 ∨ l.code = 69 := by
  cases l <;> decide

theorem letter_AP (l : Letter) : AP l.code := by
  rcases letter_code_cases l with h | h | h | h <;> rw [h] <;> exact ⟨by decide, by decide⟩

/-! ### `str.format` -/

theorem scanField_rest (P : Nat → Prop) : ∀ (s acc name rest : Str), scanField s acc = .ok (name, rest) →
    (∀ c ∈ s, P c) → ∀ c ∈ rest, P c := by
  intro s
  induction s with
  | nil => intro acc name rest h; simp [scanField] at h
  | cons c s ih =>
    intro acc name rest h hs
    simp only [scanField] at h
    split at h
    · simp only [Except.ok.injEq, Prod.mk.injEq] at h
      obtain ⟨_, rfl⟩ := h
      exact fun d hd => hs d (by simp [hd])
    · split at h
      · simp at h
      · split at h
        · simp at h
        · exact ih _ _ _ h (fun d hd => hs d (by simp [hd]))

theorem lookupKw_mem (kwargs : List (Str × Str)) (k v : Str) (h : lookupKw kwargs k = some v) :
    ∃ kv ∈ kwargs, kv.2 = v := by
  induction kwargs with
  | nil => simp [lookupKw] at h
  | cons kv rest ih =>
    obtain ⟨k', v'⟩ := kv
    simp only [lookupKw] at h
    split at h
    · simp only [Option.some.injEq] at h
      exact ⟨(k', v'), by simp, h⟩
    · obtain ⟨kv, hkv, e⟩ := ih h
      exact ⟨kv, by simp [hkv], e⟩

theorem pyFormatGo_forall (P : Nat → Prop) (args : List Str) (kwargs : List (Str × Str))
    (hargs : ∀ a ∈ args, ∀ c ∈ a, P c) (hkw : ∀ kv ∈ kwargs, ∀ c ∈ kv.2, P c) :
    ∀ (fuel : Nat) (t : Str) (st : AutoNum) (next : Nat) (acc out : Str),
      pyFormatGo args kwargs fuel t st next acc = .ok out →
      (∀ c ∈ t, P c) → (∀ c ∈ acc, P c) → ∀ c ∈ out, P c := by
  intro fuel
  induction fuel with
  | zero =>
    intro t st next acc out h _ hacc
    simp only [pyFormatGo, Except.ok.injEq] at h
    subst h; exact hacc
  | succ fuel ih =>
    intro t st next acc out h ht hacc
    cases t with
    | nil =>
      simp only [pyFormatGo, Except.ok.injEq] at h
      subst h; exact hacc
    | cons c rest =>
      have hc : P c := ht c (by simp)
      have hrest : ∀ d ∈ rest, P d := fun d hd => ht d (by simp [hd])
      have happ : ∀ piece : Str, (∀ d ∈ piece, P d) → ∀ d ∈ acc ++ piece, P d := by
        intro piece hp d hd
        rcases List.mem_append.mp hd with hd | hd
        · exact hacc d hd
        · exact hp d hd
      simp only [pyFormatGo] at h
      split at h
      · -- '}'
        split at h
        · rename_i rest' _
          exact ih _ _ _ _ _ h (fun d hd => hrest d (by simp [hd])) (happ [125] (by
            intro d hd; simp at hd; subst hd; exact hrest 125 (by simp)))
        · simp at h
      · split at h
        · -- '{'
          split at h
          · simp at h
          · rename_i rest' _
            exact ih _ _ _ _ _ h (fun d hd => hrest d (by simp [hd])) (happ [123] (by
              intro d hd; simp at hd; subst hd; exact hrest 123 (by simp)))
          · split at h
            · simp at h
            · rename_i name rest' hscan
              have hrest' := scanField_rest P _ _ _ _ hscan hrest
              split at h
              · split at h
                · simp at h
                · split at h
                  · simp at h
                  · rename_i v hv
                    exact ih _ _ _ _ _ h hrest' (happ v (hargs v (List.mem_of_getElem? hv)))
              · split at h
                · split at h
                  · simp at h
                  · split at h
                    · simp at h
                    · rename_i v hv
                      exact ih _ _ _ _ _ h hrest' (happ v (hargs v (List.mem_of_getElem? hv)))
                · split at h
                  · simp at h
                  · rename_i v hv
                    obtain ⟨kv, hkv, e⟩ := lookupKw_mem _ _ _ hv
                    exact ih _ _ _ _ _ h hrest' (happ v (by subst e; exact hkw kv hkv))
        · exact ih _ _ _ _ _ h hrest (happ [c] (by intro d hd; simp at hd; subst hd; exact hc))

theorem pyFormat_forall (P : Nat → Prop) (template : Str) (args : List Str) (kwargs : List (Str × Str)) (out : Str)
    (h : pyFormat template args kwargs = .ok out)
    (ht : ∀ c ∈ template, P c) (hargs : ∀ a ∈ args, ∀ c ∈ a, P c) (hkw : ∀ kv ∈ kwargs, ∀ c ∈ kv.2, P c) :
    ∀ c ∈ out, P c :=
  pyFormatGo_forall P args kwargs hargs hkw _ _ _ _ _ _ h ht (by simp)

/-! ### range tables -/

/-- every range of `ps` lies strictly to one side of every range of `hs` -/
def disjointRanges (ps hs : List (Nat × Nat)) : Bool :=
  ps.all fun p => hs.all fun h => decide (p.2 < h.1) || decide (h.2 < p.1)

theorem disjointRanges_sound (ps hs : List (Nat × Nat)) (hd : disjointRanges ps hs = true) (c : Nat)
    (hp : inRanges ps c = true) : inRanges hs c = false := by
  simp only [inRanges, List.any_eq_true, Bool.and_eq_true, decide_eq_true_eq] at hp
  obtain ⟨p, hpm, hp1, hp2⟩ := hp
  simp only [disjointRanges, List.all_eq_true, Bool.or_eq_true, decide_eq_true_eq] at hd
  cases hh : inRanges hs c with
  | false => rfl
  | true =>
    simp only [inRanges, List.any_eq_true, Bool.and_eq_true, decide_eq_true_eq] at hh
    obtain ⟨r, hrm, hr1, hr2⟩ := hh
    have := hd p hpm r hrm
    omega

/-- all ranges start above `n` -/
def rangesAbove (n : Nat) (rs : List (Nat × Nat)) : Bool := rs.all fun r => decide (n < r.1)

theorem rangesAbove_sound (n : Nat) (rs : List (Nat × Nat)) (h : rangesAbove n rs = true) (c : Nat) (hc : c ≤ n) :
    inRanges rs c = false := by
  simp only [rangesAbove, List.all_eq_true, decide_eq_true_eq] at h
  cases hh : inRanges rs c with
  | false => rfl
  | true =>
    simp only [inRanges, List.any_eq_true, Bool.and_eq_true, decide_eq_true_eq] at hh
    obtain ⟨r, hrm, hr1, _⟩ := hh
    have := h r hrm
    omega

/-- the hostile set of the live database, as ranges -/
def liveHostileRanges : List (Nat × Nat) :=
  [(0, 31), (127, 159), (0x2028, 0x2029), (0xD800, 0xDFFF)] ++ Generated.UnicodeClasses.cf

theorem liveHostile_eq (c : Nat) : hostile liveDb c = inRanges liveHostileRanges c := by
  have e : inRanges liveHostileRanges c =
      (((decide (0 ≤ c) && decide (c ≤ 31)) || ((decide (127 ≤ c) && decide (c ≤ 159)) ||
        ((decide (0x2028 ≤ c) && decide (c ≤ 0x2029)) || ((decide (0xD800 ≤ c) && decide (c ≤ 0xDFFF)) ||
          inRanges Generated.UnicodeClasses.cf c))))) := by
    simp [liveHostileRanges, inRanges]
  rw [e]
  simp only [hostile, isControl, isSeparator, isSurrogate, liveDb]
  generalize inRanges Generated.UnicodeClasses.cf c = b
  rw [Bool.eq_iff_iff]
  cases b <;> simp <;> omega

/-! ### runs of `Checker.tag` -/

theorem hostile_false_facts {db : UnicodeDB} {c : Nat} (h : hostile db c = false) :
    c ≠ 10 ∧ c ≠ 27 ∧ c ≠ 127 ∧ 32 ≤ c ∧ ¬(128 ≤ c ∧ c ≤ 159) ∧ db.format c = false ∧ c ≠ 0x2028 ∧ c ≠ 0x2029 := by
  unfold hostile at h
  simp only [Bool.or_eq_false_iff] at h
  obtain ⟨⟨⟨hc, hf⟩, hs⟩, _⟩ := h
  simp [isControl] at hc
  simp [isSeparator] at hs
  exact ⟨by omega, by omega, by omega, by omega, by omega, hf, by omega, by omega⟩

theorem findTag_mem {reg : List Tag} {n : Str} {t : Tag} (h : findTag reg n = some t) : t ∈ reg ∧ t.name = n := by
  unfold findTag at h
  exact ⟨List.mem_of_find?_eq_some h, by simpa using List.find?_some h⟩

theorem count_lines (lines : List Str) (h : ∀ l ∈ lines, 10 ∉ l) :
    newlines ((lines.map (· ++ [10])).flatten) = lines.length := by
  induction lines with
  | nil => rfl
  | cons l rest ih =>
    have h0 : List.count 10 l = 0 := List.count_eq_zero.mpr (h l (by simp))
    have := ih (fun x hx => h x (by simp [hx]))
    simp only [newlines] at this ⊢
    simp [List.count_append, h0, this]

/-- the calls that print (the tag is not in `ignore_tags`) -/
def printing (cfg : Config) (calls : List (Str × List Extra)) : List (Str × List Extra) :=
  calls.filter fun c => !cfg.ignore.contains c.1

theorem runTags_lines (db : UnicodeDB) (cfg : Config) :
    ∀ (calls : List (Str × List Extra)) (out : Str), runTags db cfg calls = .ok out →
      (∀ call ∈ calls, ∀ t ∈ cfg.registry, 10 ∉ format db t cfg.path call.2 (some (cfg.colours t))) →
      ∃ lines : List Str, lines.length = (printing cfg calls).length ∧ (∀ l ∈ lines, 10 ∉ l) ∧
        out = (lines.map (· ++ [10])).flatten := by
  intro calls
  induction calls with
  | nil =>
    intro out h _
    simp only [runTags, Except.ok.injEq] at h
    exact ⟨[], by simp [printing], by simp, by simp [← h]⟩
  | cons call rest ih =>
    intro out h hfmt
    obtain ⟨n, xs⟩ := call
    simp only [runTags] at h
    split at h
    · simp at h
    · rename_i o ho
      split at h
      · simp at h
      · rename_i o' ho'
        simp only [Except.ok.injEq] at h
        obtain ⟨lines, hlen, hnl, rfl⟩ := ih o' ho' (fun c hc => hfmt c (by simp [hc]))
        simp only [checkerTag] at ho
        split at ho
        · rename_i hign
          simp only [Except.ok.injEq] at ho
          subst ho
          have hign' : n ∈ cfg.ignore := by simpa using hign
          refine ⟨lines, ?_, hnl, by simpa using h.symm⟩
          simp [printing, hign'] at hlen ⊢
          exact hlen
        · rename_i hign
          split at ho
          · simp at ho
          · rename_i t ht
            simp only [Except.ok.injEq] at ho
            subst ho
            have htm := (findTag_mem ht).1
            refine ⟨format db t cfg.path xs (some (cfg.colours t)) :: lines, ?_, ?_, ?_⟩
            · have hign' : n ∉ cfg.ignore := by simpa using hign
              simp [printing, hign'] at hlen ⊢
              exact hlen
            · intro l hl
              rcases List.mem_cons.mp hl with rfl | hl
              · exact hfmt (n, xs) (by simp) t htm
              · exact hnl l hl
            · simp [← h]

/-- a run over `a ++ b` is the run over `a` followed by the run over `b` (the first unknown tag aborts) -/
theorem runTags_append (db : UnicodeDB) (cfg : Config) (a b : List (Str × List Extra)) :
    runTags db cfg (a ++ b) =
      match runTags db cfg a with
      | .error e => .error e
      | .ok oa =>
        match runTags db cfg b with
        | .error e => .error e
        | .ok ob => .ok (oa ++ ob) := by
  induction a with
  | nil =>
    simp only [List.nil_append, runTags]
    cases runTags db cfg b <;> simp
  | cons call rest ih =>
    obtain ⟨n, xs⟩ := call
    simp only [List.cons_append, runTags, ih]
    cases checkerTag db cfg n xs with
    | error e => rfl
    | ok o =>
      cases runTags db cfg rest with
      | error e => rfl
      | ok o' =>
        cases runTags db cfg b with
        | error e => rfl
        | ok ob => simp

/-- if every call, taken alone, prints `outs[i]`, the run prints their concatenation -/
theorem runTags_of_calls (db : UnicodeDB) (cfg : Config) :
    ∀ (calls : List (Str × List Extra)) (outs : List Str),
      calls.map (fun c => checkerTag db cfg c.1 c.2) = outs.map Except.ok →
      runTags db cfg calls = .ok outs.flatten := by
  intro calls
  induction calls with
  | nil =>
    intro outs h
    cases outs with
    | nil => simp [runTags]
    | cons o os => simp at h
  | cons call rest ih =>
    intro outs h
    obtain ⟨n, xs⟩ := call
    cases outs with
    | nil => simp at h
    | cons o os =>
      simp only [List.map_cons, List.cons.injEq] at h
      simp [runTags, h.1, ih os h.2]

end I18n.Tags
