import I18n.Lemmas.PyBraceScan
/-
python-brace: `FormatString(s)` raises only the module's own `Error` classes (when the interpreter has no digit limit, as
`import lib` arranges): the `assert`s, the `AttributeError` of `_printable_prefix`, the `ValueError` of `int()` and the
termination device of the model are unreachable.
-/
namespace I18n.PyBrace
open I18n.BraceChars

def PErr.isOwn : PErr → Prop
  | .own _ _ => True
  | .crash _ => False

theorem pyInt_ok {cfg : Cfg} (h : cfg.digitLimit = 0) (ds : List Char) : pyInt cfg ds = .ok (digitsVal ds) := by
  simp [pyInt, h]

theorem addArgument_nocrash {cfg : Cfg} (h : cfg.digitLimit = 0) (st : State) (name : Option (List Char)) (a : Arg) (e : Py.Exc) :
    addArgument cfg st name a ≠ .error (.crash e) := by
  unfold addArgument
  cases name with
  | none => simp only; split <;> (try split) <;> simp
  | some nm =>
    simp only [pyInt_ok h]
    split
    · split
      · simp
      · split <;> simp
    · simp

theorem liftAdd_own {cfg : Cfg} (h : cfg.digitLimit = 0) (text : List Char) (b : Bool) (st : State) (name : Option (List Char)) (a : Arg)
    (e : PErr) (he : liftAdd text b (addArgument cfg st name a) = .error e) : e.isOwn := by
  cases hadd : addArgument cfg st name a with
  | ok st' => simp [hadd, liftAdd] at he
  | error ae =>
    cases ae with
    | indexError => simp [hadd, liftAdd] at he; subst he; trivial
    | overflowError => simp [hadd, liftAdd] at he; subst he; trivial
    | crash x => exact absurd hadd (addArgument_nocrash h st name a x)

theorem nestedAdds_own {cfg : Cfg} (h : cfg.digitLimit = 0) (text : List Char) : ∀ (ns : List (List Char)) (st : State) (e : PErr),
    nestedAdds cfg text ns st = .error e → e.isOwn := by
  intro ns
  induction ns with
  | nil => intro st e he; simp [nestedAdds] at he
  | cons nm rest ih =>
    intro st e he
    simp only [nestedAdds] at he
    split at he
    · rename_i e' hl
      simp only [Except.error.injEq] at he
      subst he
      exact liftAdd_own h _ _ _ _ _ _ hl
    · exact ih _ _ he

theorem specCheck_nocrash {cfg : Cfg} (h : cfg.digitLimit = 0) (f : Spec) (e : Py.Exc) :
    specCheck cfg f ≠ .error (.inr e) := by
  simp only [specCheck, checkWidth, tpPrec, pyInt_ok h]
  intro hc
  split at hc
  · cases hc
  · split at hc
    · cases hc
    · split at hc
      · cases hc
      · split at hc
        · rename_i e' he'
          split at he'
          · cases he'
          · split at he'
            · simp only [Except.error.injEq] at he' hc; subst he'; cases hc
            · cases he'
        · split at hc
          · cases hc
          · split at hc
            · cases hc
            · split at hc <;> cases hc

theorem specTypes_nocrash {cfg : Cfg} (h : cfg.digitLimit = 0) (t : List Char) (e : Py.Exc) :
    specTypes cfg (':' :: t) ≠ .error (.inr e) := by
  simp only [specTypes]
  split
  · simp
  · exact specCheck_nocrash h _ e

theorem fieldInit_own {cfg : Cfg} (h : cfg.digitLimit = 0) (st : State) (f : RawField)
    (hfmt : ∀ fm, f.format = some fm → ∃ t, fm = ':' :: t) (e : PErr) (he : fieldInit cfg st f = .error e) : e.isOwn := by
  simp only [fieldInit] at he
  split at he
  · rename_i e' hl
    simp only [Except.error.injEq] at he; subst he
    exact liftAdd_own h _ _ _ _ _ _ hl
  · rename_i st1 _
    split at he
    · rename_i e' h2
      simp only [Except.error.injEq] at he; subst he
      split at h2
      · cases h2
      · rename_i fm hf
        obtain ⟨t, rfl⟩ := hfmt fm hf
        split at h2
        · split at h2
          · rename_i e'' hn
            simp only [Except.error.injEq] at h2; subst h2
            exact nestedAdds_own h _ _ _ _ hn
          · cases h2
        · split at h2
          · simp only [Except.error.injEq] at h2; subst h2; trivial
          · rename_i e'' hs
            exact absurd hs (specTypes_nocrash h t e'')
          · cases h2
    · split at he
      · cases he
      · split at he
        · split at he
          · cases he
          · simp only [Except.error.injEq] at he; subst he; trivial
        · simp only [Except.error.injEq] at he; subst he; trivial

theorem scanLiteral_nil {n : Nat} {c : Char} {cs r : List Char} (h : scanLiteral (n + 1) (c :: cs) = ([], r)) : c = '{' ∨ c = '}' := by
  unfold scanLiteral at h
  split at h
  · rename_i heq; cases heq
  · rename_i r0 heq
    cases hrec : scanLiteral n r0 with | mk t' r' => rw [hrec] at h; simp at h
  · rename_i r0 heq
    cases hrec : scanLiteral n r0 with | mk t' r' => rw [hrec] at h; simp at h
  · rename_i tl _ heq; simp only [List.cons.injEq] at heq; exact Or.inl heq.1
  · rename_i tl _ heq; simp only [List.cons.injEq] at heq; exact Or.inr heq.1
  · rename_i c' r0 _ _ _ _ heq
    cases hrec : scanLiteral n r0 with | mk t' r' => rw [hrec] at h; simp at h

theorem scanError_own {c : Char} (cs : List Char) (h : c = '{' ∨ c = '}') : (scanError (c :: cs)).isOwn := by
  have hp : isPrintableAscii c = true := by rcases h with rfl | rfl <;> decide
  simp [scanError, printablePrefix, hp, PErr.isOwn]

theorem loop_own {cfg : Cfg} (h : cfg.digitLimit = 0) : ∀ (fuel : Nat) (cs : List Char) (st : State) (items : List PreItem) (e : PErr),
    cs.length ≤ fuel → loop cfg fuel cs st items = .error e → e.isOwn := by
  intro fuel
  induction fuel with
  | zero =>
    intro cs st items e hl he
    cases cs with
    | nil => simp [loop] at he
    | cons c cs => simp at hl
  | succ fuel ih =>
    intro cs st items e hl he
    cases cs with
    | nil => simp [loop] at he
    | cons c cs =>
      simp only [loop] at he
      cases hlit : scanLiteral (c :: cs).length (c :: cs) with
      | mk t rest =>
        obtain ⟨hsplit, _⟩ := scanLiteral_spec _ _ _ _ hlit
        rw [hlit] at he
        cases t with
        | cons t0 ts =>
          simp only at he
          have : rest.length ≤ fuel := by
            have := congrArg List.length hsplit
            simp at this hl; omega
          exact ih _ _ _ _ this he
        | nil =>
          simp only at he
          split at he
          · simp only [Except.error.injEq] at he; subst he
            exact scanError_own cs (scanLiteral_nil hlit)
          · rename_i f rest' hsf
            have hshape := scanField_some hsf
            split at he
            · rename_i e' hfi
              simp only [Except.error.injEq] at he; subst he
              exact fieldInit_own h st f (fun fm hf => by obtain ⟨t, ht, _⟩ := hshape.format fm hf; exact ⟨t, ht⟩) _ hfi
            · have : rest'.length ≤ fuel := by
                have := congrArg List.length hshape.input
                simp at this hl; omega
              exact ih _ _ _ _ this he

theorem unify_own (s : List Char) : ∀ (m : List (Key × List Arg)) (e : PErr), unify s m = .error e → e.isOwn := by
  intro m
  induction m with
  | nil => intro e he; simp [unify] at he
  | cons p rest ih =>
    obtain ⟨k, as⟩ := p
    intro e he
    simp only [unify] at he
    split at he
    · simp only [Except.error.injEq] at he; subst he; trivial
    · split at he
      · rename_i e' hu
        simp only [Except.error.injEq] at he; subst he
        exact ih _ hu
      · cases he

/-- `brace_error_own`, for any `SSIZE_MAX` -/
theorem parseWith_own {cfg : Cfg} (h : cfg.digitLimit = 0) (s : List Char) (e : PErr) (he : parseWith cfg s = .error e) : e.isOwn := by
  simp only [parseWith] at he
  split at he
  · rename_i e' hl
    simp only [Except.error.injEq] at he; subst he
    exact loop_own h _ _ _ _ _ (Nat.le_refl _) hl
  · split at he
    · rename_i e' hu
      simp only [Except.error.injEq] at he; subst he
      exact unify_own s _ _ hu
    · cases he

end I18n.PyBrace
