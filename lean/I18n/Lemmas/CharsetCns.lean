import I18n.Lemmas.CharsetCnsK1
import I18n.Lemmas.CharsetCnsK2
import I18n.Lemmas.CharsetCnsK3
import I18n.Lemmas.CharsetCnsK4
import I18n.Lemmas.CharsetCnsK5
import I18n.Lemmas.CharsetCnsK6
import I18n.Lemmas.CharsetCnsK7
/-!
# C20: what the kernel's pass over the generated CNS 11643 tables means for the model's `cnsReal` / `invReal`
-/
namespace I18n.Charset.Cns
open I18n.Charset I18n.Generated.CharsetCns

theorem planes_all : checkPlanes planesAccepted = true := by
  have h1 := planes_1_2; have h2 := planes_3_4; have h3 := planes_5_6; have h4 := planes_7_15
  simp only [checkPlanes, List.all_cons, List.all_nil, Bool.and_true, Bool.and_eq_true, planesAccepted] at *
  exact ⟨h1.1, h1.2, h2.1, h2.2, h3.1, h3.2, h4.1, h4.2⟩

theorem pages_all : checkPages invPages = true := by
  have h1 := pages_a; have h2 := pages_b; have h3 := pages_c
  simp only [checkPages, List.all_cons, List.all_nil, Bool.and_true, Bool.and_eq_true, invPages] at *
  obtain ⟨a1, a2, a3, a4, a5, a6, a7⟩ := h1
  obtain ⟨b1, b2, b3, b4, b5, b6, b7⟩ := h2
  obtain ⟨c1, c2, c3, c4, c5, c6, c7, c8⟩ := h3
  exact ⟨a1, a2, a3, a4, a5, a6, a7, b1, b2, b3, b4, b5, b6, b7, c1, c2, c3, c4, c5, c6, c7, c8⟩

theorem tableEntry_zero (i : Nat) : tableEntry 0 i = 0 := by
  simp [tableEntry]

/-- a plane iconv accepts nothing of has the empty table -/
theorem cnsPlane_other (p : Nat) (h : planesAccepted.contains p = false) : cnsPlane p = 0 := by
  simp only [planesAccepted, List.contains_cons, List.contains_nil, Bool.or_false, Bool.or_eq_false_iff, beq_eq_false_iff_ne, ne_eq] at h
  obtain ⟨h1, h2, h3, h4, h5, h6, h7, h8⟩ := h
  have e : ∀ n, p ≠ n → Nat.beq p n = false := fun n hn => by
    cases hb : Nat.beq p n
    · rfl
    · exact (hn (Nat.eq_of_beq_eq_true hb)).elim
  simp only [cnsPlane, e _ h1, e _ h2, e _ h3, e _ h4, e _ h5, e _ h6, e _ h7, e _ h8, cond_false]

theorem invPage_other (k : Nat) (h : invPages.contains k = false) : invPage k = 0 := by
  simp only [invPages, List.contains_cons, List.contains_nil, Bool.or_false, Bool.or_eq_false_iff, beq_eq_false_iff_ne, ne_eq] at h
  have e : ∀ n, k ≠ n → Nat.beq k n = false := fun n hn => by
    cases hb : Nat.beq k n
    · rfl
    · exact (hn (Nat.eq_of_beq_eq_true hb)).elim
  obtain ⟨h1, h2, h3, h4, h5, h6, h7, h8, h9, h10, h11, h12, h13, h14, h15, h16, h17, h18, h19, h20, h21, h22⟩ := h
  simp only [invPage, e _ h1, e _ h2, e _ h3, e _ h4, e _ h5, e _ h6, e _ h7, e _ h8, e _ h9, e _ h10, e _ h11, e _ h12, e _ h13,
    e _ h14, e _ h15, e _ h16, e _ h17, e _ h18, e _ h19, e _ h20, e _ h21, e _ h22, cond_false]

theorem inRange_iff (x : Nat) : inRange x = true ↔ 0xA1 ≤ x ∧ x ≤ 0xFE := by
  simp [inRange, Nat.ble_eq]

theorem beq_false_iff (a b : Nat) : Nat.beq a b = false ↔ a ≠ b := by
  constructor
  · intro h hab; subst hab; simp [Nat.beq_refl] at h
  · intro h
    cases hb : Nat.beq a b
    · rfl
    · exact (h (Nat.eq_of_beq_eq_true hb)).elim

/-- what `cnsReal p r c = some ch` says -/
theorem cnsReal_some (p r c ch : Nat) (h : cnsReal p r c = some ch) :
    (0xA1 ≤ r ∧ r ≤ 0xFE) ∧ (0xA1 ≤ c ∧ c ≤ 0xFE) ∧ ch ≠ 0 ∧ tableEntry (cnsPlane p) ((r - 0xA1) * 94 + (c - 0xA1)) = ch := by
  unfold cnsReal at h
  cases hr : inRange r && inRange c
  · simp [hr] at h
  · simp only [hr, cond_true] at h
    cases hv : Nat.beq (tableEntry (cnsPlane p) ((r - 0xA1) * 94 + (c - 0xA1))) 0
    · simp only [hv, cond_false, Option.some.injEq] at h
      rw [Bool.and_eq_true, inRange_iff, inRange_iff] at hr
      refine ⟨hr.1, hr.2, ?_, h⟩
      rw [← h]; exact (beq_false_iff _ _).1 hv
    · simp [hv] at h

theorem cnsReal_of_entry (p r c ch : Nat) (hr : 0xA1 ≤ r ∧ r ≤ 0xFE) (hc : 0xA1 ≤ c ∧ c ≤ 0xFE) (h0 : ch ≠ 0)
    (h : tableEntry (cnsPlane p) ((r - 0xA1) * 94 + (c - 0xA1)) = ch) : cnsReal p r c = some ch := by
  unfold cnsReal
  have h1 : (inRange r && inRange c) = true := by rw [Bool.and_eq_true, inRange_iff, inRange_iff]; exact ⟨hr, hc⟩
  have h2 : Nat.beq ch 0 = false := (beq_false_iff _ _).2 h0
  simp only [h1, cond_true, h, h2, cond_false]

/-- a character stands only in the planes iconv accepts -/
theorem cnsReal_plane (p r c ch : Nat) (h : cnsReal p r c = some ch) : planesAccepted.contains p = true := by
  obtain ⟨_, _, h0, he⟩ := cnsReal_some p r c ch h
  cases hc : planesAccepted.contains p
  · rw [cnsPlane_other p hc, tableEntry_zero] at he
    exact (h0 he.symm).elim
  · rfl

/-- **every unit iconv decodes**: the character is a Unicode scalar value above ASCII, not a TAG character, and the encoder
    writes it at this very position — the only exception is `8E A3 A1 B8` -/
theorem cnsReal_canonical (p r c ch : Nat) (h : cnsReal p r c = some ch) :
    scalarOk ch = true ∧ (invReal ch = some (p, r, c) ∨ (p = 3 ∧ r = 0xA1 ∧ c = 0xB8)) := by
  have hp := cnsReal_plane p r c ch h
  obtain ⟨hr, hc, h0, he⟩ := cnsReal_some p r c ch h
  have hall := planes_all
  rw [checkPlanes, List.all_eq_true] at hall
  have hpl := hall p (by simpa using hp)
  have hidx : (r - 0xA1) * 94 + (c - 0xA1) < 8836 := by omega
  have hu := allBelow_sound _ _ hpl _ hidx
  simp only [unitFast, he, Bool.or_eq_true, Bool.and_eq_true] at hu
  rcases hu with hz | ⟨hs, hu⟩
  · exact (h0 (Nat.eq_of_beq_eq_true hz)).elim
  · refine ⟨hs, ?_⟩
    rcases hu with hinv | hdup
    · left
      have hinv := Nat.eq_of_beq_eq_true hinv
      have e1 : ((r - 0xA1) * 94 + (c - 0xA1)) / 94 + 0xA1 = r := by omega
      have e2 : ((r - 0xA1) * 94 + (c - 0xA1)) % 94 + 0xA1 = c := by omega
      rw [e1, e2] at hinv
      unfold invReal
      simp only [hinv]
      have hw : Nat.beq (p * 65536 + r * 256 + c) 0 = false := (beq_false_iff _ _).2 (by omega)
      simp only [hw, cond_false]
      have a1 : (p * 65536 + r * 256 + c) / 65536 = p := by omega
      have a2 : (p * 65536 + r * 256 + c) / 256 % 256 = r := by omega
      have a3 : (p * 65536 + r * 256 + c) % 256 = c := by omega
      rw [a1, a2, a3]
    · right
      simp only [isDup, Bool.and_eq_true] at hdup
      have hp3 := Nat.eq_of_beq_eq_true hdup.1
      have hi := Nat.eq_of_beq_eq_true hdup.2
      exact ⟨hp3, by omega, by omega⟩

/-- **every character iconv encodes**: it is above ASCII, and the position it is written at decodes back to it -/
theorem invReal_sound (ch p r c : Nat) (h : invReal ch = some (p, r, c)) : cnsReal p r c = some ch ∧ 0x80 ≤ ch := by
  unfold invReal at h
  cases hw : Nat.beq (invEntry ch) 0
  · simp only [hw, cond_false, Option.some.injEq, Prod.mk.injEq] at h
    obtain ⟨rfl, rfl, rfl⟩ := h
    have hw0 : invEntry ch ≠ 0 := (beq_false_iff _ _).1 hw
    cases hk : invPages.contains (ch / 4096)
    · exfalso; apply hw0
      simp [invEntry, invPage_other _ hk]
    · have hall := pages_all
      rw [checkPages, List.all_eq_true] at hall
      have hpg := hall (ch / 4096) (by simpa using hk)
      have hlo : ch % 4096 < 4096 := Nat.mod_lt _ (by omega)
      have hu := allBelow_sound _ _ hpg _ hlo
      have hch : ch / 4096 * 4096 + ch % 4096 = ch := by omega
      simp only [charFast, hch] at hu
      change (Nat.beq (invEntry ch) 0 || _) = true at hu
      simp only [hw, Bool.false_or, Bool.and_eq_true, Nat.ble_eq, inRange_iff] at hu
      obtain ⟨⟨⟨h80, hr⟩, hc⟩, he⟩ := hu
      have he := Nat.eq_of_beq_eq_true he
      exact ⟨cnsReal_of_entry _ _ _ _ hr hc (by omega) he, h80⟩
  · simp [hw] at h

/-- the duplicate: U+5344 stands at `A4 BF` (plane 1) and at `8E A3 A1 B8`; the encoder writes the former -/
theorem dup_fact : cnsReal 3 0xA1 0xB8 = some 0x5344 ∧ cnsReal 1 0xA4 0xBF = some 0x5344 ∧ invReal 0x5344 = some (1, 0xA4, 0xBF) := by
  decide +kernel

/-- glibc drops exactly the 128 TAG characters (the sweep over U+0080..U+10FFFF found no other character converted to nothing) -/
theorem ignored_pin : ignoredRanges = [(0xE0000, 0xE007F)] ∧ (∀ c, isTag c = true ↔ 0xE0000 ≤ c ∧ c ≤ 0xE007F) := by
  refine ⟨by decide, fun c => ?_⟩
  simp only [isTag, beq_iff_eq]
  omega

end I18n.Charset.Cns
