import I18n.Spec.Mo
/-! Byte-level lemmas for the MO model: slices, 32-bit words, `split`, lexicographic order. -/
namespace I18n.Mo
open I18n.Mo.Spec

/-! ### slices -/

theorem Spec.Slice.length_le {b : Bytes} {off : Nat} {s : Bytes} (h : Slice b off s) : off + s.length ≤ b.length := by
  obtain ⟨pre, post, rfl, rfl⟩ := h
  simp only [List.length_append]; omega

theorem slice_eq_of_Slice {b : Bytes} {off : Nat} {s : Bytes} (h : Slice b off s) :
    slice b off (off + s.length) = s := by
  obtain ⟨pre, post, rfl, rfl⟩ := h
  simp [slice, List.append_assoc, List.take_append]

theorem Slice_of_slice {b : Bytes} {off n : Nat} (h : off + n ≤ b.length) :
    Slice b off (slice b off (off + n)) ∧ (slice b off (off + n)).length = n := by
  refine ⟨⟨b.take off, b.drop (off + n), ?_, ?_⟩, ?_⟩
  · simp only [slice]
    have h1 : List.drop off (List.take (off + n) b) = List.take n (List.drop off b) := by
      rw [List.drop_take]; simp
    rw [h1, List.append_assoc]
    have h2 : List.drop (off + n) b = List.drop n (List.drop off b) := by
      rw [List.drop_drop]
    rw [h2, List.take_append_drop, List.take_append_drop]
  · simp; omega
  · simp [slice]; omega

theorem Spec.Slice.append {b : Bytes} {off : Nat} {s t : Bytes} (h1 : Slice b off s) (h2 : Slice b (off + s.length) t) :
    Slice b off (s ++ t) := by
  obtain ⟨p1, q1, e1, l1⟩ := h1
  obtain ⟨p2, q2, e2, l2⟩ := h2
  have e : p1 ++ s ++ q1 = p2 ++ (t ++ q2) := by rw [← e1, e2, List.append_assoc]
  have hl : (p1 ++ s).length = p2.length := by simp [l1, l2]
  obtain ⟨ha, hb⟩ := List.append_inj e hl
  exact ⟨p1, q2, by rw [e1, hb]; simp [List.append_assoc], l1⟩

theorem Spec.Slice.left {b : Bytes} {off : Nat} {s t : Bytes} (h : Slice b off (s ++ t)) : Slice b off s := by
  obtain ⟨p, q, e, l⟩ := h
  exact ⟨p, t ++ q, by rw [e]; simp [List.append_assoc], l⟩

theorem Spec.Slice.right {b : Bytes} {off : Nat} {s t : Bytes} (h : Slice b off (s ++ t)) : Slice b (off + s.length) t := by
  obtain ⟨p, q, e, l⟩ := h
  exact ⟨p ++ s, q, by rw [e]; simp [List.append_assoc], by simp [l]⟩

theorem Spec.Slice.unique {b : Bytes} {off : Nat} {s t : Bytes} (h1 : Slice b off s) (h2 : Slice b off t)
    (hl : s.length = t.length) : s = t := by
  obtain ⟨p1, q1, e1, l1⟩ := h1
  obtain ⟨p2, q2, e2, l2⟩ := h2
  have e : p1 ++ (s ++ q1) = p2 ++ (t ++ q2) := by rw [← List.append_assoc, ← List.append_assoc, ← e1, e2]
  obtain ⟨_, hb⟩ := List.append_inj e (by rw [l1, l2])
  exact (List.append_inj hb hl).1

theorem Spec.Slice.getElem? {b : Bytes} {off : Nat} {s : Bytes} (h : Slice b off s) (i : Nat) (hi : i < s.length) :
    b[off + i]? = s[i]? := by
  obtain ⟨p, q, rfl, rfl⟩ := h
  rw [List.append_assoc, List.getElem?_append_right (by omega)]
  simp [List.getElem?_append_left hi]

theorem Spec.Slice.prefix_iff {b s : Bytes} : Slice b 0 s ↔ s <+: b := by
  constructor
  · rintro ⟨p, q, e, l⟩
    have : p = [] := List.eq_nil_of_length_eq_zero l
    subst this
    exact ⟨q, by simpa using e.symm⟩
  · rintro ⟨q, e⟩
    exact ⟨[], q, by simpa using e.symm, rfl⟩

theorem slice_zero_of_Slice {b s : Bytes} (h : Slice b 0 s) : slice b 0 s.length = s := by
  have := slice_eq_of_Slice h
  simpa using this

/-! ### 32-bit words -/

theorem word_lt (be : Bool) (a b c d : UInt8) : word be a b c d < 2 ^ 32 := by
  have := a.toNat_lt; have := b.toNat_lt; have := c.toNat_lt; have := d.toNat_lt
  cases be <;> simp only [word] <;> simp <;> omega

theorem encodeWord_length (be : Bool) (w : Nat) : (encodeWord be w).length = 4 := by
  cases be <;> simp [encodeWord]

theorem encodeWord_word (be : Bool) (a b c d : UInt8) : encodeWord be (word be a b c d) = [a, b, c, d] := by
  have ha := a.toNat_lt; have hb := b.toNat_lt; have hc := c.toNat_lt; have hd := d.toNat_lt
  have e (x : UInt8) (n : Nat) (h : n = x.toNat) : UInt8.ofNat n = x := by subst h; exact UInt8.ofNat_toNat
  cases be <;> simp only [encodeWord, word, Bool.false_eq_true, if_false, if_true] <;>
    (congr 1; · apply e; omega
     congr 1; · apply e; omega
     congr 1; · apply e; omega
     congr 1; apply e; omega)

theorem unpack_encodeWord (be : Bool) (w : Nat) (h : w < 2 ^ 32) : unpack be 1 (encodeWord be w) = .ok [w] := by
  have e (n : Nat) : (UInt8.ofNat n).toNat = n % 256 := by simp
  cases be <;> simp only [encodeWord, unpack, word, e, Bool.false_eq_true, if_false, if_true] <;>
    (congr 2; omega)

theorem unpack_encodeWord2 (be : Bool) (v w : Nat) (hv : v < 2 ^ 32) (hw : w < 2 ^ 32) :
    unpack be 2 (encodeWord be v ++ encodeWord be w) = .ok [v, w] := by
  have e (n : Nat) : (UInt8.ofNat n).toNat = n % 256 := by simp
  cases be <;> simp only [encodeWord, unpack, word, e, Bool.false_eq_true, if_false, if_true, List.cons_append, List.nil_append] <;>
    (congr 2; · omega
     congr 1; omega)

theorem Spec.WordAt.unique {be : Bool} {b : Bytes} {off v w : Nat} (h1 : WordAt be b off v) (h2 : WordAt be b off w) : v = w := by
  have e := Spec.Slice.unique h1.2 h2.2 (by rw [encodeWord_length, encodeWord_length])
  have a := unpack_encodeWord be v h1.1
  rw [e, unpack_encodeWord be w h2.1] at a
  cases a; rfl

theorem Slice_singleton {b : Bytes} {i : Nat} {c : UInt8} (h : b[i]? = some c) : Slice b i [c] := by
  have hi : i < b.length := by
    rcases Nat.lt_or_ge i b.length with h' | h'
    · exact h'
    · rw [List.getElem?_eq_none h'] at h; cases h
  obtain ⟨hs, hl⟩ := Slice_of_slice (b := b) (off := i) (n := 1) (by omega)
  have h1 := Spec.Slice.getElem? hs 0 (by omega)
  rw [Nat.add_zero, h] at h1
  match hx : slice b i (i + 1), hl, h1 with
  | [x], _, h1 =>
    simp at h1; subst h1
    rw [hx] at hs; exact hs

/-! ### `split` -/

theorem split_zero (sep : UInt8) (bs : Bytes) : split sep 0 bs = [bs] := by
  cases bs <;> rfl

theorem split_no_sep (sep : UInt8) (k : Nat) (a : Bytes) (h : sep ∉ a) : split sep k a = [a] := by
  induction a generalizing k with
  | nil => cases k <;> rfl
  | cons x a ih =>
    cases k with
    | zero => rfl
    | succ k =>
      have hx : x ≠ sep := fun e => h (by simp [e])
      have ha : sep ∉ a := fun m => h (List.mem_cons_of_mem _ m)
      simp only [split, hx, if_false, ih (k + 1) ha]

theorem split_append_sep (sep : UInt8) (k : Nat) (a r : Bytes) (h : sep ∉ a) :
    split sep (k + 1) (a ++ sep :: r) = a :: split sep k r := by
  induction a with
  | nil => simp [split]
  | cons x a ih =>
    have hx : x ≠ sep := fun e => h (by simp [e])
    have ha : sep ∉ a := fun m => h (List.mem_cons_of_mem _ m)
    simp only [List.cons_append, split, hx, if_false, ih ha]

theorem split_cases (sep : UInt8) (k : Nat) (bs : Bytes) :
    (split sep k bs = [bs] ∧ (k = 0 ∨ sep ∉ bs)) ∨
    (∃ k' a r, k = k' + 1 ∧ sep ∉ a ∧ bs = a ++ sep :: r ∧ split sep k bs = a :: split sep k' r) := by
  induction bs generalizing k with
  | nil => left; exact ⟨by cases k <;> rfl, Or.inr (by simp)⟩
  | cons x bs ih =>
    cases k with
    | zero => left; exact ⟨rfl, Or.inl rfl⟩
    | succ k =>
      by_cases hx : x = sep
      · right; exact ⟨k, [], bs, rfl, by simp, by simp [hx], by simp [split, hx]⟩
      · rcases ih (k + 1) with ⟨h1, h2⟩ | ⟨k', a, r, hk, ha, hb, hs⟩
        · left
          refine ⟨by simp only [split, hx, if_false, h1], Or.inr ?_⟩
          rcases h2 with h2 | h2
          · omega
          · intro m; rcases List.mem_cons.1 m with m | m
            · exact hx m.symm
            · exact h2 m
        · right
          refine ⟨k', x :: a, r, hk, ?_, by simp [hb], by simp only [split, hx, if_false, hs]⟩
          intro m; rcases List.mem_cons.1 m with m | m
          · exact hx m.symm
          · exact ha m

theorem splitAll_no_sep (sep : UInt8) (a : Bytes) (h : sep ∉ a) : splitAll sep a = [a] := by
  induction a with
  | nil => rfl
  | cons x a ih =>
    have hx : x ≠ sep := fun e => h (by simp [e])
    have ha : sep ∉ a := fun m => h (List.mem_cons_of_mem _ m)
    simp only [splitAll, hx, if_false, ih ha]

theorem splitAll_append_sep (sep : UInt8) (a r : Bytes) (h : sep ∉ a) :
    splitAll sep (a ++ sep :: r) = a :: splitAll sep r := by
  induction a with
  | nil => simp [splitAll]
  | cons x a ih =>
    have hx : x ≠ sep := fun e => h (by simp [e])
    have ha : sep ∉ a := fun m => h (List.mem_cons_of_mem _ m)
    simp only [List.cons_append, splitAll, hx, if_false, ih ha]

theorem splitAll_join0 (forms : List Bytes) (hne : forms ≠ []) (h : ∀ f ∈ forms, (0 : UInt8) ∉ f) :
    splitAll 0 (join0 forms) = forms := by
  induction forms with
  | nil => exact absurd rfl hne
  | cons f fs ih =>
    cases fs with
    | nil => exact splitAll_no_sep 0 f (h f (by simp))
    | cons g gs =>
      simp only [join0]
      rw [splitAll_append_sep 0 f _ (h f (by simp)), ih (by simp) (fun x hx => h x (List.mem_cons_of_mem _ hx))]

theorem join0_cons_cons (x : UInt8) (p : Bytes) (ps : List Bytes) : join0 ((x :: p) :: ps) = x :: join0 (p :: ps) := by
  cases ps <;> simp [join0]

theorem splitAll_spec (V : Bytes) :
    splitAll 0 V ≠ [] ∧ (∀ f ∈ splitAll 0 V, (0 : UInt8) ∉ f) ∧ join0 (splitAll 0 V) = V := by
  induction V with
  | nil => simp [splitAll, join0]
  | cons x V ih =>
    obtain ⟨h1, h2, h3⟩ := ih
    by_cases hx : x = 0
    · subst hx
      simp only [splitAll, if_true]
      refine ⟨by simp, ?_, ?_⟩
      · intro f hf; rcases List.mem_cons.1 hf with hf | hf
        · subst hf; simp
        · exact h2 f hf
      · match hs : splitAll 0 V, h1, h3 with
        | g :: gs, _, h3 => simp [join0, h3]
    · match hs : splitAll 0 V, h1, h2, h3 with
      | g :: gs, _, h2, h3 =>
        simp only [splitAll, hx, if_false, hs]
        refine ⟨by simp, ?_, ?_⟩
        · intro f hf; rcases List.mem_cons.1 hf with hf | hf
          · subst hf; intro m; rcases List.mem_cons.1 m with m | m
            · exact hx m.symm
            · exact h2 g (by simp) m
          · exact h2 f (List.mem_cons_of_mem _ hf)
        · rw [join0_cons_cons, h3]

/-! ### `bytes <` is the lexicographic order -/

theorem bytesLt_iff (a b : Bytes) : bytesLt a b = true ↔ a < b := by
  induction a generalizing b with
  | nil => cases b <;> simp [bytesLt, List.nil_lt_cons]
  | cons x a ih =>
    cases b with
    | nil => simp [bytesLt]
    | cons y b =>
      rw [List.cons_lt_cons_iff]
      simp only [bytesLt]
      by_cases h1 : x < y
      · simp [h1]
      · by_cases h2 : y < x
        · simp only [h1, h2, if_false, if_true]
          constructor
          · intro h; cases h
          · rintro (h | ⟨h, _⟩)
            · exact h.elim
            · subst h; exact absurd h2 h1
        · have : x = y := by
            rw [UInt8.lt_iff_toNat_lt] at h1 h2
            exact UInt8.toNat_inj.1 (by omega)
          subst this
          simp [h1, ih]

end I18n.Mo
