import I18n.Lemmas.FmtCheckNamed
/-!
# The three comparators for named arguments in closed form, against `Spec.FmtCompare`
-/
namespace I18n.FmtCheck
open I18n I18n.FmtSig I18n.Spec.FmtCompare

/-! ## perl-brace -/

/-- a frozenset, listed without repetition -/
def PerlWf (s : PerlBraceSig) : Prop := s.args.Nodup

/-- reference view: the set of placeholder names -/
def perlNamed (s : PerlBraceSig) : Named (List Char) Unit := s.args.map fun k => (k, ())

@[simp] theorem keys_perlNamed (s : PerlBraceSig) : keys (perlNamed s) = s.args := by
  simp [keys, perlNamed, Function.comp_def]

def perlUnknownTag (pfx : Extra) (srcLoc dstLoc : List Char) (k : List Char) : TagCall :=
  tagUnknown "perl-brace-format-string-unknown-argument" pfx (.str k) srcLoc dstLoc

def perlMissingTag (pfx : Extra) (srcLoc dstLoc : List Char) (k : List Char) : TagCall :=
  tagMissing "perl-brace-format-string-missing-argument" pfx (.str k) srcLoc dstLoc

/-- the single missing placeholder is tolerated -/
def perlTolerated (src dst : PerlBraceSig) (omittedOk : Bool) : Bool :=
  (src.args.filter (fun k => !dst.args.contains k)).length == 1 && omittedOk

theorem checkArgsPerlBrace_eq (pfx : Extra) (srcLoc : List Char) (src : PerlBraceSig) (dstLoc : List Char) (dst : PerlBraceSig)
    (omittedOk : Bool) :
    checkArgsPerlBrace pfx srcLoc src dstLoc dst omittedOk = .ok (
      (sortBy strLt (dst.args.filter (fun k => !src.args.contains k))).map (perlUnknownTag pfx srcLoc dstLoc) ++
      (sortBy strLt (if perlTolerated src dst omittedOk then [] else src.args.filter (fun k => !dst.args.contains k))).map
        (perlMissingTag pfx srcLoc dstLoc)) := rfl

theorem checkArgsPerlBrace_tags (pfx : Extra) (srcLoc : List Char) (src : PerlBraceSig) (dstLoc : List Char) (dst : PerlBraceSig)
    (omittedOk : Bool) :
    ∃ tags, checkArgsPerlBrace pfx srcLoc src dstLoc dst omittedOk = .ok tags ∧
      ∀ t, t ∈ tags ↔
        (∃ k, Unknown (perlNamed src) (perlNamed dst) k ∧ t = perlUnknownTag pfx srcLoc dstLoc k) ∨
        (∃ k, Missing (perlNamed src) (perlNamed dst) k ∧ perlTolerated src dst omittedOk = false ∧
          t = perlMissingTag pfx srcLoc dstLoc k) := by
  refine ⟨_, checkArgsPerlBrace_eq .., fun t => ?_⟩
  rw [List.mem_append, List.mem_map, List.mem_map]
  unfold Unknown Missing
  rw [keys_perlNamed, keys_perlNamed]
  constructor
  · rintro (⟨k, hk, rfl⟩ | ⟨k, hk, rfl⟩)
    · rw [mem_sortBy] at hk
      exact Or.inl ⟨k, (mem_filter_not_contains _ _ k).1 hk, rfl⟩
    · right
      rw [mem_sortBy] at hk
      cases htol : perlTolerated src dst omittedOk with
      | true => rw [htol] at hk; cases hk
      | false =>
        rw [htol] at hk
        exact ⟨k, (mem_filter_not_contains _ _ k).1 hk, rfl, rfl⟩
  · rintro (⟨k, hk, rfl⟩ | ⟨k, hk, htol, rfl⟩)
    · exact Or.inl ⟨k, by rw [mem_sortBy]; exact (mem_filter_not_contains _ _ k).2 hk, rfl⟩
    · right
      refine ⟨k, ?_, rfl⟩
      rw [mem_sortBy, htol]
      exact (mem_filter_not_contains _ _ k).2 hk

theorem perlTolerated_iff (src dst : PerlBraceSig) (hs : PerlWf src) (omittedOk : Bool) :
    perlTolerated src dst omittedOk = true ↔ omittedOk = true ∧ ∃ k, OnlyMissing (perlNamed src) (perlNamed dst) k := by
  unfold perlTolerated OnlyMissing Missing
  simp only [Bool.and_eq_true, beq_iff_eq, keys_perlNamed]
  constructor
  · rintro ⟨hl, ho⟩
    refine ⟨ho, ?_⟩
    match hm : src.args.filter (fun k => !dst.args.contains k), hl with
    | [k], _ => exact ⟨k, (missing_singleton_iff hs k).1 hm⟩
  · rintro ⟨ho, k, hk⟩
    rw [(missing_singleton_iff hs k).2 hk]
    exact ⟨rfl, ho⟩

/-! ## python-brace -/

def BraceWf (s : PyBraceSig) : Prop := MapWf s.args

def noType : TySet := ⟨false, false, false⟩

/-- the type set of an argument: that of its first use (after parsing all uses carry the common set) -/
def headTy : List TySet → TySet
  | t :: _ => t
  | [] => noType

/-- reference view: argument (number or name) ↦ set of types it may have -/
def braceNamed (s : PyBraceSig) : Named BKey TySet := viewOf headTy s.args

/-- two type sets are compatible when they have a type in common -/
def Compatible (a b : TySet) : Prop := (a.inter b).nonempty = true

def braceTypeTag (pfx : Extra) (srcLoc dstLoc : List Char) (a b : TySet) : TagCall :=
  tagTypeMismatch "python-brace-format-string-argument-type-mismatch" pfx b.joined dstLoc a.joined srcLoc

def braceUnknownTag (pfx : Extra) (srcLoc dstLoc : List Char) (k : BKey) : TagCall :=
  tagUnknown "python-brace-format-string-unknown-argument" pfx k.extra srcLoc dstLoc

def braceMissingTag (pfx : Extra) (srcLoc dstLoc : List Char) (k : BKey) : TagCall :=
  tagMissing "python-brace-format-string-missing-argument" pfx k.extra srcLoc dstLoc

def braceMissing (src dst : PyBraceSig) : List BKey :=
  (src.args.map (·.1)).filter fun k => !(dst.args.map (·.1)).contains k

def braceTolerated (src dst : PyBraceSig) (omittedOk : Bool) : Bool :=
  mapTolerated (fun a : TySet => a.int) src.args (braceMissing src dst) omittedOk

/-- membership in what the shared loop emits, for a key with uses on both sides -/
theorem mem_clashAt {κ ν : Type} [DecidableEq κ] (clash : ν → ν → Option TagCall) (src dst : List (κ × List ν))
    (hs : ∀ p ∈ src, p.2 ≠ []) (hd : ∀ p ∈ dst, p.2 ≠ []) (k : κ) (t : TagCall) :
    t ∈ clashAt clash src dst k ↔
      ∃ s0 sr d0 dr, valueAt src k = some (s0 :: sr) ∧ valueAt dst k = some (d0 :: dr) ∧ clash s0 d0 = some t := by
  unfold clashAt
  cases hus : valueAt src k with
  | none => simp
  | some us =>
    cases us with
    | nil => exact absurd rfl (hs _ (get_mem hus))
    | cons s0 sr =>
      cases hud : valueAt dst k with
      | none => simp
      | some ud =>
        cases ud with
        | nil => exact absurd rfl (hd _ (get_mem hud))
        | cons d0 dr =>
          simp only [Option.mem_toList, Option.some.injEq, List.cons.injEq]
          constructor
          · intro h; exact ⟨s0, sr, d0, dr, ⟨rfl, rfl⟩, ⟨rfl, rfl⟩, h⟩
          · rintro ⟨_, _, _, _, ⟨rfl, rfl⟩, ⟨rfl, rfl⟩, h⟩; exact h

theorem checkArgsPyBrace_eq (pfx : Extra) (srcLoc : List Char) (src : PyBraceSig) (dstLoc : List Char) (dst : PyBraceSig)
    (omittedOk : Bool) (hs : BraceWf src) (hd : BraceWf dst) :
    checkArgsPyBrace pfx srcLoc src dstLoc dst omittedOk = .ok (
      (sortBy BKey.lt ((dst.args.map (·.1)).filter fun k => (src.args.map (·.1)).contains k)).flatMap
          (clashAt (braceClash pfx srcLoc dstLoc) src.args dst.args) ++
      (sortBy BKey.lt ((dst.args.map (·.1)).filter fun k => !(src.args.map (·.1)).contains k)).map (braceUnknownTag pfx srcLoc dstLoc) ++
      (sortBy BKey.lt (if braceTolerated src dst omittedOk then [] else braceMissing src dst)).map (braceMissingTag pfx srcLoc dstLoc)) := by
  have hcommon : ∀ k ∈ sortBy BKey.lt ((dst.args.map (·.1)).filter fun k => (src.args.map (·.1)).contains k),
      k ∈ keys src.args ∧ k ∈ keys dst.args := by
    intro k hk
    rw [mem_sortBy] at hk
    have := (mem_filter_contains _ _ k).1 hk
    exact ⟨this.2, this.1⟩
  have hmiss : ∀ k ∈ braceMissing src dst, k ∈ keys src.args := by
    intro k hk
    exact ((mem_filter_not_contains _ _ k).1 hk).1
  have h1 := mapTypeTags_ok (braceClash pfx srcLoc dstLoc) src.args dst.args hs.2 hd.2 _ hcommon
  have h2 := missingKeys_ok (fun a : TySet => a.int) src.args (braceMissing src dst) omittedOk hmiss
  unfold checkArgsPyBrace
  simp only
  rw [h1]
  simp only
  unfold braceMissing at h2
  rw [h2]
  rfl

theorem mem_braceClashAt (pfx : Extra) (srcLoc dstLoc : List Char) (src dst : PyBraceSig) (hs : BraceWf src) (hd : BraceWf dst)
    (k : BKey) (t : TagCall) :
    t ∈ clashAt (braceClash pfx srcLoc dstLoc) src.args dst.args k ↔
      ∃ a b, TypeDiffKey Compatible (braceNamed src) (braceNamed dst) k a b ∧ t = braceTypeTag pfx srcLoc dstLoc a b := by
  rw [mem_clashAt _ _ _ hs.2 hd.2]
  unfold TypeDiffKey braceNamed
  rw [get_viewOf, get_viewOf]
  constructor
  · rintro ⟨s0, sr, d0, dr, h1, h2, h3⟩
    refine ⟨s0, d0, ⟨by rw [h1]; rfl, by rw [h2]; rfl, ?_⟩, ?_⟩
    · unfold braceClash at h3
      unfold Compatible
      split at h3
      · rename_i hc; simpa using hc
      · cases h3
    · unfold braceClash at h3
      split at h3
      · simp only [Option.some.injEq] at h3; exact h3.symm
      · cases h3
  · rintro ⟨a, b, ⟨h1, h2, h3⟩, rfl⟩
    cases hus : valueAt src.args k with
    | none => rw [hus] at h1; cases h1
    | some us =>
      cases hud : valueAt dst.args k with
      | none => rw [hud] at h2; cases h2
      | some ud =>
        rw [hus] at h1; rw [hud] at h2
        cases us with
        | nil => exact absurd rfl (hs.2 _ (get_mem hus))
        | cons s0 sr =>
          cases ud with
          | nil => exact absurd rfl (hd.2 _ (get_mem hud))
          | cons d0 dr =>
            simp only [Option.map_some, headTy, Option.some.injEq] at h1 h2
            subst h1 h2
            refine ⟨s0, sr, d0, dr, rfl, rfl, ?_⟩
            unfold braceClash braceTypeTag
            unfold Compatible at h3
            simp only [Bool.not_eq_true] at h3
            simp [h3]

theorem checkArgsPyBrace_tags (pfx : Extra) (srcLoc : List Char) (src : PyBraceSig) (dstLoc : List Char) (dst : PyBraceSig)
    (omittedOk : Bool) (hs : BraceWf src) (hd : BraceWf dst) :
    ∃ tags, checkArgsPyBrace pfx srcLoc src dstLoc dst omittedOk = .ok tags ∧
      ∀ t, t ∈ tags ↔
        (∃ k a b, TypeDiffKey Compatible (braceNamed src) (braceNamed dst) k a b ∧ t = braceTypeTag pfx srcLoc dstLoc a b) ∨
        (∃ k, Unknown (braceNamed src) (braceNamed dst) k ∧ t = braceUnknownTag pfx srcLoc dstLoc k) ∨
        (∃ k, Missing (braceNamed src) (braceNamed dst) k ∧ braceTolerated src dst omittedOk = false ∧
          t = braceMissingTag pfx srcLoc dstLoc k) := by
  refine ⟨_, checkArgsPyBrace_eq pfx srcLoc src dstLoc dst omittedOk hs hd, fun t => ?_⟩
  have hks : keys (braceNamed src) = src.args.map (·.1) := keys_viewOf _ _
  have hkd : keys (braceNamed dst) = dst.args.map (·.1) := keys_viewOf _ _
  rw [List.mem_append, List.mem_append, List.mem_flatMap, List.mem_map, List.mem_map]
  unfold Unknown Missing
  rw [hks, hkd]
  constructor
  · rintro ((⟨k, _, hk⟩ | ⟨k, hk, rfl⟩) | ⟨k, hk, rfl⟩)
    · obtain ⟨a, b, h, rfl⟩ := (mem_braceClashAt pfx srcLoc dstLoc src dst hs hd k t).1 hk
      exact Or.inl ⟨k, a, b, h, rfl⟩
    · rw [mem_sortBy] at hk
      exact Or.inr (Or.inl ⟨k, (mem_filter_not_contains _ _ k).1 hk, rfl⟩)
    · rw [mem_sortBy] at hk
      right; right
      cases htol : braceTolerated src dst omittedOk with
      | true => rw [htol] at hk; cases hk
      | false =>
        rw [htol] at hk
        exact ⟨k, (mem_filter_not_contains _ _ k).1 hk, rfl, rfl⟩
  · rintro (⟨k, a, b, h, rfl⟩ | ⟨k, hk, rfl⟩ | ⟨k, hk, htol, rfl⟩)
    · left; left
      have hk1 : k ∈ src.args.map (·.1) := by
        have := (get_isSome_iff k (braceNamed src)).1 ⟨a, h.1⟩
        rwa [hks] at this
      have hk2 : k ∈ dst.args.map (·.1) := by
        have := (get_isSome_iff k (braceNamed dst)).1 ⟨b, h.2.1⟩
        rwa [hkd] at this
      exact ⟨k, by rw [mem_sortBy]; exact (mem_filter_contains _ _ k).2 ⟨hk2, hk1⟩,
        (mem_braceClashAt pfx srcLoc dstLoc src dst hs hd k _).2 ⟨a, b, h, rfl⟩⟩
    · left; right
      exact ⟨k, by rw [mem_sortBy]; exact (mem_filter_not_contains _ _ k).2 hk, rfl⟩
    · right
      refine ⟨k, ?_, rfl⟩
      rw [mem_sortBy, htol]
      exact (mem_filter_not_contains _ _ k).2 hk

/-- **when python-brace tolerates a missing argument**: the caller allows it, exactly one argument is missing, and
    `int` is among the types it may have (at every use) -/
theorem braceTolerated_iff (src dst : PyBraceSig) (hs : BraceWf src) (omittedOk : Bool) :
    braceTolerated src dst omittedOk = true ↔
      omittedOk = true ∧ ∃ k uses, OnlyMissing (braceNamed src) (braceNamed dst) k ∧ valueAt src.args k = some uses ∧
        ∀ u ∈ uses, u.int = true := by
  unfold braceTolerated mapTolerated OnlyMissing Missing
  have hks : keys (braceNamed src) = src.args.map (·.1) := keys_viewOf _ _
  have hkd : keys (braceNamed dst) = dst.args.map (·.1) := keys_viewOf _ _
  rw [hks, hkd]
  simp only [Bool.and_eq_true]
  constructor
  · rintro ⟨ho, h⟩
    refine ⟨ho, ?_⟩
    match hm : braceMissing src dst, h with
    | [k], h =>
      simp only at h
      cases hu : valueAt src.args k with
      | none => rw [hu] at h; cases h
      | some uses =>
        rw [hu] at h
        exact ⟨k, uses, (missing_singleton_iff hs.1 k).1 hm, hu, by simpa using h⟩
  · rintro ⟨ho, k, uses, hk, hu, hall⟩
    have : braceMissing src dst = [k] := (missing_singleton_iff hs.1 k).2 hk
    rw [this]
    simp only [hu]
    exact ⟨ho, by simpa using hall⟩

end I18n.FmtCheck
