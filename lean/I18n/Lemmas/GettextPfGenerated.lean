import I18n.Generated.GettextPf
/-!
# `parse_plural_forms` regenerated from `lib/gettext.py` equals the hand-written model (both values of `strict`)
-/
set_option linter.unusedSimpArgs false
namespace I18n.CheckPlurals.Gen
open I18n I18n.CheckPlurals I18n.Generated

/-- `parse_plural_forms(s, strict=False)` as regenerated = `parsePluralForms` -/
theorem lax_eq (s : List Char) : GettextPf.parse_plural_forms_lax s = Py.ofResult (parsePluralForms s) := by
  simp only [GettextPf.parse_plural_forms_lax, parsePluralForms, Py.intOfNumeral, Py.parseExpression]
  cases search [] s with
  | none => rfl
  | some m =>
    obtain ⟨lj, ds, ex, rj⟩ := m
    simp only []
    cases PluralParse.tooLong ds.length with
    | true => rfl
    | false =>
      simp only [Bool.false_eq_true, if_false]
      cases PluralParse.parse ex <;> rfl

/-- `parse_plural_forms(s)` (strict) as regenerated = `parsePluralFormsStrict` -/
theorem strict_eq (s : List Char) :
    GettextPf.parse_plural_forms_strict s =
      (match Py.ofResult (parsePluralFormsStrict s) with
       | .ok (n, e, _, _) => .ok (n, e)
       | .error x => .error x) := by
  simp only [GettextPf.parse_plural_forms_strict, parsePluralFormsStrict, parsePluralForms, Py.intOfNumeral, Py.parseExpression]
  cases search [] s with
  | none => rfl
  | some m =>
    obtain ⟨lj, ds, ex, rj⟩ := m
    simp only []
    cases PluralParse.tooLong ds.length with
    | true => rfl
    | false =>
      simp only [Bool.false_eq_true, if_false]
      cases PluralParse.parse ex with
      | ok e =>
        cases lj <;> cases rj <;> simp [Py.ofResult]
      | syntaxError => rfl
      | valueError => rfl

end I18n.CheckPlurals.Gen
